/* tabdump: print every field table the Reed-Solomon codecs use, from the unmodified sources.
 * The GF(2^m) codec's tables are static const initialisers in two headers; the GF(2^8) codec's
 * tables are built at run time by of_rs_init() inside its translation unit, which is #included
 * here so that the static arrays are reachable.  Output: one line per table:
 *     <name> <rows> <cols> <v0> <v1> ...      (row-major, decimal)
 * Also prints the advertised limits and a few macros as "def <name> <value>" lines.
 */
#include <stdio.h>
#include <string.h>
#include "lib_stable/reed-solomon_gf_2_8/of_reed-solomon_gf_2_8.c"
#include "lib_stable/reed-solomon_gf_2_m/galois_field_codes_utils/algebra_2_4.h"
#include "lib_stable/reed-solomon_gf_2_m/galois_field_codes_utils/algebra_2_8.h"
#include "lib_stable/ldpc_staircase/of_codec_profile.h"
#include "lib_common/linear_binary_codes_utils/binary_matrix/of_hamming_weight.c"

#define DUMP1(name, T) do { size_t n = sizeof(name)/sizeof(name[0]); printf("%s 1 %zu", #name, n); \
	for (size_t i = 0; i < n; i++) printf(" %lld", (long long)(T)name[i]); printf("\n"); } while (0)
#define DUMP2(name) do { size_t r = sizeof(name)/sizeof(name[0]); size_t c = sizeof(name[0])/sizeof(name[0][0]); \
	printf("%s %zu %zu", #name, r, c); for (size_t i = 0; i < r; i++) for (size_t j = 0; j < c; j++) \
	printf(" %u", (unsigned)name[i][j]); printf("\n"); } while (0)

int main(void)
{
	of_rs_init();
	DUMP1(of_gf_2_4_log, long long); DUMP1(of_gf_2_4_exp, long long); DUMP1(of_gf_2_4_inv, long long);
	DUMP2(of_gf_2_4_mul_table); DUMP2(of_gf_2_4_opt_mul_table);
	DUMP1(of_gf_2_8_log, long long); DUMP1(of_gf_2_8_exp, long long); DUMP1(of_gf_2_8_inv, long long);
	DUMP2(of_gf_2_8_mul_table);
	DUMP1(of_rs_gf_exp, long long); DUMP1(of_rs_gf_log, long long); DUMP1(of_rs_inverse, long long);
	DUMP2(of_gf_mul_table);
	DUMP1(of_hw8table, long long);
	{
		/* regeneration: the exported of_rs_init() may be called again; the tables must come out the same */
		static gf exp2[sizeof(of_rs_gf_exp)/sizeof(of_rs_gf_exp[0])], inv2[sizeof(of_rs_inverse)/sizeof(of_rs_inverse[0])];
		static gf mul2[sizeof(of_gf_mul_table)/sizeof(of_gf_mul_table[0])][sizeof(of_gf_mul_table[0])/sizeof(of_gf_mul_table[0][0])];
		static int log2_[sizeof(of_rs_gf_log)/sizeof(of_rs_gf_log[0])];
		long mism = 0, first = -1;
		memcpy (exp2, of_rs_gf_exp, sizeof(exp2)); memcpy (inv2, of_rs_inverse, sizeof(inv2));
		memcpy (mul2, of_gf_mul_table, sizeof(mul2)); memcpy (log2_, of_rs_gf_log, sizeof(log2_));
		of_rs_init();
		for (size_t i = 0; i < sizeof(exp2)/sizeof(exp2[0]); i++) if (exp2[i] != of_rs_gf_exp[i]) { mism++; if (first < 0) first = 1000000 + (long)i; }
		for (size_t i = 0; i < sizeof(inv2)/sizeof(inv2[0]); i++) if (inv2[i] != of_rs_inverse[i]) { mism++; if (first < 0) first = 2000000 + (long)i; }
		for (size_t i = 0; i < sizeof(log2_)/sizeof(log2_[0]); i++) if (log2_[i] != of_rs_gf_log[i]) { mism++; if (first < 0) first = 3000000 + (long)i; }
		for (size_t i = 0; i < sizeof(mul2)/sizeof(mul2[0]); i++) for (size_t j = 0; j < sizeof(mul2[0])/sizeof(mul2[0][0]); j++)
			if (mul2[i][j] != of_gf_mul_table[i][j]) { mism++; if (first < 0) first = 4000000 + (long)(i * 256 + j); }
		printf("def RS_REGEN_MISMATCHES %ld\n", mism);
		printf("def RS_REGEN_FIRST %ld\n", first < 0 ? 0 : first);
	}
	printf("def RS_GF_BITS %d\n", GF_BITS);
	printf("def RS_GF_SIZE %d\n", GF_SIZE);
	printf("def RS_UNROLL %d\n", UNROLL);
	printf("def RS_MAX_K %d\n", OF_REED_SOLOMON_MAX_NB_SOURCE_SYMBOLS_DEFAULT);
	printf("def RS_MAX_N %d\n", OF_REED_SOLOMON_MAX_NB_ENCODING_SYMBOLS_DEFAULT);
	printf("def RS2M_MAX_M %d\n", OF_REED_SOLOMON_2_M_MAX_M);
	printf("def LDPC_MAX_K %d\n", OF_LDPC_STAIRCASE_MAX_NB_SOURCE_SYMBOLS_DEFAULT);
	printf("def LDPC_MAX_N %d\n", OF_LDPC_STAIRCASE_MAX_NB_ENCODING_SYMBOLS_DEFAULT);
	/* the polynomial table is dumped as text whatever its element type is (strings of coefficients in the pinned source) */
	{
		char polybuf[80];
#define POLY_FMT(x) _Generic((x), char *: "%s", const char *: "%s", unsigned long: "int:0x%lx", long: "int:0x%lx", unsigned long long: "int:0x%llx", long long: "int:0x%llx", default: "int:0x%x")
		snprintf(polybuf, sizeof polybuf, POLY_FMT(of_rs_allPp[GF_BITS]), of_rs_allPp[GF_BITS]);
		printf("str RS_POLY %s\n", polybuf);
	}
	return 0;
}
