/* matdrv: line-protocol driver over the sparse and dense GF(2) matrix modules and the symbol-level linear
 * solver of ML decoding (C17, C18).  One result line (prefixed '@') per input line.  Linked against the
 * sanitizer build of the repository's current working tree; nothing here changes library behaviour.
 *
 *   salloc i nr nc | sfree i | sins i r c | sfind i r c | sdel i r c | sclear i | scopy a b
 *   scopyrows a b l | scopycols a b l | scopyfilled a b lr lc | s2d a b | d2s a b | sdump i
 *   dalloc i nr nc | dfree i | dclear i | dcopy a b | dcopyrows a b l | dcopycols a b l
 *   dget i r c | dset i r c v | dflip i r c | dxor i from to | ddump i
 *   solve p q len <rows of q 0/1 chars ;-separated> <rhs: N or hex, ;-separated>
 * lists l are comma separated.  Index arrays handed to the library are exact-size heap blocks. */
#include <stdio.h>
#include <stdlib.h>
#include <string.h>
#include <stdint.h>
#include "lib_common/of_openfec_api.h"
#include "lib_common/linear_binary_codes_utils/of_linear_binary_code.h"

#define NS 8
static of_mod2sparse *S[NS];
static of_mod2dense *D[NS];

static UINT32 *parse_list(const char *s, unsigned *n)
{
	unsigned cnt = 0, cap = 16; UINT32 *v = malloc(cap * sizeof *v);
	if (strcmp(s, "-")) for (const char *p = s; *p;) {
		char *e; unsigned long x = strtoul(p, &e, 10);
		if (e == p) break;
		if (cnt == cap) { cap *= 2; v = realloc(v, cap * sizeof *v); }
		v[cnt++] = (UINT32)x; p = (*e == ',') ? e + 1 : e;
	}
	/* exact-size copy so that the sanitizer sees any read past the list */
	UINT32 *w = malloc(cnt ? cnt * sizeof *w : 1);
	memcpy(w, v, cnt * sizeof *w); free(v); *n = cnt; return w;
}

static void sdump(of_mod2sparse *m)
{
	int back = 1;
	printf("\n@ok nr=%d nc=%d rows=", m->n_rows, m->n_cols);
	for (int i = 0; i < m->n_rows; i++) {
		int first = 1; unsigned cnt = 0;
		for (of_mod2entry *e = of_mod2sparse_first_in_row(m, i); !of_mod2sparse_at_end_row(e); e = of_mod2sparse_next_in_row(e)) {
			printf("%s%d", first ? "" : ",", of_mod2sparse_col(e)); first = 0; cnt++;
			if (of_mod2sparse_row(e) != i) back = 0;
			if (cnt > 100000) { back = 0; break; }
		}
		/* backward traversal must be the exact reverse */
		of_mod2entry *f = of_mod2sparse_last_in_row(m, i); int prev = 1 << 30; unsigned c2 = 0;
		for (; !of_mod2sparse_at_end_row(f) && c2 <= cnt; f = of_mod2sparse_prev_in_row(f)) { if (of_mod2sparse_col(f) >= prev) back = 0; prev = of_mod2sparse_col(f); c2++; }
		if (c2 != cnt) back = 0;
		printf(";");
	}
	printf(" cols=");
	for (int j = 0; j < m->n_cols; j++) {
		int first = 1; unsigned cnt = 0;
		for (of_mod2entry *e = of_mod2sparse_first_in_col(m, j); !of_mod2sparse_at_end_col(e); e = of_mod2sparse_next_in_col(e)) {
			printf("%s%d", first ? "" : ",", of_mod2sparse_row(e)); first = 0; cnt++;
			if (of_mod2sparse_col(e) != j) back = 0;
			if (cnt > 100000) { back = 0; break; }
		}
		of_mod2entry *f = of_mod2sparse_last_in_col(m, j); int prev = 1 << 30; unsigned c2 = 0;
		for (; !of_mod2sparse_at_end_col(f) && c2 <= cnt; f = of_mod2sparse_prev_in_col(f)) { if (of_mod2sparse_row(f) >= prev) back = 0; prev = of_mod2sparse_row(f); c2++; }
		if (c2 != cnt) back = 0;
		printf(";");
	}
	/* find on every cell */
	printf(" find=");
	for (int i = 0; i < m->n_rows; i++) { for (int j = 0; j < m->n_cols; j++) {
		of_mod2entry *e = of_mod2sparse_find(m, i, j);
		if (e && (of_mod2sparse_row(e) != i || of_mod2sparse_col(e) != j)) back = 0;
		putchar(e ? '1' : '0'); } putchar(';'); }
	printf(" erow="); for (int i = 0; i < m->n_rows; i++) putchar(of_mod2sparse_empty_row(m, i) ? '1' : '0');
	printf(" ecol="); for (int j = 0; j < m->n_cols; j++) putchar(of_mod2sparse_empty_col(m, j) ? '1' : '0');
	printf(" wrow="); for (int i = 0; i < m->n_rows; i++) printf("%s%u", i ? "," : "", of_mod2sparse_weight_row(m, i));
	/* entry pool: allocated blocks and length of the free list */
	unsigned nb = 0, nf = 0;
	for (of_mod2block *b = m->blocks; b; b = b->next) nb++;
	for (of_mod2entry *e = m->next_free; e && nf <= nb * of_mod2sparse_block; e = e->left) nf++;
	printf(" back=%d blocks=%u free=%u\n", back, nb, nf);
}

static void ddump(of_mod2dense *m)
{
	printf("\n@ok nr=%u nc=%u nw=%u w=", m->n_rows, m->n_cols, m->n_words);
	for (unsigned i = 0; i < m->n_rows; i++) { for (unsigned k = 0; k < m->n_words; k++) printf("%s%x", k ? "," : "", m->row[i][k]); printf(";"); }
	printf(" bits=");
	for (unsigned i = 0; i < m->n_rows; i++) { for (unsigned j = 0; j < m->n_cols; j++) putchar(of_mod2dense_get(m, i, j) ? '1' : '0'); putchar(';'); }
	printf(" rw="); for (unsigned i = 0; i < m->n_rows; i++) printf("%s%u", i ? "," : "", of_mod2dense_row_weight(m, i));
	printf(" cw="); for (unsigned j = 0; j < m->n_cols; j++) printf("%s%u", j ? "," : "", of_mod2dense_col_weight(m, j));
	printf(" empty="); for (unsigned i = 0; i < m->n_rows; i++) putchar(of_mod2dense_row_is_empty(m, i) ? '1' : '0');
	/* row_weight_ignore_first: compared for whole words only (its contract for other values is not documented) */
	printf(" rwi=");
	for (unsigned i = 0; i < m->n_rows; i++) { for (unsigned nb = 0; nb < m->n_cols; nb += 32) printf("%s%u", nb ? "," : "", of_mod2dense_row_weight_ignore_first(m, i, nb)); printf(";"); }
	printf("\n");
}

static unsigned hexval(int c) { return c <= '9' ? c - '0' : (c | 32) - 'a' + 10; }

int main(void)
{
	static char line[1 << 20], w1[1 << 19], w2[1 << 19];
	setvbuf(stdout, NULL, _IOLBF, 0);
	while (fgets(line, sizeof line, stdin)) {
		char op[32]; unsigned a = 0, b = 0, c = 0, d = 0;
		if (line[0] == '#' || line[0] == '\n') continue;
		if (sscanf(line, "%31s", op) != 1) continue;
		if (!strcmp(op, "case")) {
			for (int i = 0; i < NS; i++) if (S[i] || D[i]) { printf("\n@bad-op unreleased matrix %d\n", i); goto next; }
			printf("\n@ok\n"); goto next;
		}
		if (!strcmp(op, "solve")) {
			unsigned p, q, len;
			if (sscanf(line, "%*s %u %u %u %s %s", &p, &q, &len, w1, w2) != 5 || !p || !q) { printf("\n@bad-op\n"); goto next; }
			of_mod2dense *m = of_mod2dense_allocate(p, q);
			const char *s = w1;
			for (unsigned i = 0; i < p; i++) { for (unsigned j = 0; j < q; j++) { if (*s == '1') of_mod2dense_set(m, i, j, 1); if (*s) s++; } if (*s == ';') s++; }
			void **ct = calloc(p, sizeof(void *)), **vt = calloc(q, sizeof(void *));
			s = w2;
			for (unsigned i = 0; i < p; i++) {
				if (*s == 'N') { ct[i] = NULL; s++; }
				else { unsigned char *x = malloc(len ? len : 1); for (unsigned t = 0; t < len; t++) { x[t] = (unsigned char)(hexval(s[0]) * 16 + hexval(s[1])); s += 2; } ct[i] = x; }
				if (*s == ';') s++;
			}
			of_linear_binary_code_cb_t cb; memset(&cb, 0, sizeof cb);
			cb.encoding_symbol_length = len;
			cb.tmp_tab_symbols = calloc(p + q + 1, sizeof(void *));
			of_status_t st = of_linear_binary_code_solve_dense_system(&cb, m, ct, vt);
			printf("\n@ok st=%s", st == OF_STATUS_OK ? "OK" : st == OF_STATUS_FAILURE ? "FAILURE" : "OTHER");
			if (st == OF_STATUS_OK) { printf(" x=");
				for (unsigned j = 0; j < q; j++) { for (unsigned t = 0; t < len; t++) printf("%02x", vt[j] ? ((unsigned char *)vt[j])[t] : 0); printf(";"); } }
			printf("\n");
			for (unsigned i = 0; i < p; i++) free(ct[i]);
			for (unsigned j = 0; j < q; j++) free(vt[j]);
			free(ct); free(vt); free(cb.tmp_tab_symbols); of_mod2dense_free(m);
			goto next;
		}
		if (!strcmp(op, "solves")) {
			/* tall systems given sparsely: "solves p q len r:bits:rhs;r:bits:rhs;..." - every row not listed is zero with a NULL
			 * right-hand side; rhs is N or 2*len hex digits */
			unsigned p, q, len;
			if (sscanf(line, "%*s %u %u %u %s", &p, &q, &len, w1) != 4 || !p || !q) { printf("\n@bad-op\n"); goto next; }
			of_mod2dense *m = of_mod2dense_allocate(p, q);
			void **ct = calloc(p, sizeof(void *)), **vt = calloc(q, sizeof(void *));
			const char *s = w1;
			while (*s) {
				unsigned r = (unsigned)strtoul(s, (char **)&s, 10);
				if (*s != ':' || r >= p) break;
				s++;
				for (unsigned j = 0; j < q && (*s == '0' || *s == '1'); j++, s++) if (*s == '1') of_mod2dense_set(m, r, j, 1);
				if (*s != ':') break;
				s++;
				if (*s == 'N') s++;
				else { unsigned char *x = malloc(len ? len : 1); for (unsigned t = 0; t < len; t++) { x[t] = (unsigned char)(hexval(s[0]) * 16 + hexval(s[1])); s += 2; } free(ct[r]); ct[r] = x; }
				if (*s == ';') s++;
			}
			of_linear_binary_code_cb_t cb; memset(&cb, 0, sizeof cb);
			cb.encoding_symbol_length = len;
			cb.tmp_tab_symbols = calloc(p + q + 1, sizeof(void *));
			of_status_t st = of_linear_binary_code_solve_dense_system(&cb, m, ct, vt);
			printf("\n@ok st=%s", st == OF_STATUS_OK ? "OK" : st == OF_STATUS_FAILURE ? "FAILURE" : "OTHER");
			if (st == OF_STATUS_OK) { printf(" x=");
				for (unsigned j = 0; j < q; j++) { for (unsigned t = 0; t < len; t++) printf("%02x", vt[j] ? ((unsigned char *)vt[j])[t] : 0); printf(";"); } }
			printf("\n");
			for (unsigned i = 0; i < p; i++) free(ct[i]);
			for (unsigned j = 0; j < q; j++) free(vt[j]);
			free(ct); free(vt); free(cb.tmp_tab_symbols); of_mod2dense_free(m);
			goto next;
		}
		int n = sscanf(line, "%*s %u %u %u %u", &a, &b, &c, &d);
		if (n < 1 || a >= NS) { printf("\n@bad-op\n"); goto next; }
		/* ---- sparse ---- */
		if (!strcmp(op, "salloc")) {
			if (S[a]) { printf("\n@bad-op\n"); goto next; }
			S[a] = of_mod2sparse_allocate(b, c);
			printf("\n@ok %s\n", S[a] ? "m" : "null"); goto next;
		}
		if (!strcmp(op, "dalloc")) {
			if (D[a]) { printf("\n@bad-op\n"); goto next; }
			D[a] = of_mod2dense_allocate(b, c);
			printf("\n@ok %s\n", D[a] ? "m" : "null"); goto next;
		}
		if (op[0] == 's' && strcmp(op, "s2d") && !S[a]) { printf("\n@bad-op no matrix\n"); goto next; }
		if (op[0] == 'd' && strcmp(op, "d2s") && !D[a]) { printf("\n@bad-op no matrix\n"); goto next; }
		if (!strcmp(op, "sfree")) { of_mod2sparse_free(S[a]); free(S[a]); S[a] = NULL; printf("\n@ok\n"); goto next; }
		if (!strcmp(op, "sins")) {
			of_mod2entry *e0 = (b < (unsigned)S[a]->n_rows && c < (unsigned)S[a]->n_cols) ? of_mod2sparse_find(S[a], b, c) : NULL;
			of_mod2entry *e = of_mod2sparse_insert(S[a], b, c);
			if (!e) printf("\n@ok null\n");
			else printf("\n@ok new=%d at=%d,%d same=%d\n", e0 ? 0 : 1, of_mod2sparse_row(e), of_mod2sparse_col(e), e0 ? (e0 == e) : 1);
			goto next;
		}
		if (!strcmp(op, "sfind")) { of_mod2entry *e = of_mod2sparse_find(S[a], b, c); printf("\n@ok f=%d\n", e ? 1 : 0); goto next; }
		if (!strcmp(op, "sdel")) {
			of_mod2entry *e = of_mod2sparse_find(S[a], b, c);
			if (e) of_mod2sparse_delete(S[a], e);
			printf("\n@ok d=%d\n", e ? 1 : 0); goto next;
		}
		if (!strcmp(op, "sclear")) { of_mod2sparse_clear(S[a]); printf("\n@ok\n"); goto next; }
		if (!strcmp(op, "sdump")) { sdump(S[a]); goto next; }
		if (!strcmp(op, "scopy")) { if (b >= NS || !S[b]) { printf("\n@bad-op\n"); goto next; } of_mod2sparse_copy(S[a], S[b]); printf("\n@ok\n"); goto next; }
		if (!strcmp(op, "scopyrows") || !strcmp(op, "scopycols")) {
			unsigned cnt; if (b >= NS || !S[b] || sscanf(line, "%*s %*u %*u %s", w1) != 1) { printf("\n@bad-op\n"); goto next; }
			UINT32 *l = parse_list(w1, &cnt);
			unsigned need = !strcmp(op, "scopyrows") ? (unsigned)S[b]->n_rows : (unsigned)S[b]->n_cols;
			if (cnt != need) { free(l); printf("\n@bad-op list length\n"); goto next; }
			if (!strcmp(op, "scopyrows")) of_mod2sparse_copyrows(S[a], S[b], l); else of_mod2sparse_copycols(S[a], S[b], l);
			free(l); printf("\n@ok\n"); goto next;
		}
		if (!strcmp(op, "scopyfilled")) {
			unsigned c1, c2; if (b >= NS || !S[b] || sscanf(line, "%*s %*u %*u %s %s", w1, w2) != 2) { printf("\n@bad-op\n"); goto next; }
			UINT32 *lr = parse_list(w1, &c1), *lc = parse_list(w2, &c2);
			if (c1 != (unsigned)S[a]->n_rows || c2 != (unsigned)S[a]->n_cols) { free(lr); free(lc); printf("\n@bad-op list length\n"); goto next; }
			of_mod2sparse_copy_filled_matrix(S[a], S[b], lr, lc);
			free(lr); free(lc); printf("\n@ok\n"); goto next;
		}
		if (!strcmp(op, "s2d")) { if (!S[a] || b >= NS || !D[b]) { printf("\n@bad-op\n"); goto next; } of_mod2sparse_to_dense(S[a], D[b]); printf("\n@ok\n"); goto next; }
		if (!strcmp(op, "d2s")) { if (!D[a] || b >= NS || !S[b]) { printf("\n@bad-op\n"); goto next; } of_mod2dense_to_sparse(D[a], S[b]); printf("\n@ok\n"); goto next; }
		/* ---- dense ---- */
		if (!strcmp(op, "dfree")) { of_mod2dense_free(D[a]); D[a] = NULL; printf("\n@ok\n"); goto next; }
		if (!strcmp(op, "dclear")) { of_mod2dense_clear(D[a]); printf("\n@ok\n"); goto next; }
		if (!strcmp(op, "ddump")) { ddump(D[a]); goto next; }
		if (!strcmp(op, "dcopy")) { if (b >= NS || !D[b]) { printf("\n@bad-op\n"); goto next; } of_mod2dense_copy(D[a], D[b]); printf("\n@ok\n"); goto next; }
		if (!strcmp(op, "dcopyrows") || !strcmp(op, "dcopycols")) {
			unsigned cnt; if (b >= NS || !D[b] || sscanf(line, "%*s %*u %*u %s", w1) != 1) { printf("\n@bad-op\n"); goto next; }
			UINT32 *l = parse_list(w1, &cnt);
			unsigned need = !strcmp(op, "dcopyrows") ? D[b]->n_rows : D[b]->n_cols;
			if (cnt != need) { free(l); printf("\n@bad-op list length\n"); goto next; }
			if (!strcmp(op, "dcopyrows")) of_mod2dense_copyrows(D[a], D[b], l); else of_mod2dense_copycols(D[a], D[b], l);
			free(l); printf("\n@ok\n"); goto next;
		}
		if (!strcmp(op, "dget")) { if (b >= D[a]->n_rows || c >= D[a]->n_cols) { printf("\n@bad-op\n"); goto next; } printf("\n@ok v=%u\n", of_mod2dense_get(D[a], b, c)); goto next; }
		if (!strcmp(op, "dset")) { printf("\n@ok r=%d\n", of_mod2dense_set(D[a], b, c, d)); goto next; }
		if (!strcmp(op, "dflip")) { printf("\n@ok r=%d\n", (int)of_mod2dense_flip(D[a], b, c)); goto next; }
		if (!strcmp(op, "dxor")) { if (b >= D[a]->n_rows || c >= D[a]->n_rows) { printf("\n@bad-op\n"); goto next; } of_mod2dense_xor_rows(D[a], (UINT16)b, (UINT16)c); printf("\n@ok\n"); goto next; }
		printf("\n@bad-op\n");
	next:
		fflush(stdout);
	}
	return 0;
}
