/* ofdrv: line-protocol driver over the public OpenFEC API (DESIGN.md appendix B).
 * One result line (prefixed '@') per input line.  Built against the sanitizer build of the
 * repository's current working tree.  Nothing here changes library behaviour: the allocation
 * ledger uses the sanitizer runtime's malloc/free hooks, internals are read through the
 * library's own headers.
 */
#include <stdio.h>
#include <stdlib.h>
#include <string.h>
#include <stdint.h>
#include "lib_common/of_openfec_api.h"
#include "lib_stable/ldpc_staircase/of_ldpc_includes.h"

extern int __sanitizer_install_malloc_and_free_hooks(void (*malloc_hook)(const volatile void *, size_t),
                                                     void (*free_hook)(const volatile void *));

/* ---------------------------------------------------------------- allocation ledger */
#define LEDGER_SZ (1u << 20)
static struct { const void *p; size_t sz; int sid; } ledger[LEDGER_SZ];
static int cur_sid = -1;	/* session whose API call is in progress, -1 = harness itself */
static int hook_busy = 0;

static unsigned lh(const void *p) { return (unsigned)(((uintptr_t)p >> 4) * 2654435761u) & (LEDGER_SZ - 1); }
static void on_malloc(const volatile void *p, size_t sz)
{
	if (cur_sid < 0 || hook_busy || !p) return;
	unsigned h = lh((const void *)p);
	for (unsigned i = 0; i < LEDGER_SZ; i++, h = (h + 1) & (LEDGER_SZ - 1))
		if (ledger[h].p == NULL || ledger[h].p == (void *)1) { ledger[h].p = (const void *)p; ledger[h].sz = sz; ledger[h].sid = cur_sid; return; }
}
static int ledger_find(const void *p)
{
	unsigned h = lh(p);
	for (unsigned i = 0; i < LEDGER_SZ; i++, h = (h + 1) & (LEDGER_SZ - 1)) {
		if (ledger[h].p == NULL) return -1;
		if (ledger[h].p == p) return (int)h;
	}
	return -1;
}
static void on_free(const volatile void *p)
{
	if (!p) return;
	int h = ledger_find((const void *)p);
	if (h >= 0) ledger[h].p = (void *)1;	/* tombstone */
}

/* ---------------------------------------------------------------- sessions */
#define MAXS 16
#define MAXSUB 8
typedef struct {
	of_session_t *ses;
	int codec, role, configured;
	unsigned k, r, n, len, m, N1; long long seed;
	unsigned char **cw;		/* n codeword symbols (reference copies, never given to the session under test) */
	int have_cw;
	/* application buffers handed to the library */
	unsigned char **sub[MAXSUB];	/* sub[j][esi] = j-th submitted buffer for esi (or NULL) */
	unsigned char **enc_tab;	/* encoder's table (n entries) */
	unsigned char **enc_src_copy;	/* copies of the encoder's source buffers */
	int *enc_slot_lib;		/* slot was NULL when handed to build */
	/* callback */
	int cbpolicy;			/* 0 none 1 buf 2 null 3 mix */
	unsigned char **cbbuf;		/* buffer returned by the callback per esi (k entries) */
	unsigned char **cbbase;		/* start of the heap block that holds it */
	unsigned *cbcount;
} S_t;
static S_t S[MAXS];

static unsigned g_align = 0;	/* start misalignment of application buffers (set by the 'align' line) */
/* callback events of the current call */
static unsigned ev_esi[70000], ev_size[70000]; static int nev;

static void *src_cb(void *ctx, UINT32 size, UINT32 esi)
{
	S_t *s = (S_t *)ctx;
	int save = cur_sid; cur_sid = -1;
	if (nev < 70000) { ev_esi[nev] = esi; ev_size[nev] = size; nev++; }
	void *ret = NULL;
	int give = (s->cbpolicy == 1) || (s->cbpolicy == 3 && (esi % 2 == 0));
	if (esi < s->k) s->cbcount[esi]++;
	if (give && esi < s->k) {
		/* applications hand out slots of packet pools: the buffer starts at any alignment and ends at the end of its block */
		unsigned a = (esi + g_align) & 7;
		unsigned char *base = malloc((size ? size : 1) + a);
		unsigned char *b = base + a;
		memset(base, 0xAA, size + a);
		if (s->cbbuf[esi] == NULL) { s->cbbuf[esi] = b; s->cbbase[esi] = base; }	/* second buffers for the same esi are leaked on purpose (reported by count) */
		ret = b;
	}
	cur_sid = save;
	return ret;
}

/* application symbol buffers: exactly `len` bytes whose END coincides with the end of the heap block (so that the
 * sanitizer sees any access past the symbol), starting `g_align` bytes into the block; the slack in front is a canary */
#define NBASE 65536
static struct { void *p, *base; unsigned a; } bases[NBASE]; static unsigned nbases;
static unsigned char *abuf(unsigned len)
{
	unsigned a = g_align & 7;
	unsigned char *base = malloc((len ? len : 1) + a);
	memset(base, 0xC5, a);
	if (a) { unsigned i; for (i = 0; i < NBASE; i++) if (!bases[i].p) { bases[i].p = base + a; bases[i].base = base; bases[i].a = a; break; }
		if (i == NBASE) { fprintf(stderr, "abuf table full\n"); abort(); } if (i >= nbases) nbases = i + 1; }
	return base + a;
}
static int canary_ok = 1;
static void afree(void *p)
{
	if (!p) return;
	for (unsigned i = 0; i < nbases; i++) if (bases[i].p == p) {
		for (unsigned j = 0; j < bases[i].a; j++) if (((unsigned char *)bases[i].base)[j] != 0xC5) canary_ok = 0;
		free(bases[i].base); bases[i].p = NULL; return; }
	free(p);
}

static unsigned lcg(unsigned *x) { *x = (*x * 1103515245u + 12345u) & 0x7fffffffu; return (*x >> 16) & 0xff; }

static void fill_source(S_t *s, unsigned i, unsigned char *b, int mode, unsigned seed)
{
	memset(b, 0, s->len);
	if (mode == 0) {	/* identity payload: unit vector i in the codec's symbol alphabet */
		if (s->codec == 1 || (s->codec == 2 && s->m == 8)) { if (i < s->len) b[i] = 1; }
		else if (s->codec == 2) { if (i / 2 < s->len) b[i / 2] = (i % 2 == 0) ? 0x10 : 0x01; }
		else { if (i / 8 < s->len) b[i / 8] = (unsigned char)(1u << (i % 8)); }
	} else {
		unsigned x = (seed * 2654435761u + i * 40503u + 1u) & 0x7fffffffu;
		for (unsigned j = 0; j < s->len; j++) b[j] = (unsigned char)lcg(&x);
	}
}

static const char *stname(of_status_t st)
{
	switch (st) { case OF_STATUS_OK: return "OK"; case OF_STATUS_FAILURE: return "FAILURE";
	case OF_STATUS_ERROR: return "ERROR"; case OF_STATUS_FATAL_ERROR: return "FATAL"; default: return "?"; }
}

static void hex(const unsigned char *b, unsigned len) { for (unsigned i = 0; i < len; i++) printf("%02x", b[i]); }

static of_status_t set_params(S_t *s, of_session_t *ses)
{
	of_status_t st;
	if (s->codec == 2) {
		of_rs_2_m_parameters_t p; memset(&p, 0, sizeof p);
		p.nb_source_symbols = s->k; p.nb_repair_symbols = s->r; p.encoding_symbol_length = s->len; p.m = (UINT16)s->m;
		st = of_set_fec_parameters(ses, (of_parameters_t *)&p);
	} else if (s->codec == 3) {
		of_ldpc_parameters_t p; memset(&p, 0, sizeof p);
		p.nb_source_symbols = s->k; p.nb_repair_symbols = s->r; p.encoding_symbol_length = s->len;
		p.prng_seed = (INT32)s->seed; p.N1 = (UINT8)s->N1;
		st = of_set_fec_parameters(ses, (of_parameters_t *)&p);
	} else if (s->codec == 1) {
		of_rs_parameters_t p; memset(&p, 0, sizeof p);
		p.nb_source_symbols = s->k; p.nb_repair_symbols = s->r; p.encoding_symbol_length = s->len;
		st = of_set_fec_parameters(ses, (of_parameters_t *)&p);
	} else {
		of_2d_parity_parameters_t p; memset(&p, 0, sizeof p);
		p.nb_source_symbols = s->k; p.nb_repair_symbols = s->r; p.encoding_symbol_length = s->len;
		st = of_set_fec_parameters(ses, (of_parameters_t *)&p);
	}
	return st;
}

static void print_events(void)
{
	/* sorted multiset of callback events */
	for (int i = 1; i < nev; i++) for (int j = i; j > 0 && ev_esi[j - 1] > ev_esi[j]; j--) {
		unsigned t = ev_esi[j]; ev_esi[j] = ev_esi[j - 1]; ev_esi[j - 1] = t;
		t = ev_size[j]; ev_size[j] = ev_size[j - 1]; ev_size[j - 1] = t; }
	if (nev) { printf(" cb="); for (int i = 0; i < nev; i++) printf("%s%u:%u", i ? "," : "", ev_esi[i], ev_size[i]); }
	nev = 0;
}

/* after every API call: application buffers must be unchanged */
static void check_app_buffers(S_t *s)
{
	if (!s->configured) return;
	for (int j = 0; j < MAXSUB; j++) if (s->sub[j]) for (unsigned e = 0; e < s->n; e++)
		if (s->sub[j][e] && s->have_cw && memcmp(s->sub[j][e], s->cw[e], s->len) != 0) { printf(" !modified-rx:%u", e); return; }
	if (s->enc_tab && s->enc_src_copy) for (unsigned e = 0; e < s->k; e++)
		if (s->enc_tab[e] && s->enc_src_copy[e] && memcmp(s->enc_tab[e], s->enc_src_copy[e], s->len) != 0) { printf(" !modified-src:%u", e); return; }
}

static void free_session_buffers(S_t *s)
{
	if (s->cw) { for (unsigned e = 0; e < s->n; e++) free(s->cw[e]); free(s->cw); }
	for (int j = 0; j < MAXSUB; j++) if (s->sub[j]) { for (unsigned e = 0; e < s->n; e++) afree(s->sub[j][e]); free(s->sub[j]); }
	if (s->enc_tab) { for (unsigned e = 0; e < s->n; e++) afree(s->enc_tab[e]); free(s->enc_tab); }
	if (s->enc_src_copy) { for (unsigned e = 0; e < s->k; e++) free(s->enc_src_copy[e]); free(s->enc_src_copy); }
	free(s->enc_slot_lib);
	if (s->cbbuf) { for (unsigned e = 0; e < s->k; e++) free(s->cbbase[e]); free(s->cbbuf); free(s->cbbase); }
	free(s->cbcount);
	memset(s, 0, sizeof *s);
}

static int is_app_ptr(S_t *s, const void *p, unsigned esi, int *which)
{
	for (int j = 0; j < MAXSUB; j++) if (s->sub[j] && s->sub[j][esi] == p) { *which = j; return 1; }
	return 0;
}

static void do_release(S_t *s, int sid)
{
	/* what the library handed to the application: decoded source symbols and library-allocated repair slots */
	void **tab = NULL; unsigned nret = 0, nother = 0;
	const void **ret = calloc(s->n + 1, sizeof(void *));
	if (s->configured && (s->role & 2) && s->k > 0) {
		tab = calloc(s->k, sizeof(void *));
		cur_sid = sid; of_status_t g = of_get_source_symbols_tab(s->ses, tab); cur_sid = -1;
		if (g == OF_STATUS_OK) for (unsigned i = 0; i < s->k; i++) {
			int w; if (tab[i] && !is_app_ptr(s, tab[i], i, &w) && !(s->cbbuf && s->cbbuf[i] == tab[i])) ret[nret++] = tab[i];
		}
	}
	if (s->enc_tab && s->enc_slot_lib) for (unsigned e = s->k; e < s->n; e++) if (s->enc_slot_lib[e] && s->enc_tab[e]) ret[nret++] = s->enc_tab[e];
	cur_sid = sid; of_status_t st = of_release_codec_instance(s->ses); cur_sid = -1;
	s->ses = NULL;
	unsigned nret_live = 0;
	for (unsigned h = 0; h < LEDGER_SZ; h++) if (ledger[h].p && ledger[h].p != (void *)1 && ledger[h].sid == sid) {
		int isret = 0;
		for (unsigned i = 0; i < nret; i++) if (ret[i] == ledger[h].p) isret = 1;
		if (isret) nret_live++; else nother++;
	}
	printf("\n@ok st=%s returned=%u other=%u\n", stname(st), nret_live, nother);
	/* the application now frees what it owns */
	for (unsigned i = 0; i < nret; i++) {
		int h = ledger_find(ret[i]);
		if (h >= 0) { free((void *)ret[i]); }
		for (unsigned e = s->k; s->enc_tab && e < s->n; e++) if (s->enc_tab[e] == ret[i]) s->enc_tab[e] = NULL;
	}
	/* forget whatever else was attributed to this session so that the next session with the same id starts clean;
	 * real leaks are still visible to LeakSanitizer at exit */
	for (unsigned h = 0; h < LEDGER_SZ; h++) if (ledger[h].p && ledger[h].p != (void *)1 && ledger[h].sid == sid) ledger[h].p = (void *)1;
	free(ret); free(tab);
	free_session_buffers(s);
}

int main(void)
{
	static char line[1 << 20];
	__sanitizer_install_malloc_and_free_hooks(on_malloc, on_free);
	setvbuf(stdout, NULL, _IOLBF, 0);
	while (fgets(line, sizeof line, stdin)) {
		char op[32]; int sid = 0; unsigned a = 0, b = 0; char w1[64] = "", w2[64] = "";
		if (line[0] == '#' || line[0] == '\n') continue;
		if (sscanf(line, "%31s", op) != 1) continue;
		if (!strcmp(op, "case")) {
			for (int i = 0; i < MAXS; i++) if (S[i].ses) { printf("\n@bad-op unreleased session %d\n", i); goto next; }
			printf("\n@ok%s\n", canary_ok ? "" : " !canary-overwritten"); canary_ok = 1; goto next;
		}
		if (!strcmp(op, "align")) { unsigned a = 0; sscanf(line, "%*s %u", &a); g_align = a & 7; printf("\n@ok\n"); goto next; }
		if (!strcmp(op, "nullses")) {	/* every entry point with a NULL session */
			void *tab[4] = {0}; char buf[8] = {0}; UINT32 v = 0; of_ldpc_parameters_t p; memset(&p, 0, sizeof p);
			p.nb_source_symbols = 2; p.nb_repair_symbols = 3; p.encoding_symbol_length = 4; p.N1 = 3; p.prng_seed = 1;
			/* the library prints diagnostics on stdout: collect every answer first, then print one line */
			const char *a1 = stname(of_set_fec_parameters(NULL, (of_parameters_t *)&p));
			const char *a2 = stname(of_set_callback_functions(NULL, src_cb, NULL, NULL));
			const char *a3 = stname(of_build_repair_symbol(NULL, tab, 2));
			const char *a4 = stname(of_decode_with_new_symbol(NULL, buf, 0));
			const char *a5 = stname(of_set_available_symbols(NULL, tab));
			const char *a6 = stname(of_finish_decoding(NULL));
			int a7 = (int)of_is_decoding_complete(NULL);
			const char *a8 = stname(of_get_source_symbols_tab(NULL, tab));
			const char *a9 = stname(of_get_control_parameter(NULL, OF_CTRL_GET_MAX_K, &v, sizeof v));
			printf("\n@ok params=%s cb=%s build=%s recv=%s avail=%s finish=%s complete=%d sources=%s ctrl=%s", a1, a2, a3, a4, a5, a6, a7, a8, a9);
			printf("\n"); goto next;
		}
		if (sscanf(line, "%*s %d", &sid) != 1 || sid < 0 || sid >= MAXS) { printf("\n@bad-op\n"); goto next; }
		S_t *s = &S[sid];
		if (!strcmp(op, "new")) {
			int codec, role;
			if (sscanf(line, "%*s %*d %d %d", &codec, &role) != 2 || s->ses) { printf("\n@bad-op\n"); goto next; }
			memset(s, 0, sizeof *s); s->codec = codec; s->role = role;
			cur_sid = sid; of_status_t st = of_create_codec_instance(&s->ses, (of_codec_id_t)codec, (of_codec_type_t)role, 0); cur_sid = -1;
			printf("\n@ok st=%s\n", stname(st));
			if (st != OF_STATUS_OK) s->ses = NULL;
			goto next;
		}
		if (!s->ses) { printf("\n@bad-op no session\n"); goto next; }
		if (!strcmp(op, "params")) {
			unsigned k, r, len, m, N1; long long seed;
			if (sscanf(line, "%*s %*d %u %u %u %u %u %lld", &k, &r, &len, &m, &N1, &seed) != 6 || s->configured) { printf("\n@bad-op\n"); goto next; }
			s->k = k; s->r = r; s->len = len; s->m = m; s->N1 = N1; s->seed = seed; s->n = k + r;
			cur_sid = sid; of_status_t st = set_params(s, s->ses); cur_sid = -1;
			printf("\n@ok st=%s\n", stname(st));
			if (st == OF_STATUS_OK) {
				s->configured = 1;
				s->cbbuf = calloc(s->k + 1, sizeof(void *)); s->cbbase = calloc(s->k + 1, sizeof(void *)); s->cbcount = calloc(s->k + 1, sizeof(unsigned));
			}
			goto next;
		}
		if (!strcmp(op, "release")) { do_release(s, sid); goto next; }
		if (!strcmp(op, "cb")) {
			sscanf(line, "%*s %*d %63s", w1);
			s->cbpolicy = !strcmp(w1, "buf") ? 1 : !strcmp(w1, "null") ? 2 : !strcmp(w1, "mix") ? 3 : 0;
			of_status_t st = OF_STATUS_OK;
			if (s->cbpolicy) { cur_sid = sid; st = of_set_callback_functions(s->ses, src_cb, NULL, s); cur_sid = -1; }
			printf("\n@ok st=%s\n", stname(st)); goto next;
		}
		if (!strcmp(op, "ctrl")) {
			sscanf(line, "%*s %*d %63s", w1);
			of_status_t st; UINT32 v = 0; bool bv = 0;
			cur_sid = sid;
			if (!strcmp(w1, "maxk")) st = of_get_control_parameter(s->ses, OF_CTRL_GET_MAX_K, &v, sizeof v);
			else if (!strcmp(w1, "maxn")) st = of_get_control_parameter(s->ses, OF_CTRL_GET_MAX_N, &v, sizeof v);
			else {
				/* the flag describes a configured session; a session without (accepted) parameters is not asked */
				if (!s->configured) { cur_sid = -1; printf("\n@bad-op unconfigured\n"); goto next; }
				st = of_get_control_parameter(s->ses, OF_CRTL_LDPC_STAIRCASE_IS_LAST_SYMBOL_NULL, &bv, sizeof bv); v = bv ? 1 : 0;
			}
			cur_sid = -1;
			printf("\n@ok st=%s v=%u\n", stname(st), st == OF_STATUS_OK ? v : 0); goto next;
		}
		if (!strcmp(op, "unconf")) {
			/* calls that take an ESI, on a session that has no parameters yet (n = 0: every ESI is out of range) */
			if (s->configured) { printf("\n@bad-op configured\n"); goto next; }
			unsigned char *buf = abuf(16); void *tab[4] = {0, 0, 0, 0};
			cur_sid = sid;
			const char *r0 = stname(of_decode_with_new_symbol(s->ses, buf, 0));
			const char *r1 = stname(of_decode_with_new_symbol(s->ses, buf, 1));
			const char *r2 = stname(of_decode_with_new_symbol(s->ses, buf, 0xFFFFFFFFu));
			const char *b0 = stname(of_build_repair_symbol(s->ses, tab, 0));
			const char *b1 = stname(of_build_repair_symbol(s->ses, tab, 1));
			const char *b2 = stname(of_build_repair_symbol(s->ses, tab, 0xFFFFFFFFu));
			cur_sid = -1;
			printf("\n@ok recv=%s,%s,%s build=%s,%s,%s\n", r0, r1, r2, b0, b1, b2);
			afree(buf); goto next;
		}
		if (!s->configured) { printf("\n@bad-op unconfigured\n"); goto next; }
		if (!strcmp(op, "payload")) {
			/* reference codeword: a temporary encoder session of the same codec and parameters (an explicit
			 * step of the script, so the model performs it too) */
			unsigned seed = 0; int mode = 0;
			sscanf(line, "%*s %*d %63s %u", w1, &seed); mode = strcmp(w1, "id") ? 1 : 0;
			if (s->have_cw) { printf("\n@bad-op\n"); goto next; }
			s->cw = calloc(s->n, sizeof(void *));
			for (unsigned e = 0; e < s->n; e++) s->cw[e] = malloc(s->len ? s->len : 1);
			for (unsigned e = 0; e < s->k; e++) fill_source(s, e, s->cw[e], mode, seed);
			of_session_t *enc = NULL; of_status_t st;
			st = of_create_codec_instance(&enc, (of_codec_id_t)s->codec, OF_ENCODER, 0);
			if (st == OF_STATUS_OK) st = set_params(s, enc);
			for (unsigned e = s->k; st == OF_STATUS_OK && e < s->n; e++) st = of_build_repair_symbol(enc, (void **)s->cw, e);
			if (enc) of_release_codec_instance(enc);
			s->have_cw = (st == OF_STATUS_OK);
			printf("\n@ok st=%s\n", stname(st)); goto next;
		}
		if (!strcmp(op, "cwdump")) {
			if (!s->have_cw) { printf("\n@bad-op\n"); goto next; }
			printf("\n@ok cw=");
			for (unsigned e = 0; e < s->n; e++) { if (e) printf(";"); hex(s->cw[e], s->len); }
			printf("\n"); goto next;
		}
		if (!strcmp(op, "build")) {
			if (sscanf(line, "%*s %*d %u %63s", &a, w1) != 2 || !s->have_cw) { printf("\n@bad-op\n"); goto next; }
			if (!s->enc_tab) {
				s->enc_tab = calloc(s->n + 1, sizeof(void *)); s->enc_src_copy = calloc(s->k + 1, sizeof(void *));
				s->enc_slot_lib = calloc(s->n + 1, sizeof(int));
				for (unsigned e = 0; e < s->k; e++) { s->enc_tab[e] = abuf(s->len); memcpy(s->enc_tab[e], s->cw[e], s->len);
					s->enc_src_copy[e] = malloc(s->len ? s->len : 1); memcpy(s->enc_src_copy[e], s->cw[e], s->len); }
			}
			int own = !strcmp(w1, "own");
			if (a >= s->k && a < s->n) {
				if (s->enc_tab[a]) afree(s->enc_tab[a]);	/* the application owns the previous buffer either way */
				s->enc_tab[a] = NULL; s->enc_slot_lib[a] = !own;
				if (own) { s->enc_tab[a] = abuf(s->len); memset(s->enc_tab[a], 0x55, s->len); }
			}
			cur_sid = sid; of_status_t st = of_build_repair_symbol(s->ses, (void **)s->enc_tab, a); cur_sid = -1;
			printf("\n@ok st=%s", stname(st));
			if (st == OF_STATUS_OK && a < s->n && s->enc_tab[a]) { printf(" sym="); hex(s->enc_tab[a], s->len);
				printf(" prov=%s", s->enc_slot_lib[a] ? (ledger_find(s->enc_tab[a]) >= 0 ? "lib" : "unknown") : "app"); }
			check_app_buffers(s); printf("\n"); goto next;
		}
		if (!strcmp(op, "recv") || !strcmp(op, "recvnull")) {
			if (sscanf(line, "%*s %*d %u", &a) != 1 || !s->have_cw) { printf("\n@bad-op\n"); goto next; }
			unsigned char *buf = NULL;
			if (!strcmp(op, "recv")) {
				unsigned e = a < s->n ? a : 0;
				buf = abuf(s->len); memcpy(buf, s->cw[e], s->len);
				if (a < s->n) { int j; for (j = 0; j < MAXSUB; j++) { if (!s->sub[j]) s->sub[j] = calloc(s->n, sizeof(void *)); if (!s->sub[j][a]) { s->sub[j][a] = buf; break; } }
					if (j == MAXSUB) { afree(buf); printf("\n@bad-op too many duplicates\n"); goto next; } }
			}
			nev = 0;
			cur_sid = sid; of_status_t st = of_decode_with_new_symbol(s->ses, buf, a); cur_sid = -1;
			printf("\n@ok st=%s", stname(st)); print_events(); check_app_buffers(s); printf("\n");
			if (a >= s->n) afree(buf);
			goto next;
		}
		if (!strcmp(op, "avail")) {
			/* list of esis: "avail S 0,3,4" or "avail S -" */
			char *p = strchr(line, ' '); p = p ? strchr(p + 1, ' ') : NULL;
			if (!s->have_cw || !p) { printf("\n@bad-op\n"); goto next; }
			void **tab = calloc(s->n + 1, sizeof(void *));
			if (!s->sub[0]) s->sub[0] = calloc(s->n, sizeof(void *));
			for (p++; *p && *p != '\n' && *p != '-';) {
				unsigned e = (unsigned)strtoul(p, &p, 10); if (*p == ',') p++;
				if (e < s->n && !s->sub[0][e]) { s->sub[0][e] = abuf(s->len); memcpy(s->sub[0][e], s->cw[e], s->len); }
				if (e < s->n) tab[e] = s->sub[0][e];
			}
			nev = 0;
			cur_sid = sid; of_status_t st = of_set_available_symbols(s->ses, tab); cur_sid = -1;
			printf("\n@ok st=%s", stname(st)); print_events(); check_app_buffers(s); printf("\n");
			free(tab); goto next;
		}
		if (!strcmp(op, "availnull")) { cur_sid = sid; of_status_t st = of_set_available_symbols(s->ses, NULL); cur_sid = -1; printf("\n@ok st=%s\n", stname(st)); goto next; }
		if (!strcmp(op, "finish")) {
			nev = 0;
			cur_sid = sid; of_status_t st = of_finish_decoding(s->ses); cur_sid = -1;
			printf("\n@ok st=%s", stname(st)); print_events(); check_app_buffers(s); printf("\n"); goto next;
		}
		if (!strcmp(op, "complete")) {
			cur_sid = sid; int c = (int)of_is_decoding_complete(s->ses); cur_sid = -1;
			printf("\n@ok c=%d\n", c ? 1 : 0); goto next;
		}
		if (!strcmp(op, "sources")) {
			void **tab = calloc(s->k + 1, sizeof(void *));
			/* the application's table is an output table: it is handed over holding what a previous block left in it
			 * (a symbol of 0xEE bytes), so that an entry the library does not write is seen as what it is */
			unsigned char *stale = malloc(s->len + 1); memset(stale, 0xEE, s->len + 1);
			for (unsigned i = 0; i < s->k; i++) tab[i] = stale;
			cur_sid = sid; of_status_t st = of_get_source_symbols_tab(s->ses, tab); cur_sid = -1;
			printf("\n@ok st=%s src=", stname(st));
			int first = 1;
			if (st == OF_STATUS_OK) for (unsigned i = 0; i < s->k; i++) if (tab[i]) {
				int w;
				printf("%s%u:", first ? "" : ";", i); first = 0;
				if (tab[i] == (void *)stale) printf("stale:");
				else if (is_app_ptr(s, tab[i], i, &w)) printf("app%d:", w);
				else if (s->cbbuf[i] == tab[i]) printf("cb:");
				else if (ledger_find(tab[i]) >= 0) printf("lib:");
				else printf("unknown:");
				hex(tab[i], s->len);
			}
			/* how often the callback fired per esi is part of the observation when it is not exactly once */
			for (unsigned i = 0; i < s->k; i++) if (s->cbcount[i] > 1) printf(" !cb-twice:%u", i);
			printf("\n"); free(tab); free(stale); goto next;
		}
		if (!strcmp(op, "matrix")) {
			of_ldpc_staircase_cb_t *cb = (of_ldpc_staircase_cb_t *)s->ses;
			if ((s->codec != 3 && s->codec != 5) || !cb->pchk_matrix) { printf("\n@bad-op\n"); goto next; }
			printf("\n@ok rows=");
			for (unsigned row = 0; row < s->r; row++) {
				/* an equation can hold every symbol of the block (N1 = n-k): the buffer has room for n entries; entries beyond
				 * that would be a malformed matrix and are counted so that the dump shows it */
				unsigned *tmp = malloc((s->n + 1) * sizeof(unsigned)); unsigned cnt = 0, over = 0;
				for (of_mod2entry *e = of_mod2sparse_first_in_row(cb->pchk_matrix, row); !of_mod2sparse_at_end(e); e = of_mod2sparse_next_in_row(e)) {
					if (cnt < s->n) tmp[cnt++] = of_get_symbol_esi((of_cb_t *)cb, e->col); else over++;
				}
				for (unsigned i = 1; i < cnt; i++) for (unsigned j = i; j > 0 && tmp[j - 1] > tmp[j]; j--) { unsigned t = tmp[j]; tmp[j] = tmp[j - 1]; tmp[j - 1] = t; }
				for (unsigned i = 0; i < cnt; i++) printf("%s%u", i ? "," : "", tmp[i]);
				if (over) printf(",!%u-more", over);
				printf(";"); free(tmp);
			}
			printf("\n"); goto next;
		}
		printf("\n@bad-op\n");
	next:
		fflush(stdout);
	}
	return 0;
}
