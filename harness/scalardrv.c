/* scalardrv: line-protocol driver over the scalar routines that the translator (c2lean) also
 * translates: of_rand.c, blocking_struct.c, of_hamming_weight.c.  The unmodified translation units
 * are #included so that static functions are reachable.  Result lines are prefixed with '@' so
 * that anything the library itself prints can be filtered out. */
#include <stdio.h>
#include <stdlib.h>
#include <string.h>
#include "lib_common/of_rand.c"
#include "lib_common/linear_binary_codes_utils/binary_matrix/of_hamming_weight.c"
#include "../applis/eperftool/blocking_struct.c"
#include "lib_common/linear_binary_codes_utils/binary_matrix/of_matrix_dense.h"

int main(void)
{
	char line[512];
	while (fgets(line, sizeof line, stdin)) {
		unsigned long long a, b, c;
		if (line[0] == '#') continue;
		if (sscanf(line, "rand srand %llu", &a) == 1) {
			of_rfc5170_srand(a);
			printf("@ok seed=%llu\n", of_seed);
		} else if (sscanf(line, "rand next %llu", &a) == 1) {
			unsigned long long o = of_rfc5170_rand(a);
			printf("@ok seed=%llu out=%llu\n", of_seed, o);
		} else if (sscanf(line, "rand walk %llu", &a) == 1) {
			unsigned long long sum = 0, i;
			for (i = 0; i < a; i++) { of_rfc5170_rand(1); sum = (sum * 31 + of_seed) % 2305843009213693951ULL; }
			printf("@ok seed=%llu sum=%llu\n", of_seed, sum);
		} else if (sscanf(line, "rand verify %llu", &a) == 1) {
			/* walk a steps from the current state; compare each state and a scaled output with the definition
			 * (64-bit integer arithmetic, independent of the library's code); report the first mismatch */
			unsigned long long i, bad_at = 0, bad_state = 0, bad_out = 0, exp_state = 0;
			for (i = 0; i < a; i++) {
				unsigned long long s0 = of_seed, maxv = (i % 3 == 0) ? 255ULL * 50000ULL : (i % 3 == 1 ? 50000ULL : 3ULL);
				unsigned long long o = of_rfc5170_rand(maxv);
				unsigned long long es = (16807ULL * s0) % 2147483647ULL;
				unsigned long long eo = (unsigned long long)(((unsigned __int128)es * maxv) / 2147483647ULL);
				if (of_seed != es || o != eo) { bad_at = i + 1; bad_state = s0; bad_out = o; exp_state = es; break; }
			}
			printf("@ok steps=%llu bad_at=%llu from=%llu got_state=%llu exp_state=%llu got_out=%llu\n", i, bad_at, bad_state, of_seed, exp_state, bad_out);
		} else if (sscanf(line, "block %llu %llu %llu", &a, &b, &c) == 3) {
			of_blocking_struct_t bs;
			/* the result structure is an output: it is handed over holding what an earlier computation left in it */
			memset(&bs, 0xA5, sizeof bs);
			of_compute_blocking_struct((UINT32)a, (UINT32)b, (UINT32)c, &bs);
			printf("\n@ok nb_blocks=%u A_large=%u A_small=%u I=%u\n", bs.nb_blocks, bs.A_large, bs.A_small, bs.I);
		} else if (sscanf(line, "popcnt %llu", &a) == 1) {
			printf("@ok p3=%d h32=%u naive=%u tab=%u\n", of_popcount_3(a), of_hweight32((UINT32)a),
			       of_hweight32_naive((UINT32)a), of_hweight32_table((UINT32)a));
		} else if (sscanf(line, "macro %llu %llu", &a, &b) == 2) {
			/* the dense-matrix bit macros as the compiler evaluates them (b is a bit index below 32 or a column number) */
			UINT32 w = (UINT32)a, i = (UINT32)b;
			printf("@ok get=%u set1=%u set0=%u wi=%u bi=%u nw=%u\n", (UINT32)of_mod2_getbit(w, i & 31), (UINT32)of_mod2_setbit1(w, i & 31),
			       (UINT32)of_mod2_setbit0(w, i & 31), i >> of_mod2_wordsize_shift, i & of_mod2_wordsize_mask,
			       (i + of_mod2_wordsize - 1) >> of_mod2_wordsize_shift);
		} else {
			printf("@bad-op\n");
		}
	}
	return 0;
}
