/* wrappers.c: tiny functions whose bodies are nothing but macros of the library's headers, so that the translator (tools/c2lean.py)
 * can turn the macros, as the repository defines them today, into Lean definitions (Gen/Macros.lean).  Never compiled into a harness. */
#include "lib_common/of_openfec_api.h"
#include "lib_common/linear_binary_codes_utils/of_linear_binary_code.h"

UINT32 vm_getbit (UINT32 w, UINT32 i) { return of_mod2_getbit (w, i); }
UINT32 vm_setbit1 (UINT32 w, UINT32 i) { return of_mod2_setbit1 (w, i); }
UINT32 vm_setbit0 (UINT32 w, UINT32 i) { return of_mod2_setbit0 (w, i); }
UINT32 vm_word_index (UINT32 c) { return c >> of_mod2_wordsize_shift; }
UINT32 vm_bit_index (UINT32 c) { return c & of_mod2_wordsize_mask; }
UINT32 vm_words_for (UINT32 n_cols) { return (n_cols + of_mod2_wordsize - 1) >> of_mod2_wordsize_shift; }

/* column mapping macros of of_symbol.h: repair symbols occupy matrix columns 0..r-1, source symbols columns r..n-1 */
struct vm_cb { UINT32 nb_source_symbols; UINT32 nb_repair_symbols; };
INT32 vm_symbol_col (struct vm_cb *cb, UINT32 esi) { return of_get_symbol_col (cb, esi); }
INT32 vm_symbol_esi (struct vm_cb *cb, UINT32 col) { return of_get_symbol_esi (cb, col); }
