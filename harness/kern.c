/* kern: drives every symbol kernel of the library on exact-size heap buffers (buffer end = block end, chosen start
 * misalignment) so that the sanitizer sees any access beyond `size`; prints the results for comparison with the model.
 * Static kernels are reached by including the unmodified translation units.
 *   kern <name> <size> <count> <adst> <asrc> <c> <seed>
 * names: xor1 xorfrom xorto addmul8rs addmul8 addmul4 addmul4c */
#include <stdio.h>
#include <stdlib.h>
#include <string.h>
#include "lib_stable/reed-solomon_gf_2_8/of_reed-solomon_gf_2_8.c"
#undef UNROLL
#undef USE_GF_MULC
#undef GF_MULC0
#undef GF_ADDMULC
#undef GF_ADDMULC_COMPACT
#include "lib_stable/reed-solomon_gf_2_m/galois_field_codes_utils/algebra_2_4.c"
#undef UNROLL
#undef USE_GF_MULC
#undef GF_MULC0
#undef GF_ADDMULC
#undef GF_ADDMULC_COMPACT
#include "lib_stable/reed-solomon_gf_2_m/galois_field_codes_utils/algebra_2_8.c"
#include "lib_common/linear_binary_codes_utils/of_symbol.c"
#include "lib_common/of_mem.c"
UINT32 of_verbosity;

static unsigned lcg(unsigned *x) { *x = (*x * 1103515245u + 12345u) & 0x7fffffffu; return (*x >> 16) & 0xff; }

typedef struct { unsigned char *base, *p; } buf_t;
static buf_t mk(unsigned size, unsigned a, unsigned *x, int nibble)
{
	buf_t b; a &= 7;
	b.base = malloc((size ? size : 1) + a + (size ? 0 : 0));
	memset(b.base, 0xC5, a);
	/* the usable part ends exactly at the end of the block when size > 0 */
	b.p = b.base + a + ((size ? size : 1) - size);
	for (unsigned i = 0; i < size; i++) { unsigned v = lcg(x); b.p[i] = nibble ? (v & 0x0f) : v; }
	return b;
}
static void hex(const unsigned char *p, unsigned n) { for (unsigned i = 0; i < n; i++) printf("%02x", p[i]); if (!n) printf("-"); }

int main(void)
{
	char line[256], name[32];
	unsigned size, count, adst, asrc, c, seed;
	of_rs_init();
	setvbuf(stdout, NULL, _IOLBF, 0);
	while (fgets(line, sizeof line, stdin)) {
		if (line[0] == '#') continue;
		if (sscanf(line, "kern %31s %u %u %u %u %u %u", name, &size, &count, &adst, &asrc, &c, &seed) != 7) { printf("@bad-op\n"); continue; }
		unsigned x = (seed * 2654435761u + 17u) & 0x7fffffffu;
		int nib = !strcmp(name, "addmul4");
		if (!strcmp(name, "xorto")) {
			/* count destinations, one source */
			buf_t src = mk(size, asrc, &x, 0);
			unsigned char *copy = malloc(size + 1); memcpy(copy, src.p, size);
			buf_t *d = calloc(count + 1, sizeof *d); void **tab = calloc(count + 1, sizeof(void *));
			for (unsigned i = 0; i < count; i++) { d[i] = mk(size, adst + i, &x, 0); tab[i] = d[i].p; }
			of_add_to_multiple_symbols(tab, src.p, count, size);
			printf("@ok");
			for (unsigned i = 0; i < count; i++) { printf(" "); hex(d[i].p, size); }
			if (memcmp(copy, src.p, size)) printf(" !src-modified");
			for (unsigned i = 0; i < count; i++) { for (unsigned j = 0; j < ((adst + i) & 7); j++) if (d[i].base[j] != 0xC5) printf(" !canary"); free(d[i].base); }
			printf("\n"); free(d); free(tab); free(src.base); free(copy);
			continue;
		}
		buf_t dst = mk(size, adst, &x, nib);
		unsigned nsrc = !strcmp(name, "xorfrom") ? count : 1;
		buf_t *s = calloc(nsrc + 1, sizeof *s); const void **tab = calloc(nsrc + 1, sizeof(void *));
		unsigned char **copies = calloc(nsrc + 1, sizeof(void *));
		for (unsigned i = 0; i < nsrc; i++) { s[i] = mk(size, asrc + i, &x, nib); tab[i] = s[i].p; copies[i] = malloc(size + 1); memcpy(copies[i], s[i].p, size); }
		if (!strcmp(name, "xor1")) of_add_to_symbol(dst.p, s[0].p, size);
		else if (!strcmp(name, "xorfrom")) of_add_from_multiple_symbols(dst.p, tab, count, size);
		else if (!strcmp(name, "addmul8rs")) { addmul(dst.p, s[0].p, (gf)c, (int)size); }
		else if (!strcmp(name, "addmul8")) of_galois_field_2_8_addmul1(dst.p, s[0].p, (gf)c, (int)size);
		else if (!strcmp(name, "addmul4")) of_galois_field_2_4_addmul1(dst.p, s[0].p, (gf)(c & 15), (int)size);
		else if (!strcmp(name, "addmul4c")) of_galois_field_2_4_addmul1_compact(dst.p, s[0].p, (gf)(c & 15), (int)size);
		else { printf("@bad-op\n"); continue; }
		printf("@ok "); hex(dst.p, size);
		for (unsigned i = 0; i < nsrc; i++) if (memcmp(copies[i], s[i].p, size)) printf(" !src-modified");
		for (unsigned j = 0; j < (adst & 7); j++) if (dst.base[j] != 0xC5) printf(" !canary");
		printf("\n");
		for (unsigned i = 0; i < nsrc; i++) { free(s[i].base); free(copies[i]); }
		free(s); free(tab); free(copies); free(dst.base);
	}
	return 0;
}
