"""Correspondence runner: the same script goes to the real library (ofdrv, sanitizers on) and to the
executable model (ofmodel); canonical output lines are compared.  A script is a list of *cases*; each
case is a list of lines beginning with 'case <name>' and releases every session it creates.  A harness
abort (sanitizer report, crash, timeout) ends that case with an ABORT line; the remaining cases are run in
a fresh process."""
import subprocess, os, re
import common

class CaseResult:
    __slots__ = ('name', 'lines', 'impl', 'model', 'abort', 'diff', 'meta')
    def __init__(self, name, lines):
        self.name, self.lines, self.impl, self.model, self.abort, self.diff = name, lines, [], [], None, None

ENV_EXTRA = {}     # set by a property that needs other sanitizer options for one run (e.g. no quarantine, so that freed addresses are reused)

def _run_chunk(exe, cases, timeout):
    """run cases[...] in one process; returns (#cases fully done, outputs per case, abort-info)"""
    text = '\n'.join('\n'.join(c.lines) for c in cases) + '\n'
    env = dict(os.environ); env.update(common.ASAN_ENV); env.update(ENV_EXTRA)
    try:
        p = subprocess.run([exe], input=text, capture_output=True, text=True, timeout=timeout, env=env, errors='replace')
        rc, out, err = p.returncode, p.stdout, p.stderr
    except subprocess.TimeoutExpired as e:
        rc, out, err = -999, (e.stdout or b'').decode(errors='replace') if isinstance(e.stdout, bytes) else (e.stdout or ''), 'TIMEOUT'
    outs = [l[1:] for l in out.splitlines() if l.startswith('@')]
    return rc, outs, err

def run_impl(cases, timeout=600, harness='ofdrv'):
    exe = common.build_harness(harness)
    todo = list(cases)
    while todo:
        rc, outs, err = _run_chunk(exe, todo, timeout)
        pos = 0
        done = 0
        for c in todo:
            n = len(c.lines)
            if pos + n <= len(outs):
                c.impl = outs[pos:pos + n]; pos += n; done += 1
            else:
                c.impl = outs[pos:]
                break
        if done == len(todo) and rc == 0:
            return
        if err == 'TIMEOUT' and done < len(todo):
            # the wall-clock limit covers the whole batch, so running out of it says nothing about one case (a loaded machine is
            # enough): go on from the interrupted case; only a case that, run alone, still does not finish is reported as a hang
            if done > 0:
                todo = todo[done:]
                continue
            rc1, o1, e1 = _run_chunk(exe, todo[:1], max(timeout, 900))
            if e1 != 'TIMEOUT' and len(o1) >= len(todo[0].lines) and rc1 == 0:
                todo[0].impl = o1[:len(todo[0].lines)]
                todo = todo[1:]
                continue
            rc, outs, err = rc1, o1, e1
            todo[0].impl = o1[:len(todo[0].lines)]
        if done == len(todo):
            # every line answered but the process failed at exit (LeakSanitizer): find up to 3 culprits by bisection
            found = []
            def bisect(group):
                if len(found) >= 3 or not group:
                    return
                rc2, o2, e2 = _run_chunk(exe, group, timeout)
                if rc2 == 0:
                    return
                if len(group) == 1:
                    group[0].abort = {'rc': rc2, 'at_line': None, 'summary': common.sanitizer_summary(e2) or e2[-300:],
                                      'stderr': e2[-3000:], 'at_exit': True}
                    found.append(group[0]); return
                h = len(group) // 2
                bisect(group[:h]); bisect(group[h:])
            if len(todo) == 1:
                todo[0].abort = {'rc': rc, 'at_line': None, 'summary': common.sanitizer_summary(err) or err[-300:],
                                 'stderr': err[-3000:], 'at_exit': True}
            else:
                h = len(todo) // 2
                bisect(todo[:h]); bisect(todo[h:])
                if not found:
                    todo[-1].abort = {'rc': rc, 'at_line': None, 'summary': 'exit failure not attributable to one case: ' +
                                      (common.sanitizer_summary(err) or err[-300:]), 'stderr': err[-3000:], 'at_exit': True}
            return
        c = todo[done]
        k = len(c.impl)
        c.abort = {'rc': rc, 'at_line': c.lines[k] if k < len(c.lines) else None, 'line_index': k,
                   'summary': common.sanitizer_summary(err) or err[-300:], 'stderr': err[-3000:], 'at_exit': False}
        todo = todo[done + 1:]

def run_model(cases):
    lines = []
    for c in cases:
        lines += c.lines
    outs = common.run_model(lines)
    pos = 0
    for c in cases:
        c.model = outs[pos:pos + len(c.lines)]; pos += len(c.lines)

def compare(cases):
    for c in cases:
        n = min(len(c.impl), len(c.model))
        for i in range(n):
            if c.impl[i] != c.model[i]:
                c.diff = {'index': i, 'line': c.lines[i], 'impl': c.impl[i][:2000], 'model': c.model[i][:2000]}
                break

model_error = None

def run(cases, timeout=600, harness='ofdrv'):
    """run both sides; if the model cannot be built or run (e.g. a regenerated Gen/ file no longer fits), the
    implementation side and the direct oracles still run and `model_error` says why the model side is missing"""
    global model_error
    model_error = None
    run_impl(cases, timeout, harness)
    try:
        run_model(cases)
    except Exception as e:
        model_error = str(e)[:1500]
        for c in cases:
            c.model = []
    compare(cases)
    return cases

def mk(name, body):
    return CaseResult(name, ['case ' + name] + list(body))
