"""Seeded generators of protocol-conforming (and deliberately non-conforming) API scripts."""
import itertools, random
import corr

RS_LIMIT = {1: 255, 28: 255, 24: 15}

def codec_tuple(kind):
    """kind in {'rs8','rs2m8','rs2m4','ldpc'} -> (codec id, m)"""
    return {'rs8': (1, 0), 'rs2m8': (2, 8), 'rs2m4': (2, 4), 'ldpc': (3, 0), '2d': (5, 0)}[kind]

def min_len(kind, k, n):
    if kind in ('rs8', 'rs2m8'): return k
    if kind == 'rs2m4': return (k + 1) // 2
    return (k + 7) // 8

class Cfg:
    def __init__(self, kind, k, r, length=None, N1=3, seed=1, payload='id', pseed=0):
        self.kind, self.k, self.r, self.N1, self.seed = kind, k, r, N1, seed
        self.codec, self.m = codec_tuple(kind)
        self.n = k + r
        self.len = length if length is not None else max(1, min_len(kind, k, self.n))
        self.payload, self.pseed = payload, pseed
    def params_line(self, sid):
        return 'params %d %d %d %d %d %d %d' % (sid, self.k, self.r, self.len, self.m, self.N1 if self.codec == 3 else 0,
                                               self.seed if self.codec == 3 else 0)
    def payload_line(self, sid):
        return 'payload %d id' % sid if self.payload == 'id' else 'payload %d rand %d' % (sid, self.pseed)
    def key(self):
        return (self.kind, self.k, self.r, self.len, self.N1, self.seed, self.payload, self.pseed)
    def __repr__(self):
        return 'Cfg(%s k=%d r=%d len=%d N1=%d seed=%d %s)' % (self.kind, self.k, self.r, self.len, self.N1, self.seed, self.payload)

def refused_params_line(cfg, sid):
    """a configuration of the same codec that passes the generic layer and is refused by the codec itself (k above its limit,
    N1 above n-k, a (k, n-k) that is no product shape): the session stays without parameters and may be configured again"""
    if cfg.codec == 1: return 'params %d 256 3 8 0 0 0' % sid
    if cfg.codec == 2: return 'params %d %d 2 4 %d 0 0' % (sid, 16 if cfg.m == 4 else 256, cfg.m)
    if cfg.codec == 3: return 'params %d 12 6 2 0 7 9' % sid
    return 'params %d 5 3 2 0 0 0' % sid

def decoder_case(name, cfg, order, api='stream', finish=True, cb='none', trace=False, sid=0, role=2,
                 matrix=False, early_release=None, finish_twice=False, cb_first=None, refused_first=None):
    """one decoder session: submit `order` (list of ESIs, duplicates allowed) through `api`; `cb_first`: the callback is registered
    before the parameters are set; `refused_first`: a configuration the codec refuses is tried first on the same session"""
    import zlib
    h = zlib.crc32(name.encode())
    if cb_first is None: cb_first = (h % 3 == 0)              # a third of the sessions register their callback before the parameters
    if refused_first is None: refused_first = (h % 7 == 1)    # one in seven is first given a configuration its codec refuses
    b = ['new %d %d %d' % (sid, cfg.codec, role)]
    if refused_first:
        b.append(refused_params_line(cfg, sid))
    if cb != 'none' and cb_first:
        b.append('cb %d %s' % (sid, cb))
    b.append(cfg.params_line(sid))
    if cb != 'none' and not cb_first:
        b.append('cb %d %s' % (sid, cb))
    b += [cfg.payload_line(sid), 'cwdump %d' % sid]
    if matrix and cfg.codec in (3, 5):
        b.append('matrix %d' % sid)
    steps = []
    if api == 'stream':
        for e in order:
            steps.append('recv %d %d' % (sid, e))
            if trace:
                steps += ['complete %d' % sid, 'sources %d' % sid]
                if matrix and cfg.codec in (3, 5):
                    steps.append('matrix %d' % sid)
    else:
        lst = ','.join(str(e) for e in sorted(set(order))) or '-'
        steps.append('avail %d %s' % (sid, lst))
    steps += ['complete %d' % sid, 'sources %d' % sid]
    if finish:
        steps += ['finish %d' % sid, 'complete %d' % sid, 'sources %d' % sid]
        if finish_twice:
            steps += ['finish %d' % sid, 'complete %d' % sid]
    if early_release is not None:
        steps = steps[:early_release]
    b += steps
    b.append('release %d' % sid)
    c = corr.mk(name, b)
    c.meta = {'cfg': cfg, 'order': list(order), 'api': api, 'finish': finish, 'cb': cb, 'sid': sid, 'trace': trace}
    return c

def encoder_case(name, cfg, slots='own', sid=0, role=1, esis=None):
    b = ['new %d %d %d' % (sid, cfg.codec, role), cfg.params_line(sid), cfg.payload_line(sid), 'cwdump %d' % sid]
    if cfg.codec in (3, 5):
        b.append('matrix %d' % sid)
        b.append('ctrl %d lastnull' % sid)
    for i, e in enumerate(esis if esis is not None else range(cfg.k, cfg.n)):
        sl = slots if slots in ('own', 'null') else ('own' if i % 2 == 0 else 'null')
        b.append('build %d %d %s' % (sid, e, sl))
    b.append('release %d' % sid)
    c = corr.mk(name, b)
    c.meta = {'cfg': cfg, 'sid': sid, 'slots': slots}
    return c

def field_twin_prefix(cfg, sid=7):
    """a complete little encoder session of the OTHER field size of the GF(2^m) codec with the same (k, r), run just before the session of
    interest: whatever the codec remembers between sessions under a key that forgets m (a generator matrix, a table) is then wrong"""
    if cfg.kind not in ('rs2m4', 'rs2m8') or cfg.n > 15:
        return []
    other = Cfg('rs2m8' if cfg.kind == 'rs2m4' else 'rs2m4', cfg.k, cfg.r)
    return ['new %d 2 1' % sid, other.params_line(sid), 'payload %d id' % sid, 'build %d %d own' % (sid, other.k), 'release %d' % sid]

def with_prefix(case, prefix):
    """insert `prefix` lines right after the 'case' line"""
    case.lines = [case.lines[0]] + list(prefix) + case.lines[1:]
    return case

def small_configs(kinds, nmax, ldpc_seeds=(1, 7), N1s=(3, 4)):
    out = []
    for kind in kinds:
        for n in range(2, nmax + 1):
            for k in range(1, n):
                r = n - k
                if kind == 'ldpc':
                    for N1 in N1s:
                        if N1 > r: continue
                        for sd in ldpc_seeds:
                            out.append(Cfg(kind, k, r, N1=N1, seed=sd))
                else:
                    if n > RS_LIMIT[24 if kind == 'rs2m4' else 1]: continue
                    out.append(Cfg(kind, k, r))
    return out

def subsets(n):
    for mask in range(1 << n):
        yield [e for e in range(n) if mask >> e & 1]

def random_order(rng, subset, dup_prob=0.3):
    """a shuffled arrival order of `subset` with duplicate submissions; no symbol is submitted more than 6 times (the harness keeps at
    most 8 buffers per symbol)"""
    o = list(subset)
    rng.shuffle(o)
    out = []; cnt = {}
    for e in o:
        out.append(e); cnt[e] = cnt.get(e, 0) + 1
        if out and rng.random() < dup_prob:
            d = rng.choice(out)
            if cnt.get(d, 0) < 6:
                out.append(d); cnt[d] = cnt.get(d, 0) + 1
    return out

def ldpc_loss_subset(rng, cfg, around_threshold=True):
    """received set with a loss rate near the decoding threshold, so that IT often fails and ML is entered"""
    n, k = cfg.n, cfg.k
    if around_threshold:
        want = min(n, max(0, int(k * rng.uniform(0.95, 1.25)) + rng.randint(-1, 2)))
    else:
        want = rng.randint(0, n)
    return sorted(rng.sample(range(n), want))


def dense_column_configs(rng, count):
    """LDPC sessions whose matrix has heavy columns (small k, many equations, N1 up to n-k), received repairs first and one source
    symbol last: a single submission then brings many equations to one unknown at once (long step-3 lists, deep recursion)"""
    out = []
    for j in range(count):
        k = rng.choice([1, 2, 2, 3, 4]); r = rng.randint(9, 40)
        N1 = rng.choice([3, 9, 12, r, r - 1, rng.randint(3, r)])
        cfg = Cfg('ldpc', k, r, length=rng.choice([1, 5, 37]), N1=max(3, min(N1, r)), seed=rng.randint(1, 2 ** 31 - 2), payload='rand', pseed=j)
        reps = list(range(k, cfg.n))
        mode = j % 3
        if mode == 1: rng.shuffle(reps)
        if mode == 2: reps = rng.sample(reps, rng.randint(len(reps) - 2, len(reps)))
        srcs = list(range(k)); rng.shuffle(srcs)
        out.append((cfg, reps + srcs[:rng.randint(1, k)]))
    return out

def star_configs(rng, count):
    """LDPC sessions in which iterative decoding is stuck and ONE more symbol x unlocks at least 5 equations at once: x is unknown (not in
    the peeling closure of what was received) and belongs to >= 5 equations that each have exactly one other unknown.  Submitting x last then
    puts 5..10 entries in the per-call list of degree-one equations, each rebuilding a different symbol, with cascades.  Found by rejection
    sampling around the decoding threshold with the independent Python transcription of RFC 5170 and of the peeling closure (N1 >= 5)."""
    from props import pyref
    out = []
    tries = 0
    while len(out) < count and tries < count * 1500:
        tries += 1
        k = rng.randint(20, 70); r = rng.randint(k // 2, k); N1 = rng.choice([5, 6, 7, 8, 10])
        if N1 > r: continue
        seed = rng.randint(1, 2 ** 31 - 2)
        H, _ = pyref.rfc5170(k, k + r, N1, seed); n = k + r
        recv = set(rng.sample(range(n), min(n, int(k * rng.uniform(0.9, 1.15)))))
        K = pyref.closure(H, recv)
        x = next((e for e in range(n) if e not in K and sum(1 for row in H if e in row and len(row - K) == 2) >= 5), None)
        if x is None: continue
        cfg = Cfg('ldpc', k, r, length=rng.choice([1, 4, 9]), N1=N1, seed=seed, payload='rand', pseed=len(out))
        rest = sorted(recv); rng.shuffle(rest)
        out.append((cfg, rest + [x]))
    return out

def dense_column_cases(rng, name, count, trace=False, cb_choices=('none', 'buf', 'null', 'mix'), apis=('stream', 'stream', 'stream', 'table')):
    return [decoder_case('%s%d' % (name, j), cfg, order, api=apis[j % len(apis)], finish=True, cb=rng.choice(cb_choices), trace=trace)
            for j, (cfg, order) in enumerate(dense_column_configs(rng, count))]


def lowrate_ldpc_cases(rng, name, count, trace=False):
    """small-k, low-rate LDPC sessions (k*N1 < 2(n-k): the RFC's construction must add extra entries), even and odd N1, with
    histories that depend on the last repair symbols: all sources lost, one source lost with repairs in descending order, random"""
    cases = []
    for j in range(count):
        k = rng.randint(1, 6); r = rng.randint(max(4, k + 1), 16); N1 = rng.choice([4, 4, 6, 3, 5, min(r, 8)])
        N1 = max(3, min(N1, r))
        cfg = Cfg('ldpc', k, r, N1=N1, seed=rng.choice([1, 2, 3, rng.randint(1, 2 ** 31 - 2)]), payload=rng.choice(['id', 'rand']), pseed=j,
                  length=None if j % 2 else rng.choice([1, 3, 8]))
        mode = j % 4
        reps = list(range(k, cfg.n))
        if mode == 0: order = reps[::-1]
        elif mode == 1:
            lost = rng.randrange(k); order = reps[::-1] + [e for e in range(k) if e != lost]
        elif mode == 2: order = random_order(rng, rng.sample(range(cfg.n), rng.randint(k, cfg.n)), 0.2)
        else: order = [cfg.n - 1] + random_order(rng, rng.sample(range(cfg.n - 1), rng.randint(max(0, k - 1), cfg.n - 1)), 0.1)
        cases.append(decoder_case('%s%d' % (name, j), cfg, order, api='stream' if j % 3 else 'table', finish=(j % 5 != 0),
                                  cb=['none', 'buf', 'null', 'mix'][(j // 2) % 4], trace=trace))
    return cases


def after_finish_cases(rng, name, count, kinds=('ldpc', 'ldpc', 'ldpc', '2d', 'rs8', 'rs2m4')):
    """histories that go on after of_finish_decoding: a receive set around the decoding threshold, finish (which succeeds or fails, by
    iterative decoding, by Gaussian elimination, or for lack of equations), then a second finish and/or the late symbols - the rest of the block,
    by either API - with completion and the source table queried in between, then finish again"""
    cases = []
    for j in range(count):
        kind = kinds[j % len(kinds)]
        if kind == 'ldpc':
            k = rng.randint(3, 40); r = rng.randint(3, max(3, k)); N1 = 3 if r < 5 else rng.choice([3, 4, 5])
            cfg = Cfg(kind, k, r, N1=N1, seed=rng.randint(1, 2 ** 31 - 2), payload='rand', pseed=j, length=rng.choice([1, 4, 9]))
            want = min(cfg.n - 1, max(1, k + rng.randint(-2, 3)))
        elif kind == '2d':
            d, l = rng.choice([(2, 2), (2, 3), (3, 3), (2, 4), (4, 4), (3, 4), (1, 5)]); cfg = Cfg(kind, d * l, d + l, payload='rand', pseed=j, length=4)
            want = min(cfg.n - 1, max(1, cfg.k + rng.randint(-3, 2)))
        else:
            n = rng.randint(4, 15); k = rng.randint(2, n - 1); cfg = Cfg(kind, k, n - k, payload='rand', pseed=j)
            want = rng.choice([k - 1, k, k + 1, n - 1]); want = max(0, min(n - 1, want))
        first = rng.sample(range(cfg.n), want)
        late = [e for e in range(cfg.n) if e not in first]; rng.shuffle(late)
        sid = 0
        b = ['new 0 %d %d' % (cfg.codec, rng.choice([2, 2, 3])), cfg.params_line(0)]
        cb = rng.choice(['none', 'none', 'buf', 'null', 'mix'])
        if cb != 'none': b.append('cb 0 %s' % cb)
        b += [cfg.payload_line(0), 'cwdump 0']
        if rng.random() < 0.7: b += ['recv 0 %d' % e for e in first]
        else: b += ['avail 0 %s' % (','.join(str(e) for e in sorted(first)) or '-')]
        b += ['complete 0', 'finish 0', 'complete 0', 'sources 0']
        mode = j % 4
        if mode in (0, 1): b += ['finish 0', 'complete 0', 'sources 0']
        if mode in (1, 2, 3):
            cut = rng.randint(1, len(late))
            b += ['recv 0 %d' % e for e in late[:cut]] + ['complete 0', 'sources 0', 'finish 0', 'complete 0', 'sources 0']
            if mode == 3:
                b += ['recv 0 %d' % e for e in late[cut:]] + ['recv 0 %d' % rng.choice(first or [0]), 'complete 0', 'sources 0', 'finish 0', 'complete 0']
        b.append('release 0')
        c = corr.mk('%s%d' % (name, j), b)
        order = list(first) + (late if mode == 3 else late[:cut] if mode in (1, 2) else [])
        c.meta = {'cfg': cfg, 'order': order, 'api': 'stream', 'finish': True, 'cb': cb, 'sid': 0, 'trace': False}
        cases.append(c)
    return cases
