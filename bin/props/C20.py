"""C20 — eperftool block partitioning follows RFC 5052 (translated code, proved; plus exhaustive/sampled correspondence)."""
import random, json
import common

THEOREMS = ['C20_full', 'C20_partial', 'C20_integer_structure']
MODULE = 'OpenFecVerif.Props.C20'

def spec(B, L, E):
    T = -(-L // E); N = -(-T // B)
    return N, -(-T // N), T // N, T % N, T

def oracle_line(line, out):
    f = line.split(); B, L, E = int(f[1]), int(f[2]), int(f[3])
    if L == 0: return None
    N, Al, As, I, T = spec(B, L, E)
    d = dict(x.split('=') for x in out.split()[1:])
    got = (int(d['nb_blocks']), int(d['A_large']), int(d['A_small']), int(d['I']))
    if got != (N, Al, As, I):
        return 'B=%d L=%d E=%d: got N=%d A_large=%d A_small=%d I=%d, RFC 5052 gives N=%d A_large=%d A_small=%d I=%d' % ((B, L, E) + got + (N, Al, As, I))
    if not (Al <= B and I * Al + (N - I) * As == T):
        return 'B=%d L=%d E=%d: structure does not add up' % (B, L, E)
    return None

def gen_lines(rng, tier):
    lines = []
    lim = 300 if tier == 'quick' else 3000
    for T in range(1, lim + 1):
        for B in range(1, lim + 1):
            if tier == 'quick' or (T * 7 + B) % 3 == 0 or T <= 400:
                lines.append('block %d %d 1' % (B, T))
    for E in (7, 1024):
        for T in range(1, (lim // 3) + 1):
            for B in (1, 2, 3, 5, 64, 255, 1000, T, T + 1, max(1, T - 1)):
                for L in (T * E, T * E - 1, T * E - E + 1):
                    if L >= 1: lines.append('block %d %d %d' % (B, L, E))
    specials = [1, 2, 3, 255, 256, 1023, 1024, 1025, 65535, 65536, 2 ** 24, 2 ** 31 - 1, 2 ** 31, 2 ** 31 + 1, 2 ** 32 - 2, 2 ** 32 - 1]
    for B in specials:
        for L in specials:
            for E in specials:
                lines.append('block %d %d %d' % (B, L, E))
    ns = 60000 if tier == 'quick' else 1000000
    for _ in range(ns):
        e = rng.choice([1, 1, 2, rng.randrange(1, 2000), 2 ** rng.randrange(0, 32), rng.randrange(1, 2 ** 32)])
        l = rng.choice([rng.randrange(1, 2 ** 32), 2 ** rng.randrange(0, 32) + rng.choice([-1, 0, 1]), rng.randrange(1, 10 ** 6)])
        b = rng.choice([rng.randrange(1, 2 ** 32), rng.randrange(1, 70000), 2 ** rng.randrange(0, 32)])
        lines.append('block %d %d %d' % (max(1, b), max(1, min(l, 2 ** 32 - 1)), max(1, e)))
    return lines

def run(res, tier, seed, gen_errs):
    rng = random.Random(seed)
    res.rule = ('obligations: theorems over the Lean translation of blocking_struct.c regenerated this run (RN53 standard model); correspondence: '
                'exhaustive T,B <= %d (E=1), structured E in {7,1024}, a 16^3 grid of 32-bit boundary values and seeded random 32-bit triples on the compiled C, '
                'compared with RFC 5052 integer formulas (oracle) and, on a sample, with ofmodel running the translated code under exact-rational round-to-nearest-even; '
                'non-trivial = distinct (B, L, E) with T > B (several blocks)' % (300 if tier == 'quick' else 3000))
    ok, log = common.check_lean(res, MODULE, THEOREMS)
    exe = common.build_harness('scalardrv', link_lib=False)
    lines = gen_lines(rng, tier)
    rc, couts, cerr = common.run_harness(exe, lines)
    if rc != 0 or len(couts) != len(lines):
        res.violation('c20:harness-abort', 'scalardrv aborted: %s' % (common.sanitizer_summary(cerr) or cerr[-300:]),
                      replay={'script': lines[:len(couts) + 1][-3:], 'stderr': cerr[-1500:]})
        return
    res.evaluations = len(lines)
    bad = None; skipped = 0
    for l, o in zip(lines, couts):
        f = l.split(); B, L, E = int(f[1]), int(f[2]), int(f[3])
        N, Al, As, I, T = spec(B, L, E)
        if N >= 2 ** 31: skipped += 1   # counted: these points exercise the top half of the 32-bit range
        if T > B: res.nontrivial.add((B, L, E))
        w = oracle_line(l, o)
        if w and bad is None:
            bad = (l, o, w)
    res.cov['points_with_N_ge_2^31'] = skipped
    res.sample({'line': lines[1000], 'impl': couts[1000]}); res.sample({'line': lines[-1], 'impl': couts[-1]})
    # model side on a sample (exact rational arithmetic is slow)
    idx = sorted(rng.sample(range(len(lines)), min(len(lines), 4000 if tier == 'quick' else 40000)))
    diff = None
    try:
        mouts = common.run_model([lines[i] for i in idx])
        for i, mo in zip(idx, mouts):
            f = lines[i].split()
            if mo != couts[i]:
                diff = (lines[i], couts[i], mo); break
        res.cov['model_lines_compared'] = len(idx)
    except Exception as e:
        res.notes.append('model driver failed: %s' % e)
    if bad:
        l, o, w = bad
        res.violation('c20:oracle', 'of_compute_blocking_struct on the real code: ' + w, replay={'script': [l], 'impl_output': o, 'expected': w})
    elif not ok or gen_errs.get('Blocking.lean'):
        res.violation('c20:proof', 'theorems of %s no longer check against the current blocking_struct.c: %s' %
                      (MODULE, '; '.join(common.first_errors(log)) or gen_errs.get('Blocking.lean') or log[-300:]),
                      replay={'broken': MODULE, 'errors': common.first_errors(log), 'translation_error': gen_errs.get('Blocking.lean')}, no_input=True)
    elif diff:
        res.violation('c20:correspondence', 'translated model and compiled C differ on %r: impl %r model %r' % diff,
                      replay={'script': [diff[0]], 'broken': 'correspondence block'}, no_input=True)
    if tier == 'thorough' and ok:
        common.leancheck(res, MODULE)

def replay(path):
    r = json.load(open(path)); script = (r.get('replay') or {}).get('script')
    if not script:
        print('replay names a broken obligation:', json.dumps(r.get('replay'))[:400]); return 1
    exe = common.build_harness('scalardrv', link_lib=False)
    rc, couts, cerr = common.run_harness(exe, script)
    w = oracle_line(script[0], couts[0])
    print(script[0], '->', couts[0]); print('oracle:', w or 'holds')
    return 1 if w else 0
