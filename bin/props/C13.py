"""C13 — symbol kernels are exact for every length, operand count and alignment."""
import random, json
import common

THEOREMS = ['Kern.C13_covered_eq', 'Kern.C13_covered16_eq', 'Kern.C13_groups_sum', 'Kern.C13_xor1_spec', 'Kern.C13_addmul8_spec',
            'Kern.C13_addmul4c_spec', 'Kern.C13_addmul4_spec', 'Kern.C13_noninterference']
MODULE = 'OpenFecVerif.Props.C13'

def lcg_buf(x, size, nib):
    out = []
    for _ in range(size):
        x = (x * 1103515245 + 12345) & 0x7fffffff
        v = (x >> 16) & 0xff
        out.append(v & 15 if nib else v)
    return x, out

def gmul(a, b, m, poly):
    r = 0
    while b:
        if b & 1: r ^= a
        a <<= 1
        if a >> m & 1: a ^= poly
        b >>= 1
    return r

def reference(line):
    """byte-wise definition, independent of the model (Python)"""
    f = line.split(); name = f[1]; size, count, adst, asrc, c, seed = (int(x) for x in f[2:8])
    x = (seed * 2654435761 + 17) & 0xffffffff & 0x7fffffff
    hx = lambda l: ''.join('%02x' % b for b in l) if l else '-'
    if name == 'xorto':
        x, src = lcg_buf(x, size, False)
        outs = []
        for i in range(count):
            x, d = lcg_buf(x, size, False)
            outs.append(hx([a ^ b for a, b in zip(d, src)]))
        return 'ok' + ''.join(' ' + o for o in outs)
    nib = name == 'addmul4'
    x, dst = lcg_buf(x, size, nib)
    nsrc = count if name == 'xorfrom' else 1
    srcs = []
    for i in range(nsrc):
        x, s = lcg_buf(x, size, nib); srcs.append(s)
    if name == 'xor1':
        out = [a ^ b for a, b in zip(dst, srcs[0])]
    elif name == 'xorfrom':
        out = list(dst)
        for s in srcs: out = [a ^ b for a, b in zip(out, s)]
    elif name in ('addmul8', 'addmul8rs'):
        out = [a ^ gmul(c % 256, b, 8, 0x11D) for a, b in zip(dst, srcs[0])]
    elif name == 'addmul4':
        out = [a ^ gmul(c % 16, b, 4, 0x13) for a, b in zip(dst, srcs[0])]
    else:
        out = [a ^ ((gmul(c % 16, b >> 4, 4, 0x13) << 4) | gmul(c % 16, b & 15, 4, 0x13)) for a, b in zip(dst, srcs[0])]
    return 'ok ' + hx(out)

def gen_lines(rng, tier):
    lines = []; seed = 0
    sizes = list(range(0, 81)) + [1023, 1024, 1025, 4099]
    maxc = 20
    for size in sizes:
        small = size <= 80
        for name in ('xor1',):
            for adst in range(8):
                for asrc in (range(8) if small else (0, 3)):
                    seed += 1; lines.append('kern xor1 %d 1 %d %d 0 %d' % (size, adst, asrc, seed))
        for name in ('xorfrom', 'xorto'):
            for count in range(0, maxc + 1):
                if name == 'xorto' and count == 0: continue
                for (adst, asrc) in ([(0, 0), (1, 2), (4, 7), (5, 0), (7, 3)] if small else [(0, 0), (3, 5)]):
                    if not small and count not in (1, 2, 5, 8, 13, 20): continue
                    seed += 1; lines.append('kern %s %d %d %d %d 0 %d' % (name, size, count, adst, asrc, seed))
        for name, consts in (('addmul8rs', 256), ('addmul8', 256), ('addmul4', 16), ('addmul4c', 16)):
            cs = range(consts) if (size in (0, 1, 15, 16, 17, 31, 33) or (tier == 'thorough' and small)) else [0, 1, 2, rng.randrange(consts), consts - 1]
            for c in cs:
                for (adst, asrc) in ([(0, 0), (1, 0), (0, 1), (3, 6), (7, 7)] if (small and consts == 16) or c in (0, 1, 2) else [(rng.randrange(8), rng.randrange(8))]):
                    seed += 1; lines.append('kern %s %d 1 %d %d %d %d' % (name, size, adst, asrc, c, seed))
    return lines

def run(res, tier, seed, gen_errs):
    rng = random.Random(seed)
    res.rule = ('every kernel (of_add_to_symbol, of_add_from_multiple_symbols, of_add_to_multiple_symbols, of_addmul1 of the GF(2^8) codec, '
                'of_galois_field_2_8_addmul1, of_galois_field_2_4_addmul1 and its compact variant) called on exact-size heap buffers whose end coincides with the block end '
                '(ASan sees any access beyond size) for all sizes 0..80 and {1023,1024,1025,4099}, operand counts 0..20, destination/source alignments 0..7 and field constants; '
                'compared with the phase-structured Lean model and with an independent byte-wise Python definition (oracle); source operands and canaries checked; '
                'non-trivial = distinct (kernel, size, count, alignments, constant)')
    ok, log = common.check_lean(res, MODULE, THEOREMS)
    exe = common.build_harness('kern', link_lib=False)
    lines = gen_lines(rng, tier)
    res.evaluations = len(lines)
    # run in chunks so that a sanitizer abort identifies the call
    bad = None; pos = 0; couts = []
    while pos < len(lines):
        chunk = lines[pos:pos + 20000]
        rc, outs, err = common.run_harness(exe, chunk)
        couts += outs
        if rc != 0 or len(outs) != len(chunk):
            l = chunk[len(outs)] if len(outs) < len(chunk) else chunk[-1]
            res.violation('c13:abort:' + l.split()[1], 'kernel call aborted under the sanitizers: %s at %r' % (common.sanitizer_summary(err) or err[-200:], l),
                          replay={'script': [l], 'stderr': err[-1500:]})
            couts += ['<abort>'] + [''] * (len(chunk) - len(outs) - 1)
        pos += len(chunk)
    by = {}
    for l, o in zip(lines, couts):
        if not o or o == '<abort>': continue
        res.nontrivial.add(l.rsplit(' ', 1)[0])
        by[l.split()[1]] = by.get(l.split()[1], 0) + 1
        exp = reference(l)
        if o != exp and bad is None:
            bad = (l, o, exp)
    res.cov['calls_by_kernel'] = by
    res.sample({'line': lines[500], 'impl': couts[500][:80]}); res.sample({'line': lines[-1], 'impl': couts[-1][:80]})
    diff = None
    try:
        mouts = common.run_model(lines)
        for l, a, b in zip(lines, couts, mouts):
            if a and a != '<abort>' and a != b:
                diff = (l, a[:200], b[:200]); break
    except Exception as e:
        res.notes.append('model driver failed: %s' % e)
    if bad:
        l, o, exp = bad
        res.violation('c13:oracle:' + l.split()[1], 'kernel %s differs from its byte-wise definition on %r: got %s expected %s' % (l.split()[1], l, o[:120], exp[:120]),
                      replay={'script': [l], 'impl_output': o[:4000], 'expected': exp[:4000]})
    elif not ok and not res.violations:
        res.violation('c13:proof', 'theorems of %s no longer check: %s' % (MODULE, '; '.join(common.first_errors(log))), replay={'broken': MODULE}, no_input=True)
    elif diff and not res.violations:
        res.violation('c13:correspondence', 'kernel model and implementation differ on %r' % (diff[0],), replay={'script': [diff[0]], 'impl': diff[1], 'model': diff[2], 'broken': 'correspondence kern'}, no_input=True)
    if tier == 'thorough' and ok:
        common.leancheck(res, MODULE)

def replay(path):
    r = json.load(open(path)); script = (r.get('replay') or {}).get('script')
    if not script: print('replay names a broken obligation'); return 1
    exe = common.build_harness('kern', link_lib=False)
    rc, outs, err = common.run_harness(exe, script)
    print(script[0]); print('impl    :', outs[0][:200] if outs else '<abort> ' + (common.sanitizer_summary(err) or ''))
    print('expected:', reference(script[0])[:200])
    return 1 if (not outs or outs[0] != reference(script[0])) else 0
