"""C05 — the LDPC-Staircase code is the RFC 5170 code and depends only on (k, n, N1, seed)."""
import common, corr, gens
from props.api_common import StreamProperty, kv
from props import pyref

class P(StreamProperty):
    pid = 'C05'
    module = 'OpenFecVerif.Props.C05'
    theorems = ['C05_indep_global', 'C05_invalid_seed_keeps_state', 'C05_staircase', 'C05_rejects_large_N1', 'C05_goodRand', 'C05_matrix_wf', 'C05_configured_session', 'C05_column_mapping', 'C05_construction_total']
    rule = ('every case creates an encoder and a decoder session with the same (k, r, N1, seed) after a random prefix of other sessions '
            '(other parameters, other codecs, and near twins that differ from the target in exactly one of N1, seed, k, r) that leave the global PRNG and any other process-wide state in arbitrary states, and dumps both parity-check matrices; they are compared '
            'with the Lean transcription of RFC 5170 (correspondence) and with an independent Python transcription (oracle); grid k in {1..12,31,32,33,100,1000}, '
            'r in {3..12,50,500}, N1 in {3,4,5,7,r}, seeds {1,2,16807,2^31-2,random}; non-trivial = distinct (k,r,N1,seed); '
            'counters: cases where the uneven branch / the extra-entry branch fired')

    def project(self, line, out):
        op = line.split()[0]
        if op in ('matrix', 'params'):
            return out
        if op == 'ctrl':
            return out
        return 'x'

    def nontrivial_key(self, c):
        return c.meta['cfg'].key()

    def oracle(self, c):
        cfg = c.meta['cfg']
        mats = [(i, o) for i, (l, o) in enumerate(zip(c.lines, c.impl)) if l.startswith('matrix') and l.split()[1] in ('8', '9')]
        if not mats:
            return []
        H, added = pyref.rfc5170(cfg.k, cfg.n, cfg.N1, cfg.seed)
        c.meta['added'] = added
        for i, o in mats:
            if not o.startswith('ok rows='):
                return [('c05:no-matrix', 'matrix could not be dumped: %s' % o, i)]
            got = pyref.parse_matrix(o)
            if got != H:
                r_i = next((j for j in range(len(H)) if j >= len(got) or got[j] != H[j]), 0)
                return [('c05:matrix-differs', 'equation %d of the %s session is %s, RFC 5170 gives %s (k=%d n=%d N1=%d seed=%d)' %
                         (r_i, 'encoder' if c.lines[i].split()[1] == '8' else 'decoder', sorted(got[r_i]) if r_i < len(got) else None, sorted(H[r_i]),
                          cfg.k, cfg.n, cfg.N1, cfg.seed), i)]
        if len(mats) == 2 and mats[0][1] != mats[1][1]:
            return [('c05:enc-dec-differ', 'encoder and decoder sessions with equal parameters use different equations', mats[1][0])]
        return []

    def prefix(self, rng, target=None):
        """a few other sessions that disturb process-global state; with a target configuration, also near twins of it (one of N1, seed, k, r
        changed, the rest equal) created just before: anything remembered from a previous session under too coarse a key shows here"""
        b = []
        if target is not None and rng.random() < (0.8 if target.k <= 100 else 0.15):
            for t in range(rng.randint(1, 2) if target.k <= 33 else 1):
                k, r, N1, sd = target.k, target.r, target.N1, target.seed
                what = rng.choice(['N1', 'N1', 'seed', 'k', 'r'])
                if what == 'N1':
                    alts = [x for x in (3, 4, 5, 6, 7, r) if x <= r and x != N1]
                    if not alts: what = 'seed'
                    else: N1 = rng.choice(alts)
                if what == 'seed': sd = sd % (2 ** 31 - 2) + 1
                if what == 'k': k = k + rng.choice([1, 2])
                if what == 'r': r = r + 1
                cfg = gens.Cfg('ldpc', k, r, length=1, N1=N1, seed=sd)
                sid = 5 + t
                b += ['new %d 3 %d' % (sid, rng.choice([1, 2])), cfg.params_line(sid), 'release %d' % sid]
        for j in range(rng.randint(0, 3)):
            kind = rng.choice(['ldpc', 'ldpc', 'rs8', 'rs2m4'])
            if kind == 'ldpc':
                k = rng.randint(1, 30); r = rng.randint(3, 20)
                cfg = gens.Cfg('ldpc', k, r, N1=rng.choice([3, 4]) if r >= 4 else 3, seed=rng.randint(1, 2 ** 31 - 2))
            else:
                n = rng.randint(2, 12); k = rng.randint(1, n - 1); cfg = gens.Cfg(kind, k, n - k)
            sid = j
            b += ['new %d %d %d' % (sid, cfg.codec, rng.choice([1, 2])), cfg.params_line(sid)]
            if rng.random() < 0.5:
                b += [cfg.payload_line(sid)]
            b += ['release %d' % sid]
        return b

    def cases(self, rng, tier):
        ks = list(range(1, 13)) + [31, 32, 33, 100] + ([1000] if tier == 'quick' else [1000, 5000, 20000])
        rs = list(range(3, 13)) + [50] + ([500] if tier == 'quick' else [500, 5000])
        seeds = [1, 2, 16807, 2 ** 31 - 2]
        cases = []; i = 0; combo = 0
        for k in ks:
            for r in rs:
                if k + r > 50000: continue
                if tier == 'quick' and k >= 100 and r not in (3, 50, 500): continue
                if tier == 'quick' and k >= 1000 and r not in (50, 500): continue
                for N1 in sorted(set([3, 4, 5, 7, r])):
                    if N1 > r or N1 > 255: continue
                    if N1 * k > 200000: continue
                    combo += 1   # the fixed seeds rotate per configuration (both ends of the legal range come up every fourth one)
                    big = (k >= 1000 or N1 * k > 20000)     # thorough tier: the largest matrices get two seeds instead of seven
                    for sd in [seeds[combo % 4], rng.randint(1, 2 ** 31 - 2)] if (tier == 'quick' or big) and not (tier == 'thorough' and not big) else \
                              seeds + [rng.randint(1, 2 ** 31 - 2) for _ in range(3)]:
                        cfg = gens.Cfg('ldpc', k, r, length=1, N1=N1, seed=sd)
                        b = self.prefix(rng, cfg)
                        # encoder session 8, decoder session 9 (odd N1: the decoder's matrix is untouched; even N1: compared through the model)
                        b += ['new 8 3 1', cfg.params_line(8), 'matrix 8', 'ctrl 8 lastnull', 'release 8']
                        b += self.prefix(rng, cfg)
                        b += ['new 9 3 2', cfg.params_line(9)]
                        if N1 % 2 == 1: b += ['matrix 9']
                        b += ['ctrl 9 lastnull', 'release 9']
                        c = corr.mk('m%d' % i, b); c.meta = {'cfg': cfg}; cases.append(c); i += 1
        return cases

    def extra_stats(self, cases, res):
        res.cov['cases_with_extra_entries'] = sum(1 for c in cases if c.meta.get('added', 0) > 0)
        res.cov['largest_k'] = max(c.meta['cfg'].k for c in cases)

_p = P()
def run(res, tier, seed, gen_errs): _p.run(res, tier, seed, gen_errs)
def replay(path): return _p.replay(path)
