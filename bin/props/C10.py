"""C10 — status codes and queries tell the truth about decoding progress."""
import common, corr, gens
from props.api_common import StreamProperty, kv, parse_sources, case_codeword

class P(StreamProperty):
    pid = 'C10'
    module = 'OpenFecVerif.Props.C10'
    theorems = ['C10_rs_finish_ok_iff', 'C10_rs_finish_failure_iff', 'C10_rs_monotone', 'C10_rs_submit_ok', 'C10_ldpc_finish_complete_ok',
                'C10_ldpc_submit_ok', 'C10_rs_pointer_identity', 'C10_ldpc_finish_truthful', 'C10_ldpc_pointer_identity']
    rule = ('decoder sessions traced after every call (of_is_decoding_complete + of_get_source_symbols_tab after each submission): '
            'all receive sets for n<=nmax in increasing and shuffled-with-duplicates order, both submission APIs, finish after completion, '
            'finish with fewer than k symbols, callbacks; oracle: finish=OK <=> complete afterwards, finish=FAILURE <=> not complete, '
            'submissions return OK, complete <=> k entries available, never reverts, and a source symbol submitted while unknown is reported '
            'with the very pointer submitted; non-trivial = distinct (config, order, api, cb)')

    def project(self, line, out):
        op = line.split()[0]
        if op in ('recv', 'avail', 'finish'):
            return 'st=' + kv(out).get('st', '?')
        if op == 'sources':
            d = kv(out); src = parse_sources(d.get('src', ''))
            return 'st=%s src=%s' % (d.get('st'), ';'.join('%d:%s' % (i, v[0]) for i, v in sorted(src.items())))
        if op == 'complete':
            return out
        return 'x'

    def oracle(self, c):
        cfg = c.meta['cfg']; k = cfg.k; kind = cfg.kind
        bad = []
        complete = False          # last answer of of_is_decoding_complete
        known = set()             # source ESIs known to be available (from the last sources answer)
        first_sub = {}            # esi -> submission index of the first submission made while the symbol was unknown
        nsub = {}
        finished_called = False
        for i, (l, o) in enumerate(zip(c.lines, c.impl)):
            f = l.split(); op = f[0]; d = kv(o)
            if op == 'recv':
                e = int(f[2])
                if d.get('st') != 'OK':
                    return [('c10:submit-not-ok:%s' % kind, 'of_decode_with_new_symbol returned %s' % d.get('st'), i)]
                j = nsub.get(e, 0); nsub[e] = j + 1
                if e < k and e not in known and e not in first_sub and not (kind != 'ldpc' and complete):
                    first_sub[e] = j
            elif op == 'avail':
                if d.get('st') != 'OK':
                    return [('c10:submit-not-ok:%s' % kind, 'of_set_available_symbols returned %s' % d.get('st'), i)]
                es = [] if f[2] == '-' else [int(x) for x in f[2].split(',')]
                for e in es:
                    if nsub.get(e, 0) == 0: nsub[e] = 1
                    # every source symbol present in the table is submitted by this call; those not yet available
                    # before the call were "submitted while still unknown"
                    if e < k and e not in known and e not in first_sub:
                        first_sub[e] = 0
            elif op == 'complete':
                now = d.get('c') == '1'
                if complete and not now:
                    return [('c10:complete-reverted:%s' % kind, 'of_is_decoding_complete went back to false', i)]
                complete = now
            elif op == 'sources':
                src = parse_sources(d.get('src', '')) if d.get('st') == 'OK' else {}
                if complete != (len(src) == k):
                    return [('c10:complete-vs-available:%s' % kind, 'of_is_decoding_complete=%s but %d of %d source symbols are available' % (complete, len(src), k), i)]
                for e, (prov, hx) in src.items():
                    if c.meta.get('trace') and e in first_sub and prov != 'app%d' % first_sub[e]:
                        return [('c10:pointer-identity:%s' % kind, 'source symbol %d was submitted while unknown (submission %d) but the table reports %s' % (e, first_sub[e], prov), i)]
                known = set(src.keys())
            elif op == 'finish':
                st = d.get('st')
                # the answer of the NEXT complete query decides
                nxt = None
                for l2, o2 in zip(c.lines[i + 1:], c.impl[i + 1:]):
                    if l2.startswith('complete'):
                        nxt = kv(o2).get('c') == '1'; break
                if nxt is not None:
                    if st == 'OK' and not nxt:
                        return [('c10:finish-ok-incomplete:%s' % kind, 'of_finish_decoding returned OK but decoding is not complete', i)]
                    if st == 'FAILURE' and nxt:
                        return [('c10:finish-failure-complete:%s' % kind, 'of_finish_decoding returned FAILURE but decoding is complete', i)]
                    if st not in ('OK', 'FAILURE'):
                        return [('c10:finish-error:%s' % kind, 'of_finish_decoding returned %s on conforming use' % st, i)]
        return bad

    def cases(self, rng, tier):
        nmax = 6 if tier == 'quick' else 8
        cases = []; i = 0
        for cfg in gens.small_configs(['rs8', 'rs2m4', 'rs2m8', 'ldpc'], nmax):
            for sub in gens.subsets(cfg.n):
                api = 'stream' if i % 3 != 2 else 'table'
                order = gens.random_order(rng, sub, 0.4) if i % 2 == 0 else sub
                cb = ['none', 'buf', 'null', 'mix'][(i // 3) % 4]
                cases.append(gens.decoder_case('t%d' % i, cfg, order, api=api, cb=cb, trace=True, finish=True))
                i += 1
        nbig = 80 if tier == 'quick' else 1500
        for j in range(nbig):
            kind = rng.choice(['rs8', 'rs2m8', 'rs2m4', 'ldpc', 'ldpc'])
            if kind == 'ldpc':
                k = rng.randint(9, 80 if tier == 'quick' else 600); r = max(3, int(k * rng.choice([0.5, 1.0])))
                cfg = gens.Cfg(kind, k, r, N1=rng.choice([3, 4, 5]) if r >= 5 else 3, seed=rng.randint(1, 2 ** 31 - 2))
                sub = gens.ldpc_loss_subset(rng, cfg) if j % 4 else list(range(cfg.n))
            else:
                lim = 15 if kind == 'rs2m4' else 40
                n = rng.randint(7, lim); k = rng.randint(1, n - 1)
                cfg = gens.Cfg(kind, k, n - k)
                sub = sorted(rng.sample(range(n), rng.randint(max(0, k - 2), n)))
            cases.append(gens.decoder_case('big%d' % j, cfg, gens.random_order(rng, sub, 0.2), api=rng.choice(['stream', 'table']),
                                           cb=rng.choice(['none', 'buf', 'null']), trace=(cfg.n <= 60), finish=True))
        # histories that continue after of_finish_decoding (second finish, late symbols by either API, finish again)
        cases += gens.after_finish_cases(rng, 'af', 200 if tier == 'quick' else 4000)
        # the application's buffers start at every alignment in turn (a receiver hands over payloads where they lie in its packets):
        # the pointer the table reports must still be the very pointer that was submitted
        for ci, c in enumerate(cases):
            if ci % 2:
                c.lines = [c.lines[0], 'align %d' % (1 + (ci // 2) % 7)] + c.lines[1:] + ['align 0']
        return cases

_p = P()
def run(res, tier, seed, gen_errs): _p.run(res, tier, seed, gen_errs)
def replay(path): return _p.replay(path)
