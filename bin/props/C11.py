"""C11 — decoded-source-symbol callback contract."""
import common, corr, gens
from props.api_common import StreamProperty, kv, parse_sources, case_codeword

def events(out):
    d = kv(out)
    if 'cb' not in d: return []
    return [tuple(int(x) for x in e.split(':')) for e in d['cb'].split(',')]

class P(StreamProperty):
    pid = 'C11'
    module = 'OpenFecVerif.Props.C11'
    theorems = ['C11_rs_events_exactly_missing', 'C11_rs_stored_per_policy', 'C11_dest_policy', 'C11_rs_never_for_received', 'C11_ldpc_finish_events', 'C11_ldpc_recv_events']
    rule = ('decoder and encoder-and-decoder sessions with a callback returning a buffer / NULL / a mix (by ESI parity), registered after the parameters or (every other case) before them, all receive sets for n<=nmax, '
            'both APIs, with finish, loss patterns sampled per decoding stage for LDPC (IT only, ML); oracle on the real library: the multiset of '
            'callback ESIs over the session = source symbols available at the end whose table entry is not an application pointer, each exactly once '
            'with size = symbol length; stored in the returned buffer (tag cb) or a library buffer (tag lib) according to the policy; '
            'non-trivial = cases in which at least one source symbol was decoded')

    def project(self, line, out):
        op = line.split()[0]
        if op in ('recv', 'avail', 'finish'):
            d = kv(out); return 'st=%s cb=%s' % (d.get('st'), d.get('cb', ''))
        if op == 'sources':
            d = kv(out); src = parse_sources(d.get('src', ''))
            return 'st=%s src=%s %s' % (d.get('st'), ';'.join('%d:%s:%s' % (i, v[0], v[1]) for i, v in sorted(src.items())), ' '.join(d.get('flags', [])))
        return 'x'

    def is_nontrivial(self, c):
        return any(events(o) for o in c.impl)

    def oracle(self, c):
        cfg = c.meta['cfg']; k = cfg.k; pol = c.meta['cb']; kind = cfg.kind
        if pol == 'none':
            return []
        cw = case_codeword(c)
        count = {}
        last_src = None; last_idx = None
        received = set()      # source ESIs the application has submitted so far
        for i, (l, o) in enumerate(zip(c.lines, c.impl)):
            f = l.split()
            if f[0] == 'recv' and kv(o).get('st') == 'OK':
                # the symbol of this very call may legitimately have been rebuilt EARLIER (then no event now); an event
                # for it now or later means the callback fired for a received symbol
                for (e, sz) in events(o):
                    if e == int(f[2]) or e in received:
                        return [('c11:for-received:%s' % kind, 'callback invoked for source symbol %d, which had been received' % e, i)]
                received.add(int(f[2]))
            elif f[0] == 'avail':
                es = set() if f[2] == '-' else set(int(x) for x in f[2].split(','))
                for (e, sz) in events(o):
                    if e in es or e in received:
                        return [('c11:for-received:%s' % kind, 'callback invoked for source symbol %d, which is in the table of received symbols' % e, i)]
                received |= es
            elif f[0] == 'finish':
                for (e, sz) in events(o):
                    if e in received:
                        return [('c11:for-received:%s' % kind, 'callback invoked for source symbol %d, which had been received' % e, i)]
            for (e, sz) in events(o):
                if e >= k:
                    return [('c11:bad-esi:%s' % kind, 'callback invoked with ESI %d >= k' % e, i)]
                if sz != cfg.len:
                    return [('c11:bad-size:%s' % kind, 'callback invoked with size %d, symbol length is %d' % (sz, cfg.len), i)]
                count[e] = count.get(e, 0) + 1
                if count[e] > 1:
                    return [('c11:twice:%s' % kind, 'callback invoked twice for source symbol %d' % e, i)]
            if l.startswith('sources') and kv(o).get('st') == 'OK':
                last_src = parse_sources(kv(o).get('src', '')); last_idx = i
        if last_src is None:
            # nothing observable (e.g. Reed-Solomon never completed): no event may have happened
            if count:
                return [('c11:event-without-symbol:%s' % kind, 'callback fired but no source symbol became available', len(c.lines) - 1)]
            return []
        for e, (prov, hx) in last_src.items():
            want_cb = (pol == 'buf') or (pol == 'mix' and e % 2 == 0)
            if prov.startswith('app'):
                if count.get(e, 0) != 0:
                    return [('c11:for-received:%s' % kind, 'callback invoked for source symbol %d, which had been received' % e, last_idx)]
            else:
                if count.get(e, 0) != 1:
                    return [('c11:missing-event:%s:%s' % (kind, 'ml' if kind == 'ldpc' else 'rs'),
                             'source symbol %d was decoded but the callback fired %d times' % (e, count.get(e, 0)), last_idx)]
                if prov != ('cb' if want_cb else 'lib'):
                    return [('c11:wrong-buffer:%s' % kind, 'decoded symbol %d is reported in a %s buffer, policy %s expects %s' % (e, prov, pol, 'cb' if want_cb else 'lib'), last_idx)]
                if cw and hx != cw[e]:
                    return [('c11:wrong-value:%s' % kind, 'decoded symbol %d stored in the callback/library buffer has the wrong value' % e, last_idx)]
        for e in count:
            if e not in last_src:
                return [('c11:event-without-symbol:%s' % kind, 'callback fired for symbol %d which is not available' % e, last_idx)]
        return []

    def cases(self, rng, tier):
        nmax = 6 if tier == 'quick' else 8
        cases = []; i = 0
        for cfg in gens.small_configs(['rs8', 'rs2m4', 'rs2m8', 'ldpc'], nmax):
            for sub in gens.subsets(cfg.n):
                api = 'stream' if i % 2 == 0 else 'table'
                cb = ['buf', 'null', 'mix'][i % 3]
                order = gens.random_order(rng, sub, 0.3) if i % 4 == 0 else sub
                cases.append(gens.decoder_case('cb%d' % i, cfg, order, api=api, cb=cb, finish=True, role=3 if i % 5 == 4 else 2, cb_first=((i // 3) % 2 == 1)))
                i += 1
        nbig = 100 if tier == 'quick' else 2000
        for j in range(nbig):
            k = rng.randint(9, 120 if tier == 'quick' else 800); r = max(3, int(k * rng.choice([0.5, 1.0])))
            cfg = gens.Cfg('ldpc', k, r, N1=rng.choice([3, 4, 5]) if r >= 5 else 3, seed=rng.randint(1, 2 ** 31 - 2))
            sub = gens.ldpc_loss_subset(rng, cfg)
            cases.append(gens.decoder_case('big%d' % j, cfg, gens.random_order(rng, sub, 0.1), api=rng.choice(['stream', 'table']),
                                           cb=rng.choice(['buf', 'null', 'mix']), finish=True, role=3 if j % 4 == 3 else 2, cb_first=(j % 2 == 1)))
        # histories that go on after of_finish_decoding (second finish, late symbols, finish again): still exactly one event per decoded symbol
        cases += [c for c in gens.after_finish_cases(rng, 'af', 60 if tier == 'quick' else 900, kinds=('ldpc', 'ldpc', 'rs8', 'rs2m4', 'ldpc', 'rs2m8'))
                  if c.meta.get('cb') != 'none']
        return cases

    def extra_stats(self, cases, res):
        stages = {'it_events': 0, 'finish_events': 0}
        for c in cases:
            for l, o in zip(c.lines, c.impl):
                n = len(events(o))
                if l.startswith('finish'): stages['finish_events'] += n
                elif n: stages['it_events'] += n
        res.cov['callback_events_by_stage'] = stages

_p = P()
def run(res, tier, seed, gen_errs): _p.run(res, tier, seed, gen_errs)
def replay(path): return _p.replay(path)
