"""C06 — encoders emit the canonical codeword of the configured code."""
import common, corr, gens
from props.api_common import StreamProperty, kv, parse_sources, case_codeword
from props import pyref

def xor_hex(a, b):
    return '%0*x' % (len(a), int(a, 16) ^ int(b, 16)) if a else ''

class P(StreamProperty):
    pid = 'C06'
    module = 'OpenFecVerif.Props.C06'
    theorems = ['C06_points', 'C06_rs_generator_gf8', 'C06_rs_generator_gf4', 'C06_rs_systematic_rows', 'C06_rs_compat',
                'C06_src_untouched_model', 'C06_null_slot_model', 'C06_rs_encode_function']
    rule = ('encoder sessions, every repair ESI, application-allocated and NULL output slots, identity payloads (the output IS the generator row / '
            'the equation) and random payloads of lengths 1..40, 64, 100 and 1023..1025 in application buffers starting at each of the 8 alignments: every k for m=4, sampled k for m=8 (all k in thorough), the LDPC grid; GF(2^m) sessions preceded by a session of the other field size with the same (k, r); '
            'oracle on the real library: RS rows equal the Lagrange formula computed independently (Python, bit-level field), codec 1 and codec 2 (m=8) give '
            'identical bytes, every LDPC parity equation sums to zero over the produced codeword, sources unchanged, NULL slot replaced by a library buffer; '
            'non-trivial = distinct (codec, k, r, length, payload, slot policy)')

    def project(self, line, out):
        op = line.split()[0]
        if op in ('build',):
            return out
        if op in ('cwdump', 'matrix'):
            return out
        return 'x'

    def oracle(self, c):
        cfg = c.meta['cfg']; k = cfg.k; kind = cfg.kind
        cw = case_codeword(c)
        H = None
        built = {}
        sid = str(c.meta.get('sid', 0))
        for i, (l, o) in enumerate(zip(c.lines, c.impl)):
            f = l.split(); op = f[0]
            if f[1:2] != [sid]: continue
            if '!modified' in o:
                return [('c06:source-modified:%s' % kind, 'an application buffer changed during %r: %s' % (l, o[-40:]), i)]
            if op == 'matrix' and o.startswith('ok rows='):
                H = pyref.parse_matrix(o)
            if op == 'build':
                d = kv(o); e = int(f[2])
                if k <= e < cfg.n:
                    if d.get('st') != 'OK':
                        return [('c06:build-failed:%s:%s' % (kind, f[3]), 'of_build_repair_symbol(%d, %s slot) returned %s' % (e, f[3], d.get('st')), i)]
                    if f[3] == 'null' and d.get('prov') != 'lib':
                        return [('c06:null-slot:%s' % kind, 'NULL output slot was not replaced by a library-allocated symbol (%s)' % d.get('prov'), i)]
                    built[e] = d.get('sym')
                    if cw and d.get('sym') != cw[e]:
                        return [('c06:not-a-function:%s' % kind, 'repair symbol %d differs between two encoder sessions with the same input' % e, i)]
                    if kind != 'ldpc' and cfg.payload == 'id':
                        m = 4 if kind == 'rs2m4' else 8
                        row = pyref.generator_row(k, e, m)
                        sym = bytes.fromhex(d.get('sym'))
                        if m == 8:
                            got = list(sym[:k])
                        else:
                            got = [(sym[j // 2] >> 4) if j % 2 == 0 else (sym[j // 2] & 15) for j in range(k)]
                        if got != row:
                            j = next(j for j in range(k) if got[j] != row[j])
                            return [('c06:generator:%s' % kind, 'generator entry (row %d, column %d) is %d, the Vandermonde-derived systematic generator has %d' % (e, j, got[j], row[j]), i)]
        if kind == 'ldpc' and H is not None and cw:
            for r_i, row in enumerate(H):
                acc = None
                for e in row:
                    acc = cw[e] if acc is None else xor_hex(acc, cw[e])
                if acc is not None and int(acc or '0', 16) != 0:
                    return [('c06:ldpc-equation:%d' % 0, 'parity-check equation %d does not sum to zero over the encoder output' % r_i, None)]
        return []

    def cases(self, rng, tier):
        cases = []
        ks8 = sorted(set([1, 2, 3, 100, 254] + [rng.randint(4, 253) for _ in range(5)])) if tier == 'quick' else list(range(1, 255))
        for kind, ks, lim in (('rs2m4', list(range(1, 15)), 15), ('rs8', ks8, 255), ('rs2m8', ks8, 255)):
            for k in ks:
                r = lim - k if (tier == 'thorough' or lim == 15) else min(lim - k, 5)
                cases.append(gens.encoder_case('g-%s-%d' % (kind, k), gens.Cfg(kind, k, r), slots='mix'))
        # the same (k, r) in the other field of the GF(2^m) codec immediately before (both directions), every k with n = 15 and some smaller n
        for kind in ('rs2m4', 'rs2m8'):
            for k in range(1, 15):
                for r in sorted(set([15 - k, 1, min(3, 15 - k)])):
                    c = gens.encoder_case('tw-%s-%d-%d' % (kind, k, r), gens.Cfg(kind, k, r), slots='mix')
                    cases.append(gens.with_prefix(c, gens.field_twin_prefix(c.meta['cfg'])))
        # random payloads, odd lengths (kernel tails)
        j = 0
        for kind in ('rs8', 'rs2m8', 'rs2m4', 'ldpc'):
            for ln in list(range(1, 41 if tier == 'thorough' else 18)) + [20, 23, 24, 31, 33, 40, 64, 100, 1023, 1024, 1025]:
                if kind == 'ldpc':
                    k = rng.randint(2, 40); r = rng.randint(3, 20)
                    cfg = gens.Cfg(kind, k, r, length=ln, N1=3, seed=rng.randint(1, 2 ** 31 - 2), payload='rand', pseed=j)
                else:
                    lim = 15 if kind == 'rs2m4' else 30
                    n = rng.randint(2, lim); k = rng.randint(1, n - 1)
                    cfg = gens.Cfg(kind, k, n - k, length=ln, payload='rand', pseed=j)
                c = gens.encoder_case('rp%d' % j, cfg, slots=rng.choice(['own', 'own', 'null', 'mix']))
                # the application's buffers (source symbols and its own repair slots) start at every alignment in turn; the reference
                # codeword of the `payload` step is computed in ordinary heap blocks
                c.lines = [c.lines[0], 'align %d' % (j % 8)] + c.lines[1:] + ['align 0']
                cases.append(c); j += 1
        # LDPC grid, identity payload
        ks = [1, 2, 3, 5, 8, 12, 31, 32, 33] + ([100, 400] if tier == 'quick' else [100, 1000, 5000])
        for k in ks:
            for r in [3, 4, 7, 12] + ([50] if k >= 31 else []) + ([k] if k > 12 else []):
                for N1 in (3, 4, 5):
                    if N1 > r: continue
                    cfg = gens.Cfg('ldpc', k, r, N1=N1, seed=rng.choice([1, 2, 16807, 2 ** 31 - 2, rng.randint(1, 2 ** 31 - 2)]))
                    cases.append(gens.encoder_case('l%d' % j, cfg, slots=rng.choice(['own', 'mix']))); j += 1
        return cases

    def extra_stats(self, cases, res):
        # byte compatibility of codec 1 and codec 2 (m=8): same (k, r, length, payload) => same codeword
        by = {}
        for c in cases:
            cfg = c.meta['cfg']
            if cfg.kind in ('rs8', 'rs2m8'):
                by.setdefault((cfg.k, cfg.r, cfg.len, cfg.payload, cfg.pseed), {})[cfg.kind] = c
        npairs = 0
        for key, d in by.items():
            if len(d) == 2:
                npairs += 1
                a, b = case_codeword(d['rs8']), case_codeword(d['rs2m8'])
                if a is not None and b is not None and a != b:
                    res.violation('c06:compat', 'codec 1 and codec 2 (m=8) produce different repair symbols for k=%d r=%d' % (key[0], key[1]),
                                  replay={'script': d['rs8'].lines + d['rs2m8'].lines})
        res.cov['rs8_vs_rs2m8_pairs_compared'] = npairs

_p = P()
def run(res, tier, seed, gen_errs): _p.run(res, tier, seed, gen_errs)
def replay(path): return _p.replay(path)
