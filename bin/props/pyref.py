"""Independent reference implementations used only by the direct oracles (third opinion, written from the
RFCs and definitions, not from the library or the Lean models)."""
P = 2147483647

class Rng:
    def __init__(self, seed): self.s = seed
    def rand(self, maxv):
        self.s = (16807 * self.s) % P
        return int(float(self.s) * float(maxv) / float(P))

def rfc5170(k, n, N1, seed):
    """RFC 5170 section 6.2 LDPC-Staircase parity-check matrix as a list of sets of ESIs, and the number of extra entries"""
    r = n - k; g = Rng(seed)
    cols = [set() for _ in range(k)]
    u = [h % r for h in range(N1 * k)]
    t = 0
    for j in range(k):
        for h in range(N1):
            i = t
            while i < N1 * k and u[i] in cols[j]: i += 1
            if i < N1 * k:
                while True:
                    i = t + g.rand(N1 * k - t)
                    if u[i] not in cols[j]: break
                cols[j].add(u[i]); u[i] = u[t]; t += 1
            else:
                while True:
                    i = g.rand(r)
                    if i not in cols[j]: break
                cols[j].add(i)
    rows = [set() for _ in range(r)]
    for j in range(k):
        for i in cols[j]: rows[i].add(j)
    added = 0
    for i in range(r):
        if len(rows[i]) == 0:
            j = g.rand(k); rows[i].add(j); added += 1
        if len(rows[i]) == 1 and k > 1:
            first = min(rows[i])
            while True:
                j = g.rand(k)
                if j != first: break
            rows[i].add(j); added += 1
    H = []
    for i in range(r):
        row = set(rows[i]); row.add(k + i)
        if i > 0: row.add(k + i - 1)
        H.append(row)
    return H, added

def closure(H, R):
    K = set(R); ch = True
    while ch:
        ch = False
        for row in H:
            u = row - K
            if len(u) == 1: K |= u; ch = True
    return K

def determined(H, K, n):
    """all unknown symbols uniquely determined <=> full column rank of H restricted to the unknown columns"""
    unk = sorted(set(range(n)) - set(K))
    idx = {e: i for i, e in enumerate(unk)}
    rows = []
    for row in H:
        v = 0
        for e in row:
            if e in idx: v |= 1 << idx[e]
        if v: rows.append(v)
    rk = 0
    for c in range(len(unk)):
        p = None
        for i in range(rk, len(rows)):
            if rows[i] >> c & 1: p = i; break
        if p is None: return False
        rows[rk], rows[p] = rows[p], rows[rk]
        for i in range(len(rows)):
            if i != rk and rows[i] >> c & 1: rows[i] ^= rows[rk]
        rk += 1
    return True

# ---- GF(2^m) from first principles, Lagrange generator
def gmul(a, b, m, poly):
    r = 0
    while b:
        if b & 1: r ^= a
        a <<= 1
        if a >> m & 1: a ^= poly
        b >>= 1
    return r

def gpow(a, e, m, poly):
    r = 1
    for _ in range(e): r = gmul(r, a, m, poly)
    return r

_inv_cache = {}
def ginv(a, m, poly):
    key = (a, m)
    if key not in _inv_cache:
        _inv_cache[key] = gpow(a, (1 << m) - 2, m, poly)
    return _inv_cache[key]

def points(n, m, poly):
    pts = [0]; x = 1
    for _ in range(n - 1):
        pts.append(x); x = gmul(x, 2, m, poly)
    return pts

def generator_row(k, r, m):
    """coefficients of repair symbol with ESI r over the k source symbols (Lagrange formula)"""
    poly = 0x11D if m == 8 else 0x13
    pts = points(r + 1, m, poly)
    row = []
    for i in range(k):
        num = 1; den = 1
        for l in range(k):
            if l == i: continue
            num = gmul(num, pts[r] ^ pts[l], m, poly)
            den = gmul(den, pts[i] ^ pts[l], m, poly)
        row.append(gmul(num, ginv(den, m, poly), m, poly))
    return row

def parse_matrix(out):
    """'ok rows=0,1;2,3;' -> list of sets"""
    body = out.split('rows=', 1)[1]
    return [set(int(x) for x in r.split(',') if x != '') for r in body.split(';')[:-1]]

def determined_symbols(H, K, n):
    """the unknown symbols whose value is the same in every solution of the checks given the known symbols K:
    reduced row echelon form of H restricted to the unknown columns; a symbol is determined iff it is a pivot column whose
    row has no entry in a free column"""
    unk = sorted(set(range(n)) - set(K))
    idx = {e: i for i, e in enumerate(unk)}
    rows = []
    for row in H:
        v = 0
        for e in row:
            if e in idx: v |= 1 << idx[e]
        if v: rows.append(v)
    piv = {}; rk = 0
    for c in range(len(unk)):
        p = next((i for i in range(rk, len(rows)) if rows[i] >> c & 1), None)
        if p is None: continue
        rows[rk], rows[p] = rows[p], rows[rk]
        for i in range(len(rows)):
            if i != rk and rows[i] >> c & 1: rows[i] ^= rows[rk]
        piv[c] = rk; rk += 1
    free = [c for c in range(len(unk)) if c not in piv]
    fmask = sum(1 << c for c in free)
    return set(unk[c] for c, r in piv.items() if rows[r] & fmask == 0)
