"""Common runner for the properties decided on the API-level stream (ofdrv vs ofmodel)."""
import re, json, os, time
import common, corr, gens

def kv(out):
    """'ok st=OK c=1 src=...' -> dict"""
    d = {}
    for tok in out.split()[1:]:
        if '=' in tok:
            a, b = tok.split('=', 1); d[a] = b
        else:
            d.setdefault('flags', []).append(tok)
    return d

def parse_sources(val):
    """'0:app0:ab;2:lib:cd' -> {0: ('app0','ab'), 2: ('lib','cd')}"""
    d = {}
    if not val:
        return d
    for ent in val.split(';'):
        if not ent: continue
        i, prov, hx = ent.split(':')
        d[int(i)] = (prov, hx)
    return d

def case_codeword(c):
    for l, o in zip(c.lines, c.impl):
        if l.startswith('cwdump') and o.startswith('ok cw='):
            return o[len('ok cw='):].split(';')
    return None

def abort_sig(pid, c):
    a = c.abort
    summ = a.get('summary') or ''
    kind = 'leak' if 'Leak' in summ else 'timeout' if 'TIMEOUT' in (a.get('stderr') or '') else \
        (re.search(r'AddressSanitizer: ([\w-]+)', summ) or re.search(r'(runtime error: [^\n]{0,60})', summ) or [None, 'crash'])[1]
    frame = ''
    m = re.search(r'#\d+ 0x[0-9a-f]+ in (of_\w+)', a.get('stderr') or '')
    if m: frame = m.group(1)
    op = (a.get('at_line') or 'exit').split()[0]
    cfg = getattr(c, 'meta', {}).get('cfg') if hasattr(c, 'meta') else None
    return '%s:abort:%s:%s:%s:%s' % (pid.lower(), cfg.kind if cfg else '-', op, kind, frame)

def meta_json(c):
    m = dict(getattr(c, 'meta', None) or {})
    cfg = m.pop('cfg', None)
    if cfg is not None:
        m['cfg'] = {'kind': cfg.kind, 'k': cfg.k, 'r': cfg.r, 'length': cfg.len, 'N1': cfg.N1, 'seed': cfg.seed,
                    'payload': cfg.payload, 'pseed': cfg.pseed}
    return {k: v for k, v in m.items() if isinstance(v, (int, str, list, dict, bool, type(None)))}

def meta_from_json(m):
    m = dict(m or {})
    if isinstance(m.get('cfg'), dict):
        m['cfg'] = gens.Cfg(**m['cfg'])
    return m

def shrink_script(c, upto):
    """script prefix up to and including line index `upto`, closed by the releases of the sessions it opened"""
    lines = c.lines[:upto + 1]
    opened = []
    for l in lines:
        f = l.split()
        if f[0] == 'new': opened.append(f[1])
        if f[0] == 'release' and f[1] in opened: opened.remove(f[1])
    return lines + ['release %s' % s for s in opened]

class StreamProperty:
    pid = None
    module = None
    theorems = []
    rule = ''
    # fields of an output line that matter for this property (None = compare whole line)
    def project(self, line, out):
        return out
    def oracle(self, c):
        """direct oracle on the implementation's outputs: list of (sig, what, line_index)"""
        return []
    def cases(self, rng, tier):
        raise NotImplementedError
    def nontrivial_key(self, c):
        m = getattr(c, 'meta', None) or {}
        cfg = m.get('cfg')
        return (cfg.key() if cfg else None, tuple(m.get('order', ())), m.get('api'), m.get('cb'), m.get('finish'), c.name.split('#')[0])
    def is_nontrivial(self, c):
        return True
    def extra_stats(self, cases, res):
        pass

    def run(self, res, tier, seed, gen_errs):
        import random
        rng = random.Random(seed)
        res.rule = self.rule
        ok, log = common.check_lean(res, self.module, self.theorems)
        cases = self.cases(rng, tier)
        corr.run(cases)
        res.evaluations = len(cases)
        dist = {}
        for c in cases:
            m = getattr(c, 'meta', None) or {}
            cfg = m.get('cfg')
            key = '%s/%s/%s' % (cfg.kind if cfg else '-', m.get('api', '-'), m.get('cb', '-'))
            dist[key] = dist.get(key, 0) + 1
        res.cov['distribution'] = dist
        res.cov['lines_compared'] = sum(len(c.lines) for c in cases)
        for c in cases[:3]:
            res.sample({'case': c.name, 'script': c.lines[:14], 'impl': c.impl[:14]})
        nviol = 0
        broken_corr = []
        for c in cases:
            nviol = len(res.violations)      # listed known findings do not use up the budget
            if nviol >= 6:
                break
            found = False
            if c.abort:
                sig = abort_sig(self.pid, c)
                idx = c.abort.get('line_index')
                res.violation(sig, 'the real library aborted under the sanitizers (%s) at %r in case %s' %
                              (c.abort.get('summary'), c.abort.get('at_line'), c.name),
                              replay={'script': shrink_script(c, idx) if idx is not None else c.lines, 'abort': c.abort.get('summary'),
                                      'stderr_tail': (c.abort.get('stderr') or '')[-1200:], 'meta': meta_json(c)})
                found = True; nviol += 1
            for sig, what, idx in self.oracle(c):
                res.violation(sig, what + ' (case %s)' % c.name,
                              replay={'script': c.lines, 'failing_line_index': idx, 'meta': meta_json(c),
                                      'impl_output': c.impl[idx] if idx is not None and idx < len(c.impl) else None})
                found = True; nviol += 1
                break
            if not found:
                n = min(len(c.impl), len(c.model))
                for i in range(n):
                    a, b = self.project(c.lines[i], c.impl[i]), self.project(c.lines[i], c.model[i])
                    if a != b:
                        broken_corr.append((c, i, a, b)); break
        if broken_corr and not res.violations and not res.known_hits:
            c, i, a, b = broken_corr[0]
            res.violation('%s:corr:%s' % (self.pid.lower(), c.lines[i].split()[0]),
                          'correspondence between the model and the implementation broke at %r (impl %r, model %r) in %d case(s); '
                          'the direct oracle found no failing input' % (c.lines[i], a[:200], b[:200], len(broken_corr)),
                          replay={'broken': 'correspondence stream of %s' % self.pid, 'script': shrink_script(c, i), 'impl': a[:1000], 'model': b[:1000],
                                  'meta': meta_json(c)},
                          no_input=True)
        res.cov['correspondence_mismatches'] = len(broken_corr)
        for c in cases:
            try:
                if c.impl and not any(v for v in [0]) and self.is_nontrivial(c):
                    res.nontrivial.add(self.nontrivial_key(c))
            except Exception:
                pass
        self.extra_stats(cases, res)
        if corr.model_error and not res.violations:
            res.violation('%s:model-broken' % self.pid.lower(), 'the executable model no longer builds/runs against the regenerated sources, so the correspondence of %s is '
                          'broken; the direct oracle found no failing input on the implementation: %s' % (self.pid, corr.model_error[:400]),
                          replay={'broken': 'ofmodel (correspondence stream of %s)' % self.pid, 'error': corr.model_error}, no_input=True)
        if not ok and not res.violations:
            res.violation('%s:proof' % self.pid.lower(), 'theorems of %s no longer check: %s' % (self.module, '; '.join(common.first_errors(log)) or log[-300:]),
                          replay={'broken': self.module, 'errors': common.first_errors(log), 'undischarged': [n for n, k in res.obligations if not k]},
                          no_input=True)
        if tier == 'thorough' and ok:
            common.leancheck(res, self.module)

    def replay(self, path):
        r = json.load(open(path))
        script = (r.get('replay') or {}).get('script')
        if not script:
            print('replay names a broken obligation, not an input:', json.dumps(r.get('replay'))[:600]); return 1
        if not script[0].startswith('case'):
            script = ['case replay'] + script
        c = corr.CaseResult('replay', script); c.meta = meta_from_json((r.get('replay') or {}).get('meta'))
        corr.run([c])
        for i, l in enumerate(c.lines):
            a = c.impl[i] if i < len(c.impl) else '<no output>'
            b = c.model[i] if i < len(c.model) else ''
            print('%-34s impl: %-60s%s' % (l[:34], a[:60], '' if a == b else '   model: ' + b[:60]))
        if c.abort:
            print('ABORT:', c.abort.get('summary')); return 1
        bad = self.oracle(c)
        print('oracle:', bad[:1] if bad else 'holds')
        return 1 if bad or c.diff else 0
