"""C16 — 2D-parity codec: product-parity structure, sound and complete erasure recovery, release without leak."""
import itertools, math
import common, corr, gens
from props.api_common import StreamProperty, kv, parse_sources, case_codeword
from props import pyref

def shape(k, r):
    """independent transcription of the acceptance rule: the largest d <= floor(sqrt(n)) with d | k and d + k/d = r"""
    n = k + r
    if k < 1 or r < 1 or k > 16 or n > 24 or r >= n: return None
    d = int(math.isqrt(n))
    while d > 0:
        if k % d == 0 and d + k // d == r: return (k // d, d)      # (D rows of L symbols)
        d -= 1
    return None

ACCEPTED = [(k, r) for k in range(0, 20) for r in range(0, 28) if shape(k, r)]

def xor_hex(a, b):
    return '%0*x' % (len(a), int(a, 16) ^ int(b, 16)) if a else ''

class P(StreamProperty):
    pid = 'C16'
    module = 'OpenFecVerif.Props.C16'
    theorems = ['C16_accept_iff', 'C16_product', 'C16_encoder_satisfies_checks', 'C16_single_loss', 'C16_decoder_is_closure', 'C16_structure', 'C16_finish_ok_iff_determined', 'C16_roundtrip']
    rule = ('the whole parameter grid k 0..19 x r 0..27 (accept/reject vs the product-shape rule); for each of the %d accepted configurations: the matrix '
            'dumped from the real session vs the D x L product structure, an encoder with NULL and own slots (every check sums to zero over the output), and '
            'decoder sessions for ALL receive patterns when n <= 13 and sampled ones (every single and double loss, random heavier losses) otherwise, through both '
            'submission APIs, random orders with duplicates, callbacks, then of_finish_decoding and release, plus release after every prefix of a history; oracle: '
            'no wrong symbol, every pattern whose lost source symbols are uniquely determined (GF(2) rank computation in Python) is completely decoded, finish '
            'status = completion, nothing left after release; non-trivial = distinct (config, pattern, api, order)' % len(ACCEPTED))

    def project(self, line, out):
        op = line.split()[0]
        if op in ('recv', 'avail', 'finish', 'params', 'build'):
            return 'st=' + kv(out).get('st', '?')
        if op in ('complete', 'release', 'matrix'):
            return out
        if op == 'sources':
            d = kv(out); src = parse_sources(d.get('src', ''))
            return 'st=%s src=%s' % (d.get('st'), ';'.join('%d:%s' % (i, v[1]) for i, v in sorted(src.items())))
        return 'x'

    def nontrivial_key(self, c):
        return tuple(c.lines[1:])

    def oracle(self, c):
        m = c.meta
        if m.get('grid'):
            k, r = m['k'], m['r']
            for i, (l, o) in enumerate(zip(c.lines, c.impl)):
                if l.startswith('params'):
                    acc = kv(o).get('st') == 'OK'
                    if acc != bool(shape(k, r)):
                        return [('c16:accept:%s' % ('accepted' if acc else 'rejected'), 'of_set_fec_parameters(k=%d, n-k=%d) %s but the product-shape rule says %s'
                                 % (k, r, 'accepted' if acc else 'rejected', shape(k, r)), i)]
            return []
        cfg = m['cfg']; k, r, n = cfg.k, cfg.r, cfg.n
        D, L = shape(k, r)
        H = None
        for i, (l, o) in enumerate(zip(c.lines, c.impl)):
            if '!modified' in o: return [('c16:buffer-modified', 'an application buffer changed during %r' % l, i)]
            if l.startswith('release'):
                d = kv(o)
                if d.get('other') != '0':
                    return [('c16:leak', 'after release %s block(s) allocated by the session are still live and not application-owned' % d.get('other'), i)]
            if l.startswith('matrix') and o.startswith('ok rows=') and H is None:
                H = pyref.parse_matrix(o)
                # product structure of the real matrix
                exp = [set(i2 * L + j for j in range(L)) | {k + i2} for i2 in range(D)] + [set(L * j + c2 for j in range(D)) | {k + D + c2} for c2 in range(L)]
                if H != exp:
                    bad = next(t for t in range(max(len(H), len(exp))) if t >= len(H) or t >= len(exp) or H[t] != exp[t])
                    return [('c16:structure', 'check %d of the real matrix is %s, the %d x %d product code has %s' % (bad, sorted(H[bad]) if bad < len(H) else None, D, L, sorted(exp[bad]) if bad < len(exp) else None), i)]
        exp = [set(i2 * L + j for j in range(L)) | {k + i2} for i2 in range(D)] + [set(L * j + c2 for j in range(D)) | {k + D + c2} for c2 in range(L)]
        cw = case_codeword(c)
        if cw:
            for t, row in enumerate(exp):
                acc = None
                for e in row: acc = cw[e] if acc is None else xor_hex(acc, cw[e])
                if int(acc or '0', 16) != 0:
                    return [('c16:encoder-check', 'check %d (%s) does not sum to zero over the encoder output' % (t, sorted(row)), None)]
        if m.get('role') == 'enc':
            for i, (l, o) in enumerate(zip(c.lines, c.impl)):
                if l.startswith('build') and kv(o).get('st') != 'OK':
                    return [('c16:build-failed', 'of_build_repair_symbol returned %s' % kv(o).get('st'), i)]
                if l.startswith('build') and cw and kv(o).get('sym') != cw[int(l.split()[2])]:
                    return [('c16:encoder-not-a-function', 'two encoder sessions with the same input disagree on %s' % l, i)]
            return []
        # decoder
        recv = set(e for e in m['order'] if e < n)
        complete = None; finished = None
        for i, (l, o) in enumerate(zip(c.lines, c.impl)):
            f = l.split(); op = f[0]; d = kv(o)
            if op in ('recv', 'avail') and d.get('st') != 'OK':
                return [('c16:submit-status', '%s returned %s' % (op, d.get('st')), i)]
            if op == 'sources' and d.get('st') == 'OK' and cw:
                for e, (prov, hx) in parse_sources(d.get('src', '')).items():
                    if hx != cw[e]:
                        return [('c16:wrong-symbol', 'source symbol %d reported as %s but the encoded symbol is %s' % (e, hx[:40], cw[e][:40]), i)]
            if op == 'complete': complete = (i, d.get('c') == '1')
            if op == 'finish': finished = (i, d.get('st'))
        if finished and m.get('early') is None:
            lost_src = set(range(k)) - recv
            det = pyref.determined_symbols(exp, recv, n)
            allsrc = lost_src <= det
            m['cls'] = 'determined' if allsrc else 'undetermined'
            if allsrc and not (complete and complete[1]):
                return [('c16:determined-not-decoded', 'the lost source symbols %s are uniquely determined by the checks (received %d of %d symbols) but decoding is not complete after '
                         'of_finish_decoding (%s)' % (sorted(lost_src), len(recv), n, finished[1]), finished[0])]
            if complete and complete[1] and not allsrc:
                return [('c16:decoded-not-determined', 'decoding completed although the checks do not determine the lost source symbols', finished[0])]
            if complete and (finished[1] == 'OK') != complete[1]:
                return [('c16:finish-status', 'of_finish_decoding returned %s but completion is %s' % (finished[1], complete[1]), finished[0])]
        return []

    def extra_stats(self, cases, res):
        cls = {}
        for c in cases:
            t = c.meta.get('cls')
            if t: cls[t] = cls.get(t, 0) + 1
        res.cov['decoder_patterns_by_class'] = cls
        res.cov['accepted_configurations'] = len(ACCEPTED)

    def cases(self, rng, tier):
        cases = []; n_ = [0]
        def add(c, **meta):
            c.meta.update(meta); cases.append(c); n_[0] += 1
        # acceptance grid
        for k in range(0, 20):
            for r in range(0, 28):
                c = corr.mk('grid-%d-%d' % (k, r), ['new 0 5 3', 'params 0 %d %d 2 0 0 0' % (k, r), 'release 0'])
                c.meta = {'grid': True, 'k': k, 'r': r}; cases.append(c)
        for (k, r) in ACCEPTED:
            n = k + r
            for ln, pay in ((None, 'id'), (rng.choice([1, 3, 5, 9, 33]), 'rand')):
                cfg = gens.Cfg('2d', k, r, length=ln, payload=pay, pseed=k * 31 + r)
                add(gens.encoder_case('e-%d-%d-%s' % (k, r, pay), cfg, slots='mix'), role='enc')
            cfg = gens.Cfg('2d', k, r)
            if n <= (13 if tier == 'quick' else 16):
                pats = [s for s in gens.subsets(n)]
                if tier == 'quick' and len(pats) > 1100: pats = [p for p in pats if len(p) >= n - 3 or rng.random() < 0.12]
            else:
                pats = [[e for e in range(n) if e not in lost] for nl in (0, 1, 2) for lost in itertools.combinations(range(n), nl)]
                pats += [sorted(rng.sample(range(n), rng.randint(max(0, k - 2), n))) for _ in range(150 if tier == 'quick' else 3000)]
                if tier == 'quick': pats = rng.sample(pats, min(len(pats), 450))
            for t, sub in enumerate(pats):
                api = 'stream' if t % 3 else 'table'
                order = gens.random_order(rng, sub, 0.25) if t % 2 else list(sub)
                cfg2 = cfg if t % 5 else gens.Cfg('2d', k, r, length=rng.choice([1, 2, 7]), payload='rand', pseed=t)
                add(gens.decoder_case('d-%d-%d-%d' % (k, r, t), cfg2, order, api=api, cb=['none', 'buf', 'null', 'mix'][(t // 3) % 4], finish=True, matrix=(t % 7 == 0),
                                      role=2 if t % 4 else 3), role='dec')
            # a shape the codec refuses first, then this one on the same session: nothing of the first attempt may stay behind
            for t in range(3):
                sub_ = sorted(rng.sample(range(n), rng.randint(max(0, k - 1), n)))
                add(gens.decoder_case('rf-%d-%d-%d' % (k, r, t), cfg, sub_, api='stream' if t % 2 else 'table', cb=['none', 'mix', 'null'][t],
                                      finish=True, role=2 if t else 3, refused_first=True), role='dec')
            c = gens.encoder_case('rfe-%d-%d' % (k, r), cfg, slots='mix')
            c.lines = c.lines[:2] + [gens.refused_params_line(cfg, 0)] + c.lines[2:]
            add(c, role='enc')
            # release after every prefix of one history
            order = gens.random_order(rng, rng.sample(range(n), n - 2), 0.2)
            for cut in range(len(order) + 6):
                c = gens.decoder_case('er-%d-%d-%d' % (k, r, cut), cfg, order, finish=True, cb='mix', early_release=cut)
                add(c, role='dec', early=cut)
        return cases

_p = P()
def run(res, tier, seed, gen_errs): _p.run(res, tier, seed, gen_errs)
def replay(path): return _p.replay(path)
