"""C02 — Reed-Solomon codecs are MDS: any k of the n symbols recover the block."""
import itertools
import common, corr, gens
from props.api_common import StreamProperty, kv, parse_sources, case_codeword

class P(StreamProperty):
    pid = 'C02'
    module = 'OpenFecVerif.Props.C02'
    theorems = ['C02_any_k_gf8', 'C02_any_k_gf4', 'C02_systematic_gf8', 'C02_systematic_gf4', 'C02_fewer_undetermined', 'C02_fewer_failure', 'C02_executable_field_ops']
    rule = ('(i) generator correspondence: encoder sessions on identity payloads print the repair rows of the systematic generator, '
            'compared entry by entry with the Lagrange-formula model (quick: every k for m=4 and a seeded sample of k for both m=8 codecs; '
            'thorough: every k); (ii) decoder sessions: every k-subset and every (k-1)-subset for n<=nmax, plus sampled (k,n,subset,order) up to '
            'the field limit, through both submission APIs, a quarter of the GF(2^m) sessions right after a session of the other field size with the same (k, r); oracle: exactly-k distinct symbols => complete with the original symbols; fewer => not complete and finish=FAILURE; '
            'non-trivial = distinct (codec, k, n, subset, order, api)')

    def project(self, line, out):
        op = line.split()[0]
        if op == 'sources':
            d = kv(out); src = parse_sources(d.get('src', ''))
            return 'st=%s src=%s' % (d.get('st'), ';'.join('%d:%s' % (i, v[1]) for i, v in sorted(src.items())))
        if op in ('complete', 'cwdump'):
            return out
        if op == 'build':
            d = kv(out); return 'st=%s sym=%s' % (d.get('st'), d.get('sym'))
        if op in ('recv', 'avail', 'finish', 'params'):
            return 'st=' + kv(out).get('st', '?')
        return 'x'

    def oracle(self, c):
        if 'order' not in c.meta:
            return []
        cfg = c.meta['cfg']; k = cfg.k
        cw = case_codeword(c)
        distinct = len(set(e for e in c.meta['order'] if e < cfg.n))
        bad = []
        comp = [(i, kv(o).get('c')) for i, (l, o) in enumerate(zip(c.lines, c.impl)) if l.startswith('complete')]
        fin = [(i, kv(o).get('st')) for i, (l, o) in enumerate(zip(c.lines, c.impl)) if l.startswith('finish')]
        srcs = [(i, kv(o)) for i, (l, o) in enumerate(zip(c.lines, c.impl)) if l.startswith('sources')]
        if distinct >= k:
            # after finish (or, for the stream API, already before) decoding must be complete with the right symbols
            if fin and fin[0][1] != 'OK':
                bad.append(('c02:k-symbols-not-decoded:%s' % cfg.kind, '%d distinct symbols (k=%d) but of_finish_decoding returned %s' % (distinct, k, fin[0][1]), fin[0][0]))
            elif comp and c.meta['api'] == 'stream' and comp[0][1] != '1':
                # symbols submitted one at a time: the k-th distinct one completes decoding, whatever it is and without of_finish_decoding
                bad.append(('c02:k-symbols-not-complete-before-finish:%s' % cfg.kind, '%d distinct symbols (k=%d) were submitted through of_decode_with_new_symbol '
                            'but decoding is not complete before of_finish_decoding is called' % (distinct, k), comp[0][0]))
            elif comp and (c.meta['finish'] or c.meta['api'] == 'stream') and comp[-1][1] != '1':
                bad.append(('c02:k-symbols-not-complete:%s' % cfg.kind, '%d distinct symbols (k=%d) but decoding is not complete' % (distinct, k), comp[-1][0]))
            elif srcs and (c.meta['finish'] or c.meta['api'] == 'stream') and cw:
                i, d = srcs[-1]
                src = parse_sources(d.get('src', ''))
                if d.get('st') != 'OK' or len(src) != k or any(src[j][1] != cw[j] for j in src):
                    bad.append(('c02:wrong-block:%s' % cfg.kind, 'decoded block differs from the encoded one', i))
        else:
            if any(v == '1' for _, v in comp):
                bad.append(('c02:complete-with-fewer:%s' % cfg.kind, 'only %d distinct symbols (k=%d) but completion reported' % (distinct, k), comp[-1][0]))
            if fin and fin[0][1] != 'FAILURE':
                bad.append(('c02:finish-with-fewer:%s' % cfg.kind, 'only %d distinct symbols (k=%d) but of_finish_decoding returned %s' % (distinct, k, fin[0][1]), fin[0][0]))
        return bad[:1]

    def cases(self, rng, tier):
        cases = []
        # (i) generator rows through the encoder, identity payload
        ks4 = list(range(1, 15))
        ks8 = sorted(set([1, 2, 3, 127, 128, 254] + [rng.randint(4, 253) for _ in range(6 if tier == 'quick' else 0)])) if tier == 'quick' else list(range(1, 255))
        for kind, ks, lim in (('rs2m4', ks4, 15), ('rs8', ks8, 255), ('rs2m8', ks8, 255)):
            for k in ks:
                r = lim - k
                if tier == 'quick' and lim == 255:
                    r = min(r, 6)   # rows are independent of n; a few rows per k in the quick tier
                cfg = gens.Cfg(kind, k, r)
                cases.append(gens.encoder_case('gen-%s-%d' % (kind, k), cfg))
        # (ii) every k-subset and (k-1)-subset for small n
        nmax = 7 if tier == 'quick' else 10
        i = 0
        for kind in ('rs8', 'rs2m4', 'rs2m8'):
            for n in range(2, nmax + 1):
                for k in range(1, n):
                    cfg = gens.Cfg(kind, k, n - k)
                    for size in (k, k - 1, k + 1):
                        if size < 0 or size > n: continue
                        for sub in itertools.combinations(range(n), size):
                            order = list(sub)
                            if i % 3 == 1: rng.shuffle(order)
                            c = gens.decoder_case('sub%d' % i, cfg, order, api='stream' if i % 2 else 'table', finish=True)
                            if i % 4 == 3: gens.with_prefix(c, gens.field_twin_prefix(cfg))   # same (k, r) in the other field just before
                            cases.append(c)
                            i += 1
        ns = 150 if tier == 'quick' else 3000
        for j in range(ns):
            kind = rng.choice(['rs8', 'rs2m8', 'rs2m4'])
            lim = 15 if kind == 'rs2m4' else 255
            n = rng.randint(2, lim) if (tier == 'thorough' or kind == 'rs2m4') else rng.choice([rng.randint(2, 40), rng.randint(200, 255)])
            k = rng.randint(1, n - 1)
            cfg = gens.Cfg(kind, k, n - k, payload=rng.choice(['id', 'rand']), pseed=j)
            if cfg.payload == 'rand': cfg.len = rng.choice([1, 2, 7, 16, 31])
            size = rng.choice([k, k, k, k - 1, min(n, k + rng.randint(1, 3))])
            sub = rng.sample(range(n), max(0, size))
            cases.append(gens.decoder_case('smp%d' % j, cfg, sub, api=rng.choice(['stream', 'table']), finish=True))
        return cases

_p = P()
def run(res, tier, seed, gen_errs): _p.run(res, tier, seed, gen_errs)
def replay(path): return _p.replay(path)
