"""C08 — a released session leaves nothing behind: no leak, no double free (partial: ledger theorem + sanitizer-observed runtime)."""
import common, corr, gens
from props.api_common import StreamProperty, kv

class P(StreamProperty):
    pid = 'C08'
    module = 'OpenFecVerif.Props.C08'
    theorems = ['C08_unconfigured_owns_nothing', 'C08_encoder_owns_null_slots', 'C08_rs_decoder_owns_decoded', 'C08_received_never_owned',
                'C08_returned_le']
    rule = ('sessions of every codec (RS 2^8, RS 2^m m=4/8, LDPC-Staircase) and role (encoder, decoder, encoder-and-decoder) released at EVERY point of their '
            'life: unconfigured, after rejected parameters, after a refused configuration followed by an accepted one, configured, after each prefix of encoding and of decoding histories (IT-complete, ML-complete, several of_finish_decoding calls with symbols in between, '
            'failed, duplicates, both submission APIs, callbacks returning a buffer/NULL), after finish; heavy-column LDPC sessions (N1 up to n-k, repairs first) whose per-call scratch tables grow. The harness attributes every heap block to the '
            'session call that allocated it (sanitizer malloc/free hooks); after release it reports the blocks still live, split into those the API documents as '
            'application-owned (decoded source symbols not received and not placed in a callback buffer, repair symbols built into a NULL slot) and others; '
            'oracle: others = 0, LeakSanitizer silent at exit, no double free / free of an application pointer (ASan); the model predicts the first count exactly; '
            'non-trivial = distinct (config, role, history, release point)')

    def project(self, line, out):
        op = line.split()[0]
        if op == 'release':
            return out
        if op in ('recv', 'avail', 'finish', 'build', 'params', 'new'):
            return 'st=' + kv(out).get('st', '?')
        return 'x'

    def oracle(self, c):
        for i, (l, o) in enumerate(zip(c.lines, c.impl)):
            if l.startswith('release'):
                d = kv(o)
                if d.get('other') != '0':
                    cfg = c.meta.get('cfg')
                    return [('c08:leak:%s:role%s' % (cfg.kind if cfg else '-', c.meta.get('role')),
                             'after of_release_codec_instance %s block(s) allocated inside this session\'s calls are still live and are not application-owned '
                             '(release point: after %r)' % (d.get('other'), c.lines[i - 1]), i)]
                if d.get('st') != 'OK':
                    return [('c08:release-status', 'of_release_codec_instance returned %s' % d.get('st'), i)]
        return []

    def nontrivial_key(self, c):
        return tuple(c.lines[1:])

    def cases(self, rng, tier):
        cases = []; n = [0]
        def add(body, cfg, role):
            c = corr.mk('c%d' % n[0], body); n[0] += 1
            c.meta = {'cfg': cfg, 'role': role, 'api': 'mixed', 'cb': '-', 'order': []}
            cases.append(c)
        def prefixes(head, steps, cfg, role, sid=0, every=1):
            for cut in range(0, len(steps) + 1, every):
                add(head + steps[:cut] + ['release %d' % sid], cfg, role)
            if len(steps) % every:
                add(head + steps + ['release %d' % sid], cfg, role)
        # release of unconfigured sessions and after rejected parameters
        for codec in (1, 2, 3):
            for role in (1, 2, 3):
                add(['new 0 %d %d' % (codec, role), 'release 0'], None, role)
                add(['new 0 %d %d' % (codec, role), 'params 0 0 0 0 4 3 1', 'release 0'], None, role)
                add(['new 0 %d %d' % (codec, role), 'params 0 3 2 4 %d 9 1' % (5 if codec == 2 else 4), 'release 0'], None, role)
        nmax = 5 if tier == 'quick' else 6
        cfgs = gens.small_configs(['rs8', 'rs2m4', 'rs2m8', 'ldpc'], nmax, ldpc_seeds=(1, 5), N1s=(3, 4))
        cfgs += [gens.Cfg('ldpc', 6, 6, N1=3, seed=s) for s in (3, 11)] + [gens.Cfg('ldpc', 8, 8, N1=4, seed=7), gens.Cfg('ldpc', 12, 7, N1=3, seed=9)]
        cfgs += [gens.Cfg('rs8', 5, 4, length=9), gens.Cfg('rs2m8', 4, 5, length=7), gens.Cfg('rs2m4', 7, 6)]
        for ci, cfg in enumerate(cfgs):
            # a few histories per configuration, each released after every prefix
            hist = []
            full = list(range(cfg.n))
            hist.append(('stream', list(range(cfg.k)), 'none'))                        # all sources
            hist.append(('stream', full[::-1], rng.choice(['none', 'buf', 'null'])))     # repairs first
            hist.append(('stream', gens.random_order(rng, rng.sample(full, min(cfg.n, cfg.k + rng.randint(0, 1))), 0.4), rng.choice(['none', 'mix'])))
            hist.append(('stream', rng.sample(full, max(0, cfg.k - 1)), 'none'))         # not enough
            hist.append(('table', rng.sample(full, min(cfg.n, cfg.k + rng.randint(0, 1))), rng.choice(['none', 'buf'])))
            if cfg.kind == 'ldpc':
                hist.append(('stream', gens.ldpc_loss_subset(rng, cfg), 'null'))
            for hi, (api, order, cb) in enumerate(hist):
                role = 2 if (ci + hi) % 4 else 3
                head = ['new 0 %d %d' % (cfg.codec, role), cfg.params_line(0)]
                if cb != 'none': head.append('cb 0 %s' % cb)
                head += [cfg.payload_line(0)]
                steps = []
                if role == 3 and hi % 2 == 0:
                    # an encoder-and-decoder instance that has encoded before it decodes
                    steps += ['build 0 %d %s' % (e, 'null' if e % 2 else 'own') for e in range(cfg.k, cfg.n)]
                if api == 'stream':
                    steps += ['recv 0 %d' % e for e in order]
                else:
                    steps.append('avail 0 %s' % (','.join(str(e) for e in sorted(set(order))) or '-'))
                steps += ['finish 0', 'sources 0', 'complete 0']
                prefixes(head, steps, cfg, role)
            # encoder, NULL and own slots, released after every build
            head = ['new 0 %d 1' % cfg.codec, cfg.params_line(0), cfg.payload_line(0)]
            steps = ['build 0 %d %s' % (e, ['null', 'own'][(e + ci) % 2]) for e in range(cfg.k, cfg.n)]
            steps += ['build 0 %d null' % cfg.k]     # rebuilding into a fresh NULL slot: the application owns both buffers
            prefixes(head, steps, cfg, 1)
        # a configuration the codec refuses, then an accepted one on the same session, a short life, release
        for ci, cfg in enumerate(cfgs):
            if ci % 3: continue
            for role in (1, 2, 3):
                head = ['new 0 %d %d' % (cfg.codec, role), gens.refused_params_line(cfg, 0), cfg.params_line(0), cfg.payload_line(0)]
                steps = (['build 0 %d null' % cfg.k] if role & 1 else []) + (['recv 0 %d' % e for e in range(cfg.n - 1, max(-1, cfg.n - 1 - cfg.k), -1)] + ['finish 0'] if role & 2 else [])
                prefixes(head, steps, cfg, role, every=max(1, len(steps) // 2))
        # LDPC sessions in which of_finish_decoding is called several times (too early: it fails and keeps the system; more symbols; again)
        for j in range(40 if tier == 'quick' else 600):
            k = rng.randint(3, 40); r = rng.randint(max(3, k - 2), k + 8)
            cfg = gens.Cfg('ldpc', k, r, N1=rng.choice([3, 4, 5]) if r >= 5 else 3, seed=rng.randint(1, 2 ** 31 - 2), length=rng.choice([1, 8]))
            perm = list(range(cfg.n)); rng.shuffle(perm)
            a1 = rng.randint(1, max(1, k // 2)); a2 = min(cfg.n, max(a1 + 1, k + rng.randint(-2, 3))); a3 = min(cfg.n, a2 + rng.randint(0, 3))
            role = 2 if j % 3 else 3
            head = ['new 0 3 %d' % role, cfg.params_line(0)]
            cb = ['none', 'null', 'buf', 'mix'][j % 4]
            if cb != 'none': head.append('cb 0 %s' % cb)
            head.append(cfg.payload_line(0))
            steps = ['recv 0 %d' % e for e in perm[:a1]] + ['finish 0'] + ['recv 0 %d' % e for e in perm[a1:a2]] + ['finish 0'] + \
                    ['recv 0 %d' % e for e in perm[a2:a3]] + ['finish 0', 'finish 0']
            # released after each of_finish_decoding (and once in between)
            cuts = [i + 1 for i, l in enumerate(steps) if l.startswith('finish')] + [a1 + 2]
            for cut in sorted(set(cuts)):
                add(head + steps[:cut] + ['release 0'], cfg, role)
        # larger sessions (several entry blocks, ML with many unknowns), released at a few points
        for j in range(12 if tier == 'quick' else 150):
            kind = rng.choice(['ldpc', 'ldpc', 'rs8', 'rs2m8', 'rs2m4'])
            if kind == 'ldpc':
                k = rng.randint(20, 300); r = max(3, int(k * rng.choice([0.5, 1.0])))
                cfg = gens.Cfg(kind, k, r, N1=rng.choice([3, 4, 5]), seed=rng.randint(1, 2 ** 31 - 2), length=rng.choice([1, 5, 64]))
                order = gens.random_order(rng, gens.ldpc_loss_subset(rng, cfg), 0.1)
            else:
                lim = 15 if kind == 'rs2m4' else 60
                nn = rng.randint(6, lim); k = rng.randint(1, nn - 1)
                cfg = gens.Cfg(kind, k, nn - k, length=rng.choice([None, 33]))
                order = gens.random_order(rng, rng.sample(range(nn), rng.randint(max(0, k - 1), nn)), 0.2)
            role = rng.choice([2, 3])
            head = ['new 0 %d %d' % (cfg.codec, role), cfg.params_line(0)]
            cb = rng.choice(['none', 'buf', 'null', 'mix'])
            if cb != 'none': head.append('cb 0 %s' % cb)
            head.append(cfg.payload_line(0))
            steps = ['recv 0 %d' % e for e in order] + ['finish 0']
            prefixes(head, steps, cfg, role, every=max(1, len(steps) // 4))
        # heavy-column LDPC sessions (small k, N1 up to n-k, repairs first): one submission brings many equations to one unknown, the
        # decoder's per-call scratch tables grow; released after finish and at a few earlier points
        for j, (cfg, order) in enumerate(gens.dense_column_configs(rng, 18 if tier == 'quick' else 200) + gens.star_configs(rng, 6 if tier == 'quick' else 100)):
            role = 2 if j % 3 else 3
            head = ['new 0 %d %d' % (cfg.codec, role), cfg.params_line(0)]
            cb = ['none', 'buf', 'null', 'mix'][j % 4]
            if cb != 'none': head.append('cb 0 %s' % cb)
            head.append(cfg.payload_line(0))
            steps = ['recv 0 %d' % e for e in order] + ['finish 0']
            prefixes(head, steps, cfg, role, every=max(1, len(steps) // 3))
        return cases

_p = P()
def run(res, tier, seed, gen_errs): _p.run(res, tier, seed, gen_errs)
def replay(path): return _p.replay(path)
