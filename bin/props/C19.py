"""C19 — the RFC 5170 generator is Park-Miller (translated code, proved; plus correspondence with the compiled C)."""
import random, json, os
import common

THEOREMS = ['C19_step', 'C19_exact', 'C19_range', 'C19_seed_guard', 'C19_10000', 'C19_executable_rounding_in_standard_model']
MODULE = 'OpenFecVerif.Props.C19'
P = 2147483647

def direct_oracle(lines, outs):
    """independent of the model: Park-Miller by definition, exact floor when s'*maxv < 2^53, range always"""
    bad = []
    s = None
    for l, o in zip(lines, outs):
        f = l.split()
        kv = dict(x.split('=') for x in o.split()[1:]) if o.startswith('ok') else {}
        if f[1] == 'srand':
            v = int(f[2])
            exp = v if 1 <= v <= P - 1 else s
            if s is None and not (1 <= v <= P - 1):
                s = int(kv.get('seed', 0)); continue
            if int(kv['seed']) != exp:
                bad.append((l, o, 'srand: expected state %s' % exp))
            s = int(kv['seed'])
        elif f[1] == 'next':
            m = int(f[2])
            if s is None or not (1 <= s <= P - 1):
                s = int(kv['seed']); continue
            ns = 16807 * s % P
            if int(kv['seed']) != ns:
                bad.append((l, o, 'state: expected %d' % ns))
            out = int(kv['out'])
            if m >= 1 and not (0 <= out < m):
                bad.append((l, o, 'output not in 0..maxv-1'))
            if ns * m < 2 ** 53 and out != ns * m // P:
                bad.append((l, o, 'output: expected exact floor %d' % (ns * m // P)))
            # RFC 5170's reference expression, evaluated in binary64 by the interpreter (one multiplication, one division, truncation)
            if m >= 1 and out != int(float(ns) * float(m) / float(P)):
                bad.append((l, o, 'output: RFC 5170 reference expression gives %d' % int(float(ns) * float(m) / float(P))))
            s = int(kv['seed'])
    return bad

def gen_script(rng, nseeds, nsteps, nadv=3000):
    lines = []
    seeds = [1, 2, 16807, P - 1, P - 2, 0x7FFF, 0x10000, 1043618065] + [rng.randrange(1, P) for _ in range(nseeds)]
    maxvs = [1, 2, 3, 255, 50000, 12750000, P, 2 ** 31, 2 ** 22 + 1]
    for sd in seeds[:nseeds + 8]:
        lines.append('rand srand %d' % sd)
        for i in range(nsteps):
            lines.append('rand next %d' % rng.choice(maxvs + [rng.randrange(1, 12750001)]))
    # seeding guard: invalid seeds must leave the state alone
    # (64-bit argument: values whose low 32 or low 31 bits look valid, and the corners of every width)
    for bad in [0, P, P + 1, 2 ** 32 - 1, 2 ** 32, 2 ** 63, 2 ** 32 + 1, 2 ** 32 + 5, 2 ** 32 + P - 1, 2 ** 33 + 12345, 2 ** 63 + 1,
                0x8000000000000001, 0xDEADBEEF12345678, 2 ** 64 - 1, 2 ** 31 + 1, 2 ** 31 + 16807, 2 ** 48 + 7, 3 * 2 ** 32 + 1043618065]:
        lines.append('rand srand %d' % bad)
        lines.append('rand next 1000')
    # adversarial pairs: s'*maxv/P close to an integer (maxv = multiples of P±1 would exceed range; use P itself)
    for sd in [1, 127773, 2836, P - 2]:
        lines.append('rand srand %d' % sd)
        lines.append('rand next %d' % P)
        lines.append('rand next %d' % (P - 1))
        lines.append('rand next %d' % (P + 1))
    # adversarial pairs inside the range the matrix construction can request: states s' with s'*maxv within a few units of a
    # multiple of 2^31-1 (the quotient is then within maxv/2^31 * 2^-... of an integer: any extra rounding shows)
    inv16807 = pow(16807, P - 2, P)
    for j in range(nadv):
        m = rng.choice([rng.randrange(2 ** 22, 12750001), rng.randrange(2 ** 20, 12750001), rng.randrange(2, 12750001), 12750000])
        t = rng.choice([1, 2, 3, 4, -1, -2, -3, -4])
        s1 = (t * pow(m % P, P - 2, P)) % P
        if s1 == 0: continue
        s0 = (s1 * inv16807) % P
        lines.append('rand srand %d' % s0)
        lines.append('rand next %d' % m)
    return lines

def run(res, tier, seed, gen_errs):
    rng = random.Random(seed)
    res.rule = ('obligations: theorems over the Lean translation of of_rand.c regenerated this run; correspondence: '
                'srand/next scripts (fixed + seeded random seeds, maxv in {1,2,3,255,50000,12750000,2^31-1,...}) run on the '
                'compiled C (ASan/UBSan) and on ofmodel (translated code with exact-rational round-to-nearest-even), plus adversarial (state, maxv) pairs with s\'*maxv within 4 of a multiple of 2^31-1 for maxv up to 12750000; oracle: Park-Miller by definition, exact floor below 2^53, and the reference expression evaluated in binary64; '
                'non-trivial = distinct (state, maxv) pairs with a valid state')
    ok, log = common.check_lean(res, MODULE, THEOREMS)
    exe = common.build_harness('scalardrv', link_lib=False)
    nseeds, nsteps = (12, 400) if tier == 'quick' else (200, 2000)
    lines = gen_script(rng, nseeds, nsteps, 3000 if tier == 'quick' else 200000)
    if tier == 'thorough':
        lines += ['rand srand 1', 'rand walk 2147483646', 'rand next 1']
    rc, couts, cerr = common.run_harness(exe, lines)
    if rc != 0:
        res.violation('c19:harness-abort', 'scalardrv aborted: %s' % (common.sanitizer_summary(cerr) or cerr[-300:]),
                      replay={'script': lines[:50], 'stderr': cerr[-1500:]})
        return
    res.evaluations = len(lines)
    for l in lines:
        res.nontrivial.add(l)
    res.sample({'script_head': lines[:6], 'impl_head': couts[:6]})
    bad = direct_oracle(lines, couts)
    # long definitional walk on the implementation only (the first state that deviates becomes the replay)
    nverify = 4000000 if tier == 'quick' else 60000000
    vlines = ['rand srand 1', 'rand verify %d' % nverify, 'rand srand %d' % rng.randrange(1, P), 'rand verify %d' % (nverify // 4)]
    rc2, vouts, verr = common.run_harness(exe, vlines)
    res.cov['definitional_walk_steps'] = nverify + nverify // 4
    for vl, vo in zip(vlines, vouts):
        if vl.startswith('rand verify') and 'bad_at=0 ' not in vo:
            d = dict(x.split('=') for x in vo.split()[1:])
            bad.append(('rand srand %s' % d['from'], vo, 'state: from state %s the generator gives state %s / output %s, the definition gives state %s' %
                        (d['from'], d['got_state'], d['got_out'], d['exp_state'])))
            lines = lines + ['rand srand %s' % d['from'], 'rand next 12750000']
            break
    mouts = None
    try:
        mouts = common.run_model(lines)
    except Exception as e:
        res.notes.append('model driver failed: %s' % e)
    diff = None
    if mouts is not None:
        for i, (a, b) in enumerate(zip(couts, mouts)):
            if a != b:
                diff = (i, lines[i], a, b); break
        if diff is None and len(couts) != len(mouts):
            diff = (min(len(couts), len(mouts)), 'length', str(len(couts)), str(len(mouts)))
    res.cov['correspondence_lines'] = len(lines)
    res.cov['correspondence_diff'] = diff
    if tier == 'thorough':
        res.cov['full_cycle'] = {'impl': couts[-2:], 'model': (mouts or [])[-2:]}
        # after P-1 steps from 1 the state must be back at 1
        if 'seed=1 ' not in couts[-2] + ' ':
            bad.append(('rand walk 2147483646', couts[-2], 'full period: state must return to 1'))
        res.exhaustive = True
    if bad:
        # prefer a failing input inside the property's own range of maxv (1..255*50000)
        def in_range(b):
            f = b[0].split()
            return len(f) == 3 and f[1] == 'next' and f[2].isdigit() and 1 <= int(f[2]) <= 12750000
        bad.sort(key=lambda b: 0 if in_range(b) else 1)
        l, o, why = bad[0]
        res.violation('c19:oracle:' + why.split(':')[0], 'of_rfc5170 on the real code: %s; line %r gave %r' % (why, l, o),
                      replay={'script': (lines[:lines.index(l) + 1] if l in lines else [l]) + (['rand next 12750000'] if 'srand' in l else []),
                              'impl_output': o, 'expected': why})
    elif not ok or gen_errs.get('Rand.lean'):
        # a proof obligation over the translated code (or the translation itself) broke but no failing input was found
        res.violation('c19:proof', 'theorems of %s no longer check against the current of_rand.c: %s' %
                      (MODULE, '; '.join(common.first_errors(log)) or gen_errs.get('Rand.lean') or log[-400:]),
                      replay={'broken': MODULE, 'theorems': [n for n, k in res.obligations if not k],
                              'errors': common.first_errors(log), 'translation_error': gen_errs.get('Rand.lean')}, no_input=True)
    elif diff is not None:
        res.violation('c19:correspondence', 'translated model and compiled C differ at line %d %r: impl %r model %r' % diff,
                      replay={'script': lines[:diff[0] + 1], 'impl': diff[2], 'model': diff[3], 'broken': 'correspondence rand'},
                      no_input=True)
    if tier == 'thorough':
        common.leancheck(res, MODULE)

def replay(path):
    r = json.load(open(path))
    script = (r.get('replay') or {}).get('script')
    if not script:
        print('replay names a broken obligation, not an input:', json.dumps(r.get('replay'))[:500]); return 1
    exe = common.build_harness('scalardrv', link_lib=False)
    rc, couts, cerr = common.run_harness(exe, script)
    mouts = common.run_model(script)
    for l, a, b in list(zip(script, couts, mouts))[-5:]:
        print('%-28s impl: %-40s model: %s' % (l, a, b))
    bad = direct_oracle(script, couts)
    print('oracle:', bad[:1] if bad else 'holds')
    return 1 if bad else 0
