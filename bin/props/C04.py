"""C04 — LDPC-Staircase streaming decoding = peeling closure, for any arrival order."""
import itertools
import common, corr, gens
from props.api_common import StreamProperty, kv, parse_sources
from props import pyref

class P(StreamProperty):
    pid = 'C04'
    module = 'OpenFecVerif.Props.C04'
    theorems = ['C04_eq', 'C04_order_dup_independent', 'wf_of_check', 'C04_session']
    rule = ('LDPC decoder sessions observed after EVERY of_decode_with_new_symbol call (available source symbols, completion flag, and the '
            "decoder's remaining matrix): all arrival sequences without repetition for n<=6, all subsets x shuffled orders with duplicates for n<=nmax, sampled k up to 2000; "
            'even N1 (pretend-received null symbol) included; heavy columns (N1 up to n-k) and stars (decoding stuck, then one symbol arrives that leaves >= 5 equations with a single unknown at once), and staircase walks (n-k up to 700: one call rebuilds more than 256 repair symbols one from another, then the missing source symbol must come out);  compared with the transliterated decoder model AND, as the direct oracle, with the peeling closure computed '
            'independently in Python; non-trivial = distinct (config, arrival sequence)')

    def project(self, line, out):
        op = line.split()[0]
        if op in ('complete', 'matrix'):
            return out
        if op == 'sources':
            d = kv(out); src = parse_sources(d.get('src', ''))
            return 'st=%s src=%s' % (d.get('st'), ','.join(str(i) for i in sorted(src)))
        if op == 'recv':
            return 'st=' + kv(out).get('st', '?')
        return 'x'

    def oracle(self, c):
        cfg = c.meta['cfg']
        H = c.meta.get('H')
        if H is not None:
            H = [set(row) for row in H]
        if H is None:
            H, _ = pyref.rfc5170(cfg.k, cfg.n, cfg.N1, cfg.seed)
        recv = set()
        lastnull = False
        for i, (l, o) in enumerate(zip(c.lines, c.impl)):
            f = l.split()
            if f[0] == 'ctrl' and kv(o).get('v') == '1':
                lastnull = True; recv.add(cfg.n - 1)
            if f[0] == 'recv':
                recv.add(int(f[2]))
            if f[0] == 'sources':
                got = set(parse_sources(kv(o).get('src', '')).keys())
                want = set(e for e in pyref.closure(H, recv) if e < cfg.k)
                if got != want:
                    return [('c04:not-closure', 'after receiving %s the available source symbols are %s, the peeling closure gives %s' %
                             (sorted(recv), sorted(got), sorted(want)), i)]
            if f[0] == 'complete':
                want = all(e in pyref.closure(H, recv) for e in range(cfg.k))
                if (kv(o).get('c') == '1') != want:
                    return [('c04:complete-flag', 'completion flag %s but closure %s all source symbols' % (kv(o).get('c'), 'contains' if want else 'misses'), i)]
        return []

    def mk(self, name, cfg, order, matrix=True):
        b = ['new 0 3 2', cfg.params_line(0), 'ctrl 0 lastnull', cfg.payload_line(0)]
        b += ['complete 0', 'sources 0']
        for e in order:
            b += ['recv 0 %d' % e, 'complete 0', 'sources 0']
            if matrix: b.append('matrix 0')
        b += ['release 0']
        c = corr.mk(name, b); c.meta = {'cfg': cfg, 'order': list(order), 'api': 'stream', 'finish': False, 'cb': 'none'}
        return c

    def mk_sparse(self, name, cfg, order, watch):
        """long arrival sequences: the session is observed only after the calls whose index is in `watch`"""
        b = ['new 0 3 2', cfg.params_line(0), 'ctrl 0 lastnull', cfg.payload_line(0), 'complete 0', 'sources 0']
        for idx, e in enumerate(order):
            b += ['recv 0 %d' % e]
            if idx in watch: b += ['complete 0', 'sources 0']
        b += ['release 0']
        c = corr.mk(name, b); c.meta = {'cfg': cfg, 'order': list(order), 'api': 'stream', 'finish': False, 'cb': 'none'}
        return c

    def walk_cases(self, rng, count):
        """staircase walks: every source symbol but one arrives before any repair symbol, a source of equation 0 last, so that this one
        call rebuilds repair symbols 0 .. q-1 one from another (q = first equation of the missing source, chosen above 256: deep
        recursion of the iterative decoder); then repair symbol q arrives and the missing source must come out"""
        out = []
        tries = 0
        while len(out) < count and tries < count * 6:
            tries += 1
            r = rng.randint(280, 700); k = rng.randint(max(40, r // 3), r + 150)
            cfg = gens.Cfg('ldpc', k, r, N1=3, seed=rng.randint(1, 2 ** 31 - 2))
            H, _ = pyref.rfc5170(cfg.k, cfg.n, cfg.N1, cfg.seed)
            first = {}
            for ri, row in enumerate(H):
                for e in row:
                    if e < k and e not in first: first[e] = ri
            cand = [e for e in range(k) if first.get(e, 0) > 260]
            if not cand: continue
            miss = rng.choice(cand); q = first[miss]
            eq0 = [e for e in H[0] if e < k and e != miss]
            if not eq0: continue
            last = rng.choice(eq0)
            others = [e for e in range(k) if e not in (miss, last)]; rng.shuffle(others)
            order = others + [last, k + q]
            if rng.random() < 0.5: order += [k + rng.randrange(r)]
            c = self.mk_sparse('w%d' % len(out), cfg, order, watch=set(range(len(others) - 1, len(order))))
            c.meta['H'] = [sorted(row) for row in H]; c.meta['walk'] = q
            out.append(c)
        return out

    def cases(self, rng, tier):
        cases = []; i = 0
        # all sequences without repetition for tiny n
        for (k, r, N1) in [(1, 3, 3), (2, 3, 3), (2, 4, 4), (3, 3, 3)] + ([(3, 4, 4), (2, 5, 3)] if tier == 'thorough' else []):
            cfg = gens.Cfg('ldpc', k, r, N1=N1, seed=3)
            for ln in range(0, cfg.n + 1):
                for seq in itertools.permutations(range(cfg.n), ln):
                    if tier == 'quick' and ln >= 5 and rng.random() < 0.8: continue
                    cases.append(self.mk('p%d' % i, cfg, seq)); i += 1
        nmax = 9 if tier == 'quick' else 13
        for k in range(1, 8):
            for r in range(3, 8):
                if k + r > nmax: continue
                for N1 in (3, 4):
                    if N1 > r: continue
                    cfg = gens.Cfg('ldpc', k, r, N1=N1, seed=rng.choice([1, 5, 11]))
                    for sub in gens.subsets(cfg.n):
                        if rng.random() < (0.5 if tier == 'quick' else 0.0): continue
                        for rep in range(1 if tier == 'quick' else 3):
                            cases.append(self.mk('q%d' % i, cfg, gens.random_order(rng, sub, 0.3))); i += 1
        nbig = 60 if tier == 'quick' else 600
        for j in range(nbig):
            k = rng.choice([rng.randint(8, 60), rng.randint(60, 300 if tier == 'quick' else 2000)])
            r = max(3, int(k * rng.choice([0.5, 1.0, 2.0])))
            cfg = gens.Cfg('ldpc', k, r, N1=rng.choice([3, 4, 5, 6]) if r >= 6 else 3, seed=rng.randint(1, 2 ** 31 - 2))
            sub = gens.ldpc_loss_subset(rng, cfg, around_threshold=(j % 3 != 0))
            cases.append(self.mk('b%d' % j, cfg, gens.random_order(rng, sub, 0.15), matrix=(cfg.n <= 80)))
        # heavy columns (small k, N1 up to n-k), repairs first then a source symbol: one call brings many equations to one unknown
        for j, (cfg, order) in enumerate(gens.dense_column_configs(rng, 40 if tier == 'quick' else 400)):
            cases.append(self.mk('hc%d' % j, cfg, order, matrix=(j % 2 == 0)))
        # stars: one symbol of column weight >= 5 arrives last while each of its equations has exactly one other unknown
        for j, (cfg, order) in enumerate(gens.star_configs(rng, 30 if tier == 'quick' else 500)):
            cases.append(self.mk('st%d' % j, cfg, order, matrix=(j % 4 == 0)))
        cases += self.walk_cases(rng, 6 if tier == 'quick' else 60)
        return cases

    def extra_stats(self, cases, res):
        # the hypothesis of the theorems (well-formed matrix) evaluated by the model on every distinct matrix of this run
        mats = {}
        for c in cases:
            for l, o in zip(c.lines, c.impl):
                if l.startswith('matrix') and o.startswith('ok rows='):
                    pass
            cfg = c.meta['cfg']
            mats[(cfg.k, cfg.n, cfg.N1, cfg.seed)] = cfg
        lines = []
        keys = list(mats)
        for key in keys:
            cfg = mats[key]
            H, _ = pyref.rfc5170(cfg.k, cfg.n, cfg.N1, cfg.seed)
            lines.append('wfcheck %d %s' % (cfg.n, ''.join(','.join(str(e) for e in sorted(r)) + ';' for r in H)))
        outs = common.run_model(lines) if lines else []
        bad = [keys[i] for i, o in enumerate(outs) if o != 'ok wf=1']
        res.cov['matrices_wf_checked'] = len(keys)
        res.cov['staircase_walk_depths'] = sorted(c.meta['walk'] for c in cases if c.meta.get('walk'))
        res.cov['matrices_not_wf'] = bad[:5]
        if bad:
            res.violation('c04:wf-hypothesis', 'a matrix of this run does not satisfy the well-formedness hypothesis of the C04 theorems: %s' % (bad[0],),
                          replay={'broken': 'hypothesis wfCheck of C04_eq', 'config': list(bad[0])}, no_input=True)

_p = P()
def run(res, tier, seed, gen_errs): _p.run(res, tier, seed, gen_errs)
def replay(path): return _p.replay(path)
