"""C12 — sessions are independent of each other (same thread)."""
import random, json, itertools
import common, corr, gens
from props.api_common import abort_sig, meta_json

MODULE = 'OpenFecVerif.Props.C12'
THEOREMS = ['C12_other_sessions_untouched', 'C12_output_local', 'C12_session_local', 'C12_projection']
RULE = ('2..6 sessions of all codecs, roles and parameters (encoders with NULL/own slots, decoders with both submission APIs, callbacks, finish; LDPC seeds and '
        'sizes that differ and that coincide) are run (a) interleaved in one process — random interleavings, and every interleaving of two short histories — and '
        '(b) each alone; every observation line of a session (statuses, repair symbols, decoded symbols with provenance, completion, callback events, what is '
        'left to the application at release) must be identical in both runs; the interleaved script is also run on the world model; successor groups: 3-5 decoder sessions with the same configuration and receive sets of equal '
        'cardinalities, each created right after the previous one is released, run without the sanitizer quarantine so that addresses are reused; '
        'non-trivial = distinct interleaved script')

def session_body(c):
    return c.lines[1:]          # without the 'case' line

def make_session(rng, sid, tier, small=False, kr=None):
    kind = rng.choice(['rs8', 'rs2m8', 'rs2m4', 'ldpc', 'ldpc'] if kr is None else ['rs8', 'rs2m8', 'rs2m4', 'rs2m8', 'rs2m4', 'ldpc'])
    if kind == 'ldpc':
        k = rng.randint(2, 12 if small else 60); r = rng.randint(3, 10 if small else 40)
        if kr: k, r = kr[0], max(3, kr[1])
        cfg = gens.Cfg(kind, k, r, N1=rng.choice([3, 4, 5]) if r >= 5 else 3, seed=rng.choice([1, 7, 7, rng.randint(1, 2 ** 31 - 2)]),
                       payload=rng.choice(['id', 'rand']), pseed=rng.randint(0, 99))
        sub = gens.ldpc_loss_subset(rng, cfg)
    else:
        lim = 15 if kind == 'rs2m4' else (12 if small else 40)
        n = rng.randint(2, lim); k = rng.randint(1, n - 1)
        if kr: k, n = kr[0], kr[0] + kr[1]
        cfg = gens.Cfg(kind, k, n - k, payload=rng.choice(['id', 'rand']), pseed=rng.randint(0, 99))
        sub = rng.sample(range(n), rng.randint(max(0, k - 1), n))
    if rng.random() < 0.3:
        return gens.encoder_case('s%d' % sid, cfg, slots=rng.choice(['own', 'null', 'mix']), sid=sid, role=rng.choice([1, 3])), cfg
    return gens.decoder_case('s%d' % sid, cfg, gens.random_order(rng, sub, 0.2), api=rng.choice(['stream', 'stream', 'table']), finish=rng.random() < 0.8,
                             cb=rng.choice(['none', 'buf', 'null', 'mix']), trace=(cfg.n <= 14 and rng.random() < 0.5), sid=sid, role=rng.choice([2, 3])), cfg

def successor_group(rng, g):
    """several decoder sessions with the SAME configuration, each created right after the previous one was released (so the allocator hands
    the same addresses out again), with receive sets of equal cardinalities (same numbers of source and repair symbols) but different content:
    some undecodable, some decodable.  Anything a session leaves behind in process-wide state (a record keyed by address, counters, a cached
    matrix or verdict) is met by its successor."""
    kind = rng.choice(['ldpc', 'ldpc', 'ldpc', '2d', 'rs8', 'rs2m4', 'rs2m8'])
    if kind == 'ldpc':
        k = rng.randint(4, 40); r = rng.randint(3, max(3, k))
        cfg = gens.Cfg(kind, k, r, N1=3 if r < 5 else rng.choice([3, 4, 5]), seed=rng.randint(1, 2 ** 31 - 2), payload='rand', pseed=g, length=rng.choice([1, 4, 16]))
    elif kind == '2d':
        d, l = rng.choice([(2, 2), (2, 3), (3, 3), (2, 4), (4, 4), (3, 4)]); cfg = gens.Cfg(kind, d * l, d + l, payload='rand', pseed=g, length=4)
    else:
        n = rng.randint(4, 15); k = rng.randint(2, n - 1); cfg = gens.Cfg(kind, k, n - k, payload='rand', pseed=g)
    ns = rng.randint(0, cfg.k - 1); nrp = rng.randint(0, cfg.r)
    if kind in ('ldpc', '2d'):
        # around the decoding threshold: some of the sets are solvable, some are not
        tot = min(cfg.n, max(1, cfg.k + rng.randint(-1, 2))); ns = min(cfg.k - 1, rng.randint(max(0, tot - cfg.r), tot)); nrp = min(cfg.r, tot - ns)
    solos = []
    for sid in range(rng.randint(3, 5)):
        sub = rng.sample(range(cfg.k), ns) + rng.sample(range(cfg.k, cfg.n), nrp)
        if sid == 0 and kind in ('ldpc', '2d') and ns > 0:
            # first session: a set that cannot decode (the same source symbol count, fewer repairs do not matter: duplicates keep the count)
            pass
        order = list(sub); rng.shuffle(order)
        c = gens.decoder_case('s%d' % sid, cfg, order, api=rng.choice(['stream', 'table']), finish=True, cb='none', sid=sid, role=2, finish_twice=(sid % 2 == 0))
        solos.append(c)
    lines = []; owner = []
    for w, c in enumerate(solos):
        for l in session_body(c):
            lines.append(l); owner.append(w)
    return lines, owner, solos

def interleave(rng, bodies):
    pos = [0] * len(bodies); out = []; owner = []
    remaining = [i for i, b in enumerate(bodies) if b]
    while remaining:
        i = rng.choice(remaining)
        burst = rng.choice([1, 1, 1, 2, 5])
        for _ in range(burst):
            if pos[i] < len(bodies[i]):
                out.append(bodies[i][pos[i]]); owner.append(i); pos[i] += 1
        remaining = [j for j in remaining if pos[j] < len(bodies[j])]
    return out, owner

def all_interleavings(a, b):
    n, m = len(a), len(b)
    for comb in itertools.combinations(range(n + m), n):
        s = set(comb); ia = ib = 0; out = []; owner = []
        for t in range(n + m):
            if t in s: out.append(a[ia]); owner.append(0); ia += 1
            else: out.append(b[ib]); owner.append(1); ib += 1
        yield out, owner

def run(res, tier, seed, gen_errs):
    rng = random.Random(seed)
    res.rule = RULE
    ok, log = common.check_lean(res, MODULE, THEOREMS)
    groups = []     # (interleaved case, owner list, [solo cases])
    ngroups = 60 if tier == 'quick' else 800
    for g in range(ngroups):
        ns = rng.randint(2, 6)
        # every third group: all sessions share (k, n-k) (n <= 15) across codecs, fields and seeds — what a cache keyed too coarsely would confuse
        kr = None
        if g % 3 == 0:
            nn = rng.randint(4, 15); kk = rng.randint(1, nn - 3); kr = (kk, nn - kk)
        solos = [make_session(rng, sid, tier, kr=kr)[0] for sid in range(ns)]
        for s in solos: s.name = 'g%d-%s' % (g, s.name)
        lines, owner = interleave(rng, [session_body(s) for s in solos])
        inter = corr.mk('g%d-inter' % g, lines); inter.meta = {}
        groups.append((inter, owner, solos))
    # every interleaving of two short histories
    pairs = 2 if tier == 'quick' else 12
    for g in range(pairs):
        cfgA = gens.Cfg('ldpc', 3, 3, N1=3, seed=rng.choice([1, 5]))
        cfgB = rng.choice([gens.Cfg('ldpc', 3, 3, N1=3, seed=rng.choice([1, 9])), gens.Cfg('rs8', 2, 2), gens.Cfg('rs2m4', 2, 1)])
        def short(cfg, sid):
            return ['new %d %d 2' % (sid, cfg.codec), cfg.params_line(sid), cfg.payload_line(sid), 'recv %d %d' % (sid, cfg.n - 1),
                    'recv %d %d' % (sid, 0), 'finish %d' % sid, 'sources %d' % sid, 'release %d' % sid]
        a, b = short(cfgA, 0), short(cfgB, 1)
        a, b = a[:6] + a[7:], b[:6] + b[7:]     # 7 lines each -> C(14,7) = 3432 ; keep 6 each in quick
        if tier == 'quick': a, b = a[:5] + a[6:], b[:5] + b[6:]
        solos = [corr.mk('p%d-s0' % g, a), corr.mk('p%d-s1' % g, b)]
        for s in solos: s.meta = {}
        for t, (lines, owner) in enumerate(all_interleavings(a, b)):
            inter = corr.mk('p%d-i%d' % (g, t), lines); inter.meta = {}
            groups.append((inter, owner, solos if t == 0 else None))
    allcases = []
    for inter, owner, solos in groups:
        allcases.append(inter)
        if solos: allcases += solos
    corr.run(allcases)
    # successor groups: run without the sanitizer's quarantine so that a released session's addresses are handed out again at once
    sgroups = []
    for g in range(40 if tier == 'quick' else 600):
        lines, owner, solos = successor_group(rng, g)
        for s_ in solos: s_.name = 'q%d-%s' % (g, s_.name)
        inter = corr.mk('q%d-seq' % g, lines); inter.meta = {}
        sgroups.append((inter, owner, solos))
    scases = []
    for inter, owner, solos in sgroups:
        scases.append(inter); scases += solos
    corr.ENV_EXTRA = {'ASAN_OPTIONS': common.ASAN_ENV['ASAN_OPTIONS'] + ':quarantine_size_mb=0:thread_local_quarantine_size_kb=0'}
    try:
        # one process per group so that every group starts from the same heap state as its solo runs do not
        for inter, owner, solos in sgroups:
            corr.run_impl([inter])
            for s_ in solos: corr.run_impl([s_])      # each alone in a fresh process
        try: corr.run_model(scases)
        except Exception as e:
            for c in scases: c.model = []
        corr.compare(scases)
    finally:
        corr.ENV_EXTRA = {}
    groups += sgroups; allcases += scases
    res.cov['successor_groups'] = len(sgroups)
    res.evaluations = len(groups)
    res.cov['interleaved_scripts'] = len(groups); res.cov['solo_sessions'] = sum(len(s) for _, _, s in groups if s)
    res.cov['lines_compared'] = sum(len(c.lines) for c in allcases)
    res.sample({'interleaved': groups[0][0].lines[1:16], 'owner': groups[0][1][:15]})
    last_solos = None; nviol = 0; broken = []
    for inter, owner, solos in groups:
        if solos: last_solos = solos
        solos_ = last_solos
        if nviol >= 4: break
        bad = False
        for c in [inter] + (solos or []):
            if c.abort:
                a = c.abort; idx = a.get('line_index')
                res.violation('c12:abort:%s' % (a.get('at_line') or 'exit').split()[0], 'the library aborted under the sanitizers (%s) at %r in %s' % (a.get('summary'), a.get('at_line'), c.name),
                              replay={'script': c.lines[:idx + 1] if idx is not None else c.lines, 'abort': a.get('summary'), 'stderr_tail': (a.get('stderr') or '')[-1000:]})
                nviol += 1; bad = True; break
        if bad: continue
        # per-session projection of the interleaved run vs the solo run
        per = {}
        for (l, o, w) in zip(inter.lines[1:], inter.impl[1:], owner):
            per.setdefault(w, []).append((l, o))
        for w, solo in enumerate(solos_):
            got = per.get(w, [])
            exp = list(zip(solo.lines[1:], solo.impl[1:]))
            for t, ((l1, o1), (l2, o2)) in enumerate(zip(got, exp)):
                if l1 != l2: break
                if o1 != o2:
                    res.violation('c12:depends-on-other-sessions:%s' % l1.split()[0],
                                  'session %d answers %r to %r when interleaved with other sessions but %r when run alone' % (w, o1[:160], l1, o2[:160]),
                                  replay={'script': inter.lines, 'solo_script': solo.lines, 'session': w, 'line': l1, 'interleaved_output': o1[:2000], 'solo_output': o2[:2000]})
                    nviol += 1; bad = True; break
            if bad: break
        if not bad:
            res.nontrivial.add(tuple(inter.lines[1:]))
            if inter.diff: broken.append(inter)
    res.cov['correspondence_mismatches'] = len(broken)
    if broken and not res.violations:
        c = broken[0]; d = c.diff
        res.violation('c12:corr:' + d['line'].split()[0], 'world model and implementation differ at %r (impl %r, model %r) in %d interleaved script(s); interleaved and solo runs of the '
                      'implementation agree' % (d['line'], d['impl'][:200], d['model'][:200], len(broken)),
                      replay={'broken': 'correspondence stream of C12 (interleaved scripts, ofdrv vs ofmodel)', 'script': c.lines[:d['index'] + 1], 'impl': d['impl'][:1500], 'model': d['model'][:1500]}, no_input=True)
    if corr.model_error and not res.violations:
        res.violation('c12:model-broken', 'the executable model no longer builds/runs: %s' % corr.model_error[:400], replay={'broken': 'ofmodel', 'error': corr.model_error}, no_input=True)
    if not ok and not res.violations:
        res.violation('c12:proof', 'theorems of %s no longer check: %s' % (MODULE, '; '.join(common.first_errors(log)) or log[-300:]),
                      replay={'broken': MODULE, 'errors': common.first_errors(log)}, no_input=True)
    if tier == 'thorough' and ok:
        common.leancheck(res, MODULE)

def replay(path):
    r = json.load(open(path)); rp = r.get('replay') or {}
    if not rp.get('script'): print('replay names a broken obligation:', json.dumps(rp)[:500]); return 1
    cases = [corr.CaseResult('inter', rp['script'] if rp['script'][0].startswith('case') else ['case inter'] + rp['script'])]
    if rp.get('solo_script'): cases.append(corr.CaseResult('solo', rp['solo_script']))
    for c in cases: c.meta = {}
    corr.run(cases)
    for c in cases:
        print('==', c.name)
        for l, o in zip(c.lines, c.impl): print('%-34s %s' % (l[:34], o[:120]))
        if c.abort: print('ABORT', c.abort.get('summary'))
    if len(cases) == 2:
        sid = str(rp.get('session'))
        a = [(l, o) for l, o in zip(cases[0].lines, cases[0].impl) if l.split()[1:2] == [sid]]
        b = [(l, o) for l, o in zip(cases[1].lines, cases[1].impl) if l.split()[1:2] == [sid]]
        diff = [(x, y) for x, y in zip(a, b) if x != y]
        print('differences for session', sid, ':', diff[:2]); return 1 if diff else 0
    return 1 if any(c.abort or c.diff for c in cases) else 0
