"""C03 — LDPC-Staircase of_finish_decoding is ML-complete: succeeds iff recoverable."""
import common, corr, gens
from props.api_common import StreamProperty, kv, parse_sources, case_codeword
from props import pyref

class P(StreamProperty):
    pid = 'C03'
    module = 'OpenFecVerif.Props.C03Session'
    theorems = ['C03_success_is_rank_test', 'C03_outcome_payload_free', 'C03_solve_unique', 'C03_solve_sound', 'C03_solve_iff_full_rank',
                'C03_finish_ok_iff_determined', 'C03_determined_by_received', 'C03_few_equations_undetermined']
    rule = ('LDPC decoder sessions followed by of_finish_decoding: all 2^n receive sets for n<=nmax over a grid (k 1..8, r 3..8, N1 3..5, several seeds), '
            'each in increasing / shuffled order, with and without duplicate submissions (the set is what counts) and through both APIs, plus sampled blocks (k up to 600 quick / 5000 thorough) with loss rates around the threshold, plus staged sessions in which of_finish_decoding is called two to four times with more symbols submitted in between (checked after each call until one of them has run the elimination and failed); '
            'oracle (independent of the model): completion after finish <=> the GF(2) rank condition "unknown columns of H have full column rank", computed in Python '
            'from the matrix the session itself dumped; non-trivial = cases that iterative decoding alone did not complete')

    def project(self, line, out):
        op = line.split()[0]
        if op == 'finish':
            return 'st=' + kv(out).get('st', '?')
        if op == 'complete':
            return out
        if op == 'sources':
            d = kv(out); src = parse_sources(d.get('src', ''))
            return 'st=%s src=%s' % (d.get('st'), ';'.join('%d:%s' % (i, v[1]) for i, v in sorted(src.items())))
        return 'x'

    def is_nontrivial(self, c):
        return c.meta.get('it_complete') is False

    def oracle(self, c):
        cfg = c.meta['cfg']
        H = None
        for l, o in zip(c.lines, c.impl):
            if l.startswith('matrix') and o.startswith('ok rows='):
                H = pyref.parse_matrix(o); break
        if H is None:
            return []
        recv = set(e for e in c.meta['order'] if e < cfg.n)
        lastnull = None
        for l, o in zip(c.lines, c.impl):
            if l.startswith('ctrl') and 'lastnull' in l: lastnull = kv(o).get('v') == '1'
        if c.meta.get('staged'):
            return self.oracle_staged(c, H, lastnull)
        if lastnull: recv.add(cfg.n - 1)
        comp = [(i, kv(o).get('c') == '1') for i, (l, o) in enumerate(zip(c.lines, c.impl)) if l.startswith('complete')]
        fin = [(i, kv(o).get('st')) for i, (l, o) in enumerate(zip(c.lines, c.impl)) if l.startswith('finish')]
        if not fin or len(comp) < 2:
            return []
        c.meta['it_complete'] = comp[0][1]
        det = pyref.determined(H, recv, cfg.n)
        c.meta['determined'] = det
        K = pyref.closure(H, recv)
        unk = cfg.n - len(K)
        nrows = sum(1 for row in H if row - K)
        c.meta['cls'] = 'solvable' if det else ('rows<cols' if nrows < unk else 'rank-deficient')
        after = comp[1][1]
        if det and not after:
            return [('c03:solvable-not-decoded', 'the source symbols are uniquely determined by the %d received symbols but of_finish_decoding (%s) left decoding incomplete' % (len(recv), fin[0][1]), fin[0][0])]
        if after and not det:
            return [('c03:decoded-not-determined', 'decoding completed although the received symbols do not determine the block', fin[0][0])]
        cw = case_codeword(c)
        if after and cw:
            for i, (l, o) in enumerate(zip(c.lines, c.impl)):
                if l.startswith('sources') and i > fin[0][0]:
                    src = parse_sources(kv(o).get('src', ''))
                    if any(src[j][1] != cw[j] for j in src) or len(src) != cfg.k:
                        return [('c03:wrong-solution', 'ML decoding completed with a wrong or missing symbol', i)]
        return []

    def oracle_staged(self, c, H, lastnull):
        """several of_finish_decoding calls in one session: after each one, completion <=> the symbols received so far determine the block,
        as long as no earlier call ran (and failed) the Gaussian elimination, which consumes the equations"""
        cfg = c.meta['cfg']
        recv = set([cfg.n - 1]) if lastnull else set()
        consumed = False
        cw = case_codeword(c)
        nl = len(c.impl)
        for i, l in enumerate(c.lines[:nl]):
            f = l.split()
            if f[0] == 'recv' and f[1] == '0' and int(f[2]) < cfg.n: recv.add(int(f[2]))
            if f[0] == 'avail' and f[1] == '0' and f[2] != '-': recv |= set(int(x) for x in f[2].split(',') if int(x) < cfg.n)
            if f[0] == 'finish' and f[1] == '0' and i + 1 < nl and c.lines[i + 1].startswith('complete'):
                after = kv(c.impl[i + 1]).get('c') == '1'
                det = pyref.determined(H, recv, cfg.n)
                K = pyref.closure(H, recv)
                unk = cfg.n - len(K); nrows = sum(1 for row in H if row - K)
                if c.meta.get('it_complete') is None: c.meta['it_complete'] = False
                c.meta['cls'] = 'staged'
                if not consumed:
                    if det and not after:
                        return [('c03:solvable-not-decoded:staged', 'the source symbols are uniquely determined by the %d symbols received so far but this of_finish_decoding '
                                 '(%s; an earlier one had failed for lack of equations) left decoding incomplete' % (len(recv), kv(c.impl[i]).get('st')), i)]
                    if after and not det:
                        return [('c03:decoded-not-determined:staged', 'decoding completed although the symbols received so far do not determine the block', i)]
                    if not det and nrows >= unk:
                        consumed = True     # the elimination ran and failed: later calls are outside the property
                if after:
                    if cw and i + 2 < nl and c.lines[i + 2].startswith('sources'):
                        src = parse_sources(kv(c.impl[i + 2]).get('src', ''))
                        if any(src[j][1] != cw[j] for j in src) or len(src) != cfg.k:
                            return [('c03:wrong-solution:staged', 'decoding completed with a wrong or missing symbol after several of_finish_decoding calls', i + 2)]
                    break
        return []

    def mk_staged(self, name, cfg, stages):
        b = ['new 0 3 2', cfg.params_line(0), 'ctrl 0 lastnull', cfg.payload_line(0), 'cwdump 0',
             'new 1 3 1', cfg.params_line(1), 'matrix 1', 'release 1']
        for st in stages:
            b += ['recv 0 %d' % e for e in st] + ['finish 0', 'complete 0', 'sources 0']
        b += ['release 0']
        c = corr.mk(name, b); c.meta = {'cfg': cfg, 'order': [e for st in stages for e in st], 'api': 'stream', 'finish': True, 'cb': 'none', 'staged': True}
        return c

    def mk(self, name, cfg, order, api):
        b = ['new 0 3 2', cfg.params_line(0), 'ctrl 0 lastnull', cfg.payload_line(0), 'cwdump 0',
             'new 1 3 1', cfg.params_line(1), 'matrix 1', 'release 1']
        if api == 'stream':
            b += ['recv 0 %d' % e for e in order]
        else:
            b += ['avail 0 %s' % (','.join(str(e) for e in sorted(set(order))) or '-')]
        b += ['complete 0', 'sources 0', 'finish 0', 'complete 0', 'sources 0', 'release 0']
        c = corr.mk(name, b); c.meta = {'cfg': cfg, 'order': list(order), 'api': api, 'finish': True, 'cb': 'none'}
        return c

    def cases(self, rng, tier):
        cases = []; i = 0
        nmax = 10 if tier == 'quick' else 14
        seeds = [1, 7] if tier == 'quick' else [1, 7, 16807, 99991, 2 ** 31 - 2]
        for k in range(1, 9):
            for r in range(3, 9):
                if k + r > nmax: continue
                for N1 in (3, 4, 5):
                    if N1 > r: continue
                    for sd in seeds:
                        cfg = gens.Cfg('ldpc', k, r, N1=N1, seed=sd)
                        for sub in gens.subsets(cfg.n):
                            if tier == 'quick' and cfg.n >= 8 and rng.random() < (0.7 if cfg.n == 8 else 0.9): continue
                            order = list(sub)
                            if i % 3 == 1: rng.shuffle(order)
                            if i % 5 == 2 and order:
                                # duplicates (same set): some symbols are submitted again, early ones again at the very end
                                rng.shuffle(order); order = order + [rng.choice(order) for _ in range(rng.randint(1, 3))]
                            cases.append(self.mk('s%d' % i, cfg, order, 'stream' if i % 2 == 0 else 'table')); i += 1
        nbig = 150 if tier == 'quick' else 3000
        for j in range(nbig):
            k = rng.choice([rng.randint(9, 80), rng.randint(80, 600 if tier == 'quick' else 5000)])
            r = max(3, int(k * rng.choice([0.25, 0.5, 1.0, 1.5])))
            cfg = gens.Cfg('ldpc', k, r, N1=rng.choice([3, 3, 4, 5, 7]) if r >= 7 else 3, seed=rng.randint(1, 2 ** 31 - 2))
            sub = gens.ldpc_loss_subset(rng, cfg)
            order = list(sub); rng.shuffle(order)
            if j % 2 == 1 and order:
                # the same set with duplicates: repair and source symbols submitted a second time after they have been consumed
                dups = rng.sample(order, min(len(order), rng.randint(1, 6)))
                reps = [e for e in order if e >= cfg.k]
                if reps: dups.append(rng.choice(reps))
                order = order + dups
            cases.append(self.mk('b%d' % j, cfg, order, rng.choice(['stream', 'table']) if j % 2 == 0 else 'stream'))
        # staged sessions: of_finish_decoding called too early (it fails for lack of equations and keeps the system), more symbols, again
        nst = 400 if tier == 'quick' else 6000
        for j in range(nst):
            if j % 3 == 0:
                k = rng.randint(3, 12); r = rng.randint(max(3, k - 2), k + 6)
            else:
                k = rng.randint(8, 60); r = max(3, int(k * rng.choice([0.5, 1.0, 1.25, 2.0])))
            cfg = gens.Cfg('ldpc', k, r, N1=rng.choice([3, 4, 5]) if r >= 5 else 3, seed=rng.randint(1, 2 ** 31 - 2),
                           payload='rand', pseed=j, length=rng.choice([1, 4]))
            perm = list(range(cfg.n)); rng.shuffle(perm)
            a1 = rng.randint(1, max(1, k // 2))                       # far too few: no equation can even start
            a2 = min(cfg.n, max(a1 + 1, k + rng.randint(-2, 3)))      # around the threshold
            stages = [perm[:a1], perm[a1:a2]]
            if j % 2 == 0 and a2 < cfg.n:
                a3 = min(cfg.n, a2 + rng.randint(1, 4)); stages.append(perm[a2:a3])
            if j % 5 == 0:
                mid = rng.randint(1, max(1, a1)); stages = [perm[:mid], perm[mid:a1]] + stages[1:] if mid < a1 else stages
            cases.append(self.mk_staged('g%d' % j, cfg, [st for st in stages if st]))
        return cases

    def extra_stats(self, cases, res):
        cnt = {}
        for c in cases:
            if c.meta.get('it_complete') is False:
                cnt[c.meta.get('cls')] = cnt.get(c.meta.get('cls'), 0) + 1
        res.cov['IT_incomplete_by_class'] = cnt

_p = P()
def run(res, tier, seed, gen_errs): _p.run(res, tier, seed, gen_errs)
def replay(path): return _p.replay(path)
