"""C07 — memory safety and read-only treatment of application buffers (partial: frame/bounds theorems + sanitizer-observed runtime)."""
import common, corr, gens
from props.api_common import StreamProperty, kv

class P(StreamProperty):
    pid = 'C07'
    module = 'OpenFecVerif.Props.C07'
    theorems = ['C07_build_frame', 'C07_build_only_output_slot', 'C07_esi_guard', 'C07_rs_choose_in_table', 'C07_kernel_noninterference']
    rule = ('protocol-conforming encoder and decoder histories of every codec on the real library under ASan+UBSan with every application symbol buffer an '
            'exact-size heap block whose END coincides with the allocation end, at all 8 start alignments (canary in front), pointer tables of exactly n / k '
            'entries; after every call every submitted symbol and every encoder source symbol is compared byte for byte with its reference copy; parameters at '
            'the advertised limits (RS 255, 15; LDPC thousands of symbols), symbol lengths 1..40, 1023..1025 and 65535, early release after every prefix, '
            'callbacks; oracle: no sanitizer report, no modified application buffer, no canary damage; statuses also compared with the model; '
            'non-trivial = distinct script')

    def project(self, line, out):
        op = line.split()[0]
        if op in ('recv', 'avail', 'finish', 'build', 'params', 'new'):
            return 'st=' + kv(out).get('st', '?')
        return 'x'

    def oracle(self, c):
        for i, (l, o) in enumerate(zip(c.lines, c.impl)):
            if '!modified-rx' in o:
                return [('c07:received-symbol-modified', 'a received symbol was written to during %r: %s' % (l, o[-40:]), i)]
            if '!modified-src' in o:
                return [('c07:source-symbol-modified', 'an encoder source symbol was written to during %r: %s' % (l, o[-40:]), i)]
            if '!canary' in o:
                return [('c07:canary', 'bytes in front of an application buffer were overwritten (reported at %r)' % l, i)]
            if 'prov=unknown' in o or ':unknown:' in o:
                return [('c07:unowned-pointer', 'the library handed back a pointer that is neither an application buffer nor a live library allocation: %r' % l, i)]
        return []

    def nontrivial_key(self, c):
        return tuple(c.lines[1:])

    def cases(self, rng, tier):
        cases = []; n = [0]
        def wrap(c, align):
            c.lines = [c.lines[0], 'align %d' % align] + c.lines[1:] + ['align 0']
            c.name = 'a%d-%s' % (align, c.name)
            return c
        # small configurations, all alignments, odd lengths
        cfgs = []
        for kind in ('rs8', 'rs2m8', 'rs2m4', 'ldpc'):
            for ln in list(range(1, 10)) + [15, 16, 17, 31, 33, 40]:
                if kind == 'ldpc':
                    k = rng.randint(2, 14); r = rng.randint(3, 10)
                    cfgs.append(gens.Cfg(kind, k, r, length=ln, N1=rng.choice([3, 4]) if r >= 4 else 3, seed=rng.randint(1, 2 ** 31 - 2), payload='rand', pseed=n[0]))
                else:
                    lim = 15 if kind == 'rs2m4' else 20
                    nn = rng.randint(2, lim); k = rng.randint(1, nn - 1)
                    cfgs.append(gens.Cfg(kind, k, nn - k, length=ln, payload='rand', pseed=n[0]))
                n[0] += 1
        for ci, cfg in enumerate(cfgs):
            align = ci % 8
            sub = gens.ldpc_loss_subset(rng, cfg) if cfg.kind == 'ldpc' else rng.sample(range(cfg.n), min(cfg.n, cfg.k + rng.randint(0, 2)))
            order = gens.random_order(rng, sub, 0.3)
            cases.append(wrap(gens.decoder_case('d%d' % ci, cfg, order, api='stream' if ci % 3 else 'table', cb=['none', 'buf', 'null', 'mix'][ci % 4], finish=True), align))
            cases.append(wrap(gens.encoder_case('e%d' % ci, cfg, slots=['own', 'null', 'mix'][ci % 3]), (align + 3) % 8))
        # every alignment on one configuration per codec
        for kind in ('rs8', 'rs2m8', 'rs2m4', 'ldpc'):
            for a in range(8):
                for ln in (5, 12):
                    cfg = gens.Cfg(kind, 4, 4, length=ln, N1=3, seed=17, payload='rand', pseed=a)
                    cases.append(wrap(gens.decoder_case('al-%s-%d-%d' % (kind, a, ln), cfg, [7, 1, 6, 5, 1, 0, 4], finish=True), a))
                    cases.append(wrap(gens.encoder_case('ale-%s-%d-%d' % (kind, a, ln), cfg, slots='mix'), a))
        # early release after every prefix of a decoding history (buffers stay valid until release; the library must not touch them afterwards)
        for kind in ('rs8', 'rs2m4', 'ldpc'):
            cfg = gens.Cfg(kind, 5, 5, length=7, N1=3, seed=3, payload='rand', pseed=5)
            order = [9, 0, 7, 3, 3, 8, 1, 6]
            full = gens.decoder_case('x', cfg, order, finish=True)
            nsteps = len(order) + 5
            for cut in range(nsteps + 1):
                cases.append(wrap(gens.decoder_case('er-%s-%d' % (kind, cut), cfg, order, finish=True, early_release=cut, cb='mix'), cut % 8))
        # heavy columns: many equations reach degree one in a single call
        for ci, c in enumerate(gens.dense_column_cases(rng, 'hc', 60 if tier == 'quick' else 600)):
            cases.append(wrap(c, ci % 8))
        # stars: a symbol of column weight >= 5 arrives last while each of its equations has exactly one other unknown
        for ci, (cfg, order) in enumerate(gens.star_configs(rng, 8 if tier == 'quick' else 200)):
            cases.append(wrap(gens.decoder_case('st%d' % ci, cfg, order, api='stream', finish=True, cb=['none', 'buf', 'null', 'mix'][ci % 4]), ci % 8))
        # advertised limits
        lim = [gens.Cfg('rs8', 254, 1), gens.Cfg('rs8', 1, 254), gens.Cfg('rs8', 128, 127), gens.Cfg('rs2m8', 200, 55), gens.Cfg('rs2m8', 1, 254),
               gens.Cfg('rs2m4', 14, 1), gens.Cfg('rs2m4', 1, 14), gens.Cfg('rs2m4', 8, 7),
               gens.Cfg('rs8', 3, 2, length=65535, payload='rand', pseed=1), gens.Cfg('ldpc', 3, 3, length=65535, N1=3, seed=5, payload='rand', pseed=2),
               gens.Cfg('rs8', 2, 2, length=1023, payload='rand', pseed=3), gens.Cfg('rs2m4', 3, 2, length=1025, payload='rand', pseed=4),
               gens.Cfg('ldpc', 1200 if tier == 'quick' else 20000, 600 if tier == 'quick' else 10000, length=1, N1=3, seed=99),
               gens.Cfg('ldpc', 700, 700, length=3, N1=5, seed=12345, payload='rand', pseed=9)]
        for li, cfg in enumerate(lim):
            if cfg.kind == 'ldpc':
                sub = gens.ldpc_loss_subset(rng, cfg)
            else:
                sub = rng.sample(range(cfg.n), cfg.k)
            cases.append(wrap(gens.decoder_case('lim%d' % li, cfg, gens.random_order(rng, sub, 0.05), finish=True, cb='none' if li % 2 else 'buf'), li % 8))
            if cfg.n <= 300:
                cases.append(wrap(gens.encoder_case('lime%d' % li, cfg, slots='mix'), (li + 1) % 8))
        if tier == 'thorough':
            for j in range(1500):
                kind = rng.choice(['rs8', 'rs2m8', 'rs2m4', 'ldpc', 'ldpc'])
                ln = rng.choice([1, 2, 3, 5, 7, 8, 9, 13, 16, 24, 33, 64, 100])
                if kind == 'ldpc':
                    k = rng.randint(1, 200); r = max(3, int(k * rng.choice([0.3, 0.5, 1.0, 2.0])))
                    cfg = gens.Cfg(kind, k, r, length=ln, N1=rng.choice([3, 4, 5, 6]) if r >= 6 else 3, seed=rng.randint(1, 2 ** 31 - 2), payload='rand', pseed=j)
                    sub = gens.ldpc_loss_subset(rng, cfg)
                else:
                    l2 = 15 if kind == 'rs2m4' else 80
                    nn = rng.randint(2, l2); k = rng.randint(1, nn - 1)
                    cfg = gens.Cfg(kind, k, nn - k, length=ln, payload='rand', pseed=j)
                    sub = rng.sample(range(nn), rng.randint(max(0, k - 1), nn))
                cases.append(wrap(gens.decoder_case('t%d' % j, cfg, gens.random_order(rng, sub, 0.2), api=rng.choice(['stream', 'table']),
                                                    cb=rng.choice(['none', 'buf', 'null', 'mix']), finish=True), j % 8))
        # histories that continue after of_finish_decoding (second finish, late symbols, finish again)
        for ci, c in enumerate(gens.after_finish_cases(rng, 'af', 120 if tier == 'quick' else 2500)):
            cases.append(wrap(c, ci % 8))
        return cases

_p = P()
def run(res, tier, seed, gen_errs): _p.run(res, tier, seed, gen_errs)
def replay(path): return _p.replay(path)
