"""C09 — parameters and arguments are validated: accepted => usable, unusable => rejected."""
import common, corr, gens
from props.api_common import StreamProperty, kv, parse_sources, case_codeword

LIM = {1: (255, 255), 3: (50000, 50000)}

def within(codec, k, r, ln, m, N1, seed):
    if codec == 2:
        if m not in (4, 8): return False
        mk = mn = 2 ** m - 1
    else:
        mk, mn = LIM[codec]
    if not (1 <= k <= mk and r >= 1 and k + r <= mn and ln >= 1): return False
    if codec == 3 and not (3 <= N1 <= r and 1 <= seed <= 2 ** 31 - 2): return False
    return True

class P(StreamProperty):
    pid = 'C09'
    module = 'OpenFecVerif.Props.C09Total'
    theorems = ['C09_accept_iff', 'C09_limits', 'C09_reject_keeps_unconfigured', 'C09_bad_esi_rejected', 'C09_ldpc_construction_returns', 'C09_accept_iff_limits', 'C09_generic_validation', 'C09_rs8_validation', 'C09_rs2m_validation', 'C09_ldpc_validation', 'C09_2d_validation', 'C09_limits_are_the_code', 'C09_limits_rs2m', 'C09_build_validation', 'C09_decode_validation', 'C09_decoder_calls_validation', 'C09_recv_guard_is_the_code', 'C09_counters_fit_16_bits']
    rule = ('(a) parameter grid on the real library: for each codec every field in {0,1,2,limit-1,limit,limit+1,2^16,2^31-1,2^31,2^32-1} (others valid), every m in 0..17 and values congruent to 4 and 8 modulo 32, 256, 4096 and 32768, N1 in 0..255 boundary values, '
            'seed boundary values; each accepted configuration is followed by a full encode/decode cycle; (b) every single-argument corruption of otherwise valid calls (NULL session, NULL buffer, NULL table, '
            'ESI = n, n+1, 2^32-1, build ESI < k, wrong role; submissions and repair requests on sessions that have no parameters yet or whose parameters were rejected, every codec and role) followed by a check that the session still works; oracle: OK <=> inside the advertised limits, accepted => decodes correctly, corrupted call => error status; '
            'non-trivial = distinct parameter points / corruption scripts')

    def project(self, line, out):
        op = line.split()[0]
        if op in ('params', 'recv', 'recvnull', 'build', 'avail', 'availnull', 'finish', 'new', 'nullses', 'ctrl', 'unconf'):
            d = kv(out)
            return out if op in ('nullses', 'ctrl', 'unconf') else 'st=' + d.get('st', '?')
        if op == 'complete':
            return out
        if op == 'sources':
            d = kv(out); src = parse_sources(d.get('src', ''))
            return 'st=%s src=%s' % (d.get('st'), ';'.join('%d:%s' % (i, v[1]) for i, v in sorted(src.items())))
        return 'x'

    def nontrivial_key(self, c):
        return c.name.split('#')[0] + '|' + '|'.join(c.lines[1:4])

    def oracle(self, c):
        m = c.meta
        for i, (l, o) in enumerate(zip(c.lines, c.impl)):
            f = l.split(); op = f[0]; d = kv(o)
            if op == 'params':
                k, r, ln, mm, N1, seed = (int(x) for x in f[2:8])
                codec = m['codecs'][int(f[1])]
                N1 = N1 % 256
                ok = within(codec, k, r, ln, mm, N1, seed)
                if ok and d.get('st') != 'OK':
                    return [('c09:valid-rejected:%d' % codec, 'configuration inside the limits rejected (%s): %s' % (d.get('st'), l), i)]
                if not ok and d.get('st') == 'OK':
                    why = 'k=0' if k == 0 else 'r=0' if r == 0 else 'len=0' if ln == 0 else 'seed' if codec == 3 and not (1 <= seed <= 2 ** 31 - 2) else \
                          'N1' if codec == 3 and not (3 <= N1 <= r) else 'm' if codec == 2 and mm not in (4, 8) else 'k>max' if k > (2 ** mm - 1 if codec == 2 else LIM[codec][0]) else 'n>max'
                    return [('c09:invalid-accepted:%d:%s' % (codec, why), 'configuration outside the advertised limits accepted: %s' % l, i)]
            if op in m.get('must_fail', {}).get(i, ()) or i in m.get('must_fail_idx', ()):
                if d.get('st') in ('OK', None) and op != 'nullses':
                    return [('c09:bad-arg-accepted:%s' % op, 'corrupted call %r returned %s' % (l, d.get('st')), i)]
            if op == 'unconf':
                # n = 0: every ESI is outside 0..n-1, so each of the six calls must be answered with an error status
                vals = (d.get('recv', 'OK') + ',' + d.get('build', 'OK')).split(',')
                if o.startswith('ok') and any(v in ('OK', '') for v in vals):
                    return [('c09:unconfigured-esi-accepted', 'a submission / repair request on a session without parameters did not fail: %s' % o, i)]
            if op == 'nullses':
                if any(v == 'OK' for kx, v in d.items() if kx != 'complete') or d.get('complete') != '0':
                    return [('c09:null-session-accepted', 'a call with a NULL session did not fail: %s' % o, i)]
        # accepted => usable: the final sources of every decoder cycle equal the codeword
        cw = case_codeword(c)
        if m.get('expect_decode') and cw:
            srcs = [(i, kv(o)) for i, (l, o) in enumerate(zip(c.lines, c.impl)) if l.startswith('sources')]
            if srcs:
                i, d = srcs[-1]
                src = parse_sources(d.get('src', ''))
                k = m['k']
                if d.get('st') != 'OK' or len(src) != k or any(src[j][1] != cw[j] for j in src):
                    return [('c09:accepted-but-unusable:%d' % m['codecs'][0], 'configuration accepted but the encode/decode cycle does not return the block', i)]
        return []

    def cycle(self, name, codec, k, r, ln, m, N1, seed, rng, corrupt=False, probe=False):
        n = k + r
        ok = within(codec, k, r, ln, m, N1 % 256, seed)
        b = ['new 0 %d 3' % codec]
        if probe: b += ['unconf 0']
        b += ['params 0 %d %d %d %d %d %d' % (k, r, ln, m, N1, seed)]
        # (the listed known finding: RS GF(2^m) accepts n > 2^m - 1; such a session is configured, nothing to probe)
        known_accept = codec == 2 and m in (4, 8) and 1 <= k <= 2 ** m - 1 and r >= 1 and ln >= 1
        if probe and not ok and not known_accept:
            # a rejected configuration leaves the session without parameters: ESI-taking calls are refused, then a valid
            # configuration is accepted and works (the session stays usable)
            vk, vr, vm, vN1 = (4, 3, (4 if codec == 2 else 0), (3 if codec == 3 else 0))
            b += ['unconf 0', 'params 0 %d %d 8 %d %d 9' % (vk, vr, vm, vN1)]
            k, r, ln, m, N1, seed, n, ok = vk, vr, 8, vm, vN1, 9, vk + vr, True
        meta = {'codecs': {0: codec}, 'k': k, 'expect_decode': False, 'must_fail_idx': set()}
        if ok and n <= 6000 and ln <= 4096:
            b += ['ctrl 0 maxk', 'ctrl 0 maxn', 'payload 0 rand 5', 'cwdump 0']
            b += ['build 0 %d %s' % (e, 'own' if e % 2 else 'null') for e in range(k, n)]
            order = list(range(n)); rng.shuffle(order)
            keep = order[:max(k, n - 1)] if codec != 3 else order[:n - (1 if n > k + 3 else 0)]
            if corrupt:
                base = len(b) + 1
                bad = ['recv 0 %d' % n, 'recv 0 %d' % (n + 1), 'recv 0 4294967295', 'recvnull 0 0', 'availnull 0',
                       'build 0 %d own' % (k - 1), 'build 0 %d own' % n, 'build 0 4294967295 own', 'nullses']
                for j, x in enumerate(bad):
                    meta['must_fail_idx'].add(base + j)
                b += bad
            b += ['recv 0 %d' % e for e in keep]
            b += ['finish 0', 'complete 0', 'sources 0']
            meta['expect_decode'] = True
        b += ['release 0']
        c = corr.mk(name, b); c.meta = meta
        return c

    def pc(self, i, *args):
        return self.cycle('p%d' % i, *args, probe=(i % 3 == 0))

    def cases(self, rng, tier):
        cases = []; i = 0
        vals = lambda lim: sorted(set([0, 1, 2, lim - 1, lim, lim + 1, 2 ** 16, 2 ** 31 - 1, 2 ** 31, 2 ** 32 - 1]))
        # RS 2^8
        for k in vals(255):
            cases.append(self.pc(i, 1, k, 3, 8, 0, 0, 0, rng)); i += 1
        for r in vals(255):
            for k in (1, 2, 200, 254, 255):
                cases.append(self.pc(i, 1, k, r, 8, 0, 0, 0, rng)); i += 1
        for ln in [0, 1, 2, 65535, 65536]:
            cases.append(self.pc(i, 1, 3, 2, ln, 0, 0, 0, rng)); i += 1
        for k in range(0, 258):
            for r in (0, 1, 255 - k if 255 - k >= 0 else 0, 256 - k if 256 - k >= 0 else 1):
                if tier == 'quick' and 10 < k < 245 and k % 16: continue
                cases.append(self.pc(i, 1, k, r, 2, 0, 0, 0, rng)); i += 1
        # RS 2^m
        for m in list(range(0, 18)) + [32, 36, 40, 64, 68, 72, 132, 136, 255, 256, 260, 264, 4100, 4104, 32772, 32776, 65535, 65532, 65528]:
            cases.append(self.pc(i, 2, 3, 2, 4, m, 0, 0, rng)); i += 1
        for m, lim in ((4, 15), (8, 255)):
            for k in vals(lim):
                cases.append(self.pc(i, 2, k, 2, 4, m, 0, 0, rng)); i += 1
            for r in vals(lim):
                for k in (1, 2, lim - 1, lim):
                    cases.append(self.pc(i, 2, k, r, 4, m, 0, 0, rng)); i += 1
            for ln in [0, 1, 65535]:
                cases.append(self.pc(i, 2, 3, 2, ln, m, 0, 0, rng)); i += 1
        # LDPC
        for k in vals(50000):
            cases.append(self.pc(i, 3, k, 5, 2, 0, 3, 12345, rng)); i += 1
        for r in vals(50000):
            for k in (1, 10, 49990):
                cases.append(self.pc(i, 3, k, r, 2, 0, 3, 12345, rng)); i += 1
        for N1 in [0, 1, 2, 3, 4, 5, 6, 7, 8, 9, 10, 11, 254, 255, 256, 259]:
            for r in (3, 6, 10):
                cases.append(self.pc(i, 3, 12, r, 2, 0, N1, 12345, rng)); i += 1
        for seed in [0, 1, 2, 2 ** 31 - 3, 2 ** 31 - 2, 2 ** 31 - 1, 2 ** 31, 2 ** 32 - 1]:
            # an invalid seed must be rejected whatever the global PRNG state is: precede with another session
            cases.append(self.pc(i, 3, 12, 6, 2, 0, 3, seed, rng)); i += 1
        for ln in [0, 1, 65535]:
            cases.append(self.pc(i, 3, 12, 6, ln, 0, 3, 77, rng)); i += 1
        # (b) corruptions
        for codec, k, r, ln, m, N1, seed in [(1, 4, 3, 8, 0, 0, 0), (2, 4, 3, 8, 4, 0, 0), (2, 5, 4, 8, 8, 0, 0), (3, 6, 5, 4, 0, 3, 9), (3, 5, 6, 4, 0, 4, 9)]:
            for rep in range(2 if tier == 'quick' else 8):
                cases.append(self.cycle('c%d' % i, codec, k, r, ln, m, N1, seed, rng, corrupt=True)); i += 1
        # wrong roles
        for codec, k, r, ln, m, N1, seed in [(1, 4, 3, 8, 0, 0, 0), (2, 4, 3, 8, 4, 0, 0), (3, 6, 5, 4, 0, 3, 9)]:
            cfgl = 'params %%d %d %d %d %d %d %d' % (k, r, ln, m, N1, seed)
            b = ['new 0 %d 1' % codec, cfgl % 0, 'payload 0 id', 'recv 0 0', 'avail 0 0,1', 'finish 0', 'complete 0', 'sources 0', 'build 0 %d own' % k, 'release 0']
            c = corr.mk('r%d' % i, b); c.meta = {'codecs': {0: codec}, 'k': k, 'must_fail_idx': {4, 5, 6, 8}}; cases.append(c); i += 1
            b = ['new 0 %d 2' % codec, cfgl % 0, 'payload 0 id', 'build 0 %d own' % k, 'recv 0 0', 'complete 0', 'release 0']
            c = corr.mk('r%d' % i, b); c.meta = {'codecs': {0: codec}, 'k': k, 'must_fail_idx': {4}}; cases.append(c); i += 1
        # sessions that never get parameters: every codec and role
        for codec in (1, 2, 3):
            for role in (1, 2, 3):
                c = corr.mk('u%d' % i, ['new 0 %d %d' % (codec, role), 'unconf 0', 'release 0']); c.meta = {'codecs': {0: codec}, 'k': 0}; cases.append(c); i += 1
        # unknown codec ids
        for cid in (0, 4, 6, 7, 255):
            c = corr.mk('n%d' % i, ['new 0 %d 3' % cid]); c.meta = {'codecs': {0: cid}, 'k': 0}; cases.append(c); i += 1
        return cases

_p = P()
def run(res, tier, seed, gen_errs): _p.run(res, tier, seed, gen_errs)
def replay(path): return _p.replay(path)
