"""C14 — field tables: every table of the current tree is re-proved (kernel evaluation) against bit-level GF arithmetic."""
import json, os, re, subprocess
import common

THEOREMS = ['C14_mul4', 'C14_opt4', 'C14_mul8', 'C14_rs8_mul', 'C14_exp', 'C14_inv', 'C14_log', 'C14_shapes', 'C14_regeneration_idempotent']
MODULE = 'OpenFecVerif.Props.C14'

def tabdump_entry(table, i, j):
    """re-read one entry from the C object (the unmodified sources compiled by gcc)"""
    import gen, tempfile, shutil
    w = tempfile.mkdtemp(prefix='oftab_')
    try:
        tables, defs, strs = gen.dump_tables(w)
    finally:
        shutil.rmtree(w, ignore_errors=True)
    r, c, vals = tables[table]
    return vals[i * c + j]

def search_failing_entries():
    outs = common.run_model(['tabcheck'])
    line = outs[0]
    bads = [b for b in line[3:].split(';') if b.startswith('bad ')]
    res = []
    for b in bads:
        f = b.split()
        res.append({'table': f[1], 'row': int(f[2]), 'col': int(f[3]), 'expected': f[4].split('=', 1)[1], 'actual': f[5].split('=', 1)[1]})
    return res

def run(res, tier, seed, gen_errs):
    res.rule = ('each obligation is a Lean theorem over the tables regenerated from the sources this run (13 tables: 3 '
                'multiplication tables of 256x256/256x256/16x16 entries, the 16x256 packed table, 3 exp, 3 log, 3 inverse), '
                'proved by kernel evaluation over the whole index range; the run-time tables of the GF(2^8) codec are generated twice and compared; '
                'non-trivial = table entries constrained')
    ok, log = common.check_lean(res, MODULE, THEOREMS)
    # count what the theorems constrain (measured from the generated shapes)
    import gen, tempfile, shutil
    w = tempfile.mkdtemp(prefix='oftab_')
    try:
        tables, defs, strs = gen.dump_tables(w)
    finally:
        shutil.rmtree(w, ignore_errors=True)
    n = 0
    for name, (r, c, vals) in tables.items():
        cnt = r * c if 'log' not in name else min(c, 256 if '2_8' in name or 'rs' in name else 16)
        n += cnt
        for k in range(cnt):
            res.nontrivial.add((name, k))
    res.evaluations = n
    res.exhaustive = True
    res.cov['tables'] = {k: [v[0], v[1]] for k, v in tables.items()}
    res.cov['unconstrained_entries'] = {'of_gf_2_8_log': max(0, tables['of_gf_2_8_log'][1] - 256)}
    res.sample({'table': 'of_gf_2_8_mul_table', 'row': 87, 'col': 131, 'value': tables['of_gf_2_8_mul_table'][2][87 * 256 + 131]})
    res.sample({'table': 'of_gf_2_4_opt_mul_table', 'row': 7, 'col': 0x3a, 'value': tables['of_gf_2_4_opt_mul_table'][2][7 * 256 + 0x3a]})
    if ok and not gen_errs.get('Tables'):
        if tier == 'thorough':
            common.leancheck(res, MODULE)
        return
    # a proof obligation broke: search for a concrete failing entry with the same Boolean conditions
    bads = []
    try:
        bads = search_failing_entries()
    except Exception as e:
        res.notes.append('search failed: %s' % e)
    if defs.get('RS_REGEN_MISMATCHES', 0):
        code = defs.get('RS_REGEN_FIRST', 0); tname = {1: 'of_rs_gf_exp', 2: 'of_rs_inverse', 3: 'of_rs_gf_log', 4: 'of_gf_mul_table'}.get(code // 1000000, '?')
        idx = code % 1000000
        res.violation('c14:regeneration:%s' % tname, 'after a second of_rs_init() %d table entries of the GF(2^8) codec differ from the first generation (which '
                      'agrees with field arithmetic); first difference: %s[%s]' % (defs['RS_REGEN_MISMATCHES'], tname, ('%d][%d' % (idx // 256, idx % 256)) if tname == 'of_gf_mul_table' else idx),
                      replay={'history': 'of_rs_init(); of_rs_init();', 'table': tname, 'index': idx, 'mismatches': defs['RS_REGEN_MISMATCHES'],
                              'reproduce': 'harness/tabdump.c prints "def RS_REGEN_MISMATCHES <n>"'})
    if bads:
        for b in bads[:20]:
            try:
                b['value_in_C_object'] = tabdump_entry(b['table'], b['row'], b['col'])
            except Exception:
                pass
            res.violation('c14:%s[%d][%d]' % (b['table'], b['row'], b['col']),
                          'table %s entry [%d][%d] is %s, field arithmetic gives %s' % (b['table'], b['row'], b['col'], b['actual'], b['expected']),
                          replay=b)
    else:
        res.violation('c14:proof', 'theorems of %s no longer check and no failing table entry was found: %s' %
                      (MODULE, '; '.join(common.first_errors(log)) or str(gen_errs)),
                      replay={'broken': MODULE, 'failed_modules': common.failed_modules(log), 'errors': common.first_errors(log),
                              'regeneration': gen_errs}, no_input=True)

def replay(path):
    r = json.load(open(path))
    b = r.get('replay') or {}
    if 'table' not in b:
        print('replay names a broken obligation:', json.dumps(b)[:500]); return 1
    v = tabdump_entry(b['table'], b['row'], b['col'])
    print('C object: %s[%d][%d] = %d ; expected %s' % (b['table'], b['row'], b['col'], v, b['expected']))
    bads = [x for x in search_failing_entries() if (x['table'], x['row'], x['col']) == (b['table'], b['row'], b['col'])]
    print('model check:', 'still fails' if bads else 'holds now')
    return 1 if bads else 0
