"""C17 — the sparse GF(2) matrix is a set of (row, column) pairs under any operation sequence."""
import random, json, itertools
import common, corr

MODULE = 'OpenFecVerif.Props.C17'
THEOREMS = ['Sparse.C17_alloc_inv', 'Sparse.C17_insert_inv', 'Sparse.C17_delete_inv', 'Sparse.C17_clear_inv',
            'Sparse.C17_find_iff_mem', 'Sparse.C17_insert_mem', 'Sparse.C17_insert_idem', 'Sparse.C17_delete_mem',
            'Sparse.C17_row_sorted', 'Sparse.C17_col_exact', 'Sparse.C17_copy_spec', 'Sparse.C17_copyrows_spec',
            'Sparse.C17_copycols_spec', 'Sparse.C17_copyFilled_spec', 'Sparse.C17_run_inv', 'Sparse.C17_pool_exact', 'Sparse.C17_from_dense', 'Sparse.C17_to_dense']

RULE = ('operation sequences on real of_mod2sparse matrices (allocate, insert, find, delete, clear, copy, copyrows, copycols, '
        'copy_filled_matrix, sparse<->dense) with a full dump after every mutating operation (every row traversal forwards and backwards, every '
        'column traversal, find on every cell, emptiness, weights, entry-pool blocks and free-list length) under ASan/LSan; exhaustive: every '
        'sequence up to the stated length over a 12-operation alphabet on two 2x2 matrices; random: long sequences on dimensions up to 40x70 '
        'with recycled entries and more than one pool block, and matrices of more than 1024/2048 entries that are cleared (directly, by copy, by '
        'conversion), refilled, cleared again and freed; compared with the Lean model line by line and with an independent Python set '
        'model (oracle); non-trivial = distinct operation sequence')

def close(lines):
    s, d = set(), set()
    for l in lines:
        f = l.split()
        if f[0] == 'salloc': s.add(f[1])
        if f[0] == 'dalloc': d.add(f[1])
        if f[0] == 'sfree': s.discard(f[1])
        if f[0] == 'dfree': d.discard(f[1])
    return lines + ['sfree ' + x for x in sorted(s)] + ['dfree ' + x for x in sorted(d)]

class Exp:
    """python oracle: a set of pairs per sparse slot, a bit matrix per dense slot"""
    def __init__(self): self.s = {}; self.d = {}; self.dim = {}; self.ddim = {}

def oracle_case(lines, outs):
    """returns (sig, what, idx) or None; independent set semantics"""
    E = Exp()
    for idx, (l, o) in enumerate(zip(lines, outs)):
        f = l.split(); op = f[0]
        if op == 'case': continue
        if not o.startswith('ok'):
            return ('c17:harness-rejected:' + op, 'harness answered %r to %r' % (o, l), idx)
        a = int(f[1])
        if op == 'salloc':
            nr, nc = int(f[2]), int(f[3])
            if (o == 'ok null') != (nr == 0 or nc == 0): return ('c17:alloc', 'allocate(%d,%d) answered %s' % (nr, nc, o), idx)
            if nr and nc: E.s[a] = set(); E.dim[a] = (nr, nc)
        elif op == 'dalloc':
            E.d[a] = set(); E.ddim[a] = (int(f[2]), int(f[3]))
        elif op == 'sfree': del E.s[a]
        elif op == 'dfree': del E.d[a]
        elif op == 'sins':
            r, c = int(f[2]), int(f[3]); nr, nc = E.dim[a]
            if r >= nr or c >= nc:
                if o != 'ok null': return ('c17:insert-out-of-range', 'insert(%d,%d) out of range answered %s' % (r, c, o), idx)
            else:
                exp = 'ok new=%d at=%d,%d same=1' % (0 if (r, c) in E.s[a] else 1, r, c)
                if o != exp: return ('c17:insert', 'insert(%d,%d): %s, expected %s (idempotence / returned entry)' % (r, c, o, exp), idx)
                E.s[a].add((r, c))
        elif op == 'sfind':
            r, c = int(f[2]), int(f[3])
            if o != 'ok f=%d' % ((r, c) in E.s[a]): return ('c17:find', 'find(%d,%d) answered %s but membership is %s' % (r, c, o, (r, c) in E.s[a]), idx)
        elif op == 'sdel':
            r, c = int(f[2]), int(f[3])
            if o != 'ok d=%d' % ((r, c) in E.s[a]): return ('c17:delete', 'find-then-delete(%d,%d) answered %s' % (r, c, o), idx)
            E.s[a].discard((r, c))
        elif op == 'sclear': E.s[a] = set()
        elif op == 'scopy':
            b = int(f[2])
            if E.dim[a][0] <= E.dim[b][0] and E.dim[a][1] <= E.dim[b][1]: E.s[b] = set(E.s[a])
        elif op == 'scopyrows':
            b = int(f[2]); l_ = [int(x) for x in f[3].split(',')]
            if E.dim[a][1] <= E.dim[b][1]:
                E.s[b] = set((i, c) for i, s in enumerate(l_) for (r, c) in E.s[a] if r == s)
        elif op == 'scopycols':
            b = int(f[2]); l_ = [int(x) for x in f[3].split(',')]
            if E.dim[a][0] <= E.dim[b][0]:
                E.s[b] = set((r, j) for j, s in enumerate(l_) for (r, c) in E.s[a] if c == s)
        elif op == 'scopyfilled':
            b = int(f[2]); lr = [int(x) for x in f[3].split(',')]; lc = [int(x) for x in f[4].split(',')]
            for (r, c) in E.s[a]:
                if lr[r] < E.dim[b][0] and lc[c] < E.dim[b][1]: E.s[b].add((lr[r], lc[c]))
        elif op == 's2d':
            b = int(f[2])
            if E.dim[a][0] <= E.ddim[b][0] and E.dim[a][1] <= E.ddim[b][1]: E.d[b] = set(E.s[a])
        elif op == 'd2s':
            b = int(f[2])
            if E.ddim[a][0] <= E.dim[b][0] and E.ddim[a][1] <= E.dim[b][1]: E.s[b] = set(E.d[a])
        elif op == 'dclear': E.d[a] = set()
        elif op == 'dset':
            r, c, v = int(f[2]), int(f[3]), int(f[4])
            if r < E.ddim[a][0] and c < E.ddim[a][1]:
                (E.d[a].add if v else E.d[a].discard)((r, c))
        elif op == 'ddump':
            kv = dict(t.split('=', 1) for t in o.split()[1:])
            got = set((i, j) for i, row in enumerate(kv['bits'].split(';')[:-1]) for j, ch in enumerate(row) if ch == '1')
            if got != E.d[a]: return ('c17:to-dense', 'sparse-to-dense conversion produced %s, expected %s' % (sorted(got)[:20], sorted(E.d[a])[:20]), idx)
        elif op == 'sdump':
            kv = dict(t.split('=', 1) for t in o.split()[1:])
            nr, nc = E.dim[a]; S = E.s[a]
            rows = [[int(x) for x in t.split(',')] if t else [] for t in kv['rows'].split(';')[:-1]]
            cols = [[int(x) for x in t.split(',')] if t else [] for t in kv['cols'].split(';')[:-1]]
            exp_rows = [sorted(c for (r, c) in S if r == i) for i in range(nr)]
            exp_cols = [sorted(r for (r, c) in S if c == j) for j in range(nc)]
            if rows != exp_rows:
                i = next(i for i in range(max(len(rows), nr)) if i >= len(rows) or i >= nr or rows[i] != exp_rows[i])
                return ('c17:row-traversal', 'row %d traversal lists %s, the set model has %s' % (i, rows[i] if i < len(rows) else None, exp_rows[i] if i < nr else None), idx)
            if cols != exp_cols:
                j = next(j for j in range(max(len(cols), nc)) if j >= len(cols) or j >= nc or cols[j] != exp_cols[j])
                return ('c17:col-traversal', 'column %d traversal lists %s, the set model has %s' % (j, cols[j] if j < len(cols) else None, exp_cols[j] if j < nc else None), idx)
            fnd = kv['find'].split(';')[:-1]
            for i in range(nr):
                for j in range(nc):
                    if (fnd[i][j] == '1') != ((i, j) in S):
                        return ('c17:find', 'find(%d,%d) = %s but membership is %s' % (i, j, fnd[i][j], (i, j) in S), idx)
            if kv['back'] != '1': return ('c17:links', 'backward traversal or entry coordinates inconsistent with forward traversal', idx)
            if kv['erow'] != ''.join('1' if not exp_rows[i] else '0' for i in range(nr)) or kv['ecol'] != ''.join('1' if not exp_cols[j] else '0' for j in range(nc)):
                return ('c17:empty', 'empty_row/empty_col disagree with the set model', idx)
            if kv['wrow'] != ','.join(str(len(x)) for x in exp_rows): return ('c17:weight', 'weight_row disagrees with the set model', idx)
            if int(kv['free']) + len(S) != 1024 * int(kv['blocks']):
                return ('c17:pool', 'entry pool: %s blocks, %s free records, %d entries in use (free + used != 1024 * blocks)' % (kv['blocks'], kv['free'], len(S)), idx)
    return None

ALPHA = (['sins 0 %d %d' % (r, c) for r in range(2) for c in range(2)] + ['sdel 0 %d %d' % (r, c) for r in range(2) for c in range(2)] +
         ['sclear 0', 'scopy 0 1', 'scopy 1 0', 'sins 1 0 1'])

def exhaustive_cases(maxlen):
    cases = []
    for n in range(1, maxlen + 1):
        for seq in itertools.product(range(len(ALPHA)), repeat=n):
            body = ['salloc 0 2 2', 'salloc 1 2 2']
            for t in seq:
                body.append(ALPHA[t])
            body += ['sdump 0', 'sdump 1', 'sfree 0', 'sfree 1']
            cases.append(corr.mk('x' + ''.join('%x' % t for t in seq), body))
    return cases

def random_case(rng, name, big=False):
    ns = 3
    dims = []
    for i in range(ns):
        if big: dims.append((rng.randint(20, 40), rng.randint(30, 70)))
        else: dims.append((rng.randint(1, 6), rng.randint(1, 7)))
    if rng.random() < 0.5: dims[1] = dims[0]
    if rng.random() < 0.3: dims[2] = (dims[0][0] + rng.randint(0, 2), dims[0][1] + rng.randint(0, 2))
    body = ['salloc %d %d %d' % (i, d[0], d[1]) for i, d in enumerate(dims)]
    ddim = (max(d[0] for d in dims), max(d[1] for d in dims)) if rng.random() < 0.7 else dims[0]
    body.append('dalloc 4 %d %d' % ddim)
    sets = [set() for _ in dims]
    nops = rng.randint(10, 60) if not big else rng.randint(1200, 1500)
    for _ in range(nops):
        a = rng.randrange(ns); nr, nc = dims[a]
        x = rng.random()
        if big: x = x * 0.55 if rng.random() < 0.97 else x
        if x < 0.40:
            if rng.random() < 0.04: r, c = rng.choice([(nr, 0), (0, nc), (nr + 3, nc + 1)])
            else: r, c = rng.randrange(nr), rng.randrange(nc)
            body.append('sins %d %d %d' % (a, r, c))
            if r < nr and c < nc: sets[a].add((r, c))
        elif x < 0.55:
            if sets[a] and rng.random() < 0.75: r, c = rng.choice(sorted(sets[a]))
            else: r, c = rng.randrange(nr), rng.randrange(nc)
            body.append('sdel %d %d %d' % (a, r, c)); sets[a].discard((r, c))
        elif x < 0.62:
            body.append('sfind %d %d %d' % (a, rng.randrange(nr), rng.randrange(nc))); continue
        elif x < 0.66:
            body.append('sclear %d' % a); sets[a] = set()
        elif x < 0.74:
            b = rng.randrange(ns)
            if b == a: continue
            body.append('scopy %d %d' % (a, b))
            if dims[a][0] <= dims[b][0] and dims[a][1] <= dims[b][1]: sets[b] = set(sets[a])
            a = b
        elif x < 0.81:
            b = rng.randrange(ns)
            if b == a: continue
            lst = [rng.randrange(nr) for _ in range(dims[b][0])]
            body.append('scopyrows %d %d %s' % (a, b, ','.join(map(str, lst))))
            if dims[a][1] <= dims[b][1]: sets[b] = set((i, c) for i, s in enumerate(lst) for (r, c) in sets[a] if r == s)
            a = b
        elif x < 0.88:
            b = rng.randrange(ns)
            if b == a: continue
            lst = [rng.randrange(nc) for _ in range(dims[b][1])]
            body.append('scopycols %d %d %s' % (a, b, ','.join(map(str, lst))))
            if dims[a][0] <= dims[b][0]: sets[b] = set((r, j) for j, s in enumerate(lst) for (r, c) in sets[a] if c == s)
            a = b
        elif x < 0.93:
            b = rng.randrange(ns)
            if b == a: continue
            # the compaction maps of ML decoding (non-empty rows/columns renumbered) or random maps into the destination
            if rng.random() < 0.5:
                lr, t = [], 0
                for i in range(nr):
                    lr.append(t); t += 1 if any(r == i for (r, c) in sets[a]) else 0
                lc, t = [], 0
                for j in range(nc):
                    lc.append(t); t += 1 if any(c == j for (r, c) in sets[a]) else 0
            else:
                lr = [rng.randrange(dims[b][0]) for _ in range(nr)]; lc = [rng.randrange(dims[b][1]) for _ in range(nc)]
            body.append('scopyfilled %d %d %s %s' % (a, b, ','.join(map(str, lr)), ','.join(map(str, lc))))
            for (r, c) in sets[a]:
                if lr[r] < dims[b][0] and lc[c] < dims[b][1]: sets[b].add((lr[r], lc[c]))
            a = b
        elif x < 0.97:
            body.append('s2d %d 4' % a); body.append('ddump 4'); continue
        else:
            for _ in range(rng.randint(0, 5)):
                body.append('dset 4 %d %d %d' % (rng.randrange(ddim[0]), rng.randrange(ddim[1]), rng.randrange(2)))
            body.append('d2s 4 %d' % a)
            # expectation is maintained by the oracle; keep the generator's own view approximately right
            sets[a] = None
        if sets[a] is None:
            sets[a] = set()     # unknown to the generator: later deletes simply aim at random cells
        if not big or rng.random() < 0.02:
            body.append('sdump %d' % a)
    body += ['sdump %d' % i for i in range(ns)]
    body += ['sfree %d' % i for i in range(ns)] + ['dfree 4']
    return corr.mk(name, body)

def conversion_case(rng, name):
    """sparse <-> dense conversions on widths that span several 32-bit words, with entries concentrated at word boundaries"""
    nr = rng.randint(1, 9); nc = rng.choice([31, 32, 33, 40, 63, 64, 65, 70, 96, 97, 100, 128, 130])
    body = ['salloc 0 %d %d' % (nr, nc), 'salloc 1 %d %d' % (nr + rng.randint(0, 2), nc + rng.choice([0, 0, 1, 32])), 'dalloc 4 %d %d' % (nr, nc)]
    cols = sorted(set(c for c in [0, 1, 30, 31, 32, 33, 62, 63, 64, 65, 95, 96, 97, 127, 128, 129, nc - 1] if c < nc))
    mode = rng.random()
    for i in range(nr):
        if mode < 0.4:     # sparse rows: a single bit right after an all-zero word, or at a boundary
            for c in rng.sample(cols, rng.randint(0, min(3, len(cols)))):
                body.append('dset 4 %d %d 1' % (i, c))
        elif mode < 0.7:
            for c in range(nc):
                if rng.random() < 0.08 or (c % 32 == 0 and rng.random() < 0.5): body.append('dset 4 %d %d 1' % (i, c))
        else:
            for c in rng.sample(range(nc), rng.randint(0, nc // 2)): body.append('dset 4 %d %d 1' % (i, c))
    # pre-existing entries in the destination must disappear
    for _ in range(rng.randint(0, 4)): body.append('sins 0 %d %d' % (rng.randrange(nr), rng.randrange(nc)))
    body += ['d2s 4 0', 'sdump 0', 'd2s 4 1', 'sdump 1', 'dclear 4', 's2d 0 4', 'ddump 4']
    for _ in range(rng.randint(0, 3)): body.append('sdel 0 %d %d' % (rng.randrange(nr), rng.choice(cols)))
    body += ['s2d 0 4', 'ddump 4', 'd2s 4 0', 'sdump 0', 'sfree 0', 'sfree 1', 'dfree 4']
    return corr.mk(name, body)

def multiblock_case(rng, name):
    """a matrix that needs more than one pool block (> 1024 entries), then cleared - directly or as the destination of a copy or of a
    dense-to-sparse conversion - and then used again, cleared again and freed: what a clear that mishandles the block list breaks"""
    nr = rng.randint(34, 44); nc = rng.randint(36, 60)
    nr1 = rng.randint(2, 5)
    body = ['salloc 0 %d %d' % (nr, nc), 'salloc 1 %d %d' % (nr1, rng.randint(2, 6)), 'dalloc 4 %d %d' % (nr, nc)]
    cells = [(r, c) for r in range(nr) for c in range(nc)]
    rng.shuffle(cells)
    want = rng.choice([1025, 1030, 1100, 1300, 2049, 2100]); want = min(want, len(cells))
    body += ['sins 0 %d %d' % rc for rc in cells[:want]]
    body += ['sins 1 0 0', 'sins 1 1 1', 'sdump 0']
    for rnd in range(rng.randint(1, 3)):
        how = rng.choice(['clear', 'copy', 'd2s', 'copyrows', 'clear'])
        if how == 'clear': body.append('sclear 0')
        elif how == 'copy': body.append('scopy 1 0')
        elif how == 'copyrows': body.append('scopyrows 1 0 %s' % ','.join(str(rng.randrange(nr1)) for _ in range(nr)))
        else: body += ['dset 4 %d %d 1' % (rng.randrange(nr), rng.randrange(nc)), 'd2s 4 0']
        body.append('sdump 0')
        again = rng.choice([0, 5, 1030])
        body += ['sins 0 %d %d' % rc for rc in rng.sample(cells, min(again, len(cells)))]
        if again: body.append('sdump 0')
    body += ['sfree 0', 'sfree 1', 'dfree 4']
    return corr.mk(name, body)

def gen_cases(rng, tier):
    cases = exhaustive_cases(4 if tier == 'quick' else 5)
    nexh = len(cases)
    for i in range(400 if tier == 'quick' else 6000):
        cases.append(random_case(rng, 'r%d' % i))
    for i in range(2 if tier == 'quick' else 12):
        cases.append(random_case(rng, 'big%d' % i, big=True))
    for i in range(150 if tier == 'quick' else 3000):
        cases.append(conversion_case(rng, 'cv%d' % i))
    for i in range(4 if tier == 'quick' else 40):
        cases.append(multiblock_case(rng, 'mb%d' % i))
    return cases, nexh

def run(res, tier, seed, gen_errs):
    rng = random.Random(seed)
    res.rule = RULE
    ok, log = common.check_lean(res, MODULE, THEOREMS)
    cases, nexh = gen_cases(rng, tier)
    corr.run(cases, harness='matdrv')
    res.evaluations = len(cases)
    res.cov['exhaustive_sequences'] = nexh
    res.cov['lines_compared'] = sum(len(c.lines) for c in cases)
    ops = {}
    for c in cases:
        for l in c.lines:
            ops[l.split()[0]] = ops.get(l.split()[0], 0) + 1
    res.cov['operations'] = ops
    multi = 0
    for c in cases:
        for o in c.impl:
            if ' blocks=' in o and int(o.rsplit('blocks=', 1)[1].split()[0]) >= 2: multi += 1; break
    res.cov['cases_with_more_than_one_pool_block'] = multi
    for c in (cases[5], cases[nexh], cases[-1]):
        res.sample({'case': c.name, 'script': c.lines[:12], 'impl': [x[:160] for x in c.impl[:12]]})
    nviol = 0; broken = []
    for c in cases:
        if nviol >= 5: break
        if c.abort:
            a = c.abort; idx = a.get('line_index')
            import re
            kind = (re.search(r'AddressSanitizer: ([\w-]+)', a.get('summary') or '') or [None, 'leak' if 'Leak' in (a.get('summary') or '') else 'crash'])[1]
            opn = (a.get('at_line') or 'exit').split()[0]
            res.violation('c17:abort:%s:%s' % (opn, kind), 'the sparse-matrix module aborted under the sanitizers (%s) at %r in case %s' % (a.get('summary'), a.get('at_line'), c.name),
                          replay={'script': close(c.lines[:idx + 1]) if idx is not None else c.lines, 'abort': a.get('summary'), 'stderr_tail': (a.get('stderr') or '')[-1200:]})
            nviol += 1; continue
        bad = oracle_case(c.lines, c.impl)
        if bad:
            sig, what, idx = bad
            res.violation(sig, what + ' (case %s, line %r)' % (c.name, c.lines[idx]), replay={'script': close(c.lines[:idx + 1]), 'impl_output': c.impl[idx][:3000]})
            nviol += 1; continue
        if c.diff: broken.append(c)
        res.nontrivial.add(tuple(c.lines[1:]))
    res.cov['correspondence_mismatches'] = len(broken)
    if broken and not res.violations:
        c = broken[0]; d = c.diff
        res.violation('c17:corr:' + d['line'].split()[0], 'model and implementation differ at %r (impl %r, model %r) in %d case(s); the set-model oracle found no failing input'
                      % (d['line'], d['impl'][:200], d['model'][:200], len(broken)),
                      replay={'broken': 'correspondence stream of C17 (matdrv vs ofmodel)', 'script': close(c.lines[:d['index'] + 1]), 'impl': d['impl'], 'model': d['model']}, no_input=True)
    if corr.model_error and not res.violations:
        res.violation('c17:model-broken', 'the executable model no longer builds/runs: %s' % corr.model_error[:400], replay={'broken': 'ofmodel', 'error': corr.model_error}, no_input=True)
    if not ok and not res.violations:
        res.violation('c17:proof', 'theorems of %s no longer check: %s' % (MODULE, '; '.join(common.first_errors(log)) or log[-300:]),
                      replay={'broken': MODULE, 'errors': common.first_errors(log)}, no_input=True)
    if tier == 'thorough' and ok:
        common.leancheck(res, MODULE)

def replay(path):
    r = json.load(open(path)); script = (r.get('replay') or {}).get('script')
    if not script: print('replay names a broken obligation:', json.dumps(r.get('replay'))[:500]); return 1
    if not script[0].startswith('case'): script = ['case replay'] + script
    c = corr.CaseResult('replay', script)
    corr.run([c], harness='matdrv')
    for i, l in enumerate(c.lines):
        a = c.impl[i] if i < len(c.impl) else '<no output>'; b = c.model[i] if i < len(c.model) else ''
        print('%-30s impl: %s%s' % (l[:30], a[:150], '' if a == b else '\n' + ' ' * 30 + ' model: ' + b[:150]))
    if c.abort: print('ABORT:', c.abort.get('summary')); return 1
    bad = oracle_case(c.lines, c.impl)
    print('oracle:', bad if bad else 'holds')
    return 1 if bad or c.diff else 0
