"""C01 — decoders never hand back a wrong source symbol."""
import common, corr, gens
from props.api_common import StreamProperty, kv, parse_sources, case_codeword

class P(StreamProperty):
    pid = 'C01'
    module = 'OpenFecVerif.Props.C01'
    theorems = ['C01_rs_sound_gf8', 'C01_rs_sound_gf4', 'C01_ml_sound', 'C01_it_sound', 'C01_simplify_sound', 'C01_ldpc_configured',
                'C01_ldpc_session_sound', 'C01_ldpc_roundtrip', 'C01_rs_interpolate_sound_gf8', 'C01_rs_interpolate_sound_gf4']
    rule = ('decoder sessions over RS-2^8, RS-2^m (m=4,8), LDPC-Staircase: all 2^n receive sets for every (k,r) with n<=nmax '
            '(orders: increasing / shuffled with duplicates; stream and table API; with and without finish; callbacks none/buf/null/mix; '
            'identity and random payloads) plus sampled larger blocks with losses near the LDPC threshold, and histories that go on after of_finish_decoding (second finish, late symbols, finish again); '
            'oracle: every non-NULL entry of of_get_source_symbols_tab equals the encoded symbol, completeness => k entries; '
            'non-trivial = distinct (config, order, api, callback, finish) with at least one symbol submitted')

    def project(self, line, out):
        op = line.split()[0]
        if op in ('sources',):
            d = kv(out)
            src = parse_sources(d.get('src', ''))
            return 'st=%s src=%s' % (d.get('st'), ';'.join('%d:%s' % (i, v[1]) for i, v in sorted(src.items())))
        if op in ('complete', 'cwdump'):
            return out
        return 'x'

    def is_nontrivial(self, c):
        return bool(c.meta.get('order'))

    def oracle(self, c):
        cw = case_codeword(c)
        bad = []
        if cw is None:
            return bad
        k = c.meta['cfg'].k
        last_complete = None
        for i, (l, o) in enumerate(zip(c.lines, c.impl)):
            op = l.split()[0]
            if op == 'complete':
                last_complete = (kv(o).get('c') == '1')
            if op == 'sources':
                d = kv(o)
                src = parse_sources(d.get('src', '')) if d.get('st') == 'OK' else {}
                for j, (prov, hx) in src.items():
                    if j >= k or hx != cw[j]:
                        bad.append(('c01:wrong-symbol:%s' % c.meta['cfg'].kind,
                                    'source symbol %d reported as %s but the encoded symbol is %s' % (j, hx, cw[j] if j < len(cw) else '?'), i))
                        return bad
                if last_complete and len(src) != k:
                    bad.append(('c01:complete-but-missing:%s' % c.meta['cfg'].kind,
                                'of_is_decoding_complete is true but only %d of %d source symbols are available' % (len(src), k), i))
                    return bad
        return bad

    def cases(self, rng, tier):
        nmax = 6 if tier == 'quick' else 9
        cases = []
        i = 0
        for cfg in gens.small_configs(['rs8', 'rs2m4', 'rs2m8', 'ldpc'], nmax):
            if i % 7 == 3:
                cfg = gens.Cfg(cfg.kind, cfg.k, cfg.r, length=cfg.len + rng.randint(0, 9), N1=cfg.N1, seed=cfg.seed, payload='rand', pseed=rng.randint(0, 999))
            for sub in gens.subsets(cfg.n):
                api = 'stream' if i % 2 == 0 else 'table'
                cb = ['none', 'buf', 'null', 'mix'][i % 4] if (i // 4) % 2 else 'none'
                order = gens.random_order(rng, sub) if i % 3 == 0 else sub
                cases.append(gens.decoder_case('x%d' % i, cfg, order, api=api, cb=cb, finish=(i % 5 != 4)))
                i += 1
        nbig = 120 if tier == 'quick' else 2500
        for j in range(nbig):
            kind = rng.choice(['rs8', 'rs2m8', 'rs2m4', 'ldpc', 'ldpc', 'ldpc'])
            if kind == 'ldpc':
                k = rng.choice([rng.randint(9, 60), rng.randint(60, 400 if tier == 'quick' else 3000)])
                r = max(3, int(k * rng.choice([0.25, 0.5, 1.0, 2.0])))
                cfg = gens.Cfg(kind, k, r, N1=rng.choice([3, 3, 4, 5, 7]) if r >= 7 else 3, seed=rng.randint(1, 2 ** 31 - 2),
                               payload=rng.choice(['id', 'rand']), pseed=j)
                if cfg.payload == 'rand': cfg.len = rng.choice([1, 5, 8, 13, 32])
                sub = gens.ldpc_loss_subset(rng, cfg)
            else:
                lim = 15 if kind == 'rs2m4' else 255
                n = rng.randint(7, min(lim, 60 if tier == 'quick' else lim))
                k = rng.randint(1, n - 1)
                cfg = gens.Cfg(kind, k, n - k, payload=rng.choice(['id', 'rand']), pseed=j)
                if cfg.payload == 'rand': cfg.len = rng.choice([1, 3, 16, 17, 33])
                sub = sorted(rng.sample(range(n), rng.randint(max(0, k - 2), n)))
            cases.append(gens.decoder_case('big%d' % j, cfg, gens.random_order(rng, sub, 0.1), api=rng.choice(['stream', 'table']),
                                           cb=rng.choice(['none', 'none', 'buf', 'null', 'mix'])))
        # low-rate small-k sessions (extra entries in the matrix, even N1) and heavy columns
        cases += gens.lowrate_ldpc_cases(rng, 'lr', 300 if tier == 'quick' else 5000)
        cases += gens.dense_column_cases(rng, 'hc', 40 if tier == 'quick' else 500)
        cases += gens.after_finish_cases(rng, 'af', 150 if tier == 'quick' else 3000)
        return cases

    def extra_stats(self, cases, res):
        ml = 0; it_only = 0
        for c in cases:
            if c.meta['cfg'].kind != 'ldpc': continue
            comp = [kv(o).get('c') for l, o in zip(c.lines, c.impl) if l.startswith('complete')]
            if len(comp) >= 2 and comp[0] == '0' and comp[-1] == '1': ml += 1
            if comp and comp[0] == '1': it_only += 1
        res.cov['ldpc_cases_completed_by_ML'] = ml
        res.cov['ldpc_cases_completed_by_IT'] = it_only

_p = P()
def run(res, tier, seed, gen_errs): _p.run(res, tier, seed, gen_errs)
def replay(path): return _p.replay(path)
