"""C18 — dense GF(2) matrix operations and the ML linear solver agree with exact bit-matrix algebra."""
import random, json, itertools, re
import common, corr

MODULE = 'OpenFecVerif.Props.C18'
THEOREMS = ['Dense.C18_alloc', 'Dense.C18_get_set', 'Dense.C18_get_flip', 'Dense.C18_get_clear', 'Dense.C18_get_xorRows', 'Dense.C18_get_copy',
            'Dense.C18_get_copyrows', 'Dense.C18_rowIsEmpty_iff', 'Dense.C18_hweight32_naive', 'Dense.C18_hweight32', 'Dense.C18_popcount_3', 'Dense.C18_popcount64_words', 'Dense.C18_hw8table', 'Dense.C18_hweight32_table', 'Dense.C18_macro_getbit', 'Dense.C18_macro_index', 'Dense.C18_macro_setbit1', 'Dense.C18_macro_setbit0',
            'Dense.C18_macro_words_for', 'Dense.C18_weights', 'Dense.C18_row_weight_ignore_first', 'Dense.C18_get_copycols', 'Dense.C18_to_dense', 'Dense.C18_to_sparse', 'Dense.C18_conversion_roundtrip',
            'C03_success_is_rank_test', 'C03_solve_unique', 'C03_solve_sound', 'C03_solve_iff_full_rank']

RULE = ('dense matrices of 1..70 x 1..70 (all word-boundary cases 31/32/33/63/64/65) driven through every exported operation (get, set, flip, clear, copy, '
        'copyrows, copycols, xor_rows, row/column weight, row_is_empty, row_weight_ignore_first on whole words, sparse<->dense) with a full dump (raw words, bits, '
        'weights) after each mutating operation, compared with the word-level Lean model and an independent Python bit-matrix oracle; popcount helpers and the bit macros (every bit index) on '
        'boundary and random words vs the translated functions and bin(x).count; solver: every 0/1 system with p,q<=3 (p>=q) with every NULL pattern of the zero '
        'right-hand sides, sampled 4x3/4x4 and random systems up to 40x40 of every rank, consistent (planted solution) and inconsistent; '
        'non-trivial = distinct script')

def close(lines):
    s, d = set(), set()
    for l in lines:
        f = l.split()
        if f[0] == 'salloc': s.add(f[1])
        if f[0] == 'dalloc': d.add(f[1])
        if f[0] == 'sfree': s.discard(f[1])
        if f[0] == 'dfree': d.discard(f[1])
    return lines + ['sfree ' + x for x in sorted(s)] + ['dfree ' + x for x in sorted(d)]

def gf2_solve(rows, q):
    """independent Gauss-Jordan over GF(2) on (bitmask, rhs-int) rows: returns ('unique', x) / ('deficient',) / ('inconsistent',)"""
    rows = [list(r) for r in rows]
    piv = []; rk = 0
    for c in range(q):
        p = next((i for i in range(rk, len(rows)) if rows[i][0] >> c & 1), None)
        if p is None: continue
        rows[rk], rows[p] = rows[p], rows[rk]
        for i in range(len(rows)):
            if i != rk and rows[i][0] >> c & 1:
                rows[i][0] ^= rows[rk][0]; rows[i][1] ^= rows[rk][1]
        piv.append(c); rk += 1
    if rk < q: return ('deficient',)
    if any(r[0] == 0 and r[1] != 0 for r in rows): return ('inconsistent',)
    x = [0] * q
    for i, c in enumerate(piv): x[c] = rows[i][1]
    return ('unique', x)

def solver_oracle(line, out):
    f = line.split(); p, q, ln = int(f[1]), int(f[2]), int(f[3])
    sys_ = []
    if f[0] == 'solves':
        # sparse form: only the listed rows matter (a zero row with a NULL right-hand side constrains nothing)
        for ent in f[4].split(';'):
            if not ent: continue
            r_, bits, rh = ent.split(':')
            sys_.append((sum(1 << j for j, ch in enumerate(bits) if ch == '1'), 0 if rh == 'N' else int(rh, 16)))
        p = len(sys_)
    else:
        rows = f[4].split(';'); rhs = f[5].split(';')
        for i in range(p):
            mask = sum(1 << j for j, ch in enumerate(rows[i]) if ch == '1')
            sys_.append((mask, 0 if rhs[i] == 'N' else int(rhs[i], 16) if rhs[i] else 0))
    verdict = gf2_solve(sys_, q)
    if verdict[0] == 'deficient':
        if out != 'ok st=FAILURE': return ('c18:solver:deficient-not-failure', 'the matrix is not of full column rank but the solver answered %s' % out[:80])
    elif verdict[0] == 'unique':
        exp = 'ok st=OK x=' + ''.join('%0*x;' % (2 * ln, v) for v in verdict[1])
        if out != exp: return ('c18:solver:wrong-solution', 'full column rank, consistent system: solver answered %s, the unique solution is %s' % (out[:120], exp[:120]))
    else:
        if not out.startswith('ok st=OK'): return ('c18:solver:fullrank-failure', 'full column rank but the solver answered %s' % out[:80])
    return None

def solver_lines(rng, tier):
    lines = []
    def mk(p, q, A, x, ln, nullmask=None, inconsistent=False):
        rhs = []
        for i in range(p):
            v = 0
            for j in range(q):
                if A[i] >> j & 1: v ^= x[j]
            rhs.append(v)
        if inconsistent:
            i = rng.randrange(p); rhs[i] ^= rng.randrange(1, 256 ** ln)
        zero_rows = [i for i in range(p) if rhs[i] == 0]
        toks = []
        for i in range(p):
            isnull = (rhs[i] == 0) and (nullmask is None and rng.random() < 0.6 or nullmask is not None and (nullmask >> zero_rows.index(i)) & 1)
            toks.append('N' if isnull else '%0*x' % (2 * ln, rhs[i]))
        return 'solve %d %d %d %s %s' % (p, q, ln, ';'.join(''.join('1' if A[i] >> j & 1 else '0' for j in range(q)) for i in range(p)), ';'.join(toks)), len(zero_rows)
    # exhaustive small systems; the planted solution has many zero symbols so that zero right-hand sides are frequent
    for q in (1, 2, 3):
        for p in range(q, 4):
            for bits in range(1 << (p * q)):
                A = [(bits >> (i * q)) & ((1 << q) - 1) for i in range(p)]
                for x in ([0] * q, [1] * q, [rng.randrange(2) * rng.randrange(1, 256) for _ in range(q)]):
                    l, nz = mk(p, q, A, x, 1, nullmask=0)
                    for nm in range(1 << nz):
                        lines.append(mk(p, q, A, x, 1, nullmask=nm)[0])
    nsmall = len(lines)
    for _ in range(600 if tier == 'quick' else 20000):
        p, q = rng.choice([(4, 3), (4, 4), (5, 4), (5, 3), (6, 5)])
        A = [rng.randrange(1 << q) for _ in range(p)]
        x = [rng.randrange(2) * rng.randrange(256) for _ in range(q)]
        lines.append(mk(p, q, A, x, 1, inconsistent=rng.random() < 0.15)[0])
    for _ in range(300 if tier == 'quick' else 5000):
        q = rng.randint(1, 40); p = q + rng.choice([0, 0, 1, 2, 5, 10])
        dens = rng.choice([0.1, 0.3, 0.5])
        # planted rank: build from an invertible-ish random matrix, sometimes duplicate / zero columns
        A = [sum(1 << j for j in range(q) if rng.random() < dens) for _ in range(p)]
        mode = rng.random()
        if mode < 0.4:      # make it full rank by adding an identity part on the first q rows (then shuffle rows)
            A = [A[i] | (1 << i) if i < q else A[i] for i in range(p)]
            for i in range(q):  # lower-triangular => full rank
                A[i] &= (1 << (i + 1)) - 1
            rng.shuffle(A)
        elif mode < 0.55 and q >= 2:   # duplicate a column
            a, b = rng.sample(range(q), 2)
            A = [(r & ~(1 << b)) | (((r >> a) & 1) << b) for r in A]
        ln = rng.choice([1, 2, 5, 16])
        x = [rng.randrange(2) * rng.randrange(256 ** ln) for _ in range(q)]
        lines.append(mk(p, q, A, x, ln, inconsistent=(p > q and rng.random() < 0.1))[0])
    # tall systems (more rows than a 16-bit index holds), given sparsely: a random invertible lower x upper block placed at a random
    # height, some of them above row 65536, the other rows zero; plus a rank-deficient one
    for t in range(4 if tier == 'quick' else 40):
        q = rng.randint(8, 40); ln = rng.choice([1, 4])
        p = rng.choice([66000, 70000, 131100]) if t % 2 == 0 else rng.choice([300, 5000, 65535, 65536, 65537])
        first = rng.choice([0, p - q, max(0, min(p - q, 65536 - q // 2)), max(0, min(p - q, 65540))]) if t % 4 else max(0, min(p - q, 65536 + rng.randint(0, 300)))
        L = [(1 << i) | (rng.getrandbits(i) if i else 0) for i in range(q)]               # unit lower triangular
        U = [(1 << i) | (rng.getrandbits(q - i - 1) << (i + 1) if i < q - 1 else 0) for i in range(q)]   # unit upper triangular
        A = []
        for i in range(q):
            row = 0
            for j in range(q):
                if L[i] >> j & 1: row ^= U[j]
            A.append(row)
        if t % 5 == 4: A[rng.randrange(q)] = A[rng.randrange(q)]      # (possibly) rank deficient
        x = [rng.randrange(256 ** ln) for _ in range(q)]
        ents = []
        for i in range(q):
            v = 0
            for j in range(q):
                if A[i] >> j & 1: v ^= x[j]
            ents.append('%d:%s:%0*x' % (first + i, ''.join('1' if A[i] >> j & 1 else '0' for j in range(q)), 2 * ln, v))
        # a few extra rows elsewhere that repeat rows of the block (consistent, redundant)
        for e in range(rng.randint(0, 3)):
            r_ = rng.randrange(p)
            if not (first <= r_ < first + q):
                i = rng.randrange(q); ents.append('%d:%s' % (r_, ents[i].split(':', 1)[1]))
        lines.append('solves %d %d %d %s' % (p, q, ln, ';'.join(ents)))
    return lines, nsmall

def dense_oracle(lines, outs):
    D = {}; dim = {}; S = {}; sdim = {}
    for idx, (l, o) in enumerate(zip(lines, outs)):
        f = l.split(); op = f[0]
        if op == 'case': continue
        if not o.startswith('ok'): return ('c18:harness-rejected:' + op, 'harness answered %r to %r' % (o, l), idx)
        a = int(f[1])
        if op == 'dalloc':
            nr, nc = int(f[2]), int(f[3]); D[a] = [[0] * nc for _ in range(nr)]; dim[a] = (nr, nc)
        elif op == 'salloc': S[a] = set(); sdim[a] = (int(f[2]), int(f[3]))
        elif op == 'sins':
            if int(f[2]) < sdim[a][0] and int(f[3]) < sdim[a][1]: S[a].add((int(f[2]), int(f[3])))
        elif op == 'dfree': del D[a]
        elif op == 'sfree': del S[a]
        elif op == 'dclear': D[a] = [[0] * dim[a][1] for _ in range(dim[a][0])]
        elif op == 'dset':
            r, c, v = int(f[2]), int(f[3]), int(f[4])
            inr = r < dim[a][0] and c < dim[a][1]
            if o != ('ok r=0' if inr else 'ok r=-1'): return ('c18:set-status', 'set(%d,%d) answered %s' % (r, c, o), idx)
            if inr: D[a][r][c] = 1 if v else 0
        elif op == 'dflip':
            r, c = int(f[2]), int(f[3])
            inr = r < dim[a][0] and c < dim[a][1]
            if inr: D[a][r][c] ^= 1
            exp = 'ok r=%d' % (D[a][r][c] if inr else -1)
            if o != exp: return ('c18:flip', 'flip(%d,%d) answered %s, expected %s' % (r, c, o, exp), idx)
        elif op == 'dget':
            r, c = int(f[2]), int(f[3])
            if o != 'ok v=%d' % D[a][r][c]: return ('c18:get', 'get(%d,%d) answered %s, the bit matrix has %d' % (r, c, o, D[a][r][c]), idx)
        elif op == 'dxor':
            fr, to = int(f[2]), int(f[3])
            D[a][to] = [x ^ y for x, y in zip(D[a][to], D[a][fr])]
        elif op == 'dcopy':
            b = int(f[2])
            if dim[a][0] <= dim[b][0] and dim[a][1] <= dim[b][1]:
                D[b] = [[D[a][i][j] if i < dim[a][0] and j < dim[a][1] else 0 for j in range(dim[b][1])] for i in range(dim[b][0])]
        elif op == 'dcopyrows':
            b = int(f[2]); lst = [int(x) for x in f[3].split(',')]
            if dim[a][1] <= dim[b][1]:
                D[b] = [[D[a][lst[i]][j] if j < dim[a][1] else 0 for j in range(dim[b][1])] for i in range(dim[b][0])]
        elif op == 'dcopycols':
            b = int(f[2]); lst = [int(x) for x in f[3].split(',')]
            if dim[a][0] <= dim[b][0]:
                for j in range(dim[b][1]):
                    for i in range(dim[a][0]): D[b][i][j] = D[a][i][lst[j]]
        elif op == 's2d':
            b = int(f[2])
            if sdim[a][0] <= dim[b][0] and sdim[a][1] <= dim[b][1]:
                D[b] = [[1 if (i, j) in S[a] else 0 for j in range(dim[b][1])] for i in range(dim[b][0])]
        elif op == 'd2s':
            b = int(f[2])
            if dim[a][0] <= sdim[b][0] and dim[a][1] <= sdim[b][1]:
                S[b] = set((i, j) for i in range(dim[a][0]) for j in range(dim[a][1]) if D[a][i][j])
        elif op == 'sdump':
            kv = dict(t.split('=', 1) for t in o.split()[1:])
            got = set((i, int(x)) for i, t in enumerate(kv['rows'].split(';')[:-1]) if t for x in t.split(','))
            if got != S[a]: return ('c18:to-sparse', 'dense-to-sparse conversion produced %s, expected %s' % (sorted(got)[:12], sorted(S[a])[:12]), idx)
        elif op == 'ddump':
            kv = dict(t.split('=', 1) for t in o.split()[1:])
            nr, nc = dim[a]; M = D[a]
            bits = kv['bits'].split(';')[:-1]
            exp = [''.join(str(x) for x in M[i]) for i in range(nr)]
            if bits != exp:
                i = next(i for i in range(nr) if i >= len(bits) or bits[i] != exp[i])
                return ('c18:bits', 'row %d reads %s, the bit matrix has %s' % (i, bits[i] if i < len(bits) else None, exp[i]), idx)
            if kv['rw'] != ','.join(str(sum(r)) for r in M): return ('c18:row-weight', 'row weights %s, expected %s' % (kv['rw'], [sum(r) for r in M]), idx)
            if kv['cw'] != ','.join(str(sum(M[i][j] for i in range(nr))) for j in range(nc)): return ('c18:col-weight', 'column weights %s disagree with the bit matrix' % kv['cw'], idx)
            if kv['empty'] != ''.join('1' if sum(r) == 0 else '0' for r in M): return ('c18:row-is-empty', 'row_is_empty %s disagrees with the bit matrix' % kv['empty'], idx)
            rwi = kv['rwi'].split(';')[:-1]
            for i in range(nr):
                e = ','.join(str(sum(M[i][nb:])) for nb in range(0, nc, 32))
                if rwi[i] != e: return ('c18:row-weight-ignore-first', 'row %d: weights ignoring the first 0,32,.. columns %s, expected %s' % (i, rwi[i], e), idx)
    return None

BOUND = [1, 2, 31, 32, 33, 63, 64, 65, 70]

def dense_case(rng, name):
    def d(): return rng.choice(BOUND) if rng.random() < 0.6 else rng.randint(1, 70)
    dims = [(rng.randint(1, 9) if rng.random() < 0.7 else d(), d()) for _ in range(3)]
    if rng.random() < 0.5: dims[1] = (dims[0][0] + rng.randint(0, 3), dims[0][1] + rng.choice([0, 0, 1, 31, 32, 33]))
    if rng.random() < 0.3: dims[2] = dims[0]
    body = ['dalloc %d %d %d' % (i, r, c) for i, (r, c) in enumerate(dims)]
    body.append('salloc 5 %d %d' % dims[0])
    for _ in range(rng.randint(8, 40)):
        a = rng.randrange(3); nr, nc = dims[a]
        x = rng.random()
        if x < 0.35:
            for _ in range(rng.randint(1, 8)):
                c = rng.choice([0, nc - 1, 31 % nc, 32 % nc, rng.randrange(nc)])
                body.append('dset %d %d %d %d' % (a, rng.randrange(nr), c, rng.choice([1, 1, 1, 0, 7])))
            if rng.random() < 0.1: body.append('dset %d %d %d 1' % (a, nr, 0))
            if rng.random() < 0.1: body.append('dset %d %d %d 1' % (a, 0, nc))
        elif x < 0.45:
            body.append('dflip %d %d %d' % (a, rng.randrange(nr + (rng.random() < 0.05)), rng.randrange(nc)))
        elif x < 0.50:
            body.append('dget %d %d %d' % (a, rng.randrange(nr), rng.randrange(nc))); continue
        elif x < 0.53: body.append('dclear %d' % a)
        elif x < 0.62:
            body.append('dxor %d %d %d' % (a, rng.randrange(nr), rng.randrange(nr)))
        elif x < 0.72:
            b = rng.randrange(3)
            if b == a: continue
            body.append('dcopy %d %d' % (a, b)); a = b
        elif x < 0.82:
            b = rng.randrange(3)
            if b == a: continue
            body.append('dcopyrows %d %d %s' % (a, b, ','.join(str(rng.randrange(nr)) for _ in range(dims[b][0])))); a = b
        elif x < 0.92:
            b = rng.randrange(3)
            if b == a: continue
            body.append('dcopycols %d %d %s' % (a, b, ','.join(str(rng.randrange(nc)) for _ in range(dims[b][1])))); a = b
        elif x < 0.96:
            if a != 0: continue
            body += ['d2s 0 5', 'sdump 5']; continue
        else:
            if a != 0: continue
            for _ in range(rng.randint(1, 6)): body.append('sins 5 %d %d' % (rng.randrange(nr), rng.randrange(nc)))
            body.append('s2d 5 0')
        body.append('ddump %d' % a)
    body += ['ddump 0', 'ddump 1', 'ddump 2', 'dfree 0', 'dfree 1', 'dfree 2', 'sfree 5']
    return corr.mk(name, body)

def popcount_check(res, rng, tier):
    exe = common.build_harness('scalardrv', link_lib=False)
    xs = [0, 1, 2, 3, 0xF0, 0xFF, 0x100, 0x8000, 0xFFFF, 0x10000, 0x80000000, 0xFFFFFFFF, 0x100000000, 0xFFFFFFFFFFFFFFFF, 0x8000000000000000,
          0x5555555555555555, 0xAAAAAAAAAAAAAAAA, 0x0F0F0F0F0F0F0F0F, 0x00FF00FF00FF00FF]
    xs += [1 << i for i in range(64)] + [(1 << i) - 1 for i in range(1, 65)]
    xs += [rng.getrandbits(64) for _ in range(3000 if tier == 'quick' else 200000)]
    xs += [rng.getrandbits(64) & rng.getrandbits(64) & rng.getrandbits(64) for _ in range(500)]
    lines = ['popcnt %d' % x for x in xs]
    rc, outs, err = common.run_harness(exe, lines)
    if rc != 0 or len(outs) != len(lines):
        res.violation('c18:abort:popcount', 'popcount helpers aborted: %s' % (common.sanitizer_summary(err) or err[-200:]), replay={'script': lines[len(outs):len(outs) + 1]})
        return 0
    mouts = None
    try: mouts = common.run_model(lines)
    except Exception as e: res.notes.append('model driver failed on popcount lines: %s' % e)
    for i, (x, o) in enumerate(zip(xs, outs)):
        kv = dict(t.split('=') for t in o.split()[1:])
        e64 = bin(x).count('1'); e32 = bin(x & 0xFFFFFFFF).count('1')
        for key, exp, fn in (('p3', e64, 'of_popcount_3'), ('h32', e32, 'of_hweight32'), ('naive', e32, 'of_hweight32_naive'), ('tab', e32, 'of_hweight32_table')):
            if int(kv[key]) != exp:
                res.violation('c18:popcount:' + fn, '%s(0x%x) = %s, the number of one bits is %d' % (fn, x if key == 'p3' else x & 0xFFFFFFFF, kv[key], exp),
                              replay={'script': [lines[i]], 'impl_output': o, 'expected': exp})
                return len(xs)
        if mouts is not None:
            mo = mouts[i]
            if ' '.join(o.split()[:4]) != mo and not res.violations:
                res.violation('c18:corr:popcount', 'translated popcount helpers and compiled ones differ on %s: impl %s model %s' % (lines[i], o, mo),
                              replay={'broken': 'correspondence popcount', 'script': [lines[i]]}, no_input=True)
                return len(xs)
    return len(xs)

def macro_check(res, rng, tier):
    """the bit macros as compiled by gcc vs their translation (Gen.vm_*) vs the plain definition: validates the translator's treatment of
    signed shifts and bitwise operations on the operands that matter (every bit index, including 31)"""
    exe = common.build_harness('scalardrv', link_lib=False)
    ws = [0, 1, 2, 0x7FFFFFFF, 0x80000000, 0xFFFFFFFF, 0xAAAAAAAA, 0x55555555, 0x0000FFFF, 0xFFFF0000] + [rng.getrandbits(32) for _ in range(60 if tier == 'quick' else 2000)]
    idx = list(range(0, 70)) + [95, 96, 97, 1023, 1024, 65535, 2 ** 31 - 1]
    lines = ['macro %d %d' % (w, i) for w in ws for i in idx]
    rc, outs, err = common.run_harness(exe, lines)
    if rc != 0 or len(outs) != len(lines):
        res.violation('c18:abort:macro', 'macro evaluation aborted: %s' % (common.sanitizer_summary(err) or err[-200:]), replay={'script': lines[len(outs):len(outs) + 1]})
        return 0
    mouts = None
    try: mouts = common.run_model(lines)
    except Exception as e: res.notes.append('model driver failed on macro lines: %s' % e)
    for k, (l, o) in enumerate(zip(lines, outs)):
        f = l.split(); w, i = int(f[1]), int(f[2]); b = i & 31
        exp = 'ok get=%d set1=%d set0=%d wi=%d bi=%d nw=%d' % ((w >> b) & 1, w | (1 << b), w & ~(1 << b) & 0xFFFFFFFF, i >> 5, i & 31, ((i + 31) & 0xFFFFFFFF) >> 5)
        if o != exp:
            res.violation('c18:macro', 'bit macros on w=0x%x index %d give %s, the definition gives %s' % (w, i, o, exp), replay={'script': [l], 'impl_output': o, 'expected': exp})
            return len(lines)
        if mouts is not None and mouts[k] != o and not res.violations:
            res.violation('c18:corr:macro', 'translated macros and compiled ones differ on %s: impl %s model %s' % (l, o, mouts[k]),
                          replay={'broken': 'correspondence macros (translator)', 'script': [l]}, no_input=True)
            return len(lines)
    return len(lines)

def run(res, tier, seed, gen_errs):
    rng = random.Random(seed)
    res.rule = RULE
    ok, log = common.check_lean(res, MODULE, THEOREMS)
    npop = popcount_check(res, rng, tier)
    res.cov['macro_inputs'] = macro_check(res, rng, tier)
    cases = [dense_case(rng, 'd%d' % i) for i in range(500 if tier == 'quick' else 8000)]
    slines, nsmall = solver_lines(rng, tier)
    scases = [corr.mk('s%d' % i, slines[i:i + 200]) for i in range(0, len(slines), 200)]
    corr.run(cases + scases, harness='matdrv')
    res.evaluations = len(cases) + len(slines) + npop
    res.cov['dense_cases'] = len(cases); res.cov['solver_systems'] = len(slines); res.cov['solver_exhaustive_small'] = nsmall
    res.cov['popcount_inputs'] = npop
    res.cov['lines_compared'] = sum(len(c.lines) for c in cases + scases)
    stat = {'OK': 0, 'FAILURE': 0, 'null_rhs_systems': 0}
    for c in scases:
        for l, o in zip(c.lines[1:], c.impl[1:]):
            stat['OK' if 'st=OK' in o else 'FAILURE'] += 1
            if ';N' in l or ' N' in l: stat['null_rhs_systems'] += 1
    res.cov['solver_outcomes'] = stat
    res.sample({'case': cases[0].name, 'script': cases[0].lines[:10], 'impl': [x[:140] for x in cases[0].impl[:10]]})
    res.sample({'solver': scases[-1].lines[1][:200], 'impl': scases[-1].impl[1][:120] if len(scases[-1].impl) > 1 else None})
    nviol = 0; broken = []
    for c in cases + scases:
        if nviol >= 5: break
        if c.abort:
            a = c.abort; idx = a.get('line_index')
            kind = (re.search(r'AddressSanitizer: ([\w-]+)', a.get('summary') or '') or re.search(r'(runtime error: [\w ]{0,40})', a.get('summary') or '') or
                    [None, 'leak' if 'Leak' in (a.get('summary') or '') else 'crash'])[1]
            opn = (a.get('at_line') or 'exit').split()[0]
            script = ([a['at_line']] if opn == 'solve' else close(c.lines[:idx + 1])) if idx is not None else c.lines
            res.violation('c18:abort:%s:%s' % (opn, kind.replace(' ', '-')), 'the library aborted under the sanitizers (%s) at %r' % (a.get('summary'), (a.get('at_line') or '')[:200]),
                          replay={'script': script, 'abort': a.get('summary'), 'stderr_tail': (a.get('stderr') or '')[-1200:]})
            nviol += 1; continue
        if c.name.startswith('s'):
            bad = None
            for i, (l, o) in enumerate(zip(c.lines, c.impl)):
                if l.startswith('solve'):
                    r = solver_oracle(l, o)
                    if r: bad = (r[0], r[1], i); break
                    res.nontrivial.add(l)
            if bad:
                res.violation(bad[0], bad[1] + ' on %r' % c.lines[bad[2]][:300], replay={'script': [c.lines[bad[2]]], 'impl_output': c.impl[bad[2]][:2000]}); nviol += 1; continue
        else:
            bad = dense_oracle(c.lines, c.impl)
            if bad:
                sig, what, idx = bad
                res.violation(sig, what + ' (case %s, line %r)' % (c.name, c.lines[idx]), replay={'script': close(c.lines[:idx + 1]), 'impl_output': c.impl[idx][:3000]})
                nviol += 1; continue
            res.nontrivial.add(tuple(c.lines[1:]))
        if c.diff: broken.append(c)
    res.cov['correspondence_mismatches'] = len(broken)
    if broken and not res.violations:
        c = broken[0]; d = c.diff
        res.violation('c18:corr:' + d['line'].split()[0], 'model and implementation differ at %r (impl %r, model %r) in %d case(s); the bit-matrix/solver oracle found no failing input'
                      % (d['line'][:200], d['impl'][:200], d['model'][:200], len(broken)),
                      replay={'broken': 'correspondence stream of C18 (matdrv vs ofmodel)', 'script': close(c.lines[:d['index'] + 1]) if not d['line'].startswith('solve') else [d['line']],
                              'impl': d['impl'], 'model': d['model']}, no_input=True)
    if corr.model_error and not res.violations:
        res.violation('c18:model-broken', 'the executable model no longer builds/runs: %s' % corr.model_error[:400], replay={'broken': 'ofmodel', 'error': corr.model_error}, no_input=True)
    if not ok and not res.violations:
        res.violation('c18:proof', 'theorems of %s no longer check: %s' % (MODULE, '; '.join(common.first_errors(log)) or log[-300:]),
                      replay={'broken': MODULE, 'errors': common.first_errors(log)}, no_input=True)
    if tier == 'thorough' and ok:
        common.leancheck(res, MODULE)

def replay(path):
    r = json.load(open(path)); script = (r.get('replay') or {}).get('script')
    if not script: print('replay names a broken obligation:', json.dumps(r.get('replay'))[:500]); return 1
    if script[0].startswith('popcnt'):
        exe = common.build_harness('scalardrv', link_lib=False)
        rc, outs, err = common.run_harness(exe, script); print(script[0], '->', outs, 'expected', bin(int(script[0].split()[1])).count('1')); return 1
    if not script[0].startswith('case'): script = ['case replay'] + script
    c = corr.CaseResult('replay', script)
    corr.run([c], harness='matdrv')
    rc = 0
    for i, l in enumerate(c.lines):
        a = c.impl[i] if i < len(c.impl) else '<no output>'; b = c.model[i] if i < len(c.model) else ''
        print('%-40s impl: %s%s' % (l[:40], a[:150], '' if a == b else '\n' + ' ' * 40 + ' model: ' + b[:150]))
        if l.startswith('solve') and i < len(c.impl):
            v = solver_oracle(l, a); print('   oracle:', v or 'holds'); rc |= bool(v)
    if c.abort: print('ABORT:', c.abort.get('summary')); return 1
    if not any(l.startswith('solve') for l in c.lines):
        bad = dense_oracle(c.lines, c.impl); print('oracle:', bad or 'holds'); rc |= bool(bad)
    return 1 if rc or c.diff else 0
