"""C15 — the 'last repair symbol is null' claim of LDPC-Staircase is truthful."""
import common, corr, gens
from props.api_common import StreamProperty, kv, case_codeword
from props import pyref

class P(StreamProperty):
    pid = 'C15'
    module = 'OpenFecVerif.Props.C15'
    theorems = ['C15_flag_def', 'C15_same_for_both_roles', 'C15_sum_of_equations', 'C15_truthful', 'C15_lastNullCheck_every_configuration',
                'C15_truthful_every_configuration']
    rule = ('encoder and decoder sessions with equal parameters over the LDPC grid restricted to even N1 (plus odd N1 as the negative class, plus configurations with N1 > n-k, which must be refused but are held to the same oracle if a session comes up), identity and random payloads: '
            'the flag reported by both roles, and the last repair symbol of the real encoder; oracle: flag true => last repair symbol all zeros, flags of both roles equal; '
            'non-trivial = distinct (k,r,N1,seed,payload) with the flag true')

    def project(self, line, out):
        op = line.split()[0]
        if op in ('ctrl', 'cwdump', 'build'):
            return 'bad-op' if out.startswith('bad-op') else out     # (the harness adds its reason after `bad-op`)
        return 'x'

    def is_nontrivial(self, c):
        return c.meta.get('flag') == 1

    def oracle(self, c):
        # the property speaks of configured sessions: a session whose parameters were refused has no flag to be held to
        okp = {l.split()[1] for l, o in zip(c.lines, c.impl) if l.startswith('params') and kv(o).get('st') == 'OK'}
        flags = [(i, kv(o)) for i, (l, o) in enumerate(zip(c.lines, c.impl)) if l.startswith('ctrl') and l.endswith('lastnull') and l.split()[1] in okp]
        cw = case_codeword(c)
        c.meta['configured'] = bool(flags)
        if len(flags) >= 2 and flags[0][1].get('v') != flags[1][1].get('v'):
            return [('c15:roles-differ', 'encoder reports last-symbol-null=%s, decoder %s' % (flags[0][1].get('v'), flags[1][1].get('v')), flags[1][0])]
        if flags:
            c.meta['flag'] = int(flags[0][1].get('v', '0'))
        if flags and flags[0][1].get('v') == '1' and cw:
            if int(cw[-1] or '0', 16) != 0:
                return [('c15:not-null', 'the flag is true but the last repair symbol is %s' % cw[-1][:40], flags[0][0])]
        return []

    def cases(self, rng, tier):
        cases = []; i = 0
        ks = [1, 2, 3, 4, 5, 6, 7, 8, 9, 12, 17, 31, 64] + ([200] if tier == 'quick' else [200, 1000, 5000])
        for k in ks:
            for r in [1, 3, 4, 5, 6, 7, 8, 12, 20, 50] + ([k] if k > 50 else []):
                for N1 in (4, 6, 8, 3, 5):
                    # N1 > n-k is outside the limits and must be refused (C09); should a session be configured all the same, what it
                    # reports still has to be true, so these configurations are sent too (a third of them when refused as expected)
                    if N1 > r and (k > 12 or (k + r + N1) % 3): continue
                    for rep in range(2 if tier == 'quick' else 6):
                        sd = rng.randint(1, 2 ** 31 - 2)
                        cfg = gens.Cfg('ldpc', k, r, N1=N1, seed=sd, payload='id' if rep % 2 == 0 else 'rand', pseed=i)
                        if cfg.payload == 'rand': cfg.len = rng.choice([1, 4, 9, 16])
                        b = ['new 0 3 1', cfg.params_line(0), 'ctrl 0 lastnull', cfg.payload_line(0), 'cwdump 0']
                        b += ['build 0 %d own' % e for e in range(cfg.k, cfg.n)]
                        b += ['release 0', 'new 1 3 2', cfg.params_line(1), 'ctrl 1 lastnull', 'release 1']
                        c = corr.mk('f%d' % i, b); c.meta = {'cfg': cfg}; cases.append(c); i += 1
        return cases

    def extra_stats(self, cases, res):
        # hypotheses of C15_truthful (staircase shape, column weights) evaluated by the model on every matrix whose flag is true
        lines = []; keys = []
        seen = set()
        for c in cases:
            cfg = c.meta['cfg']
            key = (cfg.k, cfg.n, cfg.N1, cfg.seed)
            if c.meta.get('flag') == 1 and c.meta.get('configured') and cfg.N1 <= cfg.r and key not in seen:
                seen.add(key)
                H, _ = pyref.rfc5170(cfg.k, cfg.n, cfg.N1, cfg.seed)
                lines.append('colcheck %d %d %s' % (cfg.k, cfg.n, ''.join(','.join(str(e) for e in sorted(r)) + ';' for r in H)))
                keys.append(key)
        outs = common.run_model(lines) if lines else []
        bad = [keys[i] for i, o in enumerate(outs) if o != 'ok stair=1 lastnull=1']
        res.cov['flag_true_matrices_hypotheses_checked'] = len(keys)
        if bad:
            res.violation('c15:hypothesis', 'the flag is true for %s but the column-weight / staircase hypothesis of C15_truthful does not hold' % (bad[0],),
                          replay={'broken': 'hypotheses of C15_truthful', 'config': list(bad[0])}, no_input=True)
        res.cov['cases_flag_true'] = sum(1 for c in cases if c.meta.get('flag') == 1)
        res.cov['cases_even_N1_flag_false'] = sum(1 for c in cases if c.meta.get('flag') == 0 and c.meta['cfg'].N1 % 2 == 0)

_p = P()
def run(res, tier, seed, gen_errs): _p.run(res, tier, seed, gen_errs)
def replay(path): return _p.replay(path)
