"""Shared machinery of the checks: regeneration of Gen/, lake builds under a lock, axiom audit,
sanitizer builds of the real library and harnesses, the model driver, evidence and known findings."""
import os, sys, subprocess, json, hashlib, time, fcntl, re, shutil, tempfile, random

BIN = os.path.dirname(os.path.abspath(__file__))
VERIF = os.path.dirname(BIN)
LEAN = os.path.join(VERIF, 'lean')
HARNESS = os.path.join(VERIF, 'harness')
CACHE = os.path.join(VERIF, '.cache')
EVID = os.path.join(VERIF, 'evidence')
REPLAYS = os.path.join(VERIF, 'replays')
sys.path.insert(0, os.path.join(VERIF, 'tools'))

def repo():
    return os.environ.get('OPENFEC_REPO', '/repo')

ALLOWED_AXIOMS = {'propext', 'Classical.choice', 'Quot.sound'}

TRUSTED_BASE = [
    'Lean 4.33.0 kernel; Mathlib v4.33.0 as compiled under /opt/veriftools',
    'axioms: propext, Classical.choice, Quot.sound only (audited by #print axioms on every run); finite-table theorems use decide +kernel (kernel evaluation, no axiom)',
    'translator tools/c2lean.py + clang-14 AST (for Gen/*.lean) and tabdump.c + gcc (for table dumps)',
    'binary64 standard model RN53 as a description of x86-64 SSE2 double arithmetic; exactness of ceil/floor/fabs',
    'correspondence machinery: C harnesses, gcc 12 ASan/UBSan runtimes, compiled ofmodel (Lean compiler, not kernel), Python diff',
]

class Lock:
    def __init__(self, name):
        os.makedirs(CACHE, exist_ok=True)
        self.path = os.path.join(CACHE, name + '.lock')
    def __enter__(self):
        self.f = open(self.path, 'w')
        fcntl.flock(self.f, fcntl.LOCK_EX)
        return self
    def __exit__(self, *a):
        fcntl.flock(self.f, fcntl.LOCK_UN)
        self.f.close()

def sh(cmd, **kw):
    return subprocess.run(cmd, capture_output=True, text=True, **kw)

# ---------------------------------------------------------------- Lean side

def regen():
    """Regenerate Gen/*.lean from the repository; returns {part: error}."""
    import gen
    with Lock('lake'):
        ensure_build_config()
        return gen.main()

def lake_build(targets, timeout=3000):
    """Build module targets (e.g. 'OpenFecVerif.Props.C19') and/or 'ofmodel'. Returns (ok, log)."""
    args = []
    for t in targets:
        args.append(t if t == 'ofmodel' else '+' + t if False else t)
    with Lock('lake'):
        p = sh(['lake', 'build'] + args, cwd=LEAN, timeout=timeout)
    return p.returncode == 0, p.stdout + p.stderr

def failed_modules(log):
    """names of modules whose build failed, from lake's log"""
    mods = []
    for m in re.finditer(r'^- (OpenFecVerif[\w.]*|Main)\s*$', log, re.M):
        mods.append(m.group(1))
    return mods

def first_errors(log, n=6):
    out = []
    for line in log.splitlines():
        if line.startswith('error:'):
            out.append(line[:400])
        if len(out) >= n:
            break
    return out

def audit_axioms(module, theorems):
    """#print axioms for each theorem of `module`; returns (ok, {thm: [axioms]}, raw)"""
    src = 'import %s\n' % module + ''.join('#print axioms %s\n' % t for t in theorems)
    os.makedirs(CACHE, exist_ok=True)
    path = os.path.join(CACHE, 'axioms_%s_%d.lean' % (module.replace('.', '_'), os.getpid()))
    with open(path, 'w') as f:
        f.write(src)
    try:
        p = sh(['lake', 'env', 'lean', path], cwd=LEAN, timeout=900)
    finally:
        try: os.remove(path)
        except OSError: pass
    res = {}
    txt = p.stdout + p.stderr
    for m in re.finditer(r"'([\w.']+)' depends on axioms: \[([^\]]*)\]", txt):
        res[m.group(1)] = [a.strip() for a in m.group(2).split(',') if a.strip()]
    for m in re.finditer(r"'([\w.']+)' does not depend on any axioms", txt):
        res[m.group(1)] = []
    ok = p.returncode == 0
    for t in theorems:
        if t not in res:
            ok = False
        elif any(a not in ALLOWED_AXIOMS for a in res[t]):
            ok = False
    return ok, res, txt

FORBIDDEN = re.compile(r'\bsorry\b|\badmit\b|^\s*axiom\s|native_decide|bv_decide|implemented_by|\bunsafe\s|maxHeartbeats\s+0')

def strip_comments(s):
    # remove nested /- -/ block comments and -- line comments
    out = []; i = 0; depth = 0; n = len(s)
    while i < n:
        if s.startswith('/-', i):
            depth += 1; i += 2; continue
        if depth > 0 and s.startswith('-/', i):
            depth -= 1; i += 2; continue
        if depth == 0 and s.startswith('--', i):
            j = s.find('\n', i)
            i = n if j < 0 else j
            continue
        if depth == 0:
            out.append(s[i])
        elif s[i] == '\n':
            out.append('\n')
        i += 1
    return ''.join(out)

def grep_forbidden():
    """scan the Lean project (outside comments and string literals of generated tables) for forbidden constructs"""
    hits = []
    root = os.path.join(LEAN, 'OpenFecVerif')
    files = [os.path.join(LEAN, 'Main.lean')]
    for d, _, fs in os.walk(root):
        for f in fs:
            if f.endswith('.lean'):
                files.append(os.path.join(d, f))
    for path in files:
        if os.path.basename(path).startswith('Tab_'):
            continue
        try:
            txt = strip_comments(open(path).read())
        except OSError:
            continue
        for ln, line in enumerate(txt.splitlines(), 1):
            if FORBIDDEN.search(line):
                hits.append('%s:%d: %s' % (os.path.relpath(path, VERIF), ln, line.strip()[:120]))
    return hits

_model_built = False
def model_exe():
    global _model_built
    exe = os.path.join(LEAN, '.lake', 'build', 'bin', 'ofmodel')
    if not _model_built:
        ok, log = lake_build(['ofmodel'])
        if not ok:
            raise RuntimeError('ofmodel does not build:\n' + '\n'.join(first_errors(log)) + log[-1500:])
        _model_built = True
    return exe

def run_model(lines, timeout=21600):   # (the exact-rational model is slow on the largest thorough-tier matrices; a loaded machine must not turn that into an alarm)
    p = subprocess.run([model_exe()], input='\n'.join(lines) + '\n', capture_output=True, text=True, timeout=timeout)
    if p.returncode != 0:
        raise RuntimeError('ofmodel exited %d: %s' % (p.returncode, p.stderr[-500:]))
    return p.stdout.splitlines()

# ---------------------------------------------------------------- C side

SAN_FLAGS = ['-O1', '-g', '-w', '-fsanitize=address,undefined', '-fno-sanitize=alignment,shift',
             '-fno-sanitize-recover=all', '-fno-omit-frame-pointer', '-DOPENFEC_LITTLE_ENDIAN']
NOSAN_FLAGS = ['-O2', '-g', '-w', '-DOPENFEC_LITTLE_ENDIAN']

def ensure_build_config():
    """src/lib_common/of_build_config.h is produced by the project's cmake configure step (configure_file writes it into
    the source directory; git ignores it).  A tree that was never configured lacks it: produce it the same way, with the
    project's default options (the four stable codecs on, LDPC-from-file and SSE off)."""
    dst = os.path.join(repo(), 'src', 'lib_common', 'of_build_config.h')
    if os.path.exists(dst):
        return
    src = dst + '.in'
    on = {'OF_USE_REED_SOLOMON_CODEC', 'OF_USE_REED_SOLOMON_2_M_CODEC', 'OF_USE_LDPC_STAIRCASE_CODEC', 'OF_USE_2D_PARITY_MATRIX_CODEC'}
    out = []
    for line in open(src):
        m = re.match(r'#cmakedefine\s+(\w+)', line)
        if m:
            out.append('#define %s\n' % m.group(1) if m.group(1) in on else '/* #undef %s */\n' % m.group(1))
        else:
            out.append(line)
    with open(dst, 'w') as f:
        f.write(''.join(out))

def lib_sources():
    src = os.path.join(repo(), 'src')
    out = []
    for d, _, fs in os.walk(src):
        if 'lib_advanced' in d:
            continue
        for f in sorted(fs):
            if f.endswith('.c'):
                out.append(os.path.join(d, f))
    return sorted(out)

def tree_hash(extra=()):
    h = hashlib.sha256()
    roots = [os.path.join(repo(), 'src'), os.path.join(repo(), 'applis', 'eperftool')]
    files = []
    for r in roots:
        for d, _, fs in os.walk(r):
            for f in fs:
                if f.endswith(('.c', '.h')):
                    files.append(os.path.join(d, f))
    for f in sorted(files) + sorted(extra):
        h.update(f.encode()); h.update(b'\0')
        try:
            h.update(open(f, 'rb').read())
        except OSError:
            h.update(b'<missing>')
    return h.hexdigest()[:20]

def _prune_cache(keep):
    try:
        ents = [e for e in os.listdir(CACHE) if e.startswith('build_') and e != keep]
    except OSError:
        return
    ents.sort(key=lambda e: os.path.getmtime(os.path.join(CACHE, e)))
    for e in ents[:-3] if len(ents) > 3 else []:
        shutil.rmtree(os.path.join(CACHE, e), ignore_errors=True)

def build_dir(sanitize=True):
    """Directory holding a build of the current working tree of the repository (library objects and
    harness executables), keyed by the content hash of the sources so that any edit rebuilds."""
    hsrc = [os.path.join(HARNESS, f) for f in sorted(os.listdir(HARNESS))]
    key = tree_hash(hsrc) + ('_san' if sanitize else '_opt')
    d = os.path.join(CACHE, 'build_' + key)
    os.makedirs(CACHE, exist_ok=True)
    with Lock('cbuild'):
        ensure_build_config()
        if os.path.exists(os.path.join(d, 'OK')):
            os.utime(d)
            return d
        shutil.rmtree(d, ignore_errors=True)
        os.makedirs(d)
        flags = SAN_FLAGS if sanitize else NOSAN_FLAGS
        srcs = lib_sources()
        inc = ['-I' + os.path.join(repo(), 'src'), '-I' + os.path.join(repo(), 'applis', 'eperftool')]
        procs = []
        objs = []
        for i, s in enumerate(srcs):
            o = os.path.join(d, 'lib_%d.o' % i)
            objs.append(o)
            procs.append((s, subprocess.Popen(['gcc'] + flags + inc + ['-c', s, '-o', o],
                                               stdout=subprocess.PIPE, stderr=subprocess.STDOUT, text=True)))
        errs = []
        for s, p in procs:
            out, _ = p.communicate()
            if p.returncode != 0:
                errs.append('%s: %s' % (s, out[:1500]))
        if errs:
            raise RuntimeError('library does not compile:\n' + '\n'.join(errs))
        sh(['ar', 'rcs', os.path.join(d, 'libof.a')] + objs)
        for o in objs:
            os.remove(o)
        open(os.path.join(d, 'OK'), 'w').write(key)
        _prune_cache('build_' + key)
    return d

def build_harness(name, link_lib=True, sanitize=True, extra_flags=()):
    """compile harness/<name>.c against the repository (TU inclusion and/or libof.a)"""
    d = build_dir(sanitize)
    exe = os.path.join(d, name)
    with Lock('cbuild'):
        if os.path.exists(exe):
            return exe
        flags = SAN_FLAGS if sanitize else NOSAN_FLAGS
        inc = ['-I' + os.path.join(repo(), 'src'), '-I' + os.path.join(repo(), 'applis', 'eperftool'), '-I' + repo()]
        cmd = ['gcc'] + flags + list(extra_flags) + inc + [os.path.join(HARNESS, name + '.c'), '-o', exe + '.tmp']
        if link_lib:
            cmd += [os.path.join(d, 'libof.a')]
        cmd += ['-lm']
        p = sh(cmd)
        if p.returncode != 0:
            raise RuntimeError('harness %s does not compile: %s' % (name, (p.stdout + p.stderr)[:3000]))
        os.rename(exe + '.tmp', exe)
    return exe

ASAN_ENV = {'ASAN_OPTIONS': 'detect_leaks=1:abort_on_error=0:exitcode=99:allocator_may_return_null=1:max_allocation_size_mb=1024:detect_stack_use_after_return=0',
            'UBSAN_OPTIONS': 'print_stacktrace=1:halt_on_error=1:exitcode=98',
            'LSAN_OPTIONS': 'exitcode=97'}

def run_harness(exe, lines, timeout=3600, env_extra=None):
    env = dict(os.environ); env.update(ASAN_ENV)
    if env_extra: env.update(env_extra)
    p = subprocess.run([exe], input='\n'.join(lines) + '\n', capture_output=True, text=True, timeout=timeout, env=env,
                       errors='replace')
    outs = [l[1:] for l in p.stdout.splitlines() if l.startswith('@')]
    return p.returncode, outs, p.stderr

def sanitizer_summary(stderr):
    m = re.search(r'(ERROR: (?:Address|Leak|Undefined)Sanitizer[^\n]*|runtime error:[^\n]*|SUMMARY: [^\n]*)', stderr)
    return m.group(1) if m else None

# ---------------------------------------------------------------- findings, evidence, reporting

def load_findings():
    try:
        return json.load(open(os.path.join(VERIF, 'known_findings.json')))['findings']
    except (OSError, ValueError, KeyError):
        return []

class Result:
    """Collects what a check did; decides exit status."""
    def __init__(self, pid, tier, seed):
        self.pid, self.tier, self.seed = pid, tier, seed
        self.t0 = time.time()
        self.obligations = []      # (name, discharged: bool)
        self.evaluations = 0
        self.nontrivial = set()
        self.samples = []
        self.cov = {}
        self.violations = []       # dicts with sig, what, replay
        self.known_hits = []
        self.assumptions = []
        self.rule = ''
        self.exhaustive = None
        self.notes = []

    def obligation(self, name, ok):
        self.obligations.append((name, bool(ok)))

    def sample(self, s, limit=8):
        if len(self.samples) < limit:
            self.samples.append(s)

    def violation(self, sig, what, replay=None, no_input=False):
        """report a violation unless `sig` is a listed known finding"""
        for f in load_findings():
            if f.get('property') == self.pid and f.get('sig') == sig and f.get('state') == 'known':
                if sig not in [k[0] for k in self.known_hits]:
                    self.known_hits.append((sig, f.get('what', what)))
                return
        if any(v['sig'] == sig for v in self.violations):
            return
        self.violations.append({'sig': sig, 'what': what, 'replay': replay, 'no_input': no_input})

    def finish(self):
        os.makedirs(EVID, exist_ok=True)
        os.makedirs(REPLAYS, exist_ok=True)
        for sig, what in self.known_hits:
            print('KNOWN-FINDING: property=%s %s [%s]' % (self.pid, what, sig))
        for v in self.violations:
            h = hashlib.sha1((self.pid + v['sig']).encode()).hexdigest()[:10]
            path = os.path.join(REPLAYS, '%s-%s.json' % (self.pid, h))
            with open(path, 'w') as f:
                json.dump({'property': self.pid, 'sig': v['sig'], 'what': v['what'], 'replay': v['replay'],
                           'no_failing_input_found': v['no_input'], 'seed': self.seed, 'tier': self.tier}, f, indent=1,
                          default=lambda o: sorted(o) if isinstance(o, (set, frozenset)) else str(o))
            line = 'VIOLATION property=%s replay=%s' % (self.pid, path)
            if v['no_input']:
                line += ' no-failing-input-found'
            print(line)
            print('  -> ' + v['what'][:600])
        nob = len(self.obligations)
        ndis = sum(1 for _, ok in self.obligations if ok)
        cov = {
            'obligations': nob, 'discharged': ndis,
            'obligation_names': [n for n, _ in self.obligations],
            'undischarged': [n for n, ok in self.obligations if not ok],
            'checker_cmd': 'cd /verif/lean && lake build OpenFecVerif.Props.%s  (plus #print axioms audit; thorough: lake env leanchecker)' % self.pid,
            'trusted_base': TRUSTED_BASE,
            'evaluations': self.evaluations,
            'distinct_nontrivial': len(self.nontrivial),
            'rule': self.rule,
            'samples': self.samples or ['(none)'],
        }
        if ndis == 0:
            # the schema wants discharged >= 1 when the proof keys are present; with nothing discharged
            # the run is described by its exploration counts instead
            del cov['discharged']
            cov['discharged_count'] = 0
            cov['evaluations'] = max(cov['evaluations'], 1)
        if self.exhaustive is not None:
            cov['exhaustive'] = self.exhaustive
        cov.update(self.cov)
        ev = {'property_id': self.pid, 'tier': self.tier, 'seed': self.seed, 'level': 'proof', 'coverage': cov,
              'assumptions': self.assumptions, 'wall_s': round(time.time() - self.t0, 2),
              'violations': len(self.violations), 'known_findings_reproduced': [k[0] for k in self.known_hits],
              'notes': self.notes}
        with open(os.path.join(EVID, self.pid + '.json'), 'w') as f:
            json.dump(ev, f, indent=1)
        return 1 if self.violations else 0

def check_lean(res, module, theorems, extra_targets=()):
    """Build the Props module of a property and audit its axioms. Registers one obligation per theorem.
    Returns (ok, log)."""
    ok, log = lake_build([module] + list(extra_targets))
    if not ok:
        for t in theorems:
            res.obligation(t, False)
        return False, log
    aok, axs, raw = audit_axioms(module, theorems)
    for t in theorems:
        good = t in axs and all(a in ALLOWED_AXIOMS for a in axs[t])
        res.obligation(t, good)
    res.cov['axioms'] = axs
    hits = grep_forbidden()
    res.cov['forbidden_construct_hits'] = hits
    if hits:
        return False, 'forbidden constructs: ' + '; '.join(hits)
    if not aok:
        return False, 'axiom audit failed: ' + raw[-800:]
    return True, log

def leancheck(res, module):
    p = sh(['lake', 'env', 'leanchecker', module], cwd=LEAN, timeout=3000)
    res.cov.setdefault('leanchecker', {})[module] = 'ok' if p.returncode == 0 else (p.stdout + p.stderr)[-400:]
    return p.returncode == 0
