#!/usr/bin/env python3
"""check.py <property-id> [--tier quick|thorough] [--replay <file>]

Decides one property: regenerates the translated Lean sources from the repository's current working
tree, builds the property's theorems and audits their axioms, runs the correspondence between the
executable models and the real library, applies the property's direct oracle, and writes
evidence/<id>.json.  Exit 0 = held on everything explored; exit 1 + 'VIOLATION property=<id> replay=<path>'.
"""
import sys, os, argparse, importlib, json, traceback
sys.path.insert(0, os.path.dirname(os.path.abspath(__file__)))
import common

def main():
    ap = argparse.ArgumentParser()
    ap.add_argument('pid')
    ap.add_argument('--tier', default=os.environ.get('VERIF_TIER', 'quick'), choices=['quick', 'thorough'])
    ap.add_argument('--replay', default=None)
    a = ap.parse_args()
    seed = int(os.environ.get('VERIF_SEED', '1'))
    if a.pid == 'setup':
        errs = common.regen()
        ok, log = common.lake_build(['OpenFecVerif', 'OpenFecVerif.All', 'ofmodel'])
        print(log[-3000:])
        # a failing proof at setup time is reported by the checks themselves; setup only needs the tools
        common.model_exe()
        common.build_dir(True)
        return 0
    mod = importlib.import_module('props.' + a.pid)
    if a.replay:
        return mod.replay(a.replay)
    res = common.Result(a.pid, a.tier, seed)
    try:
        gen_errs = common.regen()
        res.cov['regeneration_errors'] = gen_errs
        mod.run(res, a.tier, seed, gen_errs)
    except Exception as e:
        tb = traceback.format_exc()
        res.violation('machinery:' + type(e).__name__, 'the check could not be completed: %s\n%s' % (e, tb[-1500:]),
                      replay={'broken': 'check machinery', 'exception': str(e)}, no_input=True)
    return res.finish()

if __name__ == '__main__':
    sys.exit(main())
