#!/bin/bash
# confirm_seed.sh <worktree> : confirm that a seeded change (applied in the worktree, patch in _seed/patch.diff)
# (a) compiles and passes the existing suite, (b) makes its demonstration fail, (c) the demonstration passes without it.
set -u
WT=$1
cd "$WT" || exit 2
build() { cmake -S . -B _build -G Ninja -DCMAKE_BUILD_TYPE=RelWithDebInfo -DCMAKE_C_FLAGS=-Wno-error >/dev/null 2>&1 && cmake --build _build >/dev/null 2>&1; }
git diff --quiet -- src applis && { echo "no change applied in worktree"; exit 2; }
build || { echo "BUILD-FAILED with change"; exit 1; }
SUITE=$(ctest --test-dir _build -j8 --timeout 900 2>&1 | grep 'tests passed' )
echo "suite with change: $SUITE"
bash _seed/run_demo.sh >/tmp/demo_with.log 2>&1; RC_WITH=$?
echo "demo with change: rc=$RC_WITH $(grep -o 'PASS\|FAIL' /tmp/demo_with.log | tail -1)"
git diff -- src applis > /tmp/confirm_seed.$$.diff; git apply -R /tmp/confirm_seed.$$.diff
build
bash _seed/run_demo.sh >/tmp/demo_without.log 2>&1; RC_WITHOUT=$?
echo "demo without change: rc=$RC_WITHOUT $(grep -o 'PASS\|FAIL' /tmp/demo_without.log | tail -1)"
git apply /tmp/confirm_seed.$$.diff; rm -f /tmp/confirm_seed.$$.diff
build
echo "$SUITE" | grep -q '100% tests passed' && [ $RC_WITH -ne 0 ] && [ $RC_WITHOUT -eq 0 ] && echo CONFIRMED || echo NOT-CONFIRMED
