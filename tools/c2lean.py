#!/usr/bin/env python3
"""c2lean: translate a small scalar subset of C (as parsed by clang-14, typed JSON AST)
into Lean 4 definitions over Nat / Int / Rat.

Semantics emitted (see DESIGN.md section 2, "Translator"):
  * unsigned w-bit integers are Nat with an explicit `% 2^w` after every operation that can wrap;
  * signed integers are Int, no wrap (signed overflow is UB in C and not modelled);
  * `double` values are Rat; every arithmetic operation and every int->double conversion goes
    through the abstract rounding operator `rn : Rat -> Rat`; ceil/floor/fabs are exact;
    double->integer conversions go through CSem.f2u / CSem.f2i32 (x86-64 cvttsd2si behaviour);
  * control flow is translated in continuation-passing style: `if` duplicates the rest of the
    function into both branches, so early `return` needs no special treatment;
  * `for (v = a; v < b; v++) body` with constant a, b becomes a fold over List.range';
  * calls to printf/fprintf are dropped; calls to other translated functions are emitted as calls;
  * state that outlives the call (written globals, fields written through a struct pointer
    parameter) is returned in a tuple, in a fixed order, followed by the return value.
Anything else raises Unsupported, which the caller reports as a broken translation.

Cut mode (`Translator.function(name, cut=True)`), used for the argument-validation prefix of the `*_set_fec_parameters` functions:
  * the function is translated up to the first statement outside the subset; reaching that statement yields the string "CONTINUE";
    `return X` with an enumeration constant X yields the string "X"; only that string is returned (field writes are threaded through
    the prefix but not returned);
  * assignments used as expressions inside a condition or on the right of an assignment are hoisted in front of the statement
    (only through parentheses, casts and non-logical binary operators, where C evaluates them unconditionally);
  * `goto L` continues with the statements from the top-level label L on; pointer parameters are addresses (Nat), NULL is 0.
"""
import json, subprocess, sys, re, os

class Unsupported(Exception):
    pass

INT_TYPES = {
    'unsigned long long': ('u', 64), 'unsigned long': ('u', 64), 'unsigned int': ('u', 32),
    'unsigned short': ('u', 16), 'unsigned char': ('u', 8), '_Bool': ('u', 8),
    'long long': ('i', 64), 'long': ('i', 64), 'int': ('i', 32), 'short': ('i', 16),
    'char': ('i', 8), 'signed char': ('i', 8),
}

def ctype(node):
    t = node.get('type', {})
    q = t.get('desugaredQualType') or t.get('qualType')
    if q is None:
        raise Unsupported('untyped node %s' % node.get('kind'))
    q = re.sub(r'\b(const|volatile)\b', '', q)
    q = re.sub(r'\s+', ' ', q).replace('* *', '**').strip()
    q = re.sub(r'\s*\*\s*$', ' *', q) if q.endswith('*') else q
    if q in INT_TYPES:
        return INT_TYPES[q]
    if q == 'double' or q == 'float':
        return ('f', 64)
    if q.endswith('*'):
        return ('p', q)
    return ('?', q)

def run_clang(path, flt, incs, defs):
    cmd = ['clang-14', '-fsyntax-only', '-w', '-Xclang', '-ast-dump=json',
           '-Xclang', '-ast-dump-filter=' + flt] + ['-I' + i for i in incs] + ['-D' + d for d in defs] + [path]
    p = subprocess.run(cmd, capture_output=True, text=True)
    s = p.stdout
    dec = json.JSONDecoder(); i = 0; docs = []
    while i < len(s):
        while i < len(s) and s[i].isspace():
            i += 1
        if i >= len(s):
            break
        d, j = dec.raw_decode(s, i); docs.append(d); i = j
    if not docs:
        raise Unsupported('clang produced no AST for %s filter %s: %s' % (path, flt, p.stderr[:400]))
    return docs

class Fn:
    """Translation of one FunctionDecl."""
    def __init__(self, tr, decl):
        self.tr = tr
        self.decl = decl
        self.name = decl['name']
        self.params = []      # (cname, type)
        self.ptr_params = {}  # cname -> True (struct pointer parameters)
        self.counter = {}
        self.state = []       # ordered list of persistent state names (globals, ptr fields) touched
        self.state_written = []
        self.ret_t = None
        self.cut = False
        self.no_cut = 0
        self.cut_reasons = []
        self.labels = {}
        self.field_types = {}
        self.ptr_used = []

    # ---- helpers
    def fresh(self, v):
        n = self.counter.get(v, 0) + 1
        self.counter[v] = n
        return '%s_%d' % (v, n)

    def lit(self, val, t):
        k, w = t
        v = int(val)
        if k == 'u':
            return str(v % (1 << w))
        return '(%d : Int)' % v

    # ---- expressions -> (lean_text, type)
    def expr(self, n, env):
        k = n['kind']
        if k in ('ParenExpr', 'ConstantExpr'):
            return self.expr(n['inner'][0], env)
        if k == 'IntegerLiteral':
            t = ctype(n)
            return self.lit(n['value'], t), t
        if k == 'CharacterLiteral':
            t = ctype(n)
            return self.lit(n['value'], t), t
        if k == 'FloatingLiteral':
            return '((%s : Rat))' % n['value'], ('f', 64)
        if k == 'UnaryExprOrTypeTraitExpr':
            if n.get('name') != 'sizeof':
                raise Unsupported('trait ' + str(n.get('name')))
            at = n.get('argType', {})
            q = (at.get('desugaredQualType') or at.get('qualType') or '').strip()
            if q not in INT_TYPES:
                raise Unsupported('sizeof(%s)' % q)
            return self.lit(INT_TYPES[q][1] // 8, ctype(n)), ctype(n)
        if k == 'DeclRefExpr':
            name = n['referencedDecl']['name']
            if n['referencedDecl'].get('kind') == 'EnumConstantDecl' and self.cut:
                return '"%s"' % name, ('s', 0)
            t = ctype(n)
            if name in env:
                return env[name], t
            if self.cut and name in self.ptr_params and t[0] == 'p':
                if name not in self.ptr_used:
                    self.ptr_used.append(name)
                return name + '_0', ('u', 64)
            g = self.tr.const_globals.get(name)
            if g is not None:
                return self.lit(g, t), t
            raise Unsupported('reference to unknown variable ' + name)
        if k == 'MemberExpr':
            base = n['inner'][0]
            while base['kind'] in ('ImplicitCastExpr', 'ParenExpr', 'CStyleCastExpr'):
                base = base['inner'][0]
            if base['kind'] != 'DeclRefExpr':
                raise Unsupported('member of non-variable')
            vn = base['referencedDecl']['name'] + '.' + n['name']
            if vn not in env:
                raise Unsupported('read of unset field ' + vn)
            return env[vn], ctype(n)
        if k in ('ImplicitCastExpr', 'CStyleCastExpr'):
            ck = n.get('castKind')
            inner = n['inner'][0]
            if ck in ('LValueToRValue', 'NoOp'):
                return self.expr(inner, env)
            if self.cut and ck == 'NullToPointer':
                return '0', ('u', 64)
            if self.cut and ck == 'BitCast':
                return self.expr(inner, env)
            e, st = self.expr(inner, env)
            if st[0] == 's':
                return e, st
            dt = ctype(n)
            return self.cast(e, st, dt, inner), dt
        if k == 'UnaryOperator':
            op = n['opcode']
            e, t = self.expr(n['inner'][0], env)
            rt = ctype(n)
            if op == '~' and rt[0] == 'u':
                return '(%d - %s)' % ((1 << rt[1]) - 1, e), rt
            if op == '-' and rt[0] == 'i':
                return '(- %s)' % e, rt
            if op == '~' and rt[0] == 'i':
                # two's complement: ~x = -x - 1
                return '(- %s - 1)' % e, rt
            if op == '-' and rt[0] == 'f':
                return '(- %s)' % e, rt
            if op == '!':
                return '(if %s then (0 : Int) else 1)' % self.truth(e, t), rt
            raise Unsupported('unary ' + op)
        if k == 'BinaryOperator':
            return self.binop(n['opcode'], n['inner'][0], n['inner'][1], ctype(n), env)
        if k == 'ConditionalOperator':
            c, ct = self.expr(n['inner'][0], env)
            a, at = self.expr(n['inner'][1], env)
            b, bt = self.expr(n['inner'][2], env)
            return '(if %s then %s else %s)' % (self.truth(c, ct), a, b), ctype(n)
        if k == 'CallExpr':
            callee = n['inner'][0]
            while callee['kind'] in ('ImplicitCastExpr', 'ParenExpr'):
                callee = callee['inner'][0]
            fname = callee['referencedDecl']['name']
            args = [self.expr(a, env) for a in n['inner'][1:]]
            if fname in ('ceil', 'floor'):
                return '((Rat.%s %s : Int) : Rat)' % (fname, args[0][0]), ('f', 64)
            if fname == 'fabs':
                return '(CSem.rabs %s)' % args[0][0], ('f', 64)
            if fname in self.tr.fns:
                callee_fn = self.tr.fns[fname]
                if callee_fn.state:
                    raise Unsupported('call to stateful function ' + fname)
                rn = ' rn' if callee_fn.uses_rn else ''
                return '(%s%s %s)' % (self.tr.lname(fname), rn, ' '.join(a[0] for a in args)), callee_fn.ret_t
            raise Unsupported('call to ' + fname)
        raise Unsupported('expression kind ' + k)

    def truth(self, e, t):
        if t[0] == 'b':
            return e
        if t[0] == 'f':
            return '(%s ≠ 0)' % e
        return '(%s ≠ 0)' % e

    def cast(self, e, st, dt, inner_node):
        sk, sw = st; dk, dw = dt
        if sk == 'b':   # comparison result used as int
            e = '(if %s then 1 else 0)' % e
            if dk == 'u':
                return e
            if dk == 'i':
                return '(%s : Int)' % e
            sk, sw = 'i', 32
        # literal folding
        m = re.fullmatch(r'\((-?\d+) : Int\)', e)
        if m and dk == 'u':
            return str(int(m.group(1)) % (1 << dw))
        if re.fullmatch(r'\d+', e) and dk == 'u':
            return str(int(e) % (1 << dw))
        if re.fullmatch(r'\d+', e) and dk == 'i':
            v = int(e) % (1 << dw)
            if v >= 1 << (dw - 1):
                v -= 1 << dw
            return '(%d : Int)' % v
        if m and dk == 'f':
            return '((%s : Int) : Rat)' % m.group(1) if abs(int(m.group(1))) < (1 << 53) else 'rn ((%s : Int) : Rat)' % m.group(1)
        if sk == 'u' and dk == 'u':
            return e if dw >= sw else '(%s %% %d)' % (e, 1 << dw)
        if sk == 'u' and dk == 'i':
            if dw > sw:
                return '((%s : Nat) : Int)' % e
            return '(CSem.toSigned %d (%s %% %d))' % (dw, e, 1 << dw)
        if sk == 'i' and dk == 'u':
            return '(Int.toNat (%s %% %d))' % (e, 1 << dw)
        if sk == 'i' and dk == 'i':
            return e if dw >= sw else '(CSem.toSigned %d (Int.toNat (%s %% %d)))' % (dw, e, 1 << dw)
        if sk == 'u' and dk == 'f':
            self.uses_rn = True
            return '(rn ((%s : Nat) : Rat))' % e
        if sk == 'i' and dk == 'f':
            self.uses_rn = True
            return '(rn ((%s : Int) : Rat))' % e
        if sk == 'f' and dk == 'u':
            return '(CSem.f2u %d %s)' % (dw, e)
        if sk == 'f' and dk == 'i' and dw == 32:
            return '(CSem.f2i32 %s)' % e
        if sk == 'f' and dk == 'f':
            return e
        raise Unsupported('cast %s -> %s' % (st, dt))

    def binop(self, op, ln, rn_, rt, env):
        a, at = self.expr(ln, env)
        b, bt = self.expr(rn_, env)
        if op in ('<', '>', '<=', '>=', '==', '!='):
            lop = {'<': '<', '>': '>', '<=': '≤', '>=': '≥', '==': '=', '!=': '≠'}[op]
            return '(%s %s %s)' % (a, lop, b), ('b', 1)
        if op == '&&':
            return '(%s ∧ %s)' % (self.truth(a, at), self.truth(b, bt)), ('b', 1)
        if op == '||':
            return '(%s ∨ %s)' % (self.truth(a, at), self.truth(b, bt)), ('b', 1)
        k, w = rt
        if k == 'f':
            if op not in '+-*/':
                raise Unsupported('float op ' + op)
            self.uses_rn = True
            return '(rn (%s %s %s))' % (a, op, b), rt
        if k == 'u':
            M = 1 << w
            if op == '+': return '((%s + %s) %% %d)' % (a, b, M), rt
            if op == '-': return '((%s + %d - %s) %% %d)' % (a, M, b, M), rt
            if op == '*': return '((%s * %s) %% %d)' % (a, b, M), rt
            if op == '/': return '(%s / %s)' % (a, b), rt
            if op == '%': return '(%s %% %s)' % (a, b), rt
            if op == '&': return '(%s &&& %s)' % (a, b), rt
            if op == '|': return '(%s ||| %s)' % (a, b), rt
            if op == '^': return '(%s ^^^ %s)' % (a, b), rt
            if op in ('<<', '>>'):
                if bt[0] == 'i':
                    m = re.fullmatch(r'\((\d+) : Int\)', b)
                    if not m:
                        raise Unsupported('non-constant signed shift count')
                    b = m.group(1)
                if op == '<<': return '((%s <<< %s) %% %d)' % (a, b, M), rt
                return '(%s >>> %s)' % (a, b), rt
        if k == 'i' and op in ('<<', '&', '|', '^'):
            # signed operands in their two's complement representation (what gcc/clang do on the targets the library builds for;
            # a left shift whose result does not fit is undefined in ISO C and wraps there): compute on the w-bit pattern
            M = 1 << w
            ua = '(Int.toNat (%s %% %d))' % (a, M)
            if op == '<<':
                cnt = b if bt[0] == 'u' else '(Int.toNat %s)' % b
                return '(CSem.toSigned %d ((%s <<< %s) %% %d))' % (w, ua, cnt, M), rt
            ub = '(Int.toNat (%s %% %d))' % (b, M)
            lop = {'&': '&&&', '|': '|||', '^': '^^^'}[op]
            return '(CSem.toSigned %d (%s %s %s))' % (w, ua, lop, ub), rt
        if k == 'i':
            if op in '+-*':
                return '(%s %s %s)' % (a, op, b), rt
            if op == '/': return '(Int.tdiv %s %s)' % (a, b), rt
            if op == '%': return '(Int.tmod %s %s)' % (a, b), rt
        raise Unsupported('binary %s on %s' % (op, rt))

    # ---- statements, continuation-passing
    def lvalue_name(self, n):
        while n['kind'] in ('ParenExpr',):
            n = n['inner'][0]
        if n['kind'] == 'DeclRefExpr':
            return n['referencedDecl']['name']
        if n['kind'] == 'MemberExpr':
            base = n['inner'][0]
            while base['kind'] in ('ImplicitCastExpr', 'ParenExpr', 'CStyleCastExpr'):
                base = base['inner'][0]
            if base['kind'] == 'DeclRefExpr':
                return base['referencedDecl']['name'] + '.' + n['name']
        raise Unsupported('assignment target ' + n['kind'])

    # ---- assignments used as expressions (cut mode): hoist them in front of the statement
    def hoist(self, n, env, ind):
        """returns (lines, env, node') where node' has every unconditionally evaluated assignment sub-expression replaced by a read
        of its target"""
        k = n.get('kind')
        if k in ('ParenExpr', 'ImplicitCastExpr', 'CStyleCastExpr', 'ConstantExpr'):
            lines, env, c = self.hoist(n['inner'][0], env, ind)
            m = dict(n); m['inner'] = [c] + n['inner'][1:]
            return lines, env, m
        if k == 'BinaryOperator' and n.get('opcode') == '=':
            lines, env, rhs = self.hoist(n['inner'][1], env, ind)
            name = self.lvalue_name(n['inner'][0])
            e, t = self.expr(rhs, env)
            line, env = self.assign(name, e, env, ind)
            return lines + line, env, n['inner'][0]
        if k == 'BinaryOperator' and n.get('opcode') not in ('&&', '||', ','):
            l1, env, a = self.hoist(n['inner'][0], env, ind)
            l2, env, b = self.hoist(n['inner'][1], env, ind)
            m = dict(n); m['inner'] = [a, b]
            return l1 + l2, env, m
        return '', env, n

    def assign(self, name, e, env, ind):
        if name not in env and name not in self.local_names:
            # a persistent location (global or field through pointer)
            if name not in self.state:
                self.state.append(name)
        if '.' in name or name in self.tr.mutable_globals:
            if name not in self.state:
                self.state.append(name)
        v = self.fresh(name.replace('.', '_'))
        env = dict(env); env[name] = v
        return '%slet %s := %s\n' % (ind, v, e), env

    def stmts(self, ss, env, ind, final):
        """Translate the statement list `ss`; `final(env)` produces the result expression when
        control falls off the end.  In cut mode the first statement outside the subset ends the translation with "CONTINUE"."""
        if not self.cut or self.no_cut:
            return self._stmts(ss, env, ind, final)
        saved = dict(self.counter)
        try:
            return self._stmts(ss, env, ind, final)
        except Unsupported as e:
            self.counter = saved
            self.cut_reasons.append(str(e))
            return ind + '"CONTINUE"\n'

    def _stmts(self, ss, env, ind, final):
        if not ss:
            return ind + final(env) + '\n'
        s, rest = ss[0], ss[1:]
        k = s['kind']
        if k == 'LabelStmt':
            return self.stmts(s.get('inner', []) + rest, env, ind, final)
        if k == 'GotoStmt' and self.cut:
            target = self.labels.get(s.get('targetLabelDeclId'))
            if target is None:
                raise Unsupported('goto to a label that is not at the top level of the function')
            return self.stmts(target, env, ind, final)
        if self.cut and k in ('BinaryOperator', 'IfStmt'):
            # hoist assignment sub-expressions
            if k == 'BinaryOperator' and s.get('opcode') == '=':
                lines, env, rhs = self.hoist(s['inner'][1], env, ind)
                if lines:
                    s = dict(s); s['inner'] = [s['inner'][0], rhs]
                    return lines + self._stmts([s] + rest, env, ind, final)
            if k == 'IfStmt':
                lines, env, c = self.hoist(s['inner'][0], env, ind)
                if lines:
                    s = dict(s); s['inner'] = [c] + s['inner'][1:]
                    return lines + self._stmts([s] + rest, env, ind, final)
        if k == 'CompoundStmt':
            return self.stmts(s.get('inner', []) + rest, env, ind, final)
        if k == 'NullStmt':
            return self.stmts(rest, env, ind, final)
        if k == 'DeclStmt':
            out = ''
            for d in s.get('inner', []):
                if d['kind'] != 'VarDecl':
                    raise Unsupported('declaration ' + d['kind'])
                self.local_names.add(d['name'])
                init = [c for c in d.get('inner', []) if c['kind'] not in ('FullComment',)]
                if init:
                    e, t = self.expr(init[0], env)
                    line, env = self.assign(d['name'], e, env, ind)
                    out += line
            return out + self.stmts(rest, env, ind, final)
        if k in ('BinaryOperator', 'CompoundAssignOperator'):
            op = s['opcode']
            name = self.lvalue_name(s['inner'][0])
            if op == '=':
                e, t = self.expr(s['inner'][1], env)
            else:
                bop = op[:-1]
                lt = ctype(s['inner'][0])
                ct = s.get('computeResultType', {})
                cq = (ct.get('desugaredQualType') or ct.get('qualType') or '').strip()
                comp_t = INT_TYPES.get(cq, lt) if cq != 'double' else ('f', 64)
                # model `a op= b` as a = (T)((C)a op b) with C the computation type
                if name not in env:
                    raise Unsupported('compound assignment to unset ' + name)
                a = env[name]
                a_c = self.cast(a, lt, comp_t, None) if lt != comp_t else a
                b, bt = self.expr(s['inner'][1], env)
                fake_l = {'kind': 'X'}
                e = self._binop_text(bop, a_c, comp_t, b, bt, comp_t)
                if comp_t != lt:
                    e = self.cast(e, comp_t, lt, None)
            line, env = self.assign(name, e, env, ind)
            return line + self.stmts(rest, env, ind, final)
        if k == 'UnaryOperator' and s['opcode'] in ('++', '--'):
            name = self.lvalue_name(s['inner'][0])
            t = ctype(s['inner'][0])
            one = self.lit(1, t)
            e = self._binop_text('+' if s['opcode'] == '++' else '-', env[name], t, one, t, t)
            line, env = self.assign(name, e, env, ind)
            return line + self.stmts(rest, env, ind, final)
        if k == 'CallExpr':
            callee = s['inner'][0]
            while callee['kind'] in ('ImplicitCastExpr', 'ParenExpr'):
                callee = callee['inner'][0]
            fname = callee.get('referencedDecl', {}).get('name')
            if fname in ('printf', 'fprintf', 'fflush'):
                return self.stmts(rest, env, ind, final)
            raise Unsupported('call statement ' + str(fname))
        if k == 'ReturnStmt':
            inner = s.get('inner', [])
            if inner:
                e, t = self.expr(inner[0], env)
                if self.cut:
                    if t[0] != 's':
                        raise Unsupported('return of a non-constant status in cut mode')
                    return ind + self.result(env, e) + '\n'
                if t != self.ret_t and self.ret_t[0] != 'v':
                    e = self.cast(e, t, self.ret_t, inner[0])
                return ind + self.result(env, e) + '\n'
            return ind + self.result(env, None) + '\n'
        if k == 'IfStmt':
            inner = s['inner']
            c, ct = self.expr(inner[0], env)
            then_s = [inner[1]]
            else_s = [inner[2]] if len(inner) > 2 else []
            out = '%sif %s then\n' % (ind, self.truth(c, ct))
            out += self.stmts(then_s + rest, env, ind + '  ', final)
            out += '%selse\n' % ind
            out += self.stmts(else_s + rest, env, ind + '  ', final)
            return out
        if k == 'ForStmt':
            return self.for_stmt(s, rest, env, ind, final)
        raise Unsupported('statement kind ' + k)

    def _binop_text(self, op, a, at, b, bt, rt):
        k, w = rt
        if k == 'f':
            self.uses_rn = True
            return '(rn (%s %s %s))' % (a, op, b)
        if k == 'u':
            M = 1 << w
            if op == '+': return '((%s + %s) %% %d)' % (a, b, M)
            if op == '-': return '((%s + %d - %s) %% %d)' % (a, M, b, M)
            if op == '*': return '((%s * %s) %% %d)' % (a, b, M)
            if op == '&': return '(%s &&& %s)' % (a, b)
            if op == '|': return '(%s ||| %s)' % (a, b)
            if op == '^': return '(%s ^^^ %s)' % (a, b)
            if op == '>>': return '(%s >>> %s)' % (a, b)
            if op == '<<': return '((%s <<< %s) %% %d)' % (a, b, M)
        if k == 'i' and op in '+-*':
            return '(%s %s %s)' % (a, op, b)
        raise Unsupported('compound op %s on %s' % (op, rt))

    def assigned_vars(self, n, acc):
        k = n.get('kind')
        if k in ('BinaryOperator', 'CompoundAssignOperator') and n.get('opcode', '').endswith('=') \
                and n.get('opcode') not in ('==', '!=', '<=', '>='):
            acc.append(self.lvalue_name(n['inner'][0]))
        if k == 'UnaryOperator' and n.get('opcode') in ('++', '--'):
            acc.append(self.lvalue_name(n['inner'][0]))
        if k in ('ReturnStmt', 'WhileStmt', 'DoStmt', 'GotoStmt', 'BreakStmt', 'ContinueStmt'):
            raise Unsupported(k + ' inside loop body')
        for c in n.get('inner', []):
            self.assigned_vars(c, acc)
        return acc

    def for_stmt(self, s, rest, env, ind, final):
        init, _, cond, inc, body = s['inner']
        # init: v = a
        if init.get('kind') != 'BinaryOperator' or init.get('opcode') != '=':
            raise Unsupported('for-init shape')
        v = self.lvalue_name(init['inner'][0])
        vt = ctype(init['inner'][0])
        a, _ = self.expr(init['inner'][1], env)
        ma = re.fullmatch(r'\(?(-?\d+)(?: : Int\))?', a)
        if cond.get('kind') != 'BinaryOperator' or cond.get('opcode') != '<':
            raise Unsupported('for-cond shape')
        lhs = cond['inner'][0]
        while lhs['kind'] in ('ImplicitCastExpr', 'ParenExpr'):
            lhs = lhs['inner'][0]
        if lhs.get('kind') != 'DeclRefExpr' or lhs['referencedDecl']['name'] != v:
            raise Unsupported('for-cond variable')
        b, bt = self.expr(cond['inner'][1], dict(env, **{v: '0'}))
        mb = re.fullmatch(r'\(?(-?\d+)(?: : Int\))?', b)
        if not mb and re.fullmatch(r'[\d\s()+\-*/%]+', b):
            # a constant expression such as 8 * sizeof(UINT32): fold it
            try:
                mb = re.fullmatch(r'(-?\d+)', str(eval(b.replace('/', '//'), {'__builtins__': {}})))
            except Exception:
                mb = None
        if not (ma and mb):
            raise Unsupported('for bounds not constant')
        lo, hi = int(ma.group(1)), int(mb.group(1))
        if inc.get('kind') != 'UnaryOperator' or inc.get('opcode') != '++':
            raise Unsupported('for-inc shape')
        mods = []
        for x in self.assigned_vars(body, []):
            if x not in mods and x != v:
                mods.append(x)
        for x in mods:
            if x not in env:
                raise Unsupported('loop modifies unset ' + x)
        tup = lambda names: '(' + ', '.join(names) + ')' if len(names) != 1 else names[0]
        st_in = [self.fresh(x.replace('.', '_')) for x in mods]
        jv = self.fresh(v)
        benv = dict(env)
        for x, y in zip(mods, st_in):
            benv[x] = y
        benv[v] = ('(%s : Int)' % jv) if vt[0] == 'i' else jv
        self.no_cut += 1
        try:
            body_txt = self.stmts([body], benv, ind + '      ', lambda e: tup([e[x] for x in mods]))
        finally:
            self.no_cut -= 1
        st_out = [self.fresh(x.replace('.', '_')) for x in mods]
        out = '%slet %s := (List.range\' %d %d).foldl (fun st (%s : Nat) =>\n' % (
            ind, tup(st_out) if len(mods) != 1 else st_out[0], lo, max(hi - lo, 0), jv)
        out += '%s      let %s := st\n' % (ind, tup(st_in) if len(mods) != 1 else st_in[0])
        out += body_txt
        out += '%s    ) %s\n' % (ind, tup([env[x] for x in mods]))
        env = dict(env)
        for x, y in zip(mods, st_out):
            env[x] = y
        env[v] = self.lit(max(hi, lo), vt)
        return out + self.stmts(rest, env, ind, final)

    def result(self, env, retval):
        if self.cut:
            return retval if retval is not None else '"END"'
        parts = [env[s] for s in self.state_out]
        if retval is not None:
            parts.append(retval)
        if not parts:
            return '()'
        return '(' + ', '.join(parts) + ')' if len(parts) > 1 else parts[0]

    def translate(self):
        d = self.decl
        self.uses_rn = False
        self.local_names = set()
        body = None
        env = {}
        rq = d['type']['qualType'].split('(')[0].strip()
        self.ret_t = INT_TYPES.get(rq, ('f', 64) if rq == 'double' else ('v', 0))
        params = []
        for c in d.get('inner', []):
            if c['kind'] == 'ParmVarDecl':
                t = ctype(c)
                if t[0] == 'p':
                    self.ptr_params[c['name']] = True
                else:
                    params.append((c['name'], t))
                    env[c['name']] = c['name'] + '_0'
                    self.local_names.add(c['name'])
            elif c['kind'] == 'CompoundStmt':
                body = c
        if body is None:
            raise Unsupported('no body for ' + self.name)
        # persistent inputs: every mutable global / pointer field that is read or written gets an input
        touched = []
        def scan(n):
            if n.get('kind') == 'DeclRefExpr':
                nm = n['referencedDecl']['name']
                if nm in self.tr.mutable_globals and nm not in touched:
                    touched.append(nm)
            if n.get('kind') == 'MemberExpr':
                try:
                    nm = self.lvalue_name(n)
                    if nm.split('.')[0] in self.ptr_params and nm not in touched:
                        t = ctype(n)
                        if not self.cut or t[0] in ('u', 'i'):
                            touched.append(nm)
                            self.field_types[nm] = t
                except Unsupported:
                    pass
            for c in n.get('inner', []):
                scan(c)
        scan(body)
        self.state = list(touched)
        self.state_out = list(touched)
        for s in touched:
            env[s] = s.replace('.', '_') + '_0'
        self.params = params
        if self.cut:
            # top-level labels: `goto L` continues with the statements from L on
            top = body.get('inner', [])
            for i, st in enumerate(top):
                if st.get('kind') == 'LabelStmt':
                    self.labels[st.get('declId')] = top[i:]
        txt = self.stmts([body], env, '  ', lambda e: self.result(e, None))
        if self.cut:
            # keep only the inputs the translated prefix mentions
            used = lambda v: re.search(r'(?<![\w.])%s(?![\w])' % re.escape(v), txt) is not None
            self.state = [s_ for s_ in self.state if used(s_.replace('.', '_') + '_0')]
            self.ptr_used = [p_ for p_ in self.ptr_used if used(p_ + '_0')]
            self.state_out = []
        def lt(t):
            return {'u': 'Nat', 'i': 'Int', 'f': 'Rat'}[t[0]]
        args = ''
        if self.uses_rn:
            args += ' (rn : Rat → Rat)'
        for s in self.state:
            ft = self.field_types.get(s)
            st_t = {'u': 'Nat', 'i': 'Int'}[ft[0]] if (self.cut and ft) else self.tr.state_type(s)
            args += ' (%s_0 : %s)' % (s.replace('.', '_'), st_t)
        for n in self.ptr_used:
            args += ' (%s_0 : Nat)' % n
        for n, t in params:
            args += ' (%s_0 : %s)' % (n, lt(t))
        if self.cut:
            hdr = '/-- generated from %s:%s (validation prefix; translation stops at: %s); inputs: %s -/\ndef %s%s : String :=\n' % (
                os.path.basename(self.tr.path), self.name, '; '.join(sorted(set(self.cut_reasons))) or 'end of function',
                ', '.join(self.state + self.ptr_used) or 'none', self.tr.lname(self.name), args)
            return hdr + txt
        hdr = '/-- generated from %s:%s; state in/out: %s -/\ndef %s%s :=\n' % (
            os.path.basename(self.tr.path), self.name, ', '.join(self.state) or 'none', self.tr.lname(self.name), args)
        return hdr + txt


class Translator:
    def __init__(self, path, incs, defs, flt, mutable_globals=None, state_types=None, prefix=''):
        self.path = path
        self.docs = run_clang(path, flt, incs, defs)
        self.const_globals = {}
        self.mutable_globals = dict(mutable_globals or {})
        self.state_types = dict(state_types or {})
        self.fns = {}
        self.prefix = prefix
        for d in self.docs:
            if d.get('kind') == 'VarDecl' and 'const' in d['type']['qualType']:
                init = [c for c in d.get('inner', []) if c['kind'] != 'FullComment']
                if init:
                    v = self.const_eval(init[0])
                    if v is not None:
                        self.const_globals[d['name']] = v

    def const_eval(self, n):
        while n['kind'] in ('ImplicitCastExpr', 'ParenExpr', 'CStyleCastExpr', 'ConstantExpr'):
            n = n['inner'][0]
        if n['kind'] == 'IntegerLiteral':
            return int(n['value'])
        return None

    def lname(self, cname):
        return self.prefix + cname

    def state_type(self, s):
        return self.state_types.get(s, 'Nat')

    def function(self, name, cut=False):
        for d in self.docs:
            if d.get('kind') == 'FunctionDecl' and d.get('name') == name and \
                    any(c.get('kind') == 'CompoundStmt' for c in d.get('inner', [])):
                f = Fn(self, d)
                f.cut = cut
                txt = f.translate()
                self.fns[name] = f
                return txt
        raise Unsupported('function %s not found in %s' % (name, self.path))


if __name__ == '__main__':
    # ad-hoc use: c2lean.py file.c filter fn1 fn2 ...
    t = Translator(sys.argv[1], [], ['OPENFEC_LITTLE_ENDIAN'], sys.argv[2])
    for f in sys.argv[3:]:
        print(t.function(f))
