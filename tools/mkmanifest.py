#!/usr/bin/env python3
"""mkmanifest.py: write /verif/MANIFEST.json from the table below (one entry per claimed property; every
property of properties.jsonl that has no entry is listed under not_applicable with the reason given in NA).
Run after adding or removing a check; validates against the schema when jsonschema is importable."""
import json, os, sys

VERIF = os.path.dirname(os.path.dirname(os.path.abspath(__file__)))

T = 'lean-translated'
M = 'lean-model+correspondence'

NOTE_M = ('Trusted: Lean kernel (axioms propext, Classical.choice, Quot.sound only, audited each run); the hand-written executable '
          'model is tied to the C code only by the correspondence on the explored inputs (ofdrv/matdrv/kern harness built from the '
          'current tree with ASan+UBSan, compiled ofmodel, Python diff) and by the direct oracle; data-obliviousness of the codecs is '
          'assumed and probed by random payloads.')

CLAIMS = {
 'C01': (M, 'proof',
  'Theorems: Reed-Solomon decoding from any k distinct symbols returns exactly the encoded source symbols (both fields, all 1<=k<=n<=2^m-1), also stated for the decoder function the executable model actually runs (RS.interpolate over the table operations: C01_rs_interpolate_sound_gf8/gf4). LDPC-Staircase / 2D, value level, whole sessions: the invariant "every stored symbol value is the transmitted one, and the partial sum of every equation is the sum of the transmitted values of its remaining entries" holds after configuration (C01_ldpc_configured, including the even-N1 decoder that pretends to have received the zero last repair symbol), is preserved by every submission through the recursive iterative decoder (C01_it_sound), by the simplification of the linear system (C01_simplify_sound), the Gaussian elimination (C01_ml_sound) and the write-back, for any sequence of submissions (any order, duplicates, either API) and of_finish_decoding calls, before and after the matrix has been consumed by an elimination (C01_ldpc_session_sound); with the encoder model: C01_ldpc_roundtrip (whatever is submitted, every source symbol the session holds is the one that was encoded). Hypotheses: symbol addition is XOR-like and the transmitted block satisfies the parity-check equations. The models are run against the real library on every receive set for small n, both APIs, with callbacks, sampled large blocks, and histories that continue after of_finish_decoding; the direct oracle compares every non-NULL entry of of_get_source_symbols_tab with the encoded symbol byte for byte.',
  'Lean 4 invariant proof over hand model (IT + ML, whole sessions) + differential correspondence + byte-exact oracle', 'DESIGN.md section 0.2 and section 4, C01'),
 'C02': (M, 'proof',
  'Theorems (Mathlib Lagrange interpolation over Field instances built from the bit-level multiplication): the model generator is the '
  'systematic Vandermonde/Lagrange generator on points 0,1,x,x^2,..., any k distinct encoding symbols determine every source symbol, fewer '
  'than k never do, the session model reports FAILURE with fewer than k; C02_executable_field_ops: the table-accelerated field operations the executable model runs are faithful copies of GF(2^8)/GF(2^4). Tie: generator matrices of the C codecs dumped for every k and '
  'compared with the model; decoder correspondence on all k-subsets for small n and sampled up to n=255/15.',
  'Lean 4 theorems (Lagrange/MDS) + exhaustive generator correspondence', 'DESIGN.md section 4, C02'),
 'C03': (M, 'proof',
  'Session/code level: C03_finish_ok_iff_determined: of_finish_decoding on the session model returns OK IF AND ONLY IF every codeword that vanishes on the symbols the decoder knows vanishes on the k source symbols (the sources are uniquely determined), for every well-formed staircase matrix and every decoder state; proved from: kernel vectors of the simplified system = codewords vanishing on the known symbols, the staircase makes determined sources imply determined repairs, fewer equations than unknowns imply a non-zero kernel vector (C03_few_equations_undetermined), and C03_determined_by_received (known symbols can be replaced by received symbols: the zero set of a codeword is closed under peeling). Solver level, for any p x q system with p >= q and symbols in any XOR-like structure: C03_solve_iff_full_rank, C03_solve_unique / C03_solve_sound, C03_success_is_rank_test (the outcome depends on the matrix only: not on payloads, order or API). Tie: of_finish_decoding on the real library vs the model and vs an independent GF(2) rank oracle over loss patterns concentrated where iterative decoding fails, with and without duplicate submissions.',
  'Lean 4 theorems (finish OK iff sources determined; elimination model) + rank oracle on the real decoder', 'DESIGN.md section 0.2 and section 4, C03'),
 'C04': (M, 'proof',
  'Theorem C04_eq: for every well-formed matrix and every finite submission sequence (any order, duplicates), the set known to the '
  'transliterated streaming decoder equals the peeling closure of the received set; order/duplicate independence as corollary; C04_session: the same for decoder sessions of the session model driven by any sequence of of_decode_with_new_symbol calls (the well-formedness hypothesis holds for every accepted configuration by C05_matrix_wf). Tie: '
  'available set and completion flag compared after every single call with the model and with an independent closure computation.',
  'Lean 4 invariant proof (peeling closure) + per-call correspondence', 'DESIGN.md section 4, C04 and appendix C.5'),
 'C05': (M, 'proof',
  'Theorems over the RFC 5170 transcription using the translated PRNG: the matrix is independent of the previous global PRNG state for '
  'valid seeds, an invalid seed keeps the state (why it must be rejected), N1>r rejected; C05_construction_total: the construction returns a matrix for every valid seed, N1<=n-k and sizes below 2^30 (termination of the rejection loops); C05_matrix_wf: EVERY matrix the construction returns, for every (k, n-k, N1, seed) and every rounding operator of the binary64 standard model, has n-k equations, no repeated entry, entries below n, no single-entry equation and the staircase shape (the hypotheses of the decoder theorems C01/C03/C04, which therefore hold for every accepted configuration: C05_configured_session). Termination of the rejection loops for every seed is not proved (fuel 2^31). Tie: the parity-check '
  'matrix of real encoder and decoder sessions is dumped after arbitrary other sessions (including near twins that differ in one of N1, seed, k, r) and compared row by row with the model and with an independent Python transcription.',
  'Lean 4 theorems over RFC 5170 model + matrix dump correspondence', 'DESIGN.md section 4, C05'),
 'C06': (M, 'proof',
  'Theorems: RS repair symbols are rows of the systematic Lagrange generator (both fields), codec 1 and codec 2/m=8 use the same field and '
  'points, LDPC repair symbols satisfy every parity equation and are uniquely determined, source slots are never modified and a NULL '
  'slot is allocated (model); C06_rs_encode_function: the encoder function the executable model runs (RS.encode with the table operations) equals the generator-matrix product for every k and repair index. Tie: unit payloads make the harness output the generator row/equation itself; every repair ESI, all k for '
  'GF(2^4), seeded k for GF(2^8), LDPC grid.',
  'Lean 4 theorems + generator/equation correspondence on unit payloads', 'DESIGN.md section 4, C06'),
 'C09': (M, 'proof',
  'Over the code itself (Gen/Validate.lean, regenerated each run by the translator in cut mode from of_openfec_api.c and the four *_api.c files): C09_generic_validation, C09_rs8_validation, C09_rs2m_validation, C09_ldpc_validation, C09_2d_validation state exactly which arguments pass each function\'s validation prefix, and C09_limits_are_the_code shows that the acceptance predicate of the session model is the conjunction of the translated checks with the limits regenerated from the headers. Theorem C09_accept_iff_limits: the session model returns OK if and only if the parameters are within the advertised limits (limits regenerated from the #defines), with no side condition: the LDPC-Staircase matrix construction is proved to return for every configuration inside the limits and every seed (termination of the RFC 5170 rejection loops: 2^31-1 prime, 16807 primitive root by the Lucas test, every value below a loop bound is the scaled output of some state under every binary64 rounding, every loop is entered with an acceptable value); '
  'rejected calls leave the session unconfigured; out-of-range ESIs are rejected. Tie: boundary grid of every field on the real library '
  'in forked children under ASan, followed by a full encode/decode cycle after each accepted configuration. One listed known finding '
  '(RS GF(2^m) n>2^m-1, required by the pinned suite).',
  'Lean 4 theorem (accept iff within limits) + boundary-grid correspondence', 'DESIGN.md section 4, C09'),
 'C10': (M, 'proof',
  'Theorems over the session model: finish=OK iff complete afterwards, FAILURE iff not, completion is monotone (Reed-Solomon; and LDPC-Staircase/2D in every decoder state, C10_ldpc_finish_truthful), submissions return OK, a '
  'source symbol submitted while unknown is recorded with the application pointer and the record of a known symbol is never touched again (C10_rs_pointer_identity, C10_ldpc_pointer_identity); a '
  'source symbol submitted while unknown is reported by the very pointer. Tie: traced sessions (query after every call) on all receive '
  'sets for small n, both APIs, callbacks, finish after completion and with fewer than k symbols, histories that continue after of_finish_decoding (second finish, late symbols); direct oracle on statuses.',
  'Lean 4 theorems over session state machine + traced correspondence', 'DESIGN.md section 4, C10'),
 'C11': (M, 'proof',
  'Theorems: callback events are exactly the missing source ESIs, each once, never a received one (Reed-Solomon; iterative-decoding stage of LDPC-Staircase/2D per call: C11_ldpc_recv_events, by an invariant on the list of rebuilt symbols of the decoder with a fuel-sufficiency argument; Gaussian-elimination stage: C11_ldpc_finish_events), value stored where the policy says, NULL falls '
  'back to a library buffer. Tie: sorted event multisets, buffer identity and contents on loss patterns per decoding stage (IT, ML).',
  'Lean 4 theorems over callback model + event-multiset correspondence', 'DESIGN.md section 4, C11'),
 'C13': (M, 'proof',
  'Theorems: each kernel model (8/4/1-byte phases, operand groups 8/4/2/1, 16-byte addmul rounds, packed GF(2^4)) equals the bytewise '
  'definition for every size and operand count, and depends only on the first size bytes. Tie: every kernel of the current tree called '
  'for all sizes 0..80 and large sizes, operand counts 0..20, all alignments, exact-size ASan buffers vs the model.',
  'Lean 4 theorems over kernel phase model + exhaustive small-size correspondence', 'DESIGN.md section 4, C13'),
 'C14': (T, 'proof',
  'Every table entry of the current tree (13 tables, 3 sets) is proved equal to bit-level arithmetic in GF(2)[x]/(p) by kernel evaluation '
  'over the whole index range; the tables are regenerated from the sources (header initialisers; run-time tables dumped from the '
  'unmodified translation unit) on every run, so a changed entry breaks a proof, and the failing entry is then located and re-read from '
  'the C object. The run-time tables of the GF(2^8) codec are also generated a second time (of_rs_init is exported) and must come out identical (C14_regeneration_idempotent).',
  'Lean 4 kernel evaluation (decide +kernel) over tables regenerated from source', 'DESIGN.md section 4, C14'),
 'C15': (M, 'proof',
  'Theorem C15_truthful: when the flag condition holds (no extra entries, N1 even) every column but the last has even weight, so the sum '
  'of all equations forces the last repair symbol to zero; the flag is the same function for both roles. C15_lastNullCheck_every_configuration / C15_truthful_every_configuration: the column-weight condition is PROVED for every matrix the RFC 5170 construction returns without extra entries and with N1 even (each source column receives exactly N1 distinct rows, each repair column the two staircase entries, the last one only one), for every (k, n-k, N1, seed) and every rounding operator of the binary64 standard model - so the encoder model emits a zero last repair symbol for every source block of every configuration for which the flag is true. Tie: flag of real encoder and '
  'decoder vs model over an even-N1 grid, and the real last repair symbol must be all zeros whenever the flag is set.',
  'Lean 4 theorem (column-parity argument) + flag/zero-symbol correspondence', 'DESIGN.md section 4, C15'),
 'C19': (T, 'proof',
  'of_rand.c is translated to Lean on every run (clang AST -> c2lean) and the theorems are re-proved over the translation: the Carta step '
  'equals 16807*s mod (2^31-1) for every state, outputs are exact floors when s\'*maxv<2^53 and always < maxv under the binary64 '
  'standard model, the seeding guard, the 10000th state; C19_executable_rounding_in_standard_model: the round-to-nearest-even function the executable model uses is itself proved to be in the standard model, so these theorems (and those of C20, C05) hold for the model that is run. The compiled C is also run against the translated model and a definitional oracle.',
  'Lean 4 theorems over a per-run C-to-Lean translation + differential run', 'DESIGN.md section 4, C19'),
 'C20': (T, 'proof',
  'of_compute_blocking_struct and double_to_closest_int are translated to Lean on every run; C20_full: for every 1 <= L < 2^32, E >= 1, B >= 1 and ANY rounding operator satisfying the binary64 standard model, the four outputs are N = ceil(T/B), A_large = ceil(T/N), A_small = floor(T/N), I = T mod N with T = ceil(L/E), hence A_large <= B and I*A_large + (N-I)*A_small = T (every ceil/floor is exact because quotients of 32-bit integers are at distance >= 1/divisor from the next integer; the product A_fraction*N is within 2^-18 of T mod N and the closest-integer routine returns it). Tie: exhaustive small T,B block and sampled 32-bit triples of the compiled C against the translated model with exact-rational rounding and an integer oracle.',
  'Lean 4 theorems over per-run translation + differential run', 'DESIGN.md section 4, C20'),
 'C17': (M, 'proof',
  'Theorems over a model that keeps what the C structure keeps (traversal order of every row and every column, entry pool counters): the invariant (sorted rows and columns, row/column consistency, bounds, free + used = 1024 x blocks) is preserved by EVERY operation sequence (C17_run_inv); find (last-of-row, last-of-column, parallel scan) <=> membership; idempotent insert; delete; clear; copy, copyrows, copycols, copy_filled_matrix specifications; conversion from dense yields an invariant-satisfying matrix with exactly the one bits, conversion to dense reads exactly the entry set. Tie: generated operation sequences on real matrices (all traversals forwards and backwards, find on every cell, pool counters after each mutation; every sequence up to length 4/5 over a 12-operation alphabet; random long ones with recycled entries and several pool blocks; sparse<->dense conversions on widths spanning several words) under ASan/LSan, compared with the model and with a Python set oracle.',
  'Lean 4 refinement proof (list model -> set) + operation-sequence correspondence', 'DESIGN.md section 4, C17'),
 'C18': (M, 'proof',
  'Theorems: the packed-word operations (get, set, flip, clear, xor_rows, copy, copyrows, copycols, row/column weights, conversion from and to the sparse representation and their round trip) equal the bit-matrix operation for every dimension and preserve the representation invariant; all popcount helpers, translated from the C source each run, equal the bit count for EVERY word: of_hweight32_naive, the SWAR routines of_hweight32 (all w < 2^32) and of_popcount_3 (all x < 2^64; byte-lane decomposition, per-lane facts by kernel evaluation over one byte, final multiplication/folding by linear arithmetic), the byte table of_hw8table and the four-lookup sum of of_hweight32_table; the bit macros of of_matrix_dense.h (getbit, setbit1, setbit0, word/bit index, words per row), translated each run through wrapper functions, are the primitives of the dense model (C18_macro_*); the solver theorems of C03 (unique solution iff full column rank, failure otherwise). copycols and the row/column weight loops are tied by correspondence. Tie: every exported dense operation on dimensions across word boundaries vs the model and a Python bit-matrix oracle; solver on all 0/1 systems with p,q<=3 with every NULL pattern of the right-hand sides and random systems up to 40x40.',
  'Lean 4 theorems (bit-matrix, solver) + exhaustive small-system correspondence', 'DESIGN.md section 4, C18'),
 'C08': (M, 'proof',
  'Partial by nature: theorem over the allocation-ledger model (what the application owns after release is exactly the library-allocated '
  'decoded source symbols and NULL-slot repair symbols, at any release point); the runtime part is observed: malloc/free hooks attribute '
  'every block to the session call that allocated it, release after every prefix of every history for all codecs and roles must leave '
  'exactly the predicted blocks, LeakSanitizer and ASan double-free detection on.',
  'Lean 4 ledger theorem + sanitizer-observed release-at-every-prefix sweep', 'DESIGN.md section 4, C08'),
 'C07': (M, 'proof',
  'Partial by nature: frame theorems over the session model (no step modifies a received symbol or an encoder source symbol; every index '
  'used is below the table length under accepted parameters) and kernel non-interference (C13); the runtime part is observed: exact-size '
  'heap buffers ending at the allocation end at all 8 alignments, canaries, checksums of every application buffer after every call, '
  'ASan on protocol-conforming histories at limit parameters and early release after every prefix.',
  'Lean 4 frame/bounds theorems + sanitizer-observed limit and prefix sweep', 'DESIGN.md section 4, C07'),
 'C12': (M, 'proof',
  'Theorems over the world model (global PRNG state + table of sessions): a call on one session leaves every other session unchanged; its answer and its effect on its own session do not depend on the other sessions or on the global PRNG state (valid LDPC parameters overwrite it, C05); C12_projection: in ANY interleaving the answers to a session (and its final state) are those of its calls run alone. Tie: 2-6 sessions of all codecs interleaved at random, all interleavings of two short histories, groups sharing (k, n-k) across codecs and fields, each session also replayed alone on the real library; every observation line must be identical.',
  'Lean 4 locality/projection theorem + interleaved-vs-solo differential run', 'DESIGN.md section 4, C12'),
 'C16': (M, 'proof',
  'Theorems: acceptance <=> a product shape exists, and for EVERY accepted configuration (kernel evaluation over the whole finite domain k<=16, n<=24) the matrix is the D x L product single-parity code, well formed, staircase shaped, covering every symbol; the encoder model satisfies every check; any single loss is in the peeling closure; the streaming decoder on these matrices is the peeling closure (C04 instantiated); C16_finish_ok_iff_determined: of_finish_decoding succeeds exactly when the checks determine the source symbols (C03 instantiated on every accepted shape); C16_roundtrip: no decoder session ever holds a wrong source symbol (C01 instantiated). Tie: the whole parameter grid, the real matrix of every accepted configuration, all receive patterns for n<=13 and sampled ones above through both APIs then finish, release after every prefix, on the real library (after four repairs of the 2D codec).',
  'Lean 4 theorems over 2D model + exhaustive configuration correspondence', 'DESIGN.md section 4, C16'),
}

NA = {}

def built(pid):
    return os.path.exists(os.path.join(VERIF, 'bin', 'props', pid + '.py'))

def main():
    props = [json.loads(l)['id'] for l in open(os.path.join(VERIF, 'properties.jsonl'))]
    checks, na = [], []
    for pid in props:
        if pid in CLAIMS and built(pid) and pid not in NA:
            eng, cat, text, tech, ref = CLAIMS[pid]
            checks.append({
                'property_id': pid,
                'quick_cmd': 'python3 bin/check.py %s --tier quick' % pid,
                'thorough_cmd': 'python3 bin/check.py %s --tier thorough' % pid,
                'evidence_file': '/verif/evidence/%s.json' % pid,
                'replay_cmd_template': 'python3 bin/check.py %s --replay {path}' % pid,
                'engine': eng,
                'level_claimed': {'category': cat, 'text': text, 'design_ref': ref},
                'level_note': NOTE_M if eng == M else
                    'Trusted: Lean kernel (+ Mathlib for the floating-point lemmas; axioms propext, Classical.choice, Quot.sound only), '
                    'c2lean.py and clang\'s AST / gcc + tabdump.c as extractors, RN53 as the model of binary64 arithmetic where doubles occur.',
                'technique': tech,
            })
        else:
            na.append({'property_id': pid, 'reason': NA.get(pid, 'check not built yet (work in progress; DESIGN.md section 8 build order); '
                                                             'not a statement that the technique cannot apply')})
    man = {
        'version': 1,
        'setup_cmd': 'python3 bin/check.py setup',
        'hooks': {'guard': 'OPENFEC_VERIF',
                  'enable': 'none needed: harnesses reach internals by translation-unit inclusion and internal headers; no hook commits',
                  'baseline_off_cmd': 'cmake --build /repo/_build && ctest --test-dir /repo/_build -j8 --timeout 900',
                  'source_commits': [], 'add_only': True},
        'engines': [
            {'name': T, 'path': '/verif/lean', 'serves_properties': [c['property_id'] for c in checks if c['engine'] == T],
             'kind_free_text': 'Lean 4 theorems over definitions regenerated from the C sources each run (tools/c2lean.py, harness/tabdump.c)'},
            {'name': M, 'path': '/verif/lean', 'serves_properties': [c['property_id'] for c in checks if c['engine'] == M],
             'kind_free_text': 'Lean 4 theorems over hand-written executable models (core Lean, compiled as ofmodel) + differential '
                               'correspondence against the real library built from the current tree with ASan/UBSan + direct oracles; several of these '
                               'properties (C05, C09, C15, C18) also rest on definitions regenerated from the C sources each run (PRNG, argument validation of every '
                               '*_set_fec_parameters and of the generic entry points, bit and column-mapping macros, popcount helpers)'}],
        'checks': checks,
        'notes': 'All checks: python3 bin/check.py <id> --tier quick|thorough; VERIF_SEED honoured; OPENFEC_REPO overrides /repo for '
                 'mutation self-tests. known_findings.json lists genuine defects (fixed ones suppress nothing).',
        'not_applicable': na,
    }
    path = os.path.join(VERIF, 'MANIFEST.json')
    json.dump(man, open(path, 'w'), indent=1)
    try:
        import jsonschema
        jsonschema.validate(man, json.load(open('/root/.vp/MANIFEST.schema.json')))
        print('MANIFEST.json valid: %d checks, %d not_applicable' % (len(checks), len(na)))
    except ImportError:
        print('MANIFEST.json written (jsonschema not importable here): %d checks' % len(checks))

if __name__ == '__main__':
    main()
