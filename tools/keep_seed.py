#!/usr/bin/env python3
"""keep_seed.py <worktree> <name> <check-id> [<check-id>...]
Confirms a seeded change delivered in <worktree>/_seed (suite still passes, demo fails with / passes without),
runs the named checks against the changed tree (OPENFEC_REPO=<worktree>), stores everything under
/verif/seeded/<name>/ and removes the worktree."""
import sys, os, subprocess, json, shutil, re
wt, name, checks = sys.argv[1], sys.argv[2], sys.argv[3:]
dst = os.path.join('/verif/seeded', name)
conf = subprocess.run(['/verif/tools/confirm_seed.sh', wt], capture_output=True, text=True).stdout
print(conf)
ok = 'CONFIRMED' in conf and 'NOT-CONFIRMED' not in conf
if not ok:
    print('not confirmed; nothing kept'); sys.exit(1)
os.makedirs(dst, exist_ok=True)
for f in os.listdir(os.path.join(wt, '_seed')):
    if f.endswith(('.diff', '.c', '.sh', '.json', '.txt', '.py')):
        shutil.copy(os.path.join(wt, '_seed', f), os.path.join(dst, f))
try:
    meta = json.load(open(os.path.join(dst, 'meta.json')))
except Exception:
    meta = {}
results = {}
env = dict(os.environ, OPENFEC_REPO=wt)
for c in checks:
    p = subprocess.run(['python3', '/verif/bin/check.py', c, '--tier', 'quick'], capture_output=True, text=True, env=env, cwd='/verif')
    lines = [l for l in p.stdout.splitlines() if l.startswith(('VIOLATION', 'KNOWN', '  ->'))]
    results[c] = {'exit': p.returncode, 'output': lines[:4]}
    print(c, p.returncode, lines[:2])
meta['confirmed_by_builder'] = conf.strip().splitlines()
meta['ran'] = {'confirm': 'tools/confirm_seed.sh <worktree>  (cmake build, ctest 265 tests, _seed/run_demo.sh with and without the change)',
               'checks': 'OPENFEC_REPO=<worktree with the change> python3 bin/check.py <id> --tier quick'}
meta['check_results'] = results
meta['caught_by'] = [c for c, r in results.items() if r['exit'] == 1 and any('no-failing-input-found' not in l for l in r['output'] if l.startswith('VIOLATION'))]
meta['caught_without_input_by'] = [c for c, r in results.items() if r['exit'] == 1 and c not in meta['caught_by']]
json.dump(meta, open(os.path.join(dst, 'meta.json'), 'w'), indent=1)
subprocess.run(['git', '-C', '/repo', 'worktree', 'remove', '--force', wt])
print('kept', dst, 'caught_by', meta['caught_by'], meta['caught_without_input_by'])
