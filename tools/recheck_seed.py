#!/usr/bin/env python3
"""recheck_seed.py <seed-name> [<check-id> ...]
Applies /verif/seeded/<seed-name>/patch.diff in a scratch worktree of /repo (outside /repo and /verif), runs the named checks
(default: the property the seed breaks) against it with OPENFEC_REPO pointing there, records the outcome in the seed's
meta.json, and removes the worktree."""
import sys, os, subprocess, json, shutil, tempfile
name = sys.argv[1]
d = os.path.join('/verif/seeded', name)
meta = json.load(open(os.path.join(d, 'meta.json')))
checks = sys.argv[2:] or [meta['property']]
wt = tempfile.mkdtemp(prefix='ofseed_', dir='/tmp')
os.rmdir(wt)
subprocess.run(['git', '-C', '/repo', 'worktree', 'add', '-q', '--detach', wt, 'HEAD'], check=True)
try:
    p = subprocess.run(['git', '-C', wt, 'apply', os.path.join(d, 'patch.diff')], capture_output=True, text=True)
    if p.returncode != 0:
        print('patch does not apply to the current tree:', p.stderr[:300]); sys.exit(2)
    env = dict(os.environ, OPENFEC_REPO=wt)
    res = meta.setdefault('check_results', {})
    for c in checks:
        p = subprocess.run(['python3', '/verif/bin/check.py', c, '--tier', 'quick'], capture_output=True, text=True, env=env, cwd='/verif')
        lines = [l for l in p.stdout.splitlines() if l.startswith(('VIOLATION', 'KNOWN', '  ->'))]
        res[c] = {'exit': p.returncode, 'output': [l[:400] for l in lines[:4]]}
        print(c, p.returncode, [l[:200] for l in lines[:2]])
    meta['caught_by'] = sorted(c for c, r in res.items() if r['exit'] == 1 and any('no-failing-input-found' not in l for l in r['output'] if l.startswith('VIOLATION')))
    meta['caught_without_input_by'] = sorted(c for c, r in res.items() if r['exit'] == 1 and c not in meta['caught_by'])
    json.dump(meta, open(os.path.join(d, 'meta.json'), 'w'), indent=1)
finally:
    subprocess.run(['git', '-C', '/repo', 'worktree', 'remove', '--force', wt])
    # evidence files were written against the scratch tree: the caller re-runs the checks on /repo before committing
