import OpenFecVerif.Model.Rfc5170
import OpenFecVerif.Model.Api
/-!
# Structure of every matrix the RFC 5170 construction returns

For any generator `rn`-instance whose outputs are in range (`GoodRand`, which `C19_step`/`C19_range` establish for every
rounding operator of the binary64 standard model), every matrix `Rfc5170.create` returns — whatever (k, n−k, N1, seed) —
has n−k equations; no equation has a repeated entry; all entries are below n; equation i contains repair symbol k+i and
otherwise only smaller symbols (staircase); no equation has exactly one entry.  These are the hypotheses `WFH`, `stairCheck`
and `wfCheck` of the decoder theorems (C01, C03, C04), which therefore hold for every accepted LDPC-Staircase configuration.
-/
namespace RfcWF
open Rfc5170

/-- the generator keeps its state in 1..2^31−2 and returns values below `maxv` -/
def GoodRand (rn : Rat → Rat) : Prop :=
  ∀ s maxv, 1 ≤ s → s ≤ 2147483646 → 1 ≤ maxv → maxv < 2 ^ 63 →
    (Gen.of_rfc5170_rand rn s maxv).2 < maxv ∧ 1 ≤ (Gen.of_rfc5170_rand rn s maxv).1 ∧ (Gen.of_rfc5170_rand rn s maxv).1 ≤ 2147483646

def SeedOk (s : Nat) : Prop := 1 ≤ s ∧ s ≤ 2147483646

theorem drawUntil_spec (rn : Rat → Rat) (hg : GoodRand rn) (maxv : Nat) (hm1 : 1 ≤ maxv) (hm : maxv < 2 ^ 63) (accept : Nat → Bool) :
    ∀ fuel s s' x, SeedOk s → drawUntil rn maxv accept fuel s = some (s', x) → SeedOk s' ∧ x < maxv ∧ accept x = true := by
  intro fuel
  induction fuel with
  | zero => intro s s' x _ h; simp [drawUntil] at h
  | succ fuel ih =>
    intro s s' x hs h
    obtain ⟨g1, g2, g3⟩ := hg s maxv hs.1 hs.2 hm1 hm
    simp only [drawUntil] at h
    split at h
    · rename_i hacc
      simp only [Option.some.injEq, Prod.mk.injEq] at h
      obtain ⟨rfl, rfl⟩ := h
      exact ⟨⟨g2, g3⟩, g1, hacc⟩
    · exact ih _ s' x ⟨g2, g3⟩ h

theorem existsFrom_pos (p : Nat → Bool) : ∀ lo cnt, existsFrom p lo cnt = true → 1 ≤ cnt := by
  intro lo cnt h
  cases cnt with
  | zero => simp [existsFrom] at h
  | succ c => omega

/-- invariant of the column-filling state -/
structure FillInv (r : Nat) (f : Fill) : Prop where
  seed_ok : SeedOk f.seed
  col_nodup : f.col.Nodup
  col_lt : ∀ x ∈ f.col, x < r
  u_lt : ∀ i, f.u.getD i 0 < r

theorem addOne_inv (rn : Rat → Rat) (hg : GoodRand rn) (r total : Nat) (hr : 1 ≤ r) (hr63 : r < 2 ^ 63) (ht63 : total < 2 ^ 63)
    (f f' : Fill) (inv : FillInv r f) (h : addOne rn r total f = some f') : FillInv r f' := by
  unfold addOne at h
  simp only at h
  split at h
  · rename_i havail
    have hpos := existsFrom_pos _ _ _ havail
    split at h
    · cases h
    · rename_i seed' x hd
      simp only [Option.some.injEq] at h
      subst h
      obtain ⟨hs, _, hacc⟩ := drawUntil_spec rn hg (total - f.t) hpos (by omega) _ _ _ _ _ inv.seed_ok hd
      refine ⟨hs, ?_, ?_, ?_⟩
      · refine List.nodup_cons.mpr ⟨?_, inv.col_nodup⟩
        intro hmem
        have : f.col.contains (f.u.getD (f.t + x) 0) = true := List.contains_iff_mem.mpr hmem
        rw [this] at hacc
        exact absurd hacc (by decide)
      · intro y hy
        rcases List.mem_cons.mp hy with rfl | hy
        · exact inv.u_lt _
        · exact inv.col_lt y hy
      · intro i
        simp only [Array.getD_eq_getD_getElem?, Array.getElem?_setIfInBounds]
        have hu := inv.u_lt
        simp only [Array.getD_eq_getD_getElem?] at hu
        split
        · split
          · exact hu f.t
          · exact hr
        · exact hu i
  · split at h
    · cases h
    · rename_i seed' x hd
      simp only [Option.some.injEq] at h
      subst h
      obtain ⟨hs, hx, hacc⟩ := drawUntil_spec rn hg r hr hr63 _ _ _ _ _ inv.seed_ok hd
      refine ⟨hs, ?_, ?_, inv.u_lt⟩
      · refine List.nodup_cons.mpr ⟨?_, inv.col_nodup⟩
        intro hmem
        have : f.col.contains x = true := List.contains_iff_mem.mpr hmem
        rw [this] at hacc
        exact absurd hacc (by decide)
      · intro y hy
        rcases List.mem_cons.mp hy with rfl | hy
        · exact hx
        · exact inv.col_lt y hy

theorem addN_inv (rn : Rat → Rat) (hg : GoodRand rn) (r total : Nat) (hr : 1 ≤ r) (hr63 : r < 2 ^ 63) (ht63 : total < 2 ^ 63) :
    ∀ n (f f' : Fill), FillInv r f → addN rn r total n f = some f' → FillInv r f' := by
  intro n
  induction n with
  | zero => intro f f' inv h; simp only [addN, Option.some.injEq] at h; subst h; exact inv
  | succ n ih =>
    intro f f' inv h
    simp only [addN] at h
    split at h
    · cases h
    · rename_i f1 h1
      exact ih f1 f' (addOne_inv rn hg r total hr hr63 ht63 f f1 inv h1) h


def ColsOk (r : Nat) (cols : List (List Nat)) : Prop := ∀ col ∈ cols, col.Nodup ∧ ∀ x ∈ col, x < r

theorem fold_cols (rn : Rat → Rat) (hg : GoodRand rn) (r total N1 : Nat) (hr : 1 ≤ r) (hr63 : r < 2 ^ 63) (ht63 : total < 2 ^ 63)
    {α : Type} (l : List α) (g : Option (Fill × List (List Nat)) → α → Option (Fill × List (List Nat)))
    (hgdef : ∀ acc x, g acc x = match acc with
        | none => none
        | some (f, cols) =>
          match addN rn r total N1 { f with col := [] } with
          | none => none
          | some f' => some (f', cols ++ [f'.col])) :
    ∀ (f0 : Fill) (cols0 : List (List Nat)) (f : Fill) (cols : List (List Nat)), FillInv r f0 → ColsOk r cols0 →
      l.foldl g (some (f0, cols0)) = some (f, cols) →
      FillInv r f ∧ ColsOk r cols ∧ cols.length = cols0.length + l.length := by
  have hnone : ∀ (t : List α), t.foldl g none = none := by
    intro t; induction t with
    | nil => rfl
    | cons b t iht => simp only [List.foldl_cons, hgdef]; exact iht
  induction l with
  | nil =>
    intro f0 cols0 f cols inv hc h
    simp only [List.foldl_nil, Option.some.injEq, Prod.mk.injEq] at h
    obtain ⟨rfl, rfl⟩ := h
    exact ⟨inv, hc, by simp⟩
  | cons a t ih =>
    intro f0 cols0 f cols inv hc h
    simp only [List.foldl_cons] at h
    rw [hgdef] at h
    simp only at h
    cases h1 : addN rn r total N1 { f0 with col := [] } with
    | none =>
      rw [h1] at h
      simp only at h
      rw [hnone] at h
      cases h
    | some f1 =>
      rw [h1] at h
      simp only at h
      have inv0 : FillInv r { f0 with col := [] } := ⟨inv.seed_ok, List.nodup_nil, (by intro x hx; cases hx), inv.u_lt⟩
      have inv1 := addN_inv rn hg r total hr hr63 ht63 N1 _ f1 inv0 h1
      have hc1 : ColsOk r (cols0 ++ [f1.col]) := by
        intro col hcol
        rcases List.mem_append.mp hcol with h2 | h2
        · exact hc col h2
        · simp only [List.mem_singleton] at h2; subst h2; exact ⟨inv1.col_nodup, inv1.col_lt⟩
      obtain ⟨r1, r2, r3⟩ := ih f1 (cols0 ++ [f1.col]) f cols inv1 hc1 h
      exact ⟨r1, r2, by simp at r3 ⊢; omega⟩

theorem fillCols_spec (rn : Rat → Rat) (hg : GoodRand rn) (k r N1 seed : Nat) (hr : 1 ≤ r) (hr63 : r < 2 ^ 63) (ht63 : N1 * k < 2 ^ 63)
    (hs : SeedOk seed) (s1 : Nat) (cols : List (List Nat)) (uneven : Nat) (h : fillCols rn k r N1 seed = some (s1, cols, uneven)) :
    SeedOk s1 ∧ cols.length = k ∧ ColsOk r cols := by
  unfold fillCols at h
  simp only at h
  obtain ⟨pr, hpr, heq⟩ := Option.map_eq_some_iff.mp h
  obtain ⟨f, cs⟩ := pr
  simp only [Prod.mk.injEq] at heq
  obtain ⟨rfl, rfl, _⟩ := heq
  have inv0 : FillInv r ({ seed := seed, u := Array.ofFn (n := N1 * k) fun i => i.val % r, t := 0, col := [], uneven := 0 } : Fill) := by
    refine ⟨hs, List.nodup_nil, (by intro x hx; cases hx), ?_⟩
    intro i
    simp only [Array.getD_eq_getD_getElem?]
    by_cases hi : i < N1 * k
    · simp only [Array.getElem?_ofFn, hi, dite_true, Option.getD_some]
      exact Nat.mod_lt _ (by omega)
    · simp only [Array.getElem?_ofFn, hi, dite_false, Option.getD_none]; omega
  have key : FillInv r f ∧ ColsOk r cs ∧ cs.length = ([] : List (List Nat)).length + (List.range k).length := by
    refine fold_cols rn hg r (N1 * k) N1 hr hr63 ht63 (List.range k) _ ?_ _ [] f cs inv0 (by intro c hc; cases hc) hpr
    intros; rfl
  obtain ⟨r1, r2, r3⟩ := key
  exact ⟨r1.seed_ok, by simpa using r3, r2⟩


/-! ### from per-column row lists to per-row column lists -/

def inner (a : Array (List Nat)) (j : Nat) (col : List Nat) : Array (List Nat) :=
  col.foldl (fun a i => a.modify i (fun l => j :: l)) a

theorem inner_size (j : Nat) : ∀ (col : List Nat) (a : Array (List Nat)), (inner a j col).size = a.size := by
  intro col
  induction col with
  | nil => intro a; rfl
  | cons c t ih => intro a; simp only [inner, List.foldl_cons] at ih ⊢; rw [ih]; simp

theorem inner_get (j : Nat) : ∀ (col : List Nat) (a : Array (List Nat)), col.Nodup → ∀ i (h : i < a.size),
    (inner a j col)[i]'(by rw [inner_size]; exact h) = if i ∈ col then j :: a[i] else a[i] := by
  intro col
  induction col with
  | nil => intro a _ i h; simp [inner]
  | cons c t ih =>
    intro a hnd i h
    have hnd' := List.nodup_cons.mp hnd
    have h' : i < (a.modify c (fun l => j :: l)).size := by simpa using h
    have := ih (a.modify c (fun l => j :: l)) hnd'.2 i h'
    simp only [inner, List.foldl_cons] at this ⊢
    rw [this]
    simp only [Array.getElem_modify]
    by_cases hic : c = i
    · subst hic
      simp [hnd'.1]
    · have hic' : ¬ i = c := fun e => hic e.symm
      simp [hic, hic']

/-- rows are duplicate-free and hold column indices in [n − s, n) -/
def RowInv (n s : Nat) (a : Array (List Nat)) : Prop :=
  ∀ i (h : i < a.size), a[i].Nodup ∧ ∀ x ∈ a[i], x < n ∧ n ≤ x + s

theorem fold_rows (n : Nat) : ∀ (cs : List (List Nat)) (s : Nat) (a : Array (List Nat)), (∀ col ∈ cs, col.Nodup) → s + cs.length ≤ n →
    RowInv n s a →
    RowInv n (s + cs.length) ((cs.zipIdx s).foldl (fun (a : Array (List Nat)) (p : List Nat × Nat) =>
      p.1.foldl (fun a i => a.modify i (fun l => (n - 1 - p.2) :: l)) a) a) ∧
    ((cs.zipIdx s).foldl (fun (a : Array (List Nat)) (p : List Nat × Nat) =>
      p.1.foldl (fun a i => a.modify i (fun l => (n - 1 - p.2) :: l)) a) a).size = a.size := by
  intro cs
  induction cs with
  | nil => intro s a _ _ inv; simpa using inv
  | cons c t ih =>
    intro s a hnd hlen inv
    simp only [List.zipIdx_cons, List.foldl_cons, List.length_cons] at hlen ⊢
    have hstep : RowInv n (s + 1) (inner a (n - 1 - s) c) := by
      intro i h
      have hi : i < a.size := by rw [inner_size] at h; exact h
      rw [inner_get (n - 1 - s) c a (hnd c (by simp)) i hi]
      obtain ⟨h1, h2⟩ := inv i hi
      split
      · refine ⟨List.nodup_cons.mpr ⟨?_, h1⟩, ?_⟩
        · intro hm
          have := (h2 _ hm).2
          omega
        · intro x hx
          rcases List.mem_cons.mp hx with rfl | hx
          · omega
          · have := h2 x hx; omega
      · exact ⟨h1, fun x hx => by have := h2 x hx; omega⟩
    obtain ⟨r1, r2⟩ := ih (s + 1) (inner a (n - 1 - s) c) (fun col hc => hnd col (by simp [hc])) (by omega) hstep
    constructor
    · have : s + 1 + t.length = s + (t.length + 1) := by omega
      rw [← this]; exact r1
    · exact r2.trans (inner_size _ _ _)

theorem rowsOf_spec (cols : List (List Nat)) (r : Nat) (hnd : ∀ col ∈ cols, col.Nodup) :
    (rowsOf cols r).length = r ∧ ∀ row ∈ rowsOf cols r, row.Nodup ∧ ∀ e ∈ row, e < cols.length := by
  unfold rowsOf
  simp only
  have h0 : RowInv cols.length 0 (Array.replicate r ([] : List Nat)) := by
    intro i h; simp
  obtain ⟨r1, r2⟩ := fold_rows cols.length cols.reverse 0 (Array.replicate r []) (fun col hc => hnd col (List.mem_reverse.mp hc))
    (by simp) h0
  constructor
  · simp only [Array.length_toList]
    rw [r2]; simp
  · intro row hrow
    rw [Array.mem_toList_iff, Array.mem_iff_getElem] at hrow
    obtain ⟨i, hi, rfl⟩ := hrow
    obtain ⟨q1, q2⟩ := r1 i hi
    exact ⟨q1, fun e he => (q2 e he).1⟩


/-! ### rows with fewer than two source entries get extra ones -/

/-- a row of source entries: no repetition, entries below k, not empty -/
def SrcRowOk (k : Nat) (row : List Nat) : Prop := row.Nodup ∧ (∀ e ∈ row, e < k) ∧ row ≠ []

theorem fixRows_spec (rn : Rat → Rat) (hg : GoodRand rn) (k : Nat) (hk : 1 ≤ k) (hk63 : k < 2 ^ 63) :
    ∀ (rows : List (List Nat)) (seed added : Nat) (done : List (List Nat)) (seed' : Nat) (rows2 : List (List Nat)) (added' : Nat),
      SeedOk seed → (∀ row ∈ rows, row.Nodup ∧ ∀ e ∈ row, e < k) → (∀ row ∈ done, SrcRowOk k row) →
      fixRows rn k rows seed added done = some (seed', rows2, added') →
      SeedOk seed' ∧ rows2.length = done.length + rows.length ∧ ∀ row ∈ rows2, SrcRowOk k row := by
  intro rows
  induction rows with
  | nil =>
    intro seed added done seed' rows2 added' hs _ hd h
    simp only [fixRows, Option.some.injEq, Prod.mk.injEq] at h
    obtain ⟨rfl, rfl, _⟩ := h
    exact ⟨hs, by simp, hd⟩
  | cons row rest ih =>
    intro seed added done seed' rows2 added' hs hr hd h
    have hrow := hr row (by simp)
    have hrest : ∀ row' ∈ rest, row'.Nodup ∧ ∀ e ∈ row', e < k := fun r' h' => hr r' (by simp [h'])
    -- the row after the first repair step
    have key : ∀ (seed1 : Nat) (row1 : List Nat) (added1 : Nat), SeedOk seed1 → SrcRowOk k row1 →
        (if (row1.length == 1 && decide (k > 1)) = true then
          match drawUntil rn k (fun x => x != row1.headD 0) loopFuel seed1 with
          | none => none
          | some (seed2, j) =>
            fixRows rn k rest seed2 (added1 + 1) (done ++ [if j < row1.headD 0 then [j, row1.headD 0] else [row1.headD 0, j]])
        else fixRows rn k rest seed1 added1 (done ++ [row1])) = some (seed', rows2, added') →
        SeedOk seed' ∧ rows2.length = done.length + (rest.length + 1) ∧ ∀ row ∈ rows2, SrcRowOk k row := by
      intro seed1 row1 added1 hs1 hok1 h1
      split at h1
      · rename_i hcond
        split at h1
        · cases h1
        · rename_i seed2 j hd2
          obtain ⟨hs2, hj, hacc⟩ := drawUntil_spec rn hg k hk hk63 _ _ _ _ _ hs1 hd2
          have hne : j ≠ row1.headD 0 := by simpa using hacc
          have hfirst : row1.headD 0 < k := by
            cases row1 with
            | nil => exact absurd rfl hok1.2.2
            | cons a t => exact hok1.2.1 a (by simp)
          have hnew : SrcRowOk k (if j < row1.headD 0 then [j, row1.headD 0] else [row1.headD 0, j]) := by
            generalize row1.headD 0 = first at hne hfirst ⊢
            split
            · refine ⟨List.nodup_cons.mpr ⟨by simpa using hne, by simp⟩, ?_, by simp⟩
              intro e he
              rcases List.mem_cons.mp he with rfl | he
              · exact hj
              · rcases List.mem_cons.mp he with rfl | he
                · exact hfirst
                · cases he
            · refine ⟨List.nodup_cons.mpr ⟨by simpa using (Ne.symm hne), by simp⟩, ?_, by simp⟩
              intro e he
              rcases List.mem_cons.mp he with rfl | he
              · exact hfirst
              · rcases List.mem_cons.mp he with rfl | he
                · exact hj
                · cases he
          have hd' : ∀ row ∈ done ++ [if j < row1.headD 0 then [j, row1.headD 0] else [row1.headD 0, j]], SrcRowOk k row := by
            intro r' hr'
            rcases List.mem_append.mp hr' with h2 | h2
            · exact hd r' h2
            · simp only [List.mem_singleton] at h2; subst h2; exact hnew
          obtain ⟨q1, q2, q3⟩ := ih seed2 (added1 + 1) _ seed' rows2 added' hs2 hrest hd' h1
          exact ⟨q1, by simp at q2 ⊢; omega, q3⟩
      · have hd' : ∀ row ∈ done ++ [row1], SrcRowOk k row := by
          intro r' hr'
          rcases List.mem_append.mp hr' with h2 | h2
          · exact hd r' h2
          · simp only [List.mem_singleton] at h2; subst h2; exact hok1
        obtain ⟨q1, q2, q3⟩ := ih seed1 added1 _ seed' rows2 added' hs1 hrest hd' h1
        exact ⟨q1, by simp at q2 ⊢; omega, q3⟩
    simp only [fixRows] at h
    by_cases hemp : row.isEmpty = true
    · simp only [hemp, if_true] at h
      obtain ⟨g1, g2, g3⟩ := hg seed k hs.1 hs.2 hk hk63
      have := key (Gen.of_rfc5170_rand rn seed k).1 [(Gen.of_rfc5170_rand rn seed k).2] (added + 1) ⟨g2, g3⟩
        ⟨by simp, by intro e he; simp at he; subst he; exact g1, by simp⟩ h
      simpa using this
    · have hemp' : row.isEmpty = false := by simpa using hemp
      simp only [hemp', Bool.false_eq_true, if_false] at h
      have hne : row ≠ [] := by intro e; rw [e] at hemp'; simp at hemp'
      have := key seed row added hs ⟨hrow.1, hrow.2, hne⟩ h
      simpa using this


/-! ### the staircase and the final statement -/

/-- equation i: its source entries, then the staircase -/
def mkRow (k i : Nat) (src : List Nat) : List Nat := src ++ (if i = 0 then [k] else [k + i - 1, k + i])

theorem mkRow_ok (k r i : Nat) (hi : i < r) (src : List Nat) (hsrc : SrcRowOk k src) :
    (mkRow k i src).Nodup ∧ (∀ e ∈ mkRow k i src, e < k + r) ∧ (mkRow k i src).length ≠ 1 ∧
    (mkRow k i src).contains (k + i) = true ∧ (mkRow k i src).all (fun e => e == k + i || decide (e < k + i)) = true := by
  obtain ⟨h1, h2, h3⟩ := hsrc
  have hlen : 1 ≤ src.length := by cases src with
    | nil => exact absurd rfl h3
    | cons a t => simp
  unfold mkRow
  by_cases h0 : i = 0
  · subst h0
    simp only [if_true]
    refine ⟨?_, ?_, ?_, ?_, ?_⟩
    · rw [List.nodup_append]
      refine ⟨h1, by simp, ?_⟩
      intro a ha b hb
      simp only [List.mem_singleton] at hb
      have := h2 a ha; omega
    · intro e he
      rcases List.mem_append.mp he with h | h
      · have := h2 e h; omega
      · simp only [List.mem_singleton] at h; omega
    · simp only [List.length_append, List.length_singleton]; omega
    · simp
    · rw [List.all_eq_true]
      intro e he
      rcases List.mem_append.mp he with h | h
      · have := h2 e h; simp; omega
      · simp only [List.mem_singleton] at h; simp [h]
  · simp only [h0, if_false]
    refine ⟨?_, ?_, ?_, ?_, ?_⟩
    · rw [List.nodup_append]
      refine ⟨h1, ?_, ?_⟩
      · refine List.nodup_cons.mpr ⟨?_, by simp⟩
        simp only [List.mem_singleton]; omega
      · intro a ha b hb
        have := h2 a ha
        simp only [List.mem_cons, List.mem_singleton, List.not_mem_nil, or_false] at hb
        omega
    · intro e he
      rcases List.mem_append.mp he with h | h
      · have := h2 e h; omega
      · simp only [List.mem_cons, List.mem_singleton, List.not_mem_nil, or_false] at h; omega
    · simp only [List.length_append, List.length_cons, List.length_nil]; omega
    · simp
    · rw [List.all_eq_true]
      intro e he
      rcases List.mem_append.mp he with h | h
      · have := h2 e h; simp; omega
      · simp only [List.mem_cons, List.mem_singleton, List.not_mem_nil, or_false] at h
        rcases h with h | h
        · simp; omega
        · simp [h]

theorem getD_map_range {α : Type} (f : Nat → α) (d : α) (r i : Nat) (hi : i < r) : ((List.range r).map f).getD i d = f i := by
  simp [List.getD_eq_getElem?_getD, hi]

/-- **Every matrix returned by the RFC 5170 construction is well formed and has the staircase shape.** -/
theorem create_wf (rn : Rat → Rat) (hg : GoodRand rn) (g k r N1 seed : Nat) (hk : 1 ≤ k) (hr : 1 ≤ r) (hk63 : k < 2 ^ 63) (hr63 : r < 2 ^ 63)
    (ht63 : N1 * k < 2 ^ 63) (hseed : SeedOk seed) (g' : Nat) (M : Matrix) (h : create rn g k r N1 seed = (g', some M)) :
    M.rows.length = r ∧ (∀ row ∈ M.rows, row.Nodup ∧ (∀ e ∈ row, e < k + r) ∧ row.length ≠ 1) ∧ Api.stairCheck k M.rows = true := by
  unfold create at h
  split at h
  · cases h
  · simp only at h
    have hs0 : Gen.of_rfc5170_srand g seed = seed := by
      unfold Gen.of_rfc5170_srand
      simp only [ge_iff_le, hseed.1, hseed.2, and_self, if_true]
    rw [hs0] at h
    split at h
    · cases h
    · rename_i s1 cols uneven hfill
      obtain ⟨hs1, hclen, hcols⟩ := fillCols_spec rn hg k r N1 seed hr hr63 ht63 hseed s1 cols uneven hfill
      obtain ⟨hrl, hrows⟩ := rowsOf_spec cols r (fun col hc => (hcols col hc).1)
      split at h
      · cases h
      · rename_i s2 rows2 added hfix
        simp only [Prod.mk.injEq, Option.some.injEq] at h
        obtain ⟨_, rfl⟩ := h
        obtain ⟨_, hlen2, hok2⟩ := fixRows_spec rn hg k hk hk63 (rowsOf cols r) s1 0 [] s2 rows2 added hs1
          (by intro row hrow; rw [← hclen]; exact hrows row hrow) (by intro row hrow; cases hrow) hfix
        have hlen2' : rows2.length = r := by simp at hlen2; omega
        have hsrc : ∀ i, i < r → SrcRowOk k (rows2.getD i []) := by
          intro i hi
          apply hok2
          rw [List.getD_eq_getElem?_getD, List.getElem?_eq_getElem (by omega)]
          exact List.getElem_mem _
        simp only
        refine ⟨by simp, ?_, ?_⟩
        · intro row hrow
          obtain ⟨i, hi, rfl⟩ := List.mem_map.mp hrow
          have hi' := List.mem_range.mp hi
          obtain ⟨q1, q2, q3, _, _⟩ := mkRow_ok k r i hi' _ (hsrc i hi')
          exact ⟨q1, q2, q3⟩
        · unfold Api.stairCheck
          rw [List.all_eq_true]
          intro i hi
          have hi' : i < r := by simpa using hi
          simp only [List.length_map, List.length_range] at hi ⊢
          rw [getD_map_range _ _ r i hi']
          obtain ⟨q1, _, _, q4, q5⟩ := mkRow_ok k r i hi' _ (hsrc i hi')
          simp only [Bool.and_eq_true, decide_eq_true_eq]
          exact ⟨⟨q1, q4⟩, q5⟩

end RfcWF
