import OpenFecVerif.Proofs.MLSound
import OpenFecVerif.Props.C03
/-!
# ML-completeness in terms of the code: `of_finish_decoding` succeeds iff the source symbols are uniquely determined

`IsCodeword H z` : the 0/1 word `z` satisfies every parity-check equation.  The difference of two candidate blocks that agree
on the known symbols is a codeword vanishing there, so "the source symbols are uniquely determined by the known symbols" is
`SourcesDetermined`: every codeword that vanishes on the known symbols vanishes on the sources.

* `kernel_iff_codeword` : kernel vectors of the simplified system = codewords vanishing on the known symbols.
* `stair_repairs_zero`  : with a staircase (equation i contains repair k+i and otherwise only smaller symbols) a codeword that
  vanishes on the sources vanishes everywhere, so determined sources mean determined repairs as well.
* `few_rows_kernel`     : a system with fewer equations than unknowns has a non-zero kernel vector (the solver model is not
  even started then, as in the C code).
-/
namespace MLComplete
open Gauss ITSound MLSound

/-- a 0/1 word satisfies every equation -/
def IsCodeword (H : List (List Nat)) (z : Nat → Bool) : Prop := ∀ row ∈ H, S boolOps z row = false

/-- every codeword vanishing on the known symbols (below n) vanishes on the source symbols -/
def SourcesDetermined (H : List (List Nat)) (k n : Nat) (known : Nat → Bool) : Prop :=
  ∀ z, IsCodeword H z → (∀ e, e < n → known e = true → z e = false) → ∀ i, i < k → z i = false

/-- the word that carries `v` on the unknown symbols (in their numbering) and zero elsewhere -/
def wordOf : List Nat → List Bool → Nat → Bool
  | u :: us, b :: bs, e => if e = u then b else wordOf us bs e
  | _, _, _ => false

theorem wordOf_not_mem : ∀ (unk : List Nat) (v : List Bool) (e : Nat), e ∉ unk → wordOf unk v e = false
  | [], _, _, _ => by simp [wordOf]
  | _ :: _, [], _, _ => by simp [wordOf]
  | u :: us, b :: bs, e, h => by
    have h1 : e ≠ u := fun h' => h (h' ▸ List.mem_cons_self)
    have h2 : e ∉ us := fun h' => h (List.mem_cons_of_mem _ h')
    simp only [wordOf, h1, if_false]
    exact wordOf_not_mem us bs e h2

theorem wordOf_map : ∀ (unk : List Nat) (v : List Bool), unk.Nodup → v.length = unk.length → unk.map (wordOf unk v) = v
  | [], [], _, _ => rfl
  | [], _ :: _, _, h => by simp at h
  | _ :: _, [], _, h => by simp at h
  | u :: us, b :: bs, hnd, hl => by
    have hnd' := List.nodup_cons.mp hnd
    simp only [List.map_cons, wordOf, if_true]
    congr 1
    rw [← wordOf_map us bs hnd'.2 (by simpa using hl)]
    apply List.map_congr_left
    intro x hx
    have : x ≠ u := fun h => hnd'.1 (h ▸ hx)
    simp only [wordOf, this, if_false]
    rw [wordOf_map us bs hnd'.2 (by simpa using hl)]

theorem S_bool_zero_of_all (z : Nat → Bool) (l : List Nat) (h : ∀ e ∈ l, z e = false) : S boolOps z l = false := by
  induction l with
  | nil => rfl
  | cons a t ih =>
    rw [S_cons boolOps_lawful, h a (by simp), ih (fun e he => h e (by simp [he]))]
    rfl

theorem dot_zero_row : ∀ (m : Nat) (v : List Bool), dot boolOps (List.replicate m false) v = false
  | 0, v => by cases v <;> rfl
  | m + 1, [] => rfl
  | m + 1, b :: bs => by rw [List.replicate_succ, dot_cons_false]; exact dot_zero_row m bs

/-- on a word that vanishes on the known symbols, the left-hand side of a generated equation is the parity of the whole
parity-check equation -/
theorem dot_eq_S (z : Nat → Bool) (known : Nat → Bool) (k r : Nat) (hz : ∀ e, e < k + r → known e = true → z e = false)
    (row : List Nat) (hnd : row.Nodup) (hlt : ∀ e ∈ row, e < k + r) :
    dot boolOps ((unknowns known k r).map fun e => row.contains e) ((unknowns known k r).map z) = S boolOps z row := by
  rw [dot_map boolOps_lawful]
  have hperm : ((unknowns known k r).filter fun e => row.contains e).Perm (row.filter fun e => !known e) := by
    rw [List.perm_ext_iff_of_nodup ((unknowns_nodup _ k r).filter _) (hnd.filter _)]
    intro a
    simp only [List.mem_filter, mem_unknowns, List.contains_iff_mem, Bool.not_eq_true', decide_eq_true_eq]
    constructor
    · rintro ⟨⟨_, h2⟩, h3⟩; exact ⟨h3, h2⟩
    · rintro ⟨h1, h2⟩; exact ⟨⟨hlt a h1, h2⟩, h1⟩
  rw [S_perm boolOps_lawful z hperm, S_split boolOps_lawful z known row]
  have h0 : S boolOps z (row.filter known) = false := by
    apply S_bool_zero_of_all
    intro e he
    have := List.mem_filter.mp he
    exact hz e (hlt e this.1) this.2
  rw [h0]
  cases S boolOps z (row.filter fun e => !known e) <;> rfl

/-- the coefficient rows of the system of `Api.ldpcFinish` -/
theorem system_mem {σ : Type} (O : Ops σ) (sym : Nat → Option σ) (unk : List Nat) (H : List (List Nat)) (rw : Gauss.Row σ) :
    rw ∈ system O sym unk H ↔ ∃ row ∈ H, (row.any fun e => !(sym e).isSome) = true ∧ rw = sysRow O sym unk row := by
  unfold system
  simp only [List.mem_filterMap]
  constructor
  · rintro ⟨row, hm, h⟩
    split at h
    · rename_i hc; cases h; exact ⟨row, hm, hc, rfl⟩
    · cases h
  · rintro ⟨row, hm, hc, rfl⟩
    refine ⟨row, hm, ?_⟩
    rw [if_pos hc]

/-- well-formedness of the equations w.r.t. n = k + r -/
def WFH (H : List (List Nat)) (n : Nat) : Prop := ∀ row ∈ H, row.Nodup ∧ ∀ e ∈ row, e < n

/-- **kernel vectors of the simplified system are the codewords that vanish on the known symbols** (→) -/
theorem codeword_kernel {σ : Type} (O : Ops σ) (sym : Nat → Option σ) (k r : Nat) (H : List (List Nat)) (hwf : WFH H (k + r))
    (z : Nat → Bool) (hcw : IsCodeword H z) (hz : ∀ e, e < k + r → (sym e).isSome = true → z e = false) :
    InKernel (system O sym (unknowns (fun e => (sym e).isSome) k r) H) ((unknowns (fun e => (sym e).isSome) k r).map z) := by
  intro rw hrw
  obtain ⟨row, hm, _, rfl⟩ := (system_mem O sym _ H rw).mp hrw
  show dot boolOps ((unknowns (fun e => (sym e).isSome) k r).map fun e => row.contains e) _ = false
  rw [dot_eq_S z (fun e => (sym e).isSome) k r hz row (hwf row hm).1 (hwf row hm).2]
  exact hcw row hm

/-- (←) -/
theorem kernel_codeword {σ : Type} (O : Ops σ) (sym : Nat → Option σ) (k r : Nat) (H : List (List Nat)) (hwf : WFH H (k + r))
    (v : List Bool) (hv : v.length = (unknowns (fun e => (sym e).isSome) k r).length)
    (hk : InKernel (system O sym (unknowns (fun e => (sym e).isSome) k r) H) v) :
    IsCodeword H (wordOf (unknowns (fun e => (sym e).isSome) k r) v) ∧
    (∀ e, e < k + r → (sym e).isSome = true → wordOf (unknowns (fun e => (sym e).isSome) k r) v e = false) ∧
    (unknowns (fun e => (sym e).isSome) k r).map (wordOf (unknowns (fun e => (sym e).isSome) k r) v) = v := by
  have hmap := wordOf_map _ v (unknowns_nodup (fun e => (sym e).isSome) k r) hv
  have hvan : ∀ e, e < k + r → (sym e).isSome = true → wordOf (unknowns (fun e => (sym e).isSome) k r) v e = false := by
    intro e _ hke
    apply wordOf_not_mem
    intro hmem
    have := ((mem_unknowns _ k r e).mp hmem).2
    simp [hke] at this
  refine ⟨?_, hvan, hmap⟩
  intro row hm
  rw [← dot_eq_S _ (fun e => (sym e).isSome) k r hvan row (hwf row hm).1 (hwf row hm).2, hmap]
  by_cases hc : (row.any fun e => !(sym e).isSome) = true
  · exact hk _ ((system_mem O sym _ H _).mpr ⟨row, hm, hc, rfl⟩)
  · -- no unknown member: the coefficient row is all false
    have hall : ∀ e ∈ unknowns (fun e => (sym e).isSome) k r, row.contains e = false := by
      intro e he
      have hu := ((mem_unknowns _ k r e).mp he).2
      cases hce : row.contains e with
      | false => rfl
      | true =>
        exfalso; apply hc
        rw [List.any_eq_true]
        exact ⟨e, List.contains_iff_mem.mp hce, by simp [hu]⟩
    have : ((unknowns (fun e => (sym e).isSome) k r).map fun e => row.contains e)
        = List.replicate (unknowns (fun e => (sym e).isSome) k r).length false := by
      apply List.ext_getElem
      · simp
      · intro i h1 h2
        simp only [List.getElem_map, List.getElem_replicate]
        exact hall _ (List.getElem_mem _)
    rw [this]
    -- a zero coefficient row gives zero
    exact dot_zero_row _ v


/-! ### the staircase: determined sources mean determined repairs -/

theorem stair_repairs_zero (k : Nat) (H : List (List Nat)) (hs : Api.stairCheck k H = true) (z : Nat → Bool)
    (hcw : IsCodeword H z) (hsrc : ∀ i, i < k → z i = false) : ∀ i, i < H.length → z (k + i) = false := by
  intro i
  induction i using Nat.strongRecOn with
  | _ i ih =>
    intro hi
    unfold Api.stairCheck at hs
    rw [List.all_eq_true] at hs
    have hrow := hs i (List.mem_range.mpr hi)
    simp only [Bool.and_eq_true, decide_eq_true_eq, List.all_eq_true, Bool.or_eq_true, beq_iff_eq] at hrow
    obtain ⟨⟨hnd, hcont⟩, hall⟩ := hrow
    have hget : H.getD i [] = H[i] := by simp [List.getD_eq_getElem?_getD, List.getElem?_eq_getElem hi]
    rw [hget] at hnd hcont hall
    have hmem : k + i ∈ H[i] := List.contains_iff_mem.mp hcont
    have hsum := hcw H[i] (List.getElem_mem hi)
    rw [S_remove boolOps_lawful z hnd hmem] at hsum
    have hrest : S boolOps z (H[i].filter fun e => e != k + i) = false := by
      apply S_bool_zero_of_all
      intro e he
      have hm := List.mem_filter.mp he
      have hne : e ≠ k + i := by simpa using hm.2
      rcases hall e hm.1 with h | h
      · exact absurd h hne
      · by_cases hek : e < k
        · exact hsrc e hek
        · have : e = k + (e - k) := by omega
          rw [this]
          exact ih (e - k) (by omega) (by omega)
    rw [hrest] at hsum
    cases hz : z (k + i) with
    | false => rfl
    | true => rw [hz] at hsum; exact absurd hsum (by decide)

/-! ### fewer equations than unknowns: a non-zero kernel vector -/

def ZeroRow {σ : Type} (r : Gauss.Row σ) : Prop := ∀ j, bit r.1 j = false

theorem elimCol_zero_row {σ : Type} (O : Ops σ) (i : Nat) (rows rows' : List (Gauss.Row σ)) (h : elimCol O i rows = some rows')
    (hz : ∃ r ∈ rows, ZeroRow r) : ∃ r ∈ rows', ZeroRow r := by
  obtain ⟨z, hzm, hzz⟩ := hz
  unfold elimCol at h
  cases hp : pivot i (rows.drop i) with
  | none => simp [hp] at h
  | some l =>
    obtain ⟨hperm, p, below, rfl, hbit⟩ := pivot_perm i _ l hp
    simp only [hp, Option.some.injEq] at h
    subst h
    refine ⟨z, ?_, hzz⟩
    have hsplit : z ∈ rows.take i ++ rows.drop i := by rw [List.take_append_drop]; exact hzm
    rcases List.mem_append.mp hsplit with h1 | h2
    · exact List.mem_append_left _ h1
    · apply List.mem_append_right
      have h3 : z ∈ p :: below := hperm.mem_iff.mpr h2
      rcases List.mem_cons.mp h3 with rfl | h4
      · have := hzz i; rw [hbit] at this; cases this
      · apply List.mem_cons_of_mem
        apply List.mem_map.mpr
        exact ⟨z, h4, by simp [hzz i]⟩

theorem fold_zero_row {σ : Type} (O : Ops σ) (rows : List (Gauss.Row σ)) (hz : ∃ r ∈ rows, ZeroRow r) : ∀ n mid,
    (List.range n).foldl (fun acc i => acc.bind (elimCol O i)) (some rows) = some mid → ∃ r ∈ mid, ZeroRow r := by
  intro n
  induction n with
  | zero => intro mid h; simp only [List.range_zero, List.foldl_nil, Option.some.injEq] at h; subst h; exact hz
  | succ n ih =>
    intro mid h
    rw [List.range_succ, List.foldl_append] at h
    simp only [List.foldl_cons, List.foldl_nil] at h
    cases hprev : (List.range n).foldl (fun acc i => acc.bind (elimCol O i)) (some rows) with
    | none => rw [hprev] at h; simp at h
    | some m1 =>
      rw [hprev] at h
      simp only [Option.bind_some] at h
      exact elimCol_zero_row O n m1 mid h (ih m1 hprev)

theorem few_rows_kernel (q : Nat) (B : List (Gauss.Row Bool)) (hw : Wide q B) (hlen : B.length < q) (hz : ∀ r ∈ B, r.2 = false) :
    ∃ v : List Bool, v.length = q ∧ v ≠ List.replicate q false ∧ ∀ r ∈ B, dot boolOps r.1 v = false := by
  let pad : List (Gauss.Row Bool) := List.replicate (q - B.length) (List.replicate q false, false)
  have hpadmem : ∀ r ∈ pad, r = (List.replicate q false, false) := fun r hr => (List.mem_replicate.mp hr).2
  have hw' : Wide q (B ++ pad) := by
    intro r hr
    rcases List.mem_append.mp hr with h | h
    · exact hw r h
    · rw [hpadmem r h]; simp
  have hlen' : (B ++ pad).length = q := by simp [pad]; omega
  have hz' : ∀ r ∈ B ++ pad, r.2 = false := by
    intro r hr
    rcases List.mem_append.mp hr with h | h
    · exact hz r h
    · rw [hpadmem r h]
  have hzero : ∃ r ∈ B ++ pad, ZeroRow r := by
    refine ⟨(List.replicate q false, false), ?_, ?_⟩
    · apply List.mem_append_right
      exact List.mem_replicate.mpr ⟨by omega, rfl⟩
    · intro j
      simp only [bit, List.getD_eq_getElem?_getD]
      cases h : (List.replicate q false)[j]? with
      | none => rfl
      | some b =>
        have := List.mem_of_getElem? h
        simp only [List.mem_replicate] at this
        simp [this.2]
  have hfail : triangularize boolOps q (B ++ pad) = none := by
    cases ht : triangularize boolOps q (B ++ pad) with
    | none => rfl
    | some T =>
      exfalso
      unfold triangularize at ht
      obtain ⟨_, hTl, hTri, _⟩ := triangularize_spec boolOps_lawful q (B ++ pad) hw' q (Nat.le_refl q) T ht
      obtain ⟨r, hrm, hrz⟩ := fold_zero_row boolOps (B ++ pad) hzero q T ht
      obtain ⟨idx, hidx, rfl⟩ := List.mem_iff_getElem.mp hrm
      obtain ⟨⟨_, hb⟩, _⟩ := hTri idx (by omega)
      rw [hrz idx] at hb
      cases hb
  obtain ⟨v, hv, hne, hk⟩ := fail_kernel q (B ++ pad) hw' (by omega) hz' hfail
  exact ⟨v, hv, hne, fun r hr => hk r (List.mem_append_left _ hr)⟩


/-! ### `of_finish_decoding` on the session model succeeds iff the sources are determined -/

open Api in
/-- **ML-completeness of `of_finish_decoding`.**  On a configured LDPC-Staircase session whose matrix has not yet been consumed by
a Gaussian elimination, the call returns OK exactly when the source symbols are uniquely determined by the symbols the decoder
knows (received or rebuilt by iterative decoding) and the parity-check equations — whatever the symbol values, the order of
arrival and the submission API were. -/
theorem finish_ok_iff_determined {σ : Type} (IO : SymIO σ) (s : Session σ) (p : Params) (it : IT.St σ) (hit : s.it = some it)
    (hcons : s.mlConsumed = false) (hwf : WFH s.H (p.k + p.r)) (hstair : stairCheck p.k s.H = true) (hHlen : s.H.length = p.r)
    (hk : it.k = p.k) :
    (ldpcFinish IO s p).1 = Status.ok ↔ SourcesDetermined s.H p.k (p.k + p.r) it.known := by
  have hknown : it.known = fun e => (it.sym.get e).isSome := rfl
  rw [ldpcFinish_eq]
  unfold ldpcFinish'
  simp only [hit, hcons]
  by_cases hc : it.complete = true
  · simp only [hc, if_true, true_iff]
    intro z _ hz i hi
    unfold IT.St.complete at hc
    rw [List.all_eq_true] at hc
    exact hz i (by omega) (hc i (List.mem_range.mpr (by omega)))
  · have hc' : it.complete = false := by simpa using hc
    simp only [hc', Bool.false_eq_true, if_false]
    have hw : Wide (unknowns (fun e => (it.sym.get e).isSome) p.k p.r).length
        (system (IO.ops 3 p.m p.len) it.sym.get (unknowns (fun e => (it.sym.get e).isSome) p.k p.r) s.H) := by
      intro r hr
      obtain ⟨row, _, _, rfl⟩ := (system_mem _ _ _ _ r).mp hr
      simp [sysRow]
    -- a non-zero kernel vector refutes determination (through the staircase)
    have refute : ∀ v : List Bool, v.length = (unknowns (fun e => (it.sym.get e).isSome) p.k p.r).length →
        v ≠ List.replicate (unknowns (fun e => (it.sym.get e).isSome) p.k p.r).length false →
        InKernel (system (IO.ops 3 p.m p.len) it.sym.get (unknowns (fun e => (it.sym.get e).isSome) p.k p.r) s.H) v →
        ¬ SourcesDetermined s.H p.k (p.k + p.r) it.known := by
      intro v hv hne hker hdet
      obtain ⟨hcw, hvan, hmap⟩ := kernel_codeword (IO.ops 3 p.m p.len) it.sym.get p.k p.r s.H hwf v hv hker
      have hsrc := hdet _ hcw hvan
      have hrep := stair_repairs_zero p.k s.H hstair _ hcw hsrc
      apply hne
      rw [← hmap]
      apply List.ext_getElem
      · simp
      · intro i h1 h2
        simp only [List.getElem_map, List.getElem_replicate]
        have hmem := List.getElem_mem h1
        simp only [List.length_map] at h1
        have hlt := ((mem_unknowns _ p.k p.r _).mp (List.getElem_mem h1)).1
        by_cases hs : (unknowns (fun e => (it.sym.get e).isSome) p.k p.r)[i] < p.k
        · exact hsrc _ hs
        · have : (unknowns (fun e => (it.sym.get e).isSome) p.k p.r)[i]
              = p.k + ((unknowns (fun e => (it.sym.get e).isSome) p.k p.r)[i] - p.k) := by omega
          rw [this]
          exact hrep _ (by omega)
    split
    · rename_i hlen
      simp only [false_iff, reduceCtorEq]
      have hwB : Wide (unknowns (fun e => (it.sym.get e).isSome) p.k p.r).length
          (homog (system (IO.ops 3 p.m p.len) it.sym.get (unknowns (fun e => (it.sym.get e).isSome) p.k p.r) s.H)) := by
        intro r hr; obtain ⟨r0, hr0, rfl⟩ := List.mem_map.mp hr; exact hw r0 hr0
      obtain ⟨v, hv, hne, hker⟩ := few_rows_kernel _ _ hwB (by simpa [homog] using hlen)
        (by intro r hr; obtain ⟨r0, _, rfl⟩ := List.mem_map.mp hr; rfl)
      exact refute v hv hne (fun r hr => hker (r.1, false) (List.mem_map_of_mem hr))
    · rename_i hlen
      have hiff := C03_solve_iff_full_rank (IO.ops 3 p.m p.len) _ _ hw (by omega)
      split
      · rename_i hsolve
        simp only [false_iff, reduceCtorEq]
        rw [hsolve] at hiff
        simp only [Option.isSome_none, Bool.false_eq_true, false_iff] at hiff
        obtain ⟨v, hv⟩ := Classical.not_forall.mp hiff
        obtain ⟨hlenv, hv2⟩ := Classical.not_imp.mp hv
        obtain ⟨hker, hne⟩ := Classical.not_imp.mp hv2
        exact refute v hlenv hne hker
      · rename_i xs hsolve
        simp only [true_iff]
        rw [hsolve] at hiff
        have hall := hiff.mp rfl
        intro z hcw hz i hi
        have hz' : ∀ e, e < p.k + p.r → (it.sym.get e).isSome = true → z e = false := hz
        have hker := codeword_kernel (IO.ops 3 p.m p.len) it.sym.get p.k p.r s.H hwf z hcw hz'
        have hzero := hall _ (by simp) hker
        cases hki : it.known i with
        | true => exact hz i (by omega) hki
        | false =>
          have hmem : i ∈ unknowns (fun e => (it.sym.get e).isSome) p.k p.r := (mem_unknowns _ p.k p.r i).mpr ⟨by omega, hki⟩
          obtain ⟨idx, hidx, hget⟩ := List.mem_iff_getElem.mp hmem
          have := congrArg (fun l => l[idx]?) hzero
          simp only [List.getElem?_map, List.getElem?_eq_getElem hidx, Option.map_some, List.getElem?_replicate, hidx, if_true,
            Option.some.injEq] at this
          rw [hget] at this
          exact this


/-! ### determination by the received symbols -/

/-- the zero set of a codeword is closed under peeling -/
theorem zero_set_peelClosed (Hl : List (List Nat)) (hnd : ∀ row ∈ Hl, row.Nodup) (z : Nat → Bool) (hcw : IsCodeword Hl z) :
    ITAbs.PeelClosed (ITRefine.Hf Hl) (fun e => z e = false) := by
  intro r e he hall
  have hrow : ITRefine.Hf Hl r ∈ Hl := by
    unfold ITRefine.Hf at he ⊢
    simp only [List.getD_eq_getElem?_getD] at he ⊢
    cases h : Hl[r]? with
    | none => rw [h] at he; simp at he
    | some row => simp only [Option.getD_some]; exact List.mem_of_getElem? h
  have hsum := hcw _ hrow
  rw [S_remove boolOps_lawful z (hnd _ hrow) he] at hsum
  have hrest : S boolOps z ((ITRefine.Hf Hl r).filter fun x => x != e) = false := by
    apply S_bool_zero_of_all
    intro x hx
    have hm := List.mem_filter.mp hx
    exact hall x hm.1 (by simpa using hm.2)
  rw [hrest] at hsum
  cases hz : z e with
  | false => rfl
  | true => rw [hz] at hsum; exact absurd hsum (by decide)

/-- when the decoder knows exactly symbols of the peeling closure of the received set `R` (which is what streaming decoding
guarantees, C04), "determined by what the decoder knows" is "determined by what was received" -/
theorem determined_by_received (Hl : List (List Nat)) (hnd : ∀ row ∈ Hl, row.Nodup) (k n : Nat) (R : Nat → Prop) (known : Nat → Bool)
    (hRn : ∀ e, R e → e < n) (hsub : ∀ e, R e → known e = true)
    (hcl : ∀ e, known e = true → ITAbs.InClosure (ITRefine.Hf Hl) R e) :
    SourcesDetermined Hl k n known ↔
      ∀ z, IsCodeword Hl z → (∀ e, R e → z e = false) → ∀ i, i < k → z i = false := by
  constructor
  · intro hdet z hcw hz i hi
    apply hdet z hcw _ i hi
    intro e _ hke
    exact hcl e hke (fun x => z x = false) hz (zero_set_peelClosed Hl hnd z hcw)
  · intro h z hcw hz i hi
    exact h z hcw (fun e he => hz e (hRn e he) (hsub e he)) i hi

end MLComplete
