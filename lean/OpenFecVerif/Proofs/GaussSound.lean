import OpenFecVerif.Model.Gauss
/-!
Soundness and uniqueness of the symbol-level solver model `Gauss.solve` (forward elimination with row exchange, then
backward substitution), for symbols in any structure where addition is associative, commutative, has a neutral element
and every element is its own opposite (XOR of byte strings is the executable instance).  Core Lean only.
-/
namespace Gauss
variable {σ : Type}

structure Lawful (O : Ops σ) : Prop where
  add_assoc : ∀ a b c, O.add (O.add a b) c = O.add a (O.add b c)
  add_comm : ∀ a b, O.add a b = O.add b a
  add_zero : ∀ a, O.add a O.zero = a
  add_self : ∀ a, O.add a a = O.zero

theorem Lawful.zero_add {O : Ops σ} (h : Lawful O) (a : σ) : O.add O.zero a = a := by rw [h.add_comm, h.add_zero]

/-- a + b + b = a -/
theorem Lawful.add_cancel {O : Ops σ} (h : Lawful O) (a b : σ) : O.add (O.add a b) b = a := by
  rw [h.add_assoc, h.add_self, h.add_zero]

/-- left-hand side of an equation at the assignment x: the sum of the x_j with coefficient 1 -/
def dot (O : Ops σ) : List Bool → List σ → σ
  | c :: cs, v :: vs => if c then O.add v (dot O cs vs) else dot O cs vs
  | _, _ => O.zero

/-- x satisfies the equation r -/
def Sat (O : Ops σ) (x : List σ) (r : Row σ) : Prop := dot O r.1 x = r.2

theorem xorBits_cons (x y : Bool) (a b : List Bool) : xorBits (x :: a) (y :: b) = (x != y) :: xorBits a b := rfl

theorem dot_cons_true (O : Ops σ) (cs : List Bool) (v : σ) (vs : List σ) : dot O (true :: cs) (v :: vs) = O.add v (dot O cs vs) := by
  simp [dot]
theorem dot_cons_false (O : Ops σ) (cs : List Bool) (v : σ) (vs : List σ) : dot O (false :: cs) (v :: vs) = dot O cs vs := by
  simp [dot]

theorem dot_xor {O : Ops σ} (h : Lawful O) : ∀ (a b : List Bool) (x : List σ), a.length = b.length →
    dot O (xorBits a b) x = O.add (dot O a x) (dot O b x)
  | [], [], x, _ => by simp [xorBits, dot, h.add_zero]
  | [], _ :: _, _, hl => by simp at hl
  | _ :: _, [], _, hl => by simp at hl
  | ca :: a, cb :: b, [], _ => by simp [xorBits, dot, h.add_zero]
  | ca :: a, cb :: b, v :: vs, hl => by
    have ih := dot_xor h a b vs (by simpa using hl)
    rw [xorBits_cons]
    cases ca <;> cases cb
    · show dot O (false :: xorBits a b) (v :: vs) = _
      rw [dot_cons_false, dot_cons_false, dot_cons_false, ih]
    · show dot O (true :: xorBits a b) (v :: vs) = _
      rw [dot_cons_true, dot_cons_false, dot_cons_true, ih, ← h.add_assoc, h.add_comm v, h.add_assoc]
    · show dot O (true :: xorBits a b) (v :: vs) = _
      rw [dot_cons_true, dot_cons_true, dot_cons_false, ih, h.add_assoc]
    · show dot O (false :: xorBits a b) (v :: vs) = _
      rw [dot_cons_false, dot_cons_true, dot_cons_true, ih]
      -- (v + A) + (v + B) = A + B
      rw [h.add_assoc, ← h.add_assoc (dot O a vs) v, h.add_comm (dot O a vs) v, h.add_assoc v, ← h.add_assoc v v, h.add_self, h.zero_add]

/-- adding the pivot equation to another one does not change which assignments satisfy both -/
theorem sat_addRow {O : Ops σ} (h : Lawful O) (x : List σ) (r p : Row σ) (hl : r.1.length = p.1.length) (hp : Sat O x p) :
    Sat O x (addRow O r p) ↔ Sat O x r := by
  unfold Sat addRow at *
  simp only
  rw [dot_xor h _ _ _ hl, hp]
  constructor
  · intro e
    have := congrArg (fun t => O.add t p.2) e
    simp only [h.add_cancel] at this
    exact this
  · intro e; rw [e]

theorem bit_xorBits (a b : List Bool) (j : Nat) (hl : a.length = b.length) : bit (xorBits a b) j = (bit a j != bit b j) := by
  unfold bit xorBits
  induction a generalizing b j with
  | nil => cases b <;> simp at hl ⊢
  | cons x a ih =>
    cases b with
    | nil => simp at hl
    | cons y b =>
      cases j with
      | zero => simp
      | succ j => simpa using ih b j (by simpa using hl)

theorem length_xorBits (a b : List Bool) (hl : a.length = b.length) : (xorBits a b).length = a.length := by
  unfold xorBits; simp [hl]

/-! ### the row exchange is a permutation -/

theorem perm_cons_set {α : Type} (a : α) : ∀ (t : List α) (k : Nat) (hk : k < t.length), (a :: t).Perm (t[k] :: t.set k a)
  | b :: t, 0, _ => by simpa using List.Perm.swap b a t
  | b :: t, k + 1, hk => by
    have ih := perm_cons_set a t k (by simpa using hk)
    simp only [List.getElem_cons_succ, List.set_cons_succ]
    -- a :: b :: t ~ b :: a :: t ~ b :: t[k] :: t.set k a ~ t[k] :: b :: t.set k a
    exact ((List.Perm.swap b a t).trans (List.Perm.cons b ih)).trans (List.Perm.swap _ _ _)

theorem pivot_perm (i : Nat) (rest l : List (Row σ)) (h : pivot i rest = some l) :
    l.Perm rest ∧ (∃ p below, l = p :: below ∧ bit p.1 i = true) := by
  unfold pivot at h
  cases hj : rest.findIdx? (fun r => bit r.1 i) with
  | none => simp [hj] at h
  | some j =>
    simp only [hj] at h
    have hjlt : j < rest.length := (List.findIdx?_eq_some_iff_getElem.mp hj).1
    have hbit : bit (rest[j]).1 i = true := (List.findIdx?_eq_some_iff_getElem.mp hj).2.1
    cases rest with
    | nil => simp at hjlt
    | cons hd t =>
      simp only [List.getElem?_eq_getElem hjlt, List.head?_cons] at h
      by_cases hj0 : j = 0
      · subst hj0
        simp only [if_true, Option.some.injEq] at h
        subst h
        exact ⟨List.Perm.refl _, hd, t, rfl, by simpa using hbit⟩
      · simp only [hj0, if_false, Option.some.injEq] at h
        subst h
        obtain ⟨j', rfl⟩ : ∃ j', j = j' + 1 := ⟨j - 1, by omega⟩
        have hj' : j' < t.length := by simpa using hjlt
        simp only [List.getElem_cons_succ, List.set_cons_succ, List.tail_cons]
        refine ⟨(perm_cons_set hd t j' hj').symm, _, _, rfl, ?_⟩
        simpa using hbit

/-! ### one column of forward elimination -/

/-- all coefficient lists have width q -/
def Wide (q : Nat) (rows : List (Row σ)) : Prop := ∀ r ∈ rows, r.1.length = q

/-- echelon form reached after the columns < i: unit diagonal, zeros below -/
def Tri (i : Nat) (rows : List (Row σ)) : Prop :=
  ∀ j, j < i → (∃ h : j < rows.length, bit (rows[j]).1 j = true) ∧ ∀ idx, j < idx → (h : idx < rows.length) → bit (rows[idx]).1 j = false

theorem elimCol_spec {O : Ops σ} (hO : Lawful O) (q i : Nat) (rows rows' : List (Row σ)) (hw : Wide q rows) (hi : i < q)
    (htri : Tri i rows) (h : elimCol O i rows = some rows') :
    Wide q rows' ∧ rows'.length = rows.length ∧ Tri (i + 1) rows' ∧ (∀ x : List σ, (∀ r ∈ rows', Sat O x r) ↔ (∀ r ∈ rows, Sat O x r)) := by
  unfold elimCol at h
  cases hp : pivot i (rows.drop i) with
  | none => simp [hp] at h
  | some l =>
    obtain ⟨hperm, p, below, rfl, hpbit⟩ := pivot_perm i _ l hp
    simp only [hp, Option.some.injEq] at h
    subst h
    have hmem_drop : ∀ r, r ∈ p :: below ↔ r ∈ rows.drop i := fun r => hperm.mem_iff
    have hsplit : rows = rows.take i ++ rows.drop i := (List.take_append_drop i rows).symm
    have hpw : p.1.length = q := hw p (List.mem_of_mem_drop ((hmem_drop p).mp (by simp)))
    have hbw : ∀ r ∈ below, r.1.length = q := fun r hr => hw r (List.mem_of_mem_drop ((hmem_drop r).mp (by simp [hr])))
    have hlen_drop : (p :: below).length = (rows.drop i).length := hperm.length_eq
    have hile : i ≤ rows.length := by
      have : 0 < (rows.drop i).length := by rw [← hlen_drop]; simp
      simp at this; omega
    -- the new lower part
    let f : Row σ → Row σ := fun r => if bit r.1 i then addRow O r p else r
    have hfw : ∀ r ∈ below, (f r).1.length = q := by
      intro r hr
      simp only [f]
      split
      · simp only [addRow]; rw [length_xorBits _ _ (by rw [hbw r hr, hpw])]; exact hbw r hr
      · exact hbw r hr
    refine ⟨?_, ?_, ?_, ?_⟩
    · -- widths
      intro r hr
      rcases List.mem_append.mp hr with hr | hr
      · exact hw r (List.mem_of_mem_take hr)
      · rcases List.mem_cons.mp hr with rfl | hr
        · exact hpw
        · obtain ⟨r0, hr0, rfl⟩ := List.mem_map.mp hr
          exact hfw r0 hr0
    · -- length
      simp only [List.length_append, List.length_take, List.length_cons, List.length_map]
      have : below.length + 1 = rows.length - i := by simpa using hlen_drop
      omega
    · -- echelon form for the columns ≤ i
      have hA : (rows.take i).length = i := by simp [List.length_take]; omega
      -- every row at or below position i has zeros in the columns < i
      have hlow : ∀ r ∈ rows.drop i, ∀ j, j < i → bit r.1 j = false := by
        intro r hr j hj
        obtain ⟨t, ht, rfl⟩ := List.getElem_of_mem hr
        have ht' : i + t < rows.length := by simp at ht; omega
        rw [List.getElem_drop]
        exact (htri j hj).2 (i + t) (by omega) ht'
      have hp_low : ∀ j, j < i → bit p.1 j = false := fun j hj => hlow p ((hmem_drop p).mp (by simp)) j hj
      have hB_low : ∀ r ∈ below.map f, ∀ j, j < i → bit r.1 j = false := by
        intro r hr j hj
        obtain ⟨r0, hr0, rfl⟩ := List.mem_map.mp hr
        have h0 := hlow r0 ((hmem_drop r0).mp (by simp [hr0])) j hj
        show bit (if bit r0.1 i then addRow O r0 p else r0).1 j = false
        split
        · simp only [addRow]; rw [bit_xorBits _ _ _ (by rw [hbw r0 hr0, hpw]), h0, hp_low j hj]; rfl
        · exact h0
      have hB_i : ∀ r ∈ below.map f, bit r.1 i = false := by
        intro r hr
        obtain ⟨r0, hr0, rfl⟩ := List.mem_map.mp hr
        show bit (if bit r0.1 i then addRow O r0 p else r0).1 i = false
        split
        · rename_i hb
          simp only [addRow]; rw [bit_xorBits _ _ _ (by rw [hbw r0 hr0, hpw]), hb, hpbit]; rfl
        · rename_i hb; simpa using hb
      intro j hj
      have hlen' : (rows.take i ++ p :: below.map f).length = i + 1 + below.length := by
        simp only [List.length_append, hA, List.length_cons, List.length_map]; omega
      by_cases hji : j < i
      · refine ⟨⟨by rw [hlen']; omega, ?_⟩, ?_⟩
        · rw [List.getElem_append_left (by rw [hA]; exact hji), List.getElem_take]
          obtain ⟨hh, hb⟩ := (htri j hji).1
          exact hb
        · intro idx hidx hlt
          by_cases hidxi : idx < i
          · rw [List.getElem_append_left (by rw [hA]; exact hidxi), List.getElem_take]
            exact (htri j hji).2 idx hidx (by omega)
          · rw [List.getElem_append_right (by rw [hA]; omega)]
            have hm := List.getElem_mem (l := p :: below.map f) (by rw [hlen'] at hlt; simp only [hA, List.length_cons, List.length_map]; omega : idx - (rows.take i).length < (p :: below.map f).length)
            rcases List.mem_cons.mp hm with e | e
            · rw [e]; exact hp_low j hji
            · exact hB_low _ e j hji
      · have hje : j = i := by omega
        subst hje
        refine ⟨⟨by rw [hlen']; omega, ?_⟩, ?_⟩
        · rw [List.getElem_append_right (by rw [hA]; omega)]
          simp only [hA, Nat.sub_self, List.getElem_cons_zero]
          exact hpbit
        · intro idx hidx hlt
          rw [List.getElem_append_right (by rw [hA]; omega)]
          have hpos : idx - (rows.take j).length = (idx - j - 1) + 1 := by rw [hA]; omega
          have hm := List.getElem_mem (l := below.map f) (by rw [hlen'] at hlt; simp only [List.length_map]; omega : idx - j - 1 < (below.map f).length)
          simp only [hpos, List.getElem_cons_succ]
          exact hB_i _ hm
    · -- same solutions
      intro x
      constructor
      · intro hall r hr
        rw [hsplit] at hr
        rcases List.mem_append.mp hr with hr | hr
        · exact hall r (List.mem_append_left _ hr)
        · have hpsat : Sat O x p := hall p (List.mem_append_right _ (by simp))
          rcases List.mem_cons.mp ((hmem_drop r).mpr hr) with rfl | hrb
          · exact hpsat
          · have := hall (f r) (List.mem_append_right _ (List.mem_cons_of_mem _ (List.mem_map_of_mem hrb)))
            simp only [f] at this
            split at this
            · exact (sat_addRow hO x r p (by rw [hbw r hrb, hpw]) hpsat).mp this
            · exact this
      · intro hall r hr
        rcases List.mem_append.mp hr with hr | hr
        · exact hall r (List.mem_of_mem_take hr)
        · have hpsat : Sat O x p := hall p (List.mem_of_mem_drop ((hmem_drop p).mp (by simp)))
          rcases List.mem_cons.mp hr with rfl | hr
          · exact hpsat
          · obtain ⟨r0, hr0, rfl⟩ := List.mem_map.mp hr
            have hr0sat : Sat O x r0 := hall r0 (List.mem_of_mem_drop ((hmem_drop r0).mp (by simp [hr0])))
            show Sat O x (if bit r0.1 i then addRow O r0 p else r0)
            split
            · exact (sat_addRow hO x r0 p (by rw [hbw r0 hr0, hpw]) hpsat).mpr hr0sat
            · exact hr0sat

/-! ### the forward phase as a whole -/

theorem foldl_none (O : Ops σ) (l : List Nat) : l.foldl (fun acc i => acc.bind (elimCol O i)) (none : Option (List (Row σ))) = none := by
  induction l with
  | nil => rfl
  | cons a t ih => simpa using ih

theorem triangularize_spec {O : Ops σ} (hO : Lawful O) (q : Nat) (rows : List (Row σ)) (hw : Wide q rows) :
    ∀ n, n ≤ q → ∀ rows', (List.range n).foldl (fun acc i => acc.bind (elimCol O i)) (some rows) = some rows' →
      Wide q rows' ∧ rows'.length = rows.length ∧ Tri n rows' ∧ (∀ x : List σ, (∀ r ∈ rows', Sat O x r) ↔ (∀ r ∈ rows, Sat O x r)) := by
  intro n
  induction n with
  | zero =>
    intro _ rows' h
    simp only [List.range_zero, List.foldl_nil, Option.some.injEq] at h
    subst h
    exact ⟨hw, rfl, fun j hj => absurd hj (Nat.not_lt_zero j), fun _ => Iff.rfl⟩
  | succ n ih =>
    intro hn rows' h
    rw [List.range_succ, List.foldl_append] at h
    simp only [List.foldl_cons, List.foldl_nil] at h
    cases hprev : (List.range n).foldl (fun acc i => acc.bind (elimCol O i)) (some rows) with
    | none => rw [hprev] at h; simp at h
    | some mid =>
      rw [hprev] at h
      simp only [Option.bind_some] at h
      obtain ⟨hw1, hl1, ht1, hs1⟩ := ih (by omega) mid hprev
      obtain ⟨hw2, hl2, ht2, hs2⟩ := elimCol_spec hO q n mid rows' hw1 (by omega) ht1 h
      exact ⟨hw2, hl2.trans hl1, ht2, fun x => (hs2 x).trans (hs1 x)⟩

/-! ### backward substitution -/

theorem fold_eq_dot {O : Ops σ} (hO : Lawful O) : ∀ (xs : List σ) (cs : List Bool) (s : Nat) (a : σ), cs.length = s + xs.length →
    (List.range xs.length).foldl (fun acc t => if bit cs (s + t) then O.add acc (xs.getD t O.zero) else acc) a
      = O.add a (dot O (cs.drop s) xs)
  | [], cs, s, a, _ => by simp [dot, hO.add_zero]
  | x0 :: xs, cs, s, a, hl => by
    have hs : s < cs.length := by simp at hl; omega
    have hdrop : cs.drop s = cs[s] :: cs.drop (s + 1) := List.drop_eq_getElem_cons hs
    have hbit : bit cs s = cs[s] := by simp [bit, List.getD_eq_getElem?_getD, List.getElem?_eq_getElem hs]
    rw [List.length_cons, List.range_succ_eq_map, List.foldl_cons, List.foldl_map]
    have ih := fold_eq_dot hO xs cs (s + 1) (if bit cs (s + 0) then O.add a ((x0 :: xs).getD 0 O.zero) else a) (by simp at hl ⊢; omega)
    have hfun : (fun acc t => if bit cs (s + (t + 1)) then O.add acc ((x0 :: xs).getD (t + 1) O.zero) else acc)
        = (fun acc t => if bit cs (s + 1 + t) then O.add acc (xs.getD t O.zero) else acc) := by
      funext acc t
      have : s + (t + 1) = s + 1 + t := by omega
      rw [this]; simp [List.getD_cons_succ]
    rw [hfun, ih, hdrop]
    simp only [Nat.add_zero, hbit, List.getD_cons_zero]
    cases hc : cs[s]
    · simp [dot]
    · simp only [if_true, dot_cons_true]; rw [hO.add_assoc]

/-- with zeros in the first i coefficients only the tail of the assignment matters -/
theorem dot_drop_zeros (O : Ops σ) : ∀ (i : Nat) (cs : List Bool) (x : List σ), (∀ j, j < i → bit cs j = false) →
    dot O cs x = dot O (cs.drop i) (x.drop i)
  | 0, cs, x, _ => by simp
  | i + 1, [], x, _ => by simp [dot]
  | i + 1, c :: cs, [], _ => by
    simp only [List.drop_nil]
    cases (c :: cs) <;> cases (List.drop (i + 1) (c :: cs)) <;> simp [dot]
  | i + 1, c :: cs, v :: vs, h => by
    have hc : c = false := by simpa [bit] using h 0 (by omega)
    subst hc
    rw [dot_cons_false]
    simp only [List.drop_succ_cons]
    exact dot_drop_zeros O i cs vs (fun j hj => by simpa [bit] using h (j + 1) (by omega))

theorem dot_nil_right (O : Ops σ) (cs : List Bool) : dot O cs [] = O.zero := by cases cs <;> simp [dot]

/-- the step of backward substitution -/
def bsStep (O : Ops σ) (q : Nat) (rows : List (Row σ)) (i : Nat) (xs : List σ) : List σ :=
  let r := rows.getD i ([], O.zero)
  let v := (List.range (q - i - 1)).foldl (fun acc t =>
    if bit r.1 (i + 1 + t) then O.add acc (xs.getD t O.zero) else acc) r.2
  v :: xs

theorem backSubst_eq (O : Ops σ) (q : Nat) (rows : List (Row σ)) :
    backSubst O q rows = (List.range' 0 q).foldr (bsStep O q rows) [] := by
  unfold backSubst; rw [List.range_eq_range']; rfl

theorem backSubst_spec {O : Ops σ} (hO : Lawful O) (q : Nat) (rows : List (Row σ)) (hw : Wide q rows) (hlen : q ≤ rows.length)
    (htri : Tri q rows) :
    ∀ n, n ≤ q →
      ((List.range' (q - n) n).foldr (bsStep O q rows) []).length = n ∧
      ∀ x : List σ, x.length = q →
        ((∀ t, q - n ≤ t → (h : t < q) → Sat O x (rows[t]'(by omega))) ↔ x.drop (q - n) = (List.range' (q - n) n).foldr (bsStep O q rows) []) := by
  intro n
  induction n with
  | zero =>
    intro _
    refine ⟨rfl, fun x hx => ?_⟩
    simp only [Nat.sub_zero, List.range'_zero, List.foldr_nil]
    constructor
    · intro _; rw [← hx]; exact List.drop_length
    · intro _ t ht hlt; omega
  | succ n ih =>
    intro hn
    obtain ⟨ihlen, ihx⟩ := ih (by omega)
    have hi : q - (n + 1) + 1 = q - n := by omega
    have hfold : (List.range' (q - (n + 1)) (n + 1)).foldr (bsStep O q rows) []
        = bsStep O q rows (q - (n + 1)) ((List.range' (q - n) n).foldr (bsStep O q rows) []) := by
      rw [List.range'_succ, List.foldr_cons, hi]
    generalize hxs : (List.range' (q - n) n).foldr (bsStep O q rows) [] = xs at *
    generalize hidef : q - (n + 1) = i at *
    have hiq : i < q := by omega
    have hirows : i < rows.length := by omega
    have hrow : rows.getD i ([], O.zero) = rows[i] := by simp [List.getD_eq_getElem?_getD, List.getElem?_eq_getElem hirows]
    have hcsw : (rows[i]).1.length = q := hw _ (List.getElem_mem hirows)
    have hdiag : bit (rows[i]).1 i = true := by obtain ⟨_, hb⟩ := (htri i hiq).1; exact hb
    have hzero : ∀ j, j < i → bit (rows[i]).1 j = false := fun j hj => (htri j (by omega)).2 i hj hirows
    have hcount : q - i - 1 = xs.length := by rw [ihlen]; omega
    -- the value computed for variable i
    have hv : bsStep O q rows i xs = O.add (rows[i]).2 (dot O ((rows[i]).1.drop (i + 1)) xs) :: xs := by
      unfold bsStep
      simp only [hrow]
      rw [hcount, fold_eq_dot hO xs (rows[i]).1 (i + 1) (rows[i]).2 (by rw [hcsw, ← hcount]; omega)]
    rw [hfold, hv]
    refine ⟨by simp [ihlen], fun x hx => ?_⟩
    have hix : i < x.length := by omega
    have hxdrop : x.drop i = x[i] :: x.drop (i + 1) := List.drop_eq_getElem_cons hix
    have hcsdrop : (rows[i]).1.drop i = true :: (rows[i]).1.drop (i + 1) := by
      rw [List.drop_eq_getElem_cons (by omega : i < (rows[i]).1.length)]
      congr 1
      have : bit (rows[i]).1 i = (rows[i]).1[i]'(by omega) := by
        simp [bit, List.getD_eq_getElem?_getD, List.getElem?_eq_getElem (by omega : i < (rows[i]).1.length)]
      rw [← this]; exact hdiag
    -- the equation of row i in terms of the tail
    have hrowi : dot O (rows[i]).1 x = O.add x[i] (dot O ((rows[i]).1.drop (i + 1)) (x.drop (i + 1))) := by
      rw [dot_drop_zeros O i _ x hzero, hcsdrop, hxdrop, dot_cons_true]
    have hqn : q - n = i + 1 := by omega
    constructor
    · intro hall
      have htail : x.drop (i + 1) = xs := by
        rw [← hqn]
        exact (ihx x hx).mp (fun t ht hlt => hall t (by omega) hlt)
      have hsat : Sat O x rows[i] := hall i (Nat.le_refl _) hiq
      unfold Sat at hsat
      rw [hrowi, htail] at hsat
      rw [hxdrop, htail]
      congr 1
      have := congrArg (fun z => O.add z (dot O ((rows[i]).1.drop (i + 1)) xs)) hsat
      simp only [hO.add_cancel] at this
      exact this
    · intro heq t ht hlt
      rw [hxdrop] at heq
      have hhead : x[i] = O.add (rows[i]).2 (dot O ((rows[i]).1.drop (i + 1)) xs) := (List.cons.inj heq).1
      have htail : x.drop (i + 1) = xs := (List.cons.inj heq).2
      by_cases hti : t = i
      · subst hti
        unfold Sat
        rw [hrowi, htail, hhead, hO.add_cancel]
      · exact (ihx x hx).mpr (by rw [hqn]; exact htail) t (by omega) hlt

/-! ### the solver -/

/-- **Uniqueness / soundness.** If the solver answers `xs`, then `xs` has one value per unknown and every assignment that
satisfies all equations of the system IS `xs`: the solver can only return the solution. -/
theorem solve_unique {O : Ops σ} (hO : Lawful O) (q : Nat) (rows : List (Row σ)) (hw : Wide q rows) (hlen : q ≤ rows.length)
    (xs : List σ) (h : solve O q rows = some xs) :
    xs.length = q ∧ ∀ x : List σ, x.length = q → (∀ r ∈ rows, Sat O x r) → x = xs := by
  unfold solve at h
  cases ht : triangularize O q rows with
  | none => rw [ht] at h; simp at h
  | some rows' =>
    rw [ht] at h
    simp only [Option.map_some, Option.some.injEq] at h
    obtain ⟨hw', hl', htri', hsol⟩ := triangularize_spec hO q rows hw q (Nat.le_refl _) rows' ht
    have hb := backSubst_spec hO q rows' hw' (by omega) htri' q (Nat.le_refl _)
    rw [backSubst_eq] at h
    simp only [Nat.sub_self] at hb
    rw [h] at hb
    refine ⟨hb.1, fun x hx hall => ?_⟩
    have hall' := (hsol x).mpr hall
    have := (hb.2 x hx).mp (fun t _ hlt => hall' _ (List.getElem_mem _))
    simpa using this

/-- … hence on a consistent system (as in decoding, where the transmitted block satisfies every equation) the answer
satisfies every equation, including the surplus ones the elimination never looks at -/
theorem solve_sound {O : Ops σ} (hO : Lawful O) (q : Nat) (rows : List (Row σ)) (hw : Wide q rows) (hlen : q ≤ rows.length)
    (xs : List σ) (h : solve O q rows = some xs) (x : List σ) (hx : x.length = q) (hsat : ∀ r ∈ rows, Sat O x r) :
    xs = x ∧ ∀ r ∈ rows, Sat O xs r := by
  have := (solve_unique hO q rows hw hlen xs h).2 x hx hsat
  subst this
  exact ⟨rfl, hsat⟩

end Gauss

/-! ### failure means a non-trivial kernel vector -/
namespace Gauss

def boolOps : Ops Bool := ⟨false, fun a b => a != b, fun _ b => b⟩

theorem boolOps_lawful : Lawful boolOps :=
  ⟨by intro a b c; cases a <;> cases b <;> cases c <;> rfl, by intro a b; cases a <;> cases b <;> rfl,
   by intro a; cases a <;> rfl, by intro a; cases a <;> rfl⟩

/-- the homogeneous system with the same coefficients -/
def homog (rows : List (Row σ)) : List (Row Bool) := rows.map fun r => (r.1, false)

/-- `v` is in the kernel of the coefficient matrix -/
def InKernel (rows : List (Row σ)) (v : List Bool) : Prop := ∀ r ∈ rows, dot boolOps r.1 v = false

theorem inKernel_iff (rows : List (Row σ)) (v : List Bool) : InKernel rows v ↔ ∀ r ∈ homog rows, Sat boolOps v r := by
  unfold InKernel homog Sat
  constructor
  · intro h r hr
    obtain ⟨r0, hr0, rfl⟩ := List.mem_map.mp hr
    exact h r0 hr0
  · intro h r hr
    exact h (r.1, false) (List.mem_map_of_mem hr)

theorem dot_zeros (cs : List Bool) : ∀ n, dot boolOps cs (List.replicate n false) = false := by
  induction cs with
  | nil => intro n; cases n <;> rfl
  | cons c cs ih =>
    intro n
    cases n with
    | zero => rfl
    | succ n =>
      rw [List.replicate_succ]
      cases c
      · rw [dot_cons_false]; exact ih n
      · rw [dot_cons_true, ih n]; rfl

theorem dot_append (O : Ops σ) (hO : Lawful O) : ∀ (a b : List Bool) (x y : List σ), a.length = x.length →
    dot O (a ++ b) (x ++ y) = O.add (dot O a x) (dot O b y)
  | [], b, [], y, _ => by simp [dot, hO.zero_add]
  | [], _, _ :: _, _, h => by simp at h
  | _ :: _, _, [], _, h => by simp at h
  | c :: a, b, v :: x, y, h => by
    have ih := dot_append O hO a b x y (by simpa using h)
    simp only [List.cons_append]
    cases c
    · rw [dot_cons_false, dot_cons_false, ih]
    · rw [dot_cons_true, dot_cons_true, ih, hO.add_assoc]

end Gauss

namespace Gauss
variable {σ : Type}

theorem tri_fail (O : Ops σ) (rows : List (Row σ)) : ∀ q, (List.range q).foldl (fun acc i => acc.bind (elimCol O i)) (some rows) = none →
    ∃ i, i < q ∧ ∃ mid, (List.range i).foldl (fun acc i => acc.bind (elimCol O i)) (some rows) = some mid ∧ elimCol O i mid = none := by
  intro q
  induction q with
  | zero => intro h; simp at h
  | succ n ih =>
    intro h
    rw [List.range_succ, List.foldl_append] at h
    simp only [List.foldl_cons, List.foldl_nil] at h
    cases hprev : (List.range n).foldl (fun acc i => acc.bind (elimCol O i)) (some rows) with
    | none =>
      obtain ⟨i, hi, mid, h1, h2⟩ := ih hprev
      exact ⟨i, by omega, mid, h1, h2⟩
    | some mid =>
      rw [hprev] at h
      exact ⟨n, by omega, mid, hprev, by simpa using h⟩

theorem elimCol_none (O : Ops σ) (i : Nat) (rows : List (Row σ)) (h : elimCol O i rows = none) :
    ∀ r ∈ rows.drop i, bit r.1 i = false := by
  unfold elimCol at h
  cases hp : pivot i (rows.drop i) with
  | some l =>
    obtain ⟨_, p, below, rfl, _⟩ := pivot_perm i _ l hp
    simp [hp] at h
  | none =>
    unfold pivot at hp
    cases hj : (rows.drop i).findIdx? (fun r => bit r.1 i) with
    | none =>
      intro r hr
      have := List.findIdx?_eq_none_iff.mp hj r hr
      simpa using this
    | some j =>
      exfalso
      simp only [hj] at hp
      have hjlt : j < (rows.drop i).length := (List.findIdx?_eq_some_iff_getElem.mp hj).1
      cases hrest : rows.drop i with
      | nil => rw [hrest] at hjlt; simp at hjlt
      | cons hd t =>
        rw [hrest] at hp hjlt
        simp only [List.getElem?_eq_getElem hjlt, List.head?_cons] at hp
        cases hp

/-- every row after one elimination step is an old row or the sum of two old rows -/
theorem elimCol_mem (O : Ops σ) (i : Nat) (rows rows' : List (Row σ)) (h : elimCol O i rows = some rows') :
    ∀ r ∈ rows', r ∈ rows ∨ ∃ r0 ∈ rows, ∃ p ∈ rows, r = addRow O r0 p := by
  unfold elimCol at h
  cases hp : pivot i (rows.drop i) with
  | none => simp [hp] at h
  | some l =>
    obtain ⟨hperm, p, below, rfl, _⟩ := pivot_perm i _ l hp
    simp only [hp, Option.some.injEq] at h
    subst h
    have hin : ∀ r, r ∈ p :: below → r ∈ rows := fun r hr => List.mem_of_mem_drop (hperm.mem_iff.mp hr)
    intro r hr
    rcases List.mem_append.mp hr with hr | hr
    · exact Or.inl (List.mem_of_mem_take hr)
    · rcases List.mem_cons.mp hr with rfl | hr
      · exact Or.inl (hin _ (by simp))
      · obtain ⟨r0, hr0, rfl⟩ := List.mem_map.mp hr
        show (if bit r0.1 i then addRow O r0 p else r0) ∈ rows ∨ _
        split
        · exact Or.inr ⟨r0, hin r0 (by simp [hr0]), p, hin p (by simp), rfl⟩
        · exact Or.inl (hin r0 (by simp [hr0]))

theorem fold_allZero (rows : List (Row Bool)) (hz : ∀ r ∈ rows, r.2 = false) : ∀ n mid,
    (List.range n).foldl (fun acc i => acc.bind (elimCol boolOps i)) (some rows) = some mid → ∀ r ∈ mid, r.2 = false := by
  intro n
  induction n with
  | zero => intro mid h; simp at h; subst h; exact hz
  | succ n ih =>
    intro mid h
    rw [List.range_succ, List.foldl_append] at h
    simp only [List.foldl_cons, List.foldl_nil] at h
    cases hprev : (List.range n).foldl (fun acc i => acc.bind (elimCol boolOps i)) (some rows) with
    | none => rw [hprev] at h; simp at h
    | some m1 =>
      rw [hprev] at h
      simp only [Option.bind_some] at h
      have hz1 := ih m1 hprev
      intro r hr
      rcases elimCol_mem boolOps n m1 mid h r hr with h1 | ⟨r0, hr0, p, hp, rfl⟩
      · exact hz1 r h1
      · simp only [addRow, boolOps]; rw [hz1 r0 hr0, hz1 p hp]; rfl

/-- **Failure means rank deficiency.** If the forward phase finds no pivot in some column, there is a non-zero vector in the
kernel of the coefficient matrix: the unknowns are not uniquely determined by the equations. -/
theorem fail_kernel (q : Nat) (B : List (Row Bool)) (hw : Wide q B) (hlen : q ≤ B.length) (hz : ∀ r ∈ B, r.2 = false)
    (hfail : triangularize boolOps q B = none) :
    ∃ v : List Bool, v.length = q ∧ v ≠ List.replicate q false ∧ ∀ r ∈ B, dot boolOps r.1 v = false := by
  obtain ⟨i, hi, mid, hmid, hnone⟩ := tri_fail boolOps B q hfail
  obtain ⟨hwm, hlm, htm, hsol⟩ := triangularize_spec boolOps_lawful q B hw i (by omega) mid hmid
  have hzm := fold_allZero B hz i mid hmid
  have hlow := elimCol_none boolOps i mid hnone
  have hilen : i < mid.length := by omega
  -- the square unit upper triangular system on the first i unknowns, with column i as right-hand side
  let rows2 : List (Row Bool) := (List.range i).map fun t => ((mid.getD t ([], false)).1.take i, bit (mid.getD t ([], false)).1 i)
  have hget : ∀ t, (h : t < mid.length) → mid.getD t ([], false) = mid[t] := by
    intro t h; simp [List.getD_eq_getElem?_getD, List.getElem?_eq_getElem h]
  have hw2 : Wide i rows2 := by
    intro r hr
    obtain ⟨t, ht, rfl⟩ := List.mem_map.mp hr
    have htl : t < mid.length := by have := List.mem_range.mp ht; omega
    simp only [hget t htl, List.length_take, hwm _ (List.getElem_mem htl)]; omega
  have hlen2 : rows2.length = i := by simp [rows2]
  have hrow2 : ∀ t, (h : t < i) → rows2[t]'(by omega) = ((mid[t]'(by omega)).1.take i, bit (mid[t]'(by omega)).1 i) := by
    intro t h
    simp only [rows2, List.getElem_map, List.getElem_range, hget t (by omega)]
  have hbit_take : ∀ (cs : List Bool) (j : Nat), j < i → bit (cs.take i) j = bit cs j := by
    intro cs j hj
    simp only [bit, List.getD_eq_getElem?_getD, List.getElem?_take, hj, if_true]
  have htri2 : Tri i rows2 := by
    intro j hj
    refine ⟨⟨by omega, ?_⟩, ?_⟩
    · rw [hrow2 j hj]; simp only; rw [hbit_take _ j hj]
      obtain ⟨_, hb⟩ := (htm j hj).1; exact hb
    · intro idx hidx hlt
      have hidx' : idx < i := by omega
      rw [hrow2 idx hidx']; simp only; rw [hbit_take _ j hj]
      exact (htm j hj).2 idx hidx (by omega)
  have hb := backSubst_spec boolOps_lawful i rows2 hw2 (by omega) htri2 i (Nat.le_refl _)
  simp only [Nat.sub_self] at hb
  generalize hxs : (List.range' 0 i).foldr (bsStep boolOps i rows2) [] = xs at hb
  have hxsat : ∀ t, (h : t < i) → dot boolOps ((mid[t]'(by omega)).1.take i) xs = bit (mid[t]'(by omega)).1 i := by
    intro t h
    have := (hb.2 xs hb.1).mpr (by simp) t (Nat.zero_le _) h
    unfold Sat at this
    rw [hrow2 t h] at this
    exact this
  let v : List Bool := xs ++ true :: List.replicate (q - i - 1) false
  have hvlen : v.length = q := by simp [v, hb.1]; omega
  -- value of any row of width q on v
  have hval : ∀ cs : List Bool, cs.length = q → dot boolOps cs v = (dot boolOps (cs.take i) xs != bit cs i) := by
    intro cs hcs
    have hsplit : cs = cs.take i ++ (cs[i]'(by omega) :: cs.drop (i + 1)) := by
      rw [← List.drop_eq_getElem_cons (by omega : i < cs.length), List.take_append_drop]
    have hbi : bit cs i = cs[i]'(by omega) := by simp [bit, List.getD_eq_getElem?_getD, List.getElem?_eq_getElem (by omega : i < cs.length)]
    conv => lhs; rw [hsplit]
    show dot boolOps (cs.take i ++ (cs[i]'(by omega) :: cs.drop (i + 1))) (xs ++ true :: List.replicate (q - i - 1) false) = _
    rw [dot_append boolOps boolOps_lawful _ _ _ _ (by simp [hb.1]; omega), hbi]
    cases hc : cs[i]'(by omega)
    · rw [dot_cons_false, dot_zeros]; rfl
    · rw [dot_cons_true, dot_zeros]; rfl
  refine ⟨v, hvlen, ?_, ?_⟩
  · intro heq
    have h1 : v.getD i false = true := by
      simp [v, List.getD_eq_getElem?_getD, List.getElem?_append_right, hb.1]
    rw [heq] at h1
    simp [List.getD_eq_getElem?_getD, List.getElem?_replicate, hi] at h1
  · -- v satisfies every row of mid, hence of B
    have hmidsat : ∀ r ∈ mid, Sat boolOps v r := by
      intro r hr
      unfold Sat
      rw [hzm r hr]
      obtain ⟨t, ht, rfl⟩ := List.getElem_of_mem hr
      rw [hval _ (hwm _ (List.getElem_mem ht))]
      by_cases hti : t < i
      · rw [hxsat t hti]; cases bit (mid[t]).1 i <;> rfl
      · -- row at or below i: zeros in the columns < i and in column i
        have hmem : mid[t] ∈ mid.drop i := by
          have : mid[t] = (mid.drop i)[t - i]'(by simp; omega) := by rw [List.getElem_drop]; congr 1; omega
          rw [this]; exact List.getElem_mem _
        rw [hlow _ hmem]
        have hz0 : ∀ j, j < i → bit (mid[t]).1 j = false := fun j hj => (htm j hj).2 t (by omega) ht
        have hz1 : ∀ j, j < i → bit ((mid[t]).1.take i) j = false := fun j hj => by rw [hbit_take _ j hj]; exact hz0 j hj
        rw [dot_drop_zeros boolOps i _ xs hz1]
        have : ((mid[t]).1.take i).drop i = [] := by
          apply List.drop_eq_nil_of_le; simp [List.length_take]; omega
        rw [this]; simp [dot]; rfl
    have := (hsol v).mp hmidsat
    intro r hr
    have h2 := this r hr
    unfold Sat at h2
    rw [hz r hr] at h2
    exact h2

end Gauss
