import OpenFecVerif.Proofs.RSBridge
/-!
# The executable Reed-Solomon encoder and decoder functions, over one field position

`RS.encode` and `RS.interpolate` (Model/RS.lean) are what the session model calls.  Instantiated with the symbol type `F` (one field
position; a symbol is a vector of positions and every operation acts position-wise) and the operations `fieldOps`, they are the
algebraic expressions of the MDS theorems: `RS.encode` is the codeword of `cwModel`, and `RS.interpolate` on any k distinct symbols of
a codeword returns the source position.
-/
open Finset

namespace FieldModel
variable {F : Type} [Field F] [DecidableEq F] {Fl : RS.Fld} (M : FieldModel F Fl)

/-- symbol operations on one field position: addition, and scaling by the field element a natural number stands for -/
def fieldOps : Ops F := ⟨0, (· + ·), fun c x => M.φ c * x⟩

theorem lincomb_eq (cs : List ℕ) (ys : List F) :
    RS.lincomb M.fieldOps cs ys = ((List.zip cs ys).map fun p => M.φ p.1 * p.2).sum := by
  unfold RS.lincomb
  have : ∀ (l : List (ℕ × F)) (a : F),
      l.foldl (fun acc p => if p.1 = 0 then acc else M.fieldOps.add acc (M.fieldOps.smul p.1 p.2)) a
        = a + (l.map fun p => M.φ p.1 * p.2).sum := by
    intro l
    induction l with
    | nil => intro a; simp
    | cons x t ih =>
      intro a
      simp only [List.foldl_cons, List.map_cons, List.sum_cons]
      by_cases h0 : x.1 = 0
      · simp only [h0, if_true, M.φ_zero, zero_mul, zero_add]; exact ih a
      · simp only [h0, if_false]
        rw [ih]
        show a + M.φ x.1 * x.2 + _ = _
        ring
  rw [this]
  show (0 : F) + _ = _
  rw [zero_add]

/-- the encoder function computes the codeword of the MDS theorems -/
theorem encode_eq (k : ℕ) (src : List F) (hs : src.length = k) (r : ℕ) :
    RS.encode Fl M.fieldOps k src r = M.cwModel k (fun i => src.getD i 0) r := by
  unfold RS.encode
  rw [lincomb_eq]
  unfold cwModel
  rw [List.zip_map_left, List.map_map]
  have hz : List.zip (List.range k) src = (List.range k).map fun i => (i, src.getD i 0) := by
    apply List.ext_getElem
    · simp [hs]
    · intro i h1 h2
      simp only [List.length_zip, List.length_range, hs, Nat.min_self] at h1
      simp [List.getElem_zip, List.getD_eq_getElem?_getD, List.getElem?_eq_getElem (by omega : i < src.length)]
  rw [hz, List.map_map]
  rw [← List.sum_toFinset _ (List.nodup_range)]
  · simp only [List.toFinset_range]
    apply Finset.sum_congr rfl
    intro i _
    rfl

/-- **the decoder function is right**: interpolating any k received symbols with distinct ESIs below n, each holding the codeword
position of its ESI, returns the source position j -/
theorem interpolate_correct (k n : ℕ) (hn : n ≤ M.N - 1) (hk : k ≤ n) (src : ℕ → F) (recv : List (ℕ × F))
    (hnd : (recv.map (·.1)).Nodup) (hlt : ∀ p ∈ recv, p.1 < n) (hlen : recv.length = k)
    (hval : ∀ p ∈ recv, p.2 = M.cwModel k src p.1) (j : ℕ) (hj : j < k) :
    RS.interpolate Fl M.fieldOps recv j = src j := by
  unfold RS.interpolate
  simp only
  rw [lincomb_eq]
  have hz : List.zip ((recv.map (·.1)).map fun s => RS.basisAt Fl (recv.map (·.1)) s (RS.pt Fl j)) (recv.map (·.2))
      = recv.map fun p => (RS.basisAt Fl (recv.map (·.1)) p.1 (RS.pt Fl j), p.2) := by
    rw [List.map_map]
    exact List.zip_map'
  rw [hz, List.map_map]
  have := M.decode_correct k n hn hk src (recv.map (·.1)) hnd
    (by intro s hs; obtain ⟨p, hp, rfl⟩ := List.mem_map.mp hs; exact hlt p hp) (by simpa using hlen) j hj
  rw [← this, List.map_map]
  congr 1
  apply List.map_congr_left
  intro p hp
  simp only [Function.comp]
  rw [hval p hp]

end FieldModel
