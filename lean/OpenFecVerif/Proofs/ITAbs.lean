/-
Value-free model of the iterative decoder (the control skeleton of of_it_decoding.c: which equations
are "armed" with a partial sum, how many unknowns each has, which are examined in step 3) and the proof
that a top-level call returns with NO equation having exactly one unknown symbol (`decode_closed`).
Core Lean only.  The executable value-level model `IT.decode` (Model/LdpcIT.lean) is shown to refine this
model in `Proofs/ITRefine.lean`.
-/
namespace ITAbs

structure St where
  m     : Nat
  k     : Nat
  rows  : Nat → List Nat
  known : Nat → Bool
  armed : Nat → Bool
  nbu   : Nat → Nat

def St.complete (s : St) : Bool := (List.range s.k).all s.known

def St.mark (s : St) (esi : Nat) : St := { s with known := fun x => if x = esi then true else s.known x }

/-- step 2 on the components of one row; `known` already contains `esi`. -/
def rowStep (known : Nat → Bool) (esi : Nat) (row : List Nat) (armed : Bool) (nbu : Nat) :
    List Nat × Bool × Nat × Bool :=
  if esi ∈ row then
    let nbu' := nbu - 1
    if armed || (nbu' == 1) then
      let row' := row.filter (fun e => !known e)
      (row', true, nbu', row'.length == 1)
    else (row, false, nbu', row.length == 1)
  else (row, armed, nbu, false)

def injectRow (s : St) (esi r : Nat) : St × Bool :=
  let q := rowStep s.known esi (s.rows r) (s.armed r) (s.nbu r)
  ({ s with rows := fun x => if x = r then q.1 else s.rows x,
            armed := fun x => if x = r then q.2.1 else s.armed x,
            nbu := fun x => if x = r then q.2.2.1 else s.nbu x }, q.2.2.2)

def inject (s : St) (esi : Nat) : Nat → St × List Nat
  | 0 => (s, [])
  | r+1 =>
    let p := inject s esi r
    let q := injectRow p.1 esi r
    (q.1, if q.2 then p.2 ++ [r] else p.2)

def St.consume (s : St) (r : Nat) : St :=
  { s with rows := fun x => if x = r then [] else s.rows x,
           armed := fun x => if x = r then false else s.armed x }

mutual
def decode (fuel : Nat) (s : St) (esi : Nat) : St :=
  match fuel with
  | 0 => s
  | fuel+1 =>
    if s.known esi then s else
    let s1 := s.mark esi
    if esi < s.k && s1.complete then s1 else
    let p := inject s1 esi s1.m
    drain fuel p.1 p.2.reverse
termination_by (fuel, 0)
def drain (fuel : Nat) (s : St) (l : List Nat) : St :=
  match l with
  | [] => s
  | r :: rest =>
    if s.complete then s else
    match s.rows r with
    | [e] => drain fuel (decode fuel (s.consume r) e) rest
    | _ => drain fuel s rest
termination_by (fuel, l.length + 1)
end

/-! ## specification side -/
section spec
variable (H : Nat → List Nat)

def unk (s : St) (r : Nat) : List Nat := (H r).filter (fun e => !s.known e)

/-- invariant at call boundaries; `p` = the symbol about to be injected, if any -/
structure Good (s : St) (p : Option Nat) : Prop where
  armedRows : ∀ r, r < s.m → s.armed r = true → s.rows r = unk H s r ∧ (unk H s r).length ≤ 1
  plainRows : ∀ r, r < s.m → s.armed r = false →
      (s.rows r = H r ∧ s.nbu r = (unk H s r).length ∧ (unk H s r).length ≠ 1)
      ∨ (s.rows r = [] ∧ ∀ e ∈ unk H s r, some e = p)

def armed1 (s : St) (r : Nat) : Prop := s.armed r = true ∧ (unk H s r).length = 1

end spec

-- basic facts
theorem mark_known (s : St) (esi x : Nat) : (s.mark esi).known x = (if x = esi then true else s.known x) := rfl
theorem mark_m (s : St) (esi : Nat) : (s.mark esi).m = s.m := rfl
theorem mark_rows (s : St) (esi : Nat) : (s.mark esi).rows = s.rows := rfl
theorem mark_armed (s : St) (esi : Nat) : (s.mark esi).armed = s.armed := rfl
theorem mark_nbu (s : St) (esi : Nat) : (s.mark esi).nbu = s.nbu := rfl

/-- unknown list after marking = old unknown list with esi erased (by filter) -/
theorem unk_mark (H : Nat → List Nat) (s : St) (esi r : Nat) :
    unk H (s.mark esi) r = (unk H s r).filter (fun e => e != esi) := by
  unfold unk
  rw [List.filter_filter]
  congr 1
  funext e
  simp only [mark_known]
  by_cases h : e = esi <;> simp [h]

theorem length_filter_ne_of_nodup {l : List Nat} (hn : l.Nodup) {a : Nat} (ha : a ∈ l) :
    (l.filter (fun e => e != a)).length + 1 = l.length := by
  induction l with
  | nil => cases ha
  | cons x xs ih =>
    rw [List.nodup_cons] at hn
    by_cases hx : x = a
    · subst hx
      have : xs.filter (fun e => e != x) = xs := by
        apply List.filter_eq_self.mpr
        intro e he
        have : e ≠ x := fun h => hn.1 (h ▸ he)
        simpa using this
      simp [this]
    · have ha' : a ∈ xs := by
        cases ha with
        | head => exact absurd rfl hx
        | tail _ h => exact h
      have := ih hn.2 ha'
      simp [hx]
      omega

theorem filter_ne_of_not_mem {l : List Nat} {a : Nat} (ha : a ∉ l) :
    l.filter (fun e => e != a) = l := by
  apply List.filter_eq_self.mpr
  intro e he
  have : e ≠ a := fun h => ha (h ▸ he)
  simpa using this

/-! ## per-row invariant -/
/-- unknown members of row `r` under `known` -/
def ul (H : Nat → List Nat) (known : Nat → Bool) (r : Nat) : List Nat := (H r).filter (fun e => !known e)

def RowOK (H : Nat → List Nat) (known : Nat → Bool) (p : Option Nat) (r : Nat)
    (row : List Nat) (armed : Bool) (nbu : Nat) : Prop :=
  (armed = true → row = ul H known r ∧ (ul H known r).length ≤ 1) ∧
  (armed = false →
      (row = H r ∧ nbu = (ul H known r).length ∧ (ul H known r).length ≠ 1)
      ∨ (row = [] ∧ ∀ e ∈ ul H known r, some e = p))

theorem good_iff (H : Nat → List Nat) (s : St) (p : Option Nat) :
    Good H s p ↔ ∀ r, r < s.m → RowOK H s.known p r (s.rows r) (s.armed r) (s.nbu r) := by
  constructor
  · intro g r hr; exact ⟨g.armedRows r hr, g.plainRows r hr⟩
  · intro h; exact ⟨fun r hr => (h r hr).1, fun r hr => (h r hr).2⟩

def markK (known : Nat → Bool) (esi : Nat) : Nat → Bool := fun x => if x = esi then true else known x

theorem ul_mark (H : Nat → List Nat) (known : Nat → Bool) (esi r : Nat) :
    ul H (markK known esi) r = (ul H known r).filter (fun e => e != esi) := by
  unfold ul
  rw [List.filter_filter]; congr 1; funext e
  by_cases he : e = esi <;> simp [markK, he]

theorem filter_mark_ul (H : Nat → List Nat) (known : Nat → Bool) (esi r : Nat) :
    (ul H known r).filter (fun e => !markK known esi e) = ul H (markK known esi) r := by
  unfold ul
  rw [List.filter_filter]; congr 1; funext e
  by_cases he : e = esi <;> simp [markK, he]

/-- effect of step 2 on one row -/
theorem rowStep_ok (H : Nat → List Nat) (known : Nat → Bool) (esi r : Nat)
    (row : List Nat) (armed : Bool) (nbu : Nat)
    (hnd : (H r).Nodup) (hunk : known esi = false)
    (h : RowOK H known (some esi) r row armed nbu) :
    RowOK H (markK known esi) none r
        (rowStep (markK known esi) esi row armed nbu).1
        (rowStep (markK known esi) esi row armed nbu).2.1
        (rowStep (markK known esi) esi row armed nbu).2.2.1 ∧
    ((rowStep (markK known esi) esi row armed nbu).2.2.2 = true →
        (rowStep (markK known esi) esi row armed nbu).2.1 = true ∧ (ul H (markK known esi) r).length = 1 ∧
        (rowStep (markK known esi) esi row armed nbu).1 = ul H (markK known esi) r) ∧
    ((rowStep (markK known esi) esi row armed nbu).2.1 = true → (ul H (markK known esi) r).length = 1 →
        (rowStep (markK known esi) esi row armed nbu).2.2.2 = true ∨ (armed = true ∧ (ul H known r).length = 1)) := by
  have hu' := ul_mark H known esi r
  have hmemu : esi ∈ ul H known r ↔ esi ∈ H r := by simp [ul, hunk]
  have hndu : (ul H known r).Nodup := hnd.filter _
  have hlenle : (ul H known r).length ≤ (H r).length := List.length_filter_le _ _
  obtain ⟨hA, hB⟩ := h
  cases harm : armed with
  | true =>
    obtain ⟨hrow, hle⟩ := hA harm
    by_cases hmem : esi ∈ row
    · have hq : rowStep (markK known esi) esi row true nbu = (row.filter (fun e => !markK known esi e), true, nbu - 1, (row.filter (fun e => !markK known esi e)).length == 1) := by
        simp [rowStep, hmem]
      have hrow' : row.filter (fun e => !markK known esi e) = ul H (markK known esi) r := by
        rw [hrow]; exact filter_mark_ul H known esi r
      have hmemu' : esi ∈ ul H known r := by rw [← hrow]; exact hmem
      have hlen : (ul H (markK known esi) r).length + 1 = (ul H known r).length := by
        rw [hu']; exact length_filter_ne_of_nodup hndu hmemu'
      have hu'0 : (ul H (markK known esi) r).length = 0 := by omega
      rw [hq]
      refine ⟨⟨fun _ => ⟨hrow', by omega⟩, fun h => by cases h⟩, ?_, ?_⟩
      · intro hf; simp [hrow', hu'0] at hf
      · intro _ h1; omega
    · have hq : rowStep (markK known esi) esi row true nbu = (row, true, nbu, false) := by simp [rowStep, hmem]
      have hnm : esi ∉ ul H known r := by rw [← hrow]; exact hmem
      have hu'u : ul H (markK known esi) r = ul H known r := by rw [hu']; exact filter_ne_of_not_mem hnm
      rw [hq]
      refine ⟨⟨fun _ => ⟨by rw [hu'u]; exact hrow, by rw [hu'u]; exact hle⟩, fun h => by cases h⟩, ?_, ?_⟩
      · intro hf; cases hf
      · intro _ h1; right; exact ⟨rfl, by rw [← hu'u]; exact h1⟩
  | false =>
    rcases hB harm with ⟨hrow, hnbu, hne⟩ | ⟨hrow, hall⟩
    · by_cases hmem : esi ∈ row
      · have hmemH : esi ∈ H r := by rw [← hrow]; exact hmem
        have hmemu' : esi ∈ ul H known r := hmemu.mpr hmemH
        have hlen : (ul H (markK known esi) r).length + 1 = (ul H known r).length := by
          rw [hu']; exact length_filter_ne_of_nodup hndu hmemu'
        have hupos : 0 < (ul H known r).length := List.length_pos_of_mem hmemu'
        by_cases h1 : nbu - 1 = 1
        · have hq : rowStep (markK known esi) esi row false nbu = (row.filter (fun e => !markK known esi e), true, nbu - 1, (row.filter (fun e => !markK known esi e)).length == 1) := by
            simp [rowStep, hmem, h1]
          have hrow' : row.filter (fun e => !markK known esi e) = ul H (markK known esi) r := by rw [hrow]; rfl
          have hu'1 : (ul H (markK known esi) r).length = 1 := by omega
          rw [hq]
          refine ⟨⟨fun _ => ⟨hrow', by omega⟩, fun h => by cases h⟩, ?_, ?_⟩
          · intro _; exact ⟨rfl, hu'1, hrow'⟩
          · intro _ _; left; simp [hrow', hu'1]
        · have hq : rowStep (markK known esi) esi row false nbu = (row, false, nbu - 1, row.length == 1) := by
            simp [rowStep, hmem, h1]
          have hrl : row.length ≠ 1 := by rw [hrow]; omega
          rw [hq]
          refine ⟨⟨(fun h => by cases h), fun _ => Or.inl ⟨hrow, (by show nbu - 1 = _; omega), by omega⟩⟩, ?_, ?_⟩
          · intro hf; simp [hrl] at hf
          · intro h; cases h
      · have hq : rowStep (markK known esi) esi row false nbu = (row, false, nbu, false) := by simp [rowStep, hmem]
        have hnm : esi ∉ ul H known r := fun h => hmem (by rw [hrow]; exact hmemu.mp h)
        have hu'u : ul H (markK known esi) r = ul H known r := by rw [hu']; exact filter_ne_of_not_mem hnm
        rw [hq]
        refine ⟨⟨(fun h => by cases h), fun _ => Or.inl ⟨hrow, by rw [hu'u]; exact hnbu, by rw [hu'u]; exact hne⟩⟩, ?_, ?_⟩
        · intro hf; cases hf
        · intro h; cases h
    · have hmem : esi ∉ row := by rw [hrow]; simp
      have hq : rowStep (markK known esi) esi row false nbu = (row, false, nbu, false) := by simp [rowStep, hmem]
      have hu'nil : ul H (markK known esi) r = [] := by
        rw [hu', List.filter_eq_nil_iff]
        intro e he
        have := hall e he
        simp at this
        simp [this]
      rw [hq]
      refine ⟨⟨(fun h => by cases h), fun _ => Or.inr ⟨hrow, by rw [hu'nil]; intro e he; cases he⟩⟩, ?_, ?_⟩
      · intro hf; cases hf
      · intro h; cases h

/-! ## the fold of step 2 over all rows -/
theorem injectRow_fst (s : St) (esi r : Nat) :
    (injectRow s esi r).1.known = s.known ∧ (injectRow s esi r).1.m = s.m ∧ (injectRow s esi r).1.k = s.k := by
  simp [injectRow]

theorem inject_spec (s : St) (esi : Nat) (R : Nat) :
    (inject s esi R).1.known = s.known ∧ (inject s esi R).1.m = s.m ∧ (inject s esi R).1.k = s.k ∧
    (∀ r, R ≤ r → (inject s esi R).1.rows r = s.rows r ∧ (inject s esi R).1.armed r = s.armed r ∧
                   (inject s esi R).1.nbu r = s.nbu r) ∧
    (∀ r, r < R → (inject s esi R).1.rows r = (rowStep s.known esi (s.rows r) (s.armed r) (s.nbu r)).1 ∧
                  (inject s esi R).1.armed r = (rowStep s.known esi (s.rows r) (s.armed r) (s.nbu r)).2.1 ∧
                  (inject s esi R).1.nbu r = (rowStep s.known esi (s.rows r) (s.armed r) (s.nbu r)).2.2.1) ∧
    (∀ r, r ∈ (inject s esi R).2 ↔ r < R ∧ (rowStep s.known esi (s.rows r) (s.armed r) (s.nbu r)).2.2.2 = true) := by
  induction R with
  | zero =>
    refine ⟨rfl, rfl, rfl, fun r _ => ⟨rfl, rfl, rfl⟩, fun r h => absurd h (Nat.not_lt_zero r), fun r => ?_⟩
    simp [inject]
  | succ R ih =>
    obtain ⟨hk, hm, hkk, hge, hlt, hmem⟩ := ih
    have hR := hge R (Nat.le_refl R)
    -- unfold one step
    have hstep : inject s esi (R+1) =
        ((injectRow (inject s esi R).1 esi R).1,
         if (injectRow (inject s esi R).1 esi R).2 then (inject s esi R).2 ++ [R] else (inject s esi R).2) := rfl
    have hq : rowStep (inject s esi R).1.known esi ((inject s esi R).1.rows R) ((inject s esi R).1.armed R) ((inject s esi R).1.nbu R)
        = rowStep s.known esi (s.rows R) (s.armed R) (s.nbu R) := by
      rw [hk, hR.1, hR.2.1, hR.2.2]
    rw [hstep]
    refine ⟨?_, ?_, ?_, ?_, ?_, ?_⟩
    · simp [injectRow, hk]
    · simp [injectRow, hm]
    · simp [injectRow, hkk]
    · intro r hr
      have hne : r ≠ R := by omega
      have := hge r (by omega)
      simp [injectRow, hne, this]
    · intro r hr
      by_cases hrR : r = R
      · subst hrR
        simp only [injectRow, if_true, hq]
        exact ⟨trivial, trivial, trivial⟩
      · have := hlt r (by omega)
        simp [injectRow, hrR, this]
    · intro r
      simp only [injectRow, hq]
      by_cases hf : (rowStep s.known esi (s.rows R) (s.armed R) (s.nbu R)).2.2.2 = true
      · simp only [hf, if_true, List.mem_append, List.mem_singleton, hmem]
        constructor
        · rintro (⟨h1, h2⟩ | h)
          · exact ⟨by omega, h2⟩
          · subst h; exact ⟨by omega, hf⟩
        · rintro ⟨h1, h2⟩
          by_cases hrR : r = R
          · right; exact hrR
          · left; exact ⟨by omega, h2⟩
      · have hf' : (rowStep s.known esi (s.rows R) (s.armed R) (s.nbu R)).2.2.2 = false := by
          simpa using hf
        rw [hf']
        simp only [Bool.false_eq_true, if_false, hmem]
        constructor
        · rintro ⟨h1, h2⟩; exact ⟨by omega, h2⟩
        · rintro ⟨h1, h2⟩
          by_cases hrR : r = R
          · subst hrR; exact absurd h2 hf
          · exact ⟨by omega, h2⟩

/-! ## main induction -/
def cnt (n : Nat) (known : Nat → Bool) : Nat := ((List.range n).filter (fun e => !known e)).length

theorem cnt_mark (n : Nat) (known : Nat → Bool) (esi : Nat) (hk : known esi = false) (hn : esi < n) :
    cnt n (markK known esi) + 1 = cnt n known := by
  unfold cnt
  have h1 : (List.range n).filter (fun e => !markK known esi e)
      = ((List.range n).filter (fun e => !known e)).filter (fun e => e != esi) := by
    rw [List.filter_filter]; congr 1; funext e
    by_cases he : e = esi <;> simp [markK, he]
  rw [h1]
  apply length_filter_ne_of_nodup
  · exact (List.nodup_range).filter _
  · simp [hk, hn]

def Armed1 (H : Nat → List Nat) (s : St) (r : Nat) : Prop :=
  s.armed r = true ∧ (ul H s.known r).length = 1

def Post (H : Nat → List Nat) (D : Nat → Prop) (s s' : St) (excl : List Nat) : Prop :=
  s'.m = s.m ∧ s'.k = s.k ∧ (∀ e, s.known e = true → s'.known e = true) ∧
  (s'.complete = true ∨ (Good H s' none ∧ ∀ r, r < s.m → Armed1 H s' r → Armed1 H s r ∧ r ∉ excl)) ∧
  (∀ e, s'.known e = true → D e)

theorem decode_zero (s : St) (esi : Nat) : decode 0 s esi = s := by
  rw [decode]
theorem decode_succ (fuel : Nat) (s : St) (esi : Nat) : decode (fuel+1) s esi =
    (if s.known esi then s else
      if esi < s.k && (s.mark esi).complete then s.mark esi else
      drain fuel (inject (s.mark esi) esi (s.mark esi).m).1 (inject (s.mark esi) esi (s.mark esi).m).2.reverse) := by
  rw [decode]
theorem drain_nil (fuel : Nat) (s : St) : drain fuel s [] = s := by rw [drain]
theorem drain_cons (fuel : Nat) (s : St) (r : Nat) (rest : List Nat) : drain fuel s (r :: rest) =
    (if s.complete then s else
      match s.rows r with
      | [e] => drain fuel (decode fuel (s.consume r) e) rest
      | _ => drain fuel s rest) := by
  rw [drain]

theorem inject_good (H : Nat → List Nat) (hnd : ∀ r, (H r).Nodup) (s : St) (esi : Nat)
    (hg : Good H s (some esi)) (hk : s.known esi = false) :
    Good H (inject (s.mark esi) esi s.m).1 none ∧
    (inject (s.mark esi) esi s.m).1.m = s.m ∧ (inject (s.mark esi) esi s.m).1.k = s.k ∧
    (inject (s.mark esi) esi s.m).1.known = markK s.known esi ∧
    (∀ r, r < s.m → Armed1 H (inject (s.mark esi) esi s.m).1 r →
        r ∈ (inject (s.mark esi) esi s.m).2 ∨ Armed1 H s r) ∧
    (∀ r, r ∈ (inject (s.mark esi) esi s.m).2 → r < s.m) := by
  obtain ⟨hkn, hm, hkk, _, hlt, hmem⟩ := inject_spec (s.mark esi) esi s.m
  have hkn' : (inject (s.mark esi) esi s.m).1.known = markK s.known esi := hkn
  refine ⟨?_, hm, hkk, hkn', ?_, ?_⟩
  · rw [good_iff]
    intro r hr
    have hr' : r < s.m := by rw [hm] at hr; exact hr
    obtain ⟨h1, h2, h3⟩ := hlt r hr'
    have hrow := (good_iff H s (some esi)).1 hg r hr'
    have := (rowStep_ok H s.known esi r (s.rows r) (s.armed r) (s.nbu r) (hnd r) hk hrow).1
    rw [hkn', h1, h2, h3]
    exact this
  · intro r hr ha
    obtain ⟨h1, h2, h3⟩ := hlt r hr
    have hrow := (good_iff H s (some esi)).1 hg r hr
    have h3' := (rowStep_ok H s.known esi r (s.rows r) (s.armed r) (s.nbu r) (hnd r) hk hrow).2.2
    obtain ⟨ha1, ha2⟩ := ha
    rw [h2] at ha1
    rw [hkn'] at ha2
    rcases h3' ha1 ha2 with hf | ⟨hx, hy⟩
    · left; exact (hmem r).2 ⟨hr, hf⟩
    · right; exact ⟨hx, hy⟩
  · intro r hr; exact ((hmem r).1 hr).1

section main
variable (H : Nat → List Nat) (n : Nat) (hlt : ∀ r e, e ∈ H r → e < n)
-- `D` is any set of symbols closed under peeling: if all members of an equation but one are in `D`, so is the last
variable (D : Nat → Prop) (hD : ∀ r e, e ∈ H r → (∀ e', e' ∈ H r → e' ≠ e → D e') → D e)

def PA (fuel : Nat) : Prop := ∀ s esi, Good H s (some esi) → s.known esi = false → esi < n →
    cnt n s.known ≤ fuel → (∀ x, s.known x = true → D x) → D esi → Post H D s (decode fuel s esi) []
def PB (fuel : Nat) : Prop := ∀ l s, (s.complete = true ∨ Good H s none) → cnt n s.known ≤ fuel →
    (∀ r, r ∈ l → r < s.m) → (∀ x, s.known x = true → D x) → Post H D s (drain fuel s l) l

theorem cnt_mono (k1 k2 : Nat → Bool) (h : ∀ e, k1 e = true → k2 e = true) : cnt n k2 ≤ cnt n k1 := by
  unfold cnt
  have : (List.range n).filter (fun e => !k2 e) = ((List.range n).filter (fun e => !k1 e)).filter (fun e => !k2 e) := by
    rw [List.filter_filter]; congr 1; funext e
    cases h1 : k1 e <;> cases h2 : k2 e <;> simp_all
  rw [this]; exact List.length_filter_le _ _

theorem rowOK_none_some (H : Nat → List Nat) (known : Nat → Bool) (e r : Nat) (row : List Nat) (armed : Bool) (nbu : Nat)
    (h : RowOK H known none r row armed nbu) : RowOK H known (some e) r row armed nbu := by
  refine ⟨h.1, fun ha => ?_⟩
  rcases h.2 ha with h1 | ⟨h1, h2⟩
  · exact Or.inl h1
  · right; refine ⟨h1, fun e' he' => ?_⟩
    have := h2 e' he'; cases this

theorem consume_known (s : St) (r : Nat) : (s.consume r).known = s.known := rfl
theorem consume_m (s : St) (r : Nat) : (s.consume r).m = s.m := rfl
theorem consume_k (s : St) (r : Nat) : (s.consume r).k = s.k := rfl

theorem complete_mono (s s' : St) (hk : s'.k = s.k) (hmono : ∀ e, s.known e = true → s'.known e = true)
    (hc : s.complete = true) : s'.complete = true := by
  unfold St.complete at *
  rw [hk]
  rw [List.all_eq_true] at *
  intro x hx; exact hmono x (hc x hx)

include hlt hD in
theorem PB_of_PA (fuel : Nat) (hA : PA H n D fuel) : PB H n D fuel := by
  intro l
  induction l with
  | nil =>
    intro s hs _ _ hD0
    rw [drain_nil]
    refine ⟨rfl, rfl, fun _ h => h, ?_, hD0⟩
    rcases hs with hc | hg
    · left; exact hc
    · right; exact ⟨hg, fun r _ ha => ⟨ha, by simp⟩⟩
  | cons r rest ih =>
    intro s hs hcnt hl hD0
    rw [drain_cons]
    by_cases hc : s.complete = true
    · simp only [hc, if_true]
      exact ⟨rfl, rfl, fun _ h => h, Or.inl hc, hD0⟩
    · have hg : Good H s none := by rcases hs with h | h; exact absurd h hc; exact h
      simp only [hc, Bool.false_eq_true, if_false]
      have hr : r < s.m := hl r (by simp)
      have hrest : ∀ x, x ∈ rest → x < s.m := fun x hx => hl x (by simp [hx])
      -- the state after the (possible) recursive call
      have key : ∀ s2 : St, s2.m = s.m → s2.k = s.k → (∀ e, s.known e = true → s2.known e = true) →
          (s2.complete = true ∨ (Good H s2 none ∧ ∀ x, x < s.m → Armed1 H s2 x → Armed1 H s x ∧ x ≠ r)) →
          (∀ x, s2.known x = true → D x) →
          Post H D s (drain fuel s2 rest) (r :: rest) := by
        intro s2 hm2 hk2 hmono h2 hD2
        have hcnt2 : cnt n s2.known ≤ fuel := Nat.le_trans (cnt_mono n _ _ hmono) hcnt
        have hs2 : s2.complete = true ∨ Good H s2 none := by
          rcases h2 with h | ⟨h, _⟩; exact Or.inl h; exact Or.inr h
        obtain ⟨pm, pk, pmono, pp, pd⟩ := ih s2 hs2 hcnt2 (by intro x hx; rw [hm2]; exact hrest x hx) hD2
        refine ⟨pm.trans hm2, pk.trans hk2, fun e he => pmono e (hmono e he), ?_, pd⟩
        rcases pp with h | ⟨hg', ha'⟩
        · exact Or.inl h
        · rcases h2 with h2c | ⟨_, h2a⟩
          · left
            exact complete_mono s2 _ pk pmono h2c
          · right
            refine ⟨hg', fun x hx hax => ?_⟩
            obtain ⟨hax2, hnot⟩ := ha' x (by rw [hm2]; exact hx) hax
            obtain ⟨hax1, hne⟩ := h2a x hx hax2
            exact ⟨hax1, by simp [hne, hnot]⟩
      have hrowOK := (good_iff H s none).1 hg r hr
      -- Armed1 facts transported through `consume`
      have hcons_armed : ∀ x, x < s.m → Armed1 H (s.consume r) x → Armed1 H s x ∧ x ≠ r := by
        intro x _ hax
        obtain ⟨h1, h2⟩ := hax
        have hxr : x ≠ r := by
          intro h; subst h; simp [St.consume] at h1
        refine ⟨⟨?_, h2⟩, hxr⟩
        simpa [St.consume, hxr] using h1
      have hcons_good : ∀ p, RowOK H s.known p r [] false (s.nbu r) → Good H (s.consume r) p := by
        intro p hrr
        rw [good_iff]
        intro x hx
        by_cases hxr : x = r
        · subst hxr; simpa [St.consume] using hrr
        · have := (good_iff H s none).1 hg x hx
          have h2 : RowOK H s.known p x (s.rows x) (s.armed x) (s.nbu x) := by
            cases p with
            | none => exact this
            | some e => exact rowOK_none_some H s.known e x _ _ _ this
          simpa [St.consume, hxr] using h2
      cases hrow : s.rows r with
      | nil =>
        simp only []
        refine key s rfl rfl (fun _ h => h) ?_ hD0
        right; refine ⟨hg, fun x hx hax => ⟨hax, ?_⟩⟩
        intro hxr; subst hxr
        have := (hrowOK.1 hax.1).1
        rw [hrow] at this
        have h1 := hax.2; rw [← this] at h1; simp at h1
      | cons e t =>
        cases t with
        | cons e2 t2 =>
          simp only []
          refine key s rfl rfl (fun _ h => h) ?_ hD0
          right; refine ⟨hg, fun x hx hax => ⟨hax, ?_⟩⟩
          intro hxr; subst hxr
          have := (hrowOK.1 hax.1).1
          rw [hrow] at this
          have h1 := hax.2; rw [← this] at h1; simp at h1
        | nil =>
          simp only []
          cases harm : s.armed r with
          | true =>
            have hul : [e] = ul H s.known r := by rw [← hrow]; exact (hrowOK.1 harm).1
            have hemem : e ∈ ul H s.known r := by rw [← hul]; simp
            have heunk : s.known e = false := by
              have := (List.mem_filter.1 hemem).2; simpa using this
            have heH : e ∈ H r := (List.mem_filter.1 hemem).1
            have hgc : Good H (s.consume r) (some e) := by
              apply hcons_good
              refine ⟨(fun h => by cases h), fun _ => Or.inr ⟨rfl, fun e' he' => ?_⟩⟩
              rw [← hul] at he'; simp at he'; rw [he']
            -- every other member of equation r is known, hence in D; so the decoded symbol is in D
            have hDe : D e := by
              apply hD r e heH
              intro e' he' hne
              apply hD0
              cases hk' : s.known e' with
              | true => rfl
              | false =>
                exfalso
                have : e' ∈ ul H s.known r := List.mem_filter.2 ⟨he', by simp [hk']⟩
                rw [← hul] at this
                simp at this
                exact hne this
            have hpost := hA (s.consume r) e hgc heunk (hlt r e heH) hcnt hD0 hDe
            obtain ⟨qm, qk, qmono, qq, qd⟩ := hpost
            refine key _ qm qk qmono ?_ qd
            rcases qq with h | ⟨h1, h2⟩
            · exact Or.inl h
            · right; refine ⟨h1, fun x hx hax => ?_⟩
              exact hcons_armed x hx (h2 x hx hax).1
          | false =>
            have hcase := hrowOK.2 harm
            rcases hcase with ⟨h1, _, h3⟩ | ⟨h1, _⟩
            · -- plain row holding a single, already known, entry
              have hHr : H r = [e] := by rw [← h1]; exact hrow
              have hek : s.known e = true := by
                cases hk : s.known e with
                | true => rfl
                | false =>
                  exfalso; apply h3
                  simp [ul, hHr, hk]
              have hdec : decode fuel (s.consume r) e = s.consume r := by
                cases fuel with
                | zero => exact decode_zero _ _
                | succ f => rw [decode_succ]; simp [consume_known, hek]
              rw [hdec]
              have hulnil : ul H s.known r = [] := by simp [ul, hHr, hek]
              have hgc : Good H (s.consume r) none := by
                apply hcons_good
                refine ⟨(fun h => by cases h), fun _ => Or.inr ⟨rfl, fun e' he' => ?_⟩⟩
                rw [hulnil] at he'; cases he'
              refine key (s.consume r) rfl rfl (fun _ h => h) ?_ hD0
              right; exact ⟨hgc, hcons_armed⟩
            · rw [hrow] at h1; cases h1

variable (hnd : ∀ r, (H r).Nodup)

theorem cnt_pos_of_unknown (known : Nat → Bool) (esi : Nat) (hk : known esi = false) (hn : esi < n) :
    0 < cnt n known := by
  have := cnt_mark n known esi hk hn; omega

theorem PA_zero : PA H n D 0 := by
  intro s esi _ hk hn hc _ _
  have := cnt_mark n s.known esi hk hn
  omega

include hnd in
theorem PA_succ (fuel : Nat) (hB : PB H n D fuel) : PA H n D (fuel+1) := by
  intro s esi hg hk hn hc hD0 hDesi
  have hDmark : ∀ x, markK s.known esi x = true → D x := by
    intro x hx
    unfold markK at hx
    by_cases hxe : x = esi
    · subst hxe; exact hDesi
    · simp only [hxe, if_false] at hx; exact hD0 x hx
  rw [decode_succ]
  simp only [hk, Bool.false_eq_true, if_false]
  have hcm := cnt_mark n s.known esi hk hn
  have hmono1 : ∀ e, s.known e = true → (s.mark esi).known e = true := by
    intro e he; simp only [mark_known]; split <;> simp_all
  by_cases hcomp : (decide (esi < s.k) && (s.mark esi).complete) = true
  · simp only [hcomp, if_true]
    refine ⟨rfl, rfl, hmono1, Or.inl ?_, hDmark⟩
    simp only [Bool.and_eq_true] at hcomp; exact hcomp.2
  · simp only [hcomp, Bool.false_eq_true, if_false]
    obtain ⟨ig, im, ik, ikn, iarm, imem⟩ := inject_good H hnd s esi hg hk
    have hm1 : (s.mark esi).m = s.m := rfl
    rw [hm1]
    have hcnt2 : cnt n (inject (s.mark esi) esi s.m).1.known ≤ fuel := by rw [ikn]; omega
    have hpost := hB (inject (s.mark esi) esi s.m).2.reverse (inject (s.mark esi) esi s.m).1 (Or.inr ig) hcnt2
      (by intro r hr; rw [im]; exact imem r (List.mem_reverse.1 hr))
      (by rw [ikn]; exact hDmark)
    obtain ⟨pm, pk, pmono, pp, pd⟩ := hpost
    refine ⟨pm.trans im, pk.trans ik, ?_, ?_, pd⟩
    · intro e he; apply pmono; rw [ikn]; exact hmono1 e he
    · rcases pp with h | ⟨h1, h2⟩
      · exact Or.inl h
      · right; refine ⟨h1, fun r hr ha => ⟨?_, by simp⟩⟩
        obtain ⟨ha1, hnot⟩ := h2 r (by rw [im]; exact hr) ha
        rcases iarm r hr ha1 with hin | hold
        · exact absurd (List.mem_reverse.2 hin) hnot
        · exact hold

include hlt hnd hD in
theorem PA_all : ∀ fuel, PA H n D fuel
  | 0 => PA_zero H n D
  | fuel+1 => PA_succ H n D hnd fuel (PB_of_PA H n hlt D hD fuel (PA_all fuel))

include hlt hnd hD in
/-- Top level: from a state where every row with exactly one unknown is absent (no armed-with-one row),
    a call either completes the block or leaves no row with exactly one unknown symbol; what was known stays
    known, the new symbol is known, and every known symbol lies in any peeling-closed set `D` that contained
    the previously known symbols and the new one. -/
theorem decode_closed (s : St) (esi fuel : Nat) (hg : Good H s none) (hk : s.known esi = false) (hn : esi < n)
    (hfuel : cnt n s.known ≤ fuel) (hno : ∀ r, r < s.m → ¬ Armed1 H s r)
    (hD0 : ∀ x, s.known x = true → D x) (hDesi : D esi) :
    ((decode fuel s esi).complete = true ∨
    (Good H (decode fuel s esi) none ∧ ∀ r, r < s.m → (ul H (decode fuel s esi).known r).length ≠ 1)) ∧
    (decode fuel s esi).m = s.m ∧ (decode fuel s esi).k = s.k ∧
    (∀ e, s.known e = true → (decode fuel s esi).known e = true) ∧
    (∀ e, (decode fuel s esi).known e = true → D e) := by
  have hg' : Good H s (some esi) := by
    rw [good_iff] at *
    intro r hr; exact rowOK_none_some H s.known esi r _ _ _ (hg r hr)
  obtain ⟨pm, pk, pmono, pp, pd⟩ := PA_all H n hlt D hD hnd fuel s esi hg' hk hn hfuel hD0 hDesi
  refine ⟨?_, pm, pk, pmono, pd⟩
  rcases pp with h | ⟨h1, h2⟩
  · exact Or.inl h
  · right; refine ⟨h1, fun r hr hlen => ?_⟩
    have hrow := (good_iff H _ none).1 h1 r (by rw [pm]; exact hr)
    cases harm : (decode fuel s esi).armed r with
    | true => exact hno r hr (h2 r hr ⟨harm, hlen⟩).1
    | false =>
      rcases hrow.2 harm with ⟨_, _, h3⟩ | ⟨_, h3⟩
      · exact h3 hlen
      · -- empty disarmed row: all unknowns equal `none` is impossible, so the list is empty
        have : ul H (decode fuel s esi).known r = [] := by
          cases hu : ul H (decode fuel s esi).known r with
          | nil => rfl
          | cons a t => have := h3 a (by rw [hu]; simp); cases this
        rw [this] at hlen; cases hlen
end main

end ITAbs
