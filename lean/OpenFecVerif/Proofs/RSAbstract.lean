import Mathlib.LinearAlgebra.Lagrange
/-!
Abstract Reed-Solomon code over an arbitrary field `F` with pairwise distinct evaluation points
`v 0, …, v (n−1)`: the codeword of a message `src 0 … src (k−1)` is the evaluation of the unique
polynomial of degree < k through `(v i, src i)`, i < k.  Systematic; MDS.
-/
open Polynomial Finset

namespace RSA
variable {F : Type*} [Field F]

/-- message polynomial: the unique polynomial of degree < k through (v i, src i), i < k -/
noncomputable def msgPoly (k : ℕ) (v : ℕ → F) (src : ℕ → F) : F[X] :=
  Lagrange.interpolate (range k) v src

/-- codeword symbol i (one field position) -/
noncomputable def cw (k : ℕ) (v : ℕ → F) (src : ℕ → F) (i : ℕ) : F := (msgPoly k v src).eval (v i)

theorem cw_systematic (k n : ℕ) (v : ℕ → F) (hv : Set.InjOn v (range n : Finset ℕ)) (hk : k ≤ n)
    (src : ℕ → F) (i : ℕ) (hi : i < k) : cw k v src i = src i := by
  unfold cw msgPoly
  apply Lagrange.eval_interpolate_at_node
  · exact hv.mono (by intro x hx; simp at hx ⊢; omega)
  · simpa using hi

/-- the repair symbols are the generator combination Σ_i L_i(v r) · src i with L_i the Lagrange basis -/
theorem cw_eq_sum (k : ℕ) (v : ℕ → F) (src : ℕ → F) (r : ℕ) :
    cw k v src r = ∑ i ∈ range k, src i * (Lagrange.basis (range k) v i).eval (v r) := by
  unfold cw msgPoly
  rw [Lagrange.interpolate_apply, eval_finsetSum]
  apply Finset.sum_congr rfl
  intro i _
  simp [eval_mul, eval_C]

/-- MDS: any k distinct received positions determine the message polynomial -/
theorem mds (k n : ℕ) (v : ℕ → F) (hv : Set.InjOn v (range n : Finset ℕ)) (hk : k ≤ n)
    (src : ℕ → F) (s : Finset ℕ) (hs : s ⊆ range n) (hcard : s.card = k) :
    Lagrange.interpolate s v (cw k v src) = msgPoly k v src := by
  have hvs : Set.InjOn v s := hv.mono (by exact_mod_cast hs)
  symm
  apply Lagrange.eq_interpolate_of_eval_eq _ hvs
  · rw [hcard]
    have := Lagrange.degree_interpolate_lt (s := range k) (v := v) src
      (hv.mono (by intro x hx; simp at hx ⊢; omega))
    simpa [msgPoly] using this
  · intro i _; rfl

/-- … hence every codeword symbol, in particular every source symbol -/
theorem mds_symbol (k n : ℕ) (v : ℕ → F) (hv : Set.InjOn v (range n : Finset ℕ)) (hk : k ≤ n)
    (src : ℕ → F) (s : Finset ℕ) (hs : s ⊆ range n) (hcard : s.card = k) (j : ℕ) :
    (Lagrange.interpolate s v (cw k v src)).eval (v j) = cw k v src j := by
  rw [mds k n v hv hk src s hs hcard]; rfl

theorem mds_source (k n : ℕ) (v : ℕ → F) (hv : Set.InjOn v (range n : Finset ℕ)) (hk : k ≤ n)
    (src : ℕ → F) (s : Finset ℕ) (hs : s ⊆ range n) (hcard : s.card = k) (j : ℕ) (hj : j < k) :
    (Lagrange.interpolate s v (cw k v src)).eval (v j) = src j := by
  rw [mds_symbol k n v hv hk src s hs hcard]
  exact cw_systematic k n v hv hk src j hj

/-- fewer than k symbols never determine the block: two different messages agree on any k−1 positions -/
theorem not_determined (k n : ℕ) (v : ℕ → F) (hv : Set.InjOn v (range n : Finset ℕ)) (hk : k ≤ n)
    (s : Finset ℕ) (hs : s ⊆ range n) (hcard : s.card < k) :
    ∃ p : F[X], p ≠ 0 ∧ p.degree < k ∧ ∀ i ∈ s, p.eval (v i) = 0 := by
  refine ⟨∏ i ∈ s, (X - C (v i)), ?_, ?_, ?_⟩
  · exact Finset.prod_ne_zero_iff.mpr fun i _ => X_sub_C_ne_zero _
  · rw [degree_prod]
    simp only [degree_X_sub_C, Finset.sum_const, nsmul_eq_mul, mul_one]
    exact_mod_cast hcard
  · intro i hi
    rw [eval_prod]
    exact Finset.prod_eq_zero hi (by simp)

end RSA
