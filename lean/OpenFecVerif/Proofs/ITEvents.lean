import OpenFecVerif.Proofs.ITExec
import OpenFecVerif.Model.Api
/-!
# Which symbols the iterative decoder reports as decoded

`IT.St.decoded` is the list of symbols rebuilt by the decoder (most recent first); the session model turns the part added by one
`of_decode_with_new_symbol` call into that call's callback events.  `Ev n s s' sub`: going from `s` to `s'` with submitted
symbol `sub`, the list grows at the front by a duplicate-free list `new`; every member of `new` was unknown before, is known
after and is not the submitted symbol; every symbol that became known is the submitted one or a member of `new`; nothing is
forgotten.  Proved for `decode` and `drain` by induction on the fuel, which is shown sufficient by counting unknown symbols.
-/
namespace ITEvents
open IT

variable {σ : Type}

def cnt (n : Nat) (known : Nat → Bool) : Nat := ((List.range n).filter (fun e => !known e)).length

theorem cnt_mono (n : Nat) (k1 k2 : Nat → Bool) (h : ∀ e, k1 e = true → k2 e = true) : cnt n k2 ≤ cnt n k1 := by
  unfold cnt
  have : (List.range n).filter (fun e => !k2 e) = ((List.range n).filter (fun e => !k1 e)).filter (fun e => !k2 e) := by
    rw [List.filter_filter]; congr 1; funext e
    cases h1 : k1 e <;> cases h2 : k2 e <;> simp_all
  rw [this]; exact List.length_filter_le _ _

theorem cnt_mark (n : Nat) (k1 k2 : Nat → Bool) (esi : Nat) (hk : k1 esi = false) (hn : esi < n)
    (h2 : ∀ e, k2 e = (if e = esi then true else k1 e)) : cnt n k2 + 1 = cnt n k1 := by
  have := ITAbs.cnt_mark n k1 esi hk hn
  have e : ITAbs.markK k1 esi = k2 := by funext x; rw [h2]; rfl
  rw [e] at this
  exact this

/-- all entries of the remaining equations are below n -/
def RowsLt (n : Nat) (s : IT.St σ) : Prop := ∀ r, ∀ e ∈ s.rows.get r, e < n

structure Ev (n : Nat) (s s' : IT.St σ) (sub : Option Nat) : Prop where
  rows_lt : RowsLt n s'
  mono : ∀ e, s.known e = true → s'.known e = true
  ex : ∃ new : List Nat, s'.decoded = new ++ s.decoded ∧ new.Nodup ∧
    (∀ e ∈ new, s.known e = false ∧ s'.known e = true ∧ some e ≠ sub) ∧
    (∀ e, s'.known e = true → s.known e = true ∨ some e = sub ∨ e ∈ new)

theorem ev_refl (n : Nat) (s : IT.St σ) (sub : Option Nat) (h : RowsLt n s) : Ev n s s sub :=
  ⟨h, fun _ h => h, [], rfl, List.nodup_nil, (by intro e he; cases he), fun e h => Or.inl h⟩

/-- step 2 only removes entries from rows -/
theorem rowStep_subset (O : Ops σ) (sym : Nat → Option σ) (esi : Nat) (v : σ) (row : List Nat) (ct : Option σ) (nbu : Nat) :
    ∀ e ∈ (IT.rowStep O sym esi v row ct nbu).1, e ∈ row := by
  unfold IT.rowStep
  intro e he
  by_cases h1 : row.contains esi = true
  · simp only [h1, if_true] at he
    by_cases h2 : (ct.isSome || (nbu - 1 == 1)) = true
    · simp only [h2, if_true] at he
      exact (List.mem_filter.mp (List.mem_filter.mp he).1).1
    · have h2' : (ct.isSome || (nbu - 1 == 1)) = false := by simpa using h2
      simp only [h2', Bool.false_eq_true, if_false] at he
      exact he
  · have h1' : row.contains esi = false := by simpa using h1
    simp only [h1', Bool.false_eq_true, if_false] at he
    exact he

theorem inject_rowsLt (O : Ops σ) (n : Nat) (s : IT.St σ) (esi : Nat) (v : σ) (h : RowsLt n s) :
    ∀ R, RowsLt n (IT.inject O s esi v R).1 := by
  intro R
  induction R with
  | zero => exact h
  | succ R ih =>
    intro r e he
    simp only [IT.inject, IT.injectRow, TMap.get_set] at he
    by_cases hr : r = R
    · simp only [hr, if_true] at he
      exact ih R e (rowStep_subset O _ esi v _ _ _ e he)
    · simp only [hr, if_false] at he
      exact ih r e he

def PA (O : Ops σ) (n fuel : Nat) : Prop :=
  ∀ (s : IT.St σ) esi v, RowsLt n s → esi < n → cnt n s.known ≤ fuel →
    Ev n s (IT.decode O fuel s esi v) (some esi) ∧ (s.known esi = false → (IT.decode O fuel s esi v).known esi = true)
def PB (O : Ops σ) (n fuel : Nat) : Prop :=
  ∀ l (s : IT.St σ), RowsLt n s → cnt n s.known ≤ fuel → Ev n s (IT.drain O fuel s l) none

theorem consume_rowsLt (n : Nat) (s : IT.St σ) (r : Nat) (h : RowsLt n s) : RowsLt n (s.consume r) := by
  intro x e he
  simp only [IT.St.consume, TMap.get_set] at he
  by_cases hx : x = r
  · simp [hx] at he
  · simp only [hx, if_false] at he; exact h x e he

theorem PB_of_PA (O : Ops σ) (n fuel : Nat) (hA : PA O n fuel) : PB O n fuel := by
  intro l
  induction l with
  | nil => intro s hr _; rw [ITRefine.drain_nil]; exact ev_refl n s none hr
  | cons r rest ih =>
    intro s hr hc
    rw [ITRefine.drain_cons]
    by_cases hcomp : s.complete = true
    · simp only [hcomp, if_true]; exact ev_refl n s none hr
    · simp only [hcomp, Bool.false_eq_true, if_false]
      cases hrow : s.rows.get r with
      | nil => simp only []; exact ih s hr hc
      | cons e t =>
        cases t with
        | cons e2 t2 => simp only []; exact ih s hr hc
        | nil =>
          simp only []
          have he : e < n := hr r e (by rw [hrow]; simp)
          have hcr := consume_rowsLt n s r hr
          by_cases hke : (s.consume r).known e = true
          · -- already known: nothing is reported, the nested decode returns at once
            simp only [hke, if_true]
            obtain ⟨ev1, _⟩ := hA (s.consume r) e ((s.cterm.get r).getD O.zero) hcr he hc
            have hc2 : cnt n (IT.decode O fuel (s.consume r) e ((s.cterm.get r).getD O.zero)).known ≤ fuel :=
              Nat.le_trans (cnt_mono n _ _ ev1.mono) hc
            have ev2 := ih _ ev1.rows_lt hc2
            obtain ⟨n1, d1, nd1, a1, b1⟩ := ev1.ex
            obtain ⟨n2, d2, nd2, a2, b2⟩ := ev2.ex
            refine ⟨ev2.rows_lt, fun x hx => ev2.mono x (ev1.mono x hx), n2 ++ n1, by rw [d2, d1, List.append_assoc]; rfl, ?_, ?_, ?_⟩
            · rw [List.nodup_append]
              refine ⟨nd2, nd1, ?_⟩
              intro a ha b hb hab; subst hab
              have := (a2 a ha).1; rw [(a1 a hb).2.1] at this; cases this
            · intro x hx
              rcases List.mem_append.mp hx with h | h
              · obtain ⟨x1, x2, _⟩ := a2 x h
                refine ⟨?_, x2, by simp⟩
                cases hk : s.known x with
                | false => rfl
                | true => rw [ev1.mono x hk] at x1; cases x1
              · obtain ⟨x1, x2, _⟩ := a1 x h
                exact ⟨x1, ev2.mono x x2, by simp⟩
            · intro x hx
              rcases b2 x hx with h | h | h
              · rcases b1 x h with h' | h' | h'
                · exact Or.inl h'
                · -- x = e, which was already known
                  have : x = e := by simpa using h'
                  subst this; exact Or.inl hke
                · exact Or.inr (Or.inr (List.mem_append_right _ h'))
              · cases h
              · exact Or.inr (Or.inr (List.mem_append_left _ h))
          · have hke' : (s.consume r).known e = false := by simpa using hke
            have hkes : s.known e = false := hke'
            simp only [hke', Bool.false_eq_true, if_false]
            -- the state with e listed as decoded has the same known set
            have hr2 : RowsLt n ({ (s.consume r) with decoded := e :: (s.consume r).decoded } : IT.St σ) := hcr
            obtain ⟨ev1, hknown⟩ := hA ({ (s.consume r) with decoded := e :: (s.consume r).decoded } : IT.St σ) e
              ((s.cterm.get r).getD O.zero) hr2 he hc
            have hek := hknown hke'
            have hc2 : cnt n (IT.decode O fuel ({ (s.consume r) with decoded := e :: (s.consume r).decoded } : IT.St σ) e
                ((s.cterm.get r).getD O.zero)).known ≤ fuel :=
              Nat.le_trans (cnt_mono n _ _ ev1.mono) hc
            have ev2 := ih _ ev1.rows_lt hc2
            obtain ⟨n1, d1, nd1, a1, b1⟩ := ev1.ex
            obtain ⟨n2, d2, nd2, a2, b2⟩ := ev2.ex
            refine ⟨ev2.rows_lt, fun x hx => ev2.mono x (ev1.mono x hx), n2 ++ (n1 ++ [e]), ?_, ?_, ?_, ?_⟩
            · rw [d2, d1]; simp [IT.St.consume]
            · rw [List.nodup_append]
              refine ⟨nd2, ?_, ?_⟩
              · rw [List.nodup_append]
                refine ⟨nd1, by simp, ?_⟩
                intro a ha b hb hab; subst hab
                simp only [List.mem_singleton] at hb
                exact (a1 a ha).2.2 (by rw [hb])
              · intro a ha b hb hab; subst hab
                have hu := (a2 a ha).1
                rcases List.mem_append.mp hb with h | h
                · rw [(a1 a h).2.1] at hu; cases hu
                · simp only [List.mem_singleton] at h; subst h; rw [hek] at hu; cases hu
            · intro x hx
              rcases List.mem_append.mp hx with h | h
              · obtain ⟨x1, x2, _⟩ := a2 x h
                refine ⟨?_, x2, by simp⟩
                cases hk : s.known x with
                | false => rfl
                | true => rw [ev1.mono x hk] at x1; cases x1
              · rcases List.mem_append.mp h with h' | h'
                · obtain ⟨x1, x2, _⟩ := a1 x h'
                  exact ⟨x1, ev2.mono x x2, by simp⟩
                · simp only [List.mem_singleton] at h'; subst h'
                  exact ⟨hkes, ev2.mono x hek, by simp⟩
            · intro x hx
              rcases b2 x hx with h | h | h
              · rcases b1 x h with h' | h' | h'
                · exact Or.inl h'
                · have : x = e := by simpa using h'
                  subst this; exact Or.inr (Or.inr (List.mem_append_right _ (List.mem_append_right _ (by simp))))
                · exact Or.inr (Or.inr (List.mem_append_right _ (List.mem_append_left _ h')))
              · cases h
              · exact Or.inr (Or.inr (List.mem_append_left _ h))

theorem PA_zero (O : Ops σ) (n : Nat) : PA O n 0 := by
  intro s esi v hr hn hc
  rw [ITRefine.decode_zero]
  refine ⟨ev_refl n s _ hr, ?_⟩
  intro hk
  exfalso
  have : 0 < cnt n s.known := by
    have := ITAbs.cnt_mark n s.known esi hk hn; unfold cnt; unfold ITAbs.cnt at this; omega
  omega

theorem PA_succ (O : Ops σ) (n fuel : Nat) (hB : PB O n fuel) : PA O n (fuel+1) := by
  intro s esi v hr hn hc
  rw [ITRefine.decode_succ]
  by_cases hk : s.known esi = true
  · simp only [hk, if_true]
    exact ⟨ev_refl n s _ hr, fun h => by cases h⟩
  · have hk' : s.known esi = false := by simpa using hk
    simp only [hk', Bool.false_eq_true, if_false]
    have hknown1 : ∀ e, ({ s with sym := s.sym.set esi (some v) } : IT.St σ).known e = (if e = esi then true else s.known e) := by
      intro e
      simp only [IT.St.known, TMap.get_set]
      by_cases he : e = esi <;> simp [he]
    have hr1 : RowsLt n ({ s with sym := s.sym.set esi (some v) } : IT.St σ) := hr
    have hc1 : cnt n ({ s with sym := s.sym.set esi (some v) } : IT.St σ).known ≤ fuel := by
      have := cnt_mark n s.known _ esi hk' hn hknown1; omega
    split
    · -- decoding complete: the marked state is returned
      refine ⟨⟨hr1, ?_, [], rfl, List.nodup_nil, (by intro e he; cases he), ?_⟩, ?_⟩
      · intro e he; rw [hknown1]; split <;> simp [he]
      · intro e he
        rw [hknown1] at he
        by_cases hee : e = esi
        · exact Or.inr (Or.inl (by rw [hee]))
        · simp only [hee, if_false] at he; exact Or.inl he
      · intro _; rw [hknown1]; simp
    · have hsome : ((({ s with sym := s.sym.set esi (some v) } : IT.St σ).sym.get esi)).isSome = true := by
        simp [TMap.get_set_same]
      obtain ⟨_, _, isym, idec⟩ := ITRefine.inject_abs O ({ s with sym := s.sym.set esi (some v) } : IT.St σ) esi v hsome s.m
      have hrp := inject_rowsLt O n _ esi v hr1 s.m
      have hkp : ∀ e, (IT.inject O ({ s with sym := s.sym.set esi (some v) } : IT.St σ) esi v s.m).1.known e
          = (if e = esi then true else s.known e) := by
        intro e
        have : (IT.inject O ({ s with sym := s.sym.set esi (some v) } : IT.St σ) esi v s.m).1.known e
            = ({ s with sym := s.sym.set esi (some v) } : IT.St σ).known e := by
          simp only [IT.St.known, isym]
        rw [this, hknown1]
      have hcp : cnt n (IT.inject O ({ s with sym := s.sym.set esi (some v) } : IT.St σ) esi v s.m).1.known ≤ fuel := by
        have := cnt_mark n s.known _ esi hk' hn hkp; omega
      have ev := hB (IT.inject O ({ s with sym := s.sym.set esi (some v) } : IT.St σ) esi v s.m).2.reverse _ hrp hcp
      obtain ⟨nw, d, nd, a, b⟩ := ev.ex
      refine ⟨⟨ev.rows_lt, ?_, nw, ?_, nd, ?_, ?_⟩, ?_⟩
      · intro e he
        apply ev.mono
        rw [hkp]; split <;> simp [he]
      · rw [d, idec]
      · intro e he
        obtain ⟨x1, x2, _⟩ := a e he
        rw [hkp] at x1
        by_cases hee : e = esi
        · simp [hee] at x1
        · simp only [hee, if_false] at x1
          exact ⟨x1, x2, by simpa using hee⟩
      · intro e he
        rcases b e he with h | h | h
        · rw [hkp] at h
          by_cases hee : e = esi
          · exact Or.inr (Or.inl (by rw [hee]))
          · simp only [hee, if_false] at h; exact Or.inl h
        · cases h
        · exact Or.inr (Or.inr h)
      · intro _
        apply ev.mono
        rw [hkp]; simp

theorem PA_all (O : Ops σ) (n : Nat) : ∀ fuel, PA O n fuel
  | 0 => PA_zero O n
  | fuel+1 => PA_succ O n fuel (PB_of_PA O n fuel (PA_all O n fuel))


theorem cnt_le (n : Nat) (known : Nat → Bool) : cnt n known ≤ n := by
  unfold cnt
  calc _ ≤ (List.range n).length := List.length_filter_le _ _
    _ = n := List.length_range

open Api in
/-- **Callback events of `of_decode_with_new_symbol` (iterative decoding).**  On a session whose matrix has not been consumed, the
events of one call are exactly the source symbols that were unknown before the call, are known after it, and are not the submitted
symbol — each exactly once.  Since known symbols stay known, no symbol is ever reported twice over a session, and never one that
was received. -/
theorem ldpcRecv_events (IO : SymIO σ) (s : Session σ) (p : Params) (esi j : Nat) (v : σ) (it : IT.St σ) (hit : s.it = some it)
    (hcons : s.mlConsumed = false) (hrows : RowsLt p.n it) (hesi : esi < p.n) :
    ∃ it', (ldpcRecv IO s p esi v j).2.1.it = some it' ∧ RowsLt p.n it' ∧ (∀ e, it.known e = true → it'.known e = true) ∧
      (ldpcRecv IO s p esi v j).2.2.Nodup ∧
      ∀ e, e ∈ (ldpcRecv IO s p esi v j).2.2 ↔ (e < p.k ∧ it.known e = false ∧ it'.known e = true ∧ e ≠ esi) := by
  obtain ⟨ev, _⟩ := PA_all (IO.ops 3 p.m p.len) p.n (p.n + 1) it esi v hrows hesi (Nat.le_trans (cnt_le _ _) (Nat.le_succ _))
  obtain ⟨nw, d, nd, a, b⟩ := ev.ex
  refine ⟨IT.submit (IO.ops 3 p.m p.len) p.n it esi v, ?_, ev.rows_lt, ev.mono, ?_, ?_⟩
  · unfold ldpcRecv ldpcAfter; simp only [hit, hcons]; rfl
  all_goals
    have hev : (ldpcRecv IO s p esi v j).2.2 = nw.filter (· < p.k) := by
      unfold ldpcRecv ldpcAfter
      simp only [hit, hcons, Bool.false_eq_true, if_false]
      have hd : (IT.submit (IO.ops 3 p.m p.len) p.n it esi v).decoded = nw ++ it.decoded := d
      rw [hd]
      simp
    rw [hev]
  · exact nd.filter _
  · intro e
    simp only [List.mem_filter, decide_eq_true_eq]
    constructor
    · rintro ⟨h1, h2⟩
      obtain ⟨x1, x2, x3⟩ := a e h1
      exact ⟨h2, x1, x2, by intro h; exact x3 (by rw [h])⟩
    · rintro ⟨h1, h2, h3, h4⟩
      rcases b e h3 with h | h | h
      · rw [h2] at h; cases h
      · exact absurd (by simpa using h) h4
      · exact ⟨h, h1⟩

end ITEvents
