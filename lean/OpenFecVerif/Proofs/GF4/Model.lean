import Mathlib.Algebra.Field.MinimalAxioms
import Mathlib.Data.Fintype.Basic
import Mathlib.Data.Fintype.Card
import OpenFecVerif.Proofs.RSBridge
/-! GF(2^4) = GF(2)[x]/(x^4+x+1) as a Mathlib `Field` (every axiom by kernel evaluation over the 16
elements) and as a `FieldModel` of the executable operations `RS.fld4`. -/
namespace GF4
open GF

theorem mul_lt16 : ∀ a : Fin 16, ∀ b : Fin 16, mul4 a b < 16 := by decide +kernel
theorem xor_lt16 (a b : Fin 16) : a.val ^^^ b.val < 16 := Nat.xor_lt_two_pow (n := 4) a.isLt b.isLt
theorem inv_lt16 : ∀ a : Fin 16, RS.pow mul4 a 14 < 16 := by decide +kernel

structure GF16 where
  val : Fin 16
deriving DecidableEq

namespace GF16
instance : Fintype GF16 := Fintype.ofEquiv (Fin 16) ⟨GF16.mk, GF16.val, fun _ => rfl, fun _ => rfl⟩
instance : Zero GF16 := ⟨⟨0⟩⟩
instance : One GF16 := ⟨⟨1⟩⟩
instance : Add GF16 := ⟨fun a b => ⟨⟨a.val.val ^^^ b.val.val, xor_lt16 a.val b.val⟩⟩⟩
instance : Neg GF16 := ⟨fun a => a⟩
instance : Mul GF16 := ⟨fun a b => ⟨⟨mul4 a.val b.val, mul_lt16 a.val b.val⟩⟩⟩
instance : Inv GF16 := ⟨fun a => ⟨⟨RS.pow mul4 a.val 14, inv_lt16 a.val⟩⟩⟩

instance : Field GF16 := Field.ofMinimalAxioms GF16
  (by decide +kernel) (by decide +kernel) (by decide +kernel) (by decide +kernel) (by decide +kernel)
  (by decide +kernel) (by decide +kernel) (by decide +kernel) (by decide +kernel) ⟨0, 1, by decide⟩

def ofNat (n : ℕ) : GF16 := ⟨Fin.ofNat 16 n⟩
end GF16
open GF16

theorem pt_lt : ∀ i : Fin 16, RS.pt RS.fld4 i < 16 := by decide +kernel
theorem xpow4_period (i : ℕ) : xpow4 (i + 15) = xpow4 i := by
  induction i with
  | zero => decide +kernel
  | succ i ih =>
    have : xpow4 (i + 1 + 15) = xtime 4 poly4 (xpow4 (i + 15)) := by simp [xpow4, xpow, Nat.add_right_comm]
    rw [this, ih]; rfl

theorem xpow4_lt (i : ℕ) : xpow4 i < 16 := by
  induction i using Nat.strong_induction_on with
  | _ i ih =>
    by_cases h : i < 15
    · have : ∀ j : Fin 15, xpow4 j < 16 := by decide +kernel
      exact this ⟨i, h⟩
    · have := ih (i - 15) (by omega)
      rw [← xpow4_period (i - 15)] at this
      have e : i - 15 + 15 = i := by omega
      rwa [e] at this

def model : FieldModel GF16 RS.fld4 where
  N := 16
  φ := ofNat
  φ_inj := by
    have : ∀ a b : Fin 16, ofNat a = ofNat b → a = b := by decide +kernel
    intro a b ha hb h
    have := this ⟨a, ha⟩ ⟨b, hb⟩ h
    exact congrArg Fin.val this
  φ_zero := rfl
  φ_one := rfl
  φ_xor := by
    have : ∀ a b : Fin 16, ofNat (a.val ^^^ b.val) = ofNat a + ofNat b := by decide +kernel
    intro a b ha hb; exact this ⟨a, ha⟩ ⟨b, hb⟩
  φ_mul := by
    have : ∀ a b : Fin 16, ofNat (mul4 a b) = ofNat a * ofNat b := by decide +kernel
    intro a b ha hb; exact this ⟨a, ha⟩ ⟨b, hb⟩
  φ_inv := by
    have : ∀ a : Fin 16, ofNat (RS.pow mul4 a 14) = (ofNat a)⁻¹ := by decide +kernel
    intro a ha; exact this ⟨a, ha⟩
  xor_lt := fun a b ha hb => Nat.xor_lt_two_pow (n := 4) ha hb
  mul_lt := fun a b ha hb => mul_lt16 ⟨a, ha⟩ ⟨b, hb⟩
  inv_lt := fun a ha => inv_lt16 ⟨a, ha⟩
  one_lt := by omega
  pt_lt := by
    intro i
    unfold RS.pt; split
    · omega
    · exact xpow4_lt _
  pt_inj := by
    have : ∀ i j : Fin 15, RS.pt RS.fld4 i = RS.pt RS.fld4 j → i = j := by decide +kernel
    intro i j hi hj h
    exact congrArg Fin.val (this ⟨i, by omega⟩ ⟨j, by omega⟩ h)

end GF4
