import OpenFecVerif.Proofs.RfcWF
/-!
# The RFC 5170 construction always returns a matrix (termination of the rejection loops)

`DrawTotal rn`: a rejection loop over a bound below 2^30 that accepts at least one value returns (within the model's fuel of 2^31
draws) from every valid generator state.  It is established for every rounding operator of the binary64 standard model in
`Proofs/DrawTotal.lean` (16807 is a primitive root modulo the prime 2^31−1, so the orbit of every valid state visits every valid
state; every value below the bound is the scaled output of some state).  From it: every rejection loop of the construction is entered
with at least one acceptable value, hence `Rfc5170.create` returns a matrix for every configuration within the limits.
-/
namespace RfcTotal
open Rfc5170 RfcWF

def DrawTotal (rn : Rat → Rat) : Prop :=
  ∀ (m : Nat) (accept : Nat → Bool) (v s : Nat), 1 ≤ m → m < 2 ^ 30 → v < m → accept v = true → SeedOk s →
    (drawUntil rn m accept loopFuel s).isSome = true

theorem existsFrom_true (p : Nat → Bool) : ∀ cnt lo, existsFrom p lo cnt = true → ∃ i, lo ≤ i ∧ i < lo + cnt ∧ p i = true := by
  intro cnt
  induction cnt with
  | zero => intro lo h; simp [existsFrom] at h
  | succ c ih =>
    intro lo h
    simp only [existsFrom] at h
    by_cases hp : p lo = true
    · exact ⟨lo, Nat.le_refl _, by omega, hp⟩
    · simp only [hp, Bool.false_eq_true, if_false] at h
      obtain ⟨i, h1, h2, h3⟩ := ih (lo + 1) h
      exact ⟨i, by omega, by omega, h3⟩

/-- pigeonhole: a list shorter than r misses some value below r -/
theorem exists_not_mem (r : Nat) : ∀ (col : List Nat), col.length < r → ∃ x, x < r ∧ x ∉ col := by
  induction r with
  | zero => intro col h; omega
  | succ r ih =>
    intro col h
    by_cases hr : r ∈ col
    · -- remove one occurrence of r and recurse
      have hpos := List.length_pos_of_mem hr
      have hlen : (col.erase r).length < r := by rw [List.length_erase_of_mem hr]; omega
      obtain ⟨x, hx, hxn⟩ := ih (col.erase r) hlen
      have hne : x ≠ r := by omega
      refine ⟨x, by omega, ?_⟩
      intro hmem
      exact hxn ((List.mem_erase_of_ne hne).mpr hmem)
    · exact ⟨r, by omega, hr⟩

theorem pick_ne (first : Nat) : ((if first = 0 then 1 else 0) != first) = true := by
  by_cases h : first = 0
  · subst h; decide
  · rw [if_neg h]; exact bne_iff_ne.mpr (fun e => h e.symm)

theorem addOne_col_len (rn : Rat → Rat) (r total : Nat) (f f' : Fill) (h : addOne rn r total f = some f') :
    f'.col.length = f.col.length + 1 := by
  unfold addOne at h
  simp only at h
  split at h
  · split at h
    · cases h
    · simp only [Option.some.injEq] at h; subst h; simp
  · split at h
    · cases h
    · simp only [Option.some.injEq] at h; subst h; simp

theorem addOne_total (rn : Rat → Rat) (hd : DrawTotal rn) (r total : Nat) (hr30 : r < 2 ^ 30) (ht30 : total < 2 ^ 30)
    (f : Fill) (inv : FillInv r f) (hlen : f.col.length < r) : (addOne rn r total f).isSome = true := by
  unfold addOne
  simp only
  split
  · rename_i havail
    obtain ⟨i, hi1, hi2, hp⟩ := existsFrom_true _ _ _ havail
    have hpos := existsFrom_pos _ _ _ havail
    have := hd (total - f.t) (fun x => !(f.col.contains (f.u.getD (f.t + x) 0))) (i - f.t) f.seed hpos (by omega) (by omega)
      (by
        have e : f.t + (i - f.t) = i := by omega
        simp only [e]; exact hp) inv.seed_ok
    split
    · rename_i hnone; rw [hnone] at this; cases this
    · rfl
  · obtain ⟨x, hx, hxn⟩ := exists_not_mem r f.col hlen
    have := hd r (fun x => !(f.col.contains x)) x f.seed (by omega) hr30 hx (by simpa using hxn) inv.seed_ok
    split
    · rename_i hnone; rw [hnone] at this; cases this
    · rfl

theorem addN_total (rn : Rat → Rat) (hg : GoodRand rn) (hd : DrawTotal rn) (r total : Nat) (hr : 1 ≤ r) (hr30 : r < 2 ^ 30)
    (ht30 : total < 2 ^ 30) : ∀ n (f : Fill), FillInv r f → f.col.length + n ≤ r → (addN rn r total n f).isSome = true := by
  have h63 : (2 : Nat) ^ 30 ≤ 2 ^ 63 := Nat.pow_le_pow_right (by omega) (by omega)
  intro n
  induction n with
  | zero => intro f _ _; rfl
  | succ n ih =>
    intro f inv hlen
    simp only [addN]
    have h1 := addOne_total rn hd r total hr30 ht30 f inv (by omega)
    split
    · rename_i hnone; rw [hnone] at h1; cases h1
    · rename_i f1 hf1
      have inv1 := addOne_inv rn hg r total hr (by omega) (by omega) f f1 inv hf1
      have hl := addOne_col_len rn r total f f1 hf1
      exact ih f1 inv1 (by omega)

theorem fold_total (rn : Rat → Rat) (hg : GoodRand rn) (hd : DrawTotal rn) (r total N1 : Nat) (hr : 1 ≤ r) (hr30 : r < 2 ^ 30)
    (ht30 : total < 2 ^ 30) (hN : N1 ≤ r)
    {α : Type} (l : List α) (g : Option (Fill × List (List Nat)) → α → Option (Fill × List (List Nat)))
    (hgdef : ∀ acc x, g acc x = match acc with
        | none => none
        | some (f, cols) =>
          match addN rn r total N1 { f with col := [] } with
          | none => none
          | some f' => some (f', cols ++ [f'.col])) :
    ∀ (f0 : Fill) (cols0 : List (List Nat)), FillInv r f0 → (l.foldl g (some (f0, cols0))).isSome = true := by
  have h63 : (2 : Nat) ^ 30 ≤ 2 ^ 63 := Nat.pow_le_pow_right (by omega) (by omega)
  induction l with
  | nil => intro f0 cols0 _; rfl
  | cons a t ih =>
    intro f0 cols0 inv
    simp only [List.foldl_cons]
    have inv' : FillInv r { f0 with col := [] } := ⟨inv.seed_ok, List.nodup_nil, (by intro x hx; cases hx), inv.u_lt⟩
    have ht := addN_total rn hg hd r total hr hr30 ht30 N1 { f0 with col := [] } inv' (by simpa using hN)
    rw [hgdef]
    simp only
    cases hq : addN rn r total N1 { f0 with col := [] } with
    | none => rw [hq] at ht; cases ht
    | some f1 =>
      simp only
      exact ih f1 _ (addN_inv rn hg r total hr (by omega) (by omega) N1 _ f1 inv' hq)

theorem fillCols_total (rn : Rat → Rat) (hg : GoodRand rn) (hd : DrawTotal rn) (k r N1 seed : Nat) (hr : 1 ≤ r) (hr30 : r < 2 ^ 30)
    (ht30 : N1 * k < 2 ^ 30) (hN : N1 ≤ r) (hs : SeedOk seed) : (fillCols rn k r N1 seed).isSome = true := by
  unfold fillCols
  simp only
  rw [Option.isSome_map]
  have inv0 : FillInv r ({ seed := seed, u := Array.ofFn (n := N1 * k) fun i => i.val % r, t := 0, col := [], uneven := 0 } : Fill) := by
    refine ⟨hs, List.nodup_nil, (by intro x hx; cases hx), ?_⟩
    intro i
    simp only [Array.getD_eq_getD_getElem?]
    by_cases hi : i < N1 * k
    · simp only [Array.getElem?_ofFn, hi, dite_true, Option.getD_some]
      exact Nat.mod_lt _ (by omega)
    · simp only [Array.getElem?_ofFn, hi, dite_false, Option.getD_none]; omega
  refine fold_total rn hg hd r (N1 * k) N1 hr hr30 ht30 hN (List.range k) _ ?_ _ [] inv0
  intros; rfl

theorem fixRows_total (rn : Rat → Rat) (hg : GoodRand rn) (hd : DrawTotal rn) (k : Nat) (hk : 1 ≤ k) (hk30 : k < 2 ^ 30) :
    ∀ (rows : List (List Nat)) (seed added : Nat) (done : List (List Nat)), SeedOk seed →
      (fixRows rn k rows seed added done).isSome = true := by
  have h63 : (2 : Nat) ^ 30 ≤ 2 ^ 63 := Nat.pow_le_pow_right (by omega) (by omega)
  intro rows
  induction rows with
  | nil => intro seed added done _; rfl
  | cons row rest ih =>
    intro seed added done hs
    unfold fixRows
    simp only
    by_cases hemp : row.isEmpty = true
    · simp only [hemp, if_true]
      obtain ⟨_, g2, g3⟩ := hg seed k hs.1 hs.2 hk (by omega)
      have hs1 : SeedOk (Gen.of_rfc5170_rand rn seed k).1 := ⟨g2, g3⟩
      by_cases hc : (([(Gen.of_rfc5170_rand rn seed k).2] : List Nat).length == 1 && decide (k > 1)) = true
      · simp only [hc, if_true]
        have hk1 : k > 1 := by simpa using hc
        let first := ([(Gen.of_rfc5170_rand rn seed k).2] : List Nat).headD 0
        have := hd k (fun x => x != first) (if first = 0 then 1 else 0) (Gen.of_rfc5170_rand rn seed k).1 hk hk30
          (by split <;> omega) (pick_ne first) hs1
        cases hq : drawUntil rn k (fun x => x != first) loopFuel (Gen.of_rfc5170_rand rn seed k).1 with
        | none => rw [hq] at this; cases this
        | some pr =>
          obtain ⟨seed2, j⟩ := pr
          have hsp := drawUntil_spec rn hg k hk (by omega) _ _ _ _ _ hs1 hq
          exact ih _ _ _ hsp.1
      · simp only [hc, Bool.false_eq_true, if_false]
        exact ih _ _ _ hs1
    · simp only [hemp, Bool.false_eq_true, if_false]
      by_cases hc : (row.length == 1 && decide (k > 1)) = true
      · simp only [hc, if_true]
        have hk1 : k > 1 := by simp only [Bool.and_eq_true, decide_eq_true_eq] at hc; exact hc.2
        have := hd k (fun x => x != row.headD 0) (if row.headD 0 = 0 then 1 else 0) seed hk hk30
          (by split <;> omega) (pick_ne _) hs
        cases hq : drawUntil rn k (fun x => x != row.headD 0) loopFuel seed with
        | none => rw [hq] at this; cases this
        | some pr =>
          obtain ⟨seed2, j⟩ := pr
          have hsp := drawUntil_spec rn hg k hk (by omega) _ _ _ _ _ hs hq
          simp only
          exact ih _ _ _ hsp.1
      · simp only [hc, Bool.false_eq_true, if_false]
        exact ih _ _ _ hs

/-- **the construction always returns a matrix**: for N1 ≤ n−k, a valid seed and sizes below 2^30 (the library's limits are far
below), no rejection loop runs out of the 2^31 draws the model allows -/
theorem create_total (rn : Rat → Rat) (hg : GoodRand rn) (hd : DrawTotal rn) (g k r N1 seed : Nat) (hk : 1 ≤ k) (hr : 1 ≤ r)
    (hk30 : k < 2 ^ 30) (hr30 : r < 2 ^ 30) (ht30 : N1 * k < 2 ^ 30) (hN : N1 ≤ r) (hs : SeedOk seed) :
    (create rn g k r N1 seed).2.isSome = true := by
  have h63 : (2 : Nat) ^ 30 ≤ 2 ^ 63 := Nat.pow_le_pow_right (by omega) (by omega)
  unfold create
  rw [if_neg (by omega)]
  have hs0 : Gen.of_rfc5170_srand g seed = seed := by
    unfold Gen.of_rfc5170_srand
    simp only [ge_iff_le]
    rw [if_pos ⟨hs.1, hs.2⟩]
  simp only [hs0]
  have h1 := fillCols_total rn hg hd k r N1 seed hr hr30 ht30 hN hs
  cases hf : fillCols rn k r N1 seed with
  | none => rw [hf] at h1; cases h1
  | some pr =>
    obtain ⟨s1, cols, uneven⟩ := pr
    simp only
    obtain ⟨hs1, _, _⟩ := fillCols_spec rn hg k r N1 seed hr (by omega) (by omega) hs s1 cols uneven hf
    have h2 := fixRows_total rn hg hd k hk hk30 (rowsOf cols r) s1 0 [] hs1
    cases hx : fixRows rn k (rowsOf cols r) s1 0 [] with
    | none => rw [hx] at h2; cases h2
    | some pr2 =>
      obtain ⟨s2, rows2, added⟩ := pr2
      rfl

end RfcTotal
