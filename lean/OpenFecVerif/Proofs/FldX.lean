import OpenFecVerif.Proofs.GF8.Model
import OpenFecVerif.Proofs.GF4.Model
/-!
# The table-accelerated field operations of the executable model are the first-principles ones

`Api.fldOf` gives the session model `RS.fld8x` / `RS.fld4x`, whose multiplication, inverse and powers of x are table look-ups (tables
built with `Array.ofFn` from the bit-level functions).  On field elements they coincide with `RS.fld8` / `RS.fld4`, so they are
faithful copies of the same fields: `GF8.modelx`, `GF4.modelx`.  Every Reed-Solomon theorem therefore holds for the operations the
executable model actually uses.
-/
open GF

namespace GF8

theorem getD_ofFn {α : Type} {n : ℕ} (f : Fin n → α) (d : α) (i : ℕ) (h : i < n) : (Array.ofFn f).getD i d = f ⟨i, h⟩ := by
  simp only [Array.getD_eq_getD_getElem?, Array.getElem?_ofFn, h, dite_true, Option.getD_some]

theorem fmul8_eq {a b : ℕ} (ha : a < 256) (hb : b < 256) : Bytes.fmul8 a b = mul8 a b := by
  unfold Bytes.fmul8 Bytes.mulTab8
  rw [getD_ofFn _ _ _ (by omega : a * 256 + b < 65536)]
  have h1 : (a * 256 + b) / 256 = a := by omega
  have h2 : (a * 256 + b) % 256 = b := by omega
  simp only [h1, h2]
  have := mul8_lt b ha
  simp [Nat.toUInt8, UInt8.toNat_ofNat', Nat.mod_eq_of_lt this]

theorem fld8x_mul {a b : ℕ} (ha : a < 256) (hb : b < 256) : RS.fld8x.mul a b = RS.fld8.mul a b := by
  unfold RS.fld8x RS.fld8
  dsimp only
  exact fmul8_eq ha hb

theorem fld8x_inv {a : ℕ} (ha : a < 256) : RS.fld8x.inv a = RS.fld8.inv a := by
  unfold RS.fld8x RS.invTab8
  simp only
  rw [getD_ofFn _ _ _ ha]

theorem xpowTab8_chk : allLT 255 (fun i => RS.xpowTab8.getD i 0 == xpow8 i && decide (RS.xpowTab8.getD i 0 < 256)) = true := by decide +kernel
theorem xpowTab8_eq (i : ℕ) (hi : i < 255) : RS.xpowTab8.getD i 0 = xpow8 i := by
  have := allLT_spec xpowTab8_chk i hi
  simp only [Bool.and_eq_true, beq_iff_eq, decide_eq_true_eq] at this
  exact this.1
theorem xpowTab8_lt (i : ℕ) (hi : i < 255) : RS.xpowTab8.getD i 0 < 256 := by
  have := allLT_spec xpowTab8_chk i hi
  simp only [Bool.and_eq_true, beq_iff_eq, decide_eq_true_eq] at this
  exact this.2

theorem fld8x_xpow {i : ℕ} (hi : i < 255) : RS.fld8x.xpow i = RS.fld8.xpow i := by
  unfold RS.fld8x RS.fld8
  simp only
  rw [Nat.mod_eq_of_lt hi]; exact xpowTab8_eq i hi

theorem fld8x_xpow_lt (i : ℕ) : RS.fld8x.xpow i < 256 := by
  unfold RS.fld8x
  simp only
  exact xpowTab8_lt _ (Nat.mod_lt _ (by norm_num))

theorem ptx_eq {i : ℕ} (hi : i < 256) : RS.pt RS.fld8x i = RS.pt RS.fld8 i := by
  unfold RS.pt
  split
  · rfl
  · exact fld8x_xpow (by omega)

/-- the accelerated operations are a faithful copy of the same field -/
def modelx : FieldModel GF256 RS.fld8x where
  N := 256
  φ := model.φ
  φ_inj := model.φ_inj
  φ_zero := model.φ_zero
  φ_one := model.φ_one
  φ_xor := model.φ_xor
  φ_mul := by intro a b ha hb; rw [fld8x_mul ha hb]; exact model.φ_mul a b ha hb
  φ_inv := by intro a ha; rw [fld8x_inv ha]; exact model.φ_inv a ha
  xor_lt := model.xor_lt
  mul_lt := by intro a b ha hb; rw [fld8x_mul ha hb]; exact model.mul_lt a b ha hb
  inv_lt := by intro a ha; rw [fld8x_inv ha]; exact model.inv_lt a ha
  one_lt := model.one_lt
  pt_lt := by
    intro i
    unfold RS.pt
    split
    · norm_num
    · exact fld8x_xpow_lt _
  pt_inj := by
    intro i j hi hj h
    rw [ptx_eq (by omega), ptx_eq (by omega)] at h
    exact model.pt_inj i j hi hj h

end GF8


namespace GF4

theorem fld4x_chk : allLT 16 (fun a => allLT 16 (fun b => RS.fld4x.mul a b == RS.fld4.mul a b) && RS.fld4x.inv a == RS.fld4.inv a) = true := by
  decide +kernel

theorem fld4x_mul {a b : ℕ} (ha : a < 16) (hb : b < 16) : RS.fld4x.mul a b = RS.fld4.mul a b := by
  have := allLT_spec fld4x_chk a ha
  simp only [Bool.and_eq_true, beq_iff_eq] at this
  have := allLT_spec this.1 b hb
  simpa using this

theorem fld4x_inv {a : ℕ} (ha : a < 16) : RS.fld4x.inv a = RS.fld4.inv a := by
  have := allLT_spec fld4x_chk a ha
  simp only [Bool.and_eq_true, beq_iff_eq] at this
  exact this.2

theorem xpowTab4_chk : allLT 15 (fun i => RS.xpowTab4.getD i 0 == xpow4 i && decide (RS.xpowTab4.getD i 0 < 16)) = true := by decide +kernel

theorem fld4x_xpow {i : ℕ} (hi : i < 15) : RS.fld4x.xpow i = RS.fld4.xpow i := by
  unfold RS.fld4x RS.fld4
  simp only
  rw [Nat.mod_eq_of_lt hi]
  have := allLT_spec xpowTab4_chk i hi
  simp only [Bool.and_eq_true, beq_iff_eq, decide_eq_true_eq] at this
  exact this.1

theorem fld4x_xpow_lt (i : ℕ) : RS.fld4x.xpow i < 16 := by
  unfold RS.fld4x
  simp only
  have := allLT_spec xpowTab4_chk (i % 15) (Nat.mod_lt _ (by norm_num))
  simp only [Bool.and_eq_true, beq_iff_eq, decide_eq_true_eq] at this
  exact this.2

theorem ptx_eq {i : ℕ} (hi : i < 16) : RS.pt RS.fld4x i = RS.pt RS.fld4 i := by
  unfold RS.pt
  split
  · rfl
  · exact fld4x_xpow (by omega)

/-- the accelerated GF(2^4) operations are a faithful copy of the same field -/
def modelx : FieldModel GF16 RS.fld4x where
  N := 16
  φ := model.φ
  φ_inj := model.φ_inj
  φ_zero := model.φ_zero
  φ_one := model.φ_one
  φ_xor := model.φ_xor
  φ_mul := by intro a b ha hb; rw [fld4x_mul ha hb]; exact model.φ_mul a b ha hb
  φ_inv := by intro a ha; rw [fld4x_inv ha]; exact model.φ_inv a ha
  xor_lt := model.xor_lt
  mul_lt := by intro a b ha hb; rw [fld4x_mul ha hb]; exact model.mul_lt a b ha hb
  inv_lt := by intro a ha; rw [fld4x_inv ha]; exact model.inv_lt a ha
  one_lt := model.one_lt
  pt_lt := by
    intro i
    unfold RS.pt
    split
    · norm_num
    · exact fld4x_xpow_lt _
  pt_inj := by
    intro i j hi hj h
    rw [ptx_eq (by omega), ptx_eq (by omega)] at h
    exact model.pt_inj i j hi hj h

end GF4
