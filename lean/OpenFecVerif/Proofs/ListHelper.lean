/-! small list lemmas shared by several proof files (core only) -/
namespace ITAbsHelper
theorem filter_beq_singleton {l : List Nat} (hnd : l.Nodup) {e : Nat} (he : e ∈ l) :
    l.filter (fun x => x == e) = [e] := by
  induction l with
  | nil => cases he
  | cons a t ih =>
    rw [List.nodup_cons] at hnd
    by_cases hae : a = e
    · subst hae
      have : t.filter (fun x => x == a) = [] := by
        rw [List.filter_eq_nil_iff]
        intro x hx
        have : x ≠ a := fun h => hnd.1 (h ▸ hx)
        simpa using this
      simp [this]
    · have he' : e ∈ t := by
        cases he with
        | head => exact absurd rfl hae
        | tail _ h => exact h
      simp [hae, ih hnd.2 he']
end ITAbsHelper
