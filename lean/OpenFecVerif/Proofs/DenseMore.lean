import OpenFecVerif.Proofs.DenseBits
namespace Dense

/-- row and column weights count the one bits -/
theorem rowWeight_eq (m : D) (i : Nat) : rowWeight m i = ((List.range m.nc).filter fun j => bit m i j).length := by
  unfold rowWeight
  congr 1
  apply List.filter_congr
  intro j _
  by_cases h : bit m i j = true
  · simp [(get_ne_zero m i j).mpr h, h]
  · have h' : bit m i j = false := by simpa using h
    have : ¬ (get m i j ≠ 0) := fun hne => h ((get_ne_zero m i j).mp hne)
    simp [this, h']

theorem colWeight_eq (m : D) (j : Nat) : colWeight m j = ((List.range m.nr).filter fun i => bit m i j).length := by
  unfold colWeight
  congr 1
  apply List.filter_congr
  intro i _
  by_cases h : bit m i j = true
  · simp [(get_ne_zero m i j).mpr h, h]
  · have h' : bit m i j = false := by simpa using h
    have : ¬ (get m i j ≠ 0) := fun hne => h ((get_ne_zero m i j).mp hne)
    simp [this, h']

/-- setting the bits (i, j), i < n, of one column to given values -/
theorem bit_setCol (val : Nat → Nat) (j : Nat) : ∀ (n : Nat) (a : D), WF a → n ≤ a.nr → j < a.nc →
    WF ((List.range n).foldl (fun a i => set' a i j (val i)) a) ∧
    ((List.range n).foldl (fun a i => set' a i j (val i)) a).nr = a.nr ∧
    ((List.range n).foldl (fun a i => set' a i j (val i)) a).nc = a.nc ∧
    ∀ r c, bit ((List.range n).foldl (fun a i => set' a i j (val i)) a) r c
      = if c = j ∧ r < n then decide (val r ≠ 0) else bit a r c := by
  intro n
  induction n with
  | zero => intro a h _ _; exact ⟨h, rfl, rfl, fun r c => by simp⟩
  | succ n ih =>
    intro a h hn hj
    rw [List.range_succ, List.foldl_append]
    obtain ⟨w, d1, d2, hb⟩ := ih a h (by omega) hj
    simp only [List.foldl_cons, List.foldl_nil]
    have hr : n < ((List.range n).foldl (fun a i => set' a i j (val i)) a).nr := by rw [d1]; omega
    have hc : j < ((List.range n).foldl (fun a i => set' a i j (val i)) a).nc := by rw [d2]; exact hj
    refine ⟨set_wf w n j _, ?_, ?_, ?_⟩
    · rw [(set_dims _ n j _).1, d1]
    · rw [(set_dims _ n j _).2.1, d2]
    · intro r c
      rw [bit_set w hr hc, hb]
      by_cases hcj : c = j
      · subst hcj
        by_cases hrn : r = n
        · subst hrn; simp
        · have : (r < n + 1) = (r < n) := by apply propext; omega
          simp [hrn, this]
      · simp [hcj]

/-- of_mod2dense_copycols (row-oriented layout): column j of the destination, in the rows of the source, becomes column `idx[j]` of the
source; everything else of the destination is left as it was (the routine does not clear it) -/
theorem bit_copycols {m r : D} (hr : WF r) (hfit : m.nr ≤ r.nr) (idx : List Nat) :
    WF (copycols m r idx) ∧ ∀ i c, bit (copycols m r idx) i c
      = if c < r.nc ∧ i < m.nr then decide (get m i (idx.getD c 0) ≠ 0) else bit r i c := by
  unfold copycols
  rw [if_neg (by omega)]
  have key : ∀ t, t ≤ r.nc →
      WF ((List.range t).foldl (fun acc j => (List.range m.nr).foldl (fun a i => set' a i j (get m i (idx.getD j 0))) acc) r) ∧
      ((List.range t).foldl (fun acc j => (List.range m.nr).foldl (fun a i => set' a i j (get m i (idx.getD j 0))) acc) r).nr = r.nr ∧
      ((List.range t).foldl (fun acc j => (List.range m.nr).foldl (fun a i => set' a i j (get m i (idx.getD j 0))) acc) r).nc = r.nc ∧
      ∀ i c, bit ((List.range t).foldl (fun acc j => (List.range m.nr).foldl (fun a i => set' a i j (get m i (idx.getD j 0))) acc) r) i c
        = if c < t ∧ i < m.nr then decide (get m i (idx.getD c 0) ≠ 0) else bit r i c := by
    intro t
    induction t with
    | zero => intro _; exact ⟨hr, rfl, rfl, fun i c => by simp⟩
    | succ t ih =>
      intro ht
      obtain ⟨w, d1, d2, hb⟩ := ih (by omega)
      rw [List.range_succ, List.foldl_append]
      simp only [List.foldl_cons, List.foldl_nil]
      obtain ⟨w', e1, e2, hb'⟩ := bit_setCol (fun i => get m i (idx.getD t 0)) t m.nr _ w (by rw [d1]; exact hfit) (by rw [d2]; omega)
      refine ⟨w', by rw [e1, d1], by rw [e2, d2], ?_⟩
      intro i c
      rw [hb', hb]
      by_cases hct : c = t
      · subst hct
        by_cases hi : i < m.nr
        · simp [hi]
        · simp [hi]
      · have : (c < t + 1) = (c < t) := by apply propext; omega
        simp [hct, this]
  obtain ⟨w, _, _, hb⟩ := key r.nc (Nat.le_refl _)
  exact ⟨w, hb⟩

theorem words_count (L : List Nat) : ∀ o : Nat, ((L.drop o).map popcount).sum
    = ((List.range (32 * L.length)).filter (fun j => decide (32 * o ≤ j) && (L.getD (j / 32) 0).testBit (j % 32))).length := by
  induction L with
  | nil => intro o; simp
  | cons w t ih =>
    intro o
    have hr : 32 * (w :: t).length = 32 + 32 * t.length := by simp only [List.length_cons]; omega
    rw [hr, List.range_add, List.filter_append, List.length_append, List.filter_map, List.length_map]
    have htail : ((List.range (32 * t.length)).filter ((fun j => decide (32 * o ≤ j) && ((w :: t).getD (j / 32) 0).testBit (j % 32)) ∘ (fun x => 32 + x))).length
        = ((List.range (32 * t.length)).filter (fun j => decide (32 * (o - 1) ≤ j) && (t.getD (j / 32) 0).testBit (j % 32))).length := by
      congr 1
      apply List.filter_congr
      intro j _
      simp only [Function.comp]
      have e1 : (32 + j) / 32 = j / 32 + 1 := by omega
      have e2 : (32 + j) % 32 = j % 32 := by omega
      rw [e1, e2, List.getD_cons_succ]
      congr 1
      apply decide_eq_decide.mpr
      omega
    rw [htail, ← ih (o - 1)]
    cases o with
    | zero =>
      simp only [List.drop_zero, List.map_cons, List.sum_cons, Nat.zero_sub]
      congr 1
    | succ o' =>
      simp only [List.drop_succ_cons, Nat.add_sub_cancel]
      have : ((List.range 32).filter (fun j => decide (32 * (o' + 1) ≤ j) && ((w :: t).getD (j / 32) 0).testBit (j % 32))) = [] := by
        apply List.filter_eq_nil_iff.mpr
        intro j hj
        have hj' : j < 32 := List.mem_range.mp hj
        have : ¬ (32 * (o' + 1) ≤ j) := by omega
        simp [this]
      rw [this]; simp

/-- **of_mod2dense_row_weight_ignore_first**: the routine skips whole 32-bit words, so it counts the one bits of row i in the columns
from 32·⌊nb/32⌋ on (for nb a multiple of 32: the columns from nb on) -/
theorem rowWeightIgnoreFirst_eq {m : D} (h : WF m) (i nb : Nat) :
    rowWeightIgnoreFirst m i nb = ((List.range m.nc).filter (fun j => decide (32 * (nb / 32) ≤ j) && bit m i j)).length := by
  unfold rowWeightIgnoreFirst
  rw [shift5, words_count, h.len i]
  have hle : m.nc ≤ 32 * m.nw := by rw [h.nw_eq]; omega
  obtain ⟨d, hd⟩ := Nat.exists_eq_add_of_le hle
  rw [hd, List.range_add, List.filter_append, List.length_append]
  have hz : ((List.map (fun x => m.nc + x) (List.range d)).filter
      (fun j => decide (32 * (nb / 32) ≤ j) && ((row m i).getD (j / 32) 0).testBit (j % 32))) = [] := by
    apply List.filter_eq_nil_iff.mpr
    intro j hj
    obtain ⟨x, _, rfl⟩ := List.mem_map.mp hj
    have := h.pad i (m.nc + x) (by omega)
    unfold bit at this
    rw [shift5, and31] at this
    rw [this, Bool.and_false]
    exact Bool.false_ne_true
  rw [hz, List.length_nil, Nat.add_zero]
  congr 1
  apply List.filter_congr
  intro j _
  unfold bit
  rw [shift5, and31]

end Dense
