import OpenFecVerif.Proofs.ITSound
import OpenFecVerif.Model.Api
/-!
# Value-level soundness of the Gaussian-elimination stage as the session model uses it

`Model/Api.lean` (`ldpcFinish`) builds the system handed to the solver from the parity-check equations and the decoder's
table of known symbols: one unknown per symbol that is still unknown (repair symbols first, then source symbols), one
equation per parity-check equation that still has an unknown member, the right-hand side being the sum of its known members.
`simplify_sat`: if the stored values are the transmitted ones and the transmitted block satisfies every parity-check
equation, then the transmitted values of the unknown symbols satisfy every equation of that system — the hypothesis the
solver's soundness theorem needs.  Hence whatever `of_finish_decoding` writes is the transmitted symbol.
-/
namespace MLSound
open Gauss ITSound

variable {σ : Type}

/-- the unknown symbols in the order the session model numbers them: repair symbols k..k+r-1, then source symbols -/
def unknowns (known : Nat → Bool) (k r : Nat) : List Nat :=
  ((List.range' k r) ++ (List.range k)).filter fun e => !known e

theorem unknowns_nodup (known : Nat → Bool) (k r : Nat) : (unknowns known k r).Nodup := by
  unfold unknowns
  refine List.Pairwise.filter _ ?_
  show (List.range' k r ++ List.range k).Nodup
  rw [List.nodup_append]
  refine ⟨List.nodup_range' (step := 1), List.nodup_range, ?_⟩
  intro a ha b hb
  simp only [List.mem_range'_1] at ha
  simp only [List.mem_range] at hb
  omega

theorem mem_unknowns (known : Nat → Bool) (k r e : Nat) : e ∈ unknowns known k r ↔ e < k + r ∧ known e = false := by
  unfold unknowns
  simp only [List.mem_filter, List.mem_append, List.mem_range'_1, List.mem_range, Bool.not_eq_true']
  constructor
  · rintro ⟨h | h, hk⟩ <;> exact ⟨by omega, hk⟩
  · rintro ⟨h, hk⟩
    refine ⟨?_, hk⟩
    by_cases he : e < k
    · exact Or.inr he
    · exact Or.inl ⟨by omega, by omega⟩

/-- `S` does not depend on the order of the list -/
theorem S_perm {O : Ops σ} (hO : Lawful O) (sent : Nat → σ) {l₁ l₂ : List Nat} (p : l₁.Perm l₂) : S O sent l₁ = S O sent l₂ := by
  unfold S
  apply List.Perm.foldl_eq' p
  intro x _ y _ z
  rw [hO.add_assoc, hO.add_comm (sent x), ← hO.add_assoc]

/-- the left-hand side of a generated equation at the transmitted values -/
theorem dot_map {O : Ops σ} (hO : Lawful O) (sent : Nat → σ) (p : Nat → Bool) (unk : List Nat) :
    dot O (unk.map p) (unk.map sent) = S O sent (unk.filter p) := by
  induction unk with
  | nil => simp [dot, S_nil]
  | cons e t ih =>
    simp only [List.map_cons]
    by_cases hp : p e = true
    · rw [hp, dot_cons_true, ih]
      simp only [List.filter_cons, hp, if_true]
      rw [S_cons hO]
    · have hp' : p e = false := by simpa using hp
      rw [hp', dot_cons_false, ih]
      simp [List.filter_cons, hp']

/-- one equation of the simplified system (the expression of `Api.ldpcFinish`) -/
def sysRow (O : Ops σ) (sym : Nat → Option σ) (unk : List Nat) (row : List Nat) : Gauss.Row σ :=
  (unk.map (fun e => row.contains e),
   row.foldl (fun acc e => match sym e with | some x => O.add acc x | none => acc) O.zero)

/-- **The simplification step is sound.** -/
theorem simplify_sat {O : Ops σ} (hO : Lawful O) (sent : Nat → σ) (sym : Nat → Option σ)
    (hs : ∀ e v, sym e = some v → v = sent e) (k r : Nat) (row : List Nat) (hnd : row.Nodup)
    (hlt : ∀ e ∈ row, e < k + r) (hcw : S O sent row = O.zero) :
    Sat O ((unknowns (fun e => (sym e).isSome) k r).map sent) (sysRow O sym (unknowns (fun e => (sym e).isSome) k r) row) := by
  unfold Sat sysRow
  simp only
  rw [dot_map hO]
  symm
  refine (fold_known hO sent sym hs _ ?hg _ _).trans ?_
  case hg => intros; rfl
  rw [hO.zero_add]
  symm
  -- both sides are sums over a splitting of the row
  have hperm : ((unknowns (fun e => (sym e).isSome) k r).filter fun e => row.contains e).Perm (row.filter fun e => !(sym e).isSome) := by
    rw [List.perm_ext_iff_of_nodup ((unknowns_nodup _ k r).filter _) (hnd.filter _)]
    intro a
    simp only [List.mem_filter, mem_unknowns, List.contains_iff_mem, Bool.not_eq_true', decide_eq_true_eq]
    constructor
    · rintro ⟨⟨_, h2⟩, h3⟩; exact ⟨h3, h2⟩
    · rintro ⟨h1, h2⟩; exact ⟨⟨hlt a h1, h2⟩, h1⟩
  rw [S_perm hO sent hperm]
  have hsplit := S_split hO sent (fun e => (sym e).isSome) row
  rw [hcw] at hsplit
  -- A + B = 0  ⇒  B = A
  have := congrArg (fun t => O.add t (S O sent (row.filter fun e => (sym e).isSome))) hsplit
  rw [hO.zero_add, hO.add_comm (S O sent (row.filter fun e => (sym e).isSome)), hO.add_cancel] at this
  exact this.symm

end MLSound

namespace MLSound
open Gauss ITSound Api

variable {σ : Type}

/-- what the theorems assume about the block: every parity-check equation of the session has no repeated entry, stays
inside 0..n-1, and sums to zero on the transmitted block `sent` -/
def Codeword (O : Ops σ) (sent : Nat → σ) (n : Nat) (H : List (List Nat)) : Prop :=
  ∀ row ∈ H, row.Nodup ∧ (∀ e ∈ row, e < n) ∧ S O sent row = O.zero

/-- `of_decode_with_new_symbol` on the session model keeps the invariant when the submitted value is the transmitted one
(before and after a Gaussian elimination has consumed the matrix) -/
theorem ldpcRecv_sound (IO : SymIO σ) (s : Session σ) (p : Params) (esi j : Nat) (sent : Nat → σ)
    (hO : Lawful (IO.ops 3 p.m p.len)) (it : IT.St σ) (hit : s.it = some it) (inv : VInv (IO.ops 3 p.m p.len) sent it) :
    ∃ it', (ldpcRecv IO s p esi (sent esi) j).2.1.it = some it' ∧ VInv (IO.ops 3 p.m p.len) sent it' := by
  refine ⟨if s.mlConsumed then (if !it.known esi then { it with sym := it.sym.set esi (some (sent esi)) } else it)
    else IT.submit (IO.ops 3 p.m p.len) p.n it esi (sent esi), ?_, ?_⟩
  · unfold ldpcRecv ldpcAfter
    simp only [hit]
  · split
    · split
      · refine ⟨?_, inv.row_nodup, inv.row_ok⟩
        intro e v
        simp only [TMap.get_set]
        by_cases he : e = esi
        · simp only [he, if_true]; intro h; cases h; rfl
        · simp only [he, if_false]; exact inv.sym_ok e v
      · exact inv
    · exact PA_all hO sent _ it esi inv

theorem mem_zip_self {α : Type} : ∀ (l : List α) (a b : α), (a, b) ∈ l.zip l → a = b
  | [], _, _, h => by simp at h
  | x :: t, a, b, h => by
    simp only [List.zip_cons_cons, List.mem_cons, Prod.mk.injEq] at h
    cases h with
    | inl h => rw [h.1, h.2]
    | inr h => exact mem_zip_self t a b h

theorem foldl_set_sym_get (srcs : List (Nat × σ)) (t : IT.St σ) :
    (srcs.foldl (fun (t : IT.St σ) pr => { t with sym := t.sym.set pr.1 (some pr.2) }) t).rows = t.rows ∧
    (srcs.foldl (fun (t : IT.St σ) pr => { t with sym := t.sym.set pr.1 (some pr.2) }) t).cterm = t.cterm ∧
    ∀ e v, (srcs.foldl (fun (t : IT.St σ) pr => { t with sym := t.sym.set pr.1 (some pr.2) }) t).sym.get e = some v →
      t.sym.get e = some v ∨ (e, v) ∈ srcs := by
  induction srcs generalizing t with
  | nil => exact ⟨rfl, rfl, fun e v h => Or.inl h⟩
  | cons a rest ih =>
    simp only [List.foldl_cons]
    obtain ⟨h1, h2, h3⟩ := ih ({ t with sym := t.sym.set a.1 (some a.2) })
    refine ⟨h1, h2, ?_⟩
    intro e v h
    cases h3 e v h with
    | inl h' =>
      simp only [TMap.get_set] at h'
      by_cases he : e = a.1
      · simp only [he, if_true] at h'
        right
        cases h'
        rw [he]
        exact List.mem_cons_self
      · simp only [he, if_false] at h'
        exact Or.inl h'
    | inr h' => exact Or.inr (List.mem_cons_of_mem _ h')

/-- the system handed to the solver (the expression of `Api.ldpcFinish`) -/
def system (O : Ops σ) (sym : Nat → Option σ) (unk : List Nat) (H : List (List Nat)) : List (Gauss.Row σ) :=
  H.filterMap fun row => if row.any (fun e => !(sym e).isSome) then some (sysRow O sym unk row) else none

/-- `of_finish_decoding` on the session model keeps the invariant: whatever Gaussian elimination writes is the transmitted symbol -/
theorem ldpcFinish_sound (IO : SymIO σ) (s : Session σ) (p : Params) (sent : Nat → σ)
    (hO : Lawful (IO.ops 3 p.m p.len)) (it : IT.St σ) (hit : s.it = some it) (inv : VInv (IO.ops 3 p.m p.len) sent it)
    (hcw : Codeword (IO.ops 3 p.m p.len) sent (p.k + p.r) s.H) :
    ∃ it', (ldpcFinish IO s p).2.1.it = some it' ∧ VInv (IO.ops 3 p.m p.len) sent it' := by
  unfold ldpcFinish
  simp only [hit]
  split
  · exact ⟨it, rfl, inv⟩
  · split
    · exact ⟨it, hit, inv⟩
    · split
      · exact ⟨it, rfl, inv⟩
      · rename_i hlen
        split
        · exact ⟨it, rfl, inv⟩
        · rename_i xs hsolve
          refine ⟨_, rfl, ?_⟩
          -- the solver's answer is the transmitted values of the unknown symbols
          change ¬ (system (IO.ops 3 p.m p.len) it.sym.get (unknowns (fun e => (it.sym.get e).isSome) p.k p.r) s.H).length
              < (unknowns (fun e => (it.sym.get e).isSome) p.k p.r).length at hlen
          change Gauss.solve (IO.ops 3 p.m p.len) (unknowns (fun e => (it.sym.get e).isSome) p.k p.r).length
              (system (IO.ops 3 p.m p.len) it.sym.get (unknowns (fun e => (it.sym.get e).isSome) p.k p.r) s.H) = some xs at hsolve
          have hw : Wide (unknowns (fun e => (it.sym.get e).isSome) p.k p.r).length
              (system (IO.ops 3 p.m p.len) it.sym.get (unknowns (fun e => (it.sym.get e).isSome) p.k p.r) s.H) := by
            intro r hr
            simp only [system, List.mem_filterMap] at hr
            obtain ⟨row, _, hrow⟩ := hr
            split at hrow
            · cases hrow; simp [sysRow]
            · cases hrow
          have hsat : ∀ r ∈ system (IO.ops 3 p.m p.len) it.sym.get (unknowns (fun e => (it.sym.get e).isSome) p.k p.r) s.H,
              Sat (IO.ops 3 p.m p.len) ((unknowns (fun e => (it.sym.get e).isSome) p.k p.r).map sent) r := by
            intro r hr
            simp only [system, List.mem_filterMap] at hr
            obtain ⟨row, hmem, hrow⟩ := hr
            split at hrow
            · cases hrow
              obtain ⟨c1, c2, c3⟩ := hcw row hmem
              exact simplify_sat hO sent it.sym.get inv.sym_ok p.k p.r row c1 c2 c3
            · cases hrow
          have hx := (solve_sound hO _ _ hw (by omega) xs hsolve _ (by simp) hsat).1
          obtain ⟨h1, h2, h3⟩ := foldl_set_sym_get
            (List.filter (fun x => decide (x.1 < p.k)) ((List.filter (fun e => !it.known e) (List.range' p.k p.r ++ List.range p.k)).zip xs)) it
          refine ⟨?_, ?_, ?_⟩
          · intro e v h
            cases h3 e v h with
            | inl h' => exact inv.sym_ok e v h'
            | inr h' =>
              have hz := (List.mem_filter.mp h').1
              rw [hx] at hz
              rw [List.zip_map_right] at hz
              simp only [List.mem_map] at hz
              obtain ⟨⟨a, b⟩, hab, heq⟩ := hz
              have hab' := mem_zip_self _ a b hab
              simp only [Prod.map, id, Prod.mk.injEq] at heq
              rw [← heq.1, ← heq.2, hab']
          · intro r; rw [h1]; exact inv.row_nodup r
          · intro r; rw [h1, h2]; exact inv.row_ok r


/-! ### whole decoder sessions -/

/-- the decoding calls of the API on one LDPC-Staircase / 2D session -/
inductive DecOp
  | recv (esi j : Nat)      -- of_decode_with_new_symbol (or one entry of of_set_available_symbols) with the transmitted value
  | finish                  -- of_finish_decoding

/-- the session model driven by a sequence of decoding calls that submit transmitted values -/
def runDec (IO : SymIO σ) (p : Params) (sent : Nat → σ) : Session σ → List DecOp → Session σ
  | s, [] => s
  | s, .recv esi j :: t => runDec IO p sent (ldpcRecv IO s p esi (sent esi) j).2.1 t
  | s, .finish :: t => runDec IO p sent (ldpcFinish IO s p).2.1 t

theorem ldpcRecv_H (IO : SymIO σ) (s : Session σ) (p : Params) (esi j : Nat) (v : σ) : (ldpcRecv IO s p esi v j).2.1.H = s.H := by
  unfold ldpcRecv ldpcAfter
  cases s.it <;> simp <;> split <;> rfl

theorem ldpcFinish_H (IO : SymIO σ) (s : Session σ) (p : Params) : (ldpcFinish IO s p).2.1.H = s.H := by
  unfold ldpcFinish
  cases s.it with
  | none => rfl
  | some it =>
    simp only
    split
    · rfl
    · split
      · rfl
      · split
        · rfl
        · split <;> rfl

/-- **Every symbol an LDPC-Staircase / 2D decoder session holds is the transmitted one**, after any sequence of submissions
(any order, duplicates, either API) and `of_finish_decoding` calls, at every point of the sequence. -/
theorem runDec_sound (IO : SymIO σ) (p : Params) (sent : Nat → σ) (hO : Lawful (IO.ops 3 p.m p.len)) (ops : List DecOp) :
    ∀ (s : Session σ) (it : IT.St σ), s.it = some it → VInv (IO.ops 3 p.m p.len) sent it →
      Codeword (IO.ops 3 p.m p.len) sent (p.k + p.r) s.H →
      ∃ it', (runDec IO p sent s ops).it = some it' ∧ VInv (IO.ops 3 p.m p.len) sent it' := by
  induction ops with
  | nil => intro s it hit inv _; exact ⟨it, hit, inv⟩
  | cons op t ih =>
    intro s it hit inv hcw
    cases op with
    | recv esi j =>
      obtain ⟨it', h1, h2⟩ := ldpcRecv_sound IO s p esi j sent hO it hit inv
      exact ih _ it' h1 h2 (by rw [ldpcRecv_H]; exact hcw)
    | finish =>
      obtain ⟨it', h1, h2⟩ := ldpcFinish_sound IO s p sent hO it hit inv hcw
      exact ih _ it' h1 h2 (by rw [ldpcFinish_H]; exact hcw)

/-- a freshly configured LDPC-Staircase session satisfies the invariant; an even-N1 decoder that pretends to have received
the last repair symbol as zero does so soundly when that symbol IS zero (C15) -/
theorem setParams_sound (IO : SymIO σ) (g : Nat) (s : Session σ) (p : Params) (sent : Nat → σ) (hc : s.codec = 3)
    (hO : Lawful (IO.ops 3 p.m p.len)) (g' : Nat) (s' : Session σ) (h : setParamsStd IO g s p = (g', .ok, s'))
    (hcw : Codeword (IO.ops 3 p.m p.len) sent (p.k + p.r) s'.H)
    (hlast : s'.extra = false → p.N1 % 2 = 0 → sent (p.n - 1) = (IO.ops 3 p.m p.len).zero) :
    ∃ it, s'.it = some it ∧ VInv (IO.ops 3 p.m p.len) sent it := by
  unfold setParamsStd at h
  simp only [hc] at h
  split at h
  · cases h
  · simp only [beq_self_eq_true, if_true] at h
    split at h
    · cases h
    · rename_i g2 M hM
      simp only [Prod.mk.injEq] at h
      obtain ⟨_, _, rfl⟩ := h
      simp only at hcw hlast ⊢
      have h0 : VInv (IO.ops 3 p.m p.len) sent (IT.init p.k M.rows : IT.St σ) :=
        init_sound sent p.k M.rows (fun row hr => (hcw row hr).1) (fun row hr => (hcw row hr).2.2)
      split
      · rename_i hcond
        refine ⟨_, rfl, ?_⟩
        simp only [Bool.and_eq_true, Bool.not_eq_true', beq_iff_eq] at hcond
        have hz := hlast hcond.2.1 hcond.2.2
        have := PA_all hO sent (p.n + 1) (IT.init p.k M.rows) (p.n - 1) h0
        rw [hz] at this
        exact this
      · exact ⟨_, rfl, h0⟩

/-- `Api.ldpcFinish` written with the named pieces (`unknowns`, `system`) -/
def ldpcFinish' (IO : SymIO σ) (s : Session σ) (p : Params) : Status × Session σ × List Nat :=
  match s.it with
  | none => (.fatal, s, [])
  | some it =>
    if it.complete then (.ok, { s with mlDone := true }, [])
    else if s.mlConsumed then (.failure, s, [])
    else
      let O := IO.ops 3 p.m p.len
      let unk := unknowns (fun e => (it.sym.get e).isSome) p.k p.r
      let rows := system O it.sym.get unk s.H
      if rows.length < unk.length then (.failure, { s with mlDone := true }, [])
      else match Gauss.solve O unk.length rows with
        | none => (.failure, { s with mlDone := true, mlConsumed := true }, [])
        | some xs =>
          let sol := List.zip unk xs
          let srcs := sol.filter (·.1 < p.k)
          let it' := srcs.foldl (fun (t : IT.St σ) pr => { t with sym := t.sym.set pr.1 (some pr.2) }) it
          let sp := srcs.foldl (fun (m : TMap (Option Prov)) pr => m.set pr.1 (some (cbDest s.cb pr.1))) s.srcProv
          (.ok, { s with it := some it', srcProv := sp, mlDone := true, mlConsumed := true }, srcs.map (·.1))

theorem ldpcFinish_eq (IO : SymIO σ) (s : Session σ) (p : Params) : ldpcFinish IO s p = ldpcFinish' IO s p := rfl

end MLSound
