import OpenFecVerif.Proofs.ITEvents
import OpenFecVerif.Proofs.LdpcFin
/-!
# Pointer identity for LDPC-Staircase / 2D sessions

`srcProv e` records where the buffer reported for source symbol e comes from (`app j` = the j-th buffer the application submitted).
A source symbol submitted while unknown is recorded with the application's own pointer, and the record of a known symbol is never
touched again by later submissions or by `of_finish_decoding`.
-/
namespace PtrId
open Api

variable {σ : Type}

theorem foldl_set_other {α : Type} (f : Nat → α) (l : List Nat) (m : TMap α) (e : Nat) (h : e ∉ l) :
    (l.foldl (fun (m : TMap α) x => m.set x (f x)) m).get e = m.get e := by
  induction l generalizing m with
  | nil => rfl
  | cons a t ih =>
    simp only [List.foldl_cons]
    rw [ih _ (fun h' => h (List.mem_cons_of_mem _ h'))]
    simp only [TMap.get_set]
    have : ¬ e = a := fun h' => h (h' ▸ List.mem_cons_self)
    simp [this]

/-- what `ldpcRecv` does to the provenance table: the submitted source symbol, if fresh, gets the application's pointer; then the
events of the call get the callback/library destination -/
theorem ldpcRecv_srcProv (IO : SymIO σ) (s : Session σ) (p : Params) (esi j : Nat) (v : σ) (it : IT.St σ) (hit : s.it = some it) :
    (ldpcRecv IO s p esi v j).2.1.srcProv =
      (ldpcRecv IO s p esi v j).2.2.foldl (fun (m : TMap (Option Prov)) e => m.set e (some (cbDest s.cb e)))
        (if (!it.known esi && decide (esi < p.k)) = true then s.srcProv.set esi (some (.app j)) else s.srcProv) := by
  unfold ldpcRecv ldpcAfter
  simp only [hit]
  split <;> rfl

/-- **submitted while unknown ⇒ reported by the very pointer** -/
theorem recv_fresh_identity (IO : SymIO σ) (s : Session σ) (p : Params) (esi j : Nat) (v : σ) (it : IT.St σ) (hit : s.it = some it)
    (hcons : s.mlConsumed = false) (hrows : ITEvents.RowsLt p.n it) (hesi : esi < p.n) (hfresh : it.known esi = false) (hk : esi < p.k) :
    (ldpcRecv IO s p esi v j).2.1.srcProv.get esi = some (Prov.app j) := by
  obtain ⟨it', _, _, _, _, hmem⟩ := ITEvents.ldpcRecv_events IO s p esi j v it hit hcons hrows hesi
  rw [ldpcRecv_srcProv IO s p esi j v it hit]
  rw [foldl_set_other (fun e => some (cbDest s.cb e)) _ _ esi (fun h => ((hmem esi).mp h).2.2.2 rfl)]
  simp [hfresh, hk, TMap.get_set_same]

/-- **the record of a known symbol is never touched by a later submission** -/
theorem recv_known_stable (IO : SymIO σ) (s : Session σ) (p : Params) (esi j : Nat) (v : σ) (it : IT.St σ) (hit : s.it = some it)
    (hcons : s.mlConsumed = false) (hrows : ITEvents.RowsLt p.n it) (hesi : esi < p.n) (e : Nat) (hknown : it.known e = true) :
    (ldpcRecv IO s p esi v j).2.1.srcProv.get e = s.srcProv.get e := by
  obtain ⟨it', _, _, _, _, hmem⟩ := ITEvents.ldpcRecv_events IO s p esi j v it hit hcons hrows hesi
  rw [ldpcRecv_srcProv IO s p esi j v it hit]
  rw [foldl_set_other (fun e => some (cbDest s.cb e)) _ _ e (fun h => by have := ((hmem e).mp h).2.1; rw [hknown] at this; cases this)]
  split
  · rename_i hc
    simp only [Bool.and_eq_true, Bool.not_eq_true', decide_eq_true_eq] at hc
    have : e ≠ esi := fun h => by rw [h, hc.1] at hknown; cases hknown
    simp [TMap.get_set, this]
  · rfl

/-- … nor by `of_finish_decoding` -/
theorem finish_known_stable (IO : SymIO σ) (s : Session σ) (p : Params) (it : IT.St σ) (hit : s.it = some it) (hk : it.k = p.k)
    (e : Nat) (hknown : it.known e = true) : (ldpcFinish IO s p).2.1.srcProv.get e = s.srcProv.get e := by
  obtain ⟨it', _, _, _, _, _, hmem⟩ := LdpcFin.ldpcFinish_truthful IO s p it hit hk
  have hnot : e ∉ (ldpcFinish IO s p).2.2 := fun h => by have := ((hmem e).mp h).2.1; rw [hknown] at this; cases this
  -- the provenance table after finish is the old one updated at the events
  have hform : (ldpcFinish IO s p).2.1.srcProv =
      (ldpcFinish IO s p).2.2.foldl (fun (m : TMap (Option Prov)) x => m.set x (some (cbDest s.cb x))) s.srcProv := by
    rw [MLSound.ldpcFinish_eq]
    unfold MLSound.ldpcFinish'
    simp only [hit]
    split
    · rfl
    · split
      · rfl
      · split
        · rfl
        · split
          · rfl
          · simp only [List.foldl_map]
  rw [hform, foldl_set_other (fun x => some (cbDest s.cb x)) _ _ e hnot]

end PtrId
