import OpenFecVerif.Proofs.FP
import Mathlib.Algebra.Order.Field.Power
import Mathlib.Tactic.Zify
import Mathlib.Tactic.Push
/-!
# The executable rounding function of the model driver is in the binary64 standard model

`CSem.rne53` (round to nearest, ties to even, 53-bit significand, unbounded exponent) is what the compiled model `ofmodel`
uses wherever the C code computes in `double`.  It satisfies `RN53`: exact on integers below 2^53, relative error at most 2^-53.
So every theorem stated for all `RN53` operators holds for the model that is actually run against the library.
-/
namespace RneProof
open CSem

theorem pow2_eq (e : ℤ) : pow2 e = (2 : ℚ) ^ e := by
  unfold pow2
  split
  · rename_i h
    have : e = (e.toNat : ℤ) := (Int.toNat_of_nonneg h).symm
    conv_rhs => rw [this]
    rw [zpow_natCast]
    push_cast; rfl
  · rename_i h
    have hneg : 0 ≤ -e := by omega
    have : e = -((-e).toNat : ℤ) := by rw [Int.toNat_of_nonneg hneg]; ring
    conv_rhs => rw [this]
    rw [zpow_neg, zpow_natCast]
    push_cast
    rw [one_div]

theorem pow2_pos (e : ℤ) : 0 < pow2 e := by rw [pow2_eq]; positivity

theorem rabs_eq (x : ℚ) : rabs x = |x| := by
  unfold rabs
  split
  · rename_i h; rw [abs_of_neg h]
  · rename_i h; rw [abs_of_nonneg (not_lt.mp h)]

/-- core estimate: scaling by 2^e, rounding the scaled value to an integer within 1/2, and scaling back loses at most a/2^53 when
the scaled value is at least 2^52 -/
theorem round_core (a : ℚ) (e : ℤ) (q' : ℤ) (hs : (2 : ℚ) ^ 52 ≤ a / (2 : ℚ) ^ e) (hq : |(q' : ℚ) - a / (2 : ℚ) ^ e| ≤ 1 / 2) :
    |(q' : ℚ) * (2 : ℚ) ^ e - a| ≤ a / 2 ^ 53 := by
  have hp : (0 : ℚ) < (2 : ℚ) ^ e := by positivity
  have h1 : (q' : ℚ) * (2 : ℚ) ^ e - a = ((q' : ℚ) - a / (2 : ℚ) ^ e) * (2 : ℚ) ^ e := by
    field_simp
  rw [h1, abs_mul, abs_of_pos hp]
  have h2 : (2 : ℚ) ^ e * 2 ^ 52 ≤ a := by
    have := (le_div_iff₀ hp).mp hs
    linarith
  calc |(q' : ℚ) - a / (2 : ℚ) ^ e| * (2 : ℚ) ^ e ≤ 1 / 2 * (2 : ℚ) ^ e := by
        apply mul_le_mul_of_nonneg_right hq (le_of_lt hp)
    _ ≤ a / 2 ^ 53 := by
        rw [le_div_iff₀ (by positivity)]
        have : (1 : ℚ) / 2 * (2 : ℚ) ^ e * 2 ^ 53 = (2 : ℚ) ^ e * 2 ^ 52 := by ring
        rw [this]; exact h2

/-- the tie-breaking choice is within 1/2 of the scaled value -/
theorem nearest_half (s : ℚ) :
    let q := ⌊s⌋
    let r := s - (q : ℚ)
    |((if r < 1 / 2 then q else if 1 / 2 < r then q + 1 else (if q % 2 = 0 then q else q + 1) : ℤ) : ℚ) - s| ≤ 1 / 2 := by
  intro q r
  have h1 : (q : ℚ) ≤ s := Int.floor_le s
  have h2 : s < (q : ℚ) + 1 := Int.lt_floor_add_one s
  have hr : r = s - (q : ℚ) := rfl
  split
  · rename_i h
    rw [abs_le]; constructor <;> linarith
  · rename_i h
    split
    · rename_i h'
      push_cast
      rw [abs_le]; constructor <;> linarith
    · rename_i h'
      have hre : r = 1 / 2 := le_antisymm (not_lt.mp h') (not_lt.mp h)
      split
      · rw [abs_le]; constructor <;> linarith
      · push_cast; rw [abs_le]; constructor <;> linarith


/-- the magnitude computed by `rne53` for a positive argument -/
def mant (a : ℚ) : ℚ :=
  let n := a.num.toNat
  let d := a.den
  let e0 : Int := (Nat.log2 n : Int) - (Nat.log2 d : Int) - 52
  let s0 := a / pow2 e0
  let e : Int := if s0 < ((2 ^ 52 : Nat) : Rat) then e0 - 1 else if ((2 ^ 53 : Nat) : Rat) ≤ s0 then e0 + 1 else e0
  let s := a / pow2 e
  let q := Rat.floor s
  let r := s - (q : Rat)
  let half : Rat := 1 / 2
  let q' : Int := if r < half then q else if half < r then q + 1 else (if q % 2 = 0 then q else q + 1)
  (q' : Rat) * pow2 e

theorem rne53_eq (x : ℚ) : rne53 x = if x = 0 then 0 else if x < 0 then - mant (rabs x) else mant (rabs x) := rfl

/-- the exponent chosen puts the scaled value in [2^52, 2^53) -/
theorem scaled_range (a : ℚ) (ha : 0 < a) :
    let n := a.num.toNat
    let d := a.den
    let e0 : Int := (Nat.log2 n : Int) - (Nat.log2 d : Int) - 52
    let s0 := a / (2 : ℚ) ^ e0
    let e : Int := if s0 < ((2 ^ 52 : Nat) : Rat) then e0 - 1 else if ((2 ^ 53 : Nat) : Rat) ≤ s0 then e0 + 1 else e0
    (2 : ℚ) ^ 52 ≤ a / (2 : ℚ) ^ e ∧ a / (2 : ℚ) ^ e < (2 : ℚ) ^ 53 := by
  intro n d e0 s0 e
  have hnum : 0 < a.num := Rat.num_pos.mpr ha
  have hn : (n : ℤ) = a.num := Int.toNat_of_nonneg (le_of_lt hnum)
  have hn0 : n ≠ 0 := by intro h; rw [h] at hn; simp at hn; omega
  have hd0 : d ≠ 0 := a.den_nz
  have ha_eq : a = (n : ℚ) / (d : ℚ) := by
    have := Rat.num_div_den a
    rw [← this]; congr 1
    exact_mod_cast hn.symm
  have hA1 : ((2 : ℚ) ^ (Nat.log2 n)) ≤ (n : ℚ) := by exact_mod_cast Nat.log2_self_le hn0
  have hA2 : (n : ℚ) < 2 * (2 : ℚ) ^ (Nat.log2 n) := by
    have := @Nat.lt_log2_self n
    have h2 : (n : ℚ) < ((2 ^ (Nat.log2 n + 1) : ℕ) : ℚ) := by exact_mod_cast this
    rw [pow_succ] at h2; push_cast at h2; linarith
  have hB1 : ((2 : ℚ) ^ (Nat.log2 d)) ≤ (d : ℚ) := by exact_mod_cast Nat.log2_self_le hd0
  have hB2 : (d : ℚ) < 2 * (2 : ℚ) ^ (Nat.log2 d) := by
    have := @Nat.lt_log2_self d
    have h2 : (d : ℚ) < ((2 ^ (Nat.log2 d + 1) : ℕ) : ℚ) := by exact_mod_cast this
    rw [pow_succ] at h2; push_cast at h2; linarith
  set A : ℚ := (2 : ℚ) ^ (Nat.log2 n) with hA
  set B : ℚ := (2 : ℚ) ^ (Nat.log2 d) with hB
  have hApos : 0 < A := by positivity
  have hBpos : 0 < B := by positivity
  have hdpos : (0 : ℚ) < d := by exact_mod_cast Nat.pos_of_ne_zero hd0
  have he0 : (2 : ℚ) ^ e0 = A / B / 2 ^ 52 := by
    show (2 : ℚ) ^ ((Nat.log2 n : ℤ) - (Nat.log2 d : ℤ) - 52) = _
    rw [zpow_sub₀ (by norm_num), zpow_sub₀ (by norm_num), zpow_natCast, zpow_natCast]
    norm_num [hA, hB]
  have hs0 : s0 = (n : ℚ) / d * B * 2 ^ 52 / A := by
    show a / (2 : ℚ) ^ e0 = _
    rw [he0, ha_eq]; field_simp
  have hs0_lt : s0 < 2 ^ 53 := by
    rw [hs0, div_lt_iff₀ hApos]
    have : (n : ℚ) / d * B * 2 ^ 52 = (n : ℚ) * (B / d) * 2 ^ 52 := by ring
    rw [this]
    have hBd : B / d ≤ 1 := (div_le_one hdpos).mpr hB1
    have hnpos : (0 : ℚ) < n := by exact_mod_cast Nat.pos_of_ne_zero hn0
    calc (n : ℚ) * (B / d) * 2 ^ 52 ≤ (n : ℚ) * 1 * 2 ^ 52 := by gcongr
      _ < 2 * A * 2 ^ 52 := by nlinarith
      _ = 2 ^ 53 * A := by ring
  have hs0_gt : 2 ^ 51 < s0 := by
    rw [hs0, lt_div_iff₀ hApos]
    have h1 : (2 : ℚ) ^ 51 * A * d < (n : ℚ) * B * 2 ^ 52 := by
      have : (2 : ℚ) ^ 51 * A * d < 2 ^ 51 * A * (2 * B) := by
        apply mul_lt_mul_of_pos_left hB2; positivity
      have h2 : (2 : ℚ) ^ 51 * A * (2 * B) = A * B * 2 ^ 52 := by ring
      have h3 : A * B * 2 ^ 52 ≤ (n : ℚ) * B * 2 ^ 52 := by gcongr
      linarith
    have : (n : ℚ) / d * B * 2 ^ 52 = (n : ℚ) * B * 2 ^ 52 / d := by ring
    rw [this, lt_div_iff₀ hdpos]; exact h1
  -- the correction step
  show (2 : ℚ) ^ 52 ≤ a / (2 : ℚ) ^ e ∧ a / (2 : ℚ) ^ e < (2 : ℚ) ^ 53
  by_cases h1 : s0 < ((2 ^ 52 : Nat) : Rat)
  · have he : e = e0 - 1 := by show (if s0 < _ then _ else _) = _; rw [if_pos h1]
    rw [he, zpow_sub₀ (by norm_num), zpow_one]
    have : a / ((2 : ℚ) ^ e0 / 2) = 2 * s0 := by show _ = 2 * (a / (2 : ℚ) ^ e0); field_simp
    rw [this]
    push_cast at h1
    constructor <;> linarith
  · have h2 : ¬ (((2 ^ 53 : Nat) : Rat) ≤ s0) := by push_cast; linarith
    have he : e = e0 := by show (if s0 < _ then _ else _) = _; rw [if_neg h1, if_neg h2]
    rw [he]
    push_cast at h1
    exact ⟨by show (2 : ℚ) ^ 52 ≤ s0; linarith, hs0_lt⟩


theorem mant_err (a : ℚ) (ha : 0 < a) : |mant a - a| ≤ a / 2 ^ 53 := by
  obtain ⟨h1, _⟩ := scaled_range a ha
  unfold mant
  simp only [pow2_eq, FP.floor_eq]
  exact round_core a _ _ h1 (nearest_half _)

theorem mant_int (m : ℕ) (hm : 0 < m) (hlt : m < 2 ^ 53) : mant (m : ℚ) = (m : ℚ) := by
  have ha : (0 : ℚ) < (m : ℚ) := by exact_mod_cast hm
  obtain ⟨h1, _⟩ := scaled_range (m : ℚ) ha
  unfold mant
  simp only [pow2_eq, FP.floor_eq]
  -- name the exponent
  generalize (if (m : ℚ) / (2 : ℚ) ^ (((Nat.log2 (m : ℚ).num.toNat : ℤ)) - ((Nat.log2 (m : ℚ).den : ℤ)) - 52) < ((2 ^ 52 : ℕ) : ℚ) then
      ((Nat.log2 (m : ℚ).num.toNat : ℤ)) - ((Nat.log2 (m : ℚ).den : ℤ)) - 52 - 1
    else if ((2 ^ 53 : ℕ) : ℚ) ≤ (m : ℚ) / (2 : ℚ) ^ (((Nat.log2 (m : ℚ).num.toNat : ℤ)) - ((Nat.log2 (m : ℚ).den : ℤ)) - 52) then
      ((Nat.log2 (m : ℚ).num.toNat : ℤ)) - ((Nat.log2 (m : ℚ).den : ℤ)) - 52 + 1
    else ((Nat.log2 (m : ℚ).num.toNat : ℤ)) - ((Nat.log2 (m : ℚ).den : ℤ)) - 52) = e at h1 ⊢
  have hp : (0 : ℚ) < (2 : ℚ) ^ e := by positivity
  -- e ≤ 0, because m < 2^53 while m / 2^e ≥ 2^52
  have he : e ≤ 0 := by
    by_contra hcon
    have he1 : 1 ≤ e := by omega
    have h2 : (2 : ℚ) ^ (1 : ℤ) ≤ (2 : ℚ) ^ e := zpow_le_zpow_right₀ (by norm_num) he1
    rw [zpow_one] at h2
    have h3 : (2 : ℚ) ^ e * 2 ^ 52 ≤ (m : ℚ) := by
      have := (le_div_iff₀ hp).mp h1; linarith
    have h4 : (m : ℚ) < 2 ^ 53 := by exact_mod_cast hlt
    nlinarith
  obtain ⟨j, hj⟩ : ∃ j : ℕ, e = -(j : ℤ) := ⟨(-e).toNat, by rw [Int.toNat_of_nonneg (by omega)]; ring⟩
  subst hj
  have hs : (m : ℚ) / (2 : ℚ) ^ (-(j : ℤ)) = ((m * 2 ^ j : ℕ) : ℤ) := by
    rw [zpow_neg, zpow_natCast]; push_cast; field_simp
  rw [hs]
  simp only [Int.floor_intCast, sub_self]
  norm_num

/-- **`CSem.rne53` is a rounding operator of the binary64 standard model** -/
theorem rne53_RN53 : RN53 CSem.rne53 := by
  constructor
  · intro m hm
    rw [rne53_eq]
    by_cases h0 : (m : ℚ) = 0
    · simp [h0]
    · simp only [h0, if_false]
      have hm0 : m ≠ 0 := by exact_mod_cast h0
      rw [rabs_eq]
      have habs : |(m : ℚ)| = ((m.natAbs : ℕ) : ℚ) := by
        rw [← Int.cast_abs, Int.abs_eq_natAbs, Int.cast_natCast]
      have hpos : 0 < m.natAbs := Int.natAbs_pos.mpr hm0
      have hlt : m.natAbs < 2 ^ 53 := by
        have : ((m.natAbs : ℕ) : ℤ) < 2 ^ 53 := by rw [← Int.abs_eq_natAbs]; exact hm
        exact_mod_cast this
      rw [habs, mant_int _ hpos hlt]
      by_cases hneg : (m : ℚ) < 0
      · simp only [hneg, if_true]
        have : m < 0 := by exact_mod_cast hneg
        rw [← habs, abs_of_neg hneg]; ring
      · simp only [hneg, if_false]
        have : 0 ≤ (m : ℚ) := not_lt.mp hneg
        rw [← habs, abs_of_nonneg this]
  · intro x
    rw [rne53_eq]
    by_cases h0 : x = 0
    · simp [h0]
    · simp only [h0, if_false]
      rw [rabs_eq]
      have hpos : 0 < |x| := abs_pos.mpr h0
      have := mant_err |x| hpos
      by_cases hneg : x < 0
      · simp only [hneg, if_true]
        rw [abs_of_neg hneg] at this ⊢
        have e : -mant (-x) - x = -(mant (-x) - -x) := by ring
        rw [e, abs_neg]; exact this
      · simp only [hneg, if_false]
        rw [abs_of_nonneg (not_lt.mp hneg)] at this ⊢
        exact this

end RneProof
