import OpenFecVerif.Proofs.Rand
import Mathlib.Tactic.Linarith
import Mathlib.Tactic.Positivity
import Mathlib.Tactic.NormNum

namespace RandProofs
open Gen

/-- a state whose scaled output is `v`: the least s' with (4v+1)·P ≤ 4·m·s', so that s'·m/P lies in [v + 1/4, v + 3/4) -/
def target (m v : ℕ) : ℕ := ((4 * v + 1) * 2147483647 + 4 * m - 1) / (4 * m)

theorem target_spec (m v : ℕ) (hm1 : 1 ≤ m) (hm : m < 2 ^ 30) (hv : v < m) :
    1 ≤ target m v ∧ target m v ≤ 2147483646 ∧
    (4 * v + 1) * 2147483647 ≤ 4 * (target m v * m) ∧ 4 * (target m v * m) < (4 * v + 3) * 2147483647 := by
  unfold target
  set N := (4 * v + 1) * 2147483647 with hN
  set D := 4 * m with hD
  have hD0 : 0 < D := by omega
  have hdiv := Nat.div_add_mod (N + D - 1) D
  have hmod := Nat.mod_lt (N + D - 1) hD0
  set q := (N + D - 1) / D with hq
  have e : 4 * (q * m) = D * q := by rw [hD]; ring
  have hlo : N ≤ D * q := by omega
  have hhi : D * q < N + D := by omega
  have hm' : m < 1073741824 := by
    have : (2 : ℕ) ^ 30 = 1073741824 := by norm_num
    omega
  refine ⟨?_, ?_, by rw [e]; exact hlo, ?_⟩
  · rcases Nat.eq_zero_or_pos q with h0 | h0
    · rw [h0] at hlo; omega
    · exact h0
  · -- D q < N + D ≤ (4(m-1)+1) P + 4m  <  4 m P
    have hv' : v + 1 ≤ m := hv
    have h1 : N ≤ (4 * (m - 1) + 1) * 2147483647 := by
      rw [hN]; apply Nat.mul_le_mul_right; omega
    by_contra hcon
    have hq' : 2147483647 ≤ q := by omega
    have : D * 2147483647 ≤ D * q := Nat.mul_le_mul_left _ hq'
    have e2 : (4 * (m - 1) + 1) * 2147483647 + 4 * 2147483647 = D * 2147483647 + 2147483647 := by
      rw [hD]
      have : m = (m - 1) + 1 := by omega
      conv_rhs => rw [this]
      ring
    omega
  · rw [e]
    have : N + D < (4 * v + 3) * 2147483647 := by
      rw [hN, hD]
      have : (4 * v + 3) * 2147483647 = (4 * v + 1) * 2147483647 + 2 * 2147483647 := by ring
      omega
    exact lt_trans hhi this

/-- **every value is produced by some state**: the scaled output of the state `target m v` is `v`, for every bound below 2^30 and every
rounding operator of the binary64 standard model (the product may well exceed 2^53: the quotient is kept a quarter away from the
integers, far more than the two roundings can move it) -/
theorem scaled_hit (rn : ℚ → ℚ) (h : RN53 rn) (m v : ℕ) (hm1 : 1 ≤ m) (hm : m < 2 ^ 30) (hv : v < m) :
    CSem.f2u 64 (rn (rn (rn (((target m v : ℕ)) : ℚ) * rn ((m : ℕ) : ℚ)) / ((2147483647 : ℤ) : ℚ))) = v := by
  obtain ⟨ht1, ht2, hlo, hhi⟩ := target_spec m v hm1 hm hv
  set s' := target m v with hs'
  have hm53 : m < 2 ^ 53 := lt_of_lt_of_le hm (Nat.pow_le_pow_right (by norm_num) (by norm_num))
  rw [FP.rn_nat h s' (by omega), FP.rn_nat h m hm53]
  set u : ℚ := 1 / 2 ^ 53 with hu
  set x : ℚ := (s' : ℚ) * (m : ℚ) with hx
  have hx0 : 0 ≤ x := by positivity
  have hpl := FP.rn_ge h x hx0
  have hph := FP.rn_le h x hx0
  have hp0 := FP.rn_nonneg h x hx0
  set p := rn x with hp
  have hPq : ((2147483647 : ℤ) : ℚ) = 2147483647 := by norm_num
  rw [hPq]
  have hd0 : 0 ≤ p / 2147483647 := by positivity
  have hcl := FP.rn_ge h (p / 2147483647) hd0
  have hch := FP.rn_le h (p / 2147483647) hd0
  have hc0 := FP.rn_nonneg h (p / 2147483647) hd0
  set c := rn (p / 2147483647) with hc
  -- the exact quotient y = x / P lies in [v + 1/4, v + 3/4)
  have hloq : ((4 * v + 1 : ℕ) : ℚ) * 2147483647 ≤ 4 * x := by
    have : (((4 * v + 1) * 2147483647 : ℕ) : ℚ) ≤ ((4 * (s' * m) : ℕ) : ℚ) := by exact_mod_cast hlo
    rw [hx]; push_cast at this ⊢; linarith
  have hhiq : 4 * x < ((4 * v + 3 : ℕ) : ℚ) * 2147483647 := by
    have : ((4 * (s' * m) : ℕ) : ℚ) < (((4 * v + 3) * 2147483647 : ℕ) : ℚ) := by exact_mod_cast hhi
    rw [hx]; push_cast at this ⊢; linarith
  have hvq : (v : ℚ) ≤ 1073741824 := by
    have : v ≤ 1073741824 := by
      have : (2 : ℕ) ^ 30 = 1073741824 := by norm_num
      omega
    exact_mod_cast this
  push_cast at hloq hhiq
  -- bounds on p and c
  have h1 : x * (1 - u) / 2147483647 ≤ p / 2147483647 := by
    apply div_le_div_of_nonneg_right _ (by norm_num); rw [hu]; exact hpl
  have h2 : p / 2147483647 ≤ x * (1 + u) / 2147483647 := by
    apply div_le_div_of_nonneg_right _ (by norm_num); rw [hu]; exact hph
  have hu1 : (0 : ℚ) ≤ 1 - u := by rw [hu]; norm_num
  have hu2 : (0 : ℚ) ≤ 1 + u := by rw [hu]; norm_num
  have hclo : x * (1 - u) / 2147483647 * (1 - u) ≤ c := by
    calc x * (1 - u) / 2147483647 * (1 - u) ≤ p / 2147483647 * (1 - u) := mul_le_mul_of_nonneg_right h1 hu1
      _ ≤ c := by rw [hu]; exact hcl
  have hchi : c ≤ x * (1 + u) / 2147483647 * (1 + u) := by
    calc c ≤ p / 2147483647 * (1 + u) := by rw [hu]; exact hch
      _ ≤ x * (1 + u) / 2147483647 * (1 + u) := mul_le_mul_of_nonneg_right h2 hu2
  have hvc : (v : ℚ) ≤ c := by
    have e : x * (1 - u) / 2147483647 * (1 - u) = x * ((1 - u) ^ 2 / 2147483647) := by ring
    rw [e, hu] at hclo
    norm_num at hclo
    linarith
  have hcv : c < (v : ℚ) + 1 := by
    have e : x * (1 + u) / 2147483647 * (1 + u) = x * ((1 + u) ^ 2 / 2147483647) := by ring
    rw [e, hu] at hchi
    norm_num at hchi
    linarith
  have hfl : ⌊c⌋ = (v : ℤ) := by
    rw [Int.floor_eq_iff]
    exact ⟨by exact_mod_cast hvc, by exact_mod_cast hcv⟩
  have h64 : ⌊c⌋ < 2 ^ 64 := by
    rw [hfl]
    have : v < 2 ^ 64 := lt_of_lt_of_le (lt_trans hv hm) (Nat.pow_le_pow_right (by norm_num) (by norm_num))
    exact_mod_cast this
  have := f2u_nonneg 64 c hc0 h64
  rw [hfl] at this
  exact_mod_cast this

end RandProofs
