import OpenFecVerif.Proofs.ITRefine
import OpenFecVerif.Proofs.ITSeq
/-!
Transfer of the closure theorem to the executable decoder: a session's decoder state after any
sequence of `IT.submit` calls (with arbitrary symbol values) has, as its set of known symbols, exactly
what `ITAbs.run` computes — hence the peeling closure.
-/
namespace ITRefine
open IT

variable {σ : Type}

/-- the equations as a total function -/
def Hf (Hl : List (List Nat)) : Nat → List Nat := fun r => Hl.getD r []

theorem ofList_get {α : Type} (l : List α) (d : α) (i : Nat) : (TMap.ofList l d).get i = l.getD i d := by
  simp [TMap.ofList, TMap.get, Array.getD_eq_getD_getElem?, List.getD_eq_getElem?_getD]

theorem mk'_get {α : Type} (d : α) (i : Nat) : (TMap.mk' d).get i = d := by
  simp [TMap.mk', TMap.get]

theorem abs_init (k : Nat) (Hl : List (List Nat)) :
    abs (IT.init k Hl : IT.St σ) = ITAbs.init (Hf Hl) Hl.length k := by
  apply st_ext
  · rfl
  · rfl
  · funext r; simp [abs, IT.init, ITAbs.init, Hf, ofList_get]
  · funext e; simp [abs, IT.init, ITAbs.init, IT.St.known, mk'_get]
  · funext r; simp [abs, IT.init, ITAbs.init, mk'_get]
  · funext r
    simp only [abs, IT.init, ITAbs.init, Hf, ofList_get]
    simp only [List.getD_eq_getElem?_getD, List.getElem?_map]
    cases Hl[r]? <;> simp

/-- the executable decoder driven by a sequence of (ESI, value) submissions -/
def runExec (O : Ops σ) (n k : Nat) (Hl : List (List Nat)) (l : List (Nat × σ)) : IT.St σ :=
  l.foldl (fun s p => IT.submit O n s p.1 p.2) (IT.init k Hl)

theorem abs_runExec (O : Ops σ) (n k : Nat) (Hl : List (List Nat)) (l : List (Nat × σ)) :
    abs (runExec O n k Hl l) = ITAbs.run (Hf Hl) n Hl.length k (l.map (·.1)) := by
  unfold runExec ITAbs.run
  rw [← abs_init (σ := σ) k Hl]
  generalize IT.init k Hl = s0
  induction l generalizing s0 with
  | nil => rfl
  | cons a t ih =>
    simp only [List.foldl_cons, List.map_cons]
    rw [ih]
    congr 1
    exact decode_refines O (n + 1) s0 a.1 a.2

end ITRefine
