import Mathlib.NumberTheory.LucasPrimality
import Mathlib.Tactic.NormNum.Prime
import Mathlib.GroupTheory.SpecificGroups.Cyclic
import Mathlib.Data.ZMod.Basic

namespace PrimRoot

def P : ℕ := 2147483647

/-- modular exponentiation by squaring (fuel = number of bits) -/
def powmod (m : ℕ) : ℕ → ℕ → ℕ → ℕ
  | 0, _, _ => 1 % m
  | f+1, b, e => if e = 0 then 1 % m else
      let h := powmod m f (b * b % m) (e / 2)
      if e % 2 = 1 then b * h % m else h

theorem powmod_eq (m : ℕ) : ∀ (f b e : ℕ), e < 2 ^ f → powmod m f b e = b ^ e % m := by
  intro f
  induction f with
  | zero => intro b e he; have : e = 0 := by omega
            subst this; simp [powmod]
  | succ f ih =>
    intro b e he
    unfold powmod
    by_cases h0 : e = 0
    · subst h0; simp
    · simp only [h0, if_false]
      have hlt : e / 2 < 2 ^ f := by rw [pow_succ] at he; omega
      rw [ih _ _ hlt]
      have hsq : (b * b % m) ^ (e / 2) % m = (b * b) ^ (e / 2) % m := by rw [Nat.pow_mod]; simp [Nat.pow_mod]
      by_cases h1 : e % 2 = 1
      · simp only [h1, if_true]
        have he' : e = 2 * (e / 2) + 1 := by omega
        conv_rhs => rw [he', pow_succ, pow_mul]
        rw [hsq, Nat.mul_mod, Nat.mod_mod, ← Nat.mul_mod, mul_comm]
        congr 2
        rw [pow_two]
      · simp only [h1, if_false]
        have he' : e = 2 * (e / 2) := by omega
        conv_rhs => rw [he', pow_mul]
        rw [hsq, pow_two]

theorem p1 : powmod P 31 16807 (P - 1) = 1 := by decide +kernel
theorem q2 : powmod P 31 16807 ((P - 1) / 2) ≠ 1 := by decide +kernel
theorem q3 : powmod P 31 16807 ((P - 1) / 3) ≠ 1 := by decide +kernel
theorem q7 : powmod P 31 16807 ((P - 1) / 7) ≠ 1 := by decide +kernel
theorem q11 : powmod P 31 16807 ((P - 1) / 11) ≠ 1 := by decide +kernel
theorem q31 : powmod P 31 16807 ((P - 1) / 31) ≠ 1 := by decide +kernel
theorem q151 : powmod P 31 16807 ((P - 1) / 151) ≠ 1 := by decide +kernel
theorem q331 : powmod P 31 16807 ((P - 1) / 331) ≠ 1 := by decide +kernel

theorem fact : P - 1 = 2 * 3 ^ 2 * 7 * 11 * 31 * 151 * 331 := by decide

end PrimRoot

namespace PrimRoot

theorem P_pos : 0 < P := by decide

theorem cast_pow (e : ℕ) (he : e < 2 ^ 31) : ((16807 : ZMod P)) ^ e = ((powmod P 31 16807 e : ℕ) : ZMod P) := by
  rw [powmod_eq P 31 16807 e he, ZMod.natCast_mod]
  push_cast
  rfl

theorem prime_divisors (q : ℕ) (hq : q.Prime) (hd : q ∣ P - 1) : q = 2 ∨ q = 3 ∨ q = 7 ∨ q = 11 ∨ q = 31 ∨ q = 151 ∨ q = 331 := by
  rw [fact] at hd
  have h2 : Nat.Prime 2 := by norm_num
  have h3 : Nat.Prime 3 := by norm_num
  have h7 : Nat.Prime 7 := by norm_num
  have h11 : Nat.Prime 11 := by norm_num
  have h31 : Nat.Prime 31 := by norm_num
  have h151 : Nat.Prime 151 := by norm_num
  have h331 : Nat.Prime 331 := by norm_num
  rcases (Nat.Prime.dvd_mul hq).mp hd with hd | hd
  · rcases (Nat.Prime.dvd_mul hq).mp hd with hd | hd
    · rcases (Nat.Prime.dvd_mul hq).mp hd with hd | hd
      · rcases (Nat.Prime.dvd_mul hq).mp hd with hd | hd
        · rcases (Nat.Prime.dvd_mul hq).mp hd with hd | hd
          · rcases (Nat.Prime.dvd_mul hq).mp hd with hd | hd
            · left; exact (Nat.prime_dvd_prime_iff_eq hq h2).mp hd
            · right; left; exact (Nat.prime_dvd_prime_iff_eq hq h3).mp (hq.dvd_of_dvd_pow hd)
          · right; right; left; exact (Nat.prime_dvd_prime_iff_eq hq h7).mp hd
        · right; right; right; left; exact (Nat.prime_dvd_prime_iff_eq hq h11).mp hd
      · right; right; right; right; left; exact (Nat.prime_dvd_prime_iff_eq hq h31).mp hd
    · right; right; right; right; right; left; exact (Nat.prime_dvd_prime_iff_eq hq h151).mp hd
  · right; right; right; right; right; right; exact (Nat.prime_dvd_prime_iff_eq hq h331).mp hd

theorem one_ne (x : ℕ) (hx : x < P) (hne : x ≠ 1) : ((x : ℕ) : ZMod P) ≠ 1 := by
  intro h
  have : ((x : ℕ) : ZMod P) = ((1 : ℕ) : ZMod P) := by rw [h]; simp
  rw [ZMod.natCast_eq_natCast_iff'] at this
  rw [Nat.mod_eq_of_lt hx, Nat.mod_eq_of_lt (by decide : 1 < P)] at this
  exact hne this

theorem powmod_lt (f b e : ℕ) : powmod P f b e < P := by
  induction f generalizing b e with
  | zero => unfold powmod; exact Nat.mod_lt _ P_pos
  | succ f ih =>
    unfold powmod
    split
    · exact Nat.mod_lt _ P_pos
    · simp only []
      split
      · exact Nat.mod_lt _ P_pos
      · exact ih _ _

theorem pow_full : (16807 : ZMod P) ^ (P - 1) = 1 := by
  rw [cast_pow _ (by decide), p1]; simp

theorem pow_div (q : ℕ) (hq : q.Prime) (hd : q ∣ P - 1) : (16807 : ZMod P) ^ ((P - 1) / q) ≠ 1 := by
  rcases prime_divisors q hq hd with rfl | rfl | rfl | rfl | rfl | rfl | rfl
  · rw [cast_pow _ (by decide)]; exact one_ne _ (powmod_lt _ _ _) q2
  · rw [cast_pow _ (by decide)]; exact one_ne _ (powmod_lt _ _ _) q3
  · rw [cast_pow _ (by decide)]; exact one_ne _ (powmod_lt _ _ _) q7
  · rw [cast_pow _ (by decide)]; exact one_ne _ (powmod_lt _ _ _) q11
  · rw [cast_pow _ (by decide)]; exact one_ne _ (powmod_lt _ _ _) q31
  · rw [cast_pow _ (by decide)]; exact one_ne _ (powmod_lt _ _ _) q151
  · rw [cast_pow _ (by decide)]; exact one_ne _ (powmod_lt _ _ _) q331

/-- 2^31 − 1 is prime (Lucas test with the witness 16807) -/
theorem P_prime : P.Prime := lucas_primality P 16807 pow_full pow_div

instance : Fact P.Prime := ⟨P_prime⟩

/-- 16807 is a primitive root modulo 2^31 − 1 -/
theorem order_g : orderOf (16807 : ZMod P) = P - 1 :=
  orderOf_eq_of_pow_and_pow_div_prime (by decide) pow_full pow_div

end PrimRoot

namespace PrimRoot

/-- every non-zero residue is a power 16807^i with i < P − 1 -/
theorem exists_pow (c : ZMod P) (hc : c ≠ 0) : ∃ i, i < P - 1 ∧ (16807 : ZMod P) ^ i = c := by
  have hg0 : (16807 : ZMod P) ≠ 0 := by
    intro h
    have := pow_full
    rw [h, zero_pow (by decide)] at this
    exact zero_ne_one this
  let g : (ZMod P)ˣ := Units.mk0 _ hg0
  let cu : (ZMod P)ˣ := Units.mk0 _ hc
  have hog : orderOf g = P - 1 := by
    rw [← order_g, ← orderOf_units]; rfl
  have hcard : Nat.card (ZMod P)ˣ = P - 1 := by
    rw [Nat.card_eq_fintype_card, ZMod.card_units_eq_totient, Nat.totient_prime P_prime]
  have htop : Subgroup.zpowers g = ⊤ := by
    apply Subgroup.eq_top_of_card_eq
    rw [Nat.card_zpowers, hog, hcard]
  have hmem : cu ∈ Subgroup.zpowers g := by rw [htop]; trivial
  have hmem' : cu ∈ Submonoid.powers g := (mem_powers_iff_mem_zpowers).mpr hmem
  rw [mem_powers_iff_mem_range_orderOf] at hmem'
  obtain ⟨i, hi, hgi⟩ := Finset.mem_image.mp hmem'
  refine ⟨i, by rw [← hog]; exact Finset.mem_range.mp hi, ?_⟩
  have := congrArg Units.val hgi
  simpa [g, cu] using this

/-- **orbit covering**: from any valid state every valid state is reached within P − 1 multiplications by 16807 -/
theorem orbit (s t : ℕ) (hs1 : 1 ≤ s) (hs2 : s < P) (ht1 : 1 ≤ t) (ht2 : t < P) :
    ∃ i, i < P - 1 ∧ 16807 ^ i * s % P = t := by
  have hs0 : ((s : ℕ) : ZMod P) ≠ 0 := by
    intro h
    rw [ZMod.natCast_eq_zero_iff] at h
    have := Nat.le_of_dvd (by omega) h
    omega
  have ht0 : ((t : ℕ) : ZMod P) ≠ 0 := by
    intro h
    rw [ZMod.natCast_eq_zero_iff] at h
    have := Nat.le_of_dvd (by omega) h
    omega
  obtain ⟨i, hi, hgi⟩ := exists_pow (((t : ℕ) : ZMod P) / ((s : ℕ) : ZMod P)) (div_ne_zero ht0 hs0)
  refine ⟨i, hi, ?_⟩
  have h1 : (((16807 ^ i * s : ℕ)) : ZMod P) = ((t : ℕ) : ZMod P) := by
    push_cast
    rw [hgi, div_mul_cancel₀ _ hs0]
  rw [ZMod.natCast_eq_natCast_iff'] at h1
  rw [h1, Nat.mod_eq_of_lt ht2]

end PrimRoot
