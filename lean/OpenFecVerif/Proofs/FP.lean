import Mathlib.Data.Rat.Floor
import Mathlib.Tactic.Linarith
import Mathlib.Tactic.Positivity
import Mathlib.Tactic.NormNum
import Mathlib.Tactic.FieldSimp
import Mathlib.Tactic.Ring
import Mathlib.Algebra.Order.Floor.Ring
import OpenFecVerif.CSem
/-!
Standard model of IEEE-754 binary64 arithmetic (no overflow, no underflow):
a rounding operator is exact on integers below 2^53 and has relative error at most 2^-53.
All floating-point theorems are stated `∀ rn, RN53 rn → …`.
-/

structure RN53 (rn : ℚ → ℚ) : Prop where
  exact_int : ∀ m : ℤ, |m| < 2 ^ 53 → rn (m : ℚ) = (m : ℚ)
  relerr : ∀ x : ℚ, |rn x - x| ≤ |x| / 2 ^ 53

/-- the class is inhabited (exact arithmetic is a member) -/
theorem RN53_id : RN53 id := ⟨fun _ _ => rfl, fun x => by simp; positivity⟩

namespace FP

theorem floor_eq (q : ℚ) : Rat.floor q = ⌊q⌋ := rfl

theorem ceil_eq (q : ℚ) : Rat.ceil q = ⌈q⌉ := by
  rw [Rat.ceil_eq_neg_floor_neg, floor_eq, Int.floor_neg, neg_neg]

theorem rn_nat {rn : ℚ → ℚ} (h : RN53 rn) (n : ℕ) (hn : n < 2 ^ 53) : rn ((n : ℕ) : ℚ) = (n : ℚ) := by
  have := h.exact_int (n : ℤ) (by rw [abs_of_nonneg (by positivity)]; exact_mod_cast hn)
  simpa using this

theorem rn_le {rn : ℚ → ℚ} (h : RN53 rn) (x : ℚ) (hx : 0 ≤ x) : rn x ≤ x * (1 + 1 / 2 ^ 53) := by
  have := abs_le.mp (h.relerr x)
  rw [abs_of_nonneg hx] at this
  have h2 := this.2
  have : x * (1 + 1 / 2 ^ 53) = x + x / 2 ^ 53 := by ring
  rw [this]; linarith

theorem rn_ge {rn : ℚ → ℚ} (h : RN53 rn) (x : ℚ) (hx : 0 ≤ x) : x * (1 - 1 / 2 ^ 53) ≤ rn x := by
  have := abs_le.mp (h.relerr x)
  rw [abs_of_nonneg hx] at this
  have h2 := this.1
  have : x * (1 - 1 / 2 ^ 53) = x - x / 2 ^ 53 := by ring
  rw [this]; linarith

theorem rn_nonneg {rn : ℚ → ℚ} (h : RN53 rn) (x : ℚ) (hx : 0 ≤ x) : 0 ≤ rn x := by
  have := rn_ge h x hx
  have h2 : (0 : ℚ) ≤ x * (1 - 1 / 2 ^ 53) := by
    apply mul_nonneg hx; norm_num
  linarith

/-- The quotient of a natural `X < 2^53` by a natural `P ≥ 1`, computed in binary64, has the exact
integer part: the exact quotient is at distance ≥ 1/P from the next integer while the rounding
error is < 2^53/P · 2^-53 = 1/P. -/
theorem floor_rn_div {rn : ℚ → ℚ} (h : RN53 rn) (X P : ℕ) (hX : X < 2 ^ 53) (hP : 1 ≤ P) :
    ⌊rn ((X : ℚ) / (P : ℚ))⌋ = ((X / P : ℕ) : ℤ) := by
  set n : ℕ := X / P with hn
  set f : ℕ := X % P with hf
  have hdm : X = P * n + f := by rw [hn, hf]; exact (Nat.div_add_mod X P).symm
  have hfP : f < P := Nat.mod_lt _ (by omega)
  have hPpos : (0 : ℚ) < (P : ℚ) := by exact_mod_cast hP
  set q : ℚ := (X : ℚ) / (P : ℚ) with hq
  have hqeq : q = (n : ℚ) + (f : ℚ) / (P : ℚ) := by
    rw [hq, hdm]; push_cast; field_simp
  have hq0 : 0 ≤ q := by rw [hq]; positivity
  have herr : |rn q - q| ≤ q / 2 ^ 53 := by simpa [abs_of_nonneg hq0] using h.relerr q
  have hqlt : q / 2 ^ 53 < 1 / (P : ℚ) := by
    rw [hq, div_div, div_lt_div_iff₀ (by positivity) hPpos]
    have : (X : ℚ) < 2 ^ 53 := by exact_mod_cast hX
    nlinarith
  rw [Int.floor_eq_iff]
  by_cases hf0 : f = 0
  · have : q = (n : ℚ) := by rw [hqeq, hf0]; simp
    have hnlt : n < 2 ^ 53 := lt_of_le_of_lt (Nat.div_le_self _ _) hX
    have e2 := rn_nat h n hnlt
    rw [this]; push_cast; rw [e2]; constructor <;> linarith
  · have hf1 : (1 : ℚ) ≤ f := by exact_mod_cast Nat.one_le_iff_ne_zero.mpr hf0
    have hfle : (f : ℚ) ≤ (P : ℚ) - 1 := by
      have : f + 1 ≤ P := hfP
      have : ((f + 1 : ℕ) : ℚ) ≤ (P : ℚ) := by exact_mod_cast this
      push_cast at this; linarith
    have hlo : (n : ℚ) + 1 / (P : ℚ) ≤ q := by
      rw [hqeq]; gcongr
    have hhi : q ≤ (n : ℚ) + 1 - 1 / (P : ℚ) := by
      rw [hqeq]
      have : (f : ℚ) / (P : ℚ) ≤ ((P : ℚ) - 1) / (P : ℚ) := by gcongr
      have h2 : ((P : ℚ) - 1) / (P : ℚ) = 1 - 1 / (P : ℚ) := by field_simp
      linarith
    have := abs_le.mp herr
    push_cast
    constructor <;> linarith [this.1, this.2]

/-- the `ceil` twin of `floor_rn_div` -/
theorem ceil_rn_div {rn : ℚ → ℚ} (h : RN53 rn) (X P : ℕ) (hX : X < 2 ^ 53) (hP : 1 ≤ P) :
    ⌈rn ((X : ℚ) / (P : ℚ))⌉ = (((X + P - 1) / P : ℕ) : ℤ) := by
  set n : ℕ := X / P with hn
  set f : ℕ := X % P with hf
  have hdm : X = P * n + f := by rw [hn, hf]; exact (Nat.div_add_mod X P).symm
  have hfP : f < P := Nat.mod_lt _ (by omega)
  have hPpos : (0 : ℚ) < (P : ℚ) := by exact_mod_cast hP
  set q : ℚ := (X : ℚ) / (P : ℚ) with hq
  have hqeq : q = (n : ℚ) + (f : ℚ) / (P : ℚ) := by
    rw [hq, hdm]; push_cast; field_simp
  have hq0 : 0 ≤ q := by rw [hq]; positivity
  have herr : |rn q - q| ≤ q / 2 ^ 53 := by simpa [abs_of_nonneg hq0] using h.relerr q
  have hqlt : q / 2 ^ 53 < 1 / (P : ℚ) := by
    rw [hq, div_div, div_lt_div_iff₀ (by positivity) hPpos]
    have : (X : ℚ) < 2 ^ 53 := by exact_mod_cast hX
    nlinarith
  by_cases hf0 : f = 0
  · have hc : (X + P - 1) / P = n := by
      have : X + P - 1 = P * n + (P - 1) := by omega
      rw [this, Nat.mul_add_div (by omega), Nat.div_eq_of_lt (by omega)]; simp
    have : q = (n : ℚ) := by rw [hqeq, hf0]; simp
    have hnlt : n < 2 ^ 53 := lt_of_le_of_lt (Nat.div_le_self _ _) hX
    have e2 := rn_nat h n hnlt
    rw [hc, this, e2]; exact_mod_cast Int.ceil_natCast n
  · have hc : (X + P - 1) / P = n + 1 := by
      have : X + P - 1 = P * (n + 1) + (f - 1) := by
        have : 1 ≤ f := Nat.one_le_iff_ne_zero.mpr hf0
        rw [hdm]; ring_nf; omega
      rw [this, Nat.mul_add_div (by omega), Nat.div_eq_of_lt (by omega)]
    have hf1 : (1 : ℚ) ≤ f := by exact_mod_cast Nat.one_le_iff_ne_zero.mpr hf0
    have hfle : (f : ℚ) ≤ (P : ℚ) - 1 := by
      have : f + 1 ≤ P := hfP
      have : ((f + 1 : ℕ) : ℚ) ≤ (P : ℚ) := by exact_mod_cast this
      push_cast at this; linarith
    have hlo : (n : ℚ) + 1 / (P : ℚ) ≤ q := by
      rw [hqeq]; gcongr
    have hhi : q ≤ (n : ℚ) + 1 - 1 / (P : ℚ) := by
      rw [hqeq]
      have : (f : ℚ) / (P : ℚ) ≤ ((P : ℚ) - 1) / (P : ℚ) := by gcongr
      have h2 : ((P : ℚ) - 1) / (P : ℚ) = 1 - 1 / (P : ℚ) := by field_simp
      linarith
    have := abs_le.mp herr
    rw [hc, Int.ceil_eq_iff]
    push_cast
    constructor <;> linarith [this.1, this.2]

end FP
