import OpenFecVerif.Model.LdpcIT
import OpenFecVerif.Proofs.ITAbs
/-!
Refinement: the executable, value-level iterative decoder `IT.decode` (total maps, symbol values,
partial sums) projects onto the value-free control model `ITAbs.decode` under the abstraction
`abs` (known = "has a value", armed = "has a partial sum").  Hence every theorem about which symbols
end up known transfers from `ITAbs` to the executable model.
-/
namespace ITRefine
open IT

variable {σ : Type}

/-- abstraction function -/
def abs (s : IT.St σ) : ITAbs.St :=
  { m := s.m, k := s.k, rows := s.rows.get, known := s.known,
    armed := fun r => (s.cterm.get r).isSome, nbu := s.nbu.get }

theorem abs_complete (s : IT.St σ) : (abs s).complete = s.complete := rfl

theorem st_ext {a b : ITAbs.St} (h1 : a.m = b.m) (h2 : a.k = b.k) (h3 : a.rows = b.rows) (h4 : a.known = b.known)
    (h5 : a.armed = b.armed) (h6 : a.nbu = b.nbu) : a = b := by
  cases a; cases b; simp_all

/-- step 2 on one equation: the value-level computation projects onto the control model -/
theorem rowStep_abs (O : Ops σ) (sym : Nat → Option σ) (esi : Nat) (v : σ) (row : List Nat) (ct : Option σ) (nbu : Nat)
    (hk : (sym esi).isSome = true) :
    (IT.rowStep O sym esi v row ct nbu).1 = (ITAbs.rowStep (fun e => (sym e).isSome) esi row ct.isSome nbu).1 ∧
    (IT.rowStep O sym esi v row ct nbu).2.1.isSome = (ITAbs.rowStep (fun e => (sym e).isSome) esi row ct.isSome nbu).2.1 ∧
    (IT.rowStep O sym esi v row ct nbu).2.2.1 = (ITAbs.rowStep (fun e => (sym e).isSome) esi row ct.isSome nbu).2.2.1 ∧
    (IT.rowStep O sym esi v row ct nbu).2.2.2 = (ITAbs.rowStep (fun e => (sym e).isSome) esi row ct.isSome nbu).2.2.2 := by
  have hfil : (row.filter (fun e => e != esi)).filter (fun e => (sym e).isNone) = row.filter (fun e => !(sym e).isSome) := by
    rw [List.filter_filter]
    apply List.filter_congr
    intro e _
    by_cases he : e = esi
    · subst he; simp [hk]
    · cases h : sym e <;> simp [he]
  unfold IT.rowStep ITAbs.rowStep
  by_cases hmem : esi ∈ row
  · have hc : row.contains esi = true := by simpa using hmem
    simp only [hc, if_true, hmem]
    by_cases harm : (ct.isSome || (nbu - 1 == 1)) = true
    · simp only [harm, if_true, hfil]
      exact ⟨trivial, rfl, trivial, trivial⟩
    · have : (ct.isSome || (nbu - 1 == 1)) = false := by simpa using harm
      simp only [this, Bool.false_eq_true, if_false]
      exact ⟨trivial, rfl, trivial, trivial⟩
  · have hc : row.contains esi = false := by simpa using hmem
    simp only [hc, Bool.false_eq_true, if_false, hmem]
    exact ⟨trivial, trivial, trivial, trivial⟩

theorem injectRow_abs (O : Ops σ) (s : IT.St σ) (esi : Nat) (v : σ) (r : Nat) (hk : (s.sym.get esi).isSome = true) :
    abs (IT.injectRow O s esi v r).1 = (ITAbs.injectRow (abs s) esi r).1 ∧
    (IT.injectRow O s esi v r).2 = (ITAbs.injectRow (abs s) esi r).2 ∧
    (IT.injectRow O s esi v r).1.sym = s.sym := by
  obtain ⟨h1, h2, h3, h4⟩ := rowStep_abs O s.sym.get esi v (s.rows.get r) (s.cterm.get r) (s.nbu.get r) hk
  refine ⟨?_, ?_, rfl⟩
  · apply st_ext
    · rfl
    · rfl
    · funext x
      simp only [abs, IT.injectRow, ITAbs.injectRow, TMap.get_set]
      by_cases hx : x = r
      · simp only [hx, if_true]; exact h1
      · simp [hx]
    · rfl
    · funext x
      simp only [abs, IT.injectRow, ITAbs.injectRow, TMap.get_set]
      by_cases hx : x = r
      · simp only [hx, if_true]; exact h2
      · simp [hx]
    · funext x
      simp only [abs, IT.injectRow, ITAbs.injectRow, TMap.get_set]
      by_cases hx : x = r
      · simp only [hx, if_true]; exact h3
      · simp [hx]
  · simp only [IT.injectRow, ITAbs.injectRow]; exact h4

theorem inject_abs (O : Ops σ) (s : IT.St σ) (esi : Nat) (v : σ) (hk : (s.sym.get esi).isSome = true) (R : Nat) :
    abs (IT.inject O s esi v R).1 = (ITAbs.inject (abs s) esi R).1 ∧
    (IT.inject O s esi v R).2 = (ITAbs.inject (abs s) esi R).2 ∧
    (IT.inject O s esi v R).1.sym = s.sym ∧ (IT.inject O s esi v R).1.decoded = s.decoded := by
  induction R with
  | zero => exact ⟨rfl, rfl, rfl, rfl⟩
  | succ R ih =>
    obtain ⟨i1, i2, i3, i4⟩ := ih
    have hk' : ((IT.inject O s esi v R).1.sym.get esi).isSome = true := by rw [i3]; exact hk
    obtain ⟨j1, j2, j3⟩ := injectRow_abs O (IT.inject O s esi v R).1 esi v R hk'
    simp only [IT.inject, ITAbs.inject]
    rw [j1, j2, i1, i2]
    refine ⟨rfl, rfl, ?_, ?_⟩
    · rw [j3, i3]
    · simp [IT.injectRow, i4]

theorem decode_zero (O : Ops σ) (s : IT.St σ) (esi : Nat) (v : σ) : IT.decode O 0 s esi v = s := by
  rw [IT.decode]
theorem decode_succ (O : Ops σ) (fuel : Nat) (s : IT.St σ) (esi : Nat) (v : σ) : IT.decode O (fuel+1) s esi v =
    (if s.known esi then s else
      if esi < s.k && ({ s with sym := s.sym.set esi (some v) } : IT.St σ).complete then { s with sym := s.sym.set esi (some v) } else
      IT.drain O fuel (IT.inject O { s with sym := s.sym.set esi (some v) } esi v s.m).1
        (IT.inject O { s with sym := s.sym.set esi (some v) } esi v s.m).2.reverse) := by
  rw [IT.decode]
theorem drain_nil (O : Ops σ) (fuel : Nat) (s : IT.St σ) : IT.drain O fuel s [] = s := by rw [IT.drain]
theorem drain_cons (O : Ops σ) (fuel : Nat) (s : IT.St σ) (r : Nat) (rest : List Nat) : IT.drain O fuel s (r :: rest) =
    (if s.complete then s else
      match s.rows.get r with
      | [e] =>
        IT.drain O fuel (IT.decode O fuel
          (if (s.consume r).known e then s.consume r else { (s.consume r) with decoded := e :: (s.consume r).decoded }) e
          ((s.cterm.get r).getD O.zero)) rest
      | _ => IT.drain O fuel s rest) := by
  rw [IT.drain]
  rfl

theorem abs_mark (s : IT.St σ) (esi : Nat) (v : σ) :
    abs ({ s with sym := s.sym.set esi (some v) } : IT.St σ) = (abs s).mark esi := by
  apply st_ext <;> try rfl
  funext x
  simp only [abs, IT.St.known, ITAbs.St.mark, TMap.get_set]
  by_cases hx : x = esi <;> simp [hx]

theorem abs_consume (s : IT.St σ) (r : Nat) : abs (s.consume r) = (abs s).consume r := by
  apply st_ext <;> try rfl
  · funext x
    simp only [abs, IT.St.consume, ITAbs.St.consume, TMap.get_set]
  · funext x
    simp only [abs, IT.St.consume, ITAbs.St.consume, TMap.get_set]
    by_cases hx : x = r <;> simp [hx]

theorem abs_decoded (s : IT.St σ) (l : List Nat) : abs ({ s with decoded := l } : IT.St σ) = abs s := rfl

def PA (O : Ops σ) (fuel : Nat) : Prop := ∀ (s : IT.St σ) esi v, abs (IT.decode O fuel s esi v) = ITAbs.decode fuel (abs s) esi
def PB (O : Ops σ) (fuel : Nat) : Prop := ∀ l (s : IT.St σ), abs (IT.drain O fuel s l) = ITAbs.drain fuel (abs s) l

theorem PB_of_PA (O : Ops σ) (fuel : Nat) (hA : PA O fuel) : PB O fuel := by
  intro l
  induction l with
  | nil => intro s; rw [drain_nil, ITAbs.drain_nil]
  | cons r rest ih =>
    intro s
    rw [drain_cons, ITAbs.drain_cons, abs_complete]
    by_cases hc : s.complete = true
    · simp [hc]
    · simp only [hc, Bool.false_eq_true, if_false]
      have hrows : (abs s).rows r = s.rows.get r := rfl
      rw [hrows]
      cases hr : s.rows.get r with
      | nil => simp only []; exact ih s
      | cons e t =>
        cases t with
        | cons e2 t2 => simp only []; exact ih s
        | nil =>
          simp only []
          rw [ih, hA]
          congr 2
          split
          · exact abs_consume s r
          · rw [abs_decoded]; exact abs_consume s r

theorem PA_succ (O : Ops σ) (fuel : Nat) (hB : PB O fuel) : PA O (fuel+1) := by
  intro s esi v
  rw [decode_succ, ITAbs.decode_succ]
  have hkn : (abs s).known esi = s.known esi := rfl
  rw [hkn]
  by_cases hk : s.known esi = true
  · simp [hk]
  · simp only [hk, Bool.false_eq_true, if_false]
    have hm := abs_mark s esi v
    have hcomp : ((abs s).mark esi).complete = ({ s with sym := s.sym.set esi (some v) } : IT.St σ).complete := by
      rw [← hm]; rfl
    have hk' : (abs s).k = s.k := rfl
    rw [hcomp, hk']
    by_cases hc : (decide (esi < s.k) && ({ s with sym := s.sym.set esi (some v) } : IT.St σ).complete) = true
    · simp only [hc, if_true]; exact hm
    · simp only [hc, Bool.false_eq_true, if_false]
      have hsome : ((({ s with sym := s.sym.set esi (some v) } : IT.St σ).sym.get esi)).isSome = true := by
        simp [TMap.get_set_same]
      obtain ⟨i1, i2, _, _⟩ := inject_abs O ({ s with sym := s.sym.set esi (some v) } : IT.St σ) esi v hsome s.m
      rw [hB, i1, i2, hm]
      rfl

theorem PA_all (O : Ops σ) : ∀ fuel, PA O fuel
  | 0 => by intro s esi v; rw [decode_zero, ITAbs.decode_zero]
  | fuel+1 => PA_succ O fuel (PB_of_PA O fuel (PA_all O fuel))

/-- the executable decoder refines the control model -/
theorem decode_refines (O : Ops σ) (fuel : Nat) (s : IT.St σ) (esi : Nat) (v : σ) :
    abs (IT.decode O fuel s esi v) = ITAbs.decode fuel (abs s) esi := PA_all O fuel s esi v

end ITRefine
