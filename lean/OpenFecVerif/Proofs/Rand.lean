import OpenFecVerif.Proofs.FP
import OpenFecVerif.Gen.Rand
/-!
Proofs about the *generated* translation of `of_rand.c` (`Gen/Rand.lean`): the Carta
implementation is the Park-Miller minimal standard generator; the seeding guard; the scaled output.
-/
namespace RandProofs
open Gen

def P : ℕ := 2147483647

/-- the specification: one Park-Miller step -/
def pm (s : ℕ) : ℕ := 16807 * s % 2147483647

theorem coprime_fact (s : ℕ) (h1 : 1 ≤ s) (h2 : s ≤ 2147483646) : (16807 * s) % 2147483647 ≠ 0 := by
  intro h
  have hd : 2147483647 ∣ 16807 * s := Nat.dvd_of_mod_eq_zero h
  have hc : Nat.Coprime 2147483647 16807 := by decide +kernel
  have := hc.dvd_of_dvd_mul_left hd
  have := Nat.le_of_dvd (by omega) this
  omega

theorem pm_range (s : ℕ) (h1 : 1 ≤ s) (h2 : s ≤ 2147483646) : 1 ≤ pm s ∧ pm s ≤ 2147483646 := by
  have := coprime_fact s h1 h2
  unfold pm
  have : 16807 * s % 2147483647 < 2147483647 := Nat.mod_lt _ (by omega)
  omega

/-- Carta's split multiplication computes 16807·s mod (2^31−1) for every valid state. -/
theorem step_ok (rn : ℚ → ℚ) (s maxv : ℕ) (h1 : 1 ≤ s) (h2 : s ≤ 2147483646) :
    (of_rfc5170_rand rn s maxv).1 = pm s := by
  have hnd := coprime_fact s h1 h2
  unfold of_rfc5170_rand pm
  have e1 : s &&& 65535 = s % 65536 := Nat.and_two_pow_sub_one_eq_mod s 16
  have e2 : s >>> 16 = s / 65536 := Nat.shiftRight_eq_div_pow s 16
  have e3 : ∀ x : ℕ, x &&& 32767 = x % 32768 := fun x => Nat.and_two_pow_sub_one_eq_mod x 15
  have e4 : ∀ x : ℕ, x >>> 15 = x / 32768 := fun x => Nat.shiftRight_eq_div_pow x 15
  have e5 : ∀ x : ℕ, x <<< 16 = x * 65536 := fun x => Nat.shiftLeft_eq x 16
  simp only [e1, e2, e3, e4, e5]
  have b1 : 16807 * (s % 65536) % 18446744073709551616 = 16807 * (s % 65536) := Nat.mod_eq_of_lt (by omega)
  have b2 : 16807 * (s / 65536) % 18446744073709551616 = 16807 * (s / 65536) := Nat.mod_eq_of_lt (by omega)
  rw [b1, b2]
  have b3 : 16807 * (s / 65536) % 32768 * 65536 % 18446744073709551616 = 16807 * (s / 65536) % 32768 * 65536 :=
    Nat.mod_eq_of_lt (by omega)
  rw [b3]
  have b4 : (16807 * (s % 65536) + 16807 * (s / 65536) % 32768 * 65536) % 18446744073709551616
      = 16807 * (s % 65536) + 16807 * (s / 65536) % 32768 * 65536 := Nat.mod_eq_of_lt (by omega)
  rw [b4]
  have b5 : (16807 * (s % 65536) + 16807 * (s / 65536) % 32768 * 65536 + 16807 * (s / 65536) / 32768) % 18446744073709551616
      = 16807 * (s % 65536) + 16807 * (s / 65536) % 32768 * 65536 + 16807 * (s / 65536) / 32768 :=
    Nat.mod_eq_of_lt (by omega)
  rw [b5]
  split
  · have b6 : (16807 * (s % 65536) + 16807 * (s / 65536) % 32768 * 65536 + 16807 * (s / 65536) / 32768 + 18446744073709551616 - 2147483647) % 18446744073709551616
      = 16807 * (s % 65536) + 16807 * (s / 65536) % 32768 * 65536 + 16807 * (s / 65536) / 32768 - 2147483647 := by omega
    simp only [b6]; omega
  · simp only []; omega

/-- the returned value is the scaling expression applied to the *new* state -/
theorem out_eq (rn : ℚ → ℚ) (s maxv : ℕ) :
    (of_rfc5170_rand rn s maxv).2 =
      CSem.f2u 64 (rn (rn (rn (((of_rfc5170_rand rn s maxv).1 : ℕ) : ℚ) * rn ((maxv : ℕ) : ℚ)) / ((2147483647 : ℤ) : ℚ))) := by
  unfold of_rfc5170_rand
  simp only []
  split <;> rfl

theorem f2u_nonneg (w : ℕ) (x : ℚ) (hx : 0 ≤ x) (hlt : ⌊x⌋ < 2 ^ w) : (CSem.f2u w x : ℤ) = ⌊x⌋ := by
  unfold CSem.f2u CSem.truncZ
  simp only [hx, if_true, FP.floor_eq]
  have h0 : 0 ≤ ⌊x⌋ := Int.floor_nonneg.mpr hx
  have : ⌊x⌋ % ((2 ^ w : ℕ) : ℤ) = ⌊x⌋ := Int.emod_eq_of_lt h0 (by push_cast; exact hlt)
  rw [this]; exact Int.toNat_of_nonneg h0

/-- Whenever s'·maxv < 2^53 the scaled output is the exact floor(s'·maxv / (2^31−1)). -/
theorem scaled_exact (rn : ℚ → ℚ) (h : RN53 rn) (s' maxv : ℕ) (hs : s' < 2 ^ 53) (hm : maxv < 2 ^ 53)
    (hX : s' * maxv < 2 ^ 53) :
    CSem.f2u 64 (rn (rn (rn ((s' : ℕ) : ℚ) * rn ((maxv : ℕ) : ℚ)) / ((2147483647 : ℤ) : ℚ))) = s' * maxv / 2147483647 := by
  rw [FP.rn_nat h s' hs, FP.rn_nat h maxv hm]
  have e1 : rn ((s' : ℚ) * (maxv : ℚ)) = ((s' * maxv : ℕ) : ℚ) := by
    have := FP.rn_nat h (s' * maxv) hX
    push_cast at this ⊢; exact this
  rw [e1]
  have e2 : ((2147483647 : ℤ) : ℚ) = ((2147483647 : ℕ) : ℚ) := by norm_num
  rw [e2]
  have hfl := FP.floor_rn_div h (s' * maxv) 2147483647 hX (by norm_num)
  have hx0 : (0 : ℚ) ≤ rn (((s' * maxv : ℕ) : ℚ) / ((2147483647 : ℕ) : ℚ)) :=
    FP.rn_nonneg h _ (by positivity)
  have hlt : ⌊rn (((s' * maxv : ℕ) : ℚ) / ((2147483647 : ℕ) : ℚ))⌋ < 2 ^ 64 := by
    rw [hfl]
    have : s' * maxv / 2147483647 < 2 ^ 53 := lt_of_le_of_lt (Nat.div_le_self _ _) hX
    have : s' * maxv / 2147483647 < 2 ^ 64 := by omega
    exact_mod_cast this
  have := f2u_nonneg 64 _ hx0 hlt
  rw [hfl] at this
  exact_mod_cast this

/-- The scaled output is always below maxv (for every maxv ≥ 1 below 2^63 and every state below 2^31−1):
(1 − 1/P)(1 + 2^-53)^4 < 1. -/
theorem scaled_lt (rn : ℚ → ℚ) (h : RN53 rn) (s' maxv : ℕ) (hs : s' ≤ 2147483646) (hm1 : 1 ≤ maxv)
    (hm : maxv < 2 ^ 63) :
    CSem.f2u 64 (rn (rn (rn ((s' : ℕ) : ℚ) * rn ((maxv : ℕ) : ℚ)) / ((2147483647 : ℤ) : ℚ))) < maxv := by
  rw [FP.rn_nat h s' (by omega)]
  set u : ℚ := 1 / 2 ^ 53 with hu
  have hM : (0 : ℚ) < (maxv : ℚ) := by exact_mod_cast hm1
  have hS : (0 : ℚ) ≤ (s' : ℚ) := by positivity
  have hSle : (s' : ℚ) ≤ 2147483646 := by exact_mod_cast hs
  -- a := rn maxv ≤ maxv (1+u)
  have ha0 := FP.rn_nonneg h (maxv : ℚ) hM.le
  have ha := FP.rn_le h (maxv : ℚ) hM.le
  set a := rn ((maxv : ℕ) : ℚ) with hadef
  have hb0 := FP.rn_nonneg h ((s' : ℚ) * a) (mul_nonneg hS ha0)
  have hb := FP.rn_le h ((s' : ℚ) * a) (mul_nonneg hS ha0)
  set b := rn ((s' : ℚ) * a) with hbdef
  have hP : (0 : ℚ) < ((2147483647 : ℤ) : ℚ) := by norm_num
  have hc0 := FP.rn_nonneg h (b / ((2147483647 : ℤ) : ℚ)) (div_nonneg hb0 hP.le)
  have hc := FP.rn_le h (b / ((2147483647 : ℤ) : ℚ)) (div_nonneg hb0 hP.le)
  set c := rn (b / ((2147483647 : ℤ) : ℚ)) with hcdef
  -- chain the bounds: c ≤ s' * maxv * (1+u)^3 / P < maxv
  have hu0 : (0 : ℚ) < 1 + u := by rw [hu]; positivity
  have h1 : b ≤ 2147483646 * ((maxv : ℚ) * (1 + u)) * (1 + u) := by
    calc b ≤ (s' : ℚ) * a * (1 + 1 / 2 ^ 53) := hb
      _ ≤ 2147483646 * ((maxv : ℚ) * (1 + u)) * (1 + u) := by
          rw [hu]
          gcongr
  have h2 : c ≤ 2147483646 * ((maxv : ℚ) * (1 + u)) * (1 + u) / 2147483647 * (1 + u) := by
    calc c ≤ b / ((2147483647 : ℤ) : ℚ) * (1 + 1 / 2 ^ 53) := hc
      _ ≤ 2147483646 * ((maxv : ℚ) * (1 + u)) * (1 + u) / 2147483647 * (1 + u) := by
          rw [hu]
          have : ((2147483647 : ℤ) : ℚ) = 2147483647 := by norm_num
          rw [this]
          gcongr
  have h3 : 2147483646 * ((maxv : ℚ) * (1 + u)) * (1 + u) / 2147483647 * (1 + u) < (maxv : ℚ) := by
    have : 2147483646 * ((maxv : ℚ) * (1 + u)) * (1 + u) / 2147483647 * (1 + u)
        = (maxv : ℚ) * (2147483646 * (1 + u) ^ 3 / 2147483647) := by ring
    rw [this]
    have hk : (2147483646 : ℚ) * (1 + u) ^ 3 / 2147483647 < 1 := by rw [hu]; norm_num
    nlinarith
  have hclt : c < (maxv : ℚ) := lt_of_le_of_lt h2 h3
  have hfl : ⌊c⌋ < (maxv : ℤ) := by
    have : (⌊c⌋ : ℚ) ≤ c := Int.floor_le c
    have : (⌊c⌋ : ℚ) < ((maxv : ℤ) : ℚ) := by push_cast; linarith
    exact_mod_cast this
  have hlt64 : ⌊c⌋ < 2 ^ 64 := by
    have : (maxv : ℤ) < 2 ^ 64 := by
      have : maxv < 2 ^ 64 := by omega
      exact_mod_cast this
    omega
  have := f2u_nonneg 64 c hc0 hlt64
  have : (CSem.f2u 64 c : ℤ) < (maxv : ℤ) := by rw [this]; exact hfl
  exact_mod_cast this

/-- seeding accepts exactly 1 .. 2^31−2 and leaves the state unchanged otherwise -/
theorem srand_spec (g s : ℕ) :
    of_rfc5170_srand g s = if 1 ≤ s ∧ s ≤ 2147483646 then s else g := by
  unfold of_rfc5170_srand
  simp only [ge_iff_le]

/-- n steps of the specification -/
def pmIter : ℕ → ℕ → ℕ
  | 0, s => s
  | n+1, s => pmIter n (pm s)

/-- n steps of the generated code (the state component; the output is discarded) -/
def genIter (rn : ℚ → ℚ) : ℕ → ℕ → ℕ
  | 0, s => s
  | n+1, s => genIter rn n (of_rfc5170_rand rn s 2147483647).1

theorem genIter_eq (rn : ℚ → ℚ) (n s : ℕ) (h1 : 1 ≤ s) (h2 : s ≤ 2147483646) :
    genIter rn n s = pmIter n s := by
  induction n generalizing s with
  | zero => rfl
  | succ n ih =>
    have := pm_range s h1 h2
    simp only [genIter, pmIter, step_ok rn s _ h1 h2]
    exact ih (pm s) this.1 this.2

theorem pm_10000 : pmIter 10000 1 = 1043618065 := by decide +kernel

end RandProofs
