import OpenFecVerif.Proofs.FP
import OpenFecVerif.Gen.Blocking
/-!
Proofs about the *generated* translation of `applis/eperftool/blocking_struct.c`.
-/
namespace BlockingProofs
open Gen

theorem truncZ_int (z : ℤ) : CSem.truncZ ((z : ℤ) : ℚ) = z := by
  unfold CSem.truncZ
  split
  · rw [FP.floor_eq]; exact Int.floor_intCast z
  · rw [FP.ceil_eq]; exact Int.ceil_intCast z

theorem f2u_int (w : ℕ) (z : ℤ) (h0 : 0 ≤ z) (hlt : z < 2 ^ w) : CSem.f2u w ((z : ℤ) : ℚ) = z.toNat := by
  unfold CSem.f2u
  rw [truncZ_int]
  congr 1
  exact Int.emod_eq_of_lt h0 (by push_cast; exact hlt)

theorem f2u_nat (w : ℕ) (n : ℕ) (hlt : n < 2 ^ w) : CSem.f2u w (((n : ℕ) : ℤ) : ℚ) = n := by
  rw [f2u_int w n (by positivity) (by exact_mod_cast hlt)]; simp

theorem f2i32_nat (n : ℕ) (hlt : n < 2 ^ 31) : CSem.f2i32 (((n : ℕ) : ℤ) : ℚ) = (n : ℤ) := by
  unfold CSem.f2i32
  rw [truncZ_int]
  have h0 : (0 : ℤ) ≤ (n : ℤ) := Int.natCast_nonneg n
  have h2 : (n : ℤ) < 2147483648 := by
    have : n < 2147483648 := by simpa using hlt
    exact_mod_cast this
  have h1 : (-2147483648 : ℤ) ≤ (n : ℤ) := by omega
  simp only [h1, h2, and_self, if_true]

/-- ceiling division on naturals -/
def cdiv (a b : ℕ) : ℕ := (a + b - 1) / b

theorem cdiv_le (a b : ℕ) (hb : 1 ≤ b) : cdiv a b ≤ a := by
  unfold cdiv
  have : (a + b - 1) / b < a + 1 := by
    rw [Nat.div_lt_iff_lt_mul (by omega)]
    have h1 : a ≤ a * b := Nat.le_mul_of_pos_right a (by omega)
    have h2 : (a + 1) * b = a * b + b := by ring
    omega
  omega

theorem cdiv_pos (a b : ℕ) (ha : 1 ≤ a) (hb : 1 ≤ b) : 1 ≤ cdiv a b := by
  unfold cdiv
  exact (Nat.le_div_iff_mul_le (by omega)).2 (by omega)

/-- the first outputs of `of_compute_blocking_struct` under the binary64 standard model:
N = ⌈T/B⌉ with T = ⌈L/E⌉, A_large = ⌈T/N⌉, A_small = ⌊T/N⌋ -/
theorem blocking_main (rn : ℚ → ℚ) (h : RN53 rn) (B L E i0 i1 i2 i3 : ℕ)
    (hB : 1 ≤ B) (hE : 1 ≤ E) (hL1 : 1 ≤ L) (hL : L < 2 ^ 32) (hBlt : B < 2 ^ 32) (hElt : E < 2 ^ 32) :
    (of_compute_blocking_struct rn i0 i1 i2 i3 B L E).1 = cdiv (cdiv L E) B ∧
    (of_compute_blocking_struct rn i0 i1 i2 i3 B L E).2.1 = cdiv (cdiv L E) (cdiv (cdiv L E) B) ∧
    (of_compute_blocking_struct rn i0 i1 i2 i3 B L E).2.2.1 = cdiv L E / cdiv (cdiv L E) B := by
  obtain ⟨T, hTdef⟩ : ∃ T, T = cdiv L E := ⟨_, rfl⟩
  rw [← hTdef]
  obtain ⟨N, hNdef⟩ : ∃ N, N = cdiv T B := ⟨_, rfl⟩
  rw [← hNdef]
  have hTle : T ≤ L := by rw [hTdef]; exact cdiv_le L E hE
  have hT32 : T < 2 ^ 32 := lt_of_le_of_lt hTle hL
  have hT1 : 1 ≤ T := by rw [hTdef]; exact cdiv_pos L E hL1 hE
  have hNle : N ≤ T := by rw [hNdef]; exact cdiv_le T B hB
  have hN1 : 1 ≤ N := by rw [hNdef]; exact cdiv_pos T B hT1 hB
  have p53 : (2 : ℕ) ^ 32 < 2 ^ 53 := by norm_num
  have eT : CSem.f2u 32 ((Rat.ceil (rn (rn ((L : ℕ) : ℚ) / rn ((E : ℕ) : ℚ))) : ℤ) : ℚ) = T := by
    rw [FP.rn_nat h L (by omega), FP.rn_nat h E (by omega), FP.ceil_eq, FP.ceil_rn_div h L E (by omega) hE]
    have e1 : (L + E - 1) / E = T := by rw [hTdef]; rfl
    rw [e1]; exact f2u_nat 32 _ hT32
  have hN32' : N < 2 ^ 32 := lt_of_le_of_lt hNle hT32
  have eN : CSem.f2u 32 ((Rat.ceil (rn (rn ((T : ℕ) : ℚ) / rn ((B : ℕ) : ℚ))) : ℤ) : ℚ) = N := by
    rw [FP.rn_nat h T (by omega), FP.rn_nat h B (by omega), FP.ceil_eq, FP.ceil_rn_div h T B (by omega) hB]
    have e1 : (T + B - 1) / B = N := by rw [hNdef]; rfl
    rw [e1]; exact f2u_nat 32 _ hN32'
  have eAl : CSem.f2u 32 ((Rat.ceil (rn (rn ((T : ℕ) : ℚ) / rn ((N : ℕ) : ℚ))) : ℤ) : ℚ) = cdiv T N := by
    rw [FP.rn_nat h T (by omega), FP.rn_nat h N (by omega), FP.ceil_eq, FP.ceil_rn_div h T N (by omega) hN1]
    exact f2u_nat 32 _ (lt_of_le_of_lt (cdiv_le T N hN1) hT32)
  have eAs : CSem.f2u 32 ((Rat.floor (rn (rn ((T : ℕ) : ℚ) / rn ((N : ℕ) : ℚ))) : ℤ) : ℚ) = T / N := by
    rw [FP.rn_nat h T (by omega), FP.rn_nat h N (by omega), FP.floor_eq, FP.floor_rn_div h T N (by omega) hN1]
    exact f2u_nat 32 _ (lt_of_le_of_lt (Nat.div_le_self T N) hT32)
  unfold of_compute_blocking_struct
  simp only [eT, eN, eAl, eAs]
  exact ⟨trivial, trivial, trivial⟩

end BlockingProofs
