import OpenFecVerif.Proofs.DenseBits
import OpenFecVerif.Gen.Popcount
/-!
# SWAR population counts of of_hamming_weight.c, for every word

`Gen.of_hweight32` and `Gen.of_popcount_3` are regenerated from the C source on every run.  The proof splits a word
into its byte lanes (`w = b0 + 256·b1 + …`), shows that the three masking steps act on each lane independently of its
neighbours (the bits shifted in from the next lane are masked off; the per-lane facts are finite statements over one byte
and at most four carried-in bits, checked by kernel evaluation), and that the final folding adds the lane counts.
Linear arithmetic over the lanes is `omega`; `&&&` is handled by the lane lemma `and_lanes`.
-/
namespace Dense.Pop

/-- little-endian bytes to number -/
def ofBytes : List Nat → Nat
  | [] => 0
  | b :: bs => b + 256 * ofBytes bs

theorem and_lane (x m : Nat) : x &&& m = (x % 256 &&& m % 256) + 256 * (x / 256 &&& m / 256) := by
  have h := Nat.div_add_mod (x &&& m) 256
  have h1 : (x &&& m) % 2 ^ 8 = (x % 2 ^ 8) &&& (m % 2 ^ 8) := Nat.and_mod_two_pow
  have h2 : (x &&& m) / 2 ^ 8 = x / 2 ^ 8 &&& m / 2 ^ 8 := Nat.and_div_two_pow
  simp only [show (2 : Nat) ^ 8 = 256 from rfl] at h1 h2
  omega

theorem and_lanes : ∀ (bs ms : List Nat), bs.length = ms.length → (∀ b ∈ bs, b < 256) → (∀ m ∈ ms, m < 256) →
    ofBytes bs &&& ofBytes ms = ofBytes (List.zipWith (· &&& ·) bs ms)
  | [], [], _, _, _ => by simp [ofBytes]
  | [], _ :: _, h, _, _ => by simp at h
  | _ :: _, [], h, _, _ => by simp at h
  | b :: bs, m :: ms, h, hb, hm => by
    have hb0 : b < 256 := hb b (by simp)
    have hm0 : m < 256 := hm m (by simp)
    have ih := and_lanes bs ms (by simpa using h) (fun x hx => hb x (by simp [hx])) (fun x hx => hm x (by simp [hx]))
    simp only [ofBytes, List.zipWith_cons_cons]
    rw [and_lane]
    have e1 : (b + 256 * ofBytes bs) % 256 = b := by omega
    have e2 : (m + 256 * ofBytes ms) % 256 = m := by omega
    have e3 : (b + 256 * ofBytes bs) / 256 = ofBytes bs := by omega
    have e4 : (m + 256 * ofBytes ms) / 256 = ofBytes ms := by omega
    rw [e1, e2, e3, e4, ih]

/-- one bits of a byte -/
def pc8 (b : Nat) : Nat := ((List.range 8).filter fun i => b.testBit i).length

/-- the three masking steps on one byte lane -/
def t1 (b : Nat) : Nat := (b / 2) &&& 85
def r1 (b : Nat) : Nat := b - t1 b
def r2 (b : Nat) : Nat := (r1 b &&& 51) + ((r1 b / 4) &&& 51)

/-- step 1: the bit shifted in from the next lane is masked off, and the subtrahend never exceeds the lane -/
theorem lane1 : ∀ b, b < 256 → ∀ c, c < 2 → (b / 2 + 128 * c) &&& 85 = t1 b ∧ t1 b ≤ b := by decide +kernel

/-- step 2: the two bits shifted in are masked off; both nibbles hold a count ≤ 4 and together the byte's count -/
theorem lane2 : ∀ u, u < 256 → ∀ c, c < 4 → (u / 4 + 64 * c) &&& 51 = (u / 4) &&& 51 := by decide +kernel

theorem lane2' : ∀ b, b < 256 → r1 b < 256 ∧ r2 b % 16 ≤ 4 ∧ r2 b / 16 ≤ 4 ∧ r2 b % 16 + r2 b / 16 = pc8 b := by
  decide +kernel

theorem pc8_le (b : Nat) : pc8 b ≤ 8 := by
  unfold pc8
  exact Nat.le_trans (List.length_filter_le _ _) (by simp)

/-- the specification side: the count of a word is the sum of the counts of its bytes -/
theorem filter_testBit_split (w n : Nat) :
    ((List.range (8 * (n + 1))).filter fun i => w.testBit i).length
      = ((List.range (8 * n)).filter fun i => w.testBit i).length + pc8 (w / 256 ^ n % 256) := by
  have : 8 * (n + 1) = 8 * n + 8 := by omega
  rw [this, List.range_add, List.filter_append, List.length_append, List.filter_map, List.length_map]
  congr 1
  unfold pc8
  congr 1
  apply List.filter_congr
  intro i hi
  have hi8 : i < 8 := by simpa using hi
  simp only [Function.comp]
  have e : (256 : Nat) ^ n = 2 ^ (8 * n) := by rw [Nat.pow_mul]
  rw [e, show (256 : Nat) = 2 ^ 8 from rfl, Nat.testBit_mod_two_pow, Nat.testBit_div_two_pow]
  simp [hi8, Nat.add_comm]

theorem popcount_bytes (w : Nat) :
    Dense.popcount w = pc8 (w % 256) + pc8 (w / 256 % 256) + pc8 (w / 65536 % 256) + pc8 (w / 16777216 % 256) := by
  unfold Dense.popcount
  have h3 := filter_testBit_split w 3
  have h2 := filter_testBit_split w 2
  have h1 := filter_testBit_split w 1
  have h0 := filter_testBit_split w 0
  simp only [Nat.reduceMul, Nat.reduceAdd, Nat.reducePow, Nat.div_one, List.range_zero, List.filter_nil,
    List.length_nil, Nat.zero_add] at h0 h1 h2 h3
  omega

/-- count of the one bits among the low 64 bits -/
def popcount64 (x : Nat) : Nat := ((List.range 64).filter fun i => x.testBit i).length

theorem popcount64_bytes (x : Nat) :
    popcount64 x = pc8 (x % 256) + pc8 (x / 256 % 256) + pc8 (x / 65536 % 256) + pc8 (x / 16777216 % 256)
      + pc8 (x / 4294967296 % 256) + pc8 (x / 1099511627776 % 256) + pc8 (x / 281474976710656 % 256)
      + pc8 (x / 72057594037927936 % 256) := by
  unfold popcount64
  have h7 := filter_testBit_split x 7
  have h6 := filter_testBit_split x 6
  have h5 := filter_testBit_split x 5
  have h4 := filter_testBit_split x 4
  have h3 := filter_testBit_split x 3
  have h2 := filter_testBit_split x 2
  have h1 := filter_testBit_split x 1
  have h0 := filter_testBit_split x 0
  simp only [Nat.reduceMul, Nat.reduceAdd, Nat.reducePow, Nat.div_one, List.range_zero, List.filter_nil,
    List.length_nil, Nat.zero_add] at h0 h1 h2 h3 h4 h5 h6 h7
  omega


theorem and4 (a0 a1 a2 a3 m0 m1 m2 m3 : Nat) (ha0 : a0 < 256) (ha1 : a1 < 256) (ha2 : a2 < 256) (ha3 : a3 < 256)
    (hm0 : m0 < 256) (hm1 : m1 < 256) (hm2 : m2 < 256) (hm3 : m3 < 256) :
    (a0 + 256 * a1 + 65536 * a2 + 16777216 * a3) &&& (m0 + 256 * m1 + 65536 * m2 + 16777216 * m3)
      = (a0 &&& m0) + 256 * (a1 &&& m1) + 65536 * (a2 &&& m2) + 16777216 * (a3 &&& m3) := by
  have h := and_lanes [a0, a1, a2, a3] [m0, m1, m2, m3] rfl
    (by intro b hb; simp at hb; rcases hb with rfl | rfl | rfl | rfl <;> assumption)
    (by intro b hb; simp at hb; rcases hb with rfl | rfl | rfl | rfl <;> assumption)
  have ea : a0 + 256 * a1 + 65536 * a2 + 16777216 * a3 = ofBytes [a0, a1, a2, a3] := by simp only [ofBytes]; omega
  have em : m0 + 256 * m1 + 65536 * m2 + 16777216 * m3 = ofBytes [m0, m1, m2, m3] := by simp only [ofBytes]; omega
  rw [ea, em, h]
  simp only [ofBytes, List.zipWith_cons_cons, List.zipWith_nil_right]
  omega


theorem and15 (z : Nat) : z &&& 15 = z % 16 := Nat.and_two_pow_sub_one_eq_mod z 4
theorem and255 (z : Nat) : z &&& 255 = z % 256 := Nat.and_two_pow_sub_one_eq_mod z 8


/-- step 1 of the 32-bit helper on byte lanes -/
theorem st1_32 (b0 b1 b2 b3 : Nat) (h0 : b0 < 256) (h1 : b1 < 256) (h2 : b2 < 256) (h3 : b3 < 256) :
    ((b0 + 256 * b1 + 65536 * b2 + 16777216 * b3) + 4294967296
        - (((b0 + 256 * b1 + 65536 * b2 + 16777216 * b3) >>> 1) &&& 1431655765)) % 4294967296
      = r1 b0 + 256 * r1 b1 + 65536 * r1 b2 + 16777216 * r1 b3 := by
  have s1 : ((b0 + 256 * b1 + 65536 * b2 + 16777216 * b3) >>> 1) &&& 1431655765
      = t1 b0 + 256 * t1 b1 + 65536 * t1 b2 + 16777216 * t1 b3 := by
    have hs : (b0 + 256 * b1 + 65536 * b2 + 16777216 * b3) >>> 1 = (b0 / 2 + 128 * (b1 % 2)) + 256 * (b1 / 2 + 128 * (b2 % 2))
        + 65536 * (b2 / 2 + 128 * (b3 % 2)) + 16777216 * (b3 / 2 + 128 * 0) := by
      rw [Nat.shiftRight_eq_div_pow, show (2 : Nat) ^ 1 = 2 from rfl]; omega
    have hm : (1431655765 : Nat) = 85 + 256 * 85 + 65536 * 85 + 16777216 * 85 := by omega
    rw [hs, hm, and4 _ _ _ _ _ _ _ _ (by omega) (by omega) (by omega) (by omega) (by omega) (by omega) (by omega) (by omega),
      (lane1 b0 h0 (b1 % 2) (by omega)).1, (lane1 b1 h1 (b2 % 2) (by omega)).1, (lane1 b2 h2 (b3 % 2) (by omega)).1,
      (lane1 b3 h3 0 (by omega)).1]
  have l0 := (lane1 b0 h0 0 (by omega)).2
  have l1 := (lane1 b1 h1 0 (by omega)).2
  have l2 := (lane1 b2 h2 0 (by omega)).2
  have l3 := (lane1 b3 h3 0 (by omega)).2
  rw [s1]; unfold r1; omega

/-- step 2 on lanes -/
def r2' (u : Nat) : Nat := (u &&& 51) + ((u / 4) &&& 51)

theorem r2'_lt : ∀ u, u < 256 → r2' u < 256 := by decide +kernel

theorem st2_32 (u0 u1 u2 u3 : Nat) (h0 : u0 < 256) (h1 : u1 < 256) (h2 : u2 < 256) (h3 : u3 < 256) :
    (((u0 + 256 * u1 + 65536 * u2 + 16777216 * u3) &&& 858993459)
        + (((u0 + 256 * u1 + 65536 * u2 + 16777216 * u3) >>> 2) &&& 858993459)) % 4294967296
      = r2' u0 + 256 * r2' u1 + 65536 * r2' u2 + 16777216 * r2' u3 := by
  have hm2 : (858993459 : Nat) = 51 + 256 * 51 + 65536 * 51 + 16777216 * 51 := by omega
  have s2a : (u0 + 256 * u1 + 65536 * u2 + 16777216 * u3) &&& 858993459
      = (u0 &&& 51) + 256 * (u1 &&& 51) + 65536 * (u2 &&& 51) + 16777216 * (u3 &&& 51) := by
    rw [hm2, and4 _ _ _ _ _ _ _ _ h0 h1 h2 h3 (by omega) (by omega) (by omega) (by omega)]
  have s2b : ((u0 + 256 * u1 + 65536 * u2 + 16777216 * u3) >>> 2) &&& 858993459
      = (u0 / 4 &&& 51) + 256 * (u1 / 4 &&& 51) + 65536 * (u2 / 4 &&& 51) + 16777216 * (u3 / 4 &&& 51) := by
    have hs : (u0 + 256 * u1 + 65536 * u2 + 16777216 * u3) >>> 2 = (u0 / 4 + 64 * (u1 % 4)) + 256 * (u1 / 4 + 64 * (u2 % 4))
        + 65536 * (u2 / 4 + 64 * (u3 % 4)) + 16777216 * (u3 / 4 + 64 * 0) := by
      rw [Nat.shiftRight_eq_div_pow, show (2 : Nat) ^ 2 = 4 from rfl]; omega
    rw [hs, hm2, and4 _ _ _ _ _ _ _ _ (by omega) (by omega) (by omega) (by omega) (by omega) (by omega) (by omega) (by omega),
      lane2 u0 h0 (u1 % 4) (by omega), lane2 u1 h1 (u2 % 4) (by omega), lane2 u2 h2 (u3 % 4) (by omega),
      lane2 u3 h3 0 (by omega)]
  have f0 := r2'_lt u0 h0
  have f1 := r2'_lt u1 h1
  have f2 := r2'_lt u2 h2
  have f3 := r2'_lt u3 h3
  rw [s2a, s2b]; unfold r2' at *; omega

/-- step 3 on lanes given by their nibbles (each at most 4) -/
theorem st3n_32 (l0 g0 l1 g1 l2 g2 l3 g3 : Nat) (a0 : l0 ≤ 4) (a1 : l1 ≤ 4) (a2 : l2 ≤ 4) (a3 : l3 ≤ 4)
    (e0 : g0 ≤ 4) (e1 : g1 ≤ 4) (e2 : g2 ≤ 4) (e3 : g3 ≤ 4) :
    ((((l0 + 16 * g0) + 256 * (l1 + 16 * g1) + 65536 * (l2 + 16 * g2) + 16777216 * (l3 + 16 * g3))
        + (((l0 + 16 * g0) + 256 * (l1 + 16 * g1) + 65536 * (l2 + 16 * g2) + 16777216 * (l3 + 16 * g3)) >>> 4)) % 4294967296)
        &&& 252645135
      = (l0 + g0) + 256 * (l1 + g1) + 65536 * (l2 + g2) + 16777216 * (l3 + g3) := by
  have hm3 : (252645135 : Nat) = 15 + 256 * 15 + 65536 * 15 + 16777216 * 15 := by omega
  have a : ((l0 + 16 * g0) + 256 * (l1 + 16 * g1) + 65536 * (l2 + 16 * g2) + 16777216 * (l3 + 16 * g3)) / 16
     = g0 + 16 * l1 + 256 * g1 + 4096 * l2 + 65536 * g2 + 1048576 * l3 + 16777216 * g3 := by omega
  have hz : (((l0 + 16 * g0) + 256 * (l1 + 16 * g1) + 65536 * (l2 + 16 * g2) + 16777216 * (l3 + 16 * g3))
        + (((l0 + 16 * g0) + 256 * (l1 + 16 * g1) + 65536 * (l2 + 16 * g2) + 16777216 * (l3 + 16 * g3)) >>> 4)) % 4294967296
      = ((l0 + g0) + 16 * (g0 + l1)) + 256 * ((l1 + g1) + 16 * (g1 + l2))
      + 65536 * ((l2 + g2) + 16 * (g2 + l3)) + 16777216 * ((l3 + g3) + 16 * g3) := by
    rw [Nat.shiftRight_eq_div_pow, show (2 : Nat) ^ 4 = 16 from rfl, a]; omega
  rw [hz, hm3, and4 _ _ _ _ _ _ _ _ (by omega) (by omega) (by omega) (by omega) (by omega) (by omega) (by omega) (by omega)]
  simp only [and15]
  have m0 : (l0 + g0 + 16 * (g0 + l1)) % 16 = l0 + g0 := by omega
  have m1 : (l1 + g1 + 16 * (g1 + l2)) % 16 = l1 + g1 := by omega
  have m2 : (l2 + g2 + 16 * (g2 + l3)) % 16 = l2 + g2 := by omega
  have m3 : (l3 + g3 + 16 * g3) % 16 = l3 + g3 := by omega
  rw [m0, m1, m2, m3]

/-- step 3 on lanes whose two nibbles each hold at most 4 -/
theorem st3_32 (v0 v1 v2 v3 : Nat) (h0 : v0 % 16 ≤ 4 ∧ v0 / 16 ≤ 4) (h1 : v1 % 16 ≤ 4 ∧ v1 / 16 ≤ 4)
    (h2 : v2 % 16 ≤ 4 ∧ v2 / 16 ≤ 4) (h3 : v3 % 16 ≤ 4 ∧ v3 / 16 ≤ 4) :
    (((v0 + 256 * v1 + 65536 * v2 + 16777216 * v3) + ((v0 + 256 * v1 + 65536 * v2 + 16777216 * v3) >>> 4)) % 4294967296)
        &&& 252645135
      = (v0 % 16 + v0 / 16) + 256 * (v1 % 16 + v1 / 16) + 65536 * (v2 % 16 + v2 / 16) + 16777216 * (v3 % 16 + v3 / 16) := by
  have := st3n_32 (v0 % 16) (v0 / 16) (v1 % 16) (v1 / 16) (v2 % 16) (v2 / 16) (v3 % 16) (v3 / 16)
    h0.1 h1.1 h2.1 h3.1 h0.2 h1.2 h2.2 h3.2
  rw [Nat.mod_add_div, Nat.mod_add_div, Nat.mod_add_div, Nat.mod_add_div] at this
  exact this

theorem fold32 (p0 p1 p2 p3 : Nat) (c0 : p0 ≤ 8) (c1 : p1 ≤ 8) (c2 : p2 ≤ 8) (c3 : p3 ≤ 8) :
    (((p0 + 256 * p1 + 65536 * p2 + 16777216 * p3) + (p0 + 256 * p1 + 65536 * p2 + 16777216 * p3) / 256) % 4294967296
      + ((p0 + 256 * p1 + 65536 * p2 + 16777216 * p3) + (p0 + 256 * p1 + 65536 * p2 + 16777216 * p3) / 256) % 4294967296 / 65536)
        % 4294967296 % 256 = p0 + p1 + p2 + p3 := by
  have a : (p0 + 256 * p1 + 65536 * p2 + 16777216 * p3) / 256 = p1 + 256 * p2 + 65536 * p3 := by omega
  rw [a]
  have b : ((p0 + 256 * p1 + 65536 * p2 + 16777216 * p3) + (p1 + 256 * p2 + 65536 * p3)) % 4294967296
      = (p0 + p1) + 256 * (p1 + p2) + 65536 * (p2 + p3) + 16777216 * p3 := by omega
  rw [b]
  have c : ((p0 + p1) + 256 * (p1 + p2) + 65536 * (p2 + p3) + 16777216 * p3) / 65536 = (p2 + p3) + 256 * p3 := by omega
  rw [c]
  omega

/-- `of_hweight32` on a word given by its byte lanes -/
theorem hweight32_bytes (b0 b1 b2 b3 : Nat) (h0 : b0 < 256) (h1 : b1 < 256) (h2 : b2 < 256) (h3 : b3 < 256) :
    Gen.of_hweight32 (b0 + 256 * b1 + 65536 * b2 + 16777216 * b3) = pc8 b0 + pc8 b1 + pc8 b2 + pc8 b3 := by
  obtain ⟨q0, n0, d0, p0⟩ := lane2' b0 h0
  obtain ⟨q1, n1, d1, p1⟩ := lane2' b1 h1
  obtain ⟨q2, n2, d2, p2⟩ := lane2' b2 h2
  obtain ⟨q3, n3, d3, p3⟩ := lane2' b3 h3
  have g0 : r2' (r1 b0) = r2 b0 := rfl
  have g1 : r2' (r1 b1) = r2 b1 := rfl
  have g2 : r2' (r1 b2) = r2 b2 := rfl
  have g3 : r2' (r1 b3) = r2 b3 := rfl
  unfold Gen.of_hweight32
  simp only [st1_32 b0 b1 b2 b3 h0 h1 h2 h3, st2_32 _ _ _ _ q0 q1 q2 q3, g0, g1, g2, g3,
    st3_32 _ _ _ _ ⟨n0, d0⟩ ⟨n1, d1⟩ ⟨n2, d2⟩ ⟨n3, d3⟩, p0, p1, p2, p3]
  have c0 := pc8_le b0
  have c1 := pc8_le b1
  have c2 := pc8_le b2
  have c3 := pc8_le b3
  simp only [Nat.shiftRight_eq_div_pow, and255, show (2 : Nat) ^ 8 = 256 from rfl, show (2 : Nat) ^ 16 = 65536 from rfl]
  exact fold32 _ _ _ _ c0 c1 c2 c3

/-- `of_hweight32` (regenerated from the C source on every run) counts the one bits of every 32-bit word -/
theorem hweight32_eq (w : Nat) (hw : w < 4294967296) : Gen.of_hweight32 w = Dense.popcount w := by
  rw [popcount_bytes]
  have hwd : w = w % 256 + 256 * (w / 256 % 256) + 65536 * (w / 65536 % 256) + 16777216 * (w / 16777216 % 256) := by omega
  have := hweight32_bytes (w % 256) (w / 256 % 256) (w / 65536 % 256) (w / 16777216 % 256)
    (by omega) (by omega) (by omega) (by omega)
  rw [← hwd] at this
  exact this

/-! ### the 64-bit helper `of_popcount_3` (eight lanes; the statements below are produced by a script from the lane pattern of the 32-bit proof) -/

theorem and8 (a0 a1 a2 a3 a4 a5 a6 a7 m0 m1 m2 m3 m4 m5 m6 m7 : Nat) (ha0 : a0 < 256) (ha1 : a1 < 256) (ha2 : a2 < 256) (ha3 : a3 < 256) (ha4 : a4 < 256) (ha5 : a5 < 256) (ha6 : a6 < 256) (ha7 : a7 < 256) (hm0 : m0 < 256) (hm1 : m1 < 256) (hm2 : m2 < 256) (hm3 : m3 < 256) (hm4 : m4 < 256) (hm5 : m5 < 256) (hm6 : m6 < 256) (hm7 : m7 < 256) :
    (a0 + 256 * a1 + 65536 * a2 + 16777216 * a3 + 4294967296 * a4 + 1099511627776 * a5 + 281474976710656 * a6 + 72057594037927936 * a7) &&& (m0 + 256 * m1 + 65536 * m2 + 16777216 * m3 + 4294967296 * m4 + 1099511627776 * m5 + 281474976710656 * m6 + 72057594037927936 * m7)
      = (a0 &&& m0) + 256 * (a1 &&& m1) + 65536 * (a2 &&& m2) + 16777216 * (a3 &&& m3) + 4294967296 * (a4 &&& m4) + 1099511627776 * (a5 &&& m5) + 281474976710656 * (a6 &&& m6) + 72057594037927936 * (a7 &&& m7) := by
  have h := and_lanes [a0, a1, a2, a3, a4, a5, a6, a7] [m0, m1, m2, m3, m4, m5, m6, m7] rfl
    (by intro b hb; simp at hb; rcases hb with rfl | rfl | rfl | rfl | rfl | rfl | rfl | rfl <;> assumption)
    (by intro b hb; simp at hb; rcases hb with rfl | rfl | rfl | rfl | rfl | rfl | rfl | rfl <;> assumption)
  have ea : (a0 + 256 * a1 + 65536 * a2 + 16777216 * a3 + 4294967296 * a4 + 1099511627776 * a5 + 281474976710656 * a6 + 72057594037927936 * a7) = ofBytes [a0, a1, a2, a3, a4, a5, a6, a7] := by simp only [ofBytes]; omega
  have em : (m0 + 256 * m1 + 65536 * m2 + 16777216 * m3 + 4294967296 * m4 + 1099511627776 * m5 + 281474976710656 * m6 + 72057594037927936 * m7) = ofBytes [m0, m1, m2, m3, m4, m5, m6, m7] := by simp only [ofBytes]; omega
  rw [ea, em, h]
  simp only [ofBytes, List.zipWith_cons_cons, List.zipWith_nil_right]
  omega

theorem st1_64 (b0 b1 b2 b3 b4 b5 b6 b7 : Nat) (h0 : b0 < 256) (h1 : b1 < 256) (h2 : b2 < 256) (h3 : b3 < 256) (h4 : b4 < 256) (h5 : b5 < 256) (h6 : b6 < 256) (h7 : b7 < 256) :
    ((b0 + 256 * b1 + 65536 * b2 + 16777216 * b3 + 4294967296 * b4 + 1099511627776 * b5 + 281474976710656 * b6 + 72057594037927936 * b7) + 18446744073709551616 - (((b0 + 256 * b1 + 65536 * b2 + 16777216 * b3 + 4294967296 * b4 + 1099511627776 * b5 + 281474976710656 * b6 + 72057594037927936 * b7) >>> 1) &&& 6148914691236517205)) % 18446744073709551616
      = r1 b0 + 256 * r1 b1 + 65536 * r1 b2 + 16777216 * r1 b3 + 4294967296 * r1 b4 + 1099511627776 * r1 b5 + 281474976710656 * r1 b6 + 72057594037927936 * r1 b7 := by
  have s1 : ((b0 + 256 * b1 + 65536 * b2 + 16777216 * b3 + 4294967296 * b4 + 1099511627776 * b5 + 281474976710656 * b6 + 72057594037927936 * b7) >>> 1) &&& 6148914691236517205
      = t1 b0 + 256 * t1 b1 + 65536 * t1 b2 + 16777216 * t1 b3 + 4294967296 * t1 b4 + 1099511627776 * t1 b5 + 281474976710656 * t1 b6 + 72057594037927936 * t1 b7 := by
    have hs : (b0 + 256 * b1 + 65536 * b2 + 16777216 * b3 + 4294967296 * b4 + 1099511627776 * b5 + 281474976710656 * b6 + 72057594037927936 * b7) >>> 1 = (b0 / 2 + 128 * (b1 % 2)) + 256 * (b1 / 2 + 128 * (b2 % 2)) + 65536 * (b2 / 2 + 128 * (b3 % 2)) + 16777216 * (b3 / 2 + 128 * (b4 % 2)) + 4294967296 * (b4 / 2 + 128 * (b5 % 2)) + 1099511627776 * (b5 / 2 + 128 * (b6 % 2)) + 281474976710656 * (b6 / 2 + 128 * (b7 % 2)) + 72057594037927936 * (b7 / 2 + 128 * 0) := by
      rw [Nat.shiftRight_eq_div_pow, show (2 : Nat) ^ 1 = 2 from rfl]; omega
    have hm : (6148914691236517205 : Nat) = 85 + 256 * 85 + 65536 * 85 + 16777216 * 85 + 4294967296 * 85 + 1099511627776 * 85 + 281474976710656 * 85 + 72057594037927936 * 85 := by omega
    rw [hs, hm, and8 _ _ _ _ _ _ _ _ _ _ _ _ _ _ _ _ (by omega) (by omega) (by omega) (by omega) (by omega) (by omega) (by omega) (by omega) (by omega) (by omega) (by omega) (by omega) (by omega) (by omega) (by omega) (by omega),
      (lane1 b0 h0 (b1 % 2) (by omega)).1, (lane1 b1 h1 (b2 % 2) (by omega)).1, (lane1 b2 h2 (b3 % 2) (by omega)).1, (lane1 b3 h3 (b4 % 2) (by omega)).1, (lane1 b4 h4 (b5 % 2) (by omega)).1, (lane1 b5 h5 (b6 % 2) (by omega)).1, (lane1 b6 h6 (b7 % 2) (by omega)).1, (lane1 b7 h7 0 (by omega)).1]
  have l0 := (lane1 b0 h0 0 (by omega)).2
  have l1 := (lane1 b1 h1 0 (by omega)).2
  have l2 := (lane1 b2 h2 0 (by omega)).2
  have l3 := (lane1 b3 h3 0 (by omega)).2
  have l4 := (lane1 b4 h4 0 (by omega)).2
  have l5 := (lane1 b5 h5 0 (by omega)).2
  have l6 := (lane1 b6 h6 0 (by omega)).2
  have l7 := (lane1 b7 h7 0 (by omega)).2
  rw [s1]; unfold r1; omega

theorem st2_64 (u0 u1 u2 u3 u4 u5 u6 u7 : Nat) (h0 : u0 < 256) (h1 : u1 < 256) (h2 : u2 < 256) (h3 : u3 < 256) (h4 : u4 < 256) (h5 : u5 < 256) (h6 : u6 < 256) (h7 : u7 < 256) :
    (((u0 + 256 * u1 + 65536 * u2 + 16777216 * u3 + 4294967296 * u4 + 1099511627776 * u5 + 281474976710656 * u6 + 72057594037927936 * u7) &&& 3689348814741910323) + (((u0 + 256 * u1 + 65536 * u2 + 16777216 * u3 + 4294967296 * u4 + 1099511627776 * u5 + 281474976710656 * u6 + 72057594037927936 * u7) >>> 2) &&& 3689348814741910323)) % 18446744073709551616
      = r2' u0 + 256 * r2' u1 + 65536 * r2' u2 + 16777216 * r2' u3 + 4294967296 * r2' u4 + 1099511627776 * r2' u5 + 281474976710656 * r2' u6 + 72057594037927936 * r2' u7 := by
  have hm2 : (3689348814741910323 : Nat) = 51 + 256 * 51 + 65536 * 51 + 16777216 * 51 + 4294967296 * 51 + 1099511627776 * 51 + 281474976710656 * 51 + 72057594037927936 * 51 := by omega
  have s2a : (u0 + 256 * u1 + 65536 * u2 + 16777216 * u3 + 4294967296 * u4 + 1099511627776 * u5 + 281474976710656 * u6 + 72057594037927936 * u7) &&& 3689348814741910323
      = (u0 &&& 51) + 256 * (u1 &&& 51) + 65536 * (u2 &&& 51) + 16777216 * (u3 &&& 51) + 4294967296 * (u4 &&& 51) + 1099511627776 * (u5 &&& 51) + 281474976710656 * (u6 &&& 51) + 72057594037927936 * (u7 &&& 51) := by
    rw [hm2, and8 _ _ _ _ _ _ _ _ _ _ _ _ _ _ _ _ h0 h1 h2 h3 h4 h5 h6 h7 (by omega) (by omega) (by omega) (by omega) (by omega) (by omega) (by omega) (by omega)]
  have s2b : ((u0 + 256 * u1 + 65536 * u2 + 16777216 * u3 + 4294967296 * u4 + 1099511627776 * u5 + 281474976710656 * u6 + 72057594037927936 * u7) >>> 2) &&& 3689348814741910323
      = (u0 / 4 &&& 51) + 256 * (u1 / 4 &&& 51) + 65536 * (u2 / 4 &&& 51) + 16777216 * (u3 / 4 &&& 51) + 4294967296 * (u4 / 4 &&& 51) + 1099511627776 * (u5 / 4 &&& 51) + 281474976710656 * (u6 / 4 &&& 51) + 72057594037927936 * (u7 / 4 &&& 51) := by
    have hs : (u0 + 256 * u1 + 65536 * u2 + 16777216 * u3 + 4294967296 * u4 + 1099511627776 * u5 + 281474976710656 * u6 + 72057594037927936 * u7) >>> 2 = (u0 / 4 + 64 * (u1 % 4)) + 256 * (u1 / 4 + 64 * (u2 % 4)) + 65536 * (u2 / 4 + 64 * (u3 % 4)) + 16777216 * (u3 / 4 + 64 * (u4 % 4)) + 4294967296 * (u4 / 4 + 64 * (u5 % 4)) + 1099511627776 * (u5 / 4 + 64 * (u6 % 4)) + 281474976710656 * (u6 / 4 + 64 * (u7 % 4)) + 72057594037927936 * (u7 / 4 + 64 * 0) := by
      rw [Nat.shiftRight_eq_div_pow, show (2 : Nat) ^ 2 = 4 from rfl]; omega
    rw [hs, hm2, and8 _ _ _ _ _ _ _ _ _ _ _ _ _ _ _ _ (by omega) (by omega) (by omega) (by omega) (by omega) (by omega) (by omega) (by omega) (by omega) (by omega) (by omega) (by omega) (by omega) (by omega) (by omega) (by omega),
      lane2 u0 h0 (u1 % 4) (by omega), lane2 u1 h1 (u2 % 4) (by omega), lane2 u2 h2 (u3 % 4) (by omega), lane2 u3 h3 (u4 % 4) (by omega), lane2 u4 h4 (u5 % 4) (by omega), lane2 u5 h5 (u6 % 4) (by omega), lane2 u6 h6 (u7 % 4) (by omega), lane2 u7 h7 0 (by omega)]
  have f0 := r2'_lt u0 h0
  have f1 := r2'_lt u1 h1
  have f2 := r2'_lt u2 h2
  have f3 := r2'_lt u3 h3
  have f4 := r2'_lt u4 h4
  have f5 := r2'_lt u5 h5
  have f6 := r2'_lt u6 h6
  have f7 := r2'_lt u7 h7
  rw [s2a, s2b]; unfold r2' at *; omega

theorem hz64 (l0 g0 l1 g1 l2 g2 l3 g3 l4 g4 l5 g5 l6 g6 l7 g7 : Nat) (a0 : l0 ≤ 4) (a1 : l1 ≤ 4) (a2 : l2 ≤ 4) (a3 : l3 ≤ 4) (a4 : l4 ≤ 4) (a5 : l5 ≤ 4) (a6 : l6 ≤ 4) (a7 : l7 ≤ 4) (e0 : g0 ≤ 4) (e1 : g1 ≤ 4) (e2 : g2 ≤ 4) (e3 : g3 ≤ 4) (e4 : g4 ≤ 4) (e5 : g5 ≤ 4) (e6 : g6 ≤ 4) (e7 : g7 ≤ 4) :
    (((l0 + 16 * g0) + 256 * (l1 + 16 * g1) + 65536 * (l2 + 16 * g2) + 16777216 * (l3 + 16 * g3) + 4294967296 * (l4 + 16 * g4) + 1099511627776 * (l5 + 16 * g5) + 281474976710656 * (l6 + 16 * g6) + 72057594037927936 * (l7 + 16 * g7)) + (((l0 + 16 * g0) + 256 * (l1 + 16 * g1) + 65536 * (l2 + 16 * g2) + 16777216 * (l3 + 16 * g3) + 4294967296 * (l4 + 16 * g4) + 1099511627776 * (l5 + 16 * g5) + 281474976710656 * (l6 + 16 * g6) + 72057594037927936 * (l7 + 16 * g7)) >>> 4)) % 18446744073709551616
      = ((l0 + g0) + 16 * (g0 + l1)) + 256 * ((l1 + g1) + 16 * (g1 + l2)) + 65536 * ((l2 + g2) + 16 * (g2 + l3)) + 16777216 * ((l3 + g3) + 16 * (g3 + l4)) + 4294967296 * ((l4 + g4) + 16 * (g4 + l5)) + 1099511627776 * ((l5 + g5) + 16 * (g5 + l6)) + 281474976710656 * ((l6 + g6) + 16 * (g6 + l7)) + 72057594037927936 * ((l7 + g7) + 16 * g7) := by
  have a : ((l0 + 16 * g0) + 256 * (l1 + 16 * g1) + 65536 * (l2 + 16 * g2) + 16777216 * (l3 + 16 * g3) + 4294967296 * (l4 + 16 * g4) + 1099511627776 * (l5 + 16 * g5) + 281474976710656 * (l6 + 16 * g6) + 72057594037927936 * (l7 + 16 * g7)) / 16 = g0 + 16 * l1 + 256 * g1 + 4096 * l2 + 65536 * g2 + 1048576 * l3 + 16777216 * g3 + 268435456 * l4 + 4294967296 * g4 + 68719476736 * l5 + 1099511627776 * g5 + 17592186044416 * l6 + 281474976710656 * g6 + 4503599627370496 * l7 + 72057594037927936 * g7 := by omega
  rw [Nat.shiftRight_eq_div_pow, show (2 : Nat) ^ 4 = 16 from rfl, a]; clear a; omega

theorem st3n_64 (l0 g0 l1 g1 l2 g2 l3 g3 l4 g4 l5 g5 l6 g6 l7 g7 : Nat) (a0 : l0 ≤ 4) (a1 : l1 ≤ 4) (a2 : l2 ≤ 4) (a3 : l3 ≤ 4) (a4 : l4 ≤ 4) (a5 : l5 ≤ 4) (a6 : l6 ≤ 4) (a7 : l7 ≤ 4) (e0 : g0 ≤ 4) (e1 : g1 ≤ 4) (e2 : g2 ≤ 4) (e3 : g3 ≤ 4) (e4 : g4 ≤ 4) (e5 : g5 ≤ 4) (e6 : g6 ≤ 4) (e7 : g7 ≤ 4) :
    (((((l0 + 16 * g0) + 256 * (l1 + 16 * g1) + 65536 * (l2 + 16 * g2) + 16777216 * (l3 + 16 * g3) + 4294967296 * (l4 + 16 * g4) + 1099511627776 * (l5 + 16 * g5) + 281474976710656 * (l6 + 16 * g6) + 72057594037927936 * (l7 + 16 * g7)) + (((l0 + 16 * g0) + 256 * (l1 + 16 * g1) + 65536 * (l2 + 16 * g2) + 16777216 * (l3 + 16 * g3) + 4294967296 * (l4 + 16 * g4) + 1099511627776 * (l5 + 16 * g5) + 281474976710656 * (l6 + 16 * g6) + 72057594037927936 * (l7 + 16 * g7)) >>> 4)) % 18446744073709551616) &&& 1085102592571150095)
      = (l0 + g0) + 256 * (l1 + g1) + 65536 * (l2 + g2) + 16777216 * (l3 + g3) + 4294967296 * (l4 + g4) + 1099511627776 * (l5 + g5) + 281474976710656 * (l6 + g6) + 72057594037927936 * (l7 + g7) := by
  have m0 : ((l0 + g0) + 16 * (g0 + l1)) % 16 = l0 + g0 := by omega
  have m1 : ((l1 + g1) + 16 * (g1 + l2)) % 16 = l1 + g1 := by omega
  have m2 : ((l2 + g2) + 16 * (g2 + l3)) % 16 = l2 + g2 := by omega
  have m3 : ((l3 + g3) + 16 * (g3 + l4)) % 16 = l3 + g3 := by omega
  have m4 : ((l4 + g4) + 16 * (g4 + l5)) % 16 = l4 + g4 := by omega
  have m5 : ((l5 + g5) + 16 * (g5 + l6)) % 16 = l5 + g5 := by omega
  have m6 : ((l6 + g6) + 16 * (g6 + l7)) % 16 = l6 + g6 := by omega
  have m7 : ((l7 + g7) + 16 * g7) % 16 = l7 + g7 := by omega
  have z0 : ((l0 + g0) + 16 * (g0 + l1)) < 256 := by omega
  have z1 : ((l1 + g1) + 16 * (g1 + l2)) < 256 := by omega
  have z2 : ((l2 + g2) + 16 * (g2 + l3)) < 256 := by omega
  have z3 : ((l3 + g3) + 16 * (g3 + l4)) < 256 := by omega
  have z4 : ((l4 + g4) + 16 * (g4 + l5)) < 256 := by omega
  have z5 : ((l5 + g5) + 16 * (g5 + l6)) < 256 := by omega
  have z6 : ((l6 + g6) + 16 * (g6 + l7)) < 256 := by omega
  have z7 : ((l7 + g7) + 16 * g7) < 256 := by omega
  have hm3 : (1085102592571150095 : Nat) = 15 + 256 * 15 + 65536 * 15 + 16777216 * 15 + 4294967296 * 15 + 1099511627776 * 15 + 281474976710656 * 15 + 72057594037927936 * 15 := by omega
  rw [hz64 l0 g0 l1 g1 l2 g2 l3 g3 l4 g4 l5 g5 l6 g6 l7 g7 a0 a1 a2 a3 a4 a5 a6 a7 e0 e1 e2 e3 e4 e5 e6 e7, hm3, and8 _ _ _ _ _ _ _ _ _ _ _ _ _ _ _ _ z0 z1 z2 z3 z4 z5 z6 z7 (by decide) (by decide) (by decide) (by decide) (by decide) (by decide) (by decide) (by decide)]
  simp only [and15]
  rw [m0, m1, m2, m3, m4, m5, m6, m7]

theorem st3_64 (v0 v1 v2 v3 v4 v5 v6 v7 : Nat) (h0 : v0 % 16 ≤ 4 ∧ v0 / 16 ≤ 4) (h1 : v1 % 16 ≤ 4 ∧ v1 / 16 ≤ 4) (h2 : v2 % 16 ≤ 4 ∧ v2 / 16 ≤ 4) (h3 : v3 % 16 ≤ 4 ∧ v3 / 16 ≤ 4) (h4 : v4 % 16 ≤ 4 ∧ v4 / 16 ≤ 4) (h5 : v5 % 16 ≤ 4 ∧ v5 / 16 ≤ 4) (h6 : v6 % 16 ≤ 4 ∧ v6 / 16 ≤ 4) (h7 : v7 % 16 ≤ 4 ∧ v7 / 16 ≤ 4) :
    ((((v0 + 256 * v1 + 65536 * v2 + 16777216 * v3 + 4294967296 * v4 + 1099511627776 * v5 + 281474976710656 * v6 + 72057594037927936 * v7) + ((v0 + 256 * v1 + 65536 * v2 + 16777216 * v3 + 4294967296 * v4 + 1099511627776 * v5 + 281474976710656 * v6 + 72057594037927936 * v7) >>> 4)) % 18446744073709551616) &&& 1085102592571150095)
      = (v0 % 16 + v0 / 16) + 256 * (v1 % 16 + v1 / 16) + 65536 * (v2 % 16 + v2 / 16) + 16777216 * (v3 % 16 + v3 / 16) + 4294967296 * (v4 % 16 + v4 / 16) + 1099511627776 * (v5 % 16 + v5 / 16) + 281474976710656 * (v6 % 16 + v6 / 16) + 72057594037927936 * (v7 % 16 + v7 / 16) := by
  have := st3n_64 (v0 % 16) (v0 / 16) (v1 % 16) (v1 / 16) (v2 % 16) (v2 / 16) (v3 % 16) (v3 / 16) (v4 % 16) (v4 / 16) (v5 % 16) (v5 / 16) (v6 % 16) (v6 / 16) (v7 % 16) (v7 / 16)
    h0.1 h1.1 h2.1 h3.1 h4.1 h5.1 h6.1 h7.1 h0.2 h1.2 h2.2 h3.2 h4.2 h5.2 h6.2 h7.2
  rw [Nat.mod_add_div, Nat.mod_add_div, Nat.mod_add_div, Nat.mod_add_div, Nat.mod_add_div, Nat.mod_add_div, Nat.mod_add_div, Nat.mod_add_div] at this
  exact this

theorem fold64 (p0 p1 p2 p3 p4 p5 p6 p7 : Nat) (c0 : p0 ≤ 8) (c1 : p1 ≤ 8) (c2 : p2 ≤ 8) (c3 : p3 ≤ 8) (c4 : p4 ≤ 8) (c5 : p5 ≤ 8) (c6 : p6 ≤ 8) (c7 : p7 ≤ 8) :
    ((p0 + 256 * p1 + 65536 * p2 + 16777216 * p3 + 4294967296 * p4 + 1099511627776 * p5 + 281474976710656 * p6 + 72057594037927936 * p7) * 72340172838076673) % 18446744073709551616 / 72057594037927936 = p0 + p1 + p2 + p3 + p4 + p5 + p6 + p7 := by
  have e : (p0 + 256 * p1 + 65536 * p2 + 16777216 * p3 + 4294967296 * p4 + 1099511627776 * p5 + 281474976710656 * p6 + 72057594037927936 * p7) * 72340172838076673 = ((p0) + 256 * (p0 + p1) + 65536 * (p0 + p1 + p2) + 16777216 * (p0 + p1 + p2 + p3) + 4294967296 * (p0 + p1 + p2 + p3 + p4) + 1099511627776 * (p0 + p1 + p2 + p3 + p4 + p5) + 281474976710656 * (p0 + p1 + p2 + p3 + p4 + p5 + p6) + 72057594037927936 * (p0 + p1 + p2 + p3 + p4 + p5 + p6 + p7)) + 18446744073709551616 * ((p1 + p2 + p3 + p4 + p5 + p6 + p7) + 256 * (p2 + p3 + p4 + p5 + p6 + p7) + 65536 * (p3 + p4 + p5 + p6 + p7) + 16777216 * (p4 + p5 + p6 + p7) + 4294967296 * (p5 + p6 + p7) + 1099511627776 * (p6 + p7) + 281474976710656 * (p7)) := by omega
  have lt : (p0) + 256 * (p0 + p1) + 65536 * (p0 + p1 + p2) + 16777216 * (p0 + p1 + p2 + p3) + 4294967296 * (p0 + p1 + p2 + p3 + p4) + 1099511627776 * (p0 + p1 + p2 + p3 + p4 + p5) + 281474976710656 * (p0 + p1 + p2 + p3 + p4 + p5 + p6) + 72057594037927936 * (p0 + p1 + p2 + p3 + p4 + p5 + p6 + p7) < 18446744073709551616 := by omega
  rw [e, Nat.add_mul_mod_self_left, Nat.mod_eq_of_lt lt]
  have lt7 : (p0) + 256 * (p0 + p1) + 65536 * (p0 + p1 + p2) + 16777216 * (p0 + p1 + p2 + p3) + 4294967296 * (p0 + p1 + p2 + p3 + p4) + 1099511627776 * (p0 + p1 + p2 + p3 + p4 + p5) + 281474976710656 * (p0 + p1 + p2 + p3 + p4 + p5 + p6) < 72057594037927936 := by omega
  clear e lt
  have split : (p0) + 256 * (p0 + p1) + 65536 * (p0 + p1 + p2) + 16777216 * (p0 + p1 + p2 + p3) + 4294967296 * (p0 + p1 + p2 + p3 + p4) + 1099511627776 * (p0 + p1 + p2 + p3 + p4 + p5) + 281474976710656 * (p0 + p1 + p2 + p3 + p4 + p5 + p6) + 72057594037927936 * (p0 + p1 + p2 + p3 + p4 + p5 + p6 + p7) = ((p0) + 256 * (p0 + p1) + 65536 * (p0 + p1 + p2) + 16777216 * (p0 + p1 + p2 + p3) + 4294967296 * (p0 + p1 + p2 + p3 + p4) + 1099511627776 * (p0 + p1 + p2 + p3 + p4 + p5) + 281474976710656 * (p0 + p1 + p2 + p3 + p4 + p5 + p6)) + 72057594037927936 * (p0 + p1 + p2 + p3 + p4 + p5 + p6 + p7) := by omega
  rw [split, Nat.add_mul_div_left _ _ (by decide : 0 < 72057594037927936), Nat.div_eq_of_lt lt7, Nat.zero_add]

theorem popcount3_bytes (b0 b1 b2 b3 b4 b5 b6 b7 : Nat) (h0 : b0 < 256) (h1 : b1 < 256) (h2 : b2 < 256) (h3 : b3 < 256) (h4 : b4 < 256) (h5 : b5 < 256) (h6 : b6 < 256) (h7 : b7 < 256) :
    Gen.of_popcount_3 (b0 + 256 * b1 + 65536 * b2 + 16777216 * b3 + 4294967296 * b4 + 1099511627776 * b5 + 281474976710656 * b6 + 72057594037927936 * b7) = (((pc8 b0 + pc8 b1 + pc8 b2 + pc8 b3 + pc8 b4 + pc8 b5 + pc8 b6 + pc8 b7 : Nat)) : Int) := by
  obtain ⟨q0, n0, d0, p0⟩ := lane2' b0 h0
  obtain ⟨q1, n1, d1, p1⟩ := lane2' b1 h1
  obtain ⟨q2, n2, d2, p2⟩ := lane2' b2 h2
  obtain ⟨q3, n3, d3, p3⟩ := lane2' b3 h3
  obtain ⟨q4, n4, d4, p4⟩ := lane2' b4 h4
  obtain ⟨q5, n5, d5, p5⟩ := lane2' b5 h5
  obtain ⟨q6, n6, d6, p6⟩ := lane2' b6 h6
  obtain ⟨q7, n7, d7, p7⟩ := lane2' b7 h7
  have g0 : r2' (r1 b0) = r2 b0 := rfl
  have g1 : r2' (r1 b1) = r2 b1 := rfl
  have g2 : r2' (r1 b2) = r2 b2 := rfl
  have g3 : r2' (r1 b3) = r2 b3 := rfl
  have g4 : r2' (r1 b4) = r2 b4 := rfl
  have g5 : r2' (r1 b5) = r2 b5 := rfl
  have g6 : r2' (r1 b6) = r2 b6 := rfl
  have g7 : r2' (r1 b7) = r2 b7 := rfl
  unfold Gen.of_popcount_3
  simp only [st1_64 b0 b1 b2 b3 b4 b5 b6 b7 h0 h1 h2 h3 h4 h5 h6 h7, st2_64 _ _ _ _ _ _ _ _ q0 q1 q2 q3 q4 q5 q6 q7, g0, g1, g2, g3, g4, g5, g6, g7,
    st3_64 _ _ _ _ _ _ _ _ ⟨n0, d0⟩ ⟨n1, d1⟩ ⟨n2, d2⟩ ⟨n3, d3⟩ ⟨n4, d4⟩ ⟨n5, d5⟩ ⟨n6, d6⟩ ⟨n7, d7⟩, p0, p1, p2, p3, p4, p5, p6, p7]
  have c0 := pc8_le b0
  have c1 := pc8_le b1
  have c2 := pc8_le b2
  have c3 := pc8_le b3
  have c4 := pc8_le b4
  have c5 := pc8_le b5
  have c6 := pc8_le b6
  have c7 := pc8_le b7
  simp only [Nat.shiftRight_eq_div_pow, show (2 : Nat) ^ 56 = 72057594037927936 from rfl, fold64 _ _ _ _ _ _ _ _ c0 c1 c2 c3 c4 c5 c6 c7]
  unfold CSem.toSigned
  have : (pc8 b0 + pc8 b1 + pc8 b2 + pc8 b3 + pc8 b4 + pc8 b5 + pc8 b6 + pc8 b7) % 4294967296 = pc8 b0 + pc8 b1 + pc8 b2 + pc8 b3 + pc8 b4 + pc8 b5 + pc8 b6 + pc8 b7 := by omega
  rw [this]
  simp only [show (2 : Nat) ^ (32 - 1) = 2147483648 from rfl]
  rw [if_pos (by omega)]

theorem popcount3_eq (x : Nat) (hx : x < 18446744073709551616) : Gen.of_popcount_3 x = ((popcount64 x : Nat) : Int) := by
  rw [popcount64_bytes]
  have hxd : x = (x % 256) + 256 * (x / 256 % 256) + 65536 * (x / 65536 % 256) + 16777216 * (x / 16777216 % 256) + 4294967296 * (x / 4294967296 % 256) + 1099511627776 * (x / 1099511627776 % 256) + 281474976710656 * (x / 281474976710656 % 256) + 72057594037927936 * (x / 72057594037927936 % 256) := by omega
  have := popcount3_bytes (x % 256) (x / 256 % 256) (x / 65536 % 256) (x / 16777216 % 256) (x / 4294967296 % 256) (x / 1099511627776 % 256) (x / 281474976710656 % 256) (x / 72057594037927936 % 256)
    (by omega) (by omega) (by omega) (by omega) (by omega) (by omega) (by omega) (by omega)
  rw [← hxd] at this
  exact this


end Dense.Pop
