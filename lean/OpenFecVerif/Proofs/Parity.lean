import Mathlib.Algebra.BigOperators.Group.Finset.Basic
import Mathlib.Algebra.BigOperators.Ring.Finset
import Mathlib.Algebra.Group.Even
import Mathlib.Tactic.Ring
import Mathlib.Tactic.Abel
import OpenFecVerif.Model.Sym
/-!
Symbols as an elementary abelian 2-group; sums over equations and over columns (double counting).
-/
open Finset

/-- the operations record of a symbol group (binary codes: scaling is the identity) -/
def grpOps (V : Type) [AddCommGroup V] : Ops V := ⟨0, (· + ·), fun _ x => x⟩

namespace Parity
variable {V : Type} [AddCommGroup V] (h2 : ∀ v : V, v + v = 0)

include h2 in
theorem nsmul_char2 (c : ℕ) (v : V) : c • v = if c % 2 = 0 then 0 else v := by
  induction c using Nat.strong_induction_on with
  | _ c ih =>
    match c with
    | 0 => simp
    | 1 => simp [one_nsmul]
    | c+2 =>
      rw [add_nsmul, two_nsmul, h2, add_zero, ih c (by omega)]
      have : (c + 2) % 2 = c % 2 := by omega
      rw [this]

/-- number of equations containing symbol e -/
def colWeight (H : List (List ℕ)) (e : ℕ) : ℕ := (H.filter fun row => row.contains e).length

/-- sum over a duplicate-free row with entries < n = sum over all e < n with indicator -/
theorem row_sum_indicator (n : ℕ) (row : List ℕ) (hnd : row.Nodup) (hlt : ∀ e ∈ row, e < n) (cw : ℕ → V) :
    (row.map cw).sum = ∑ e ∈ range n, if row.contains e then cw e else 0 := by
  rw [← List.sum_toFinset _ hnd]
  rw [← Finset.sum_filter]
  apply Finset.sum_congr
  · ext e
    simp only [List.mem_toFinset, mem_filter, mem_range, List.contains_iff_mem]
    constructor
    · intro h; exact ⟨hlt e h, h⟩
    · intro h; exact h.2
  · intro _ _; rfl

/-- double counting: the sum of all equations is Σ_e weight(e) • cw e -/
theorem sum_rows_eq_sum_cols (n : ℕ) (H : List (List ℕ)) (hnd : ∀ row ∈ H, row.Nodup) (hlt : ∀ row ∈ H, ∀ e ∈ row, e < n)
    (cw : ℕ → V) :
    (H.map fun row => (row.map cw).sum).sum = ∑ e ∈ range n, colWeight H e • cw e := by
  induction H with
  | nil => simp [colWeight]
  | cons row t ih =>
    have ih' := ih (fun r hr => hnd r (by simp [hr])) (fun r hr => hlt r (by simp [hr]))
    simp only [List.map_cons, List.sum_cons]
    rw [ih', row_sum_indicator n row (hnd row (by simp)) (hlt row (by simp)) cw, ← Finset.sum_add_distrib]
    apply Finset.sum_congr rfl
    intro e _
    unfold colWeight
    by_cases hc : row.contains e = true
    · simp only [hc, if_true, List.filter_cons_of_pos, List.length_cons]
      rw [succ_nsmul]; exact add_comm _ _
    · have hc' : row.contains e = false := by simpa using hc
      have hnm : e ∉ row := by
        intro hm; rw [← List.contains_iff_mem] at hm; rw [hm] at hc'; cases hc'
      rw [List.filter_cons_of_neg (by simpa using hnm)]
      simp [hnm]

include h2 in
/-- If every equation sums to zero over `cw`, every symbol but the last belongs to an even number of
equations and the last one to an odd number, then the last symbol is zero. -/
theorem last_symbol_zero (n : ℕ) (hn : 0 < n) (H : List (List ℕ)) (hnd : ∀ row ∈ H, row.Nodup)
    (hlt : ∀ row ∈ H, ∀ e ∈ row, e < n) (cw : ℕ → V)
    (hpar : ∀ row ∈ H, (row.map cw).sum = 0)
    (heven : ∀ e, e < n - 1 → colWeight H e % 2 = 0) (hodd : colWeight H (n - 1) % 2 = 1) :
    cw (n - 1) = 0 := by
  have h0 : (H.map fun row => (row.map cw).sum).sum = 0 := by
    apply List.sum_eq_zero
    intro x hx
    simp only [List.mem_map] at hx
    obtain ⟨row, hr, rfl⟩ := hx
    exact hpar row hr
  rw [sum_rows_eq_sum_cols n H hnd hlt cw] at h0
  have hsplit : range n = insert (n - 1) (range (n - 1)) := by
    ext x; simp only [mem_range, mem_insert]; omega
  rw [hsplit, Finset.sum_insert (by simp)] at h0
  have hz : ∑ e ∈ range (n - 1), colWeight H e • cw e = 0 := by
    apply Finset.sum_eq_zero
    intro e he
    rw [nsmul_char2 h2, heven e (by simpa using he)]; simp
  rw [hz, add_zero, nsmul_char2 h2, hodd] at h0
  simpa using h0

end Parity
