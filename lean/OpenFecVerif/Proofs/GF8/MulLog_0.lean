import OpenFecVerif.Proofs.GF8.Defs
namespace GF8
open GF
/-- rows 0..63: a·b = exp((log a + log b) mod 255) for non-zero a, b -/
theorem mul_log_0 : allRange 0 64 (fun a => allLT 256 fun b => a == 0 || b == 0 || mul8 a b == E ((L a + L b) % 255)) = true := by
  decide +kernel
end GF8
