import OpenFecVerif.Proofs.GF8.Defs
import OpenFecVerif.Model.RS
namespace GF8
open GF
/-- a · a^254 = 1 for the non-zero a in 64 .. 127 -/
theorem inv_pow_1 : allRange 64 64 (fun a => a == 0 || mul8 a (RS.pow mul8 a 254) == 1) = true := by
  decide +kernel
end GF8
