import OpenFecVerif.Proofs.GF8.Field
import OpenFecVerif.Proofs.GF8.InvPow_0
import OpenFecVerif.Proofs.GF8.InvPow_1
import OpenFecVerif.Proofs.GF8.InvPow_2
import OpenFecVerif.Proofs.GF8.InvPow_3
import OpenFecVerif.Proofs.RSBridge
/-! The naturals below 256 with xor / `GF.mul8` / a^254 are a faithful copy of the field `GF256`
(`FieldModel GF256 RS.fld8`), and the evaluation points 0, 1, x, x², … of the first 255 symbols are distinct. -/
namespace GF8
open GF GF256

theorem ofNat_val {a : ℕ} (ha : a < 256) : (ofNat a).val.val = a := by
  simp [ofNat, Fin.ofNat, Nat.mod_eq_of_lt ha]

theorem pow_lt (a : ℕ) (ha : a < 256) : ∀ n, RS.pow mul8 a n < 256
  | 0 => by simp [RS.pow]
  | n+1 => by simp only [RS.pow]; exact mul8_lt _ ha

theorem inv_pow {a : ℕ} (ha : a < 256) (h0 : a ≠ 0) : mul8 a (RS.pow mul8 a 254) = 1 := by
  have key : (a == 0 || mul8 a (RS.pow mul8 a 254) == 1) = true := by
    by_cases c0 : a < 64
    · exact allRange_spec inv_pow_0 a (by omega) (by omega)
    by_cases c1 : a < 128
    · exact allRange_spec inv_pow_1 a (by omega) (by omega)
    by_cases c2 : a < 192
    · exact allRange_spec inv_pow_2 a (by omega) (by omega)
    · exact allRange_spec inv_pow_3 a (by omega) (by omega)
  simpa [h0] using key

theorem pow_zero_succ (n : ℕ) : RS.pow mul8 0 (n + 1) = 0 := by
  simp only [RS.pow]; exact (zero_mul8 (pow_lt 0 (by omega) n)).1

theorem pow_zero_254 : RS.pow mul8 0 254 = 0 := pow_zero_succ 253

theorem xpow8_lt : ∀ i, xpow8 i < 256
  | 0 => by simp [xpow8, xpow]
  | i+1 => by
    have := xpow8_lt i
    simp only [xpow8, xpow] at *
    exact xtime_lt' this

theorem xpow8_inj {i j : ℕ} (hi : i < 255) (hj : j < 255) (h : xpow8 i = xpow8 j) : i = j := by
  rw [← E_xpow' hi, ← E_xpow' hj] at h
  have := congrArg L h
  rwa [(L_E' hi).1, (L_E' hj).1] at this

theorem xpow8_ne_zero {i : ℕ} (hi : i < 255) : xpow8 i ≠ 0 := by
  rw [← E_xpow' hi]; exact (L_E' hi).2.1

theorem pt_lt (i : ℕ) : RS.pt RS.fld8 i < 256 := by
  unfold RS.pt; split
  · omega
  · exact xpow8_lt _

theorem pt_inj (i j : ℕ) (hi : i < 255) (hj : j < 255) (h : RS.pt RS.fld8 i = RS.pt RS.fld8 j) : i = j := by
  unfold RS.pt at h
  by_cases hi0 : i = 0 <;> by_cases hj0 : j = 0
  · omega
  · simp only [hi0, hj0, if_true, if_false] at h
    exact absurd h.symm (xpow8_ne_zero (i := j - 1) (by omega))
  · simp only [hi0, hj0, if_true, if_false] at h
    exact absurd h (xpow8_ne_zero (i := i - 1) (by omega))
  · simp only [hi0, hj0, if_false] at h
    have := xpow8_inj (i := i - 1) (j := j - 1) (by omega) (by omega) h
    omega

/-- the faithful copy -/
def model : FieldModel GF256 RS.fld8 where
  N := 256
  φ := ofNat
  φ_inj := by
    intro a b ha hb h
    have := congrArg (fun x : GF256 => x.val.val) h
    simpa [ofNat_val ha, ofNat_val hb] using this
  φ_zero := rfl
  φ_one := rfl
  φ_xor := by
    intro a b ha hb
    apply ext'
    rw [add_val, ofNat_val ha, ofNat_val hb, ofNat_val (xor_lt' ha hb)]
  φ_mul := by
    intro a b ha hb
    apply ext'
    show (ofNat (mul8 a b)).val.val = _
    rw [mul_val, ofNat_val ha, ofNat_val hb, ofNat_val (mul8_lt b ha)]
  φ_inv := by
    intro a ha
    show ofNat (RS.pow mul8 a 254) = (ofNat a)⁻¹
    by_cases h0 : a = 0
    · subst h0
      rw [pow_zero_254]
      show (0 : GF256) = (0 : GF256)⁻¹
      rw [inv_zero]
    · have hne : (ofNat a : GF256) ≠ 0 := by
        intro e
        have := congrArg (fun x : GF256 => x.val.val) e
        simp [ofNat_val ha] at this
        exact h0 this
      have hmul : (ofNat a : GF256) * ofNat (RS.pow mul8 a 254) = 1 := by
        apply ext'
        rw [mul_val, ofNat_val ha, ofNat_val (pow_lt a ha 254), inv_pow ha h0]; rfl
      exact eq_inv_of_mul_eq_one_right hmul
  xor_lt := fun a b ha hb => xor_lt' ha hb
  mul_lt := fun a b ha _ => mul8_lt b ha
  inv_lt := fun a ha => pow_lt a ha 254
  one_lt := by omega
  pt_lt := pt_lt
  pt_inj := fun i j hi hj h => pt_inj i j (by omega) (by omega) h

end GF8
