import OpenFecVerif.Proofs.GF8.Defs
/-! Kernel-checked one-variable facts about bit-level GF(2^8) arithmetic. -/
namespace GF8
open GF
theorem one_mul' : allLT 256 (fun a => mul8 1 a == a) = true := by decide +kernel
theorem zero_mul' : allLT 256 (fun a => mul8 0 a == 0 && mul8 a 0 == 0) = true := by decide +kernel
theorem E_L : allLT 256 (fun a => a == 0 || (decide (L a < 255) && E (L a) == a)) = true := by decide +kernel
theorem L_E : allLT 255 (fun i => L (E i) == i && E i != 0 && decide (E i < 256)) = true := by decide +kernel
theorem xtime_lt : allLT 256 (fun a => decide (xtime 8 poly8 a < 256)) = true := by decide +kernel
theorem E_xpow : allLT 255 (fun i => E i == xpow8 i) = true := by decide +kernel
theorem E0 : E 0 = 1 := by decide +kernel
end GF8
