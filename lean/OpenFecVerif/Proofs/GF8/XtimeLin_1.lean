import OpenFecVerif.Proofs.GF8.Defs
namespace GF8
open GF
theorem xtime_lin_1 : allRange 128 128 (fun a => allLT 256 fun b => xtime 8 poly8 (a ^^^ b) == xtime 8 poly8 a ^^^ xtime 8 poly8 b) = true := by
  decide +kernel
end GF8
