import Mathlib.Algebra.Field.MinimalAxioms
import OpenFecVerif.Proofs.GF8.Small
import OpenFecVerif.Proofs.GF8.MulLog_0
import OpenFecVerif.Proofs.GF8.MulLog_1
import OpenFecVerif.Proofs.GF8.MulLog_2
import OpenFecVerif.Proofs.GF8.MulLog_3
import OpenFecVerif.Proofs.GF8.XtimeLin_0
import OpenFecVerif.Proofs.GF8.XtimeLin_1
/-!
GF(2^8) = GF(2)[x]/(x^8+x^4+x^3+x^2+1) as a Mathlib `Field`, on a one-field structure over `Fin 256`,
with addition = xor and multiplication = the bit-level `GF.mul8`.
Commutativity, associativity and inverses come from the kernel-checked fact
`a·b = exp((log a + log b) mod 255)`; distributivity from the linearity of `xtime` by induction.
-/
namespace GF8
open GF

/-! ### finite facts in usable form -/
theorem mul_log {a b : ℕ} (ha : a < 256) (hb : b < 256) (ha0 : a ≠ 0) (hb0 : b ≠ 0) :
    mul8 a b = E ((L a + L b) % 255) := by
  have key : (a == 0 || b == 0 || mul8 a b == E ((L a + L b) % 255)) = true := by
    by_cases c0 : a < 64
    · exact allLT_spec (allRange_spec mul_log_0 a (by omega) (by omega)) b hb
    by_cases c1 : a < 128
    · exact allLT_spec (allRange_spec mul_log_1 a (by omega) (by omega)) b hb
    by_cases c2 : a < 192
    · exact allLT_spec (allRange_spec mul_log_2 a (by omega) (by omega)) b hb
    · exact allLT_spec (allRange_spec mul_log_3 a (by omega) (by omega)) b hb
  simpa [ha0, hb0] using key

theorem xtime_lin {a b : ℕ} (ha : a < 256) (hb : b < 256) :
    xtime 8 poly8 (a ^^^ b) = xtime 8 poly8 a ^^^ xtime 8 poly8 b := by
  have key : (xtime 8 poly8 (a ^^^ b) == xtime 8 poly8 a ^^^ xtime 8 poly8 b) = true := by
    by_cases c0 : a < 128
    · exact allLT_spec (allRange_spec xtime_lin_0 a (by omega) (by omega)) b hb
    · exact allLT_spec (allRange_spec xtime_lin_1 a (by omega) (by omega)) b hb
  simpa using key

theorem xtime_lt' {a : ℕ} (ha : a < 256) : xtime 8 poly8 a < 256 := by
  simpa using allLT_spec xtime_lt a ha

theorem one_mul8 {a : ℕ} (ha : a < 256) : mul8 1 a = a := by simpa using allLT_spec one_mul' a ha
theorem zero_mul8 {a : ℕ} (ha : a < 256) : mul8 0 a = 0 ∧ mul8 a 0 = 0 := by
  simpa using allLT_spec zero_mul' a ha
theorem E_L' {a : ℕ} (ha : a < 256) (h0 : a ≠ 0) : L a < 255 ∧ E (L a) = a := by
  simpa [h0] using allLT_spec E_L a ha
theorem L_E' {i : ℕ} (hi : i < 255) : L (E i) = i ∧ E i ≠ 0 ∧ E i < 256 := by
  have := allLT_spec L_E i hi
  simp only [Bool.and_eq_true, beq_iff_eq, bne_iff_ne, ne_eq, decide_eq_true_eq] at this
  exact ⟨this.1.1, this.1.2, this.2⟩
theorem E_xpow' {i : ℕ} (hi : i < 255) : E i = xpow8 i := by simpa using allLT_spec E_xpow i hi

theorem xor_lt' {a b : ℕ} (ha : a < 256) (hb : b < 256) : a ^^^ b < 256 :=
  Nat.xor_lt_two_pow (n := 8) ha hb

/-! ### general facts by induction -/
theorem mulGo_lt (n : ℕ) : ∀ a b, a < 256 → mulGo 8 poly8 n a b < 256 := by
  induction n with
  | zero => intro a b _; simp [mulGo]
  | succ n ih =>
    intro a b ha
    simp only [mulGo]
    apply xor_lt'
    · split <;> omega
    · exact ih _ _ (xtime_lt' ha)

theorem mul8_lt {a : ℕ} (b : ℕ) (ha : a < 256) : mul8 a b < 256 := mulGo_lt 8 a b ha

theorem mulGo_add_left (n : ℕ) : ∀ a a' b, a < 256 → a' < 256 →
    mulGo 8 poly8 n (a ^^^ a') b = mulGo 8 poly8 n a b ^^^ mulGo 8 poly8 n a' b := by
  induction n with
  | zero => intro a a' b _ _; simp [mulGo]
  | succ n ih =>
    intro a a' b ha ha'
    simp only [mulGo]
    rw [xtime_lin ha ha', ih _ _ _ (xtime_lt' ha) (xtime_lt' ha')]
    split
    · ac_rfl
    · simp

theorem mul8_add_left {a a' : ℕ} (b : ℕ) (ha : a < 256) (ha' : a' < 256) :
    mul8 (a ^^^ a') b = mul8 a b ^^^ mul8 a' b := mulGo_add_left 8 a a' b ha ha'

theorem mul8_comm {a b : ℕ} (ha : a < 256) (hb : b < 256) : mul8 a b = mul8 b a := by
  by_cases ha0 : a = 0
  · subst ha0; rw [(zero_mul8 hb).1, (zero_mul8 hb).2]
  by_cases hb0 : b = 0
  · subst hb0; rw [(zero_mul8 ha).1, (zero_mul8 ha).2]
  rw [mul_log ha hb ha0 hb0, mul_log hb ha hb0 ha0, Nat.add_comm]

theorem mul8_ne_zero {a b : ℕ} (ha : a < 256) (hb : b < 256) (ha0 : a ≠ 0) (hb0 : b ≠ 0) : mul8 a b ≠ 0 := by
  rw [mul_log ha hb ha0 hb0]
  exact (L_E' (Nat.mod_lt _ (by omega))).2.1

theorem mul8_assoc {a b c : ℕ} (ha : a < 256) (hb : b < 256) (hc : c < 256) :
    mul8 (mul8 a b) c = mul8 a (mul8 b c) := by
  by_cases ha0 : a = 0
  · subst ha0; rw [(zero_mul8 hb).1, (zero_mul8 hc).1, (zero_mul8 (mul8_lt c hb)).1]
  by_cases hb0 : b = 0
  · subst hb0; rw [(zero_mul8 ha).2, (zero_mul8 hc).1, (zero_mul8 ha).2]
  by_cases hc0 : c = 0
  · subst hc0; rw [(zero_mul8 (mul8_lt b ha)).2, (zero_mul8 hb).2, (zero_mul8 ha).2]
  have hab := mul8_ne_zero ha hb ha0 hb0
  have hbc := mul8_ne_zero hb hc hb0 hc0
  rw [mul_log (mul8_lt b ha) hc hab hc0, mul_log ha (mul8_lt c hb) ha0 hbc]
  rw [mul_log ha hb ha0 hb0, mul_log hb hc hb0 hc0]
  rw [(L_E' (Nat.mod_lt _ (by omega))).1, (L_E' (Nat.mod_lt _ (by omega))).1]
  congr 1
  omega

/-- inverse of a non-zero element through the log/exp tables -/
def inv8 (a : ℕ) : ℕ := if a = 0 then 0 else E ((255 - L a) % 255)

theorem inv8_lt (a : ℕ) : inv8 a < 256 := by
  unfold inv8; split
  · omega
  · exact (L_E' (Nat.mod_lt _ (by omega))).2.2

theorem mul8_inv8 {a : ℕ} (ha : a < 256) (h0 : a ≠ 0) : mul8 a (inv8 a) = 1 := by
  unfold inv8; simp only [h0, if_false]
  have hL := E_L' ha h0
  have hi := L_E' (i := (255 - L a) % 255) (Nat.mod_lt _ (by omega))
  rw [mul_log ha hi.2.2 h0 hi.2.1, hi.1]
  have : (L a + (255 - L a) % 255) % 255 = 0 := by omega
  rw [this]; exact E0

/-! ### the field -/
structure GF256 where
  val : Fin 256
deriving DecidableEq

namespace GF256
instance : Zero GF256 := ⟨⟨0⟩⟩
instance : One GF256 := ⟨⟨1⟩⟩
instance : Add GF256 := ⟨fun a b => ⟨⟨a.val.val ^^^ b.val.val, xor_lt' a.val.isLt b.val.isLt⟩⟩⟩
instance : Neg GF256 := ⟨fun a => a⟩
instance : Mul GF256 := ⟨fun a b => ⟨⟨mul8 a.val.val b.val.val, mul8_lt _ a.val.isLt⟩⟩⟩
instance : Inv GF256 := ⟨fun a => ⟨⟨inv8 a.val.val, inv8_lt _⟩⟩⟩

/-- embedding of the naturals below 256 -/
def ofNat (n : ℕ) : GF256 := ⟨Fin.ofNat 256 n⟩

theorem ext' {a b : GF256} (h : a.val.val = b.val.val) : a = b := by
  cases a; cases b; simp only [mk.injEq]; exact Fin.ext h

@[simp] theorem add_val (a b : GF256) : (a + b).val.val = a.val.val ^^^ b.val.val := rfl
@[simp] theorem mul_val (a b : GF256) : (a * b).val.val = mul8 a.val.val b.val.val := rfl
@[simp] theorem inv_val (a : GF256) : (a⁻¹).val.val = inv8 a.val.val := rfl
@[simp] theorem zero_val : (0 : GF256).val.val = 0 := rfl
@[simp] theorem one_val : (1 : GF256).val.val = 1 := rfl
@[simp] theorem neg_eq (a : GF256) : -a = a := rfl

instance : Field GF256 := Field.ofMinimalAxioms GF256
  (fun a b c => ext' (by simp [Nat.xor_assoc]))
  (fun a => ext' (by simp))
  (fun a => ext' (by simp))
  (fun a b c => ext' (by simpa using mul8_assoc a.val.isLt b.val.isLt c.val.isLt))
  (fun a b => ext' (by simpa using mul8_comm a.val.isLt b.val.isLt))
  (fun a => ext' (by simpa using one_mul8 a.val.isLt))
  (fun a h => ext' (by
    have h0 : a.val.val ≠ 0 := fun e => h (ext' (by simpa using e))
    simpa using mul8_inv8 a.val.isLt h0))
  (ext' (by simp [inv8]))
  (fun a b c => ext' (by
    simp only [mul_val, add_val]
    rw [mul8_comm a.val.isLt (xor_lt' b.val.isLt c.val.isLt), mul8_add_left _ b.val.isLt c.val.isLt,
        mul8_comm b.val.isLt a.val.isLt, mul8_comm c.val.isLt a.val.isLt]))
  ⟨0, 1, by decide⟩

end GF256
end GF8
