import OpenFecVerif.Proofs.GF8.Defs
namespace GF8
open GF
/-- rows 128..191: a·b = exp((log a + log b) mod 255) for non-zero a, b -/
theorem mul_log_2 : allRange 128 64 (fun a => allLT 256 fun b => a == 0 || b == 0 || mul8 a b == E ((L a + L b) % 255)) = true := by
  decide +kernel
end GF8
