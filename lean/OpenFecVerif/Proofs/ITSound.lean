import OpenFecVerif.Proofs.ITExec
import OpenFecVerif.Proofs.GaussSound
/-!
# Value-level soundness of the iterative (peeling) decoder

`sent : Nat → σ` is the transmitted block (ESI ↦ symbol).  If every parity equation sums to zero on it and the decoder
is only ever given true values (`v = sent esi`), then every symbol value the decoder stores — received or rebuilt from a
partial sum — is the transmitted one.  Invariant: every stored value is true; every remaining equation row has no
repeated entry; and whenever a row still has entries, its partial sum (zero if none has been started) is the sum of the
transmitted values of exactly those entries.
-/
namespace ITSound
open IT Gauss

variable {σ : Type}

/-- sum of the transmitted values of the listed symbols -/
def S (O : Ops σ) (sent : Nat → σ) (row : List Nat) : σ := row.foldl (fun c e => O.add c (sent e)) O.zero

theorem foldl_add_init {O : Ops σ} (hO : Lawful O) (sent : Nat → σ) (row : List Nat) (c : σ) :
    row.foldl (fun c e => O.add c (sent e)) c = O.add c (S O sent row) := by
  unfold S
  induction row generalizing c with
  | nil => simp [hO.add_zero]
  | cons e t ih =>
    simp only [List.foldl_cons]
    rw [ih (O.add c (sent e)), ih (O.add O.zero (sent e)), hO.zero_add, hO.add_assoc]

theorem S_nil (O : Ops σ) (sent : Nat → σ) : S O sent [] = O.zero := rfl

theorem S_cons {O : Ops σ} (hO : Lawful O) (sent : Nat → σ) (e : Nat) (t : List Nat) :
    S O sent (e :: t) = O.add (sent e) (S O sent t) := by
  show (e :: t).foldl _ O.zero = _
  simp only [List.foldl_cons]
  rw [foldl_add_init hO, hO.zero_add]

/-- splitting a sum by a predicate -/
theorem S_split {O : Ops σ} (hO : Lawful O) (sent : Nat → σ) (p : Nat → Bool) (row : List Nat) :
    S O sent row = O.add (S O sent (row.filter p)) (S O sent (row.filter fun e => !p e)) := by
  induction row with
  | nil => simp [S_nil, hO.add_zero]
  | cons e t ih =>
    rw [S_cons hO, ih]
    by_cases hp : p e = true
    · simp only [List.filter_cons, hp, if_true, Bool.not_true, Bool.false_eq_true, if_false]
      rw [S_cons hO, hO.add_assoc]
    · have hp' : p e = false := by simpa using hp
      simp only [List.filter_cons, hp', Bool.false_eq_true, if_false, Bool.not_false, if_true]
      rw [S_cons hO, ← hO.add_assoc, hO.add_comm (sent e), hO.add_assoc]

theorem filter_eq_singleton {row : List Nat} (hnd : row.Nodup) {esi : Nat} (hm : esi ∈ row) :
    row.filter (fun e => !(e != esi)) = [esi] := by
  induction row with
  | nil => cases hm
  | cons a t ih =>
    have hnd' := List.nodup_cons.mp hnd
    by_cases ha : a = esi
    · subst ha
      have : t.filter (fun e => !(e != a)) = [] := by
        rw [List.filter_eq_nil_iff]
        intro x hx
        have : x ≠ a := fun h => hnd'.1 (h ▸ hx)
        simp [this]
      simp [List.filter_cons, this]
    · have hm' : esi ∈ t := by
        cases hm with
        | head => exact absurd rfl ha
        | tail _ h => exact h
      simp [List.filter_cons, ha, ih hnd'.2 hm']

/-- removing a (non-repeated) member from a sum -/
theorem S_remove {O : Ops σ} (hO : Lawful O) (sent : Nat → σ) {row : List Nat} (hnd : row.Nodup) {esi : Nat} (hm : esi ∈ row) :
    S O sent row = O.add (S O sent (row.filter fun e => e != esi)) (sent esi) := by
  rw [S_split hO sent (fun e => e != esi) row, filter_eq_singleton hnd hm, S_cons hO, S_nil, hO.add_zero]

/-- the loop that folds the already known members of a row into its partial sum -/
theorem fold_known {O : Ops σ} (hO : Lawful O) (sent : Nat → σ) (sym : Nat → Option σ)
    (hs : ∀ e v, sym e = some v → v = sent e) (g : σ → Nat → σ)
    (hg : ∀ c e, g c e = (match sym e with | some x => O.add c x | none => c)) (row : List Nat) (c : σ) :
    row.foldl g c = O.add c (S O sent (row.filter fun e => (sym e).isSome)) := by
  induction row generalizing c with
  | nil => simp [S_nil, hO.add_zero]
  | cons e t ih =>
    simp only [List.foldl_cons]
    rw [ih, hg]
    cases h : sym e with
    | none => simp [h]
    | some x =>
      have hx := hs e x h
      simp only [List.filter_cons, h, Option.isSome_some, if_true]
      rw [S_cons hO, hx, hO.add_assoc]

/-- step 2 on one equation keeps the row invariant -/
theorem rowStep_sound {O : Ops σ} (hO : Lawful O) (sent : Nat → σ) (sym : Nat → Option σ)
    (hs : ∀ e v, sym e = some v → v = sent e) (esi : Nat) (row : List Nat) (ct : Option σ) (nbu : Nat)
    (hnd : row.Nodup) (hrow : row ≠ [] → ct.getD O.zero = S O sent row) :
    (IT.rowStep O sym esi (sent esi) row ct nbu).1.Nodup ∧
    ((IT.rowStep O sym esi (sent esi) row ct nbu).1 ≠ [] →
      (IT.rowStep O sym esi (sent esi) row ct nbu).2.1.getD O.zero = S O sent (IT.rowStep O sym esi (sent esi) row ct nbu).1) := by
  unfold IT.rowStep
  by_cases hmem : esi ∈ row
  · have hc : row.contains esi = true := by simpa using hmem
    have hne : row ≠ [] := fun h => by rw [h] at hmem; cases hmem
    simp only [hc, if_true]
    by_cases harm : (ct.isSome || (nbu - 1 == 1)) = true
    · simp only [harm, if_true]
      refine ⟨(hnd.filter _).filter _, ?_⟩
      intro hne2
      simp only [Option.getD_some]
      refine (fold_known hO sent sym hs _ ?hg _ _).trans ?_
      case hg => intros; rfl
      -- the partial sum before folding equals the sum over the row without esi
      have hlen : row.length > 1 := by
        by_cases hl : row.length > 1
        · exact hl
        exfalso
        have : row = [esi] := by
          cases row with
          | nil => cases hmem
          | cons a t =>
            cases t with
            | nil => simp at hmem; rw [hmem]
            | cons b t2 => simp at hl
        rw [this] at hne2
        simp at hne2
      simp only [hlen, if_true]
      rw [hrow hne, S_remove hO sent hnd hmem, hO.add_cancel]
      rw [S_split hO sent (fun e => (sym e).isSome) (row.filter fun e => e != esi)]
      rw [hO.add_comm (S O sent _) (S O sent _), hO.add_cancel]
      congr 1
      apply List.filter_congr
      intro e _
      cases sym e <;> rfl
    · have : (ct.isSome || (nbu - 1 == 1)) = false := by simpa using harm
      simp only [this, Bool.false_eq_true, if_false]
      refine ⟨hnd, ?_⟩
      intro _
      have hct : ct = none := by
        cases ct with
        | none => rfl
        | some x => simp at this
      have := hrow hne
      rw [hct] at this
      simpa using this
  · have hc : row.contains esi = false := by simpa using hmem
    simp only [hc, Bool.false_eq_true, if_false]
    exact ⟨hnd, hrow⟩

/-- the invariant -/
structure VInv (O : Ops σ) (sent : Nat → σ) (s : IT.St σ) : Prop where
  sym_ok : ∀ e v, s.sym.get e = some v → v = sent e
  row_nodup : ∀ r, (s.rows.get r).Nodup
  row_ok : ∀ r, s.rows.get r ≠ [] → (s.cterm.get r).getD O.zero = S O sent (s.rows.get r)

theorem injectRow_sound {O : Ops σ} (hO : Lawful O) (sent : Nat → σ) (s : IT.St σ) (esi r : Nat)
    (inv : VInv O sent s) : VInv O sent (IT.injectRow O s esi (sent esi) r).1 := by
  obtain ⟨h1, h2⟩ := rowStep_sound hO sent s.sym.get inv.sym_ok esi (s.rows.get r) (s.cterm.get r) (s.nbu.get r)
    (inv.row_nodup r) (inv.row_ok r)
  refine ⟨inv.sym_ok, ?_, ?_⟩
  · intro x
    simp only [IT.injectRow, TMap.get_set]
    by_cases hx : x = r
    · simp only [hx, if_true]; exact h1
    · simp only [hx, if_false]; exact inv.row_nodup x
  · intro x
    simp only [IT.injectRow, TMap.get_set]
    by_cases hx : x = r
    · simp only [hx, if_true]; exact h2
    · simp only [hx, if_false]; exact inv.row_ok x

theorem inject_sound {O : Ops σ} (hO : Lawful O) (sent : Nat → σ) (s : IT.St σ) (esi : Nat)
    (inv : VInv O sent s) (R : Nat) : VInv O sent (IT.inject O s esi (sent esi) R).1 := by
  induction R with
  | zero => exact inv
  | succ R ih =>
    simp only [IT.inject]
    exact injectRow_sound hO sent _ esi R ih

theorem consume_sound {O : Ops σ} (sent : Nat → σ) (s : IT.St σ) (r : Nat) (inv : VInv O sent s) :
    VInv O sent (s.consume r) := by
  refine ⟨inv.sym_ok, ?_, ?_⟩
  · intro x
    simp only [IT.St.consume, TMap.get_set]
    by_cases hx : x = r
    · simp [hx]
    · simp only [hx, if_false]; exact inv.row_nodup x
  · intro x
    simp only [IT.St.consume, TMap.get_set]
    by_cases hx : x = r
    · simp [hx]
    · simp only [hx, if_false]; exact inv.row_ok x

def PA (O : Ops σ) (sent : Nat → σ) (fuel : Nat) : Prop :=
  ∀ (s : IT.St σ) esi, VInv O sent s → VInv O sent (IT.decode O fuel s esi (sent esi))
def PB (O : Ops σ) (sent : Nat → σ) (fuel : Nat) : Prop :=
  ∀ l (s : IT.St σ), VInv O sent s → VInv O sent (IT.drain O fuel s l)

theorem PB_of_PA {O : Ops σ} (hO : Lawful O) (sent : Nat → σ) (fuel : Nat) (hA : PA O sent fuel) : PB O sent fuel := by
  intro l
  induction l with
  | nil => intro s inv; rw [ITRefine.drain_nil]; exact inv
  | cons r rest ih =>
    intro s inv
    rw [ITRefine.drain_cons]
    by_cases hc : s.complete = true
    · simp [hc]; exact inv
    · simp only [hc, Bool.false_eq_true, if_false]
      cases hr : s.rows.get r with
      | nil => simp only []; exact ih s inv
      | cons e t =>
        cases t with
        | cons e2 t2 => simp only []; exact ih s inv
        | nil =>
          simp only []
          have hval : (s.cterm.get r).getD O.zero = sent e := by
            have := inv.row_ok r (by rw [hr]; simp)
            rw [this, hr, S_cons hO, S_nil, hO.add_zero]
          rw [hval]
          apply ih
          apply hA
          have hcons := consume_sound sent s r inv
          split
          · exact hcons
          · exact ⟨hcons.sym_ok, hcons.row_nodup, hcons.row_ok⟩

theorem PA_succ {O : Ops σ} (hO : Lawful O) (sent : Nat → σ) (fuel : Nat) (hB : PB O sent fuel) : PA O sent (fuel+1) := by
  intro s esi inv
  rw [ITRefine.decode_succ]
  by_cases hk : s.known esi = true
  · simp [hk]; exact inv
  · simp only [hk, Bool.false_eq_true, if_false]
    have inv1 : VInv O sent ({ s with sym := s.sym.set esi (some (sent esi)) } : IT.St σ) := by
      refine ⟨?_, inv.row_nodup, inv.row_ok⟩
      intro e v
      simp only [TMap.get_set]
      by_cases he : e = esi
      · simp only [he, if_true]; intro h; cases h; rfl
      · simp only [he, if_false]; exact inv.sym_ok e v
    split
    · exact inv1
    · exact hB _ _ (inject_sound hO sent _ esi inv1 s.m)

theorem PA_all {O : Ops σ} (hO : Lawful O) (sent : Nat → σ) : ∀ fuel, PA O sent fuel
  | 0 => by intro s esi inv; rw [ITRefine.decode_zero]; exact inv
  | fuel+1 => PA_succ hO sent fuel (PB_of_PA hO sent fuel (PA_all hO sent fuel))

/-- the initial state satisfies the invariant when every equation has no repeated entry and sums to zero on the block -/
theorem init_sound {O : Ops σ} (sent : Nat → σ) (k : Nat) (Hl : List (List Nat))
    (hnd : ∀ row ∈ Hl, row.Nodup) (hcw : ∀ row ∈ Hl, S O sent row = O.zero) : VInv O sent (IT.init k Hl : IT.St σ) := by
  refine ⟨?_, ?_, ?_⟩
  · intro e v h
    simp [IT.init, ITRefine.mk'_get] at h
  · intro r
    simp only [IT.init, ITRefine.ofList_get, List.getD_eq_getElem?_getD]
    cases h : Hl[r]? with
    | none => simp
    | some row => simp only [Option.getD_some]; exact hnd row (List.mem_of_getElem? h)
  · intro r hne
    simp only [IT.init, ITRefine.ofList_get, ITRefine.mk'_get, List.getD_eq_getElem?_getD, Option.getD_none] at hne ⊢
    cases h : Hl[r]? with
    | none => simp [h] at hne
    | some row => simp only [Option.getD_some]; exact (hcw row (List.mem_of_getElem? h)).symm

/-- **Soundness of streaming decoding.**  Whatever sequence of true symbols is submitted, every value the decoder holds
(received or rebuilt) is the transmitted one. -/
theorem run_sound {O : Ops σ} (hO : Lawful O) (sent : Nat → σ) (n k : Nat) (Hl : List (List Nat))
    (hnd : ∀ row ∈ Hl, row.Nodup) (hcw : ∀ row ∈ Hl, S O sent row = O.zero) (l : List Nat) :
    VInv O sent (ITRefine.runExec O n k Hl (l.map fun e => (e, sent e))) := by
  unfold ITRefine.runExec
  have h0 := init_sound (O := O) sent k Hl hnd hcw
  generalize IT.init k Hl = s0 at h0
  induction l generalizing s0 with
  | nil => exact h0
  | cons a t ih =>
    simp only [List.map_cons, List.foldl_cons]
    apply ih
    exact PA_all hO sent (n + 1) s0 a h0

end ITSound
