import OpenFecVerif.Proofs.Blocking
/-!
The last output of `of_compute_blocking_struct`: I = T mod N, under the binary64 standard model.
`A = rn(T/N)`, `A_fraction = rn(A − ⌊A⌋)`, `I = closest_int(rn(A_fraction · N))`.  Every rounding has relative error
≤ 2^-53 and T, N < 2^32, so the computed product is within 2^-19 of the integer T − ⌊T/N⌋·N, and the closest-integer
routine (which compares two rounded differences, one ≤ 1/4·(1+2^-53), the other ≥ 3/4·(1−2^-53)) returns it.
-/
open Gen
namespace BlockingProofs

theorem rabs_eq (x : ℚ) : CSem.rabs x = |x| := by
  unfold CSem.rabs
  split
  · rename_i h; rw [abs_of_neg h]
  · rename_i h; rw [abs_of_nonneg (not_lt.mp h)]

theorem abs_rn_le {rn : ℚ → ℚ} (h : RN53 rn) (x : ℚ) : |rn x| ≤ |x| * (1 + 1 / 2 ^ 53) := by
  have h1 := h.relerr x
  have h2 : |rn x| ≤ |rn x - x| + |x| := by
    have := abs_add_le (rn x - x) x
    simpa using this
  have : |x| * (1 + 1 / 2 ^ 53) = |x| + |x| / 2 ^ 53 := by ring
  rw [this]; linarith

theorem abs_rn_ge {rn : ℚ → ℚ} (h : RN53 rn) (x : ℚ) : |x| * (1 - 1 / 2 ^ 53) ≤ |rn x| := by
  have h1 := h.relerr x
  have h2 : |x| ≤ |x - rn x| + |rn x| := by
    have := abs_add_le (x - rn x) (rn x)
    simpa using this
  have h3 : |x - rn x| = |rn x - x| := abs_sub_comm _ _
  have : |x| * (1 - 1 / 2 ^ 53) = |x| - |x| / 2 ^ 53 := by ring
  rw [this]; linarith

/-- a small argument stays below 1/2 after rounding, a large one stays above -/
theorem small_rn {rn : ℚ → ℚ} (h : RN53 rn) (x : ℚ) (hx : |x| ≤ 1 / 4) : |rn x| < 1 / 2 := by
  have := abs_rn_le h x
  have h2 : |x| * (1 + 1 / 2 ^ 53) ≤ 1 / 4 * (1 + 1 / 2 ^ 53) := by
    apply mul_le_mul_of_nonneg_right hx; norm_num
  have h3 : (1 : ℚ) / 4 * (1 + 1 / 2 ^ 53) < 1 / 2 := by norm_num
  linarith

theorem large_rn {rn : ℚ → ℚ} (h : RN53 rn) (x : ℚ) (hx : 3 / 4 ≤ |x|) : 1 / 2 < |rn x| := by
  have := abs_rn_ge h x
  have h2 : (3 : ℚ) / 4 * (1 - 1 / 2 ^ 53) ≤ |x| * (1 - 1 / 2 ^ 53) := by
    apply mul_le_mul_of_nonneg_right hx; norm_num
  have h3 : (1 : ℚ) / 2 < 3 / 4 * (1 - 1 / 2 ^ 53) := by norm_num
  linarith

/-- `double_to_closest_int` returns the integer r whenever its argument is within 1/4 of r -/
theorem closest_int_spec (rn : ℚ → ℚ) (h : RN53 rn) (v : ℚ) (r : ℕ) (hr : r < 2 ^ 32) (hv : |v - (r : ℚ)| ≤ 1 / 4) :
    double_to_closest_int rn v = r := by
  have hb := abs_le.mp hv
  unfold double_to_closest_int
  simp only [rabs_eq, FP.ceil_eq, FP.floor_eq]
  rcases lt_trichotomy v (r : ℚ) with hlt | heq | hgt
  · -- v slightly below r: ceil = r, floor = r - 1
    have hceil : ⌈v⌉ = (r : ℤ) := by
      rw [Int.ceil_eq_iff]; constructor
      · push_cast; linarith
      · push_cast; linarith
    have hfloor : ⌊v⌋ = (r : ℤ) - 1 := by
      rw [Int.floor_eq_iff]; constructor
      · push_cast; linarith
      · push_cast; linarith
    rw [hceil, hfloor]
    have d1 : |rn (v - ((r : ℤ) : ℚ))| < 1 / 2 := small_rn h _ (by push_cast; exact hv)
    have d2 : 1 / 2 < |rn (v - (((r : ℤ) - 1 : ℤ) : ℚ))| := by
      apply large_rn h
      push_cast
      rw [abs_of_nonneg (by linarith)]; linarith
    rw [if_pos (lt_trans d1 d2)]
    exact f2u_nat 32 r hr
  · -- v = r
    subst heq
    have hceil : ⌈((r : ℕ) : ℚ)⌉ = (r : ℤ) := by exact_mod_cast Int.ceil_natCast r
    have hfloor : ⌊((r : ℕ) : ℚ)⌋ = (r : ℤ) := by exact_mod_cast Int.floor_natCast r
    rw [hceil, hfloor, if_neg (lt_irrefl _)]
    exact f2u_nat 32 r hr
  · -- v slightly above r: floor = r, ceil = r + 1
    have hceil : ⌈v⌉ = (r : ℤ) + 1 := by
      rw [Int.ceil_eq_iff]; constructor
      · push_cast; linarith
      · push_cast; linarith
    have hfloor : ⌊v⌋ = (r : ℤ) := by
      rw [Int.floor_eq_iff]; constructor
      · push_cast; linarith
      · push_cast; linarith
    rw [hceil, hfloor]
    have d2 : |rn (v - ((r : ℤ) : ℚ))| < 1 / 2 := small_rn h _ (by push_cast; exact hv)
    have d1 : 1 / 2 < |rn (v - (((r : ℤ) + 1 : ℤ) : ℚ))| := by
      apply large_rn h
      push_cast
      rw [abs_of_nonpos (by linarith)]; linarith
    rw [if_neg (not_lt.mpr (le_of_lt (lt_trans d2 d1)))]
    exact f2u_nat 32 r hr

/-- the product `rn(rn(A − ⌊T/N⌋) · N)` with `A = rn(T/N)` is within 1/4 (in fact 2^-18) of T mod N -/
theorem frac_times_N (rn : ℚ → ℚ) (h : RN53 rn) (T N : ℕ) (hN1 : 1 ≤ N) (hT : T < 2 ^ 32) (hNT : N ≤ T) :
    |rn (rn (rn ((T : ℚ) / (N : ℚ)) - ((T / N : ℕ) : ℚ)) * (N : ℚ)) - ((T % N : ℕ) : ℚ)| ≤ 1 / 4 := by
  obtain ⟨q, hq⟩ : ∃ q, q = T / N := ⟨_, rfl⟩
  obtain ⟨r, hr⟩ : ∃ r, r = T % N := ⟨_, rfl⟩
  rw [← hq, ← hr]
  have hdm : N * q + r = T := by rw [hq, hr]; exact Nat.div_add_mod T N
  have hrN : r < N := by rw [hr]; exact Nat.mod_lt _ (by omega)
  have hNq : (0 : ℚ) < (N : ℚ) := by exact_mod_cast hN1
  have hN32 : (N : ℚ) ≤ 2 ^ 32 := by
    have : N < 2 ^ 32 := by omega
    exact_mod_cast this.le
  have hT32 : (T : ℚ) ≤ 2 ^ 32 := by exact_mod_cast hT.le
  have hTq : (T : ℚ) = (N : ℚ) * (q : ℚ) + (r : ℚ) := by exact_mod_cast hdm.symm
  have hr0 : (0 : ℚ) ≤ (r : ℚ) := by positivity
  have hrlt : (r : ℚ) < (N : ℚ) := by exact_mod_cast hrN
  -- exact quotient
  obtain ⟨a, ha⟩ : ∃ a : ℚ, a = (T : ℚ) / (N : ℚ) := ⟨_, rfl⟩
  have haN : a * (N : ℚ) = (T : ℚ) := by rw [ha]; field_simp
  have ha0 : 0 ≤ a := by rw [ha]; positivity
  have haT : a ≤ (T : ℚ) := by
    rw [ha]; apply div_le_self (by positivity); exact_mod_cast hN1
  have hfrac : a - (q : ℚ) = (r : ℚ) / (N : ℚ) := by
    rw [ha, hTq]; field_simp; ring
  have hfrac0 : 0 ≤ a - (q : ℚ) := by rw [hfrac]; positivity
  have hfrac1 : a - (q : ℚ) < 1 := by rw [hfrac, div_lt_one hNq]; exact hrlt
  rw [← ha]
  -- first rounding
  obtain ⟨A, hA⟩ : ∃ A, A = rn a := ⟨_, rfl⟩
  rw [← hA]
  have e1 : |A - a| ≤ a / 2 ^ 53 := by rw [hA]; have := h.relerr a; rwa [abs_of_nonneg ha0] at this
  have e1' : |A - a| ≤ 2 ^ 32 / 2 ^ 53 := by
    have : a / 2 ^ 53 ≤ 2 ^ 32 / 2 ^ 53 := by apply div_le_div_of_nonneg_right (by linarith) (by positivity)
    linarith
  have e1N : |A - a| * (N : ℚ) ≤ 2 ^ 32 / 2 ^ 53 := by
    have : |A - a| * (N : ℚ) ≤ a / 2 ^ 53 * (N : ℚ) := mul_le_mul_of_nonneg_right e1 hNq.le
    have h2 : a / 2 ^ 53 * (N : ℚ) = (T : ℚ) / 2 ^ 53 := by rw [← haN]; ring
    have h3 : (T : ℚ) / 2 ^ 53 ≤ 2 ^ 32 / 2 ^ 53 := by apply div_le_div_of_nonneg_right hT32 (by positivity)
    linarith
  -- second rounding
  obtain ⟨x, hx⟩ : ∃ x, x = A - (q : ℚ) := ⟨_, rfl⟩
  rw [← hx]
  have hxabs : |x| ≤ 2 := by
    have b := abs_le.mp e1'
    rw [hx, abs_le]
    constructor
    · have : (2 : ℚ) ^ 32 / 2 ^ 53 ≤ 1 := by norm_num
      linarith
    · have : (2 : ℚ) ^ 32 / 2 ^ 53 ≤ 1 := by norm_num
      linarith
  obtain ⟨F, hF⟩ : ∃ F, F = rn x := ⟨_, rfl⟩
  rw [← hF]
  have e2 : |F - x| ≤ 2 / 2 ^ 53 := by
    rw [hF]
    have := h.relerr x
    have h2 : |x| / 2 ^ 53 ≤ 2 / 2 ^ 53 := by apply div_le_div_of_nonneg_right hxabs (by positivity)
    linarith
  have hFabs : |F| ≤ 3 := by
    have : |F| ≤ |F - x| + |x| := by have := abs_add_le (F - x) x; simpa using this
    have h2 : (2 : ℚ) / 2 ^ 53 ≤ 1 := by norm_num
    linarith
  have e2N : |F - x| * (N : ℚ) ≤ 2 * (2 ^ 32 / 2 ^ 53) := by
    have : |F - x| * (N : ℚ) ≤ 2 / 2 ^ 53 * 2 ^ 32 := mul_le_mul e2 hN32 hNq.le (by positivity)
    have h2 : (2 : ℚ) / 2 ^ 53 * 2 ^ 32 = 2 * (2 ^ 32 / 2 ^ 53) := by ring
    linarith
  -- third rounding
  obtain ⟨P, hP⟩ : ∃ P, P = rn (F * (N : ℚ)) := ⟨_, rfl⟩
  rw [← hP]
  have e3 : |P - F * (N : ℚ)| ≤ 3 * (2 ^ 32 / 2 ^ 53) := by
    rw [hP]
    have := h.relerr (F * (N : ℚ))
    have h2 : |F * (N : ℚ)| ≤ 3 * 2 ^ 32 := by
      rw [abs_mul, abs_of_pos hNq]
      exact mul_le_mul hFabs hN32 hNq.le (by norm_num)
    have h3 : |F * (N : ℚ)| / 2 ^ 53 ≤ 3 * 2 ^ 32 / 2 ^ 53 := by apply div_le_div_of_nonneg_right h2 (by positivity)
    have h4 : (3 : ℚ) * 2 ^ 32 / 2 ^ 53 = 3 * (2 ^ 32 / 2 ^ 53) := by ring
    linarith
  -- assemble: P - r = (P - F N) + (F - x) N + (A - a) N
  have hdecomp : P - (r : ℚ) = (P - F * (N : ℚ)) + (F - x) * (N : ℚ) + (A - a) * (N : ℚ) := by
    have : x * (N : ℚ) - (r : ℚ) = (A - a) * (N : ℚ) := by
      rw [hx]
      have : (a - (q : ℚ)) * (N : ℚ) = (r : ℚ) := by rw [hfrac]; field_simp
      linarith
    linarith
  rw [hdecomp]
  have t1 : |(F - x) * (N : ℚ)| ≤ 2 * (2 ^ 32 / 2 ^ 53) := by rw [abs_mul, abs_of_pos hNq]; exact e2N
  have t2 : |(A - a) * (N : ℚ)| ≤ 2 ^ 32 / 2 ^ 53 := by rw [abs_mul, abs_of_pos hNq]; exact e1N
  have tri := abs_add_le ((P - F * (N : ℚ)) + (F - x) * (N : ℚ)) ((A - a) * (N : ℚ))
  have tri2 := abs_add_le (P - F * (N : ℚ)) ((F - x) * (N : ℚ))
  have hnum : (6 : ℚ) * (2 ^ 32 / 2 ^ 53) ≤ 1 / 4 := by norm_num
  linarith

/-- **I = T mod N.**  The fourth output of `of_compute_blocking_struct` under the binary64 standard model. -/
theorem blocking_I (rn : ℚ → ℚ) (h : RN53 rn) (B L E i0 i1 i2 i3 : ℕ)
    (hB : 1 ≤ B) (hE : 1 ≤ E) (hL1 : 1 ≤ L) (hL : L < 2 ^ 32) (hBlt : B < 2 ^ 32) (hElt : E < 2 ^ 32) :
    (of_compute_blocking_struct rn i0 i1 i2 i3 B L E).2.2.2 = cdiv L E % cdiv (cdiv L E) B := by
  obtain ⟨T, hTdef⟩ : ∃ T, T = cdiv L E := ⟨_, rfl⟩
  rw [← hTdef]
  obtain ⟨N, hNdef⟩ : ∃ N, N = cdiv T B := ⟨_, rfl⟩
  rw [← hNdef]
  have hTle : T ≤ L := by rw [hTdef]; exact cdiv_le L E hE
  have hT32 : T < 2 ^ 32 := lt_of_le_of_lt hTle hL
  have hT1 : 1 ≤ T := by rw [hTdef]; exact cdiv_pos L E hL1 hE
  have hNle : N ≤ T := by rw [hNdef]; exact cdiv_le T B hB
  have hN1 : 1 ≤ N := by rw [hNdef]; exact cdiv_pos T B hT1 hB
  have hN32' : N < 2 ^ 32 := lt_of_le_of_lt hNle hT32
  have p53 : (2 : ℕ) ^ 32 < 2 ^ 53 := by norm_num
  have eT : CSem.f2u 32 ((Rat.ceil (rn (rn ((L : ℕ) : ℚ) / rn ((E : ℕ) : ℚ))) : ℤ) : ℚ) = T := by
    rw [FP.rn_nat h L (by omega), FP.rn_nat h E (by omega), FP.ceil_eq, FP.ceil_rn_div h L E (by omega) hE]
    have e1 : (L + E - 1) / E = T := by rw [hTdef]; rfl
    rw [e1]; exact f2u_nat 32 _ hT32
  have eN : CSem.f2u 32 ((Rat.ceil (rn (rn ((T : ℕ) : ℚ) / rn ((B : ℕ) : ℚ))) : ℤ) : ℚ) = N := by
    rw [FP.rn_nat h T (by omega), FP.rn_nat h B (by omega), FP.ceil_eq, FP.ceil_rn_div h T B (by omega) hB]
    have e1 : (T + B - 1) / B = N := by rw [hNdef]; rfl
    rw [e1]; exact f2u_nat 32 _ hN32'
  have eAs : CSem.f2u 32 ((Rat.floor (rn (rn ((T : ℕ) : ℚ) / rn ((N : ℕ) : ℚ))) : ℤ) : ℚ) = T / N := by
    rw [FP.rn_nat h T (by omega), FP.rn_nat h N (by omega), FP.floor_eq, FP.floor_rn_div h T N (by omega) hN1]
    exact f2u_nat 32 _ (lt_of_le_of_lt (Nat.div_le_self T N) hT32)
  unfold of_compute_blocking_struct
  simp only [eT, eN, eAs]
  show double_to_closest_int rn _ = T % N
  rw [FP.rn_nat h T (by omega), FP.rn_nat h N (by omega), FP.rn_nat h (T / N) (by have := Nat.div_le_self T N; omega)]
  exact closest_int_spec rn h _ (T % N) (by have := Nat.mod_lt T (by omega : 0 < N); omega) (frac_times_N rn h T N hN1 hT32 hNle)

end BlockingProofs
