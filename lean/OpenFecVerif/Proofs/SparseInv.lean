import OpenFecVerif.Model.Sparse
/-!
Invariant and set semantics of the sparse-matrix model (`Model/Sparse.lean`), core Lean only.
-/
namespace Sparse

def Sorted (l : List Nat) : Prop := l.Pairwise (· < ·)

theorem Sorted.nodup {l : List Nat} (h : Sorted l) : l.Nodup :=
  List.Pairwise.imp (fun hab => Nat.ne_of_lt hab) h

theorem mem_ins (a x : Nat) (l : List Nat) : a ∈ ins x l ↔ a = x ∨ a ∈ l := by
  induction l with
  | nil => simp [ins]
  | cons y t ih =>
    unfold ins
    by_cases h1 : x < y
    · simp [h1]
    · by_cases h2 : x = y
      · subst h2; simp
      · simp only [h1, h2, if_false, List.mem_cons, ih]
        constructor
        · rintro (h | h | h) <;> simp [h]
        · rintro (h | h | h) <;> simp [h]

theorem sorted_ins (x : Nat) {l : List Nat} (h : Sorted l) : Sorted (ins x l) := by
  induction l with
  | nil => simp [ins, Sorted]
  | cons y t ih =>
    unfold ins
    have hy : ∀ a ∈ t, y < a := (List.pairwise_cons.mp h).1
    have ht : Sorted t := (List.pairwise_cons.mp h).2
    by_cases h1 : x < y
    · simp only [h1, if_true]
      refine List.pairwise_cons.mpr ⟨?_, h⟩
      intro a ha
      rcases List.mem_cons.mp ha with rfl | ha
      · exact h1
      · exact Nat.lt_trans h1 (hy a ha)
    · by_cases h2 : x = y
      · simp [h1, h2]; exact h
      · simp only [h1, h2, if_false]
        refine List.pairwise_cons.mpr ⟨?_, ih ht⟩
        intro a ha
        rcases (mem_ins a x t).mp ha with rfl | ha
        · omega
        · exact hy a ha

theorem ins_of_mem {x : Nat} {l : List Nat} (hs : Sorted l) (h : x ∈ l) : ins x l = l := by
  induction l with
  | nil => cases h
  | cons y t ih =>
    have hy : ∀ a ∈ t, y < a := (List.pairwise_cons.mp hs).1
    have ht : Sorted t := (List.pairwise_cons.mp hs).2
    unfold ins
    rcases List.mem_cons.mp h with rfl | hm
    · simp
    · have : y < x := hy x hm
      have h1 : ¬ x < y := by omega
      have h2 : ¬ x = y := by omega
      simp [h1, h2, ih ht hm]

theorem length_ins {x : Nat} {l : List Nat} (h : x ∉ l) : (ins x l).length = l.length + 1 := by
  induction l with
  | nil => simp [ins]
  | cons y t ih =>
    unfold ins
    have hxy : x ≠ y := fun e => h (by simp [e])
    have hxt : x ∉ t := fun e => h (by simp [e])
    by_cases h1 : x < y
    · simp [h1]
    · simp [h1, hxy, ih hxt]

theorem sorted_erase (x : Nat) {l : List Nat} (h : Sorted l) : Sorted (l.erase x) :=
  List.Pairwise.sublist List.erase_sublist h

theorem mem_erase_sorted {a x : Nat} {l : List Nat} (h : Sorted l) : a ∈ l.erase x ↔ a ≠ x ∧ a ∈ l :=
  List.Nodup.mem_erase_iff h.nodup

/-- in an increasing list the last element bounds every element -/
theorem le_getLast {l : List Nat} (h : Sorted l) {z : Nat} (hz : l.getLast? = some z) : ∀ a ∈ l, a ≤ z := by
  induction l with
  | nil => simp at hz
  | cons y t ih =>
    have hy : ∀ a ∈ t, y < a := (List.pairwise_cons.mp h).1
    have ht : Sorted t := (List.pairwise_cons.mp h).2
    intro a ha
    cases t with
    | nil =>
      simp at hz ha; omega
    | cons y' t' =>
      have hz' : (y' :: t').getLast? = some z := by simpa [List.getLast?_cons_cons] using hz
      have hzmem : z ∈ (y' :: t') := List.mem_of_getLast? hz'
      rcases List.mem_cons.mp ha with rfl | ha
      · exact Nat.le_of_lt (hy z hzmem)
      · exact ih ht hz' a ha

/-! ### the parallel scan of `find` -/

theorem findPar_eq (r c : Nat) : ∀ (xs ys : List Nat), Sorted xs → Sorted ys → (c ∈ xs ↔ r ∈ ys) →
    (findPar r c xs ys = true ↔ c ∈ xs) := by
  intro xs
  induction xs with
  | nil => intro ys _ _ _; simp [findPar]
  | cons x xs ih =>
    intro ys hxs hys hiff
    have hx : ∀ a ∈ xs, x < a := (List.pairwise_cons.mp hxs).1
    have hxs' : Sorted xs := (List.pairwise_cons.mp hxs).2
    unfold findPar
    by_cases h1 : x > c
    · simp only [h1, if_true]
      constructor
      · intro h; cases h
      · intro h
        rcases List.mem_cons.mp h with rfl | h
        · omega
        · have := hx c h; omega
    · by_cases h2 : x = c
      · subst h2; simp
      · simp only [h1, h2, if_false]
        have hcx : c ∈ x :: xs ↔ c ∈ xs := by
          simp [List.mem_cons]; intro e; exact absurd e.symm h2
        cases ys with
        | nil =>
          simp only []
          constructor
          · intro h; cases h
          · intro h; exact absurd (hiff.mp h) (by simp)
        | cons y ys' =>
          have hy : ∀ a ∈ ys', y < a := (List.pairwise_cons.mp hys).1
          have hys' : Sorted ys' := (List.pairwise_cons.mp hys).2
          simp only []
          by_cases h3 : y > r
          · simp only [h3, if_true]
            constructor
            · intro h; cases h
            · intro h
              have := hiff.mp h
              rcases List.mem_cons.mp this with rfl | h'
              · omega
              · have := hy r h'; omega
          · by_cases h4 : y = r
            · subst h4
              simp only [h3, if_false, if_true]
              constructor
              · intro _; exact hiff.mpr (by simp)
              · intro _; trivial
            · simp only [h3, h4, if_false]
              have hry : r ∈ y :: ys' ↔ r ∈ ys' := by
                simp [List.mem_cons]; intro e; exact absurd e.symm h4
              rw [hcx]
              exact ih ys' hxs' hys' (by rw [← hcx, ← hry]; exact hiff)

/-! ### the invariant -/

def count (m : M) : Nat := ((List.range m.nr).map fun i => (m.rows.get i).length).sum

structure Inv (m : M) : Prop where
  rows_sorted : ∀ r, Sorted (m.rows.get r)
  cols_sorted : ∀ c, Sorted (m.cols.get c)
  consistent : ∀ r c, c ∈ m.rows.get r ↔ r ∈ m.cols.get c
  bound : ∀ r c, c ∈ m.rows.get r → r < m.nr ∧ c < m.nc
  pool : m.pool.free + count m = blockSize * m.pool.blocks

/-- membership in the abstract set of (row, column) pairs -/
def Mem (m : M) (r c : Nat) : Prop := c ∈ m.rows.get r

theorem sum_map_zero (l : List Nat) : (l.map fun _ => 0).sum = 0 := by
  induction l with
  | nil => rfl
  | cons a t ih => simp [ih]

theorem get_mk' (i : Nat) : (TMap.mk' ([] : List Nat)).get i = [] := by
  simp [TMap.mk', TMap.get]

theorem alloc_inv {nr nc : Nat} {m : M} (h : alloc nr nc = some m) : Inv m ∧ m.nr = nr ∧ m.nc = nc ∧ ∀ r c, ¬ Mem m r c := by
  unfold alloc at h
  split at h
  · cases h
  · cases h
    refine ⟨⟨?_, ?_, ?_, ?_, ?_⟩, rfl, rfl, ?_⟩
    · intro r; simp [get_mk', Sorted]
    · intro c; simp [get_mk', Sorted]
    · intro r c; simp [get_mk']
    · intro r c; simp [get_mk']
    · have : ∀ n, ((List.range n).map fun i => ((TMap.mk' ([] : List Nat)).get i).length).sum = 0 := by
        intro n; simp [get_mk', sum_map_zero]
      simp [count, this]
    · intro r c; simp [Mem, get_mk']

theorem clear_inv (m : M) : Inv (clear m) ∧ ∀ r c, ¬ Mem (clear m) r c := by
  refine ⟨⟨?_, ?_, ?_, ?_, ?_⟩, ?_⟩
  · intro r; simp [clear, get_mk', Sorted]
  · intro c; simp [clear, get_mk', Sorted]
  · intro r c; simp [clear, get_mk']
  · intro r c; simp [clear, get_mk']
  · have : ∀ n, ((List.range n).map fun i => ((TMap.mk' ([] : List Nat)).get i).length).sum = 0 := by
      intro n; simp [get_mk', sum_map_zero]
    simp [count, clear, this]
  · intro r c; simp [Mem, clear, get_mk']

/-- replacing one row changes the entry count by the change of that row's length -/
theorem sum_lengths_set (t : TMap (List Nat)) (n r : Nat) (v : List Nat) (hr : r < n) :
    ((List.range n).map fun i => ((t.set r v).get i).length).sum + (t.get r).length
      = ((List.range n).map fun i => (t.get i).length).sum + v.length := by
  induction n with
  | zero => omega
  | succ n ih =>
    simp only [List.range_succ, List.map_append, List.sum_append, List.map_cons, List.map_nil, List.sum_cons, List.sum_nil]
    by_cases h : r = n
    · subst h
      have hsame : ∀ k, k ≤ r → ((List.range k).map fun i => ((t.set r v).get i).length) = ((List.range k).map fun i => (t.get i).length) := by
        intro k hk
        apply List.map_congr_left
        intro i hi
        have : i < k := List.mem_range.mp hi
        rw [TMap.get_set_ne]; omega
      rw [hsame r (Nat.le_refl r), TMap.get_set_same]; omega
    · have hr' : r < n := by omega
      have := ih hr'
      rw [TMap.get_set_ne t v (by omega : n ≠ r)]
      omega

theorem insert_inv {m : M} (h : Inv m) (r c : Nat) : Inv (insert m r c).1 := by
  unfold insert
  by_cases h1 : r ≥ m.nr ∨ c ≥ m.nc
  · simp [h1]; exact h
  · by_cases h2 : (m.rows.get r).contains c = true
    · rw [if_neg h1, if_pos h2]; exact h
    · have hr : r < m.nr := by omega
      have hc : c < m.nc := by omega
      have hnot : c ∉ m.rows.get r := by simpa using h2
      have hnot' : r ∉ m.cols.get c := fun e => hnot ((h.consistent r c).mpr e)
      simp only [h1, h2, if_false]
      refine ⟨?_, ?_, ?_, ?_, ?_⟩
      · intro r'
        show Sorted ((m.rows.set r _).get r')
        rw [TMap.get_set]; split
        · exact sorted_ins c (h.rows_sorted r)
        · exact h.rows_sorted r'
      · intro c'
        show Sorted ((m.cols.set c _).get c')
        rw [TMap.get_set]; split
        · exact sorted_ins r (h.cols_sorted c)
        · exact h.cols_sorted c'
      · intro r' c'
        show c' ∈ (m.rows.set r _).get r' ↔ r' ∈ (m.cols.set c _).get c'
        rw [TMap.get_set, TMap.get_set]
        by_cases hr' : r' = r <;> by_cases hc' : c' = c
        · subst hr' hc'; simp [mem_ins]
        · subst hr'
          simp only [if_true, hc', if_false, mem_ins]
          rw [← h.consistent r' c']; simp [hc']
        · subst hc'
          simp only [hr', if_false, if_true, mem_ins]
          rw [h.consistent r' c']; simp [hr']
        · simp only [hr', hc', if_false]; exact h.consistent r' c'
      · intro r' c'
        show c' ∈ (m.rows.set r _).get r' → _
        rw [TMap.get_set]
        split
        · rename_i e; subst e
          intro hm
          rcases (mem_ins _ _ _).mp hm with rfl | hm
          · exact ⟨hr, hc⟩
          · exact h.bound _ _ hm
        · exact h.bound r' c'
      · show (m.pool.take).free + count { m with rows := m.rows.set r (ins c (m.rows.get r)), cols := _, pool := _ } = blockSize * (m.pool.take).blocks
        have hcnt : count { m with rows := m.rows.set r (ins c (m.rows.get r)), cols := m.cols.set c (ins r (m.cols.get c)), pool := m.pool.take } = count m + 1 := by
          have := sum_lengths_set m.rows m.nr r (ins c (m.rows.get r)) hr
          rw [length_ins hnot] at this
          simp only [count]; omega
        rw [hcnt]
        have hp := h.pool
        unfold Pool.take
        split
        · rename_i hf; simp only [blockSize] at *; omega
        · rename_i hf; simp only [blockSize] at *; omega

theorem insert_mem {m : M} (r c : Nat) (hr : r < m.nr) (hc : c < m.nc) (r' c' : Nat) :
    Mem (insert m r c).1 r' c' ↔ (r' = r ∧ c' = c) ∨ Mem m r' c' := by
  unfold insert Mem
  have h1 : ¬ (r ≥ m.nr ∨ c ≥ m.nc) := by omega
  by_cases h2 : (m.rows.get r).contains c = true
  · simp only [h1, h2, if_false, if_true]
    constructor
    · intro h; exact Or.inr h
    · rintro (⟨rfl, rfl⟩ | h)
      · simpa using h2
      · exact h
  · simp only [h1, h2, if_false]
    show c' ∈ (m.rows.set r _).get r' ↔ _
    rw [TMap.get_set]
    by_cases hr' : r' = r
    · subst hr'; simp [mem_ins]
    · simp [hr']

theorem insert_out_of_range {m : M} (r c : Nat) (h : r ≥ m.nr ∨ c ≥ m.nc) : insert m r c = (m, none) := by
  unfold insert; simp [h]

/-- inserting an entry that is present changes nothing at all (not even the pool) -/
theorem insert_idem {m : M} (r c : Nat) : (insert (insert m r c).1 r c).1 = (insert m r c).1 := by
  by_cases h1 : r ≥ m.nr ∨ c ≥ m.nc
  · rw [insert_out_of_range r c h1]; simp [insert_out_of_range r c h1]
  · have hr : r < m.nr := by omega
    have hc : c < m.nc := by omega
    have hmem : Mem (insert m r c).1 r c := (insert_mem r c hr hc r c).mpr (Or.inl ⟨rfl, rfl⟩)
    have hdim : (insert m r c).1.nr = m.nr ∧ (insert m r c).1.nc = m.nc := by
      unfold insert; split; · exact ⟨rfl, rfl⟩
      split <;> exact ⟨rfl, rfl⟩
    generalize (insert m r c).1 = m' at *
    unfold insert
    have h1' : ¬ (r ≥ m'.nr ∨ c ≥ m'.nc) := by omega
    have : (m'.rows.get r).contains c = true := by simpa [Mem] using hmem
    rw [if_neg h1', if_pos this]

theorem find_iff_mem {m : M} (h : Inv m) (r c : Nat) : find m r c = true ↔ Mem m r c := by
  unfold find Mem
  by_cases h1 : r ≥ m.nr ∨ c ≥ m.nc
  · simp only [h1, if_true]
    constructor
    · intro e; cases e
    · intro e; have := h.bound r c e; omega
  · simp only [h1, if_false]
    cases hl : (m.rows.get r).getLast? with
    | none =>
      have : m.rows.get r = [] := by simpa using hl
      simp [this]
    | some lr =>
      simp only []
      have hle := le_getLast (h.rows_sorted r) hl
      by_cases h2 : lr < c
      · simp only [h2, if_true]
        constructor
        · intro e; cases e
        · intro e; have := hle c e; omega
      · by_cases h3 : lr = c
        · subst h3; simp only [h2, if_false, if_true]
          exact ⟨fun _ => List.mem_of_getLast? hl, fun _ => trivial⟩
        · simp only [h2, h3, if_false]
          cases hlc : (m.cols.get c).getLast? with
          | none =>
            have : m.cols.get c = [] := by simpa using hlc
            simp only []
            constructor
            · intro e; cases e
            · intro e; have hh := (h.consistent r c).mp e; rw [this] at hh; cases hh
          | some lc =>
            simp only []
            have hle' := le_getLast (h.cols_sorted c) hlc
            by_cases h4 : lc < r
            · simp only [h4, if_true]
              constructor
              · intro e; cases e
              · intro e; have := hle' r ((h.consistent r c).mp e); omega
            · by_cases h5 : lc = r
              · subst h5; simp only [h4, if_false, if_true]
                exact ⟨fun _ => (h.consistent _ c).mpr (List.mem_of_getLast? hlc), fun _ => trivial⟩
              · simp only [h4, h5, if_false]
                exact findPar_eq r c _ _ (h.rows_sorted r) (h.cols_sorted c) (h.consistent r c)

theorem delete_inv {m : M} (h : Inv m) (r c : Nat) : Inv (delete m r c).1 := by
  unfold delete
  by_cases hf : find m r c = true
  · have hmem : c ∈ m.rows.get r := (find_iff_mem h r c).mp hf
    have hmem' : r ∈ m.cols.get c := (h.consistent r c).mp hmem
    have hb := h.bound r c hmem
    simp only [hf, if_true]
    refine ⟨?_, ?_, ?_, ?_, ?_⟩
    · intro r'
      show Sorted ((m.rows.set r _).get r')
      rw [TMap.get_set]; split
      · exact sorted_erase c (h.rows_sorted r)
      · exact h.rows_sorted r'
    · intro c'
      show Sorted ((m.cols.set c _).get c')
      rw [TMap.get_set]; split
      · exact sorted_erase r (h.cols_sorted c)
      · exact h.cols_sorted c'
    · intro r' c'
      show c' ∈ (m.rows.set r _).get r' ↔ r' ∈ (m.cols.set c _).get c'
      rw [TMap.get_set, TMap.get_set]
      by_cases hr' : r' = r <;> by_cases hc' : c' = c
      · subst hr' hc'
        simp [mem_erase_sorted (h.rows_sorted _), mem_erase_sorted (h.cols_sorted _)]
      · subst hr'
        simp only [if_true, hc', if_false, mem_erase_sorted (h.rows_sorted _)]
        rw [← h.consistent r' c']; simp [hc']
      · subst hc'
        simp only [hr', if_false, if_true, mem_erase_sorted (h.cols_sorted _)]
        rw [h.consistent r' c']; simp [hr']
      · simp only [hr', hc', if_false]; exact h.consistent r' c'
    · intro r' c'
      show c' ∈ (m.rows.set r _).get r' → _
      rw [TMap.get_set]
      split
      · rename_i e; subst e
        intro hm
        exact h.bound _ _ ((mem_erase_sorted (h.rows_sorted _)).mp hm).2
      · exact h.bound r' c'
    · show (m.pool.give).free + count { m with rows := m.rows.set r ((m.rows.get r).erase c), cols := _, pool := _ } = blockSize * (m.pool.give).blocks
      have := sum_lengths_set m.rows m.nr r ((m.rows.get r).erase c) hb.1
      rw [List.length_erase_of_mem hmem] at this
      have hpos : 0 < (m.rows.get r).length := List.length_pos_of_mem hmem
      have hp := h.pool
      simp only [count, Pool.give] at *
      omega
  · simp [hf]; exact h

theorem delete_mem {m : M} (h : Inv m) (r c r' c' : Nat) :
    Mem (delete m r c).1 r' c' ↔ Mem m r' c' ∧ ¬ (r' = r ∧ c' = c) := by
  unfold delete
  by_cases hf : find m r c = true
  · simp only [hf, if_true, Mem]
    show c' ∈ (m.rows.set r _).get r' ↔ _
    rw [TMap.get_set]
    by_cases hr' : r' = r
    · subst hr'
      rw [if_pos rfl, mem_erase_sorted (h.rows_sorted _)]
      constructor
      · rintro ⟨a, b⟩; exact ⟨b, fun e => a e.2⟩
      · rintro ⟨a, b⟩; exact ⟨fun e => b ⟨rfl, e⟩, a⟩
    · rw [if_neg hr']
      constructor
      · intro e; exact ⟨e, fun x => hr' x.1⟩
      · intro e; exact e.1
  · have hn : ¬ Mem m r c := fun e => hf ((find_iff_mem h r c).mpr e)
    simp only [hf]
    constructor
    · intro e; exact ⟨e, fun ⟨a, b⟩ => hn (by subst a b; exact e)⟩
    · intro e; exact e.1

theorem delete_result {m : M} (h : Inv m) (r c : Nat) : (delete m r c).2 = true ↔ Mem m r c := by
  unfold delete
  by_cases hf : find m r c = true
  · simp [hf, (find_iff_mem h r c).mp hf]
  · simp [hf]; exact fun e => hf ((find_iff_mem h r c).mpr e)

/-! ### folds of insertions (the copy family) -/

theorem insert'_dims (m : M) (r c : Nat) : (insert' m r c).nr = m.nr ∧ (insert' m r c).nc = m.nc := by
  unfold insert' insert; split; · exact ⟨rfl, rfl⟩
  split <;> exact ⟨rfl, rfl⟩

theorem foldl_insert_inv {α : Type} (f : α → Nat × Nat) (L : List α) {m : M} (h : Inv m) :
    Inv (L.foldl (fun acc e => insert' acc (f e).1 (f e).2) m) := by
  induction L generalizing m with
  | nil => exact h
  | cons a t ih => exact ih (insert_inv h _ _)

theorem foldl_insert_dims {α : Type} (f : α → Nat × Nat) (L : List α) (m : M) :
    (L.foldl (fun acc e => insert' acc (f e).1 (f e).2) m).nr = m.nr ∧ (L.foldl (fun acc e => insert' acc (f e).1 (f e).2) m).nc = m.nc := by
  induction L generalizing m with
  | nil => exact ⟨rfl, rfl⟩
  | cons a t ih =>
    have := ih (insert' m (f a).1 (f a).2)
    have hd := insert'_dims m (f a).1 (f a).2
    simp only [List.foldl_cons]
    exact ⟨this.1.trans hd.1, this.2.trans hd.2⟩

theorem insert'_mem (m : M) (r c r' c' : Nat) :
    Mem (insert' m r c) r' c' ↔ (r' = r ∧ c' = c ∧ r < m.nr ∧ c < m.nc) ∨ Mem m r' c' := by
  by_cases h1 : r ≥ m.nr ∨ c ≥ m.nc
  · unfold insert'; rw [insert_out_of_range r c h1]
    constructor
    · intro e; exact Or.inr e
    · rintro (⟨_, _, a, b⟩ | e)
      · omega
      · exact e
  · have hr : r < m.nr := by omega
    have hc : c < m.nc := by omega
    unfold insert'; rw [insert_mem r c hr hc]
    constructor
    · rintro (⟨a, b⟩ | e)
      · exact Or.inl ⟨a, b, hr, hc⟩
      · exact Or.inr e
    · rintro (⟨a, b, _, _⟩ | e)
      · exact Or.inl ⟨a, b⟩
      · exact Or.inr e

theorem foldl_insert_mem {α : Type} (f : α → Nat × Nat) (L : List α) (m : M) (r' c' : Nat) :
    Mem (L.foldl (fun acc e => insert' acc (f e).1 (f e).2) m) r' c' ↔
      (∃ e ∈ L, (f e).1 = r' ∧ (f e).2 = c' ∧ r' < m.nr ∧ c' < m.nc) ∨ Mem m r' c' := by
  induction L generalizing m with
  | nil => simp
  | cons a t ih =>
    simp only [List.foldl_cons]
    rw [ih, insert'_mem]
    have hd := insert'_dims m (f a).1 (f a).2
    rw [hd.1, hd.2]
    constructor
    · rintro (⟨e, he, h1, h2, h3, h4⟩ | ⟨h1, h2, h3, h4⟩ | h)
      · exact Or.inl ⟨e, List.mem_cons_of_mem _ he, h1, h2, h3, h4⟩
      · exact Or.inl ⟨a, List.mem_cons_self, h1.symm, h2.symm, h1 ▸ h3, h2 ▸ h4⟩
      · exact Or.inr h
    · rintro (⟨e, he, h1, h2, h3, h4⟩ | h)
      · rcases List.mem_cons.mp he with rfl | he
        · exact Or.inr (Or.inl ⟨h1.symm, h2.symm, h1 ▸ h3, h2 ▸ h4⟩)
        · exact Or.inl ⟨e, he, h1, h2, h3, h4⟩
      · exact Or.inr (Or.inr h)

theorem mem_entries (m : M) (r c : Nat) : (r, c) ∈ entries m ↔ r < m.nr ∧ c ∈ m.rows.get r := by
  unfold entries
  simp only [List.mem_flatMap, List.mem_range, List.mem_map, Prod.mk.injEq]
  constructor
  · rintro ⟨i, hi, a, ha, rfl, rfl⟩; exact ⟨hi, ha⟩
  · rintro ⟨hr, hc⟩; exact ⟨r, hr, c, hc, rfl, rfl⟩

theorem copy_inv (m r : M) (hr : Inv r) : Inv (copy m r) := by
  unfold copy
  split
  · exact hr
  · exact foldl_insert_inv (fun e => e) _ (clear_inv r).1

/-- of_mod2sparse_copy: when the destination is large enough it ends up with exactly the source's entries -/
theorem copy_mem (m r : M) (hm : Inv m) (hfit : m.nr ≤ r.nr ∧ m.nc ≤ r.nc) (i j : Nat) :
    Mem (copy m r) i j ↔ Mem m i j := by
  unfold copy
  have : ¬ (m.nr > r.nr ∨ m.nc > r.nc) := by omega
  simp only [this, if_false]
  rw [foldl_insert_mem (fun e => e)]
  simp only [(clear_inv r).2 i j, or_false]
  constructor
  · rintro ⟨e, he, h1, h2, _, _⟩
    obtain ⟨a, b⟩ := e
    simp only at h1 h2; subst h1 h2
    exact ((mem_entries m _ _).mp he).2
  · intro h
    have hb := hm.bound i j h
    refine ⟨(i, j), (mem_entries m i j).mpr ⟨hb.1, h⟩, rfl, rfl, ?_, ?_⟩
    · show i < (clear r).nr; simp [clear]; omega
    · show j < (clear r).nc; simp [clear]; omega

/-- with every index in range the copy loops never stop early -/
theorem copyLoop_valid (n : Nat) (idx : List Nat) (lim : Nat) (body : M → Nat → Nat → M) (r : M)
    (hv : ∀ i, i < n → idx.getD i 0 < lim) :
    copyLoop n idx lim body r = (List.range n).foldl (fun acc i => body acc i (idx.getD i 0)) r := by
  unfold copyLoop
  have key : ∀ (L : List Nat) (acc : M), (∀ i ∈ L, idx.getD i 0 < lim) →
      (L.foldl (fun (acc : M × Bool) i => if acc.2 then acc else
          if idx.getD i 0 ≥ lim then (acc.1, true) else (body acc.1 i (idx.getD i 0), false)) (acc, false))
        = (L.foldl (fun acc i => body acc i (idx.getD i 0)) acc, false) := by
    intro L
    induction L with
    | nil => intro acc _; rfl
    | cons a t ih =>
      intro acc h
      have ha : ¬ idx.getD a 0 ≥ lim := by have := h a (by simp); omega
      simp only [List.foldl_cons, ha, if_false, Bool.false_eq_true]
      exact ih _ (fun i hi => h i (List.mem_cons_of_mem _ hi))
  rw [key (List.range n) r (fun i hi => hv i (List.mem_range.mp hi))]

theorem copyrows_inv (m r : M) (idx : List Nat) (hr : Inv r) : Inv (copyrows m r idx) := by
  unfold copyrows
  split
  · exact hr
  · unfold copyLoop
    -- every step is a fold of insertions or nothing
    have key : ∀ (L : List Nat) (acc : M × Bool), Inv acc.1 →
        Inv (L.foldl (fun (acc : M × Bool) i => if acc.2 then acc else
          if idx.getD i 0 ≥ m.nr then (acc.1, true)
          else ((m.rows.get (idx.getD i 0)).foldl (fun a c => insert' a i c) acc.1, false)) acc).1 := by
      intro L
      induction L with
      | nil => intro acc h; exact h
      | cons a t ih =>
        intro acc h
        simp only [List.foldl_cons]
        apply ih
        split
        · exact h
        · split
          · exact h
          · exact foldl_insert_inv (fun c => (a, c)) _ h
    exact key _ _ (clear_inv r).1

theorem copycols_inv (m r : M) (idx : List Nat) (hr : Inv r) : Inv (copycols m r idx) := by
  unfold copycols
  split
  · exact hr
  · unfold copyLoop
    have key : ∀ (L : List Nat) (acc : M × Bool), Inv acc.1 →
        Inv (L.foldl (fun (acc : M × Bool) j => if acc.2 then acc else
          if idx.getD j 0 ≥ m.nc then (acc.1, true)
          else ((m.cols.get (idx.getD j 0)).foldl (fun a e => insert' a e j) acc.1, false)) acc).1 := by
      intro L
      induction L with
      | nil => intro acc h; exact h
      | cons a t ih =>
        intro acc h
        simp only [List.foldl_cons]
        apply ih
        split
        · exact h
        · split
          · exact h
          · exact foldl_insert_inv (fun e => (e, a)) _ h
    exact key _ _ (clear_inv r).1

theorem copyFilled_inv (m r : M) (ir ic : List Nat) (hr : Inv r) : Inv (copyFilled m r ir ic) := by
  unfold copyFilled
  generalize entries m = L
  induction L generalizing r with
  | nil => exact hr
  | cons a t ih =>
    simp only [List.foldl_cons]
    apply ih
    split
    · exact insert_inv hr _ _
    · exact hr

/-- of_mod2sparse_copyrows with a valid row list: row i of the result is row idx[i] of the source -/
theorem copyrows_mem (m r : M) (idx : List Nat) (hm : Inv m) (hfit : m.nc ≤ r.nc)
    (hv : ∀ i, i < r.nr → idx.getD i 0 < m.nr) (i j : Nat) :
    Mem (copyrows m r idx) i j ↔ i < r.nr ∧ Mem m (idx.getD i 0) j := by
  unfold copyrows
  have : ¬ m.nc > r.nc := by omega
  simp only [this, if_false]
  rw [copyLoop_valid _ _ _ _ _ (by simpa [clear] using hv)]
  -- flatten the nested fold
  have flat : ∀ (L : List Nat) (acc : M),
      L.foldl (fun acc i => (m.rows.get (idx.getD i 0)).foldl (fun a c => insert' a i c) acc) acc
        = (L.flatMap fun i => (m.rows.get (idx.getD i 0)).map fun c => (i, c)).foldl (fun acc e => insert' acc e.1 e.2) acc := by
    intro L
    induction L with
    | nil => intro acc; rfl
    | cons a t ih =>
      intro acc
      simp only [List.foldl_cons, List.flatMap_cons, List.foldl_append, List.foldl_map]
      exact ih _
  rw [flat, foldl_insert_mem (fun e => e)]
  simp only [(clear_inv r).2 i j, or_false]
  constructor
  · rintro ⟨e, he, h1, h2, h3, _⟩
    obtain ⟨a, b⟩ := e
    simp only at h1 h2; subst h1 h2
    simp only [List.mem_flatMap, List.mem_range, List.mem_map, Prod.mk.injEq] at he
    obtain ⟨i', hi', c, hc, rfl, rfl⟩ := he
    exact ⟨by simpa [clear] using hi', hc⟩
  · rintro ⟨hi, hmem⟩
    have hb := hm.bound _ _ hmem
    refine ⟨(i, j), ?_, rfl, rfl, by simpa [clear] using hi, by simp [clear]; omega⟩
    simp only [List.mem_flatMap, List.mem_range, List.mem_map, Prod.mk.injEq]
    exact ⟨i, by simpa [clear] using hi, j, hmem, rfl, rfl⟩

/-- of_mod2sparse_copycols with a valid column list: column j of the result is column idx[j] of the source -/
theorem copycols_mem (m r : M) (idx : List Nat) (hm : Inv m) (hfit : m.nr ≤ r.nr)
    (hv : ∀ j, j < r.nc → idx.getD j 0 < m.nc) (i j : Nat) :
    Mem (copycols m r idx) i j ↔ j < r.nc ∧ Mem m i (idx.getD j 0) := by
  unfold copycols
  have : ¬ m.nr > r.nr := by omega
  simp only [this, if_false]
  rw [copyLoop_valid _ _ _ _ _ (by simpa [clear] using hv)]
  have flat : ∀ (L : List Nat) (acc : M),
      L.foldl (fun acc j => (m.cols.get (idx.getD j 0)).foldl (fun a e => insert' a e j) acc) acc
        = (L.flatMap fun j => (m.cols.get (idx.getD j 0)).map fun e => (e, j)).foldl (fun acc e => insert' acc e.1 e.2) acc := by
    intro L
    induction L with
    | nil => intro acc; rfl
    | cons a t ih =>
      intro acc
      simp only [List.foldl_cons, List.flatMap_cons, List.foldl_append, List.foldl_map]
      exact ih _
  rw [flat, foldl_insert_mem (fun e => e)]
  simp only [(clear_inv r).2 i j, or_false]
  constructor
  · rintro ⟨e, he, h1, h2, _, h4⟩
    obtain ⟨a, b⟩ := e
    simp only at h1 h2; subst h1 h2
    simp only [List.mem_flatMap, List.mem_range, List.mem_map, Prod.mk.injEq] at he
    obtain ⟨j', hj', e, he, rfl, rfl⟩ := he
    exact ⟨by simpa [clear] using hj', (hm.consistent _ _).mpr he⟩
  · rintro ⟨hj, hmem⟩
    have hb := hm.bound _ _ hmem
    refine ⟨(i, j), ?_, rfl, rfl, by simp [clear]; omega, by simpa [clear] using hj⟩
    simp only [List.mem_flatMap, List.mem_range, List.mem_map, Prod.mk.injEq]
    exact ⟨j, by simpa [clear] using hj, i, (hm.consistent _ _).mp hmem, rfl, rfl⟩

/-- of_mod2sparse_copy_filled_matrix: the destination gains exactly the images of the source's entries -/
theorem copyFilled_mem (m r : M) (ir ic : List Nat) (hm : Inv m) (i j : Nat) :
    Mem (copyFilled m r ir ic) i j ↔
      (∃ a b, Mem m a b ∧ ir.getD a 0 = i ∧ ic.getD b 0 = j ∧ i < r.nr ∧ j < r.nc) ∨ Mem r i j := by
  unfold copyFilled
  -- the emptiness tests are always passed by an existing entry
  have hcond : ∀ e ∈ entries m, (!(m.cols.get e.2).isEmpty && !(m.rows.get e.1).isEmpty) = true := by
    intro e he
    obtain ⟨a, b⟩ := e
    have hmem := ((mem_entries m a b).mp he).2
    have h1 : m.rows.get a ≠ [] := List.ne_nil_of_mem hmem
    have h2 : m.cols.get b ≠ [] := List.ne_nil_of_mem ((hm.consistent a b).mp hmem)
    simp [List.isEmpty_iff, h1, h2]
  have hfold : ∀ (L : List (Nat × Nat)) (acc : M), (∀ e ∈ L, (!(m.cols.get e.2).isEmpty && !(m.rows.get e.1).isEmpty) = true) →
      L.foldl (fun acc e => if !(m.cols.get e.2).isEmpty && !(m.rows.get e.1).isEmpty then insert' acc (ir.getD e.1 0) (ic.getD e.2 0) else acc) acc
        = L.foldl (fun acc e => insert' acc ((fun e : Nat × Nat => (ir.getD e.1 0, ic.getD e.2 0)) e).1 ((fun e : Nat × Nat => (ir.getD e.1 0, ic.getD e.2 0)) e).2) acc := by
    intro L
    induction L with
    | nil => intro acc _; rfl
    | cons a t ih =>
      intro acc h
      simp only [List.foldl_cons, h a (by simp), if_true]
      exact ih _ (fun e he => h e (List.mem_cons_of_mem _ he))
  rw [hfold _ _ hcond, foldl_insert_mem]
  constructor
  · rintro (⟨e, he, h1, h2, h3, h4⟩ | h)
    · obtain ⟨a, b⟩ := e
      exact Or.inl ⟨a, b, ((mem_entries m a b).mp he).2, h1, h2, h3, h4⟩
    · exact Or.inr h
  · rintro (⟨a, b, hab, h1, h2, h3, h4⟩ | h)
    · exact Or.inl ⟨(a, b), (mem_entries m a b).mpr ⟨(hm.bound a b hab).1, hab⟩, h1, h2, h3, h4⟩
    · exact Or.inr h

end Sparse
