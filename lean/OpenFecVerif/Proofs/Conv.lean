import OpenFecVerif.Proofs.DenseBits
import OpenFecVerif.Proofs.SparseInv
/-!
# Sparse <-> dense conversions agree with the set / bit-matrix reading
-/
namespace Dense
open Sparse

/-- setting a list of in-range cells to one -/
theorem bit_setAll (L : List (Nat × Nat)) : ∀ (a : D), WF a → (∀ e ∈ L, e.1 < a.nr ∧ e.2 < a.nc) →
    WF (L.foldl (fun acc e => set' acc e.1 e.2 1) a) ∧
    (L.foldl (fun acc e => set' acc e.1 e.2 1) a).nr = a.nr ∧ (L.foldl (fun acc e => set' acc e.1 e.2 1) a).nc = a.nc ∧
    ∀ i j, bit (L.foldl (fun acc e => set' acc e.1 e.2 1) a) i j = (decide ((i, j) ∈ L) || bit a i j) := by
  induction L with
  | nil => intro a h _; exact ⟨h, rfl, rfl, fun i j => by simp⟩
  | cons x t ih =>
    intro a h hin
    simp only [List.foldl_cons]
    have hx := hin x (by simp)
    have d := set_dims a x.1 x.2 1
    obtain ⟨w, d1, d2, hb⟩ := ih (set' a x.1 x.2 1) (set_wf h _ _ _)
      (fun e he => by rw [d.1, d.2.1]; exact hin e (by simp [he]))
    refine ⟨w, d1.trans d.1, d2.trans d.2.1, ?_⟩
    intro i j
    rw [hb, bit_set h hx.1 hx.2]
    by_cases hij : (i, j) = x
    · have h1 : i = x.1 ∧ j = x.2 := by rw [← hij]; exact ⟨rfl, rfl⟩
      simp [h1, hij]
    · have h1 : ¬ (i = x.1 ∧ j = x.2) := fun h' => hij (by rw [h'.1, h'.2])
      simp only [List.mem_cons, hij, false_or, h1, if_false]

/-- **of_mod2sparse_to_dense**: when the sparse matrix fits, the dense matrix ends up with exactly its entries -/
theorem bit_ofSparse {s : Sparse.M} {r : D} (hs : Sparse.Inv s) (hr : WF r) (hfit : s.nr ≤ r.nr ∧ s.nc ≤ r.nc) :
    WF (ofSparse s r) ∧ ∀ i j, bit (ofSparse s r) i j = true ↔ Sparse.Mem s i j := by
  unfold ofSparse
  rw [if_neg (by omega)]
  obtain ⟨hc, hz⟩ := clear_wf hr
  obtain ⟨w, _, _, hb⟩ := bit_setAll (Sparse.entries s) (clear r) hc (by
    intro e he
    have := (Sparse.mem_entries s e.1 e.2).mp he
    have hb := hs.bound e.1 e.2 this.2
    show e.1 < r.nr ∧ e.2 < r.nc
    omega)
  refine ⟨w, ?_⟩
  intro i j
  rw [hb, hz, Bool.or_false]
  simp only [decide_eq_true_eq]
  rw [Sparse.mem_entries]
  constructor
  · exact fun h => h.2
  · intro h; exact ⟨(hs.bound i j h).1, h⟩

theorem foldl_cond {α β : Type} (p : β → Bool) (g : α → β → α) (l : List β) (a : α) :
    l.foldl (fun a x => if p x then g a x else a) a = (l.filter p).foldl g a := by
  induction l generalizing a with
  | nil => rfl
  | cons x t ih =>
    simp only [List.foldl_cons, List.filter_cons]
    by_cases h : p x = true
    · simp only [h, if_true, List.foldl_cons]; exact ih _
    · simp only [h, Bool.false_eq_true, if_false]; exact ih _

/-- **of_mod2dense_to_sparse**: when the dense matrix fits, the sparse matrix ends up with exactly the one bits (whatever it held
before), and it satisfies the sparse invariant -/
theorem mem_toSparse {m : D} {r : Sparse.M} (hfit : m.nr ≤ r.nr ∧ m.nc ≤ r.nc) :
    Sparse.Inv (toSparse m r) ∧ ∀ i j, Sparse.Mem (toSparse m r) i j ↔ (i < m.nr ∧ j < m.nc ∧ bit m i j = true) := by
  unfold toSparse
  rw [if_neg (by omega)]
  -- the nested conditional loops are one fold over the list of one-cells in row-major order
  have hflat : (List.range m.nr).foldl (fun acc i =>
        (List.range m.nc).foldl (fun a j => if get m i j ≠ 0 then Sparse.insert' a i j else a) acc) (Sparse.clear r)
      = (((List.range m.nr).flatMap fun i => ((List.range m.nc).filter fun j => decide (get m i j ≠ 0)).map fun j => (i, j))).foldl
          (fun acc e => Sparse.insert' acc (id e).1 (id e).2) (Sparse.clear r) := by
    rw [List.foldl_flatMap]
    congr 1
    funext acc i
    rw [List.foldl_map]
    have := foldl_cond (fun j => decide (get m i j ≠ 0)) (fun a j => Sparse.insert' a i j) (List.range m.nc) acc
    simp only [decide_eq_true_eq] at this
    exact this
  rw [hflat]
  refine ⟨Sparse.foldl_insert_inv id _ (Sparse.clear_inv r).1, ?_⟩
  intro i j
  rw [Sparse.foldl_insert_mem]
  have hcl : ¬ Sparse.Mem (Sparse.clear r) i j := (Sparse.clear_inv r).2 i j
  have hdn : (Sparse.clear r).nr = r.nr ∧ (Sparse.clear r).nc = r.nc := ⟨rfl, rfl⟩
  constructor
  · rintro (⟨e, he, h1, h2, _, _⟩ | h)
    · simp only [List.mem_flatMap, List.mem_range, List.mem_map, List.mem_filter, decide_eq_true_eq] at he
      obtain ⟨i', hi', j', ⟨hj', hg⟩, rfl⟩ := he
      simp only [id] at h1 h2
      subst h1; subst h2
      exact ⟨hi', hj', (get_ne_zero m _ _).mp hg⟩
    · exact absurd h hcl
  · rintro ⟨hi, hj, hb⟩
    left
    refine ⟨(i, j), ?_, rfl, rfl, by rw [hdn.1]; omega, by rw [hdn.2]; omega⟩
    simp only [List.mem_flatMap, List.mem_range, List.mem_map, List.mem_filter, decide_eq_true_eq]
    exact ⟨i, hi, j, ⟨hj, (get_ne_zero m i j).mpr hb⟩, rfl⟩

end Dense
