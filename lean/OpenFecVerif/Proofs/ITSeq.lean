import OpenFecVerif.Proofs.ITAbs
/-!
Sequences of top-level submissions to the (value-free) iterative decoder: after ANY finite sequence of
submissions — any order, repetitions allowed — the set of known symbols is exactly the peeling closure
of the set of submitted symbols (when decoding is not complete), and decoding is complete exactly when
the closure contains every source symbol.
-/
namespace ITAbs

/-! ### monotonicity of the known set, without any invariant -/
theorem inject_known (s : St) (esi R : Nat) : (inject s esi R).1.known = s.known ∧ (inject s esi R).1.k = s.k ∧
    (inject s esi R).1.m = s.m := by
  obtain ⟨h1, h2, h3, _⟩ := inject_spec s esi R
  exact ⟨h1, h3, h2⟩

def MA (fuel : Nat) : Prop := ∀ s esi, (∀ e, s.known e = true → (decode fuel s esi).known e = true) ∧
    (decode fuel s esi).k = s.k ∧ (decode fuel s esi).m = s.m
def MB (fuel : Nat) : Prop := ∀ l s, (∀ e, s.known e = true → (drain fuel s l).known e = true) ∧
    (drain fuel s l).k = s.k ∧ (drain fuel s l).m = s.m

theorem MB_of_MA (fuel : Nat) (hA : MA fuel) : MB fuel := by
  intro l
  induction l with
  | nil => intro s; rw [drain_nil]; exact ⟨fun _ h => h, rfl, rfl⟩
  | cons r rest ih =>
    intro s
    rw [drain_cons]
    by_cases hc : s.complete = true
    · rw [if_pos hc]; exact ⟨fun _ h => h, rfl, rfl⟩
    · simp only [hc, Bool.false_eq_true, if_false]
      cases hrow : s.rows r with
      | nil => simp only []; exact ih s
      | cons e t =>
        cases t with
        | cons e2 t2 => simp only []; exact ih s
        | nil =>
          simp only []
          obtain ⟨a1, a2, a3⟩ := hA (s.consume r) e
          obtain ⟨b1, b2, b3⟩ := ih (decode fuel (s.consume r) e)
          exact ⟨fun x hx => b1 x (a1 x hx), b2.trans a2, b3.trans a3⟩

theorem MA_succ (fuel : Nat) (hB : MB fuel) : MA (fuel+1) := by
  intro s esi
  rw [decode_succ]
  by_cases hk : s.known esi = true
  · rw [if_pos hk]; exact ⟨fun _ h => h, rfl, rfl⟩
  · simp only [hk, Bool.false_eq_true, if_false]
    have hm : ∀ e, s.known e = true → (s.mark esi).known e = true := by
      intro e he; simp only [mark_known]; split <;> simp_all
    by_cases hc : (decide (esi < s.k) && (s.mark esi).complete) = true
    · simp only [hc, if_true]; exact ⟨hm, rfl, rfl⟩
    · simp only [hc, Bool.false_eq_true, if_false]
      obtain ⟨i1, i2, i3⟩ := inject_known (s.mark esi) esi (s.mark esi).m
      obtain ⟨b1, b2, b3⟩ := hB (inject (s.mark esi) esi (s.mark esi).m).2.reverse (inject (s.mark esi) esi (s.mark esi).m).1
      refine ⟨fun e he => b1 e (by rw [i1]; exact hm e he), b2.trans i2, b3.trans i3⟩

theorem MA_all : ∀ fuel, MA fuel
  | 0 => by intro s esi; rw [decode_zero]; exact ⟨fun _ h => h, rfl, rfl⟩
  | fuel+1 => MA_succ fuel (MB_of_MA fuel (MA_all fuel))

/-- a submission makes the submitted symbol known -/
theorem decode_knows (fuel : Nat) (s : St) (esi : Nat) : (decode (fuel+1) s esi).known esi = true := by
  rw [decode_succ]
  by_cases hk : s.known esi = true
  · simp only [hk, if_true]
  · simp only [hk, Bool.false_eq_true, if_false]
    have hme : (s.mark esi).known esi = true := by simp [mark_known]
    by_cases hc : (decide (esi < s.k) && (s.mark esi).complete) = true
    · simp only [hc, if_true]; exact hme
    · simp only [hc, Bool.false_eq_true, if_false]
      obtain ⟨i1, _, _⟩ := inject_known (s.mark esi) esi (s.mark esi).m
      exact ((MB_of_MA fuel (MA_all fuel)) _ _).1 esi (by rw [i1]; exact hme)

theorem drain_complete (fuel : Nat) (s : St) (l : List Nat) (hc : s.complete = true) : drain fuel s l = s := by
  cases l with
  | nil => rw [drain_nil]
  | cons r rest => rw [drain_cons]; simp [hc]

/-- on an already complete block a submission only records the symbol -/
theorem decode_on_complete (fuel : Nat) (s : St) (esi : Nat) (hc : s.complete = true) :
    (decode (fuel+1) s esi).complete = true ∧
    ∀ x, (decode (fuel+1) s esi).known x = true → s.known x = true ∨ x = esi := by
  rw [decode_succ]
  by_cases hk : s.known esi = true
  · simp only [hk, if_true]; exact ⟨hc, fun x hx => Or.inl hx⟩
  · simp only [hk, Bool.false_eq_true, if_false]
    have hmc : (s.mark esi).complete = true :=
      complete_mono s (s.mark esi) rfl (by intro e he; simp only [mark_known]; split <;> simp_all) hc
    have hmk : ∀ x, (s.mark esi).known x = true → s.known x = true ∨ x = esi := by
      intro x hx; simp only [mark_known] at hx
      by_cases hxe : x = esi
      · exact Or.inr hxe
      · simp only [hxe, if_false] at hx; exact Or.inl hx
    by_cases hcc : (decide (esi < s.k) && (s.mark esi).complete) = true
    · simp only [hcc, if_true]; exact ⟨hmc, hmk⟩
    · simp only [hcc, Bool.false_eq_true, if_false]
      obtain ⟨i1, i2, _⟩ := inject_known (s.mark esi) esi (s.mark esi).m
      have hic : (inject (s.mark esi) esi (s.mark esi).m).1.complete = true := by
        unfold St.complete; rw [i1, i2]; exact hmc
      rw [drain_complete _ _ _ hic]
      exact ⟨hic, fun x hx => hmk x (by rw [← i1]; exact hx)⟩

theorem filter_all (l : List Nat) : l.filter (fun _ => true) = l := by
  induction l with
  | nil => rfl
  | cons a t ih => simp [ih]

theorem filter_beq_singleton {l : List Nat} (hnd : l.Nodup) {e : Nat} (he : e ∈ l) :
    l.filter (fun x => x == e) = [e] := by
  induction l with
  | nil => cases he
  | cons a t ih =>
    rw [List.nodup_cons] at hnd
    by_cases hae : a = e
    · subst hae
      have : t.filter (fun x => x == a) = [] := by
        rw [List.filter_eq_nil_iff]
        intro x hx
        have : x ≠ a := fun h => hnd.1 (h ▸ hx)
        simpa using this
      simp [this]
    · have he' : e ∈ t := by
        cases he with
        | head => exact absurd rfl hae
        | tail _ h => exact h
      simp [hae, ih hnd.2 he']

/-! ### the specification: peeling closure -/
section seq
variable (H : Nat → List Nat) (n m k : Nat)

/-- well-formed system of equations (checked by evaluation on every matrix the model builds) -/
structure WF : Prop where
  lt : ∀ r e, e ∈ H r → e < n
  nodup : ∀ r, (H r).Nodup
  not_one : ∀ r, (H r).length ≠ 1
  beyond : ∀ r, m ≤ r → H r = []

/-- a set of symbols closed under peeling: an equation with all members but one in the set forces the last one in -/
def PeelClosed (D : Nat → Prop) : Prop := ∀ r e, e ∈ H r → (∀ e', e' ∈ H r → e' ≠ e → D e') → D e

/-- the peeling (iterative-erasure) closure of a received set: the least peel-closed superset -/
def InClosure (R : Nat → Prop) (e : Nat) : Prop := ∀ D : Nat → Prop, (∀ x, R x → D x) → PeelClosed H D → D e

theorem inClosure_of_mem (R : Nat → Prop) (e : Nat) (h : R e) : InClosure H R e := fun _ hR _ => hR e h
theorem inClosure_closed (R : Nat → Prop) : PeelClosed H (InClosure H R) := by
  intro r e he hall D hR hD
  exact hD r e he (fun e' he' hne => hall e' he' hne D hR hD)
theorem inClosure_mono (R R' : Nat → Prop) (h : ∀ x, R x → R' x) (e : Nat) (he : InClosure H R e) : InClosure H R' e :=
  fun D hR hD => he D (fun x hx => hR x (h x hx)) hD

def init : St := { m := m, k := k, rows := H, known := fun _ => false, armed := fun _ => false,
                   nbu := fun r => (H r).length }

/-- a top-level call of the decoder (fuel n+1 always suffices) -/
def submit (s : St) (esi : Nat) : St := decode (n + 1) s esi

/-- invariant between top-level calls; R = symbols submitted so far -/
structure Inv (R : Nat → Prop) (s : St) : Prop where
  hm : s.m = m
  hk : s.k = k
  recv : ∀ x, R x → s.known x = true
  sound : ∀ x, s.known x = true → InClosure H R x
  closed : s.complete = true ∨ (Good H s none ∧ ∀ r, r < m → (ul H s.known r).length ≠ 1)

theorem cnt_le (known : Nat → Bool) : cnt n known ≤ n := by
  unfold cnt
  calc ((List.range n).filter (fun e => !known e)).length ≤ (List.range n).length := List.length_filter_le _ _
    _ = n := List.length_range

theorem inv_init (wf : WF H n m) : Inv H m k (fun _ => False) (init H m k) := by
  refine ⟨rfl, rfl, fun x h => h.elim, fun x h => by simp [init] at h, Or.inr ⟨?_, ?_⟩⟩
  · rw [good_iff]
    intro r _
    refine ⟨fun h => by simp [init] at h, fun _ => Or.inl ⟨rfl, ?_, ?_⟩⟩
    · simp [init, ul, filter_all]
    · have := wf.not_one r
      simpa [init, ul, filter_all] using this
  · intro r _
    have := wf.not_one r
    simpa [init, ul, filter_all] using this

theorem inv_step (wf : WF H n m) (R : Nat → Prop) (s : St) (esi : Nat) (hn : esi < n) (inv : Inv H m k R s) :
    Inv H m k (fun x => R x ∨ x = esi) (submit n s esi) := by
  unfold submit
  have mono := (MA_all (n + 1) s esi)
  have hknows := decode_knows n s esi
  rcases inv.closed with hc | ⟨hg, hno⟩
  · -- already complete: the symbol is recorded, nothing else happens
    obtain ⟨c1, c2⟩ := decode_on_complete n s esi hc
    refine ⟨mono.2.2.trans inv.hm, mono.2.1.trans inv.hk, ?_, ?_, Or.inl c1⟩
    · intro x hx
      rcases hx with hx | hx
      · exact mono.1 x (inv.recv x hx)
      · rw [hx]; exact hknows
    · intro x hx
      rcases c2 x hx with h | h
      · exact inClosure_mono H R _ (fun y hy => Or.inl hy) x (inv.sound x h)
      · exact inClosure_of_mem H _ x (Or.inr h)
  · by_cases hk : s.known esi = true
    · -- duplicate (or already rebuilt) symbol: the call returns at once
      have hdec : decode (n + 1) s esi = s := by rw [decode_succ]; simp [hk]
      rw [hdec]
      refine ⟨inv.hm, inv.hk, ?_, ?_, Or.inr ⟨hg, hno⟩⟩
      · intro x hx
        rcases hx with hx | hx
        · exact inv.recv x hx
        · rw [hx]; exact hk
      · intro x hx
        exact inClosure_mono H R _ (fun y hy => Or.inl hy) x (inv.sound x hx)
    · have hk' : s.known esi = false := by simpa using hk
      have hnoA : ∀ r, r < s.m → ¬ Armed1 H s r := by
        intro r hr ha
        exact hno r (by rw [← inv.hm]; exact hr) ha.2
      obtain ⟨d1, d2, d3, d4, d5⟩ := decode_closed H n wf.lt (InClosure H (fun x => R x ∨ x = esi))
        (inClosure_closed H _) wf.nodup s esi (n + 1) hg hk' hn (Nat.le_succ_of_le (cnt_le n s.known)) hnoA
        (fun x hx => inClosure_mono H R _ (fun y hy => Or.inl hy) x (inv.sound x hx))
        (inClosure_of_mem H _ esi (Or.inr rfl))
      refine ⟨d2.trans inv.hm, d3.trans inv.hk, ?_, d5, ?_⟩
      · intro x hx
        rcases hx with hx | hx
        · exact d4 x (inv.recv x hx)
        · rw [hx]; exact hknows
      · rcases d1 with h | ⟨h1, h2⟩
        · exact Or.inl h
        · exact Or.inr ⟨h1, fun r hr => h2 r (by rw [inv.hm]; exact hr)⟩

/-- the decoder driven by a sequence of submissions -/
def run (l : List Nat) : St := l.foldl (submit n) (init H m k)

theorem inv_run (wf : WF H n m) (l : List Nat) (hl : ∀ e ∈ l, e < n) : Inv H m k (fun x => x ∈ l) (run H n m k l) := by
  unfold run
  suffices h : ∀ (l0 : List Nat) (s : St), Inv H m k (fun x => x ∈ l0) s → (∀ e ∈ l, e < n) →
      Inv H m k (fun x => x ∈ l0 ++ l) (l.foldl (submit n) s) by
    have := h [] (init H m k) (by simpa using inv_init H n m k wf) hl
    simpa using this
  induction l with
  | nil => intro l0 s hs _; simpa using hs
  | cons a t ih =>
    intro l0 s hs hlt
    simp only [List.foldl_cons]
    have hstep := inv_step H n m k wf _ s a (hlt a (by simp)) hs
    have hset : (fun x => x ∈ l0 ∨ x = a) = (fun x => x ∈ l0 ++ [a]) := by
      funext x; simp
    rw [hset] at hstep
    have := ih (fun e he => hl e (by simp [he])) (l0 ++ [a]) _ hstep (fun e he => hlt e (by simp [he]))
    simpa using this

/-- when decoding is not complete, the known set is a peel-closed superset of the received set -/
theorem known_closed (wf : WF H n m) (s : St) (hg : ∀ r, r < m → (ul H s.known r).length ≠ 1) :
    PeelClosed H (fun e => s.known e = true) := by
  intro r e he hall
  by_cases hr : r < m
  · cases hk : s.known e with
    | true => rfl
    | false =>
      exfalso
      apply hg r hr
      have : ul H s.known r = [e] := by
        unfold ul
        have hnd := wf.nodup r
        -- every member other than e is known, e is not
        have hf : ∀ x ∈ H r, (!s.known x) = (x == e) := by
          intro x hx
          by_cases hxe : x = e
          · subst hxe; simp [hk]
          · have := hall x hx hxe
            simp [this, hxe]
        rw [List.filter_congr hf]
        exact filter_beq_singleton hnd he
      rw [this]; rfl
  · have := wf.beyond r (by omega)
    rw [this] at he; cases he

/-- **Streaming decoding = peeling closure.**  After any sequence `l` of submissions:
(1) every known symbol is in the closure of the submitted set; (2) if decoding is not complete the known set IS
the closure; (3) decoding is complete exactly when the closure contains all k source symbols;
(4) in every case a source symbol is available exactly when it is in the closure. -/
theorem run_eq_closure (wf : WF H n m) (l : List Nat) (hl : ∀ e ∈ l, e < n) :
    let s := run H n m k l
    let R := fun x => x ∈ l
    (∀ e, s.known e = true → InClosure H R e) ∧
    (s.complete = false → ∀ e, s.known e = true ↔ InClosure H R e) ∧
    (s.complete = true ↔ ∀ i, i < k → InClosure H R i) ∧
    (∀ i, i < k → (s.known i = true ↔ InClosure H R i)) := by
  intro s R
  have inv := inv_run H n m k wf l hl
  have hk : s.k = k := inv.hk
  have hcomp_iff : s.complete = true ↔ ∀ i, i < k → s.known i = true := by
    unfold St.complete
    rw [List.all_eq_true, hk]
    constructor
    · intro h i hi; exact h i (List.mem_range.2 hi)
    · intro h i hi; exact h i (List.mem_range.1 hi)
  have heq : s.complete = false → ∀ e, s.known e = true ↔ InClosure H R e := by
    intro hnc e
    constructor
    · exact inv.sound e
    · intro he
      rcases inv.closed with hc | ⟨_, hno⟩
      · rw [hc] at hnc; cases hnc
      · exact he (fun x => s.known x = true) inv.recv (known_closed H n m wf s hno)
  refine ⟨inv.sound, heq, ?_, ?_⟩
  · constructor
    · intro hc i hi; exact inv.sound i (hcomp_iff.1 hc i hi)
    · intro hall
      cases hc : s.complete with
      | true => rfl
      | false =>
        have := hcomp_iff.2 (fun i hi => (heq hc i).2 (hall i hi))
        rw [hc] at this; cases this
  · intro i hi
    cases hc : s.complete with
    | true => exact ⟨fun h => inv.sound i h, fun _ => hcomp_iff.1 hc i hi⟩
    | false => exact heq hc i

end seq
end ITAbs
