import OpenFecVerif.Proofs.RfcTotal
import OpenFecVerif.Proofs.PrimRoot
import OpenFecVerif.Proofs.RandHit
/-!
# Every rejection loop of the RFC 5170 construction terminates (`RfcTotal.DrawTotal` for the binary64 standard model)

From any valid state s the loop sees the scaled outputs of pm s, pm (pm s), …; the j-th of these states is 16807^j · pm s mod P.
Since 16807 is a primitive root modulo the prime P = 2^31 − 1 (`PrimRoot.orbit`), one of the first P − 1 states is the state
`RandProofs.target m v` whose scaled output is the acceptable value v (`RandProofs.scaled_hit`).  The model's fuel is 2^31 > P − 1.
-/
namespace DrawTotalProof
open Rfc5170 RfcWF RfcTotal RandProofs Gen

/-- closed form of the state sequence the loop sees -/
theorem pm_pmIter (j : ℕ) : ∀ s, pm (pmIter j s) = 16807 ^ j * pm s % 2147483647 := by
  induction j with
  | zero => intro s; simp only [pmIter, pow_zero, one_mul]; unfold pm; rw [Nat.mod_mod]
  | succ j ih =>
    intro s
    simp only [pmIter]
    rw [ih (pm s)]
    show 16807 ^ j * (16807 * pm s % 2147483647) % 2147483647 = 16807 ^ (j + 1) * pm s % 2147483647
    rw [Nat.mul_mod, Nat.mod_mod, ← Nat.mul_mod, pow_succ, mul_assoc]

theorem pmIter_ok (j : ℕ) : ∀ s, SeedOk s → SeedOk (pmIter j s) := by
  induction j with
  | zero => intro s h; exact h
  | succ j ih => intro s h; exact ih _ (pm_range s h.1 h.2)

/-- if the draw made from the j-th state of the sequence is acceptable, a loop with more than j draws of fuel returns -/
theorem drawUntil_hits (rn : ℚ → ℚ) (m : ℕ) (accept : ℕ → Bool) :
    ∀ (j s : ℕ), SeedOk s → accept (of_rfc5170_rand rn (pmIter j s) m).2 = true → ∀ fuel, j < fuel →
      (drawUntil rn m accept fuel s).isSome = true := by
  intro j
  induction j with
  | zero =>
    intro s _ hacc fuel hf
    obtain ⟨f, rfl⟩ := Nat.exists_eq_succ_of_ne_zero (by omega : fuel ≠ 0)
    simp only [pmIter] at hacc
    simp only [drawUntil, hacc, if_true, Option.isSome_some]
  | succ j ih =>
    intro s hs hacc fuel hf
    obtain ⟨f, rfl⟩ := Nat.exists_eq_succ_of_ne_zero (by omega : fuel ≠ 0)
    simp only [drawUntil]
    split
    · rfl
    · simp only [pmIter] at hacc
      rw [step_ok rn s m hs.1 hs.2]
      exact ih (pm s) (pm_range s hs.1 hs.2) hacc f (by omega)

theorem drawTotal (rn : ℚ → ℚ) (h : RN53 rn) : DrawTotal rn := by
  intro m accept v s hm1 hm hv hacc hs
  obtain ⟨ht1, ht2, _, _⟩ := target_spec m v hm1 hm hv
  have hps := pm_range s hs.1 hs.2
  obtain ⟨j, hj, hjt⟩ := PrimRoot.orbit (pm s) (target m v) hps.1 (by unfold PrimRoot.P; omega) ht1 (by unfold PrimRoot.P; omega)
  have hP : PrimRoot.P = 2147483647 := rfl
  rw [hP] at hj hjt
  apply drawUntil_hits rn m accept j s hs
  · have hsj := pmIter_ok j s hs
    rw [out_eq, step_ok rn (pmIter j s) m hsj.1 hsj.2, pm_pmIter, hjt, scaled_hit rn h m v hm1 hm hv]
    exact hacc
  · unfold loopFuel; omega

end DrawTotalProof
