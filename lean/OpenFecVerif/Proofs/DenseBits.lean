import OpenFecVerif.Model.Dense
/-!
The word-level dense-matrix model (`Model/Dense.lean`) against the plain bit-matrix reading
`bit m r c = bit (c mod 32) of word (c div 32) of row r`.  Core Lean only.
-/
namespace Dense

/-- the bit-matrix reading of the packed words -/
def bit (m : D) (r c : Nat) : Bool := ((row m r).getD (c >>> 5) 0).testBit (c &&& 31)

theorem getbit_eq (w i : Nat) : getbit w i = (w.testBit i).toNat := by
  unfold getbit Nat.testBit
  rw [Nat.and_comm]
  have : 1 &&& (w >>> i) = (w >>> i) % 2 := by rw [Nat.and_comm]; exact Nat.and_one_is_mod _
  rw [this]
  rcases Nat.mod_two_eq_zero_or_one (w >>> i) with h | h <;> simp [h]

theorem get_eq (m : D) (r c : Nat) : get m r c = (bit m r c).toNat := by
  unfold get bit; exact getbit_eq _ _

theorem get_ne_zero (m : D) (r c : Nat) : (get m r c ≠ 0) ↔ bit m r c = true := by
  rw [get_eq]; cases bit m r c <;> simp

theorem W_eq : W = 2 ^ 32 := by decide

theorem tb_setbit1 (w i j : Nat) (hi : i < 32) (hj : j < 32) :
    (setbit1 w i).testBit j = (w.testBit j || decide (i = j)) := by
  unfold setbit1
  rw [W_eq, Nat.testBit_mod_two_pow, Nat.testBit_or, Nat.one_shiftLeft, Nat.testBit_two_pow]
  simp [hj]

theorem mask_eq : ∀ i, i < 32 → W - 1 - (1 <<< i) % W = (W - 1) ^^^ (2 ^ i) := by decide

theorem tb_setbit0 (w i j : Nat) (hi : i < 32) (hj : j < 32) :
    (setbit0 w i).testBit j = (w.testBit j && !decide (i = j)) := by
  unfold setbit0
  rw [mask_eq i hi, Nat.testBit_and, Nat.testBit_xor, Nat.testBit_two_pow]
  have : (W - 1).testBit j = true := by
    rw [W_eq, Nat.testBit_two_pow_sub_one]; simp [hj]
  rw [this]
  cases decide (i = j) <;> simp

theorem setbit1_lt (w i : Nat) : setbit1 w i < W := by
  unfold setbit1; exact Nat.mod_lt _ (by decide)

theorem setbit0_lt (w i : Nat) (h : w < W) : setbit0 w i < W := by
  unfold setbit0; exact Nat.lt_of_le_of_lt Nat.and_le_left h

theorem shift5 (c : Nat) : c >>> 5 = c / 32 := by rw [Nat.shiftRight_eq_div_pow]
theorem and31 (c : Nat) : c &&& 31 = c % 32 := by
  have := Nat.and_two_pow_sub_one_eq_mod c 5; simpa using this

/-- well-formedness: row length, word range, padding bits zero -/
structure WF (m : D) : Prop where
  nw_eq : m.nw = (m.nc + 31) / 32
  len : ∀ i, (row m i).length = m.nw
  lt : ∀ i, ∀ w ∈ row m i, w < W
  pad : ∀ i c, c ≥ m.nc → bit m i c = false

theorem word_lt {m : D} (h : WF m) {c : Nat} (hc : c < m.nc) : c / 32 < m.nw := by
  rw [h.nw_eq]; omega

theorem getD_zeros (n k : Nat) : (zeros n)[k]?.getD 0 = 0 := by
  unfold zeros
  simp only [List.getElem?_replicate]
  split <;> rfl

theorem get_mk_zeros (l : List Nat) (i : Nat) : (TMap.mk' l).get i = l := by
  simp [TMap.mk', TMap.get]

theorem bit_def (m : D) (r c : Nat) : bit m r c = ((m.rows.get r)[c >>> 5]?.getD 0).testBit (c &&& 31) := by
  simp [bit, row]

theorem mem_zeros {n w : Nat} (h : w ∈ zeros n) : w < W := by
  have := List.eq_of_mem_replicate h; subst this; decide

theorem alloc_wf {nr nc : Nat} {m : D} (h : alloc nr nc = some m) : WF m ∧ m.nr = nr ∧ m.nc = nc ∧ ∀ r c, bit m r c = false := by
  unfold alloc at h
  split at h
  · cases h
  · cases h
    have hb : ∀ r c, bit { nr := nr, nc := nc, nw := (nc + 31) >>> 5, rows := TMap.mk' (zeros ((nc + 31) >>> 5)) } r c = false := by
      intro r c; rw [bit_def]; simp only [get_mk_zeros, getD_zeros]; exact Nat.zero_testBit _
    refine ⟨⟨?_, ?_, ?_, ?_⟩, rfl, rfl, hb⟩
    · simp [shift5]
    · intro i; simp only [row, get_mk_zeros]; simp [zeros]
    · intro i w hw
      simp only [row, get_mk_zeros] at hw
      exact mem_zeros hw
    · intro i c _; exact hb i c

theorem clear_wf {m : D} (h : WF m) : WF (clear m) ∧ ∀ r c, bit (clear m) r c = false := by
  have hb : ∀ r c, bit (clear m) r c = false := by
    intro r c; rw [bit_def]; simp only [clear, get_mk_zeros, getD_zeros]; exact Nat.zero_testBit _
  refine ⟨⟨h.nw_eq, ?_, ?_, ?_⟩, hb⟩
  · intro i; simp only [row, clear, get_mk_zeros]; simp [zeros]
  · intro i w hw
    simp only [row, clear, get_mk_zeros] at hw
    exact mem_zeros hw
  · intro i c _; exact hb i c

theorem getD_set_list (l : List Nat) (k k' v : Nat) (hk : k < l.length) :
    (l.set k v)[k']?.getD 0 = if k' = k then v else l[k']?.getD 0 := by
  simp only [List.getElem?_set]
  by_cases h : k = k'
  · subst h; simp [hk]
  · have : ¬ k' = k := fun e => h e.symm
    simp [h, this]

theorem div_mod_eq {c c' : Nat} : (c' / 32 = c / 32 ∧ c' % 32 = c % 32) ↔ c' = c := by omega

theorem set_dims (m : D) (r c v : Nat) : (set' m r c v).nr = m.nr ∧ (set' m r c v).nc = m.nc ∧ (set' m r c v).nw = m.nw := by
  unfold set' set; split <;> exact ⟨rfl, rfl, rfl⟩

theorem set_out_of_range (m : D) (r c v : Nat) (h : r ≥ m.nr ∨ c ≥ m.nc) : set m r c v = (m, false) := by
  unfold set; simp [h]

theorem set_rows {m : D} {r c : Nat} (hr : r < m.nr) (hc : c < m.nc) (v : Nat) :
    (set' m r c v).rows = m.rows.set r ((m.rows.get r).set (c >>> 5)
      (if v ≠ 0 then setbit1 ((m.rows.get r)[c >>> 5]?.getD 0) (c &&& 31) else setbit0 ((m.rows.get r)[c >>> 5]?.getD 0) (c &&& 31))) := by
  unfold set' set
  have h1 : ¬ (r ≥ m.nr ∨ c ≥ m.nc) := by omega
  rw [if_neg h1]
  simp [row]

theorem tb_newword (w i j v : Nat) (hi : i < 32) (hj : j < 32) :
    (if v ≠ 0 then setbit1 w i else setbit0 w i).testBit j = if i = j then decide (v ≠ 0) else w.testBit j := by
  by_cases hv : v ≠ 0
  · rw [if_pos hv, tb_setbit1 _ _ _ hi hj]
    by_cases e : i = j <;> simp [e, hv]
  · rw [if_neg hv, tb_setbit0 _ _ _ hi hj]
    by_cases e : i = j <;> simp [e, hv]

/-- of_mod2dense_set, in range: exactly that bit becomes `v ≠ 0`; every other bit (padding included) is unchanged -/
theorem bit_set {m : D} (h : WF m) {r c : Nat} (hr : r < m.nr) (hc : c < m.nc) (v r' c' : Nat) :
    bit (set' m r c v) r' c' = if r' = r ∧ c' = c then decide (v ≠ 0) else bit m r' c' := by
  rw [bit_def, bit_def, set_rows hr hc, TMap.get_set]
  by_cases hr' : r' = r
  · subst hr'
    simp only [if_true, true_and]
    have hk : c >>> 5 < (m.rows.get r').length := by
      have := h.len r'; unfold row at this; rw [this, shift5]; exact word_lt h hc
    rw [getD_set_list _ _ _ _ hk]
    have hi : c &&& 31 < 32 := by rw [and31]; omega
    have hj : c' &&& 31 < 32 := by rw [and31]; omega
    by_cases hw : c' >>> 5 = c >>> 5
    · simp only [hw, if_true]
      rw [tb_newword _ _ _ _ hi hj]
      by_cases hcc : c' = c
      · subst hcc; simp
      · have hne : ¬ (c &&& 31 = c' &&& 31) := by
          rw [and31, and31]; rw [shift5, shift5] at hw
          intro e; exact hcc (div_mod_eq.mp ⟨hw, e.symm⟩)
        simp [hne, hcc]
    · have hcc : ¬ c' = c := fun e => hw (by rw [e])
      simp [hw, hcc]
  · simp [hr']

theorem set_wf {m : D} (h : WF m) (r c v : Nat) : WF (set' m r c v) := by
  by_cases h1 : r ≥ m.nr ∨ c ≥ m.nc
  · unfold set'; rw [set_out_of_range m r c v h1]; exact h
  · have hr : r < m.nr := by omega
    have hc : c < m.nc := by omega
    have hd := set_dims m r c v
    refine ⟨?_, ?_, ?_, ?_⟩
    · rw [hd.2.2, hd.2.1]; exact h.nw_eq
    · intro i
      unfold row; rw [set_rows hr hc, TMap.get_set, hd.2.2]
      split
      · rename_i e; subst e; rw [List.length_set]; exact h.len i
      · exact h.len i
    · intro i w hw
      unfold row at hw; rw [set_rows hr hc, TMap.get_set] at hw
      split at hw
      · rename_i e; subst e
        rcases List.mem_or_eq_of_mem_set hw with hw | hw
        · exact h.lt i w hw
        · subst hw
          split
          · exact setbit1_lt _ _
          · apply setbit0_lt
            by_cases hk : c >>> 5 < (m.rows.get i).length
            · rw [List.getElem?_eq_getElem hk, Option.getD_some]
              exact h.lt i _ (List.getElem_mem hk)
            · rw [List.getElem?_eq_none (Nat.le_of_not_lt hk), Option.getD_none]; decide
      · exact h.lt i w hw
    · intro i c' hc'
      rw [hd.2.1] at hc'
      rw [bit_set h hr hc]
      have : ¬ (i = r ∧ c' = c) := by omega
      rw [if_neg this]; exact h.pad i c' hc'

/-- of_mod2dense_flip: the addressed bit is inverted and returned, the rest is unchanged -/
theorem bit_flip {m : D} (h : WF m) {r c : Nat} (hr : r < m.nr) (hc : c < m.nc) (r' c' : Nat) :
    bit (flip m r c).1 r' c' = (if r' = r ∧ c' = c then !bit m r c else bit m r' c') ∧
    (flip m r c).2 = some (!bit m r c).toNat := by
  unfold flip
  have h1 : ¬ (r ≥ m.nr ∨ c ≥ m.nc) := by omega
  rw [if_neg h1]
  have hb : decide (1 ^^^ get m r c ≠ 0) = !bit m r c := by
    rw [get_eq]; cases bit m r c <;> rfl
  constructor
  · have := bit_set h hr hc (1 ^^^ get m r c) r' c'
    unfold set' at this; rw [this, hb]
  · show some (1 ^^^ get m r c) = _
    rw [get_eq]; cases bit m r c <;> rfl

theorem getD_zipWith_xor (a b : List Nat) (k : Nat) (hl : a.length = b.length) :
    (List.zipWith (· ^^^ ·) a b)[k]?.getD 0 = a[k]?.getD 0 ^^^ b[k]?.getD 0 := by
  induction a generalizing b k with
  | nil => cases b <;> simp at hl ⊢
  | cons x a ih =>
    cases b with
    | nil => simp at hl
    | cons y b =>
      cases k with
      | zero => simp
      | succ k =>
        have := ih b k (by simpa using hl)
        simpa using this

/-- of_mod2dense_xor_rows: row `to` becomes the bitwise sum of rows `to` and `from` -/
theorem bit_xorRows {m : D} (h : WF m) (f t r' c' : Nat) :
    bit (xorRows m f t) r' c' = if r' = t then (bit m t c' != bit m f c') else bit m r' c' := by
  rw [bit_def, bit_def, bit_def, bit_def]
  unfold xorRows row
  simp only [TMap.get_set]
  by_cases hr : r' = t
  · subst hr
    rw [if_pos rfl, if_pos rfl]
    have hl : (m.rows.get r').length = (m.rows.get f).length := by
      have a := h.len r'; have b := h.len f; unfold row at a b; rw [a, b]
    rw [getD_zipWith_xor _ _ _ hl, Nat.testBit_xor]
  · rw [if_neg hr, if_neg hr]

theorem xorRows_wf {m : D} (h : WF m) (f t : Nat) : WF (xorRows m f t) := by
  have hlt : (m.rows.get t).length = m.nw := h.len t
  have hlf : (m.rows.get f).length = m.nw := h.len f
  refine ⟨h.nw_eq, ?_, ?_, ?_⟩
  · intro i
    unfold xorRows row; simp only [TMap.get_set]
    split
    · rw [List.length_zipWith, hlt, hlf]; exact Nat.min_self _
    · exact h.len i
  · intro i w hw
    unfold xorRows row at hw; simp only [TMap.get_set] at hw
    split at hw
    · obtain ⟨k, hk, rfl⟩ := List.getElem_of_mem hw
      simp only [List.getElem_zipWith]
      have hk' : k < m.nw := by rw [List.length_zipWith, hlt, hlf, Nat.min_self] at hk; exact hk
      have ha := h.lt t _ (List.getElem_mem (by omega : k < (m.rows.get t).length))
      have hb := h.lt f _ (List.getElem_mem (by omega : k < (m.rows.get f).length))
      rw [W_eq] at *
      exact Nat.xor_lt_two_pow ha hb
    · exact h.lt i w hw
  · intro i c hc
    have hc' : c ≥ m.nc := hc
    rw [bit_xorRows h]
    split
    · rw [h.pad t c hc', h.pad f c hc']; rfl
    · exact h.pad i c hc'

/-- result of setting the rows `0 .. n-1` one after the other -/
theorem foldl_set_get (f : Nat → List Nat) (n : Nat) (t : TMap (List Nat)) (j : Nat) :
    ((List.range n).foldl (fun t i => t.set i (f i)) t).get j = if j < n then f j else t.get j := by
  induction n with
  | zero => simp
  | succ n ih =>
    rw [List.range_succ, List.foldl_append]
    simp only [List.foldl_cons, List.foldl_nil, TMap.get_set]
    by_cases hj : j = n
    · subst hj; simp
    · rw [ih]
      by_cases hlt : j < n
      · have : j < n + 1 := by omega
        simp [hj, hlt, this]
      · have : ¬ j < n + 1 := by omega
        simp [hj, hlt, this]

theorem getD_widen (src : List Nat) (a b k : Nat) (hlen : src.length = a) :
    (widen src a b)[k]?.getD 0 = if k < a then src[k]?.getD 0 else 0 := by
  unfold widen
  have ht : src.take a = src := by rw [← hlen]; exact List.take_length
  rw [ht]
  by_cases hk : k < a
  · rw [List.getElem?_append_left (by omega), if_pos hk]
  · rw [List.getElem?_append_right (by omega), if_neg hk]
    exact getD_zeros (b - a) (k - src.length)

/-- bit of a widened copy of row `s` of a well-formed matrix -/
theorem tb_widen {m : D} (hm : WF m) (s b j : Nat) :
    ((widen (m.rows.get s) m.nw b)[j >>> 5]?.getD 0).testBit (j &&& 31) = if j < m.nc then bit m s j else false := by
  rw [getD_widen _ _ _ _ (show (m.rows.get s).length = m.nw from hm.len s)]
  by_cases hj : j < m.nc
  · have := word_lt hm hj
    rw [if_pos hj, shift5, if_pos this, bit_def, shift5]
  · rw [if_neg hj]
    split
    · have := hm.pad s j (by omega); rw [bit_def] at this; exact this
    · exact Nat.zero_testBit _

/-- of_mod2dense_copy into a destination that is large enough: the source, padded with zeros -/
theorem bit_copy {m r : D} (hm : WF m) (hfit : m.nr ≤ r.nr ∧ m.nc ≤ r.nc) (i j : Nat) (hi : i < r.nr) :
    bit (copy m r) i j = if i < m.nr ∧ j < m.nc then bit m i j else false := by
  unfold copy
  have h1 : ¬ (m.nr > r.nr ∨ m.nc > r.nc) := by omega
  rw [if_neg h1, bit_def]
  simp only [foldl_set_get, hi, if_true, row]
  by_cases him : i < m.nr
  · rw [if_pos him, tb_widen hm]
    by_cases hj : j < m.nc
    · rw [if_pos hj, if_pos ⟨him, hj⟩]
    · rw [if_neg hj, if_neg (fun e => hj e.2)]
  · rw [if_neg him, if_neg (fun e => him e.1), getD_zeros]; exact Nat.zero_testBit _

/-- of_mod2dense_copyrows with a valid row list: row i of the result is row idx[i] of the source, zero padded -/
theorem bit_copyrows {m r : D} (hm : WF m) (hfit : m.nc ≤ r.nc) (idx : List Nat)
    (hv : ∀ i, i < r.nr → idx.getD i 0 < m.nr) (i j : Nat) :
    bit (copyrows m r idx) i j = if i < r.nr ∧ j < m.nc then bit m (idx.getD i 0) j else false := by
  unfold copyrows
  have h1 : ¬ m.nc > r.nc := by omega
  rw [if_neg h1]
  -- the loop never stops early
  have key : ∀ (n : Nat) (acc : D), n ≤ r.nr →
      ((List.range n).foldl (fun (acc : D × Bool) i =>
        if acc.2 then acc else
        if idx.getD i 0 ≥ m.nr then (acc.1, true)
        else ({ acc.1 with rows := acc.1.rows.set i (widen (row m (idx.getD i 0)) m.nw r.nw) }, false)) (acc, false))
      = ({ acc with rows := (List.range n).foldl (fun t i => t.set i (widen (row m (idx.getD i 0)) m.nw r.nw)) acc.rows }, false) := by
    intro n
    induction n with
    | zero => intro acc _; rfl
    | succ n ih =>
      intro acc hn
      rw [List.range_succ, List.foldl_append, List.foldl_append, ih acc (by omega)]
      have : ¬ idx.getD n 0 ≥ m.nr := by have := hv n (by omega); omega
      simp only [List.foldl_cons, List.foldl_nil, Bool.false_eq_true, if_false, this]
  show bit ((List.range r.nr).foldl (fun (acc : D × Bool) i =>
        if acc.2 then acc else
        if idx.getD i 0 ≥ m.nr then (acc.1, true)
        else ({ acc.1 with rows := acc.1.rows.set i (widen (row m (idx.getD i 0)) m.nw r.nw) }, false)) (clear r, false)).1 i j = _
  rw [key r.nr (clear r) (Nat.le_refl _), bit_def]
  simp only [foldl_set_get, row]
  by_cases hi : i < r.nr
  · rw [if_pos hi, tb_widen hm]
    by_cases hj : j < m.nc
    · rw [if_pos hj, if_pos ⟨hi, hj⟩]
    · rw [if_neg hj, if_neg (fun e => hj e.2)]
  · rw [if_neg hi, if_neg (fun e => hi e.1)]
    simp only [clear, get_mk_zeros, getD_zeros]; exact Nat.zero_testBit _

theorem rowIsEmpty_iff {m : D} (h : WF m) (i : Nat) : rowIsEmpty m i = true ↔ ∀ c, bit m i c = false := by
  unfold rowIsEmpty
  rw [List.all_eq_true]
  constructor
  · intro hall c
    rw [bit_def]
    by_cases hk : c >>> 5 < (m.rows.get i).length
    · have := hall _ (List.getElem_mem hk)
      rw [List.getElem?_eq_getElem hk, Option.getD_some]
      have : (m.rows.get i)[c >>> 5] = 0 := by simpa using this
      rw [this]; exact Nat.zero_testBit _
    · rw [List.getElem?_eq_none (Nat.le_of_not_lt hk), Option.getD_none]; exact Nat.zero_testBit _
  · intro hb w hw
    obtain ⟨k, hk, rfl⟩ := List.getElem_of_mem hw
    have hk2 : k < (m.rows.get i).length := hk
    have hz : ∀ b, (m.rows.get i)[k].testBit b = false := by
      intro b
      by_cases hb32 : b < 32
      · have := hb (32 * k + b)
        rw [bit_def, shift5, and31] at this
        have e1 : (32 * k + b) / 32 = k := by omega
        have e2 : (32 * k + b) % 32 = b := by omega
        rw [e1, e2, List.getElem?_eq_getElem hk2, Option.getD_some] at this
        exact this
      · have hlt := h.lt i _ (List.getElem_mem hk)
        rw [W_eq] at hlt
        exact Nat.testBit_lt_two_pow (Nat.lt_of_lt_of_le hlt (Nat.pow_le_pow_right (by decide) (by omega)))
    have : (m.rows.get i)[k] = 0 := Nat.eq_of_testBit_eq (by intro b; rw [hz b]; simp)
    show ((row m i)[k] == 0) = true
    simp [row, this]

end Dense
