import OpenFecVerif.Proofs.RfcWF
import OpenFecVerif.Proofs.Parity
/-!
# Column weights of the RFC 5170 matrix: why the "last repair symbol is null" flag is truthful for every configuration

When no extra entry was added, every source column of the matrix has exactly N1 entries (the degree-list filling puts N1
distinct rows in each column and nothing else touches source columns), repair column k+i has the two staircase entries
(rows i and i+1) except the last one, which has one.  Hence for even N1 every symbol but the last lies in an even number of
equations and the last in exactly one: the hypothesis `lastNullCheck` of `C15_truthful` holds for every matrix for which the
flag is reported.
-/
namespace RfcWeights
open Rfc5170 RfcWF

/-! ### every column receives exactly N1 rows -/

theorem addOne_len (rn : Rat → Rat) (r total : Nat) (f f' : Fill) (h : addOne rn r total f = some f') :
    f'.col.length = f.col.length + 1 := by
  unfold addOne at h
  simp only at h
  split at h
  · split at h
    · cases h
    · simp only [Option.some.injEq] at h; subst h; simp
  · split at h
    · cases h
    · simp only [Option.some.injEq] at h; subst h; simp

theorem addN_len (rn : Rat → Rat) (r total : Nat) : ∀ n (f f' : Fill), addN rn r total n f = some f' →
    f'.col.length = f.col.length + n := by
  intro n
  induction n with
  | zero => intro f f' h; simp only [addN, Option.some.injEq] at h; subst h; rfl
  | succ n ih =>
    intro f f' h
    simp only [addN] at h
    split at h
    · cases h
    · rename_i f1 h1
      rw [ih f1 f' h, addOne_len rn r total f f1 h1]; omega

theorem fold_cols_len (rn : Rat → Rat) (r total N1 : Nat) {α : Type} (l : List α)
    (g : Option (Fill × List (List Nat)) → α → Option (Fill × List (List Nat)))
    (hgdef : ∀ acc x, g acc x = match acc with
        | none => none
        | some (f, cols) =>
          match addN rn r total N1 { f with col := [] } with
          | none => none
          | some f' => some (f', cols ++ [f'.col])) :
    ∀ (f0 : Fill) (cols0 : List (List Nat)) (f : Fill) (cols : List (List Nat)), (∀ col ∈ cols0, col.length = N1) →
      l.foldl g (some (f0, cols0)) = some (f, cols) → ∀ col ∈ cols, col.length = N1 := by
  have hnone : ∀ (t : List α), t.foldl g none = none := by
    intro t; induction t with
    | nil => rfl
    | cons b t iht => simp only [List.foldl_cons, hgdef]; exact iht
  induction l with
  | nil =>
    intro f0 cols0 f cols hc h
    simp only [List.foldl_nil, Option.some.injEq, Prod.mk.injEq] at h
    obtain ⟨_, rfl⟩ := h
    exact hc
  | cons a t ih =>
    intro f0 cols0 f cols hc h
    simp only [List.foldl_cons] at h
    rw [hgdef] at h
    simp only at h
    cases h1 : addN rn r total N1 { f0 with col := [] } with
    | none => rw [h1] at h; simp only at h; rw [hnone] at h; cases h
    | some f1 =>
      rw [h1] at h
      simp only at h
      have hl := addN_len rn r total N1 _ f1 h1
      apply ih f1 (cols0 ++ [f1.col]) f cols _ h
      intro col hcol
      rcases List.mem_append.mp hcol with h2 | h2
      · exact hc col h2
      · simp only [List.mem_singleton] at h2; subst h2; simpa using hl

theorem fillCols_len (rn : Rat → Rat) (k r N1 seed : Nat) (s1 : Nat) (cols : List (List Nat)) (uneven : Nat)
    (h : fillCols rn k r N1 seed = some (s1, cols, uneven)) : ∀ col ∈ cols, col.length = N1 := by
  unfold fillCols at h
  simp only at h
  obtain ⟨pr, hpr, heq⟩ := Option.map_eq_some_iff.mp h
  obtain ⟨f, cs⟩ := pr
  simp only [Prod.mk.injEq] at heq
  obtain ⟨_, rfl, _⟩ := heq
  refine fold_cols_len rn r (N1 * k) N1 (List.range k) _ ?_ _ [] f cs (by intro c hc; cases hc) hpr
  intros; rfl

/-! ### the transposition, exactly -/

/-- row i holds column index x iff x was processed and row i is listed in column x -/
def MemInv (n s : Nat) (colOf : Nat → List Nat) (a : Array (List Nat)) : Prop :=
  ∀ i (h : i < a.size) x, x ∈ a[i] ↔ (n ≤ x + s ∧ x < n ∧ i ∈ colOf x)

theorem fold_mem (n : Nat) (colOf : Nat → List Nat) : ∀ (cs : List (List Nat)) (s : Nat) (a : Array (List Nat)),
    (∀ t (h : t < cs.length), cs[t] = colOf (n - 1 - (s + t))) → (∀ col ∈ cs, col.Nodup) → s + cs.length ≤ n →
    MemInv n s colOf a →
    MemInv n (s + cs.length) colOf ((cs.zipIdx s).foldl (fun (a : Array (List Nat)) (p : List Nat × Nat) =>
      p.1.foldl (fun a i => a.modify i (fun l => (n - 1 - p.2) :: l)) a) a) := by
  intro cs
  induction cs with
  | nil => intro s a _ _ _ inv; simpa using inv
  | cons c t ih =>
    intro s a hcs hnd hlen inv
    simp only [List.zipIdx_cons, List.foldl_cons, List.length_cons] at hlen ⊢
    have hc0 : c = colOf (n - 1 - s) := by have := hcs 0 (by simp); simpa using this
    have hstep : MemInv n (s + 1) colOf (inner a (n - 1 - s) c) := by
      intro i h x
      have hi : i < a.size := by rw [inner_size] at h; exact h
      rw [inner_get (n - 1 - s) c a (hnd c (by simp)) i hi]
      have hx := inv i hi x
      split
      · rename_i hic
        simp only [List.mem_cons]
        constructor
        · rintro (rfl | h1)
          · exact ⟨by omega, by omega, by rw [← hc0]; exact hic⟩
          · obtain ⟨q1, q2, q3⟩ := hx.mp h1; exact ⟨by omega, q2, q3⟩
        · rintro ⟨q1, q2, q3⟩
          by_cases hxe : x = n - 1 - s
          · exact Or.inl hxe
          · exact Or.inr (hx.mpr ⟨by omega, q2, q3⟩)
      · rename_i hic
        constructor
        · intro h1; obtain ⟨q1, q2, q3⟩ := hx.mp h1; exact ⟨by omega, q2, q3⟩
        · rintro ⟨q1, q2, q3⟩
          by_cases hxe : x = n - 1 - s
          · subst hxe; rw [← hc0] at q3; exact absurd q3 hic
          · exact hx.mpr ⟨by omega, q2, q3⟩
    have := ih (s + 1) (inner a (n - 1 - s) c)
      (by intro t' ht'
          have := hcs (t' + 1) (by simpa using ht')
          simp only [List.getElem_cons_succ] at this
          rw [this]; congr 1; omega)
      (fun col hc => hnd col (by simp [hc])) (by omega) hstep
    have e : s + 1 + t.length = s + (t.length + 1) := by omega
    rw [← e]; exact this

theorem rowsOf_mem (cols : List (List Nat)) (r : Nat) (hnd : ∀ col ∈ cols, col.Nodup) (i : Nat) (hi : i < r) (x : Nat) :
    x ∈ (rowsOf cols r).getD i [] ↔ (x < cols.length ∧ i ∈ cols.getD x []) := by
  unfold rowsOf
  simp only
  have h0 : MemInv cols.length 0 (fun x => cols.getD x []) (Array.replicate r ([] : List Nat)) := by
    intro i h x
    simp only [Array.getElem_replicate, List.not_mem_nil, false_iff]
    rintro ⟨q1, q2, _⟩; omega
  have hsz := (fold_rows cols.length cols.reverse 0 (Array.replicate r []) (fun col hc => hnd col (List.mem_reverse.mp hc)) (by simp)
    (by intro i h; simp)).2
  have hm := fold_mem cols.length (fun x => cols.getD x []) cols.reverse 0 (Array.replicate r [])
    (by intro t ht
        simp only [List.length_reverse] at ht
        rw [List.getElem_reverse]
        simp only [List.getD_eq_getElem?_getD, Nat.zero_add]
        rw [List.getElem?_eq_getElem (by omega)]
        rfl)
    (fun col hc => hnd col (List.mem_reverse.mp hc)) (by simp) h0
  simp only [Nat.zero_add, List.length_reverse] at hm hsz
  have hi' : i < ((cols.reverse.zipIdx 0).foldl (fun (a : Array (List Nat)) (p : List Nat × Nat) =>
      p.1.foldl (fun a i => a.modify i (fun l => (cols.length - 1 - p.2) :: l)) a) (Array.replicate r [])).size := by
    rw [hsz]; simpa using hi
  have := hm i hi' x
  rw [List.getD_eq_getElem?_getD, Array.getElem?_toList, Array.getElem?_eq_getElem hi', Option.getD_some, this]
  constructor
  · rintro ⟨_, q2, q3⟩; exact ⟨q2, q3⟩
  · rintro ⟨q2, q3⟩; exact ⟨by omega, q2, q3⟩


/-! ### nothing is added when the "extra entries" marker stays false -/

theorem fixRows_added (rn : Rat → Rat) (k : Nat) :
    ∀ (rows : List (List Nat)) (seed added : Nat) (done : List (List Nat)) (seed' : Nat) (rows2 : List (List Nat)) (added' : Nat),
      fixRows rn k rows seed added done = some (seed', rows2, added') →
      added ≤ added' ∧ (added' = added → rows2 = done ++ rows) := by
  intro rows
  induction rows with
  | nil =>
    intro seed added done seed' rows2 added' h
    simp only [fixRows, Option.some.injEq, Prod.mk.injEq] at h
    obtain ⟨_, rfl, rfl⟩ := h
    exact ⟨Nat.le_refl _, fun _ => by simp⟩
  | cons row rest ih =>
    intro seed added done seed' rows2 added' h
    simp only [fixRows] at h
    by_cases hemp : row.isEmpty = true
    · simp only [hemp, if_true] at h
      -- one entry is added: the counter grows
      split at h
      · split at h
        · cases h
        · have := (ih _ _ _ _ _ _ h).1
          exact ⟨by omega, fun e => by omega⟩
      · have := (ih _ _ _ _ _ _ h).1
        exact ⟨by omega, fun e => by omega⟩
    · have hemp' : row.isEmpty = false := by simpa using hemp
      simp only [hemp', Bool.false_eq_true, if_false] at h
      split at h
      · split at h
        · cases h
        · have := (ih _ _ _ _ _ _ h).1
          exact ⟨by omega, fun e => by omega⟩
      · obtain ⟨q1, q2⟩ := ih _ _ _ _ _ _ h
        exact ⟨q1, fun e => by rw [q2 e]; simp⟩

/-! ### counting -/

theorem filter_range_len (r : Nat) (col : List Nat) (hnd : col.Nodup) (hlt : ∀ x ∈ col, x < r) :
    ((List.range r).filter fun i => col.contains i).length = col.length := by
  apply List.Perm.length_eq
  rw [List.perm_ext_iff_of_nodup (List.nodup_range.filter _) hnd]
  intro a
  simp only [List.mem_filter, List.mem_range, List.contains_iff_mem]
  exact ⟨fun h => h.2, fun h => ⟨hlt a h, h⟩⟩

theorem colWeight_map (r : Nat) (f : Nat → List Nat) (e : Nat) :
    Parity.colWeight ((List.range r).map f) e = ((List.range r).filter fun i => (f i).contains e).length := by
  unfold Parity.colWeight
  rw [List.filter_map, List.length_map]
  rfl

/-- membership in an equation built by `mkRow` -/
theorem mkRow_contains_src (k i j : Nat) (src : List Nat) (hj : j < k) : (mkRow k i src).contains j = src.contains j := by
  unfold mkRow
  rw [Bool.eq_iff_iff]
  simp only [List.contains_iff_mem, List.mem_append]
  constructor
  · rintro (h | h)
    · exact h
    · split at h <;> simp at h <;> omega
  · exact Or.inl

theorem mkRow_contains_rep (k i t : Nat) (src : List Nat) (hsrc : ∀ e ∈ src, e < k) :
    (mkRow k i src).contains (k + t) = decide (i = t ∨ i = t + 1) := by
  unfold mkRow
  rw [Bool.eq_iff_iff]
  simp only [List.contains_iff_mem, List.mem_append, decide_eq_true_eq]
  constructor
  · rintro (h | h)
    · have := hsrc _ h; omega
    · split at h <;> simp at h <;> omega
  · intro h
    right
    split
    · simp; omega
    · simp; omega

theorem filter_two (r t : Nat) (ht : t < r) :
    ((List.range r).filter fun i => decide (i = t ∨ i = t + 1)).length = if t + 1 < r then 2 else 1 := by
  split
  · rename_i h
    have : ((List.range r).filter fun i => decide (i = t ∨ i = t + 1)).Perm [t, t + 1] := by
      rw [List.perm_ext_iff_of_nodup (List.nodup_range.filter _) (by simp)]
      intro a
      simp only [List.mem_filter, List.mem_range, decide_eq_true_eq, List.mem_cons, List.not_mem_nil, or_false]
      constructor
      · exact fun h => h.2
      · intro h; exact ⟨by omega, h⟩
    rw [this.length_eq]; rfl
  · rename_i h
    have : ((List.range r).filter fun i => decide (i = t ∨ i = t + 1)).Perm [t] := by
      rw [List.perm_ext_iff_of_nodup (List.nodup_range.filter _) (by simp)]
      intro a
      simp only [List.mem_filter, List.mem_range, decide_eq_true_eq, List.mem_cons, List.not_mem_nil, or_false]
      constructor
      · rintro ⟨h1, h2⟩; omega
      · intro h; exact ⟨by omega, Or.inl h⟩
    rw [this.length_eq]; rfl

/-- **Column weights of every matrix returned without extra entries**: each source column has N1 entries, each repair column two,
except the last which has one -/
theorem create_weights (rn : Rat → Rat) (hg : GoodRand rn) (g k r N1 seed : Nat) (hk : 1 ≤ k) (hr : 1 ≤ r) (hk63 : k < 2 ^ 63)
    (hr63 : r < 2 ^ 63) (ht63 : N1 * k < 2 ^ 63) (hseed : SeedOk seed) (g' : Nat) (M : Matrix)
    (h : create rn g k r N1 seed = (g', some M)) (hex : M.extra = false) :
    (∀ j, j < k → Parity.colWeight M.rows j = N1) ∧
    (∀ t, t < r → Parity.colWeight M.rows (k + t) = if t + 1 < r then 2 else 1) := by
  unfold create at h
  split at h
  · cases h
  · simp only at h
    have hs0 : Gen.of_rfc5170_srand g seed = seed := by
      unfold Gen.of_rfc5170_srand
      simp only [ge_iff_le, hseed.1, hseed.2, and_self, if_true]
    rw [hs0] at h
    split at h
    · cases h
    · rename_i s1 cols uneven hfill
      obtain ⟨hs1, hclen, hcols⟩ := fillCols_spec rn hg k r N1 seed hr hr63 ht63 hseed s1 cols uneven hfill
      have hcl := fillCols_len rn k r N1 seed s1 cols uneven hfill
      obtain ⟨hrl, hrows⟩ := rowsOf_spec cols r (fun col hc => (hcols col hc).1)
      split at h
      · cases h
      · rename_i s2 rows2 added hfix
        simp only [Prod.mk.injEq, Option.some.injEq] at h
        obtain ⟨_, rfl⟩ := h
        simp only [decide_eq_false_iff_not, ge_iff_le, Nat.not_le, Nat.lt_one_iff] at hex
        obtain ⟨_, hsame⟩ := fixRows_added rn k (rowsOf cols r) s1 0 [] s2 rows2 added hfix
        have hr2 : rows2 = rowsOf cols r := by simpa using hsame hex
        subst hr2
        simp only
        have hform : (List.map (fun i => (rowsOf cols r).getD i [] ++ if i = 0 then [k] else [k + i - 1, k + i]) (List.range r))
            = (List.range r).map (fun i => mkRow k i ((rowsOf cols r).getD i [])) := rfl
        rw [hform]
        have hsrclt : ∀ i, i < r → ∀ e ∈ (rowsOf cols r).getD i [], e < k := by
          intro i hi e he
          have hmem : (rowsOf cols r).getD i [] ∈ rowsOf cols r := by
            rw [List.getD_eq_getElem?_getD, List.getElem?_eq_getElem (by omega)]; exact List.getElem_mem _
          rw [← hclen]; exact (hrows _ hmem).2 e he
        constructor
        · intro j hj
          rw [colWeight_map]
          have hcolj : cols.getD j [] ∈ cols := by
            rw [List.getD_eq_getElem?_getD, List.getElem?_eq_getElem (by omega)]; exact List.getElem_mem _
          rw [← hcl _ hcolj, ← filter_range_len r (cols.getD j []) (hcols _ hcolj).1 (hcols _ hcolj).2]
          congr 1
          apply List.filter_congr
          intro i hi
          have hi' := List.mem_range.mp hi
          rw [mkRow_contains_src k i j _ hj, Bool.eq_iff_iff]
          simp only [List.contains_iff_mem]
          rw [rowsOf_mem cols r (fun col hc => (hcols col hc).1) i hi' j]
          exact ⟨fun h => h.2, fun h => ⟨by omega, h⟩⟩
        · intro t ht
          rw [colWeight_map, ← filter_two r t ht]
          congr 1
          apply List.filter_congr
          intro i hi
          exact mkRow_contains_rep k i t _ (hsrclt i (List.mem_range.mp hi))

end RfcWeights
