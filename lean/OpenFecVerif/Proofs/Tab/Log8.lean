import OpenFecVerif.Model.GF
import OpenFecVerif.Gen.Tab_of_gf_2_8_log
import OpenFecVerif.Gen.Tab_of_gf_2_8_exp
/-! The precomputed GF(2^8) logarithm table of the GF(2^m) codec (kept in its own file because the
pinned revision had a typo in it). -/
namespace Tab
open GF Gen
theorem Log8 : chkLog 32 of_gf_2_8_log 8 of_gf_2_8_exp 8 = true := by decide +kernel
end Tab
