import OpenFecVerif.Model.GF
import OpenFecVerif.Gen.Tab_of_gf_2_4_log
import OpenFecVerif.Gen.Tab_of_gf_2_4_exp
import OpenFecVerif.Gen.Tab_of_gf_2_4_inv
import OpenFecVerif.Gen.Tab_of_gf_2_4_mul_table
import OpenFecVerif.Gen.Tab_of_gf_2_4_opt_mul_table
import OpenFecVerif.Gen.Tab_of_gf_2_8_log
import OpenFecVerif.Gen.Tab_of_gf_2_8_exp
import OpenFecVerif.Gen.Tab_of_gf_2_8_inv
import OpenFecVerif.Gen.Tab_of_rs_gf_exp
import OpenFecVerif.Gen.Tab_of_rs_gf_log
import OpenFecVerif.Gen.Tab_of_rs_inverse
import OpenFecVerif.Gen.Limits
/-! All small tables, by kernel evaluation over their whole index range. -/
namespace Tab
open GF Gen
theorem shape4 : of_gf_2_4_mul_table_rows = 16 ∧ of_gf_2_4_mul_table_cols = 16 ∧ of_gf_2_4_opt_mul_table_rows = 16 ∧
    of_gf_2_4_opt_mul_table_cols = 256 ∧ of_gf_2_4_exp_cols = 16 ∧ of_gf_2_4_log_cols = 16 ∧ of_gf_2_4_inv_cols = 16 := by decide
theorem shape8 : of_gf_2_8_exp_cols = 256 ∧ 256 ≤ of_gf_2_8_log_cols ∧ of_gf_2_8_inv_cols = 256 := by decide
theorem shapeRs : of_rs_gf_exp_cols = 510 ∧ of_rs_gf_log_cols = 256 ∧ of_rs_inverse_cols = 256 ∧ RS_GF_BITS = 8 ∧
    RS_GF_SIZE = 255 ∧ RS_POLY = "101110001" := by decide
theorem Mul4 : chkMulRows 8 of_gf_2_4_mul_table mul4 16 0 16 = true := by decide +kernel
theorem Opt4 : chkMulRows 8 of_gf_2_4_opt_mul_table opt4 256 0 16 = true := by decide +kernel
theorem Exp4 : chkExp 8 of_gf_2_4_exp 16 4 poly4 = true := by decide +kernel
theorem Log4 : chkLog 8 of_gf_2_4_log 8 of_gf_2_4_exp 4 = true := by decide +kernel
theorem Inv4 : chkInv 8 of_gf_2_4_inv 4 poly4 = true := by decide +kernel
theorem Exp8 : chkExp 8 of_gf_2_8_exp 256 8 poly8 = true := by decide +kernel
theorem Inv8 : chkInv 8 of_gf_2_8_inv 8 poly8 = true := by decide +kernel
theorem RsExp : chkExp 8 of_rs_gf_exp 510 8 poly8 = true := by decide +kernel
theorem RsLog : chkLog 32 of_rs_gf_log 8 of_rs_gf_exp 8 = true := by decide +kernel
theorem RsInv : chkInv 8 of_rs_inverse 8 poly8 = true := by decide +kernel
theorem noOverflow : of_gf_2_8_log_overflow = [] ∧ of_rs_gf_log_overflow = [] := by decide
end Tab
