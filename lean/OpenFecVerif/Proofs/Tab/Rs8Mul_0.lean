import OpenFecVerif.Model.GF
import OpenFecVerif.Gen.Tab_of_gf_mul_table
/-! rows 0 .. 63 of `of_gf_mul_table` equal the bit-level product in GF(2)[x]/(x^8+x^4+x^3+x^2+1);
kernel evaluation (`decide +kernel`), no axiom beyond `propext`. -/
namespace Tab
theorem Rs8Mul_0 : GF.chkMulRows 8 Gen.of_gf_mul_table GF.mul8 256 0 64 = true := by decide +kernel
end Tab
