import OpenFecVerif.Model.GF
import OpenFecVerif.Gen.Tab_of_gf_2_8_mul_table
/-! rows 64 .. 127 of `of_gf_2_8_mul_table` equal the bit-level product in GF(2)[x]/(x^8+x^4+x^3+x^2+1);
kernel evaluation (`decide +kernel`), no axiom beyond `propext`. -/
namespace Tab
theorem Mul8_1 : GF.chkMulRows 8 Gen.of_gf_2_8_mul_table GF.mul8 256 64 64 = true := by decide +kernel
end Tab
