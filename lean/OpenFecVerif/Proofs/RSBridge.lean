import OpenFecVerif.Proofs.RSAbstract
import OpenFecVerif.Model.RS
import Mathlib.Tactic.Ring
/-!
Bridge between the executable Reed-Solomon model (`RS.G`, `RS.basisAt` on naturals, with the field
operations of an `RS.Fld`) and the abstract Reed-Solomon code over a Mathlib field.
`FieldModel` says that the naturals below `N` with xor / `Fl.mul` / `Fl.inv` are a faithful copy of a field.
-/
open Polynomial Finset

structure FieldModel (F : Type) [Field F] [DecidableEq F] (Fl : RS.Fld) where
  N : ℕ
  φ : ℕ → F
  φ_inj : ∀ a b, a < N → b < N → φ a = φ b → a = b
  φ_zero : φ 0 = 0
  φ_one : φ 1 = 1
  φ_xor : ∀ a b, a < N → b < N → φ (a ^^^ b) = φ a + φ b
  φ_mul : ∀ a b, a < N → b < N → φ (Fl.mul a b) = φ a * φ b
  φ_inv : ∀ a, a < N → φ (Fl.inv a) = (φ a)⁻¹
  xor_lt : ∀ a b, a < N → b < N → a ^^^ b < N
  mul_lt : ∀ a b, a < N → b < N → Fl.mul a b < N
  inv_lt : ∀ a, a < N → Fl.inv a < N
  one_lt : 1 < N
  pt_lt : ∀ i, RS.pt Fl i < N
  /-- the evaluation points of the first N−1 encoding symbols are pairwise distinct -/
  pt_inj : ∀ i j, i < N - 1 → j < N - 1 → RS.pt Fl i = RS.pt Fl j → i = j

namespace FieldModel
variable {F : Type} [Field F] [DecidableEq F] {Fl : RS.Fld} (M : FieldModel F Fl)

/-- evaluation point of symbol i in the field -/
def v (i : ℕ) : F := M.φ (RS.pt Fl i)

theorem v_injOn (n : ℕ) (hn : n ≤ M.N - 1) : Set.InjOn M.v (range n : Finset ℕ) := by
  intro i hi j hj h
  simp only [coe_range, Set.mem_Iio] at hi hj
  have := M.φ_inj _ _ (M.pt_lt i) (M.pt_lt j) h
  exact M.pt_inj i j (by omega) (by omega) this

theorem char_two_sub (_M : FieldModel F Fl) (a b : F) (h2 : ∀ x : F, x + x = 0) : a - b = a + b := by
  have : -b = b := by
    have := h2 b
    exact neg_eq_of_add_eq_zero_left this
  rw [sub_eq_add_neg, this]

theorem add_self (M : FieldModel F Fl) (x : F) : x + x = 0 := by
  -- x = φ-image?  not every x need be an image; use 1 + 1 = 0 instead
  have h11 : (1 : F) + 1 = 0 := by
    have := M.φ_xor 1 1 M.one_lt M.one_lt
    rw [Nat.xor_self, M.φ_zero, M.φ_one] at this
    exact this.symm
  calc x + x = x * (1 + 1) := by ring
    _ = 0 := by rw [h11, mul_zero]

theorem prodL_lt (l : List ℕ) (hl : ∀ a ∈ l, a < M.N) : RS.prodL Fl.mul l < M.N := by
  induction l with
  | nil => exact M.one_lt
  | cons a t ih =>
    simp only [RS.prodL, List.foldr_cons]
    exact M.mul_lt _ _ (hl a (by simp)) (ih (fun b hb => hl b (by simp [hb])))

theorem φ_prodL (l : List ℕ) (hl : ∀ a ∈ l, a < M.N) : M.φ (RS.prodL Fl.mul l) = (l.map M.φ).prod := by
  induction l with
  | nil => simp [RS.prodL, M.φ_one]
  | cons a t ih =>
    have ht : ∀ b ∈ t, b < M.N := fun b hb => hl b (by simp [hb])
    have e : RS.prodL Fl.mul (a :: t) = Fl.mul a (RS.prodL Fl.mul t) := rfl
    rw [e, List.map_cons, List.prod_cons, M.φ_mul _ _ (hl a (by simp)) (M.prodL_lt t ht), ih ht]

theorem term_lt (x i l : ℕ) (hx : x < M.N) :
    Fl.mul (x ^^^ RS.pt Fl l) (Fl.inv (RS.pt Fl i ^^^ RS.pt Fl l)) < M.N :=
  M.mul_lt _ _ (M.xor_lt _ _ hx (M.pt_lt l)) (M.inv_lt _ (M.xor_lt _ _ (M.pt_lt i) (M.pt_lt l)))

theorem φ_term (x i l : ℕ) (hx : x < M.N) :
    M.φ (Fl.mul (x ^^^ RS.pt Fl l) (Fl.inv (RS.pt Fl i ^^^ RS.pt Fl l)))
      = (M.φ x - M.v l) * (M.v i - M.v l)⁻¹ := by
  rw [M.φ_mul _ _ (M.xor_lt _ _ hx (M.pt_lt l)) (M.inv_lt _ (M.xor_lt _ _ (M.pt_lt i) (M.pt_lt l))),
      M.φ_inv _ (M.xor_lt _ _ (M.pt_lt i) (M.pt_lt l)),
      M.φ_xor _ _ hx (M.pt_lt l), M.φ_xor _ _ (M.pt_lt i) (M.pt_lt l)]
  rw [M.char_two_sub (M.φ x) (M.v l) M.add_self, M.char_two_sub (M.v i) (M.v l) M.add_self]
  rfl

theorem basisAt_lt (nodes : List ℕ) (i x : ℕ) (hx : x < M.N) : RS.basisAt Fl nodes i x < M.N := by
  unfold RS.basisAt
  apply M.prodL_lt
  intro a ha
  simp only [RS.terms, List.mem_map] at ha
  obtain ⟨l, _, rfl⟩ := ha
  exact M.term_lt x i l hx

/-- the executable Lagrange coefficient is the Lagrange basis polynomial evaluated at the point -/
theorem φ_basisAt (nodes : List ℕ) (hnd : nodes.Nodup) (i x : ℕ) (hx : x < M.N) :
    M.φ (RS.basisAt Fl nodes i x) = (Lagrange.basis nodes.toFinset M.v i).eval (M.φ x) := by
  unfold RS.basisAt
  rw [M.φ_prodL _ (by
    intro a ha
    simp only [RS.terms, List.mem_map] at ha
    obtain ⟨l, _, rfl⟩ := ha
    exact M.term_lt x i l hx)]
  simp only [RS.terms, List.map_map]
  rw [Lagrange.basis, eval_prod]
  have hnd' : (nodes.filter (fun l => l != i)).Nodup := hnd.filter _
  have hset : (nodes.filter (fun l => l != i)).toFinset = nodes.toFinset.erase i := by
    ext a; simp [and_comm]
  rw [← hset, List.prod_toFinset _ hnd']
  congr 1
  apply List.map_congr_left
  intro l _
  simp only [Function.comp]
  rw [M.φ_term x i l hx, Lagrange.basisDivisor, eval_mul, eval_C, eval_sub, eval_X, eval_C]
  ring

/-- generator entries are the Lagrange (= systematic Vandermonde) coefficients -/
theorem φ_G (k r i : ℕ) :
    M.φ (RS.G Fl k r i) = (Lagrange.basis (range k) M.v i).eval (M.v r) := by
  unfold RS.G
  rw [M.φ_basisAt (List.range k) List.nodup_range i _ (M.pt_lt r)]
  have : (List.range k).toFinset = range k := by ext a; simp
  rw [this]; rfl

/-- a codeword position computed with the model's generator: Σ_i G[r][i] · src i -/
noncomputable def cwModel (k : ℕ) (src : ℕ → F) (r : ℕ) : F := ∑ i ∈ range k, M.φ (RS.G Fl k r i) * src i

theorem cwModel_eq (k : ℕ) (src : ℕ → F) (r : ℕ) : M.cwModel k src r = RSA.cw k M.v src r := by
  unfold cwModel
  rw [RSA.cw_eq_sum]
  apply Finset.sum_congr rfl
  intro i _
  rw [M.φ_G]; ring

/-- decoding with the model's interpolation coefficients from any k distinct symbols (ESIs in `S`)
returns every source symbol: Σ_{s∈S} L_{S,s}(pt j) · cw s = src j -/
theorem decode_correct (k n : ℕ) (hn : n ≤ M.N - 1) (hk : k ≤ n) (src : ℕ → F)
    (S : List ℕ) (hnd : S.Nodup) (hS : ∀ s ∈ S, s < n) (hlen : S.length = k) (j : ℕ) (hj : j < k) :
    (S.map fun s => M.φ (RS.basisAt Fl S s (RS.pt Fl j)) * M.cwModel k src s).sum = src j := by
  have hv := M.v_injOn n hn
  have hsub : S.toFinset ⊆ range n := by
    intro s hs; simp only [List.mem_toFinset] at hs; simpa using hS s hs
  have hcard : S.toFinset.card = k := by rw [List.toFinset_card_of_nodup hnd, hlen]
  have key := RSA.mds_source k n M.v hv hk src S.toFinset hsub hcard j hj
  rw [Lagrange.interpolate_apply, eval_finsetSum] at key
  rw [← key, ← List.sum_toFinset _ hnd]
  apply Finset.sum_congr rfl
  intro s _
  rw [M.φ_basisAt S hnd s _ (M.pt_lt j), M.cwModel_eq, eval_mul, eval_C]
  simp only [FieldModel.v]
  ring

end FieldModel
