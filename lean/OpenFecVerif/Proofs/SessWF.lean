import OpenFecVerif.Proofs.RfcWF
import OpenFecVerif.Proofs.MLComplete
import OpenFecVerif.Proofs.ITExec
namespace SessWF
open Api

variable {σ : Type}

theorem decode_k (O : Ops σ) (fuel : Nat) (s : IT.St σ) (esi : Nat) (v : σ) : (IT.decode O fuel s esi v).k = s.k := by
  have h := ITRefine.decode_refines O fuel s esi v
  have h2 := (ITAbs.MA_all fuel (ITRefine.abs s) esi).2.1
  have : (ITRefine.abs (IT.decode O fuel s esi v)).k = (ITRefine.abs s).k := by rw [h]; exact h2
  exact this

/-- **Every accepted LDPC-Staircase configuration yields a session that meets the hypotheses of the decoder theorems.**
If `of_set_fec_parameters` (session model) returns OK on an LDPC-Staircase session, the session's equations are r = n−k in number,
duplicate-free, within 0..n−1, staircase shaped, and the decoder state is initialised for k source symbols. -/
theorem configured_structure (IO : SymIO σ) (hgood : RfcWF.GoodRand CSem.rne53) (g : Nat) (s : Session σ) (p : Params) (g' : Nat)
    (s' : Session σ) (hc : s.codec = 3) (h : setParamsStd IO g s p = (g', Status.ok, s')) :
    s'.H.length = p.r ∧ MLComplete.WFH s'.H (p.k + p.r) ∧ (∀ row ∈ s'.H, row.length ≠ 1) ∧ stairCheck p.k s'.H = true ∧
    s'.mlConsumed = s.mlConsumed ∧ ∃ it, s'.it = some it ∧ it.k = p.k := by
  unfold setParamsStd at h
  simp only [hc] at h
  split at h
  · cases h
  · rename_i hlim
    have hlim' : withinLimits 3 p = true := by simpa using hlim
    unfold withinLimits maxK maxN at hlim'
    simp only [Bool.and_eq_true, decide_eq_true_eq, Bool.or_eq_true, bne_iff_ne, ne_eq, beq_iff_eq] at hlim'
    obtain ⟨⟨⟨⟨⟨⟨hk1, hr1⟩, _⟩, hkmax⟩, hnmax⟩, _⟩, hldpc⟩ := hlim'
    have hl := hldpc.resolve_left (by decide)
    obtain ⟨⟨⟨hN1, hN1r⟩, hs1⟩, hs2⟩ := hl
    have hkmax' : p.k ≤ 50000 := by simpa [Gen.LDPC_MAX_K] using hkmax
    have hnmax' : p.k + p.r ≤ 50000 := by simpa [Gen.LDPC_MAX_N] using hnmax
    simp only [beq_self_eq_true, if_true] at h
    split at h
    · cases h
    · rename_i g2 M hM
      simp only [Prod.mk.injEq] at h
      obtain ⟨_, _, rfl⟩ := h
      have hseed : RfcWF.SeedOk p.seed.toNat := by
        constructor <;> omega
      have hmul : p.N1 * p.k < 2 ^ 63 := by
        have : p.N1 * p.k ≤ 50000 * 50000 := Nat.mul_le_mul (by omega) hkmax'
        omega
      obtain ⟨q1, q2, q3⟩ := RfcWF.create_wf CSem.rne53 hgood g p.k p.r p.N1 p.seed.toNat hk1 hr1 (by omega) (by omega) hmul hseed g2 M hM
      refine ⟨q1, fun row hrow => ⟨(q2 row hrow).1, (q2 row hrow).2.1⟩, fun row hrow => (q2 row hrow).2.2, q3, rfl, ?_⟩
      simp only
      split
      · exact ⟨_, rfl, by unfold IT.submit; rw [decode_k]; rfl⟩
      · exact ⟨_, rfl, rfl⟩

end SessWF
