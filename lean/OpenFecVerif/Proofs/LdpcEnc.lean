import OpenFecVerif.Proofs.Parity
import OpenFecVerif.Model.Api
import OpenFecVerif.Proofs.ListHelper
/-!
The LDPC-Staircase encoder model `Api.ldpcEncode` produces a word that satisfies every parity-check
equation, for every staircase-shaped system of equations and every source block.
-/
namespace LdpcEnc
open Api
variable {V : Type} [AddCommGroup V]

/-- staircase shape: equation i contains its own repair symbol k+i, and only symbols with smaller ESI besides -/
structure Stair (k : ℕ) (H : List (List ℕ)) : Prop where
  nodup : ∀ i, i < H.length → (H.getD i []).Nodup
  own : ∀ i, i < H.length → (k + i) ∈ H.getD i []
  lower : ∀ i, i < H.length → ∀ e ∈ H.getD i [], e ≠ k + i → e < k + i

/-- one encoding step: append repair symbol i -/
def stepEnc (k : ℕ) (H : List (List ℕ)) (cw : List V) (i : ℕ) : List V :=
  let row := H.getD i []
  let v := row.foldl (fun acc e => if e == k + i then acc else (grpOps V).add acc (cw.getD e (grpOps V).zero)) (grpOps V).zero
  cw ++ [v]

theorem ldpcEncode_eq (k : ℕ) (H : List (List ℕ)) (src : List V) :
    ldpcEncode (grpOps V) k H src = (List.range H.length).foldl (stepEnc k H) src := rfl

def encUpTo (k : ℕ) (H : List (List ℕ)) (src : List V) (t : ℕ) : List V := (List.range t).foldl (stepEnc k H) src

theorem encUpTo_succ (k : ℕ) (H : List (List ℕ)) (src : List V) (t : ℕ) :
    encUpTo k H src (t + 1) = stepEnc k H (encUpTo k H src t) t := by
  simp [encUpTo, List.range_succ, List.foldl_append]

theorem encUpTo_length (k : ℕ) (H : List (List ℕ)) (src : List V) (hs : src.length = k) (t : ℕ) :
    (encUpTo k H src t).length = k + t := by
  induction t with
  | zero => simpa [encUpTo] using hs
  | succ t ih => rw [encUpTo_succ]; simp [stepEnc, ih]; omega

theorem getD_append_left' (l1 l2 : List V) (d : V) (i : ℕ) (h : i < l1.length) : (l1 ++ l2).getD i d = l1.getD i d := by
  simp [List.getD_eq_getElem?_getD, List.getElem?_append_left h]

theorem getD_append_at (l1 : List V) (x d : V) : (l1 ++ [x]).getD l1.length d = x := by
  simp [List.getD_eq_getElem?_getD]

theorem fold_skip (row : List ℕ) (p : ℕ → Bool) (f : ℕ → V) (a : V) :
    row.foldl (fun acc e => if p e then acc else (grpOps V).add acc (f e)) a = a + ((row.filter (fun e => !p e)).map f).sum := by
  induction row generalizing a with
  | nil => simp
  | cons x t ih =>
    simp only [List.foldl_cons]
    by_cases hp : p x = true
    · simp only [hp, if_true]
      rw [ih, List.filter_cons_of_neg (by simp [hp])]
    · have hp' : p x = false := by simpa using hp
      simp only [hp', Bool.false_eq_true, if_false]
      rw [ih, List.filter_cons_of_pos (by simp [hp'])]
      simp only [grpOps, List.map_cons, List.sum_cons]
      abel

/-- symbols already produced never change -/
theorem stable (k : ℕ) (H : List (List ℕ)) (src : List V) (hs : src.length = k) (t t' : ℕ) (h : t ≤ t') (e : ℕ) (he : e < k + t) :
    (encUpTo k H src t').getD e 0 = (encUpTo k H src t).getD e 0 := by
  induction t' with
  | zero => have : t = 0 := by omega
            subst this; rfl
  | succ t' ih =>
    by_cases htt : t = t' + 1
    · subst htt; rfl
    · rw [encUpTo_succ]
      have hl := encUpTo_length k H src hs t'
      simp only [stepEnc]
      rw [getD_append_left' _ _ _ _ (by rw [hl]; omega)]
      exact ih (by omega)

theorem value_at (k : ℕ) (H : List (List ℕ)) (src : List V) (hs : src.length = k) (t : ℕ) :
    (encUpTo k H src (t + 1)).getD (k + t) 0 =
      (((H.getD t []).filter (fun e => !(e == k + t))).map fun e => (encUpTo k H src t).getD e 0).sum := by
  rw [encUpTo_succ]
  have hl := encUpTo_length k H src hs t
  simp only [stepEnc]
  rw [← hl, getD_append_at, hl]
  rw [fold_skip]
  simp [grpOps]

variable (h2 : ∀ v : V, v + v = 0)

include h2 in
/-- every parity-check equation sums to zero over the encoder's output -/
theorem parity (k : ℕ) (H : List (List ℕ)) (hst : Stair k H) (src : List V) (hs : src.length = k) (i : ℕ) (hi : i < H.length) :
    ((H.getD i []).map fun e => (ldpcEncode (grpOps V) k H src).getD e 0).sum = 0 := by
  rw [ldpcEncode_eq]
  show ((H.getD i []).map fun e => (encUpTo k H src H.length).getD e 0).sum = 0
  set row := H.getD i [] with hrow
  have hnd := hst.nodup i hi
  have hown := hst.own i hi
  -- split the row into its own repair symbol and the rest
  have hsplit : ∀ f : ℕ → V, (row.map f).sum = f (k + i) + ((row.filter (fun e => !(e == k + i))).map f).sum := by
    intro f
    have hperm : row.Perm ((k + i) :: row.filter (fun e => !(e == k + i))) := by
      have h1 := List.filter_append_perm (fun e => e == k + i) row
      have h2' : row.filter (fun e => e == k + i) = [k + i] := by
        have := ITAbsHelper.filter_beq_singleton hnd hown
        exact this
      rw [h2'] at h1
      exact h1.symm
    rw [(hperm.map f).sum_eq]; simp
  rw [hsplit]
  have hv : (encUpTo k H src H.length).getD (k + i) 0 = (encUpTo k H src (i + 1)).getD (k + i) 0 :=
    stable k H src hs (i + 1) H.length (by omega) (k + i) (by omega)
  rw [hv, value_at k H src hs i]
  have hrest : ((row.filter (fun e => !(e == k + i))).map fun e => (encUpTo k H src H.length).getD e 0)
      = ((row.filter (fun e => !(e == k + i))).map fun e => (encUpTo k H src i).getD e 0) := by
    apply List.map_congr_left
    intro e he
    have hmem := (List.mem_filter.1 he)
    have hne : e ≠ k + i := by simpa using hmem.2
    exact stable k H src hs i H.length (by omega) e (hst.lower i hi e hmem.1 hne)
  rw [hrest, ← hrow]
  exact h2 _

end LdpcEnc

namespace LdpcEnc
open Api
variable {V : Type} [AddCommGroup V] (h2 : ∀ v : V, v + v = 0)

include h2 in
/-- … and it is the only word that does so and agrees with the source block: the repair symbols are the
unique values that make every parity-check equation sum to zero -/
theorem unique (k : ℕ) (H : List (List ℕ)) (hst : Stair k H) (src : List V) (hs : src.length = k)
    (x : ℕ → V) (hx : ∀ i, i < H.length → ((H.getD i []).map x).sum = 0)
    (hsrc : ∀ j, j < k → x j = (ldpcEncode (grpOps V) k H src).getD j 0) :
    ∀ e, e < k + H.length → x e = (ldpcEncode (grpOps V) k H src).getD e 0 := by
  intro e
  induction e using Nat.strong_induction_on with
  | _ e ih =>
    intro he
    by_cases hek : e < k
    · exact hsrc e hek
    · obtain ⟨i, rfl⟩ : ∃ i, e = k + i := ⟨e - k, by omega⟩
      have hi : i < H.length := by omega
      set cwf := fun e => (ldpcEncode (grpOps V) k H src).getD e 0 with hcwf
      have hnd := hst.nodup i hi
      have hown := hst.own i hi
      have hsplit : ∀ f : ℕ → V, ((H.getD i []).map f).sum =
          f (k + i) + (((H.getD i []).filter (fun e => !(e == k + i))).map f).sum := by
        intro f
        have hperm : (H.getD i []).Perm ((k + i) :: (H.getD i []).filter (fun e => !(e == k + i))) := by
          have h1 := List.filter_append_perm (fun e => e == k + i) (H.getD i [])
          rw [ITAbsHelper.filter_beq_singleton hnd hown] at h1
          exact h1.symm
        rw [(hperm.map f).sum_eq]; simp
      have e1 := hx i hi
      have e2 := parity h2 k H hst src hs i hi
      rw [hsplit] at e1 e2
      have hrest : (((H.getD i []).filter (fun e => !(e == k + i))).map x)
          = (((H.getD i []).filter (fun e => !(e == k + i))).map cwf) := by
        apply List.map_congr_left
        intro e' he'
        have hmem := List.mem_filter.1 he'
        have hne : e' ≠ k + i := by simpa using hmem.2
        have hlt := hst.lower i hi e' hmem.1 hne
        exact ih e' hlt (by omega)
      rw [hrest] at e1
      -- x(k+i) + S = 0 and cw(k+i) + S = 0  ⇒  x(k+i) = cw(k+i)
      have : x (k + i) = cwf (k + i) := by
        have h3 : x (k + i) + ((((H.getD i []).filter (fun e => !(e == k + i))).map cwf).sum) =
            cwf (k + i) + ((((H.getD i []).filter (fun e => !(e == k + i))).map cwf).sum) := by
          rw [e1]; exact e2.symm
        exact add_right_cancel h3
      exact this

end LdpcEnc
