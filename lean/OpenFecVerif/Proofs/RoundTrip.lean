import OpenFecVerif.Proofs.LdpcEnc
import OpenFecVerif.Proofs.MLSound
/-!
# Encoder and decoder together: what an LDPC-Staircase / 2D decoder session holds is what the encoder was given

`sent e` is entry e of the encoder model's output (`Api.ldpcEncode`) on a source block `src`.  For a staircase-shaped,
duplicate-free system of equations the encoder output satisfies every equation (`LdpcEnc.parity`), hence it is a `Codeword`
for the decoder theorems; so whatever symbols are submitted, in whatever order, with or without `of_finish_decoding`, every
source symbol the decoder session holds is the source symbol that was encoded.
-/
namespace RoundTrip
open Api Gauss ITSound MLSound

variable {V : Type} [AddCommGroup V] (h2 : ∀ v : V, v + v = 0)

include h2 in
theorem lawful_grpOps : Lawful (grpOps V) :=
  ⟨fun a b c => add_assoc a b c, fun a b => add_comm a b, fun a => add_zero a, fun a => h2 a⟩

theorem S_eq_sum (sent : Nat → V) (row : List Nat) : S (grpOps V) sent row = (row.map sent).sum := by
  unfold S
  have : ∀ (l : List Nat) (c : V), l.foldl (fun c e => (grpOps V).add c (sent e)) c = c + (l.map sent).sum := by
    intro l
    induction l with
    | nil => intro c; simp
    | cons a t ih =>
      intro c
      simp only [List.foldl_cons, List.map_cons, List.sum_cons]
      rw [ih]
      show c + sent a + _ = _
      rw [add_assoc]
  rw [this]
  show (0 : V) + _ = _
  rw [zero_add]

theorem stair_of_stairCheck (k : Nat) (H : List (List Nat)) (h : Api.stairCheck k H = true) : LdpcEnc.Stair k H := by
  unfold Api.stairCheck at h
  rw [List.all_eq_true] at h
  refine ⟨?_, ?_, ?_⟩
  · intro i hi
    have := h i (List.mem_range.mpr hi)
    simp only [Bool.and_eq_true, decide_eq_true_eq] at this
    exact this.1.1
  · intro i hi
    have := h i (List.mem_range.mpr hi)
    simp only [Bool.and_eq_true, decide_eq_true_eq, List.contains_iff_mem] at this
    simpa using this.1.2
  · intro i hi e he hne
    have := h i (List.mem_range.mpr hi)
    simp only [Bool.and_eq_true, List.all_eq_true, Bool.or_eq_true, beq_iff_eq, decide_eq_true_eq] at this
    rcases this.2 e he with h1 | h1
    · exact absurd h1 hne
    · exact h1

include h2 in
/-- the encoder model's output is a codeword in the sense of the decoder theorems -/
theorem encoder_codeword (k : Nat) (H : List (List Nat)) (hwf : ∀ row ∈ H, row.Nodup ∧ ∀ e ∈ row, e < k + H.length)
    (hst : Api.stairCheck k H = true) (src : List V) (hs : src.length = k) :
    Codeword (grpOps V) (fun e => (ldpcEncode (grpOps V) k H src).getD e 0) (k + H.length) H := by
  intro row hrow
  refine ⟨(hwf row hrow).1, (hwf row hrow).2, ?_⟩
  obtain ⟨i, hi, rfl⟩ := List.mem_iff_getElem.mp hrow
  rw [S_eq_sum]
  have := LdpcEnc.parity h2 k H (stair_of_stairCheck k H hst) src hs i hi
  have hget : H.getD i [] = H[i] := by simp [List.getD_eq_getElem?_getD, List.getElem?_eq_getElem hi]
  rw [hget] at this
  exact this


theorem encode_systematic (k : Nat) (H : List (List Nat)) (src : List V) (hs : src.length = k) (e : Nat) (he : e < k) :
    (ldpcEncode (grpOps V) k H src).getD e 0 = src.getD e 0 := by
  rw [LdpcEnc.ldpcEncode_eq]
  exact LdpcEnc.stable k H src hs 0 H.length (Nat.zero_le _) e (by omega)

include h2 in
/-- **Round trip.**  Configure a decoder session with a staircase-shaped, duplicate-free system of equations; let the block be the
encoder model's output on `src`.  After any sequence of submissions of symbols of that block (any subset, order, duplicates, either
API) and `of_finish_decoding` calls, every source symbol the session holds is the corresponding entry of `src`. -/
theorem ldpc_roundtrip (IO : SymIO V) (p : Params) (hops : IO.ops 3 p.m p.len = grpOps V) (s : Session V) (it : IT.St V)
    (hit : s.it = some it) (hHlen : s.H.length = p.r) (hwf : ∀ row ∈ s.H, row.Nodup ∧ ∀ e ∈ row, e < p.k + s.H.length)
    (hst : stairCheck p.k s.H = true) (src : List V) (hs : src.length = p.k)
    (inv : VInv (grpOps V) (fun e => (ldpcEncode (grpOps V) p.k s.H src).getD e 0) it) (ops : List DecOp) :
    ∃ it', (runDec IO p (fun e => (ldpcEncode (grpOps V) p.k s.H src).getD e 0) s ops).it = some it' ∧
      ∀ e v, e < p.k → it'.sym.get e = some v → v = src.getD e 0 := by
  have hcw := encoder_codeword h2 p.k s.H hwf hst src hs
  rw [hHlen] at hcw
  obtain ⟨it', h1, h2'⟩ := runDec_sound IO p _ (by rw [hops]; exact lawful_grpOps h2) ops s it hit (by rw [hops]; exact inv)
    (by rw [hops]; exact hcw)
  refine ⟨it', h1, ?_⟩
  intro e v he hv
  rw [h2'.sym_ok e v hv]
  exact encode_systematic p.k s.H src hs e he

end RoundTrip
