import OpenFecVerif.Proofs.MLSound
/-!
# `of_finish_decoding` on LDPC-Staircase / 2D sessions: status, completion and callback events

Over `MLSound.ldpcFinish'` (definitionally `Api.ldpcFinish`): the status is OK exactly when decoding is complete afterwards and
FAILURE exactly when it is not; completion never reverts; the events reported (one per decoded source symbol) are exactly the
source symbols that were unknown before the call, each once, and all of them are known afterwards.
-/
namespace LdpcFin
open Api Gauss MLSound

variable {σ : Type}

theorem backSubst_length (O : Ops σ) (q : Nat) (rows : List (Gauss.Row σ)) : (backSubst O q rows).length = q := by
  unfold backSubst
  have : ∀ (l : List Nat), (l.foldr (fun i (xs : List σ) =>
      let r := rows.getD i ([], O.zero)
      let v := (List.range (q - i - 1)).foldl (fun acc t =>
        if bit r.1 (i + 1 + t) then O.add acc (xs.getD t O.zero) else acc) r.2
      v :: xs) []).length = l.length := by
    intro l
    induction l with
    | nil => rfl
    | cons a t ih => simp only [List.foldr_cons, List.length_cons, ih]
  rw [this, List.length_range]

theorem solve_length (O : Ops σ) (q : Nat) (rows : List (Gauss.Row σ)) (xs : List σ) (h : solve O q rows = some xs) : xs.length = q := by
  unfold solve at h
  cases ht : triangularize O q rows with
  | none => rw [ht] at h; simp at h
  | some T => rw [ht] at h; simp only [Option.map_some, Option.some.injEq] at h; rw [← h]; exact backSubst_length O q T

/-- writing a list of (ESI, value) pairs into the symbol table -/
def writeAll (it : IT.St σ) (srcs : List (Nat × σ)) : IT.St σ :=
  srcs.foldl (fun (t : IT.St σ) pr => { t with sym := t.sym.set pr.1 (some pr.2) }) it

theorem writeAll_k (it : IT.St σ) (srcs : List (Nat × σ)) : (writeAll it srcs).k = it.k := by
  unfold writeAll
  induction srcs generalizing it with
  | nil => rfl
  | cons a t ih => simp only [List.foldl_cons]; rw [ih]

theorem writeAll_known (it : IT.St σ) (srcs : List (Nat × σ)) (e : Nat) :
    (writeAll it srcs).known e = (it.known e || srcs.any (fun pr => pr.1 == e)) := by
  unfold writeAll
  induction srcs generalizing it with
  | nil => simp
  | cons a t ih =>
    simp only [List.foldl_cons, List.any_cons]
    rw [ih]
    simp only [IT.St.known, TMap.get_set]
    by_cases h : e = a.1
    · subst h; simp
    · have h' : (a.1 == e) = false := by
        cases hb : a.1 == e with
        | false => rfl
        | true => exact absurd (beq_iff_eq.mp hb).symm h
      simp [h, h']

theorem zip_filter_map_fst (unk : List Nat) (xs : List σ) (hl : xs.length = unk.length) (p : Nat → Bool) :
    ((unk.zip xs).filter (fun pr => p pr.1)).map (·.1) = unk.filter p := by
  induction unk generalizing xs with
  | nil => simp
  | cons u us ih =>
    cases xs with
    | nil => simp at hl
    | cons x xt =>
      simp only [List.zip_cons_cons, List.filter_cons]
      by_cases hp : p u = true
      · simp only [hp, if_true, List.map_cons]; rw [ih xt (by simpa using hl)]
      · simp only [hp, Bool.false_eq_true, if_false]; exact ih xt (by simpa using hl)

/-- **status truthfulness, monotonicity and the exact set of events** of `of_finish_decoding` on the session model -/
theorem ldpcFinish_truthful (IO : SymIO σ) (s : Session σ) (p : Params) (it : IT.St σ) (hit : s.it = some it) (hk : it.k = p.k) :
    ∃ it', (ldpcFinish IO s p).2.1.it = some it' ∧
      ((ldpcFinish IO s p).1 = Status.ok ↔ it'.complete = true) ∧
      ((ldpcFinish IO s p).1 = Status.failure ↔ it'.complete = false) ∧
      (∀ e, it.known e = true → it'.known e = true) ∧
      -- the callback events: exactly the source symbols that were unknown, each once, and known afterwards
      ((ldpcFinish IO s p).2.2.Nodup ∧ ∀ e, e ∈ (ldpcFinish IO s p).2.2 ↔ (e < p.k ∧ it.known e = false ∧ it'.known e = true)) := by
  rw [ldpcFinish_eq]
  unfold ldpcFinish'
  simp only [hit]
  by_cases hc : it.complete = true
  · simp only [hc, if_true]
    refine ⟨it, rfl, by simp [hc], by simp [hc], fun _ h => h, List.nodup_nil, ?_⟩
    intro e; constructor
    · intro h; cases h
    · rintro ⟨_, h1, h2⟩; rw [h1] at h2; cases h2
  · have hc' : it.complete = false := by simpa using hc
    simp only [hc', Bool.false_eq_true, if_false]
    have same : ∀ (st : Status) (s' : Session σ), st = Status.failure → s'.it = some it →
        ∃ it', (st, s', ([] : List Nat)).2.1.it = some it' ∧ ((st, s', ([] : List Nat)).1 = Status.ok ↔ it'.complete = true) ∧
          ((st, s', ([] : List Nat)).1 = Status.failure ↔ it'.complete = false) ∧ (∀ e, it.known e = true → it'.known e = true) ∧
          ((st, s', ([] : List Nat)).2.2.Nodup ∧ ∀ e, e ∈ (st, s', ([] : List Nat)).2.2 ↔ (e < p.k ∧ it.known e = false ∧ it'.known e = true)) := by
      intro st s' hst hs'
      subst hst
      refine ⟨it, hs', by simp [hc'], by simp [hc'], fun _ h => h, List.nodup_nil, ?_⟩
      intro e; constructor
      · intro h; cases h
      · rintro ⟨_, h1, h2⟩; rw [h1] at h2; cases h2
    split
    · exact same _ _ rfl hit
    · split
      · exact same _ _ rfl rfl
      · split
        · exact same _ _ rfl rfl
        · rename_i xs hsolve
          have hlen := solve_length _ _ _ xs hsolve
          refine ⟨_, rfl, ?_⟩
          -- the state written back
          have hev := zip_filter_map_fst (unknowns (fun e => (it.sym.get e).isSome) p.k p.r) xs hlen (fun e => decide (e < p.k))
          have hknown : ∀ e, (writeAll it (List.filter (fun x => decide (x.1 < p.k))
              ((unknowns (fun e => (it.sym.get e).isSome) p.k p.r).zip xs))).known e
              = (it.known e || decide (e < p.k ∧ it.known e = false)) := by
            intro e
            rw [writeAll_known]
            congr 1
            have : (List.filter (fun x => decide (x.1 < p.k)) ((unknowns (fun e => (it.sym.get e).isSome) p.k p.r).zip xs)).any (fun pr => pr.1 == e)
                = ((List.filter (fun x => decide (x.1 < p.k)) ((unknowns (fun e => (it.sym.get e).isSome) p.k p.r).zip xs)).map (·.1)).contains e := by
              rw [List.contains_eq_any_beq, List.any_map]
              congr 1
              funext pr
              simp [Bool.beq_comm]
            rw [this, hev]
            apply Bool.eq_iff_iff.mpr
            simp only [List.contains_iff_mem, List.mem_filter, mem_unknowns, decide_eq_true_eq]
            constructor
            · rintro ⟨⟨_, h2⟩, h3⟩; exact ⟨h3, h2⟩
            · rintro ⟨h1, h2⟩; exact ⟨⟨by omega, h2⟩, h1⟩
          have hcomp : (writeAll it (List.filter (fun x => decide (x.1 < p.k))
              ((unknowns (fun e => (it.sym.get e).isSome) p.k p.r).zip xs))).complete = true := by
            unfold IT.St.complete
            rw [List.all_eq_true]
            intro i hi
            have hi' : i < p.k := by rw [writeAll_k, hk] at hi; exact List.mem_range.mp hi
            rw [hknown]
            cases hki : it.known i <;> simp [hi']
          refine ⟨by simp [writeAll] at hcomp ⊢; exact hcomp, ?_, ?_, ?_⟩
          · constructor
            · intro h; cases h
            · intro h; simp only [writeAll] at hcomp; rw [hcomp] at h; cases h
          · intro e he
            have := hknown e
            simp only [writeAll] at this
            rw [this, he]; rfl
          · constructor
            · show ((List.filter (fun x => decide (x.1 < p.k)) ((unknowns (fun e => (it.sym.get e).isSome) p.k p.r).zip xs)).map (·.1)).Nodup
              rw [hev]
              exact (unknowns_nodup _ p.k p.r).filter _
            · intro e
              show e ∈ ((List.filter (fun x => decide (x.1 < p.k)) ((unknowns (fun e => (it.sym.get e).isSome) p.k p.r).zip xs)).map (·.1)) ↔ _
              rw [hev]
              have hke := hknown e
              simp only [writeAll] at hke
              simp only [List.mem_filter, mem_unknowns, decide_eq_true_eq]
              constructor
              · rintro ⟨⟨_, h2⟩, h3⟩
                refine ⟨h3, h2, ?_⟩
                rw [hke]; simp [h3, h2]
              · rintro ⟨h1, h2, _⟩
                exact ⟨⟨by omega, h2⟩, h1⟩

end LdpcFin
