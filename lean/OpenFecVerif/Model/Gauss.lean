import OpenFecVerif.Model.Sym
/-
Symbol-level linear solver over GF(2) of of_ml_tool.c: forward elimination column by column
(first row at or below the diagonal with a 1 becomes the pivot, rows are swapped, every row below
with a 1 gets the pivot row added), then backward substitution.  A system is a list of rows
(coefficients : List Bool of width q, right-hand side : σ); an absent right-hand side in C (NULL)
denotes zero and is represented by `O.zero`.
-/
namespace Gauss
variable {σ : Type}

abbrev Row (σ : Type) := List Bool × σ

def bit (r : List Bool) (i : Nat) : Bool := r.getD i false
def xorBits (a b : List Bool) : List Bool := List.zipWith (fun x y => x != y) a b
def addRow (O : Ops σ) (r p : Row σ) : Row σ := (xorBits r.1 p.1, O.add r.2 p.2)

/-- bring the first row of `rest` having a 1 in column i to the front (exchange with the head) -/
def pivot (i : Nat) (rest : List (Row σ)) : Option (List (Row σ)) :=
  match rest.findIdx? (fun r => bit r.1 i) with
  | none => none
  | some j =>
    match rest[j]?, rest.head? with
    | some pj, some h => some (if j = 0 then rest else pj :: (rest.set j h).tail)
    | _, _ => none

/-- forward elimination of column i; rows 0..i−1 are already in echelon form -/
def elimCol (O : Ops σ) (i : Nat) (rows : List (Row σ)) : Option (List (Row σ)) :=
  match pivot i (rows.drop i) with
  | none => none
  | some [] => none
  | some (p :: below) =>
    some (rows.take i ++ p :: below.map fun r => if bit r.1 i then addRow O r p else r)

def triangularize (O : Ops σ) (q : Nat) (rows : List (Row σ)) : Option (List (Row σ)) :=
  (List.range q).foldl (fun acc i => acc.bind (elimCol O i)) (some rows)

/-- backward substitution on the first q rows of a unit upper triangular system -/
def backSubst (O : Ops σ) (q : Nat) (rows : List (Row σ)) : List σ :=
  (List.range q).foldr (fun i (xs : List σ) =>
    -- xs holds x_{i+1} .. x_{q-1}
    let r := rows.getD i ([], O.zero)
    let v := (List.range (q - i - 1)).foldl (fun acc t =>
      if bit r.1 (i + 1 + t) then O.add acc (xs.getD t O.zero) else acc) r.2
    v :: xs) []

/-- solve a p×q system (p ≥ q): `some x` iff a pivot is found in every column -/
def solve (O : Ops σ) (q : Nat) (rows : List (Row σ)) : Option (List σ) :=
  (triangularize O q rows).map (backSubst O q)

/-- rank test used as the specification-side oracle: full column rank -/
def fullColRank (q : Nat) (rows : List (List Bool)) : Bool :=
  (triangularize (σ := Unit) ⟨(), fun _ _ => (), fun _ _ => ()⟩ q (rows.map fun r => (r, ()))).isSome

end Gauss
