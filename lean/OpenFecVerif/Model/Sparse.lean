import OpenFecVerif.Model.TMap
/-
Sparse GF(2) matrix of of_matrix_sparse.c.  The C structure is a doubly linked list of entries per row and per
column (two redundant orderings of the same set) plus a pool of entry records (blocks of 1024, free list).
The model keeps exactly that redundancy: `rows r` is the list of column indexes met when traversing row `r`
from `first_in_row` to the header, `cols c` the list of row indexes met when traversing column `c`, and the pool
is counted.  Every operation below follows the control flow of the C function of the same name.
-/
namespace Sparse

def blockSize : Nat := 1024

structure Pool where
  blocks : Nat := 0
  free : Nat := 0
deriving DecidableEq, Repr

structure M where
  nr : Nat
  nc : Nat
  rows : TMap (List Nat) := TMap.mk' []
  cols : TMap (List Nat) := TMap.mk' []
  pool : Pool := {}

/-- of_alloc_entry: take a record from the free list, allocating a block when it is empty -/
def Pool.take (p : Pool) : Pool :=
  if p.free = 0 then { blocks := p.blocks + 1, free := blockSize - 1 } else { p with free := p.free - 1 }

def Pool.give (p : Pool) : Pool := { p with free := p.free + 1 }

/-- of_mod2sparse_allocate -/
def alloc (nr nc : Nat) : Option M := if nr = 0 ∨ nc = 0 then none else some { nr := nr, nc := nc }

/-- position scan of of_mod2sparse_insert: keep the list increasing, an equal element is "found" -/
def ins (x : Nat) : List Nat → List Nat
  | [] => [x]
  | y :: t => if x < y then x :: y :: t else if x = y then y :: t else y :: ins x t

/-- of_mod2sparse_insert; the Boolean says whether a new entry was created (`none`: index out of bounds) -/
def insert (m : M) (r c : Nat) : M × Option Bool :=
  if r ≥ m.nr ∨ c ≥ m.nc then (m, none)
  else if (m.rows.get r).contains c then (m, some false)
  else ({ m with rows := m.rows.set r (ins c (m.rows.get r)), cols := m.cols.set c (ins r (m.cols.get c)),
                 pool := m.pool.take }, some true)

def insert' (m : M) (r c : Nat) : M := (insert m r c).1

/-- the parallel scan of of_mod2sparse_find, on what is left of the row and of the column -/
def findPar (r c : Nat) : List Nat → List Nat → Bool
  | [], _ => false
  | x :: xs, ys =>
    if x > c then false else if x = c then true else
    match ys with
    | [] => false
    | y :: ys' => if y > r then false else if y = r then true else findPar r c xs ys'

/-- of_mod2sparse_find: last entry of the row, last entry of the column, then the parallel scan -/
def find (m : M) (r c : Nat) : Bool :=
  if r ≥ m.nr ∨ c ≥ m.nc then false else
  let row := m.rows.get r
  let col := m.cols.get c
  match row.getLast? with
  | none => false
  | some lr =>
    if lr < c then false else if lr = c then true else
    match col.getLast? with
    | none => false
    | some lc => if lc < r then false else if lc = r then true else findPar r c row col

/-- of_mod2sparse_find followed by of_mod2sparse_delete on the entry found -/
def delete (m : M) (r c : Nat) : M × Bool :=
  if find m r c then
    ({ m with rows := m.rows.set r ((m.rows.get r).erase c), cols := m.cols.set c ((m.cols.get c).erase r),
              pool := m.pool.give }, true)
  else (m, false)

/-- of_mod2sparse_clear -/
def clear (m : M) : M := { nr := m.nr, nc := m.nc }

/-- entries in row-major order, as the copy loops traverse them -/
def entries (m : M) : List (Nat × Nat) :=
  (List.range m.nr).flatMap fun i => (m.rows.get i).map fun c => (i, c)

/-- of_mod2sparse_copy -/
def copy (m r : M) : M :=
  if m.nr > r.nr ∨ m.nc > r.nc then r
  else (entries m).foldl (fun acc e => insert' acc e.1 e.2) (clear r)

/-- loops of copyrows/copycols: stop at the first index out of range -/
def copyLoop (n : Nat) (idx : List Nat) (lim : Nat) (body : M → Nat → Nat → M) (r : M) : M :=
  ((List.range n).foldl (fun (acc : M × Bool) i =>
    if acc.2 then acc else
    let s := idx.getD i 0
    if s ≥ lim then (acc.1, true) else (body acc.1 i s, false)) (r, false)).1

/-- of_mod2sparse_copyrows -/
def copyrows (m r : M) (idx : List Nat) : M :=
  if m.nc > r.nc then r
  else copyLoop r.nr idx m.nr (fun acc i s => (m.rows.get s).foldl (fun a c => insert' a i c) acc) (clear r)

/-- of_mod2sparse_copycols -/
def copycols (m r : M) (idx : List Nat) : M :=
  if m.nr > r.nr then r
  else copyLoop r.nc idx m.nc (fun acc j s => (m.cols.get s).foldl (fun a e => insert' a e j) acc) (clear r)

/-- of_mod2sparse_copy_filled_matrix: every entry whose row and column are non-empty (all of them) is inserted at its
mapped position; the destination is not cleared -/
def copyFilled (m r : M) (ir ic : List Nat) : M :=
  (entries m).foldl (fun acc e =>
    if !(m.cols.get e.2).isEmpty && !(m.rows.get e.1).isEmpty then insert' acc (ir.getD e.1 0) (ic.getD e.2 0) else acc) r

/-! ### observation line of `sdump` -/

def natList (l : List Nat) : String := String.intercalate "," (l.map toString)

def dump (m : M) : String :=
  let rows := String.join ((List.range m.nr).map fun i => natList (m.rows.get i) ++ ";")
  let cols := String.join ((List.range m.nc).map fun j => natList (m.cols.get j) ++ ";")
  let fnd := String.join ((List.range m.nr).map fun i =>
    String.ofList ((List.range m.nc).map fun j => if find m i j then '1' else '0') ++ ";")
  let erow := String.ofList ((List.range m.nr).map fun i => if (m.rows.get i).isEmpty then '1' else '0')
  let ecol := String.ofList ((List.range m.nc).map fun j => if (m.cols.get j).isEmpty then '1' else '0')
  let wrow := natList ((List.range m.nr).map fun i => (m.rows.get i).length)
  s!"ok nr={m.nr} nc={m.nc} rows={rows} cols={cols} find={fnd} erow={erow} ecol={ecol} wrow={wrow} back=1 blocks={m.pool.blocks} free={m.pool.free}"

end Sparse
