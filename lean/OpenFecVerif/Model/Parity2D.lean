/-
2D parity-check matrix of of_create_pchk.c (of_create_2D_pchk_matrix, of_fill_2D_pchk_matrix), in ESI terms:
k = D·L source symbols arranged in D rows of L; D row checks, then L column checks; check number c has its own repair
symbol, ESI k + c.
-/
namespace Parity2D

/-- the search of of_create_2D_pchk_matrix: d runs from ⌊√n⌋ down to 1; the first d with k/d integral and d + k/d = r wins.
Returns (D, L) = (k/d, d): D row checks of L symbols each. -/
def dims (k r : Nat) : Option (Nat × Nat) :=
  if r ≥ k + r then none else
  ((List.range (Nat.sqrt (k + r))).reverse.map (· + 1)).findSome? fun d =>
    if k % d == 0 && d + k / d == r then some (k / d, d) else none

/-- the equations, each a list of ESIs ending with the check's own repair symbol -/
def rowsOf (k D L : Nat) : List (List Nat) :=
  (List.range D).map (fun i => (List.range L).map (fun j => i * L + j) ++ [k + i]) ++
  (List.range L).map (fun c => (List.range D).map (fun j => L * j + c) ++ [k + D + c])

def rows (k r : Nat) : Option (List (List Nat)) := (dims k r).map fun p => rowsOf k p.1 p.2

def MAX_K : Nat := 16
def MAX_N : Nat := 24

end Parity2D
