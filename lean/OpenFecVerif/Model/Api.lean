import OpenFecVerif.Model.RS
import OpenFecVerif.Model.Rfc5170
import OpenFecVerif.Model.LdpcIT
import OpenFecVerif.Model.Gauss
import OpenFecVerif.Model.Parity2D
import OpenFecVerif.Gen.Limits
/-
Session state machine of the public API for codecs 1 (RS GF(2^8)), 2 (RS GF(2^m)), 3 (LDPC-Staircase):
parameter validation, statuses, the two submission paths, completion, callbacks, buffer provenance
and the allocation ledger at release.  Written from the API header's contract; `World` carries the
process-global state (`of_seed`).  Generic in the symbol type.
-/
namespace Api

inductive Status | ok | failure | error | fatal
deriving DecidableEq, Repr

def Status.str : Status → String
  | .ok => "OK" | .failure => "FAILURE" | .error => "ERROR" | .fatal => "FATAL"

/-- where a buffer reported by the library comes from: the j-th buffer the application submitted for
that ESI, a library allocation, or the buffer returned by the application's callback -/
inductive Prov | app (j : Nat) | lib | cb
deriving DecidableEq, Repr

def Prov.str : Prov → String
  | .app j => s!"app{j}" | .lib => "lib" | .cb => "cb"

inductive CbPolicy | none | buf | null | mix
deriving DecidableEq, Repr

structure Params where
  k : Nat
  r : Nat
  len : Nat
  m : Nat
  N1 : Nat
  seed : Int
deriving Repr

def Params.n (p : Params) : Nat := p.k + p.r

/-- symbol-level interface of the driver -/
structure SymIO (σ : Type) where
  ops : (codec m len : Nat) → Ops σ
  source : (codec m len mode seed i : Nat) → σ
  hex : σ → String

structure Slot (σ : Type) where
  val : σ
  prov : Prov

structure Session (σ : Type) where
  codec : Nat
  role : Nat
  params : Option Params := none
  cb : CbPolicy := .none
  cw : Option (List σ) := none            -- the block's codeword (harness side data)
  nsub : TMap Nat := TMap.mk' 0           -- submissions so far per ESI
  -- Reed-Solomon decoder
  avail : TMap (Option (Slot σ)) := TMap.mk' none
  nbAvail : Nat := 0
  nbAvailSrc : Nat := 0
  finished : Bool := false
  maxInit : Bool := false                 -- RS-2^m: max_nb_* initialised
  fieldM : Nat := 0
  -- LDPC
  H : List (List Nat) := []
  extra : Bool := false
  it : Option (IT.St σ) := none
  srcProv : TMap (Option Prov) := TMap.mk' none
  mlDone : Bool := false
  /-- of_finish_decoding has turned the parity-check matrix into the linear system of a Gaussian elimination (which succeeded
  or failed): later submissions are only registered, later finish calls cannot decode any more -/
  mlConsumed : Bool := false
  -- encoder
  /-- codec 5 (2D parity): a linear binary code like LDPC-Staircase (`codec` is 3 internally: same decoders, same symbol
  alphabet) with its own matrix construction, limits and control parameters -/
  twoD : Bool := false
  enc : TMap (Option σ) := TMap.mk' none   -- the application's encoding_symbols_tab
  encLib : TMap Bool := TMap.mk' false    -- slot allocated by the library

structure World (σ : Type) where
  seed : Nat := 0                          -- of_seed (a zero-initialised global)
  ses : TMap (Option (Session σ)) := TMap.mk' none

variable {σ : Type}

def isDec (s : Session σ) : Bool := s.role == 2 || s.role == 3
def isEnc (s : Session σ) : Bool := s.role == 1 || s.role == 3

/-! ## parameter validation (C09) -/

def maxK (codec m : Nat) : Nat :=
  if codec == 1 then Gen.RS_MAX_K else if codec == 2 then 2 ^ m - 1 else Gen.LDPC_MAX_K
def maxN (codec m : Nat) : Nat :=
  if codec == 1 then Gen.RS_MAX_N else if codec == 2 then 2 ^ m - 1 else Gen.LDPC_MAX_N

/-- the advertised limits -/
def withinLimits (codec : Nat) (p : Params) : Bool :=
  1 ≤ p.k && 1 ≤ p.r && 1 ≤ p.len && p.k ≤ maxK codec p.m && p.k + p.r ≤ maxN codec p.m &&
  (codec != 2 || p.m == 4 || p.m == 8) &&
  (codec != 3 || (3 ≤ p.N1 && p.N1 ≤ p.r && 1 ≤ p.seed && p.seed ≤ 2147483646))

def cbDest (pol : CbPolicy) (esi : Nat) : Prov :=
  match pol with
  | .none => .lib
  | .buf => .cb
  | .null => .lib
  | .mix => if esi % 2 == 0 then .cb else .lib

def evStr' (len : Nat) (es : List Nat) : String :=
  if es.isEmpty then "" else
  " cb=" ++ String.intercalate "," ((es.mergeSort (· ≤ ·)).map fun e => s!"{e}:{len}")

/-- callback events are observable only when a callback is registered -/
def evStr (pol : CbPolicy) (len : Nat) (es : List Nat) : String :=
  if pol == .none then "" else evStr' len es

/-! ## codewords -/

def fldOf (codec m : Nat) : RS.Fld := if codec == 2 && m == 4 then RS.fld4x else RS.fld8x

/-- LDPC-Staircase encoding: repair i = sum of the other members of equation i, in increasing order -/
def ldpcEncode (O : Ops σ) (k : Nat) (H : List (List Nat)) (src : List σ) : List σ :=
  (List.range H.length).foldl (fun cw i =>
    let row := H.getD i []
    let v := row.foldl (fun acc e => if e == k + i then acc else O.add acc (cw.getD e O.zero)) O.zero
    cw ++ [v]) src

def codeword (IO : SymIO σ) (codec : Nat) (p : Params) (H : List (List Nat)) (mode seed : Nat) : List σ :=
  let O := IO.ops codec p.m p.len
  let src := (List.range p.k).map (IO.source codec p.m p.len mode seed)
  if codec == 3 then ldpcEncode O p.k H src
  else src ++ (List.range' p.k p.r).map (RS.encode (fldOf codec p.m) O p.k src)

/-- executable hypotheses of the encoder theorems: staircase shape, and the column-weight condition behind the
"last repair symbol is null" flag -/
def stairCheck (k : Nat) (H : List (List Nat)) : Bool :=
  (List.range H.length).all fun i =>
    let row := H.getD i []
    decide row.Nodup && row.contains (k + i) && row.all (fun e => e == k + i || e < k + i)

def colWeightOf (H : List (List Nat)) (e : Nat) : Nat := (H.filter fun row => row.contains e).length
def lastNullCheckX (n : Nat) (H : List (List Nat)) : Bool :=
  (List.range (n - 1)).all (fun e => colWeightOf H e % 2 == 0) && colWeightOf H (n - 1) % 2 == 1

/-! ## set_fec_parameters -/

/-- limits of the 2D parity codec -/
def withinLimits2D (p : Params) : Bool :=
  1 ≤ p.k && 1 ≤ p.r && 1 ≤ p.len && p.k ≤ Parity2D.MAX_K && p.k + p.r ≤ Parity2D.MAX_N

/-- of_set_fec_parameters of the 2D parity codec: no PRNG involved -/
def setParams2D (g : Nat) (s : Session σ) (p : Params) : Nat × Status × Session σ :=
  if !withinLimits2D p then (g, .fatal, s)
  else match Parity2D.rows p.k p.r with
    | none => (g, .fatal, s)
    | some H => (g, .ok, { s with params := some p, H := H, extra := true, it := some (IT.init p.k H) })

/-- returns the new global PRNG state, the status and the configured session (codecs 1, 2, 3) -/
def setParamsStd (IO : SymIO σ) (g : Nat) (s : Session σ) (p : Params) : Nat × Status × Session σ :=
  -- RS-2^m initialises its limits as soon as the sizes are non-zero and m is acceptable
  let s1 : Session σ := if s.codec == 2 && (p.m == 4 || p.m == 8) && !(p.k == 0 || p.r == 0 || p.len == 0)
    then { s with maxInit := true, fieldM := p.m } else s
  if !withinLimits s.codec p then (g, .fatal, s1)
  else if s.codec == 3 then
    match Rfc5170.create CSem.rne53 g p.k p.r p.N1 p.seed.toNat with
    | (g', none) => (g', .fatal, s1)
    | (g', some M) =>
      let O := IO.ops 3 p.m p.len
      let it0 : IT.St σ := IT.init p.k M.rows
      -- a decoder pretends to have received the last repair symbol when it is known to be zero
      let lastNull := !M.extra && p.N1 % 2 == 0
      let it1 := if isDec s && lastNull then IT.submit O p.n it0 (p.n - 1) O.zero else it0
      (g', .ok, { s1 with params := some p, H := M.rows, extra := M.extra, it := some it1 })
  else
    (g, .ok, { s1 with params := some p })

def setParams (IO : SymIO σ) (g : Nat) (s : Session σ) (p : Params) : Nat × Status × Session σ :=
  if s.twoD then setParams2D g s p else setParamsStd IO g s p

/-! ## decoding -/

/-- Reed-Solomon: decode the missing source symbols from the chosen k available symbols -/
def rsDecode (IO : SymIO σ) (s : Session σ) (p : Params) : Session σ × List Nat :=
  let O := IO.ops s.codec p.m p.len
  let F := fldOf s.codec p.m
  let chosen := RS.choose p.k p.n (fun e => (s.avail.get e).map (·.val))
  let missing := (List.range p.k).filter fun i => (s.avail.get i).isNone
  let s' := missing.foldl (fun (s : Session σ) j =>
    { s with avail := s.avail.set j (some ⟨RS.interpolate F O chosen j, cbDest s.cb j⟩) }) s
  ({ s' with finished := true }, missing)

def rsFinish (IO : SymIO σ) (s : Session σ) (p : Params) : Status × Session σ × List Nat :=
  if s.finished then (.ok, s, [])
  else if s.nbAvail < p.k then (.failure, s, [])
  else if s.nbAvailSrc == p.k then (.ok, { s with finished := true }, [])
  else let (s', ev) := rsDecode IO s p; (.ok, s', ev)

def rsRecv (IO : SymIO σ) (s : Session σ) (p : Params) (esi : Nat) (v : σ) (j : Nat) : Status × Session σ × List Nat :=
  if s.finished then (.ok, s, [])
  else if (s.avail.get esi).isSome then (.ok, s, [])
  else
    let s1 := { s with avail := s.avail.set esi (some ⟨v, .app j⟩), nbAvail := s.nbAvail + 1,
                       nbAvailSrc := if esi < p.k then s.nbAvailSrc + 1 else s.nbAvailSrc }
    if s1.nbAvailSrc == p.k then (.ok, { s1 with finished := true }, [])
    else if s1.nbAvail ≥ p.k then rsFinish IO s1 p
    else (.ok, s1, [])

/-- LDPC: source symbols decoded since `before`, with their destination recorded -/
def ldpcAfter (s : Session σ) (p : Params) (before after : IT.St σ) : Session σ × List Nat :=
  let newly := (after.decoded.take (after.decoded.length - before.decoded.length)).filter (· < p.k)
  let sp := newly.foldl (fun (m : TMap (Option Prov)) e => m.set e (some (cbDest s.cb e))) s.srcProv
  ({ s with it := some after, srcProv := sp }, newly)

def ldpcRecv (IO : SymIO σ) (s : Session σ) (p : Params) (esi : Nat) (v : σ) (j : Nat) : Status × Session σ × List Nat :=
  match s.it with
  | none => (.fatal, s, [])
  | some it =>
    let O := IO.ops 3 p.m p.len
    let fresh := !it.known esi
    -- once Gaussian elimination has consumed the matrix a fresh symbol is registered, nothing is injected
    let it' := if s.mlConsumed then (if fresh then { it with sym := it.sym.set esi (some v) } else it) else IT.submit O p.n it esi v
    let s1 := if fresh && esi < p.k then { s with srcProv := s.srcProv.set esi (some (.app j)) } else s
    let (s2, ev) := ldpcAfter s1 p it it'
    (.ok, s2, ev)

/-- of_finish_decoding for LDPC: Gaussian elimination on what iterative decoding left -/
def ldpcFinish (IO : SymIO σ) (s : Session σ) (p : Params) : Status × Session σ × List Nat :=
  match s.it with
  | none => (.fatal, s, [])
  | some it =>
    if it.complete then (.ok, { s with mlDone := true }, [])
    else if s.mlConsumed then (.failure, s, [])
    else
      let O := IO.ops 3 p.m p.len
      let unk := ((List.range' p.k p.r) ++ (List.range p.k)).filter fun e => !it.known e
      let q := unk.length
      let rows : List (Gauss.Row σ) := s.H.filterMap fun row =>
        if row.any (fun e => !it.known e) then
          some (unk.map (fun e => row.contains e),
                row.foldl (fun acc e => match it.sym.get e with | some x => O.add acc x | none => acc) O.zero)
        else none
      if rows.length < q then (.failure, { s with mlDone := true }, [])
      else match Gauss.solve O q rows with
        | none => (.failure, { s with mlDone := true, mlConsumed := true }, [])
        | some xs =>
          let sol := List.zip unk xs
          let srcs := sol.filter (·.1 < p.k)
          let it' := srcs.foldl (fun (t : IT.St σ) pr => { t with sym := t.sym.set pr.1 (some pr.2) }) it
          let sp := srcs.foldl (fun (m : TMap (Option Prov)) pr => m.set pr.1 (some (cbDest s.cb pr.1))) s.srcProv
          (.ok, { s with it := some it', srcProv := sp, mlDone := true, mlConsumed := true }, srcs.map (·.1))

/-! ## the step function: one protocol line -/

inductive Op
  | case_
  | align
  | nullses
  | new (sid codec role : Nat)
  | params (sid : Nat) (p : Params)
  | release (sid : Nat)
  | unconf (sid : Nat)
  | cb (sid : Nat) (pol : CbPolicy)
  | ctrl (sid : Nat) (what : String)
  | payload (sid mode seed : Nat)
  | build (sid esi : Nat) (own : Bool)
  | recv (sid esi : Nat) (null : Bool)
  | avail (sid : Nat) (esis : List Nat)
  | availnull (sid : Nat)
  | finish (sid : Nat)
  | complete (sid : Nat)
  | sources (sid : Nat)
  | matrix (sid : Nat)
  | cwdump (sid : Nat)

def isComplete (s : Session σ) : Bool :=
  if s.codec == 3 then (match s.it with | some it => it.complete | none => false) else s.finished

def sourcesStr (IO : SymIO σ) (s : Session σ) (p : Params) : String :=
  let ents := (List.range p.k).filterMap fun i =>
    if s.codec == 3 then
      match s.it with
      | none => none
      | some it => match it.sym.get i with
        | none => none
        | some v => some s!"{i}:{((s.srcProv.get i).getD .lib).str}:{IO.hex v}"
    else match s.avail.get i with
      | none => none
      | some sl => some s!"{i}:{sl.prov.str}:{IO.hex sl.val}"
  String.intercalate ";" ents

/-- blocks the application owns after release: library-allocated decoded source symbols and repair slots -/
def returnedCount (s : Session σ) : Nat :=
  match s.params with
  | none => 0
  | some p =>
    let srcs := if !isDec s then 0 else ((List.range p.k).filter fun i =>
      if s.codec == 3 then (match s.it with
        | some it => it.known i && (s.srcProv.get i).getD .lib == .lib
        | none => false)
      else s.finished && (match s.avail.get i with | some sl => sl.prov == .lib | none => false)).length
    let reps := ((List.range' p.k p.r).filter fun e => s.encLib.get e && (s.enc.get e).isSome).length
    srcs + reps

/-- of_build_repair_symbol on a configured session (`cw` is the harness's copy of the block) -/
def buildStep (IO : SymIO σ) (s : Session σ) (p : Params) (cw : List σ) (esi : Nat) (own : Bool) : Session σ × String :=
  let O := IO.ops s.codec p.m p.len
  -- the harness fills the source part of the table on first use and prepares the output slot
  let enc0 := if (s.enc.get 0).isNone then
      (List.range p.k).foldl (fun (m : TMap (Option σ)) i => m.set i (some (cw.getD i O.zero))) s.enc
    else s.enc
  let inRange := p.k ≤ esi && esi < p.n
  let enc1 := if inRange then enc0.set esi none else enc0
  let encLib1 := if inRange then s.encLib.set esi (!own) else s.encLib
  let s1 := { s with enc := enc1, encLib := encLib1 }
  if !isEnc s then (s1, "ok st=FATAL")
  else if !inRange then (s1, "ok st=FATAL")   -- refused by the generic layer (same range check as for submissions)
  else
    let src := (List.range p.k).map fun i => (enc1.get i).getD O.zero
    if s.codec == 3 then
      let row := s.H.getD (esi - p.k) []
      if row.any (fun e => e != esi && (enc1.get e).isNone) then (s1, "ok st=ERROR")
      else
        let v := row.foldl (fun acc e => if e == esi then acc else O.add acc ((enc1.get e).getD O.zero)) O.zero
        ({ s1 with enc := enc1.set esi (some v) }, s!"ok st=OK sym={IO.hex v} prov={if own then "app" else "lib"}")
    else
      let v := RS.encode (fldOf s.codec p.m) O p.k src esi
      ({ s1 with enc := enc1.set esi (some v) }, s!"ok st=OK sym={IO.hex v} prov={if own then "app" else "lib"}")

def step (IO : SymIO σ) (w : World σ) (op : Op) : World σ × String :=
  let bad := (w, "bad-op")
  let put (sid : Nat) (s : Session σ) (w : World σ) : World σ := { w with ses := w.ses.set sid (some s) }
  match op with
  | .case_ => (w, "ok")
  | .align => (w, "ok")
  | .nullses => (w, "ok params=FATAL cb=FATAL build=FATAL recv=FATAL avail=FATAL finish=FATAL complete=0 sources=FATAL ctrl=FATAL")
  | .new sid codec role =>
    if codec == 1 || codec == 2 || codec == 3 then
      (put sid { codec := codec, role := role } w, "ok st=OK")
    else if codec == 5 then
      (put sid { codec := 3, role := role, twoD := true } w, "ok st=OK")
    else (w, "ok st=FATAL")
  | .params sid p =>
    match w.ses.get sid with
    | none => bad
    | some s =>
      let (g, st, s') := setParams IO w.seed s p
      ({ (put sid s' w) with seed := g }, s!"ok st={st.str}")
  | .release sid =>
    match w.ses.get sid with
    | none => bad
    | some s => ({ w with ses := w.ses.set sid none }, s!"ok st=OK returned={returnedCount s} other=0")
  | .unconf sid =>
    -- submissions and repair requests on a session that has no parameters yet, or whose parameters were rejected (n = 0: every
    -- ESI is out of range), are refused by the generic layer
    match w.ses.get sid with
    | none => bad
    | some s =>
      if s.params.isSome then (w, "bad-op configured")
      else
        (w, "ok recv=FATAL,FATAL,FATAL build=FATAL,FATAL,FATAL")
  | .cb sid pol =>
    match w.ses.get sid with
    | none => bad
    | some s => (put sid { s with cb := pol } w, "ok st=OK")
  | .ctrl sid what =>
    match w.ses.get sid with
    | none => bad
    | some s =>
      -- the last-symbol flag describes a configured session: the driver does not ask a session without (accepted) parameters
      if what != "maxk" && what != "maxn" && s.params.isNone then bad else
      if s.twoD then
        if what == "maxk" then (w, s!"ok st=OK v={Parity2D.MAX_K}")
        else if what == "maxn" then (w, s!"ok st=OK v={Parity2D.MAX_N}")
        else (w, "ok st=ERROR v=0")
      else if what == "maxk" || what == "maxn" then
        if s.codec == 2 && !s.maxInit then (w, "ok st=ERROR v=0")
        else
          let v := if what == "maxk" then maxK s.codec s.fieldM else maxN s.codec s.fieldM
          (w, s!"ok st=OK v={v}")
      else if s.codec == 3 then
        let v := match s.params with
          | some p => if !s.extra && p.N1 % 2 == 0 then 1 else 0
          | none => 1     -- unconfigured: extra flag and N1 are both zero
        (w, s!"ok st=OK v={v}")
      else (w, "ok st=ERROR v=0")
  | .payload sid mode seed =>
    match w.ses.get sid with
    | none => bad
    | some s => match s.params with
      | none => bad
      | some p =>
        -- a temporary encoder session of the same codec and parameters builds the codeword
        -- (a configured session always carries accepted parameters; the guard makes that explicit)
        let (g, H) := if s.twoD then (w.seed, s.H) else if s.codec == 3 && withinLimits 3 p then
            (match Rfc5170.create CSem.rne53 w.seed p.k p.r p.N1 p.seed.toNat with
             | (g, some M) => (g, M.rows)
             | (g, none) => (g, []))
          else (w.seed, [])
        let cw := codeword IO s.codec p H mode seed
        ({ (put sid { s with cw := some cw } w) with seed := g }, "ok st=OK")
  | .build sid esi own =>
    match w.ses.get sid with
    | none => bad
    | some s => match s.params, s.cw with
      | some p, some cw => let (s', o) := buildStep IO s p cw esi own; (put sid s' w, o)
      | _, _ => bad
  | .recv sid esi null =>
    match w.ses.get sid with
    | none => bad
    | some s => match s.params, s.cw with
      | some p, some cw =>
        let j := s.nsub.get esi
        let s0 := if !null && esi < p.n then { s with nsub := s.nsub.set esi (j + 1) } else s
        if esi ≥ p.n || null || !isDec s then (put sid s0 w, "ok st=FATAL")
        else
          let O := IO.ops s.codec p.m p.len
          let v := cw.getD esi O.zero
          let (st, s1, ev) := if s.codec == 3 then ldpcRecv IO s0 p esi v j else rsRecv IO s0 p esi v j
          (put sid s1 w, s!"ok st={st.str}{evStr s.cb p.len ev}")
      | _, _ => bad
  | .availnull sid =>
    match w.ses.get sid with
    | none => bad
    | some _ => (w, "ok st=FATAL")
  | .avail sid esis =>
    match w.ses.get sid with
    | none => bad
    | some s => match s.params, s.cw with
      | some p, some cw =>
        let O := IO.ops s.codec p.m p.len
        let es := ((List.range p.n).filter fun e => esis.contains e)
        -- the harness submits buffer 0 of each listed ESI (allocating it if needed)
        let s0 := es.foldl (fun (s : Session σ) e => if s.nsub.get e == 0 then { s with nsub := s.nsub.set e 1 } else s) s
        if !isDec s then (put sid s0 w, "ok st=FATAL")
        else if s.codec == 3 then
          let (s1, ev) := es.foldl (fun (acc : Session σ × List Nat) e =>
            let (_, s', ev') := ldpcRecv IO acc.1 p e (cw.getD e O.zero) 0
            (s', acc.2 ++ ev')) (s0, [])
          (put sid s1 w, s!"ok st=OK{evStr s.cb p.len ev}")
        else
          -- Reed-Solomon: the table replaces the decoder's table; counters are recomputed; no decoding
          let av := (List.range p.n).foldl (fun (m : TMap (Option (Slot σ))) e =>
            m.set e (if es.contains e then some ⟨cw.getD e O.zero, .app 0⟩ else none)) s0.avail
          let s1 := { s0 with avail := av, nbAvail := es.length, nbAvailSrc := (es.filter (· < p.k)).length }
          (put sid s1 w, "ok st=OK")
      | _, _ => bad
  | .finish sid =>
    match w.ses.get sid with
    | none => bad
    | some s => match s.params with
      | none => bad
      | some p =>
        if !isDec s then (w, "ok st=FATAL")
        else
          let (st, s1, ev) := if s.codec == 3 then ldpcFinish IO s p else rsFinish IO s p
          (put sid s1 w, s!"ok st={st.str}{evStr s.cb p.len ev}")
  | .complete sid =>
    match w.ses.get sid with
    | none => bad
    | some s => if !isDec s then (w, "ok c=0") else (w, s!"ok c={if isComplete s then 1 else 0}")
  | .sources sid =>
    match w.ses.get sid with
    | none => bad
    | some s => match s.params with
      | none => bad
      | some p =>
        if !isDec s then (w, "ok st=FATAL src=")
        else if s.codec != 3 && !s.finished then (w, "ok st=ERROR src=")
        else (w, s!"ok st=OK src={sourcesStr IO s p}")
  | .cwdump sid =>
    match w.ses.get sid with
    | none => bad
    | some s => match s.cw with
      | none => bad
      | some cw => (w, "ok cw=" ++ String.intercalate ";" (cw.map IO.hex))
  | .matrix sid =>
    match w.ses.get sid with
    | none => bad
    | some s =>
      match s.codec == 3, s.params, s.it with
      | true, some p, some it =>
        -- the decoder's matrix as it stands now (entries are deleted as symbols are accounted for)
        (w, "ok rows=" ++ String.join ((List.range p.r).map fun i =>
          String.intercalate "," (((it.rows.get i).mergeSort (· ≤ ·)).map toString) ++ ";"))
      | _, _, _ => bad

end Api
