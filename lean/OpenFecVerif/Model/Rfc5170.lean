import OpenFecVerif.Gen.Rand
/-
RFC 5170 section 6.2 (LDPC-Staircase) parity-check matrix, written from the RFC's pseudo-code:
the homogeneous choice list `u[]` with left limit `t`, the rejection loops, the repair of rows with
fewer than two source entries, the staircase.  The PRNG is the *translated* `Gen.of_rfc5170_rand`.
Rejection loops carry fuel; exhaustion yields `none` (never observed; termination for every seed is
not proved — see DESIGN.md).
-/
namespace Rfc5170

/-- draw until the predicate accepts; returns the new PRNG state and the accepted value -/
def drawUntil (rn : Rat → Rat) (maxv : Nat) (accept : Nat → Bool) : Nat → Nat → Option (Nat × Nat)
  | 0, _ => none
  | fuel+1, seed =>
    let r := Gen.of_rfc5170_rand rn seed maxv
    if accept r.2 then some (r.1, r.2) else drawUntil rn maxv accept fuel r.1

def loopFuel : Nat := 2147483648

/-- is there an index i with lo ≤ i < lo + cnt satisfying p?  (first-hit search, no allocation) -/
def existsFrom (p : Nat → Bool) : Nat → Nat → Bool
  | _, 0 => false
  | lo, cnt+1 => if p lo then true else existsFrom p (lo + 1) cnt

structure Fill where
  seed : Nat
  u : Array Nat
  t : Nat
  col : List Nat          -- rows already chosen for the current column
  uneven : Nat

/-- one "1" of source column: the `for (k = 0; k < left_degree; k++)` body -/
def addOne (rn : Rat → Rat) (r total : Nat) (f : Fill) : Option Fill :=
  -- are valid choices left in u[t..]?
  let avail := existsFrom (fun i => !(f.col.contains (f.u.getD i 0))) f.t (total - f.t)
  if avail then
    match drawUntil rn (total - f.t) (fun x => !(f.col.contains (f.u.getD (f.t + x) 0))) loopFuel f.seed with
    | none => none
    | some (seed', x) =>
      let i := f.t + x
      let row := f.u.getD i 0
      some { f with seed := seed', col := row :: f.col, u := f.u.setIfInBounds i (f.u.getD f.t 0), t := f.t + 1 }
  else
    match drawUntil rn r (fun x => !(f.col.contains x)) loopFuel f.seed with
    | none => none
    | some (seed', x) => some { f with seed := seed', col := x :: f.col, uneven := f.uneven + 1 }

def addN (rn : Rat → Rat) (r total : Nat) : Nat → Fill → Option Fill
  | 0, f => some f
  | n+1, f => match addOne rn r total f with
    | none => none
    | some f' => addN rn r total n f'

/-- all source columns: returns per-column row lists (column j = source ESI j) -/
def fillCols (rn : Rat → Rat) (k r N1 : Nat) (seed : Nat) : Option (Nat × List (List Nat) × Nat) :=
  let total := N1 * k
  let u0 : Array Nat := Array.ofFn (n := total) fun i => i.val % r
  (List.range k).foldl (fun acc _ =>
    match acc with
    | none => none
    | some (f, cols) =>
      match addN rn r total N1 { f with col := [] } with
      | none => none
      | some f' => some (f', cols ++ [f'.col])) (some (({ seed := seed, u := u0, t := 0, col := [], uneven := 0 } : Fill), ([] : List (List Nat))))
  |>.map fun (f, cols) => (f.seed, cols, f.uneven)

/-- per-row source entries (ascending) from the per-column row lists: columns are visited from the last
to the first and prepended -/
def rowsOf (cols : List (List Nat)) (r : Nat) : List (List Nat) :=
  let n := cols.length
  let arr : Array (List Nat) := (cols.reverse.zipIdx).foldl (fun (a : Array (List Nat)) (p : List Nat × Nat) =>
    let j := n - 1 - p.2
    p.1.foldl (fun a i => a.modify i (fun l => j :: l)) a) (Array.replicate r [])
  arr.toList

/-- rows with fewer than two source entries get extra ones -/
def fixRows (rn : Rat → Rat) (k : Nat) : List (List Nat) → Nat → Nat → List (List Nat) → Option (Nat × List (List Nat) × Nat)
  | [], seed, added, done => some (seed, done, added)
  | row :: rest, seed, added, done =>
    -- empty row: one random source column
    let s1 : Option (Nat × List Nat × Nat) :=
      if row.isEmpty then
        let r := Gen.of_rfc5170_rand rn seed k
        some (r.1, [r.2], added + 1)
      else some (seed, row, added)
    match s1 with
    | none => none
    | some (seed1, row1, added1) =>
      if row1.length == 1 && k > 1 then
        let first := row1.headD 0
        match drawUntil rn k (fun x => x != first) loopFuel seed1 with
        | none => none
        | some (seed2, j) =>
          let row2 := if j < first then [j, first] else [first, j]
          fixRows rn k rest seed2 (added1 + 1) (done ++ [row2])
      else fixRows rn k rest seed1 added1 (done ++ [row1])

structure Matrix where
  rows : List (List Nat)   -- per equation, the ESIs it contains, ascending
  extra : Bool             -- "extra entries added" marker
  uneven : Nat
deriving Repr

/-- of_create_pchck_matrix_rfc5170_compliant: `g` is the global PRNG state before the call.
Returns the PRNG state after the call and the matrix (none = rejected: N1 > n−k, or fuel exhausted). -/
def create (rn : Rat → Rat) (g : Nat) (k r N1 seed : Nat) : Nat × Option Matrix :=
  if N1 > r then (g, none) else
  let s0 := Gen.of_rfc5170_srand g seed
  match fillCols rn k r N1 s0 with
  | none => (s0, none)
  | some (s1, cols, uneven) =>
    let srcRows := rowsOf cols r
    match fixRows rn k srcRows s1 0 [] with
    | none => (s1, none)
    | some (s2, rows2, added) =>
      -- staircase: equation i contains repair ESIs k+i and (i > 0) k+i−1
      let rows3 := (List.range r).map fun i =>
        (rows2.getD i []) ++ (if i = 0 then [k] else [k + i - 1, k + i])
      (s2, some { rows := rows3, extra := added ≥ 1, uneven := uneven })

end Rfc5170
