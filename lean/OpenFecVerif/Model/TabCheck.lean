import OpenFecVerif.Model.GF
import OpenFecVerif.Gen.Tab_of_gf_2_4_log
import OpenFecVerif.Gen.Tab_of_gf_2_4_exp
import OpenFecVerif.Gen.Tab_of_gf_2_4_inv
import OpenFecVerif.Gen.Tab_of_gf_2_4_mul_table
import OpenFecVerif.Gen.Tab_of_gf_2_4_opt_mul_table
import OpenFecVerif.Gen.Tab_of_gf_2_8_log
import OpenFecVerif.Gen.Tab_of_gf_2_8_exp
import OpenFecVerif.Gen.Tab_of_gf_2_8_inv
import OpenFecVerif.Gen.Tab_of_gf_2_8_mul_table
import OpenFecVerif.Gen.Tab_of_gf_mul_table
import OpenFecVerif.Gen.Tab_of_rs_gf_exp
import OpenFecVerif.Gen.Tab_of_rs_gf_log
import OpenFecVerif.Gen.Tab_of_rs_inverse
/-!
Entry-by-entry evaluation of the same conditions the `Tab.*` theorems state, used only to *search*
for a failing index when one of those theorems no longer checks (and for the distribution counts in
the evidence).  Output lines: `bad <table> <i> <j> expected=<e> actual=<a>`.
-/
namespace TabCheck
open GF Gen

def mulFails (name : String) (bits : Nat) (tab : List Nat) (f : Nat → Nat → Nat) (rows cols : Nat) : List String :=
  (List.range rows).foldl (fun acc a =>
    (List.range cols).foldl (fun acc b =>
      let v := entry bits tab a b
      if v == f a b then acc else acc ++ [s!"bad {name} {a} {b} expected={f a b} actual={v}"]) acc) []

def expFails (name : String) (bits : Nat) (tab : List Nat) (len m poly : Nat) : List String :=
  (List.range len).foldl (fun acc i =>
    let v := entry bits tab 0 i
    let e := xpow m poly (i % (2 ^ m - 1))
    if v == e then acc else acc ++ [s!"bad {name} 0 {i} expected={e} actual={v}"]) []

def logFails (name : String) (lbits : Nat) (ltab : List Nat) (ebits : Nat) (etab : List Nat) (m : Nat)
    (ovf : List (Nat × Nat × Nat)) : List String :=
  (List.range (2 ^ m)).foldl (fun acc a =>
    let l := match ovf.find? (fun o => o.2.1 == a) with
      | some o => o.2.2
      | none => entry lbits ltab 0 a
    if a == 0 then (if l == 2 ^ m - 1 then acc else acc ++ [s!"bad {name} 0 {a} expected={2 ^ m - 1} actual={l}"])
    else if l < 2 ^ m - 1 && entry ebits etab 0 l == a then acc
    else acc ++ [s!"bad {name} 0 {a} expected=log({a}) actual={l}"]) []

def invFails (name : String) (bits : Nat) (tab : List Nat) (m poly : Nat) : List String :=
  (List.range (2 ^ m)).foldl (fun acc a =>
    let v := entry bits tab 0 a
    if a == 0 then (if v == 0 then acc else acc ++ [s!"bad {name} 0 0 expected=0 actual={v}"])
    else if v < 2 ^ m && mul m poly a v == 1 then acc
    else acc ++ [s!"bad {name} 0 {a} expected=inverse({a}) actual={v}"]) []

def all : List String :=
  mulFails "of_gf_2_4_mul_table" 8 of_gf_2_4_mul_table mul4 16 16 ++
  mulFails "of_gf_2_4_opt_mul_table" 8 of_gf_2_4_opt_mul_table opt4 16 256 ++
  expFails "of_gf_2_4_exp" 8 of_gf_2_4_exp 16 4 poly4 ++
  logFails "of_gf_2_4_log" 8 of_gf_2_4_log 8 of_gf_2_4_exp 4 [] ++
  invFails "of_gf_2_4_inv" 8 of_gf_2_4_inv 4 poly4 ++
  mulFails "of_gf_2_8_mul_table" 8 of_gf_2_8_mul_table mul8 256 256 ++
  expFails "of_gf_2_8_exp" 8 of_gf_2_8_exp 256 8 poly8 ++
  logFails "of_gf_2_8_log" 32 of_gf_2_8_log 8 of_gf_2_8_exp 8 of_gf_2_8_log_overflow ++
  invFails "of_gf_2_8_inv" 8 of_gf_2_8_inv 8 poly8 ++
  mulFails "of_gf_mul_table" 8 of_gf_mul_table mul8 256 256 ++
  expFails "of_rs_gf_exp" 8 of_rs_gf_exp 510 8 poly8 ++
  logFails "of_rs_gf_log" 32 of_rs_gf_log 8 of_rs_gf_exp 8 of_rs_gf_log_overflow ++
  invFails "of_rs_inverse" 8 of_rs_inverse 8 poly8

end TabCheck
