import OpenFecVerif.Model.GF
/-
Symbol kernels with the code's phase structure:
* XOR kernels (of_symbol.c, 64-bit build): `size >> 3` 8-byte words, then one 4-byte step iff
  `(size >> 3) << 1 < size >> 2`, then `size % 4` single bytes; operands are consumed in groups of 8, 4, 2, 1;
* multiply-accumulate kernels (RS codecs): `UNROLL = 16`-byte rounds while `dst < dst + size − 15`, then a byte tail.
`covered` / `covered16` list the byte offsets the loops touch, in order; the kernels act on exactly those offsets.
-/
namespace Kern

/-- byte offsets touched by the XOR kernels, in processing order -/
def covered (size : Nat) : List Nat :=
  let n64 := size / 8
  let step32 := if 2 * n64 < size / 4 then 4 else 0
  List.range' 0 (8 * n64) ++ List.range' (8 * n64) step32 ++ List.range' (8 * n64 + step32) (size % 4)

/-- byte offsets touched by the multiply-accumulate kernels -/
def covered16 (size : Nat) : List Nat :=
  List.range' 0 (16 * (size / 16)) ++ List.range' (16 * (size / 16)) (size % 16)

/-- operand group sizes: 8 while at least 8 remain, then 4, 2, 1 -/
def groups (count : Nat) : List Nat :=
  List.replicate (count / 8) 8 ++ List.replicate (count % 8 / 4) 4 ++ List.replicate (count % 4 / 2) 2 ++
    List.replicate (count % 2) 1

/-- apply `f i b` to the bytes at the offsets in `offs`, leave the others -/
def onOffsets (offs : List Nat) (f : Nat → Nat → Nat) (buf : List Nat) : List Nat :=
  buf.zipIdx.map fun p => if offs.contains p.2 then f p.2 p.1 else p.1

def xor1 (size : Nat) (to frm : List Nat) : List Nat :=
  onOffsets (covered size) (fun i b => b ^^^ frm.getD i 0) to

/-- split a list of operands according to `groups` -/
def splitGroups {α : Type} : List Nat → List α → List (List α)
  | [], _ => []
  | g :: gs, l => l.take g :: splitGroups gs (l.drop g)

def xorFrom (size : Nat) (to : List Nat) (frms : List (List Nat)) : List Nat :=
  (splitGroups (groups frms.length) frms).foldl (fun t grp =>
    onOffsets (covered size) (fun i b => grp.foldl (fun acc f => acc ^^^ f.getD i 0) b) t) to

def xorTo (size : Nat) (tos : List (List Nat)) (frm : List Nat) : List (List Nat) :=
  (splitGroups (groups tos.length) tos).flatMap fun grp => grp.map fun t => xor1 size t frm

/-- dst[i] ^= c·src[i] over GF(2^8), bytewise -/
def addmul8 (size c : Nat) (dst src : List Nat) : List Nat :=
  onOffsets (covered16 size) (fun i b => b ^^^ GF.mul8 c (src.getD i 0)) dst

/-- the `addmul` macro of the GF(2^8) codec: nothing to do for c = 0 -/
def addmul8rs (size c : Nat) (dst src : List Nat) : List Nat := if c = 0 then dst else addmul8 size c dst src

/-- GF(2^4), one element per byte -/
def addmul4 (size c : Nat) (dst src : List Nat) : List Nat :=
  onOffsets (covered16 size) (fun i b => b ^^^ GF.mul4 c (src.getD i 0)) dst

/-- GF(2^4), two elements per byte -/
def addmul4c (size c : Nat) (dst src : List Nat) : List Nat :=
  onOffsets (covered16 size) (fun i b => b ^^^ GF.opt4 c (src.getD i 0)) dst

/-! harness-side buffer generation (mirrors harness/kern.c) -/
def lcgBuf (x : Nat) (size : Nat) (nib : Bool) : Nat × List Nat :=
  (List.range size).foldl (fun (acc : Nat × List Nat) _ =>
    let x' := (acc.1 * 1103515245 + 12345) % 2147483648
    let v := (x' / 65536) % 256
    (x', acc.2 ++ [if nib then v % 16 else v])) (x, [])

def hexByte (n : Nat) : String :=
  let d := fun (k : Nat) => if k < 10 then Char.ofNat (48 + k) else Char.ofNat (87 + k)
  String.ofList [d (n / 16), d (n % 16)]
def hex (l : List Nat) : String := if l.isEmpty then "-" else String.join (l.map hexByte)

def run (name : String) (size count c seed : Nat) : String :=
  let x0 := (seed * 2654435761 + 17) % 4294967296 % 2147483648
  if name == "xorto" then
    let (x1, src) := lcgBuf x0 size false
    let (_, dsts) := (List.range count).foldl (fun (acc : Nat × List (List Nat)) _ =>
      let (x', d) := lcgBuf acc.1 size false; (x', acc.2 ++ [d])) (x1, [])
    "ok" ++ String.join ((xorTo size dsts src).map fun d => " " ++ hex d)
  else
    let nib := name == "addmul4"
    let (x1, dst) := lcgBuf x0 size nib
    let nsrc := if name == "xorfrom" then count else 1
    let (_, srcs) := (List.range nsrc).foldl (fun (acc : Nat × List (List Nat)) _ =>
      let (x', d) := lcgBuf acc.1 size nib; (x', acc.2 ++ [d])) (x1, [])
    let s0 := srcs.headD []
    let out :=
      if name == "xor1" then xor1 size dst s0
      else if name == "xorfrom" then xorFrom size dst srcs
      else if name == "addmul8rs" then addmul8rs size (c % 256) dst s0
      else if name == "addmul8" then addmul8 size (c % 256) dst s0
      else if name == "addmul4" then addmul4 size (c % 16) dst s0
      else addmul4c size (c % 16) dst s0
    "ok " ++ hex out

end Kern
