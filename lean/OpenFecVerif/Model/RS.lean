import OpenFecVerif.Model.Sym
/-
Reed-Solomon model: evaluation points 0, 1, x, x^2, …; systematic generator by Lagrange's formula;
encoding; decoding from any k symbols by Lagrange interpolation.  Generic in the field operations
(`mul`, `inv` on naturals < 2^m; addition is xor) and in the symbol type.
-/
namespace RS

/-- field operations used by the model -/
structure Fld where
  m : Nat
  mul : Nat → Nat → Nat
  inv : Nat → Nat
  xpow : Nat → Nat

def pow (mul : Nat → Nat → Nat) (a : Nat) : Nat → Nat
  | 0 => 1
  | n+1 => mul a (pow mul a n)

/-- inverse as a^(2^m - 2), from first principles -/
def fld8 : Fld := ⟨8, GF.mul8, fun a => pow GF.mul8 a 254, GF.xpow8⟩
def fld4 : Fld := ⟨4, GF.mul4, fun a => pow GF.mul4 a 14, GF.xpow4⟩

/-- evaluation point of encoding symbol `i` -/
def pt (F : Fld) (i : Nat) : Nat := if i = 0 then 0 else F.xpow (i - 1)

/-- product of a list of field elements -/
def prodL (mul : Nat → Nat → Nat) (l : List Nat) : Nat := l.foldr mul 1

/-- the factors (x − pt l) / (pt i − pt l), l ∈ nodes, l ≠ i   (characteristic 2: − is xor) -/
def terms (F : Fld) (nodes : List Nat) (i : Nat) (x : Nat) : List Nat :=
  (nodes.filter (fun l => l != i)).map fun l => F.mul (x ^^^ pt F l) (F.inv (pt F i ^^^ pt F l))

/-- Lagrange basis polynomial of node `i` among `nodes`, evaluated at `x` -/
def basisAt (F : Fld) (nodes : List Nat) (i : Nat) (x : Nat) : Nat := prodL F.mul (terms F nodes i x)

/-- entry (r, i) of the systematic generator: coefficient of source symbol i in encoding symbol r -/
def G (F : Fld) (k r i : Nat) : Nat := basisAt F (List.range k) i (pt F r)

/-- Σ_j c_j • y_j -/
def lincomb {σ : Type} (O : Ops σ) (cs : List Nat) (ys : List σ) : σ :=
  (List.zip cs ys).foldl (fun acc p => if p.1 = 0 then acc else O.add acc (O.smul p.1 p.2)) O.zero

/-- encoding symbol `r` (repair when r ≥ k) -/
def encode {σ : Type} (F : Fld) (O : Ops σ) (k : Nat) (src : List σ) (r : Nat) : σ :=
  lincomb O ((List.range k).map (G F k r)) src

/-- value at position `j` of the codeword interpolating the received pairs (esi, value) -/
def interpolate {σ : Type} (F : Fld) (O : Ops σ) (recv : List (Nat × σ)) (j : Nat) : σ :=
  let nodes := recv.map (·.1)
  lincomb O (nodes.map fun s => basisAt F nodes s (pt F j)) (recv.map (·.2))

/-- the k symbols the codecs decode from: every available source symbol in place, gaps filled with
the available repair symbols in increasing ESI order -/
def choose {σ : Type} (k n : Nat) (avail : Nat → Option σ) : List (Nat × σ) :=
  let reps := (List.range' k (n - k)).filterMap fun e => (avail e).map fun v => (e, v)
  ((List.range k).foldl (fun (acc : List (Nat × σ) × List (Nat × σ)) i =>
    match avail i with
    | some v => (acc.1 ++ [(i, v)], acc.2)
    | none => match acc.2 with
      | p :: rest => (acc.1 ++ [p], rest)
      | [] => acc) ([], reps)).1

end RS

namespace RS
/-! Table-accelerated field operations for the executable driver: every table is `Array.ofFn` of the
first-principles function above, so the accelerated operation equals the specification on field
elements by `Array.getElem_ofFn`. -/
def invTab8 : Array Nat := Array.ofFn (n := 256) fun i => fld8.inv i.val
def invTab4 : Array Nat := Array.ofFn (n := 16) fun i => fld4.inv i.val
def xpowTab8 : Array Nat := ((List.range 255).foldl (fun (acc : Array Nat × Nat) _ =>
  (acc.1.push acc.2, GF.xtime 8 GF.poly8 acc.2)) (#[], 1)).1
def xpowTab4 : Array Nat := ((List.range 15).foldl (fun (acc : Array Nat × Nat) _ =>
  (acc.1.push acc.2, GF.xtime 4 GF.poly4 acc.2)) (#[], 1)).1
def mulTab4 : Array Nat := Array.ofFn (n := 256) fun i => GF.mul4 (i.val / 16) (i.val % 16)

def fld8x : Fld := ⟨8, Bytes.fmul8, fun a => invTab8.getD a 0, fun i => xpowTab8.getD (i % 255) 0⟩
def fld4x : Fld := ⟨4, fun a b => mulTab4.getD (a * 16 + b) 0, fun a => invTab4.getD a 0, fun i => xpowTab4.getD (i % 15) 0⟩
end RS
