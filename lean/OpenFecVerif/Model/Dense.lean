import OpenFecVerif.Model.Sparse
/-
Dense GF(2) matrix of of_matrix_dense.c in the row-oriented layout the library is built with: every row is
`nw = ⌈nc/32⌉` words of 32 bits, bit `c % 32` of word `c / 32` is column `c`.  Functions follow the C code word by
word (including what happens to the padding bits of the last word); the bit-matrix meaning is a theorem
(Props/C18.lean), not a definition.
-/
namespace Dense

def W : Nat := 4294967296          -- 2^32

structure D where
  nr : Nat
  nc : Nat
  nw : Nat
  rows : TMap (List Nat)           -- row i: nw words

def zeros (n : Nat) : List Nat := List.replicate n 0

/-- of_mod2dense_allocate (calloc'ed storage) -/
def alloc (nr nc : Nat) : Option D :=
  if nr = 0 ∨ nc = 0 then none
  else some { nr := nr, nc := nc, nw := (nc + 31) >>> 5, rows := TMap.mk' (zeros ((nc + 31) >>> 5)) }

def row (m : D) (i : Nat) : List Nat := m.rows.get i

/-- of_mod2_getbit / setbit1 / setbit0 on a 32-bit word -/
def getbit (w i : Nat) : Nat := (w >>> i) &&& 1
def setbit1 (w i : Nat) : Nat := (w ||| (1 <<< i)) % W
def setbit0 (w i : Nat) : Nat := w &&& (W - 1 - (1 <<< i) % W)

/-- of_mod2dense_get (no bounds check in this build) -/
def get (m : D) (r c : Nat) : Nat := getbit ((row m r).getD (c >>> 5) 0) (c &&& 31)

/-- of_mod2dense_set: -1 (here `none`) when out of bounds -/
def set (m : D) (r c v : Nat) : D × Bool :=
  if r ≥ m.nr ∨ c ≥ m.nc then (m, false)
  else
    let w := (row m r).getD (c >>> 5) 0
    let w' := if v ≠ 0 then setbit1 w (c &&& 31) else setbit0 w (c &&& 31)
    ({ m with rows := m.rows.set r ((row m r).set (c >>> 5) w') }, true)

def set' (m : D) (r c v : Nat) : D := (set m r c v).1

/-- of_mod2dense_flip: returns the new bit, or none when out of bounds -/
def flip (m : D) (r c : Nat) : D × Option Nat :=
  if r ≥ m.nr ∨ c ≥ m.nc then (m, none)
  else
    let b := 1 ^^^ get m r c
    ((set m r c b).1, some b)

/-- of_mod2dense_clear -/
def clear (m : D) : D := { m with rows := TMap.mk' (zeros m.nw) }

/-- copy of one row into a wider or equal destination row: source words then zeros -/
def widen (src : List Nat) (nwSrc nwDst : Nat) : List Nat := src.take nwSrc ++ zeros (nwDst - nwSrc)

/-- of_mod2dense_copy -/
def copy (m r : D) : D :=
  if m.nr > r.nr ∨ m.nc > r.nc then r
  else { r with rows := (List.range r.nr).foldl (fun t j =>
          t.set j (if j < m.nr then widen (row m j) m.nw r.nw else zeros r.nw)) r.rows }

/-- of_mod2dense_copyrows -/
def copyrows (m r : D) (idx : List Nat) : D :=
  if m.nc > r.nc then r
  else
    let r0 := clear r
    ((List.range r.nr).foldl (fun (acc : D × Bool) i =>
      if acc.2 then acc else
      let s := idx.getD i 0
      if s ≥ m.nr then (acc.1, true)
      else ({ acc.1 with rows := acc.1.rows.set i (widen (row m s) m.nw r.nw) }, false)) (r0, false)).1

/-- of_mod2dense_copycols (row-oriented branch: bit by bit, destination not cleared, indexes not checked) -/
def copycols (m r : D) (idx : List Nat) : D :=
  if m.nr > r.nr then r
  else (List.range r.nc).foldl (fun acc j =>
    (List.range m.nr).foldl (fun a i => set' a i j (get m i (idx.getD j 0))) acc) r

/-- of_mod2dense_xor_rows: row `to` ^= row `from` -/
def xorRows (m : D) (frm to : Nat) : D :=
  { m with rows := m.rows.set to (List.zipWith (· ^^^ ·) (row m to) (row m frm)) }

def rowWeight (m : D) (i : Nat) : Nat := ((List.range m.nc).filter fun j => get m i j ≠ 0).length
def colWeight (m : D) (j : Nat) : Nat := ((List.range m.nr).filter fun i => get m i j ≠ 0).length
def rowIsEmpty (m : D) (i : Nat) : Bool := (row m i).all (· == 0)

def popcount (w : Nat) : Nat := ((List.range 32).filter fun i => w.testBit i).length
/-- of_mod2dense_row_weight_ignore_first for nb a multiple of 32: all bits of the words from nb/32 on -/
def rowWeightIgnoreFirst (m : D) (i nb : Nat) : Nat := (((row m i).drop (nb >>> 5)).map popcount).sum

/-- of_mod2sparse_to_dense -/
def ofSparse (s : Sparse.M) (r : D) : D :=
  if s.nr > r.nr ∨ s.nc > r.nc then r
  else (Sparse.entries s).foldl (fun acc e => set' acc e.1 e.2 1) (clear r)

/-- of_mod2dense_to_sparse -/
def toSparse (m : D) (r : Sparse.M) : Sparse.M :=
  if m.nr > r.nr ∨ m.nc > r.nc then r
  else (List.range m.nr).foldl (fun acc i =>
    (List.range m.nc).foldl (fun a j => if get m i j ≠ 0 then Sparse.insert' a i j else a) acc) (Sparse.clear r)

/-! ### observation line of `ddump` -/

def hexNat (n : Nat) : String := String.ofList (Nat.toDigits 16 n)

def dump (m : D) : String :=
  let w := String.join ((List.range m.nr).map fun i => String.intercalate "," ((row m i).map hexNat) ++ ";")
  let bits := String.join ((List.range m.nr).map fun i =>
    String.ofList ((List.range m.nc).map fun j => if get m i j ≠ 0 then '1' else '0') ++ ";")
  let rw := Sparse.natList ((List.range m.nr).map (rowWeight m))
  let cw := Sparse.natList ((List.range m.nc).map (colWeight m))
  let empty := String.ofList ((List.range m.nr).map fun i => if rowIsEmpty m i then '1' else '0')
  let rwi := String.join ((List.range m.nr).map fun i =>
    Sparse.natList ((List.range ((m.nc + 31) / 32)).map fun t => rowWeightIgnoreFirst m i (32 * t)) ++ ";")
  s!"ok nr={m.nr} nc={m.nc} nw={m.nw} w={w} bits={bits} rw={rw} cw={cw} empty={empty} rwi={rwi}"

end Dense
