import OpenFecVerif.Model.GF
/-
Symbols.  The models are generic in the symbol type `σ` through an explicit operations record;
the executable instance is a byte vector.
-/

/-- operations on symbols that the codecs use -/
structure Ops (σ : Type) where
  zero : σ
  add : σ → σ → σ
  /-- multiplication of every field element of the symbol by a field constant (Reed-Solomon only) -/
  smul : Nat → σ → σ

abbrev Bytes := Array UInt8

namespace Bytes

def zero (len : Nat) : Bytes := Array.replicate len 0
def xor (a b : Bytes) : Bytes := Array.zipWith (· ^^^ ·) a b

def hexDigit (n : Nat) : Char := if n < 10 then Char.ofNat (48 + n) else Char.ofNat (87 + n)
def toHex (b : Bytes) : String :=
  String.ofList (b.foldr (fun x acc => hexDigit (x.toNat / 16) :: hexDigit (x.toNat % 16) :: acc) [])

/-- GF(2^8) multiplication table built once from the bit-level definition -/
def mulTab8 : Array UInt8 := Array.ofFn (n := 65536) fun i => (GF.mul8 (i.val / 256) (i.val % 256)).toUInt8
def fmul8 (a b : Nat) : Nat := (mulTab8.getD (a * 256 + b) 0).toNat
/-- packed GF(2^4): both nibbles of a byte multiplied by c -/
def optTab4 : Array UInt8 := Array.ofFn (n := 4096) fun i => (GF.opt4 (i.val / 256) (i.val % 256)).toUInt8

def smul8 (c : Nat) (b : Bytes) : Bytes := b.map fun x => mulTab8.getD (c * 256 + x.toNat) 0
def smul4 (c : Nat) (b : Bytes) : Bytes := b.map fun x => optTab4.getD (c * 256 + x.toNat) 0

def ops8 (len : Nat) : Ops Bytes := ⟨zero len, xor, smul8⟩
def ops4 (len : Nat) : Ops Bytes := ⟨zero len, xor, smul4⟩
/-- binary codes never scale -/
def ops2 (len : Nat) : Ops Bytes := ⟨zero len, xor, fun _ b => b⟩

/-- the harness's linear congruential byte generator -/
def lcgBytes (x0 : Nat) (len : Nat) : Bytes :=
  ((List.range len).foldl (fun (acc : Nat × Bytes) _ =>
    let x := (acc.1 * 1103515245 + 12345) % 2147483648
    (x, acc.2.push ((x / 65536) % 256).toUInt8)) (x0, #[])).2

/-- source symbol `i` of a block: `mode = 0` identity payload (unit vector in the codec's alphabet),
otherwise seeded pseudo-random bytes; mirrors `fill_source` of harness/ofdrv.c -/
def source (codec m len mode seed i : Nat) : Bytes :=
  if mode == 0 then
    let z := zero len
    if codec == 1 || (codec == 2 && m == 8) then (if i < len then z.set! i 1 else z)
    else if codec == 2 then (if i / 2 < len then z.set! (i / 2) (if i % 2 == 0 then 0x10 else 0x01) else z)
    else (if i / 8 < len then z.set! (i / 8) (1 <<< (i % 8)).toUInt8 else z)
  else
    lcgBytes ((seed * 2654435761 + i * 40503 + 1) % 4294967296 % 2147483648) len

end Bytes
