/-
Specification of GF(2^m) arithmetic as GF(2)[x]/(p) at bit level, from first principles
(carry-less "shift and add" multiplication with reduction by the primitive polynomial).
Core Lean only.
-/
namespace GF

/-- multiply by x modulo `poly` (which includes the x^m term) -/
def xtime (m poly a : Nat) : Nat :=
  let s := 2 * a
  if s < 2 ^ m then s else s ^^^ poly

/-- shift-and-add multiplication, `fuel` = number of bits of `b` still to examine -/
def mulGo (m poly : Nat) : Nat → Nat → Nat → Nat
  | 0, _, _ => 0
  | n+1, a, b => (if b % 2 = 1 then a else 0) ^^^ mulGo m poly n (xtime m poly a) (b / 2)

def mul (m poly a b : Nat) : Nat := mulGo m poly m a b

/-- x^i in the field -/
def xpow (m poly : Nat) : Nat → Nat
  | 0 => 1
  | i+1 => xtime m poly (xpow m poly i)

def poly4 : Nat := 0x13    -- x^4 + x + 1
def poly8 : Nat := 0x11D   -- x^8 + x^4 + x^3 + x^2 + 1

def mul4 (a b : Nat) : Nat := mul 4 poly4 a b
def mul8 (a b : Nat) : Nat := mul 8 poly8 a b
def xpow4 (i : Nat) : Nat := xpow 4 poly4 i
def xpow8 (i : Nat) : Nat := xpow 8 poly8 i

/-- entry `j` of a packed table row -/
def unpack (bits row j : Nat) : Nat := (row >>> (bits * j)) % 2 ^ bits

/-- entry (i, j) of a packed table -/
def entry (bits : Nat) (tab : List Nat) (i j : Nat) : Nat := unpack bits (tab.getD i 0) j

/-- bounded universal quantifier as a Bool, usable with `decide +kernel` -/
def allLT (n : Nat) (p : Nat → Bool) : Bool := (List.range n).all p

theorem allLT_spec {n : Nat} {p : Nat → Bool} (h : allLT n p = true) : ∀ i, i < n → p i = true := by
  intro i hi
  unfold allLT at h
  rw [List.all_eq_true] at h
  exact h i (List.mem_range.2 hi)

/-- rows `lo ≤ a < lo+cnt` of a multiplication table agree with `f` on columns < `cols` -/
def chkMulRows (bits : Nat) (tab : List Nat) (f : Nat → Nat → Nat) (cols lo cnt : Nat) : Bool :=
  (List.range' lo cnt).all fun a =>
    let row := tab.getD a 0
    allLT cols fun b => unpack bits row b == f a b

theorem chkMulRows_spec {bits : Nat} {tab : List Nat} {f : Nat → Nat → Nat} {cols lo cnt : Nat}
    (h : chkMulRows bits tab f cols lo cnt = true) :
    ∀ a b, lo ≤ a → a < lo + cnt → b < cols → entry bits tab a b = f a b := by
  intro a b h1 h2 h3
  unfold chkMulRows at h
  rw [List.all_eq_true] at h
  have := h a (by rw [List.mem_range'_1]; exact ⟨h1, h2⟩)
  have := allLT_spec this b h3
  simpa [entry] using this

end GF

namespace GF
/-- exp table: entry i is x^(i mod (2^m - 1)) for every index of the table -/
def chkExp (bits : Nat) (tab : List Nat) (len m poly : Nat) : Bool :=
  let row := tab.getD 0 0
  allLT len fun i => unpack bits row i == xpow m poly (i % (2 ^ m - 1))

/-- log table on field elements: sentinel at 0, otherwise exp[log a] = a and log a < 2^m - 1 -/
def chkLog (lbits : Nat) (ltab : List Nat) (ebits : Nat) (etab : List Nat) (m : Nat) : Bool :=
  let lrow := ltab.getD 0 0
  let erow := etab.getD 0 0
  allLT (2 ^ m) fun a =>
    let l := unpack lbits lrow a
    if a == 0 then l == 2 ^ m - 1 else (decide (l < 2 ^ m - 1) && unpack ebits erow l == a)

/-- inverse table: inv[0] = 0, a * inv[a] = 1 -/
def chkInv (bits : Nat) (tab : List Nat) (m poly : Nat) : Bool :=
  let row := tab.getD 0 0
  allLT (2 ^ m) fun a =>
    let v := unpack bits row a
    if a == 0 then v == 0 else (decide (v < 2 ^ m) && mul m poly a v == 1)

/-- the packed two-nibble table of the GF(2^4) codec -/
def opt4 (c x : Nat) : Nat := ((mul4 c (x >>> 4)) <<< 4) ||| (mul4 c (x &&& 15))
end GF

namespace GF
/-- bounded quantifier over lo ≤ i < lo + cnt, for chunked kernel evaluation -/
def allRange (lo cnt : Nat) (p : Nat → Bool) : Bool := (List.range' lo cnt).all p

theorem allRange_spec {lo cnt : Nat} {p : Nat → Bool} (h : allRange lo cnt p = true) :
    ∀ i, lo ≤ i → i < lo + cnt → p i = true := by
  intro i h1 h2
  unfold allRange at h
  rw [List.all_eq_true] at h
  exact h i (by rw [List.mem_range'_1]; exact ⟨h1, h2⟩)
end GF
