import OpenFecVerif.Model.TMap
import OpenFecVerif.Model.Sym
/-
Iterative (peeling) erasure decoder of of_it_decoding.c, transliterated:
step 0 duplicate test, step 1 store, step 2 account the symbol in each equation it belongs to
(partial sum created lazily when one unknown is left, known members folded into it and deleted),
step 3 LIFO processing of the equations that reached degree one, with recursion.
Generic in the symbol type; state tables are total maps.
-/
namespace IT

structure St (σ : Type) where
  m : Nat                         -- number of equations (n − k)
  k : Nat
  rows : TMap (List Nat)          -- remaining entries (ESIs) of each equation
  cterm : TMap (Option σ)         -- partial sum of the equation, if it has been started
  nbu : TMap Nat                  -- tab_nb_unknown_symbols
  sym : TMap (Option σ)           -- encoding_symbols_tab
  decoded : List Nat              -- ESIs rebuilt by the decoder (most recent first)

variable {σ : Type}

def St.known (s : St σ) (e : Nat) : Bool := (s.sym.get e).isSome
def St.complete (s : St σ) : Bool := (List.range s.k).all s.known

def init (k : Nat) (H : List (List Nat)) : St σ :=
  { m := H.length, k := k,
    rows := TMap.ofList H [],
    cterm := TMap.mk' none,
    nbu := TMap.ofList (H.map List.length) 0,
    sym := TMap.mk' none,
    decoded := [] }

/-- step 2 on one equation; `known` already contains `esi` (value `v`).
Returns the new row, partial sum, unknown count, and whether the row must be registered for step 3. -/
def rowStep (O : Ops σ) (sym : Nat → Option σ) (esi : Nat) (v : σ)
    (row : List Nat) (ct : Option σ) (nbu : Nat) : List Nat × Option σ × Nat × Bool :=
  if row.contains esi then
    let nbu' := nbu - 1
    if ct.isSome || nbu' == 1 then
      let c0 := ct.getD O.zero
      let c1 := if row.length > 1 then O.add c0 v else c0
      let row1 := row.filter (fun e => e != esi)
      let c2 := row1.foldl (fun c e => match sym e with | some x => O.add c x | none => c) c1
      let row2 := row1.filter (fun e => (sym e).isNone)
      (row2, some c2, nbu', row2.length == 1)
    else (row, none, nbu', row.length == 1)
  else (row, ct, nbu, false)

def injectRow (O : Ops σ) (s : St σ) (esi : Nat) (v : σ) (r : Nat) : St σ × Bool :=
  let q := rowStep O s.sym.get esi v (s.rows.get r) (s.cterm.get r) (s.nbu.get r)
  ({ s with rows := s.rows.set r q.1, cterm := s.cterm.set r q.2.1, nbu := s.nbu.set r q.2.2.1 }, q.2.2.2)

/-- step 2 over equations 0 .. R−1; returns the equations to examine in step 3, in registration order -/
def inject (O : Ops σ) (s : St σ) (esi : Nat) (v : σ) : Nat → St σ × List Nat
  | 0 => (s, [])
  | r+1 =>
    let p := inject O s esi v r
    let q := injectRow O p.1 esi v r
    (q.1, if q.2 then p.2 ++ [r] else p.2)

def St.consume (s : St σ) (r : Nat) : St σ :=
  { s with rows := s.rows.set r [], cterm := s.cterm.set r none }

mutual
def decode (O : Ops σ) (fuel : Nat) (s : St σ) (esi : Nat) (v : σ) : St σ :=
  match fuel with
  | 0 => s
  | fuel+1 =>
    if s.known esi then s else
    let s1 := { s with sym := s.sym.set esi (some v) }
    if esi < s.k && s1.complete then s1 else
    let p := inject O s1 esi v s1.m
    drain O fuel p.1 p.2.reverse
termination_by (fuel, 0)
def drain (O : Ops σ) (fuel : Nat) (s : St σ) (l : List Nat) : St σ :=
  match l with
  | [] => s
  | r :: rest =>
    if s.complete then s else
    match s.rows.get r with
    | [e] =>
      let c := (s.cterm.get r).getD O.zero
      let s' := s.consume r
      let s'' := if s'.known e then s' else { s' with decoded := e :: s'.decoded }
      drain O fuel (decode O fuel s'' e c) rest
    | _ => drain O fuel s rest
termination_by (fuel, l.length + 1)
end

/-- of_linear_binary_code_decode_with_new_symbol at top level; fuel = number of symbols + 1 suffices -/
def submit (O : Ops σ) (n : Nat) (s : St σ) (esi : Nat) (v : σ) : St σ := decode O (n + 1) s esi v

/-- the peeling closure of a set of known symbols: specification side -/
def closureStep (H : List (List Nat)) (K : List Nat) : List Nat :=
  H.foldl (fun K row => match row.filter (fun e => !K.contains e) with
    | [e] => e :: K
    | _ => K) K

def closure (H : List (List Nat)) (n : Nat) (K : List Nat) : List Nat :=
  (List.range (n + 1)).foldl (fun K _ => closureStep H K) K

end IT
