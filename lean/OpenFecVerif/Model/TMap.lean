/-
Total maps `Nat → α` with a default, backed by an array: O(1) access in the compiled model and the
function-update law `get (set m k v) k' = if k' = k then v else get m k'` without side conditions
(`set` grows the array when needed), so that proofs read as if the state were a function.
-/
structure TMap (α : Type) where
  arr : Array α
  dflt : α

namespace TMap
variable {α : Type}

def mk' (d : α) : TMap α := ⟨#[], d⟩
def ofList (l : List α) (d : α) : TMap α := ⟨l.toArray, d⟩
def const (n : Nat) (v d : α) : TMap α := ⟨Array.replicate n v, d⟩

def get (m : TMap α) (i : Nat) : α := m.arr.getD i m.dflt

def grow (a : Array α) (d : α) : Nat → Array α
  | 0 => a
  | n+1 => grow (a.push d) d n

theorem grow_size (a : Array α) (d : α) (n : Nat) : (grow a d n).size = a.size + n := by
  induction n generalizing a with
  | zero => rfl
  | succ n ih => simp [grow, ih]; omega

theorem grow_getD (a : Array α) (d : α) (n i : Nat) : (grow a d n).getD i d = a.getD i d := by
  induction n generalizing a with
  | zero => rfl
  | succ n ih =>
    simp only [grow, ih]
    simp only [Array.getD_eq_getD_getElem?, Array.getElem?_push]
    by_cases h : i = a.size
    · subst h; simp
    · simp [h]

def set (m : TMap α) (i : Nat) (v : α) : TMap α :=
  if i < m.arr.size then ⟨m.arr.setIfInBounds i v, m.dflt⟩
  else ⟨(grow m.arr m.dflt (i + 1 - m.arr.size)).setIfInBounds i v, m.dflt⟩

@[simp] theorem set_dflt (m : TMap α) (i : Nat) (v : α) : (m.set i v).dflt = m.dflt := by
  unfold set; split <;> rfl

theorem get_set (m : TMap α) (i j : Nat) (v : α) :
    (m.set i v).get j = if j = i then v else m.get j := by
  unfold set get
  split
  · rename_i h
    simp only [Array.getD_eq_getD_getElem?, Array.getElem?_setIfInBounds]
    by_cases hji : j = i
    · subst hji; simp [h]
    · have : ¬ i = j := fun e => hji e.symm
      simp [hji, this]
  · rename_i h
    have hs := grow_size m.arr m.dflt (i + 1 - m.arr.size)
    have hg := grow_getD m.arr m.dflt (i + 1 - m.arr.size) j
    simp only [Array.getD_eq_getD_getElem?, Array.getElem?_setIfInBounds] at *
    by_cases hji : j = i
    · subst hji
      have : j < (grow m.arr m.dflt (j + 1 - m.arr.size)).size := by rw [hs]; omega
      simp [this]
    · have : ¬ i = j := fun e => hji e.symm
      simp [hji, this, hg]

@[simp] theorem get_set_same (m : TMap α) (i : Nat) (v : α) : (m.set i v).get i = v := by
  rw [get_set]; simp

theorem get_set_ne (m : TMap α) {i j : Nat} (v : α) (h : j ≠ i) : (m.set i v).get j = m.get j := by
  rw [get_set]; simp [h]

end TMap
