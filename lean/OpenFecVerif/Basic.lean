def hello := "world"
