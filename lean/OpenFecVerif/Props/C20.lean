import OpenFecVerif.Proofs.Blocking
import OpenFecVerif.Proofs.BlockingI
/-!
# C20 — eperftool block partitioning follows RFC 5052

`Gen.of_compute_blocking_struct` is regenerated from `applis/eperftool/blocking_struct.c` on every run
(doubles through the abstract rounding operator `rn` of the binary64 standard model `RN53`).
`cdiv a b` = ⌈a/b⌉ on naturals.
-/
open Gen BlockingProofs

/-- For every object length L ≥ 1, symbol size E ≥ 1 and block size B ≥ 1 (32-bit values):
nb_blocks = N = ⌈⌈L/E⌉/B⌉, A_large = ⌈T/N⌉, A_small = ⌊T/N⌋, under ANY rounding operator satisfying the standard model. -/
theorem C20_partial (rn : ℚ → ℚ) (h : RN53 rn) (B L E i0 i1 i2 i3 : ℕ)
    (hB : 1 ≤ B) (hE : 1 ≤ E) (hL1 : 1 ≤ L) (hL : L < 2 ^ 32) (hBlt : B < 2 ^ 32) (hElt : E < 2 ^ 32) :
    (of_compute_blocking_struct rn i0 i1 i2 i3 B L E).1 = cdiv (cdiv L E) B ∧
    (of_compute_blocking_struct rn i0 i1 i2 i3 B L E).2.1 = cdiv (cdiv L E) (cdiv (cdiv L E) B) ∧
    (of_compute_blocking_struct rn i0 i1 i2 i3 B L E).2.2.1 = cdiv L E / cdiv (cdiv L E) B :=
  blocking_main rn h B L E i0 i1 i2 i3 hB hE hL1 hL hBlt hElt

/-- the integer structure RFC 5052 prescribes: with N = ⌈T/B⌉, A_large = ⌈T/N⌉ ≤ B, A_small = ⌊T/N⌋, I = T mod N,
the blocks add up: I·A_large + (N − I)·A_small = T -/
theorem C20_integer_structure (T B : ℕ) (hT : 1 ≤ T) (hB : 1 ≤ B) :
    cdiv T (cdiv T B) ≤ B ∧
    (T % cdiv T B) * cdiv T (cdiv T B) + (cdiv T B - T % cdiv T B) * (T / cdiv T B) = T ∧
    T % cdiv T B < cdiv T B := by
  obtain ⟨N, hNdef⟩ : ∃ N, N = cdiv T B := ⟨_, rfl⟩
  rw [← hNdef]
  have hN1 : 1 ≤ N := by rw [hNdef]; exact cdiv_pos T B hT hB
  have hTN : T ≤ B * N := by
    rw [hNdef]
    show T ≤ B * ((T + B - 1) / B)
    have := Nat.div_add_mod (T + B - 1) B
    have hm : (T + B - 1) % B < B := Nat.mod_lt _ (by omega)
    omega
  -- q, r with T = N q + r
  obtain ⟨q, hq⟩ : ∃ q, q = T / N := ⟨_, rfl⟩
  obtain ⟨r, hr⟩ : ∃ r, r = T % N := ⟨_, rfl⟩
  have hdm : N * q + r = T := by rw [hq, hr]; exact Nat.div_add_mod T N
  have hmod : r < N := by rw [hr]; exact Nat.mod_lt _ (by omega)
  rw [← hq, ← hr]
  have qn : q * N = N * q := Nat.mul_comm _ _
  have hcd : cdiv T N = if r = 0 then q else q + 1 := by
    show (T + N - 1) / N = _
    by_cases h0 : r = 0
    · simp only [h0, if_true]
      apply Nat.div_eq_of_lt_le
      · omega
      · have : (q + 1) * N = q * N + N := by rw [Nat.add_mul, Nat.one_mul]
        omega
    · simp only [h0, if_false]
      apply Nat.div_eq_of_lt_le
      · have : (q + 1) * N = q * N + N := by rw [Nat.add_mul, Nat.one_mul]
        omega
      · have : (q + 1 + 1) * N = q * N + N + N := by rw [Nat.add_mul, Nat.add_mul, Nat.one_mul]
        omega
  refine ⟨?_, ?_, hmod⟩
  · rw [hcd]
    -- q (+1) ≤ B since N q + r ≤ B N
    by_cases h0 : r = 0
    · simp only [h0, if_true]
      by_contra hc
      have : B + 1 ≤ q := by omega
      have : N * (B + 1) ≤ N * q := Nat.mul_le_mul_left N this
      have e : N * (B + 1) = B * N + N := by ring
      omega
    · simp only [h0, if_false]
      by_contra hc
      have : B ≤ q := by omega
      have : N * B ≤ N * q := Nat.mul_le_mul_left N this
      have e : N * B = B * N := Nat.mul_comm _ _
      omega
  · rw [hcd]
    by_cases h0 : r = 0
    · simp only [h0, if_true]
      simp
      have : N * q = T := by omega
      exact this
    · simp only [h0, if_false]
      have hle : r ≤ N := hmod.le
      have : r * (q + 1) + (N - r) * q = N * q + r := by
        zify [hle]; ring
      omega

/-- **C20, full statement.** For every object length 1 ≤ L < 2^32, symbol size E ≥ 1 and maximum block size B ≥ 1, under ANY
rounding operator satisfying the binary64 standard model, the four outputs are the RFC 5052 partition of T = ⌈L/E⌉ symbols into
N = ⌈T/B⌉ blocks: A_large = ⌈T/N⌉, A_small = ⌊T/N⌋, I = T mod N — and therefore (C20_integer_structure) A_large ≤ B and
I·A_large + (N − I)·A_small = T. -/
theorem C20_full (rn : ℚ → ℚ) (h : RN53 rn) (B L E i0 i1 i2 i3 : ℕ)
    (hB : 1 ≤ B) (hE : 1 ≤ E) (hL1 : 1 ≤ L) (hL : L < 2 ^ 32) (hBlt : B < 2 ^ 32) (hElt : E < 2 ^ 32) :
    let bs := of_compute_blocking_struct rn i0 i1 i2 i3 B L E
    let T := cdiv L E
    let N := cdiv T B
    bs.1 = N ∧ bs.2.1 = cdiv T N ∧ bs.2.2.1 = T / N ∧ bs.2.2.2 = T % N ∧
    bs.2.1 ≤ B ∧ bs.2.2.2 * bs.2.1 + (bs.1 - bs.2.2.2) * bs.2.2.1 = T := by
  intro bs T N
  have hm := blocking_main rn h B L E i0 i1 i2 i3 hB hE hL1 hL hBlt hElt
  have hi := blocking_I rn h B L E i0 i1 i2 i3 hB hE hL1 hL hBlt hElt
  have hT1 : 1 ≤ T := cdiv_pos L E hL1 hE
  have hs := C20_integer_structure T B hT1 hB
  refine ⟨hm.1, hm.2.1, hm.2.2, hi, ?_, ?_⟩
  · show bs.2.1 ≤ B; rw [hm.2.1]; exact hs.1
  · show bs.2.2.2 * bs.2.1 + (bs.1 - bs.2.2.2) * bs.2.2.1 = T
    rw [hi, hm.1, hm.2.1, hm.2.2]; exact hs.2.1

-- non-vacuity: the hypotheses are satisfiable (L = 10, E = 1, B = 3; exact arithmetic is in RN53)
example : RN53 id ∧ cdiv (cdiv 10 1) 3 = 4 := ⟨RN53_id, by decide⟩
