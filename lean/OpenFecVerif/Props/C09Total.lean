import OpenFecVerif.Props.C09
import OpenFecVerif.Props.C09Validate
import OpenFecVerif.Props.C05
import OpenFecVerif.Proofs.DrawTotal
import Mathlib.Tactic.Linarith
import Mathlib.Data.List.Perm.Subperm
/-!
# C09 at full strength: `of_set_fec_parameters` answers OK **exactly** for the configurations inside the advertised limits

`C09_accept_iff` (Props/C09.lean) leaves one side condition for LDPC-Staircase: the matrix construction must return.  It does, for
every configuration inside the limits and every seed: the rejection loops of RFC 5170 terminate because 16807 is a primitive root
modulo the prime 2^31 − 1 (`Proofs/PrimRoot.lean`), every value below the loop's bound is the scaled output of some generator state
(`Proofs/RandHit.lean`, for every rounding operator of the binary64 standard model), and every loop is entered with at least one
acceptable value (`Proofs/RfcTotal.lean`).
-/
open Api
variable {σ : Type}

/-- inside the LDPC-Staircase limits the products the construction uses as bounds stay below 2^30 -/
theorem ldpc_bounds (k r N1 : Nat) (hkr : k + r ≤ 50000) (hN : N1 ≤ r) : k < 2 ^ 30 ∧ r < 2 ^ 30 ∧ N1 * k < 2 ^ 30 := by
  have e : (2 : Nat) ^ 30 = 1073741824 := by norm_num
  rw [e]
  refine ⟨by omega, by omega, ?_⟩
  have h1 : N1 * k ≤ r * k := Nat.mul_le_mul_right k hN
  have h2 : r * k ≤ 625000000 := by
    have hz : ((r : ℤ) * k) ≤ 625000000 := by
      have hs : ((k : ℤ) + r) ≤ 50000 := by exact_mod_cast hkr
      nlinarith [sq_nonneg ((r : ℤ) - k), Int.natCast_nonneg k, Int.natCast_nonneg r]
    exact_mod_cast hz
  omega

/-- **the LDPC-Staircase construction returns a matrix for every configuration inside the limits** (model as executed by `ofmodel`) -/
theorem C09_ldpc_construction_returns (g : Nat) (p : Params) (hw : withinLimits 3 p = true) :
    (Rfc5170.create CSem.rne53 g p.k p.r p.N1 p.seed.toNat).2.isSome = true := by
  obtain ⟨h1, h2, _, h4, h5, _, h7⟩ := (C09_limits 3 p).1.mp hw
  obtain ⟨_, hN, hs1, hs2⟩ := h7 rfl
  have hmaxN : maxN 3 p.m = 50000 := (C09_limits 3 p).2.2.2.2.2.2
  rw [hmaxN] at h5
  obtain ⟨b1, b2, b3⟩ := ldpc_bounds p.k p.r p.N1 h5 hN
  have hrn := C19_executable_rounding_in_standard_model
  refine RfcTotal.create_total CSem.rne53 (C05_goodRand _ hrn) (DrawTotalProof.drawTotal _ hrn) g p.k p.r p.N1 p.seed.toNat
    h1 h2 b1 b2 b3 hN ⟨?_, ?_⟩
  · omega
  · omega

/-- **`of_set_fec_parameters` (codecs 1, 2, 3 of the session model) returns OK if and only if the configuration is inside the advertised
limits**, and a fatal error otherwise — no side condition left -/
theorem C09_accept_iff_limits (IO : SymIO σ) (g : Nat) (s : Session σ) (p : Params) :
    ((setParamsStd IO g s p).2.1 = Status.ok ↔ withinLimits s.codec p = true) ∧
    ((setParamsStd IO g s p).2.1 ≠ Status.ok → (setParamsStd IO g s p).2.1 = Status.fatal) := by
  obtain ⟨hiff, hor⟩ := C09_accept_iff IO g s p
  refine ⟨?_, ?_⟩
  · rw [hiff]
    constructor
    · exact fun h => h.1
    · intro hw
      refine ⟨hw, ?_⟩
      intro h3
      rw [h3] at hw
      exact C09_ldpc_construction_returns g p hw
  · intro hne
    rcases hor with h | h
    · exact absurd h hne
    · exact h


theorem nodup_lt_length (l : List Nat) (n : Nat) (hnd : l.Nodup) (hlt : ∀ e ∈ l, e < n) : l.length ≤ n := by
  have hsub : l ⊆ List.range n := fun e he => List.mem_range.mpr (hlt e he)
  have := (List.subperm_of_subset hnd hsub).length_le
  simpa using this

/-- **the 16-bit per-equation counters of the decoder cannot overflow** (`tab_nb_unknown_symbols`, `tab_nb_enc_symbols_per_equ` are
`UINT16` in the C control block; the model keeps them as unbounded naturals): in every accepted LDPC-Staircase configuration an equation
has at most n ≤ 50000 < 65536 entries -/
theorem C09_counters_fit_16_bits {σ : Type} (IO : SymIO σ) (g : Nat) (s : Session σ) (p : Params) (g' : Nat) (s' : Session σ) (hc : s.codec = 3)
    (h : setParamsStd IO g s p = (g', Status.ok, s')) : ∀ row ∈ s'.H, row.length ≤ 50000 ∧ row.length < 65536 := by
  obtain ⟨_, hwf, _, _, _, _⟩ := C05_configured_session IO g s p g' s' hc h
  have hok : (setParamsStd IO g s p).2.1 = Status.ok := by rw [h]
  have hw := (C09_accept_iff_limits IO g s p).1.mp hok
  rw [hc] at hw
  obtain ⟨_, _, _, _, h5, _, _⟩ := (C09_limits 3 p).1.mp hw
  have hmaxN : maxN 3 p.m = 50000 := (C09_limits 3 p).2.2.2.2.2.2
  rw [hmaxN] at h5
  intro row hrow
  obtain ⟨hnd, hlt⟩ := hwf row hrow
  have := nodup_lt_length row (p.k + p.r) hnd hlt
  omega

#print axioms C09_ldpc_construction_returns
#print axioms C09_accept_iff_limits
#print axioms C09_counters_fit_16_bits
