import OpenFecVerif.Proofs.Rand
import OpenFecVerif.Proofs.Rne
/-!
# C19 — the RFC 5170 pseudo-random generator is the Park-Miller minimal standard

All statements are about `Gen.of_rfc5170_rand` / `Gen.of_rfc5170_srand`, which are regenerated from
`src/lib_common/of_rand.c` by the translator on every run.  `rn` is the rounding operator of the
binary64 standard model (`RN53`).
-/
open Gen RandProofs

/-- From any state s in 1..2^31−2 the generator moves to 16807·s mod (2^31−1), which is again in 1..2^31−2. -/
theorem C19_step (rn : ℚ → ℚ) (s maxv : ℕ) (h1 : 1 ≤ s) (h2 : s ≤ 2147483646) :
    (of_rfc5170_rand rn s maxv).1 = 16807 * s % 2147483647 ∧
    1 ≤ (of_rfc5170_rand rn s maxv).1 ∧ (of_rfc5170_rand rn s maxv).1 ≤ 2147483646 := by
  rw [step_ok rn s maxv h1 h2]
  exact ⟨rfl, pm_range s h1 h2⟩

/-- The value returned is RFC 5170's reference expression on the new state, and it equals the exact
floor(s'·maxv/(2^31−1)) whenever s'·maxv < 2^53. -/
theorem C19_exact (rn : ℚ → ℚ) (h : RN53 rn) (s maxv : ℕ) (h1 : 1 ≤ s) (h2 : s ≤ 2147483646)
    (hm : maxv < 2 ^ 53) (hX : (16807 * s % 2147483647) * maxv < 2 ^ 53) :
    (of_rfc5170_rand rn s maxv).2 = (16807 * s % 2147483647) * maxv / 2147483647 := by
  rw [out_eq, step_ok rn s maxv h1 h2]
  have := pm_range s h1 h2
  exact scaled_exact rn h (pm s) maxv (by unfold pm at *; omega) hm hX

/-- The value returned is always in 0..maxv−1. -/
theorem C19_range (rn : ℚ → ℚ) (h : RN53 rn) (s maxv : ℕ) (h1 : 1 ≤ s) (h2 : s ≤ 2147483646)
    (hm1 : 1 ≤ maxv) (hm : maxv < 2 ^ 63) :
    (of_rfc5170_rand rn s maxv).2 < maxv := by
  rw [out_eq, step_ok rn s maxv h1 h2]
  exact scaled_lt rn h (pm s) maxv (pm_range s h1 h2).2 hm1 hm

/-- Seeding accepts exactly 1..2^31−2; any other value leaves the global state as it was. -/
theorem C19_seed_guard (g s : ℕ) :
    of_rfc5170_srand g s = if 1 ≤ s ∧ s ≤ 2147483646 then s else g := srand_spec g s

/-- The 10,000th state after seed 1 is 1043618065 (Park & Miller's check value). -/
theorem C19_10000 (rn : ℚ → ℚ) : genIter rn 10000 (of_rfc5170_srand 0 1) = 1043618065 := by
  rw [srand_spec]; simp only [le_refl, Nat.one_le_ofNat, and_self, if_true]
  rw [genIter_eq rn 10000 1 (by norm_num) (by norm_num)]
  exact pm_10000

/-- the rounding function of the executable model (`ofmodel`, which is run against the compiled C code on every check) is itself a
member of the standard model: round to nearest even on a 53-bit significand with unbounded exponent is exact on integers below 2^53 and
has relative error at most 2^-53.  Hence every statement of this file, of C20 and of C05 holds for the model that is actually run. -/
theorem C19_executable_rounding_in_standard_model : RN53 CSem.rne53 := RneProof.rne53_RN53

-- non-vacuity: the hypotheses are satisfiable (exact arithmetic is a member of RN53; s = 1, maxv = 100)
example : RN53 id ∧ (1 : ℕ) ≤ 1 ∧ (1 : ℕ) ≤ 2147483646 ∧ (100 : ℕ) < 2 ^ 53 ∧ (16807 * 1 % 2147483647) * 100 < 2 ^ 53 :=
  ⟨RN53_id, by norm_num, by norm_num, by norm_num, by norm_num⟩

#print axioms C19_step
#print axioms C19_exact
#print axioms C19_range
#print axioms C19_seed_guard
#print axioms C19_10000
#print axioms C19_executable_rounding_in_standard_model
