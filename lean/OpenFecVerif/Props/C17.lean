import OpenFecVerif.Proofs.SparseInv
import OpenFecVerif.Proofs.Conv
/-!
# C17 — the sparse GF(2) matrix is a set of (row, column) pairs under any operation sequence

`Sparse.M` (Model/Sparse.lean) keeps what the C structure keeps: the traversal order of every row and of every
column (two redundant orderings of the same entries) and the entry pool.  `Sparse.Mem m r c` is the abstract set.
`Sparse.Inv` says: every row and column traversal is strictly increasing, an entry is in its row's list iff it is in
its column's list, all indexes are in range, and the pool accounts for every record
(`free + entries in use = 1024 * blocks`).  The correspondence check runs the same operation sequences on the real
module and compares every traversal, `find` on every cell and the pool counters after each operation.
-/
namespace Sparse

/-- a freshly allocated matrix is empty and well formed -/
theorem C17_alloc_inv {nr nc : Nat} {m : M} (h : alloc nr nc = some m) :
    Inv m ∧ m.nr = nr ∧ m.nc = nc ∧ ∀ r c, ¬ Mem m r c := alloc_inv h

theorem C17_insert_inv {m : M} (h : Inv m) (r c : Nat) : Inv (insert m r c).1 := insert_inv h r c
theorem C17_delete_inv {m : M} (h : Inv m) (r c : Nat) : Inv (delete m r c).1 := delete_inv h r c
theorem C17_clear_inv (m : M) : Inv (clear m) ∧ ∀ r c, ¬ Mem (clear m) r c := clear_inv m

/-- `find` (last-of-row test, last-of-column test, parallel scan) agrees with membership -/
theorem C17_find_iff_mem {m : M} (h : Inv m) (r c : Nat) : find m r c = true ↔ Mem m r c := find_iff_mem h r c

/-- in-range insertion adds exactly that pair; out of range it is refused and nothing changes -/
theorem C17_insert_mem {m : M} (r c : Nat) :
    (r < m.nr → c < m.nc → ∀ r' c', Mem (insert m r c).1 r' c' ↔ (r' = r ∧ c' = c) ∨ Mem m r' c') ∧
    ((r ≥ m.nr ∨ c ≥ m.nc) → insert m r c = (m, none)) :=
  ⟨fun hr hc r' c' => insert_mem r c hr hc r' c', insert_out_of_range r c⟩

/-- inserting an existing entry is idempotent (same entries, same traversals, same pool) -/
theorem C17_insert_idem {m : M} (r c : Nat) : (insert (insert m r c).1 r c).1 = (insert m r c).1 := insert_idem r c

/-- find-then-delete removes exactly that pair and reports whether it was present -/
theorem C17_delete_mem {m : M} (h : Inv m) (r c : Nat) :
    (∀ r' c', Mem (delete m r c).1 r' c' ↔ Mem m r' c' ∧ ¬ (r' = r ∧ c' = c)) ∧ ((delete m r c).2 = true ↔ Mem m r c) :=
  ⟨fun r' c' => delete_mem h r c r' c', delete_result h r c⟩

/-- a row traversal lists exactly the row's entries, in increasing order, without repetition -/
theorem C17_row_sorted {m : M} (h : Inv m) (r : Nat) :
    (m.rows.get r).Pairwise (· < ·) ∧ (m.rows.get r).Nodup ∧ ∀ c, c ∈ m.rows.get r ↔ Mem m r c :=
  ⟨h.rows_sorted r, (h.rows_sorted r).nodup, fun _ => Iff.rfl⟩

/-- a column traversal lists exactly the column's entries, in increasing order, without repetition -/
theorem C17_col_exact {m : M} (h : Inv m) (c : Nat) :
    (m.cols.get c).Pairwise (· < ·) ∧ (m.cols.get c).Nodup ∧ ∀ r, r ∈ m.cols.get c ↔ Mem m r c :=
  ⟨h.cols_sorted c, (h.cols_sorted c).nodup, fun r => (h.consistent r c).symm⟩

theorem C17_copy_spec (m r : M) (hm : Inv m) (hr : Inv r) :
    Inv (copy m r) ∧ ((m.nr ≤ r.nr ∧ m.nc ≤ r.nc) → ∀ i j, Mem (copy m r) i j ↔ Mem m i j) ∧
    ((m.nr > r.nr ∨ m.nc > r.nc) → copy m r = r) :=
  ⟨copy_inv m r hr, fun hfit i j => copy_mem m r hm hfit i j, fun h => by unfold copy; simp [h]⟩

theorem C17_copyrows_spec (m r : M) (idx : List Nat) (hm : Inv m) (hr : Inv r) :
    Inv (copyrows m r idx) ∧
    (m.nc ≤ r.nc → (∀ i, i < r.nr → idx.getD i 0 < m.nr) →
      ∀ i j, Mem (copyrows m r idx) i j ↔ i < r.nr ∧ Mem m (idx.getD i 0) j) :=
  ⟨copyrows_inv m r idx hr, fun hfit hv i j => copyrows_mem m r idx hm hfit hv i j⟩

theorem C17_copycols_spec (m r : M) (idx : List Nat) (hm : Inv m) (hr : Inv r) :
    Inv (copycols m r idx) ∧
    (m.nr ≤ r.nr → (∀ j, j < r.nc → idx.getD j 0 < m.nc) →
      ∀ i j, Mem (copycols m r idx) i j ↔ j < r.nc ∧ Mem m i (idx.getD j 0)) :=
  ⟨copycols_inv m r idx hr, fun hfit hv i j => copycols_mem m r idx hm hfit hv i j⟩

theorem C17_copyFilled_spec (m r : M) (ir ic : List Nat) (hm : Inv m) (hr : Inv r) :
    Inv (copyFilled m r ir ic) ∧
    ∀ i j, Mem (copyFilled m r ir ic) i j ↔
      (∃ a b, Mem m a b ∧ ir.getD a 0 = i ∧ ic.getD b 0 = j ∧ i < r.nr ∧ j < r.nc) ∨ Mem r i j :=
  ⟨copyFilled_inv m r ir ic hr, fun i j => copyFilled_mem m r ir ic hm i j⟩

/-- operations on one matrix; the copy family takes its source as an arbitrary (well-formed or not) matrix -/
inductive Op
  | insert (r c : Nat) | delete (r c : Nat) | clear
  | copyFrom (src : M) | copyrowsFrom (src : M) (idx : List Nat) | copycolsFrom (src : M) (idx : List Nat)
  | copyFilledFrom (src : M) (ir ic : List Nat)

def step (m : M) : Op → M
  | .insert r c => (insert m r c).1
  | .delete r c => (delete m r c).1
  | .clear => clear m
  | .copyFrom s => copy s m
  | .copyrowsFrom s idx => copyrows s m idx
  | .copycolsFrom s idx => copycols s m idx
  | .copyFilledFrom s ir ic => copyFilled s m ir ic

/-- **any operation sequence** (in range or not, valid index lists or not) keeps the matrix well formed — hence
`find` = membership, sorted exact traversals and the pool equation hold in every reachable state -/
theorem C17_run_inv {m : M} (h : Inv m) (ops : List Op) : Inv (ops.foldl step m) := by
  induction ops generalizing m with
  | nil => exact h
  | cons op t ih =>
    apply ih
    cases op with
    | insert r c => exact insert_inv h r c
    | delete r c => exact delete_inv h r c
    | clear => exact (clear_inv m).1
    | copyFrom s => exact copy_inv s m h
    | copyrowsFrom s idx => exact copyrows_inv s m idx h
    | copycolsFrom s idx => exact copycols_inv s m idx h
    | copyFilledFrom s ir ic => exact copyFilled_inv s m ir ic h

/-- the entry pool accounts for every record: nothing in use is on the free list and nothing is lost -/
theorem C17_pool_exact {nr nc : Nat} {m0 : M} (h0 : alloc nr nc = some m0) (ops : List Op) :
    (ops.foldl step m0).pool.free + count (ops.foldl step m0) = blockSize * (ops.foldl step m0).pool.blocks :=
  (C17_run_inv (alloc_inv h0).1 ops).pool

-- non-vacuity: a concrete reachable state with entries, a deletion and a recycled record
example : ∃ m0, alloc 3 4 = some m0 ∧
    let m := [Op.insert 1 2, .insert 1 0, .insert 2 2, .insert 1 2, .delete 1 0, .insert 0 3].foldl step m0
    m.rows.get 1 = [2] ∧ m.cols.get 2 = [1, 2] ∧ find m 2 2 = true ∧ find m 1 0 = false ∧ m.pool = ⟨1, 1021⟩ := by
  refine ⟨_, rfl, ?_⟩
  decide

/-! ### conversion to and from the dense representation (`Proofs/Conv.lean`) -/

/-- of_mod2dense_to_sparse builds, whatever the destination held, a matrix that satisfies the invariant and whose entries are exactly
the one bits of the dense matrix -/
theorem C17_from_dense {m : Dense.D} {r : M} (hfit : m.nr ≤ r.nr ∧ m.nc ≤ r.nc) :
    Inv (Dense.toSparse m r) ∧ ∀ i j, Mem (Dense.toSparse m r) i j ↔ (i < m.nr ∧ j < m.nc ∧ Dense.bit m i j = true) :=
  Dense.mem_toSparse hfit

/-- of_mod2sparse_to_dense reads the set of entries: cell (i, j) of the result is one exactly when (i, j) is an entry -/
theorem C17_to_dense {s : M} {r : Dense.D} (hs : Inv s) (hr : Dense.WF r) (hfit : s.nr ≤ r.nr ∧ s.nc ≤ r.nc) (i j : Nat) :
    Dense.bit (Dense.ofSparse s r) i j = true ↔ Mem s i j := (Dense.bit_ofSparse hs hr hfit).2 i j

end Sparse
