import OpenFecVerif.Model.Api
import OpenFecVerif.Proofs.LdpcFin
import OpenFecVerif.Proofs.ITEvents
/-!
# C11 — decoded-source-symbol callback contract (session model)

In the session model a callback event is emitted for exactly the ESIs returned in the third component
of a decoder step, and the destination of the decoded value is `cbDest policy esi`.
-/
open Api
variable {σ : Type}

/-- where a decoded symbol is stored: the callback's buffer when it returns one, a library buffer otherwise -/
theorem C11_dest_policy (e : Nat) :
    cbDest .buf e = Prov.cb ∧ cbDest .null e = Prov.lib ∧ cbDest .none e = Prov.lib ∧
    cbDest .mix e = (if e % 2 == 0 then Prov.cb else Prov.lib) := by
  simp [cbDest]

/-- Reed-Solomon: the events of a decoding are exactly the source symbols that were missing, each once -/
theorem C11_rs_events_exactly_missing (IO : SymIO σ) (s : Session σ) (p : Params) :
    (rsDecode IO s p).2 = (List.range p.k).filter (fun i => (s.avail.get i).isNone) ∧
    ((rsDecode IO s p).2).Nodup := by
  unfold rsDecode
  exact ⟨rfl, (List.nodup_range).filter _⟩

/-- … and never one that had been received -/
theorem C11_rs_never_for_received (IO : SymIO σ) (s : Session σ) (p : Params) (i : Nat)
    (h : (s.avail.get i).isSome = true) : i ∉ (rsDecode IO s p).2 := by
  rw [(C11_rs_events_exactly_missing IO s p).1]
  simp only [List.mem_filter, not_and]
  intro _ hn
  cases hv : s.avail.get i with
  | none => rw [hv] at h; cases h
  | some x => rw [hv] at hn; cases hn

private theorem fold_keeps (F : RS.Fld) (O : Ops σ) (chosen : List (Nat × σ))
    (l : List Nat) (s : Session σ) (i : Nat) (hi : i ∉ l) :
    (l.foldl (fun (s : Session σ) j =>
      { s with avail := s.avail.set j (some ⟨RS.interpolate F O chosen j, cbDest s.cb j⟩) }) s).avail.get i = s.avail.get i := by
  induction l generalizing s with
  | nil => rfl
  | cons a t ih =>
    simp only [List.foldl_cons]
    rw [ih _ (fun h => hi (by simp [h]))]
    simp only [TMap.get_set]
    have : i ≠ a := fun e => hi (by simp [e])
    simp [this]

private theorem fold_cb (l : List Nat) (F : RS.Fld) (O : Ops σ) (chosen : List (Nat × σ)) (s : Session σ) :
    (l.foldl (fun (s : Session σ) j =>
      { s with avail := s.avail.set j (some ⟨RS.interpolate F O chosen j, cbDest s.cb j⟩) }) s).cb = s.cb := by
  induction l generalizing s with
  | nil => rfl
  | cons a t ih => simp only [List.foldl_cons]; rw [ih]

private theorem fold_sets (F : RS.Fld) (O : Ops σ) (chosen : List (Nat × σ))
    (l : List Nat) (hnd : l.Nodup) (s : Session σ) (i : Nat) (hi : i ∈ l) :
    ((l.foldl (fun (s : Session σ) j =>
      { s with avail := s.avail.set j (some ⟨RS.interpolate F O chosen j, cbDest s.cb j⟩) }) s).avail.get i).map (·.prov)
      = some (cbDest s.cb i) := by
  induction l generalizing s with
  | nil => cases hi
  | cons a t ih =>
    simp only [List.foldl_cons]
    rw [List.nodup_cons] at hnd
    by_cases hia : i = a
    · subst hia
      rw [fold_keeps F O chosen t _ i hnd.1]
      simp [TMap.get_set_same]
    · have : i ∈ t := by
        cases hi with
        | head => exact absurd rfl hia
        | tail _ h => exact h
      rw [ih hnd.2 _ this]

/-- the decoded value is recorded with the destination the policy prescribes -/
theorem C11_rs_stored_per_policy (IO : SymIO σ) (s : Session σ) (p : Params) (i : Nat)
    (hi : i < p.k) (hmiss : (s.avail.get i).isNone = true) :
    (((rsDecode IO s p).1.avail.get i).map (·.prov)) = some (cbDest s.cb i) := by
  unfold rsDecode
  simp only []
  apply fold_sets
  · exact (List.nodup_range).filter _
  · simp [hi, hmiss]


/-- **LDPC-Staircase / 2D, Gaussian-elimination stage: the callback events of `of_finish_decoding`** are exactly the source symbols
that were unknown before the call and are known after it, each exactly once (the list has no repetition), never a symbol that was
already known, never an ESI ≥ k. -/
theorem C11_ldpc_finish_events (IO : SymIO σ) (s : Session σ) (p : Params) (it : IT.St σ) (hit : s.it = some it) (hk : it.k = p.k) :
    ∃ it', (ldpcFinish IO s p).2.1.it = some it' ∧ (ldpcFinish IO s p).2.2.Nodup ∧
      ∀ e, e ∈ (ldpcFinish IO s p).2.2 ↔ (e < p.k ∧ it.known e = false ∧ it'.known e = true) := by
  obtain ⟨it', h1, _, _, _, h5, h6⟩ := LdpcFin.ldpcFinish_truthful IO s p it hit hk
  exact ⟨it', h1, h5, h6⟩


/-- **LDPC-Staircase / 2D, iterative-decoding stage: the callback events of one `of_decode_with_new_symbol`** (or of one entry of
`of_set_available_symbols`) are exactly the source symbols that were unknown before the call, are known after it and are not the submitted
symbol, each exactly once.  Known symbols stay known (and the bound on the equations' entries is kept, so the statement applies to the
next call), hence over a whole session no symbol is reported twice and never one that was received.  Hypotheses: the entries of the
decoder's equations are below n (true of every configured session, C05) and the matrix has not been consumed by `of_finish_decoding`
(afterwards submissions are only registered and produce no event). -/
theorem C11_ldpc_recv_events (IO : SymIO σ) (s : Session σ) (p : Params) (esi j : Nat) (v : σ) (it : IT.St σ) (hit : s.it = some it)
    (hcons : s.mlConsumed = false) (hrows : ITEvents.RowsLt p.n it) (hesi : esi < p.n) :
    ∃ it', (ldpcRecv IO s p esi v j).2.1.it = some it' ∧ ITEvents.RowsLt p.n it' ∧ (∀ e, it.known e = true → it'.known e = true) ∧
      (ldpcRecv IO s p esi v j).2.2.Nodup ∧
      ∀ e, e ∈ (ldpcRecv IO s p esi v j).2.2 ↔ (e < p.k ∧ it.known e = false ∧ it'.known e = true ∧ e ≠ esi) :=
  ITEvents.ldpcRecv_events IO s p esi j v it hit hcons hrows hesi
