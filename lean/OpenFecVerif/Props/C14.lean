import OpenFecVerif.Proofs.Tab.Small
import OpenFecVerif.Proofs.Tab.Log8
import OpenFecVerif.Proofs.Tab.Mul8_0
import OpenFecVerif.Proofs.Tab.Mul8_1
import OpenFecVerif.Proofs.Tab.Mul8_2
import OpenFecVerif.Proofs.Tab.Mul8_3
import OpenFecVerif.Proofs.Tab.Rs8Mul_0
import OpenFecVerif.Proofs.Tab.Rs8Mul_1
import OpenFecVerif.Proofs.Tab.Rs8Mul_2
import OpenFecVerif.Proofs.Tab.Rs8Mul_3
/-!
# C14 — the GF(2^4) and GF(2^8) tables are the fields they claim to be

`Gen.of_*` are the tables of the current source tree (header initialisers, and the run-time tables of
the GF(2^8) codec dumped after `of_rs_init()`), regenerated on every run.  `GF.mul4`, `GF.mul8`,
`GF.xpow4`, `GF.xpow8` are bit-level arithmetic in GF(2)[x]/(x^4+x+1) and GF(2)[x]/(x^8+x^4+x^3+x^2+1).
Every statement quantifies over the whole index range.
-/
open GF Gen

private theorem mul256 {tab : List Nat}
    (h0 : chkMulRows 8 tab mul8 256 0 64 = true) (h1 : chkMulRows 8 tab mul8 256 64 64 = true)
    (h2 : chkMulRows 8 tab mul8 256 128 64 = true) (h3 : chkMulRows 8 tab mul8 256 192 64 = true) :
    ∀ a b, a < 256 → b < 256 → entry 8 tab a b = mul8 a b := by
  intro a b ha hb
  by_cases c0 : a < 64
  · exact chkMulRows_spec h0 a b (by omega) (by omega) hb
  by_cases c1 : a < 128
  · exact chkMulRows_spec h1 a b (by omega) (by omega) hb
  by_cases c2 : a < 192
  · exact chkMulRows_spec h2 a b (by omega) (by omega) hb
  · exact chkMulRows_spec h3 a b (by omega) (by omega) hb

/-- GF(2^4) multiplication table of the GF(2^m) codec -/
theorem C14_mul4 : ∀ a b, a < 16 → b < 16 → entry 8 of_gf_2_4_mul_table a b = mul4 a b :=
  fun a b ha hb => chkMulRows_spec Tab.Mul4 a b (by omega) (by omega) hb

/-- packed two-nibble table: entry (c, x) multiplies both nibbles of x by c -/
theorem C14_opt4 : ∀ c x, c < 16 → x < 256 →
    entry 8 of_gf_2_4_opt_mul_table c x = ((mul4 c (x >>> 4)) <<< 4) ||| (mul4 c (x &&& 15)) :=
  fun c x hc hx => chkMulRows_spec Tab.Opt4 c x (by omega) (by omega) hx

/-- GF(2^8) multiplication table of the GF(2^m) codec -/
theorem C14_mul8 : ∀ a b, a < 256 → b < 256 → entry 8 of_gf_2_8_mul_table a b = mul8 a b :=
  mul256 Tab.Mul8_0 Tab.Mul8_1 Tab.Mul8_2 Tab.Mul8_3

/-- multiplication table generated at first use by the GF(2^8) codec -/
theorem C14_rs8_mul : ∀ a b, a < 256 → b < 256 → entry 8 of_gf_mul_table a b = mul8 a b :=
  mul256 Tab.Rs8Mul_0 Tab.Rs8Mul_1 Tab.Rs8Mul_2 Tab.Rs8Mul_3

/-- exponential tables: entry i is x^(i mod (2^m − 1)), for every index the table has -/
theorem C14_exp :
    (∀ i, i < 16 → entry 8 of_gf_2_4_exp 0 i = xpow4 (i % 15)) ∧
    (∀ i, i < 256 → entry 8 of_gf_2_8_exp 0 i = xpow8 (i % 255)) ∧
    (∀ i, i < 510 → entry 8 of_rs_gf_exp 0 i = xpow8 (i % 255)) := by
  refine ⟨fun i hi => ?_, fun i hi => ?_, fun i hi => ?_⟩
  · simpa [entry, chkExp, xpow4] using allLT_spec Tab.Exp4 i hi
  · simpa [entry, chkExp, xpow8] using allLT_spec Tab.Exp8 i hi
  · simpa [entry, chkExp, xpow8] using allLT_spec Tab.RsExp i hi

/-- inverse tables: inv[0] = 0 and a · inv[a] = 1 for every non-zero field element -/
theorem C14_inv :
    (∀ a, 0 < a → a < 16 → mul4 a (entry 8 of_gf_2_4_inv 0 a) = 1) ∧
    (∀ a, 0 < a → a < 256 → mul8 a (entry 8 of_gf_2_8_inv 0 a) = 1) ∧
    (∀ a, 0 < a → a < 256 → mul8 a (entry 8 of_rs_inverse 0 a) = 1) ∧
    entry 8 of_gf_2_4_inv 0 0 = 0 ∧ entry 8 of_gf_2_8_inv 0 0 = 0 ∧ entry 8 of_rs_inverse 0 0 = 0 := by
  have k : ∀ {bits tab m poly}, chkInv bits tab m poly = true → ∀ a, 0 < a → a < 2 ^ m →
      mul m poly a (entry bits tab 0 a) = 1 := by
    intro bits tab m poly h a h0 ha
    have := allLT_spec h a ha
    have hne : (a == 0) = false := by simp; omega
    simp only [hne, Bool.false_eq_true, if_false, Bool.and_eq_true, beq_iff_eq] at this
    exact this.2
  refine ⟨fun a h0 ha => k Tab.Inv4 a h0 ha, fun a h0 ha => k Tab.Inv8 a h0 ha,
          fun a h0 ha => k Tab.RsInv a h0 ha, by decide, by decide, by decide⟩

private theorem logk {lbits ltab ebits etab m} (h : chkLog lbits ltab ebits etab m = true) :
    (∀ a, 0 < a → a < 2 ^ m → entry lbits ltab 0 a < 2 ^ m - 1 ∧ entry ebits etab 0 (entry lbits ltab 0 a) = a) ∧
    entry lbits ltab 0 0 = 2 ^ m - 1 := by
  constructor
  · intro a h0 ha
    have := allLT_spec h a ha
    have hne : (a == 0) = false := by simp; omega
    simp only [hne, Bool.false_eq_true, if_false, Bool.and_eq_true, beq_iff_eq, decide_eq_true_eq] at this
    exact this
  · have := allLT_spec h 0 (Nat.two_pow_pos m)
    simpa [entry] using this

/-- logarithm tables on field elements: exp[log a] = a, log a < 2^m − 1, and the sentinel log 0 = 2^m − 1.
(Entries of `of_gf_2_8_log` at indices ≥ 256 are not logarithms of field elements and are not constrained.) -/
theorem C14_log :
    ((∀ a, 0 < a → a < 16 → entry 8 of_gf_2_4_log 0 a < 15 ∧ entry 8 of_gf_2_4_exp 0 (entry 8 of_gf_2_4_log 0 a) = a) ∧
      entry 8 of_gf_2_4_log 0 0 = 15) ∧
    ((∀ a, 0 < a → a < 256 → entry 32 of_gf_2_8_log 0 a < 255 ∧ entry 8 of_gf_2_8_exp 0 (entry 32 of_gf_2_8_log 0 a) = a) ∧
      entry 32 of_gf_2_8_log 0 0 = 255) ∧
    ((∀ a, 0 < a → a < 256 → entry 32 of_rs_gf_log 0 a < 255 ∧ entry 8 of_rs_gf_exp 0 (entry 32 of_rs_gf_log 0 a) = a) ∧
      entry 32 of_rs_gf_log 0 0 = 255) ∧
    of_gf_2_8_log_overflow = [] ∧ of_rs_gf_log_overflow = [] :=
  ⟨logk Tab.Log4, logk Tab.Log8, logk Tab.RsLog, Tab.noOverflow.1, Tab.noOverflow.2⟩

/-- the tables have the shapes the codecs index them with, and codec 1 uses the polynomial of RFC 5510 -/
theorem C14_shapes :
    of_gf_2_4_mul_table_rows = 16 ∧ of_gf_2_4_mul_table_cols = 16 ∧ of_gf_2_4_opt_mul_table_rows = 16 ∧
    of_gf_2_4_opt_mul_table_cols = 256 ∧ of_gf_2_8_mul_table_rows = 256 ∧ of_gf_2_8_mul_table_cols = 256 ∧
    of_gf_mul_table_rows = 256 ∧ of_gf_mul_table_cols = 256 ∧ RS_GF_BITS = 8 ∧ RS_POLY = "101110001" := by
  decide


/-- the tables of the GF(2^8) codec are generated at first use by `of_rs_init()`, which is exported and may run again: a second
generation (performed on the current sources this run) leaves every entry of the exponential, logarithm, inverse and multiplication
tables as it was — so the statements above also hold after any number of regenerations -/
theorem C14_regeneration_idempotent : RS_REGEN_MISMATCHES = 0 := by decide
