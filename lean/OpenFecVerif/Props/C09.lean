import OpenFecVerif.Model.Api
/-!
# C09 — parameters are validated: accepted ⇔ inside the advertised limits (session model)
-/
open Api
variable {σ : Type}

/-- the advertised limits, spelled out: 1 ≤ k ≤ MAX_K, r ≥ 1, k + r ≤ MAX_N, length ≥ 1, m ∈ {4, 8} (RS-2^m),
3 ≤ N1 ≤ r and 1 ≤ seed ≤ 2^31 − 2 (LDPC-Staircase); MAX_K = MAX_N = 255 (RS-2^8), 2^m − 1 (RS-2^m), 50000 (LDPC) as
regenerated from the headers -/
theorem C09_limits (codec : Nat) (p : Params) :
    (withinLimits codec p = true ↔
      (1 ≤ p.k ∧ 1 ≤ p.r ∧ 1 ≤ p.len ∧ p.k ≤ maxK codec p.m ∧ p.k + p.r ≤ maxN codec p.m ∧
       (codec = 2 → (p.m = 4 ∨ p.m = 8)) ∧
       (codec = 3 → (3 ≤ p.N1 ∧ p.N1 ≤ p.r ∧ 1 ≤ p.seed ∧ p.seed ≤ 2147483646)))) ∧
    maxK 1 p.m = 255 ∧ maxN 1 p.m = 255 ∧ maxK 2 4 = 15 ∧ maxK 2 8 = 255 ∧ maxK 3 p.m = 50000 ∧ maxN 3 p.m = 50000 := by
  refine ⟨?_, by simp [maxK, Gen.RS_MAX_K], by simp [maxN, Gen.RS_MAX_N], by decide, by decide, by simp [maxK, Gen.LDPC_MAX_K], by simp [maxN, Gen.LDPC_MAX_N]⟩
  unfold withinLimits
  simp only [Bool.and_eq_true, decide_eq_true_eq, Bool.or_eq_true, bne_iff_ne, ne_eq, beq_iff_eq]
  constructor
  · rintro ⟨⟨⟨⟨⟨⟨h1, h2⟩, h3⟩, h4⟩, h5⟩, h6⟩, h7⟩
    refine ⟨h1, h2, h3, h4, h5, ?_, ?_⟩
    · intro hc; rcases h6 with (h | h) | h
      · exact absurd hc h
      · exact Or.inl h
      · exact Or.inr h
    · intro hc; rcases h7 with h | h
      · exact absurd hc h
      · exact ⟨h.1.1.1, h.1.1.2, h.1.2, h.2⟩
  · rintro ⟨h1, h2, h3, h4, h5, h6, h7⟩
    refine ⟨⟨⟨⟨⟨⟨h1, h2⟩, h3⟩, h4⟩, h5⟩, ?_⟩, ?_⟩
    · by_cases hc : codec = 2
      · rcases h6 hc with h | h
        · exact Or.inl (Or.inr h)
        · exact Or.inr h
      · exact Or.inl (Or.inl hc)
    · by_cases hc : codec = 3
      · obtain ⟨a, b, c, d⟩ := h7 hc; exact Or.inr ⟨⟨⟨a, b⟩, c⟩, d⟩
      · exact Or.inl hc

/-- `of_set_fec_parameters` answers OK exactly when the configuration is inside the limits (and, for LDPC, the matrix
construction terminates); otherwise it answers a fatal error -/
theorem C09_accept_iff (IO : SymIO σ) (g : Nat) (s : Session σ) (p : Params) :
    ((setParamsStd IO g s p).2.1 = Status.ok ↔
      (withinLimits s.codec p = true ∧ (s.codec = 3 → (Rfc5170.create CSem.rne53 g p.k p.r p.N1 p.seed.toNat).2.isSome))) ∧
    ((setParamsStd IO g s p).2.1 = Status.ok ∨ (setParamsStd IO g s p).2.1 = Status.fatal) := by
  unfold setParamsStd
  simp only []
  by_cases hw : withinLimits s.codec p = true
  · simp only [hw, Bool.not_true, Bool.false_eq_true, if_false, true_and]
    by_cases h3 : (s.codec == 3) = true
    · have h3' : s.codec = 3 := by simpa using h3
      simp only [h3, if_true, h3', forall_const]
      cases hcr : Rfc5170.create CSem.rne53 g p.k p.r p.N1 p.seed.toNat with
      | mk g' M =>
        cases M with
        | none => simp
        | some M => simp
    · have h3' : s.codec ≠ 3 := by simpa using h3
      simp [h3, h3']
  · have hw' : withinLimits s.codec p = false := by simpa using hw
    simp [hw']

/-- a rejected configuration leaves the session unconfigured (only release and queries remain possible) -/
theorem C09_reject_keeps_unconfigured (IO : SymIO σ) (g : Nat) (s : Session σ) (p : Params) (hn : s.params = none)
    (h : (setParamsStd IO g s p).2.1 ≠ Status.ok) : (setParamsStd IO g s p).2.2.params = none := by
  unfold setParamsStd at h ⊢
  simp only [] at h ⊢
  (repeat' split) <;> simp_all

/-- a submission with an ESI outside 0..n−1, a NULL buffer or on a session that is not a decoder is answered with a fatal
error and changes nothing but the harness-side submission counter -/
theorem C09_bad_esi_rejected (IO : SymIO σ) (w : World σ) (sid esi : Nat) (null : Bool) (s : Session σ) (p : Params) (cw : List σ)
    (hs : w.ses.get sid = some s) (hp : s.params = some p) (hcw : s.cw = some cw)
    (hbad : esi ≥ p.n ∨ null = true ∨ isDec s = false) :
    (step IO w (.recv sid esi null)).2 = "ok st=FATAL" := by
  simp only [step, hs, hp, hcw]
  rcases hbad with h | h | h
  · have : (decide (esi ≥ p.n) || null || !isDec s) = true := by simp [h]
    simp [this]
  · simp [h]
  · simp [h]


/-- the 2D parity codec accepts exactly the configurations within its limits (k ≤ 16, n ≤ 24) for which the (d, l) search
finds a product shape; it does not involve the PRNG; a rejected configuration leaves the session unconfigured -/
theorem C09_accept_iff_2d (g : Nat) (s : Session σ) (p : Params) (hn : s.params = none) :
    ((setParams2D g s p).2.1 = Status.ok ↔ (withinLimits2D p = true ∧ (Parity2D.rows p.k p.r).isSome)) ∧
    ((setParams2D g s p).2.1 = Status.ok ∨ (setParams2D g s p).2.1 = Status.fatal) ∧
    ((setParams2D g s p).2.1 ≠ Status.ok → (setParams2D g s p).2.2.params = none) ∧ (setParams2D g s p).1 = g := by
  unfold setParams2D
  by_cases hw : withinLimits2D p = true
  · cases hr : Parity2D.rows p.k p.r <;> simp [hw, hn]
  · have hw' : withinLimits2D p = false := by simpa using hw
    simp [hw', hn]
