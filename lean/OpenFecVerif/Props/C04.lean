import OpenFecVerif.Proofs.ITExec
/-!
# C04 — LDPC-Staircase streaming decoding = peeling closure, for any arrival order

`ITRefine.runExec O n k Hl l` is the executable decoder model (the transliteration of
`of_linear_binary_code_decode_with_new_symbol`, run by `ofmodel` against the real library after every
call) driven from its initial state by the sequence `l` of (ESI, symbol value) submissions — any order,
repetitions allowed, any prefix.  `ITAbs.InClosure H R` is the iterative-erasure (peeling) closure of the
received set `R` under the parity-check equations `H`: the least set containing `R` such that an equation
with all members but one in the set forces the last one in.
-/
open ITRefine ITAbs

variable {σ : Type}

/-- executable well-formedness check of a matrix (the model evaluates it on every matrix it builds):
entries below n, no repeated entry in an equation, no equation with exactly one entry -/
def wfCheck (n : Nat) (Hl : List (List Nat)) : Bool :=
  Hl.all fun row => row.all (· < n) && row.length != 1 && decide row.Nodup

theorem wf_of_check (n : Nat) (Hl : List (List Nat)) (h : wfCheck n Hl = true) : WF (Hf Hl) n Hl.length := by
  unfold wfCheck at h
  rw [List.all_eq_true] at h
  have hrow : ∀ r, r < Hl.length → ((Hf Hl r).all (· < n) && (Hf Hl r).length != 1 && decide (Hf Hl r).Nodup) = true := by
    intro r hr
    have : Hf Hl r ∈ Hl := by
      simp only [Hf, List.getD_eq_getElem?_getD, List.getElem?_eq_getElem hr, Option.getD_some]
      exact List.getElem_mem hr
    exact h _ this
  have hout : ∀ r, Hl.length ≤ r → Hf Hl r = [] := by
    intro r hr
    simp [Hf, List.getD_eq_getElem?_getD, List.getElem?_eq_none hr]
  refine ⟨?_, ?_, ?_, hout⟩
  · intro r e he
    by_cases hr : r < Hl.length
    · have := hrow r hr
      simp only [Bool.and_eq_true, List.all_eq_true, decide_eq_true_eq] at this
      exact this.1.1 e he
    · rw [hout r (by omega)] at he; cases he
  · intro r
    by_cases hr : r < Hl.length
    · have := hrow r hr
      simp only [Bool.and_eq_true, decide_eq_true_eq] at this
      exact this.2
    · rw [hout r (by omega)]; exact List.nodup_nil
  · intro r
    by_cases hr : r < Hl.length
    · have := hrow r hr
      simp only [Bool.and_eq_true, bne_iff_ne, ne_eq] at this
      exact this.1.2
    · rw [hout r (by omega)]; simp

/-- **C04.** After any sequence of `of_decode_with_new_symbol` calls the set of available symbols is
sound w.r.t. the closure; it IS the closure while decoding is incomplete; decoding is reported complete
exactly when the closure contains all k source symbols; and in every case a source symbol is available
exactly when the closure contains it. -/
theorem C04_eq (O : Ops σ) (n k : Nat) (Hl : List (List Nat)) (hwf : wfCheck n Hl = true)
    (l : List (Nat × σ)) (hl : ∀ p ∈ l, p.1 < n) :
    let s := runExec O n k Hl l
    let R := fun x => x ∈ l.map (·.1)
    (∀ e, s.known e = true → InClosure (Hf Hl) R e) ∧
    (s.complete = false → ∀ e, s.known e = true ↔ InClosure (Hf Hl) R e) ∧
    (s.complete = true ↔ ∀ i, i < k → InClosure (Hf Hl) R i) ∧
    (∀ i, i < k → (s.known i = true ↔ InClosure (Hf Hl) R i)) := by
  intro s R
  have habs := abs_runExec O n k Hl l
  have hl' : ∀ e ∈ l.map (·.1), e < n := by
    intro e he
    simp only [List.mem_map] at he
    obtain ⟨p, hp, rfl⟩ := he
    exact hl p hp
  have key := run_eq_closure (Hf Hl) n Hl.length k (wf_of_check n Hl hwf) (l.map (·.1)) hl'
  simp only at key
  rw [← habs] at key
  exact key

/-- … therefore the available source symbols do not depend on arrival order or on duplicates: two
sequences that submit the same set of ESIs end with the same available source symbols and the same
completion flag. -/
theorem C04_order_dup_independent (O : Ops σ) (n k : Nat) (Hl : List (List Nat)) (hwf : wfCheck n Hl = true)
    (l l' : List (Nat × σ)) (hl : ∀ p ∈ l, p.1 < n) (hl' : ∀ p ∈ l', p.1 < n)
    (hset : ∀ x, x ∈ l.map (·.1) ↔ x ∈ l'.map (·.1)) :
    (∀ i, i < k → ((runExec O n k Hl l).known i = (runExec O n k Hl l').known i)) ∧
    (runExec O n k Hl l).complete = (runExec O n k Hl l').complete := by
  have h1 := C04_eq O n k Hl hwf l hl
  have h2 := C04_eq O n k Hl hwf l' hl'
  simp only at h1 h2
  have hR : (fun x => x ∈ l.map (·.1)) = (fun x => x ∈ l'.map (·.1)) := by
    funext x; exact propext (hset x)
  rw [hR] at h1
  constructor
  · intro i hi
    have a := h1.2.2.2 i hi
    have b := h2.2.2.2 i hi
    cases ha : (runExec O n k Hl l).known i <;> cases hb : (runExec O n k Hl l').known i <;> simp_all
  · have a := h1.2.2.1
    have b := h2.2.2.1
    cases ha : (runExec O n k Hl l).complete <;> cases hb : (runExec O n k Hl l').complete <;> simp_all

-- non-vacuity: the RFC 5170 matrix for k = 4, n = 8, N1 = 3, seed 7 (the one the smoke test prints) is well-formed
example : wfCheck 8 [[0, 1, 2, 4], [0, 2, 3, 4, 5], [1, 2, 3, 5, 6], [0, 1, 3, 6, 7]] = true := by decide
