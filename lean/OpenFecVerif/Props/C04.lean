import OpenFecVerif.Proofs.ITExec
import OpenFecVerif.Model.Api
/-!
# C04 — LDPC-Staircase streaming decoding = peeling closure, for any arrival order

`ITRefine.runExec O n k Hl l` is the executable decoder model (the transliteration of
`of_linear_binary_code_decode_with_new_symbol`, run by `ofmodel` against the real library after every
call) driven from its initial state by the sequence `l` of (ESI, symbol value) submissions — any order,
repetitions allowed, any prefix.  `ITAbs.InClosure H R` is the iterative-erasure (peeling) closure of the
received set `R` under the parity-check equations `H`: the least set containing `R` such that an equation
with all members but one in the set forces the last one in.
-/
open ITRefine ITAbs

variable {σ : Type}

/-- executable well-formedness check of a matrix (the model evaluates it on every matrix it builds):
entries below n, no repeated entry in an equation, no equation with exactly one entry -/
def wfCheck (n : Nat) (Hl : List (List Nat)) : Bool :=
  Hl.all fun row => row.all (· < n) && row.length != 1 && decide row.Nodup

theorem wf_of_check (n : Nat) (Hl : List (List Nat)) (h : wfCheck n Hl = true) : WF (Hf Hl) n Hl.length := by
  unfold wfCheck at h
  rw [List.all_eq_true] at h
  have hrow : ∀ r, r < Hl.length → ((Hf Hl r).all (· < n) && (Hf Hl r).length != 1 && decide (Hf Hl r).Nodup) = true := by
    intro r hr
    have : Hf Hl r ∈ Hl := by
      simp only [Hf, List.getD_eq_getElem?_getD, List.getElem?_eq_getElem hr, Option.getD_some]
      exact List.getElem_mem hr
    exact h _ this
  have hout : ∀ r, Hl.length ≤ r → Hf Hl r = [] := by
    intro r hr
    simp [Hf, List.getD_eq_getElem?_getD, List.getElem?_eq_none hr]
  refine ⟨?_, ?_, ?_, hout⟩
  · intro r e he
    by_cases hr : r < Hl.length
    · have := hrow r hr
      simp only [Bool.and_eq_true, List.all_eq_true, decide_eq_true_eq] at this
      exact this.1.1 e he
    · rw [hout r (by omega)] at he; cases he
  · intro r
    by_cases hr : r < Hl.length
    · have := hrow r hr
      simp only [Bool.and_eq_true, decide_eq_true_eq] at this
      exact this.2
    · rw [hout r (by omega)]; exact List.nodup_nil
  · intro r
    by_cases hr : r < Hl.length
    · have := hrow r hr
      simp only [Bool.and_eq_true, bne_iff_ne, ne_eq] at this
      exact this.1.2
    · rw [hout r (by omega)]; simp

/-- **C04.** After any sequence of `of_decode_with_new_symbol` calls the set of available symbols is
sound w.r.t. the closure; it IS the closure while decoding is incomplete; decoding is reported complete
exactly when the closure contains all k source symbols; and in every case a source symbol is available
exactly when the closure contains it. -/
theorem C04_eq (O : Ops σ) (n k : Nat) (Hl : List (List Nat)) (hwf : wfCheck n Hl = true)
    (l : List (Nat × σ)) (hl : ∀ p ∈ l, p.1 < n) :
    let s := runExec O n k Hl l
    let R := fun x => x ∈ l.map (·.1)
    (∀ e, s.known e = true → InClosure (Hf Hl) R e) ∧
    (s.complete = false → ∀ e, s.known e = true ↔ InClosure (Hf Hl) R e) ∧
    (s.complete = true ↔ ∀ i, i < k → InClosure (Hf Hl) R i) ∧
    (∀ i, i < k → (s.known i = true ↔ InClosure (Hf Hl) R i)) := by
  intro s R
  have habs := abs_runExec O n k Hl l
  have hl' : ∀ e ∈ l.map (·.1), e < n := by
    intro e he
    simp only [List.mem_map] at he
    obtain ⟨p, hp, rfl⟩ := he
    exact hl p hp
  have key := run_eq_closure (Hf Hl) n Hl.length k (wf_of_check n Hl hwf) (l.map (·.1)) hl'
  simp only at key
  rw [← habs] at key
  exact key

/-- … therefore the available source symbols do not depend on arrival order or on duplicates: two
sequences that submit the same set of ESIs end with the same available source symbols and the same
completion flag. -/
theorem C04_order_dup_independent (O : Ops σ) (n k : Nat) (Hl : List (List Nat)) (hwf : wfCheck n Hl = true)
    (l l' : List (Nat × σ)) (hl : ∀ p ∈ l, p.1 < n) (hl' : ∀ p ∈ l', p.1 < n)
    (hset : ∀ x, x ∈ l.map (·.1) ↔ x ∈ l'.map (·.1)) :
    (∀ i, i < k → ((runExec O n k Hl l).known i = (runExec O n k Hl l').known i)) ∧
    (runExec O n k Hl l).complete = (runExec O n k Hl l').complete := by
  have h1 := C04_eq O n k Hl hwf l hl
  have h2 := C04_eq O n k Hl hwf l' hl'
  simp only at h1 h2
  have hR : (fun x => x ∈ l.map (·.1)) = (fun x => x ∈ l'.map (·.1)) := by
    funext x; exact propext (hset x)
  rw [hR] at h1
  constructor
  · intro i hi
    have a := h1.2.2.2 i hi
    have b := h2.2.2.2 i hi
    cases ha : (runExec O n k Hl l).known i <;> cases hb : (runExec O n k Hl l').known i <;> simp_all
  · have a := h1.2.2.1
    have b := h2.2.2.1
    cases ha : (runExec O n k Hl l).complete <;> cases hb : (runExec O n k Hl l').complete <;> simp_all

open Api

/-- a sequence of `of_decode_with_new_symbol` calls on the session model (ESI, value, index of the application buffer) -/
def recvAll (IO : SymIO σ) (p : Params) : Session σ → List (Nat × σ × Nat) → Session σ
  | s, [] => s
  | s, x :: t => recvAll IO p (ldpcRecv IO s p x.1 x.2.1 x.2.2).2.1 t

theorem recvAll_it (IO : SymIO σ) (p : Params) (l : List (Nat × σ × Nat)) : ∀ (s : Session σ) (it : IT.St σ), s.it = some it →
    s.mlConsumed = false →
    (recvAll IO p s l).it = some (l.foldl (fun t x => IT.submit (IO.ops 3 p.m p.len) p.n t x.1 x.2.1) it) ∧
    (recvAll IO p s l).mlConsumed = false := by
  induction l with
  | nil => intro s it h hc; exact ⟨h, hc⟩
  | cons x t ih =>
    intro s it h hc
    simp only [recvAll, List.foldl_cons]
    apply ih
    · unfold ldpcRecv ldpcAfter; simp only [h, hc]; rfl
    · unfold ldpcRecv ldpcAfter; simp only [h]; split <;> simp [hc]

/-- **C04 for sessions.**  A decoder session whose iterative decoder was started from the initial state of a well-formed matrix
(`pre` = the pretended reception of the zero last repair symbol by an even-N1 decoder, or nothing) and then driven by any sequence of
`of_decode_with_new_symbol` calls: the symbols it knows are exactly the peeling closure of what was submitted, and completion is
reported exactly when the closure contains all k source symbols.  With `C05_matrix_wf` the well-formedness hypothesis holds for every
accepted LDPC-Staircase configuration. -/
theorem C04_session (IO : SymIO σ) (p : Params) (Hl : List (List Nat)) (hwf : wfCheck p.n Hl = true) (pre : List (Nat × σ))
    (s : Session σ) (hit : s.it = some (runExec (IO.ops 3 p.m p.len) p.n p.k Hl pre)) (hcons : s.mlConsumed = false)
    (l : List (Nat × σ × Nat)) (hpre : ∀ x ∈ pre, x.1 < p.n) (hl : ∀ x ∈ l, x.1 < p.n) :
    ∃ it', (recvAll IO p s l).it = some it' ∧
      (it'.complete = true ↔ ∀ i, i < p.k → InClosure (Hf Hl) (fun e => e ∈ (pre.map (·.1)) ++ (l.map (·.1))) i) ∧
      (∀ i, i < p.k → (it'.known i = true ↔ InClosure (Hf Hl) (fun e => e ∈ (pre.map (·.1)) ++ (l.map (·.1))) i)) := by
  obtain ⟨h1, _⟩ := recvAll_it IO p l s _ hit hcons
  have hrun : l.foldl (fun t x => IT.submit (IO.ops 3 p.m p.len) p.n t x.1 x.2.1) (runExec (IO.ops 3 p.m p.len) p.n p.k Hl pre)
      = runExec (IO.ops 3 p.m p.len) p.n p.k Hl (pre ++ l.map fun x => (x.1, x.2.1)) := by
    unfold runExec
    rw [List.foldl_append, List.foldl_map]
  refine ⟨_, h1, ?_⟩
  rw [hrun]
  have key := C04_eq (IO.ops 3 p.m p.len) p.n p.k Hl hwf (pre ++ l.map fun x => (x.1, x.2.1))
    (by intro x hx
        rcases List.mem_append.mp hx with h | h
        · exact hpre x h
        · obtain ⟨y, hy, rfl⟩ := List.mem_map.mp h; exact hl y hy)
  simp only [List.map_append, List.map_map, Function.comp] at key
  exact ⟨key.2.2.1, key.2.2.2⟩

-- non-vacuity: the RFC 5170 matrix for k = 4, n = 8, N1 = 3, seed 7 (the one the smoke test prints) is well-formed
example : wfCheck 8 [[0, 1, 2, 4], [0, 2, 3, 4, 5], [1, 2, 3, 5, 6], [0, 1, 3, 6, 7]] = true := by decide
