import OpenFecVerif.Props.C05
import OpenFecVerif.Model.Api
/-!
# C12 — sessions are independent of each other

`Api.World` is the process: the global PRNG state `of_seed` and the table of sessions.  `Api.step` executes one API
call.  The theorems: a call on one session leaves every other session as it was; what it returns and what it does to
its own session do not depend on anything else in the world — not on the other sessions and not on the global PRNG
state (valid LDPC parameters overwrite that state before using it, C05).  Hence the observations of a session in any
interleaving with calls on other sessions are the observations of its calls run alone (`C12_projection`).
-/
open Api
variable {σ : Type}

/-- the session an operation addresses -/
def Api.sidOf : Op → Option Nat
  | .case_ | .align | .nullses => none
  | .new sid _ _ | .params sid _ | .release sid | .unconf sid | .cb sid _ | .ctrl sid _ | .payload sid _ _ | .build sid _ _
  | .recv sid _ _ | .avail sid _ | .availnull sid | .finish sid | .complete sid | .sources sid | .matrix sid | .cwdump sid => some sid

theorem limits_ldpc {p : Params} (h : withinLimits 3 p = true) : p.N1 ≤ p.r ∧ 1 ≤ p.seed.toNat ∧ p.seed.toNat ≤ 2147483646 := by
  unfold withinLimits at h
  simp only [Bool.and_eq_true, Bool.or_eq_true, decide_eq_true_eq, bne_iff_ne, ne_eq, not_true_eq_false, false_or] at h
  obtain ⟨_, ⟨⟨_, h1⟩, h2⟩, h3⟩ := h
  refine ⟨h1, ?_, ?_⟩ <;> omega

theorem create_indep (g g' : Nat) {p : Params} (h : p.N1 ≤ p.r ∧ 1 ≤ p.seed.toNat ∧ p.seed.toNat ≤ 2147483646) :
    Rfc5170.create CSem.rne53 g p.k p.r p.N1 p.seed.toNat = Rfc5170.create CSem.rne53 g' p.k p.r p.N1 p.seed.toNat := by
  rcases C05_indep_global CSem.rne53 g g' p.k p.r p.N1 p.seed.toNat h.2.1 h.2.2 with e | ⟨e, _, _⟩
  · exact e
  · omega

/-- `of_set_fec_parameters`: status and resulting session do not depend on the global PRNG state -/
theorem setParamsStd_local (IO : SymIO σ) (g g' : Nat) (s : Session σ) (p : Params) :
    (setParamsStd IO g s p).2 = (setParamsStd IO g' s p).2 := by
  unfold setParamsStd
  simp only []
  by_cases hw : withinLimits s.codec p = true
  · simp only [hw, Bool.not_true, Bool.false_eq_true, if_false]
    by_cases h3 : (s.codec == 3) = true
    · have h3' : s.codec = 3 := by simpa using h3
      simp only [h3, if_true]
      rw [create_indep g g' (limits_ldpc (h3' ▸ hw))]
    · simp only [h3, Bool.false_eq_true, if_false]
  · have hw' : withinLimits s.codec p = false := by simpa using hw
    simp only [hw', Bool.not_false, if_true]

/-- `of_set_fec_parameters`: status and resulting session do not depend on the global PRNG state -/
theorem setParams_local (IO : SymIO σ) (g g' : Nat) (s : Session σ) (p : Params) :
    (setParams IO g s p).2 = (setParams IO g' s p).2 := by
  unfold setParams
  split
  · unfold setParams2D
    (repeat' split) <;> rfl
  · exact setParamsStd_local IO g g' s p

/-- a call on one session leaves every other session exactly as it was -/
theorem C12_other_sessions_untouched (IO : SymIO σ) (w : World σ) (op : Op) (j : Nat) (h : sidOf op ≠ some j) :
    (step IO w op).1.ses.get j = w.ses.get j := by
  cases op <;> simp only [sidOf, ne_eq, Option.some.injEq, reduceCtorEq, not_false_eq_true] at h <;>
    simp only [step] <;> (repeat' split) <;> first
      | rfl
      | (simp only [TMap.get_set]; rw [if_neg (fun e => h e.symm)])

/-- what a call returns, and what it does to its own session, depends on that session only: not on the other sessions and
not on the global PRNG state -/
theorem step_local (IO : SymIO σ) (w w' : World σ) (op : Op) (sid : Nat) (hs : sidOf op = some sid)
    (heq : w'.ses.get sid = w.ses.get sid) :
    (step IO w op).2 = (step IO w' op).2 ∧ (step IO w op).1.ses.get sid = (step IO w' op).1.ses.get sid := by
  cases op <;> simp only [sidOf, Option.some.injEq, reduceCtorEq] at hs <;> subst hs
  case params sid p =>
    simp only [step, heq]
    cases hsess : w.ses.get sid with
    | none => simp [heq]
    | some s =>
      simp only []
      have := setParams_local IO w.seed w'.seed s p
      rcases h1 : setParams IO w.seed s p with ⟨g1, st1, s1⟩
      rcases h2 : setParams IO w'.seed s p with ⟨g2, st2, s2⟩
      rw [h1, h2] at this
      simp only [Prod.mk.injEq] at this
      obtain ⟨rfl, rfl⟩ := this
      simp [TMap.get_set_same]
  case payload sid mode seed =>
    simp only [step, heq]
    cases hsess : w.ses.get sid with
    | none => simp [heq]
    | some s =>
      simp only []
      cases hp : s.params with
      | none => simp [heq, hsess]
      | some p =>
        simp only []
        by_cases h3 : (s.codec == 3 && withinLimits 3 p) = true
        · have hval := limits_ldpc (by simpa using (Bool.and_eq_true _ _ ▸ h3).2 : withinLimits 3 p = true)
          rw [create_indep w.seed w'.seed hval]
          cases s.twoD <;> simp [TMap.get_set_same, h3]
        · have : (s.codec == 3 && withinLimits 3 p) = false := by simpa using h3
          cases s.twoD <;> simp [this, TMap.get_set_same]
  all_goals
    simp only [step, heq]
    (repeat' split) <;> simp_all [TMap.get_set_same]

theorem C12_output_local (IO : SymIO σ) (w w' : World σ) (op : Op) (sid : Nat) (hs : sidOf op = some sid)
    (heq : w'.ses.get sid = w.ses.get sid) : (step IO w op).2 = (step IO w' op).2 := (step_local IO w w' op sid hs heq).1

theorem C12_session_local (IO : SymIO σ) (w w' : World σ) (op : Op) (sid : Nat) (hs : sidOf op = some sid)
    (heq : w'.ses.get sid = w.ses.get sid) : (step IO w op).1.ses.get sid = (step IO w' op).1.ses.get sid :=
  (step_local IO w w' op sid hs heq).2

/-- run a script; every answer is tagged with the session it belongs to -/
def Api.run (IO : SymIO σ) (w : World σ) : List Op → World σ × List (Option Nat × String)
  | [] => (w, [])
  | op :: t => ((Api.run IO (step IO w op).1 t).1, (sidOf op, (step IO w op).2) :: (Api.run IO (step IO w op).1 t).2)

/-- the answers given to session `sid` -/
def Api.obsOf (sid : Nat) (os : List (Option Nat × String)) : List String := (os.filter (·.1 == some sid)).map (·.2)

/-- **Projection.**  In any script — any interleaving of calls on any number of sessions of any codec, including their
creation and release — the answers given to session `sid` are exactly the answers its own calls get when they are run
alone, from any world in which that session is in the same state (e.g. a fresh process).  Likewise for its final state. -/
theorem C12_projection (IO : SymIO σ) (sid : Nat) (ops : List Op) (w w' : World σ) (heq : w'.ses.get sid = w.ses.get sid) :
    obsOf sid (Api.run IO w ops).2 = obsOf sid (Api.run IO w' (ops.filter fun op => sidOf op == some sid)).2 ∧
    (Api.run IO w ops).1.ses.get sid = (Api.run IO w' (ops.filter fun op => sidOf op == some sid)).1.ses.get sid := by
  induction ops generalizing w w' with
  | nil => exact ⟨rfl, heq.symm⟩
  | cons op t ih =>
    by_cases hs : sidOf op = some sid
    · have hf : (sidOf op == some sid) = true := by simp [hs]
      simp only [List.filter_cons, hf, if_true, Api.run]
      have hl := step_local IO w w' op sid hs heq
      have := ih (step IO w op).1 (step IO w' op).1 hl.2.symm
      refine ⟨?_, this.2⟩
      simp only [obsOf, List.filter_cons, hs, beq_self_eq_true, if_true, List.map_cons]
      rw [hl.1]
      have h1 := this.1
      simp only [obsOf] at h1
      rw [h1]
    · have hf : (sidOf op == some sid) = false := by simp [hs]
      simp only [List.filter_cons, hf, Bool.false_eq_true, if_false, Api.run]
      have hun := C12_other_sessions_untouched IO w op sid hs
      have := ih (step IO w op).1 w' (heq.trans hun.symm)
      refine ⟨?_, this.2⟩
      simp only [obsOf, List.filter_cons, hf, Bool.false_eq_true, if_false]
      exact this.1

-- non-vacuity: an interleaving of two sessions; the projection on session 1 keeps exactly its three calls
example : ([Op.new 0 3 2, .new 1 1 2, .params 0 ⟨4, 4, 1, 0, 3, 7⟩, .params 1 ⟨2, 2, 4, 0, 0, 0⟩, .release 0, .release 1].filter
    fun op => sidOf op == some 1) = [Op.new 1 1 2, .params 1 ⟨2, 2, 4, 0, 0, 0⟩, .release 1] := by rfl
