import OpenFecVerif.Proofs.DenseBits
import OpenFecVerif.Proofs.DenseMore
import OpenFecVerif.Proofs.Conv
import OpenFecVerif.Gen.Popcount
import OpenFecVerif.Proofs.Popcount
import OpenFecVerif.Gen.Tab_of_hw8table
import OpenFecVerif.Gen.Macros
import OpenFecVerif.Props.C03
/-!
# C18 — dense GF(2) matrix and linear solver agree with exact bit-matrix algebra

`Dense.D` (Model/Dense.lean) is the packed-word representation the library uses (32-bit words, row oriented);
`Dense.bit m r c` is its bit-matrix reading.  `Dense.WF` is the representation invariant (row length, word range,
padding bits zero).  The theorems say that each word-level operation is the bit-matrix operation, for every
dimension (31/32/33 columns are ordinary instances).  The popcount helpers are translated from
of_hamming_weight.c on every run (`Gen.of_hweight32_naive`, `Gen.of_popcount_3`, `Gen.of_hweight32`).
The solver theorems are in Props/C03.lean (`C03_success_is_rank_test`) and below.
-/
namespace Dense

theorem C18_alloc {nr nc : Nat} {m : D} (h : alloc nr nc = some m) :
    WF m ∧ m.nr = nr ∧ m.nc = nc ∧ ∀ r c, bit m r c = false := alloc_wf h

/-- get returns the bit; set (in range) changes exactly that bit, out of range it is refused and changes nothing -/
theorem C18_get_set {m : D} (h : WF m) (r c v : Nat) :
    (∀ r' c', get m r' c' = (bit m r' c').toNat) ∧
    (r < m.nr → c < m.nc → ∀ r' c', bit (set' m r c v) r' c' = if r' = r ∧ c' = c then decide (v ≠ 0) else bit m r' c') ∧
    ((r ≥ m.nr ∨ c ≥ m.nc) → set m r c v = (m, false)) ∧ WF (set' m r c v) :=
  ⟨fun r' c' => get_eq m r' c', fun hr hc r' c' => bit_set h hr hc v r' c', set_out_of_range m r c v, set_wf h r c v⟩

theorem C18_get_flip {m : D} (h : WF m) {r c : Nat} (hr : r < m.nr) (hc : c < m.nc) (r' c' : Nat) :
    bit (flip m r c).1 r' c' = (if r' = r ∧ c' = c then !bit m r c else bit m r' c') ∧
    (flip m r c).2 = some (!bit m r c).toNat := bit_flip h hr hc r' c'

theorem C18_get_clear {m : D} (h : WF m) : WF (clear m) ∧ ∀ r c, bit (clear m) r c = false := clear_wf h

theorem C18_get_xorRows {m : D} (h : WF m) (f t : Nat) :
    WF (xorRows m f t) ∧ ∀ r' c', bit (xorRows m f t) r' c' = if r' = t then (bit m t c' != bit m f c') else bit m r' c' :=
  ⟨xorRows_wf h f t, fun r' c' => bit_xorRows h f t r' c'⟩

theorem C18_get_copy {m r : D} (hm : WF m) :
    ((m.nr ≤ r.nr ∧ m.nc ≤ r.nc) → ∀ i j, i < r.nr → bit (copy m r) i j = if i < m.nr ∧ j < m.nc then bit m i j else false) ∧
    ((m.nr > r.nr ∨ m.nc > r.nc) → copy m r = r) :=
  ⟨fun hfit i j hi => bit_copy hm hfit i j hi, fun h => by unfold copy; simp [h]⟩

/-- of_mod2dense_copyrows (as repaired): row i of the destination is row rows[i] of the source -/
theorem C18_get_copyrows {m r : D} (hm : WF m) (hfit : m.nc ≤ r.nc) (idx : List Nat)
    (hv : ∀ i, i < r.nr → idx.getD i 0 < m.nr) (i j : Nat) :
    bit (copyrows m r idx) i j = if i < r.nr ∧ j < m.nc then bit m (idx.getD i 0) j else false :=
  bit_copyrows hm hfit idx hv i j

theorem C18_rowIsEmpty_iff {m : D} (h : WF m) (i : Nat) : rowIsEmpty m i = true ↔ ∀ c, bit m i c = false :=
  rowIsEmpty_iff h i

/-! ### popcount helpers (translated each run) -/

theorem naive_fold (w n : Nat) (hn : n ≤ 32) :
    (List.range' 0 n).foldl (fun (st : Nat × Nat) (_ : Nat) => ((st.1 + (st.2 &&& 1)) % 4294967296, st.2 >>> 1)) (0, w)
      = (((List.range n).filter fun i => w.testBit i).length, w >>> n) := by
  induction n with
  | zero => rfl
  | succ n ih =>
    rw [List.range'_1_concat, List.foldl_append, ih (by omega)]
    simp only [List.foldl_cons, List.foldl_nil]
    have hb : (w >>> n) &&& 1 = (w.testBit n).toNat := by
      have := getbit_eq w n; unfold getbit at this; exact this
    have hle : ((List.range n).filter fun i => w.testBit i).length ≤ n := by
      calc _ ≤ (List.range n).length := List.length_filter_le _ _
        _ = n := List.length_range
    rw [hb, List.range_succ, List.filter_append, List.length_append]
    have hs : w >>> n >>> 1 = w >>> (n + 1) := by rw [← Nat.shiftRight_add]
    rw [hs]
    cases hbit : w.testBit n
    · simp [hbit]; omega
    · simp [hbit]; omega

/-- of_hweight32_naive (as repaired) counts the one bits of a 32-bit word -/
theorem C18_hweight32_naive (w : Nat) : Gen.of_hweight32_naive w = popcount w := by
  unfold Gen.of_hweight32_naive popcount
  have : (fun (st : Nat × Nat) (j_1 : Nat) =>
        let (res_2, x_2) := st
        let res_3 := ((res_2 + (x_2 &&& 1)) % 4294967296)
        let x_3 := (x_2 >>> 1)
        (res_3, x_3)) = (fun (st : Nat × Nat) (_ : Nat) => ((st.1 + (st.2 &&& 1)) % 4294967296, st.2 >>> 1)) := by
    funext st j; rfl
  simp only [this, naive_fold w 32 (Nat.le_refl _)]

/-- `of_hweight32` (SWAR, regenerated from the C source each run) counts the one bits of **every** 32-bit word
(`Proofs/Popcount.lean`: byte-lane decomposition, per-lane facts by kernel evaluation over one byte) -/
theorem C18_hweight32 (w : Nat) (hw : w < 2 ^ 32) : Gen.of_hweight32 w = popcount w :=
  Pop.hweight32_eq w hw

/-- `of_popcount_3` (SWAR with the final multiplication, regenerated each run) counts the one bits of **every** 64-bit
word; its `INT32` result is the non-negative count -/
theorem C18_popcount_3 (x : Nat) (hx : x < 2 ^ 64) : Gen.of_popcount_3 x = ((Pop.popcount64 x : Nat) : Int) :=
  Pop.popcount3_eq x hx

/-- the 64-bit count is the sum of the counts of the two 32-bit words it is read from (`of_hweight_array` reads the
row two words at a time) -/
theorem C18_popcount64_words (x : Nat) : Pop.popcount64 x = popcount (x % 2 ^ 32) + popcount (x / 2 ^ 32 % 2 ^ 32) := by
  rw [Pop.popcount64_bytes, Pop.popcount_bytes, Pop.popcount_bytes]
  have e0 : x % 2 ^ 32 % 256 = x % 256 := by omega
  have e1 : x % 2 ^ 32 / 256 % 256 = x / 256 % 256 := by omega
  have e2 : x % 2 ^ 32 / 65536 % 256 = x / 65536 % 256 := by omega
  have e3 : x % 2 ^ 32 / 16777216 % 256 = x / 16777216 % 256 := by omega
  have e4 : x / 2 ^ 32 % 2 ^ 32 % 256 = x / 4294967296 % 256 := by omega
  have e5 : x / 2 ^ 32 % 2 ^ 32 / 256 % 256 = x / 1099511627776 % 256 := by omega
  have e6 : x / 2 ^ 32 % 2 ^ 32 / 65536 % 256 = x / 281474976710656 % 256 := by omega
  have e7 : x / 2 ^ 32 % 2 ^ 32 / 16777216 % 256 = x / 72057594037927936 % 256 := by omega
  rw [e0, e1, e2, e3, e4, e5, e6, e7]
  omega

/-- the byte table `of_hw8table` (regenerated each run) holds the count of every byte -/
theorem C18_hw8table : ∀ b, b < 256 → GF.entry 8 Gen.of_hw8table 0 b = Pop.pc8 b := by decide +kernel

/-- `of_hweight32_table`: the sum of the four table entries of the bytes of a word is its count (any byte order) -/
theorem C18_hweight32_table (w : Nat) :
    GF.entry 8 Gen.of_hw8table 0 (w % 256) + GF.entry 8 Gen.of_hw8table 0 (w / 256 % 256)
      + GF.entry 8 Gen.of_hw8table 0 (w / 65536 % 256) + GF.entry 8 Gen.of_hw8table 0 (w / 16777216 % 256) = popcount w := by
  rw [C18_hw8table _ (Nat.mod_lt _ (by decide)), C18_hw8table _ (Nat.mod_lt _ (by decide)),
    C18_hw8table _ (Nat.mod_lt _ (by decide)), C18_hw8table _ (Nat.mod_lt _ (by decide)), Pop.popcount_bytes]

/-! ### the bit macros of of_matrix_dense.h, translated each run through harness/wrappers.c -/

/-! the word-level primitives of the dense model ARE the library's macros (translated from the headers on every run) -/
theorem C18_macro_getbit (w i : Nat) : Gen.vm_getbit w i = getbit w i := rfl
theorem C18_macro_index (c : Nat) : Gen.vm_word_index c = c >>> 5 ∧ Gen.vm_bit_index c = c &&& 31 := ⟨rfl, rfl⟩

theorem shl_facts : ∀ i, i < 32 →
    Int.toNat ((CSem.toSigned 32 (((Int.toNat ((1 : Int) % 4294967296)) <<< i) % 4294967296)) % 4294967296) = 1 <<< i ∧
    Int.toNat ((- (CSem.toSigned 32 (((Int.toNat ((1 : Int) % 4294967296)) <<< i) % 4294967296)) - 1) % 4294967296)
      = W - 1 - (1 <<< i) % W ∧ (1 <<< i) < W := by decide +kernel

theorem C18_macro_setbit1 (w i : Nat) (hw : w < W) (hi : i < 32) : Gen.vm_setbit1 w i = setbit1 w i := by
  unfold Gen.vm_setbit1 setbit1
  rw [(shl_facts i hi).1]
  have h1 : w < 2 ^ 32 := hw
  have h2 : 1 <<< i < 2 ^ 32 := (shl_facts i hi).2.2
  have := Nat.or_lt_two_pow h1 h2
  exact (Nat.mod_eq_of_lt this).symm

theorem C18_macro_setbit0 (w i : Nat) (hi : i < 32) : Gen.vm_setbit0 w i = setbit0 w i := by
  unfold Gen.vm_setbit0 setbit0
  rw [(shl_facts i hi).2.1]

theorem C18_macro_words_for (nc : Nat) (h : nc + 32 < W) : Gen.vm_words_for nc = (nc + 31) >>> 5 := by
  unfold Gen.vm_words_for
  unfold W at h
  have : ((nc + 32) % 4294967296 + 4294967296 - 1) % 4294967296 = nc + 31 := by omega
  rw [this]

/-! ### weights, column copy and the sparse/dense conversions (`Proofs/DenseMore.lean`, `Proofs/Conv.lean`) -/

/-- row and column weights count the one bits of the bit-matrix reading -/
theorem C18_weights (m : D) (i j : Nat) :
    rowWeight m i = ((List.range m.nc).filter fun c => bit m i c).length ∧
    colWeight m j = ((List.range m.nr).filter fun r => bit m r j).length := ⟨rowWeight_eq m i, colWeight_eq m j⟩

/-- of_mod2dense_row_weight_ignore_first (which hands the tail of the row to `of_hweight_array`): the routine skips whole 32-bit words,
so it returns the number of one bits of row i in the columns from 32·⌊nb/32⌋ on — for nb a multiple of 32, the columns from nb on -/
theorem C18_row_weight_ignore_first {m : D} (h : WF m) (i nb : Nat) :
    rowWeightIgnoreFirst m i nb = ((List.range m.nc).filter (fun j => decide (32 * (nb / 32) ≤ j) && bit m i j)).length :=
  rowWeightIgnoreFirst_eq h i nb

/-- of_mod2dense_copycols: column c of the destination, in the rows of the source, becomes column `cols[c]` of the source; everything
else of the destination is left as it was (the routine does not clear it); a destination with fewer rows is refused unchanged -/
theorem C18_get_copycols {m r : D} (hr : WF r) (idx : List Nat) :
    (m.nr ≤ r.nr → WF (copycols m r idx) ∧ ∀ i c, bit (copycols m r idx) i c
      = if c < r.nc ∧ i < m.nr then decide (get m i (idx.getD c 0) ≠ 0) else bit r i c) ∧
    (m.nr > r.nr → copycols m r idx = r) :=
  ⟨fun hfit => bit_copycols hr hfit idx, fun h => by unfold copycols; simp [h]⟩

/-- of_mod2sparse_to_dense: when the sparse matrix fits, the dense matrix holds exactly its entries; otherwise it is left unchanged -/
theorem C18_to_dense {s : Sparse.M} {r : D} (hs : Sparse.Inv s) (hr : WF r) :
    ((s.nr ≤ r.nr ∧ s.nc ≤ r.nc) → WF (ofSparse s r) ∧ ∀ i j, bit (ofSparse s r) i j = true ↔ Sparse.Mem s i j) ∧
    ((s.nr > r.nr ∨ s.nc > r.nc) → ofSparse s r = r) :=
  ⟨fun hfit => bit_ofSparse hs hr hfit, fun h => by unfold ofSparse; simp [h]⟩

/-- of_mod2dense_to_sparse: when the dense matrix fits, the sparse matrix holds exactly the one bits (whatever it held before) and meets
the sparse representation invariant; otherwise it is left unchanged -/
theorem C18_to_sparse {m : D} {r : Sparse.M} :
    ((m.nr ≤ r.nr ∧ m.nc ≤ r.nc) → Sparse.Inv (toSparse m r) ∧
        ∀ i j, Sparse.Mem (toSparse m r) i j ↔ (i < m.nr ∧ j < m.nc ∧ bit m i j = true)) ∧
    ((m.nr > r.nr ∨ m.nc > r.nc) → toSparse m r = r) :=
  ⟨fun hfit => mem_toSparse hfit, fun h => by unfold toSparse; simp [h]⟩

/-- **conversion round trip**: sparse → dense → sparse gives back exactly the entries of the original -/
theorem C18_conversion_roundtrip {s r' : Sparse.M} {d : D} (hs : Sparse.Inv s) (hd : WF d)
    (hfit : s.nr ≤ d.nr ∧ s.nc ≤ d.nc) (hfit' : (ofSparse s d).nr ≤ r'.nr ∧ (ofSparse s d).nc ≤ r'.nc) (i j : Nat) :
    Sparse.Mem (toSparse (ofSparse s d) r') i j ↔ Sparse.Mem s i j := by
  obtain ⟨_, hb⟩ := bit_ofSparse hs hd hfit
  obtain ⟨_, hm⟩ := mem_toSparse (m := ofSparse s d) (r := r') hfit'
  rw [hm, hb]
  constructor
  · exact fun h => h.2.2
  · intro h
    have hbd := hs.bound i j h
    have e1 : (ofSparse s d).nr = d.nr := by
      unfold ofSparse; rw [if_neg (by omega)]
      exact (bit_setAll (Sparse.entries s) (clear d) (clear_wf hd).1 (by
        intro e he
        have := (Sparse.mem_entries s e.1 e.2).mp he
        have hb := hs.bound e.1 e.2 this.2
        show e.1 < d.nr ∧ e.2 < d.nc
        omega)).2.1
    have e2 : (ofSparse s d).nc = d.nc := by
      unfold ofSparse; rw [if_neg (by omega)]
      exact (bit_setAll (Sparse.entries s) (clear d) (clear_wf hd).1 (by
        intro e he
        have := (Sparse.mem_entries s e.1 e.2).mp he
        have hb := hs.bound e.1 e.2 this.2
        show e.1 < d.nr ∧ e.2 < d.nc
        omega)).2.2.1
    exact ⟨by omega, by omega, h⟩

end Dense

-- non-vacuity: a well-formed 2 x 33 matrix (two words per row) with a bit in the second word
example : ∃ m, Dense.alloc 2 33 = some m ∧ Dense.bit (Dense.set' m 1 32 1) 1 32 = true ∧ (Dense.set' m 1 32 1).nw = 2 := by
  refine ⟨_, rfl, ?_, ?_⟩ <;> decide

-- non-vacuity of the popcount statements: an all-ones word and a word with bits in every byte lane
example : Gen.of_hweight32 0xFFFFFFFF = 32 ∧ Gen.of_popcount_3 0x8040201008040201 = 8 := by decide
