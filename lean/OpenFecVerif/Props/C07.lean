import OpenFecVerif.Props.C06
import OpenFecVerif.Props.C09
import OpenFecVerif.Props.C13
/-!
# C07 — memory safety and read-only treatment of application buffers (partial)

What the model can carry: *frame conditions* (which application-visible slots an operation may change), *index bounds*
(every table index the model uses is inside the table the API describes), and the kernels' non-interference (C13).
What it cannot exhibit — an actual out-of-bounds access, a write to a received symbol or a use after free in the compiled
code — is observed at run time: every history of this check runs on the real library under ASan/UBSan with exact-size heap
buffers whose end coincides with the allocation end, at all eight start alignments, with canaries in front and a
byte comparison of every application buffer after every call.
-/
open Api
variable {σ : Type}

/-- `of_build_repair_symbol` leaves every source entry of the application's table as it was -/
theorem C07_build_frame (IO : SymIO σ) (s : Session σ) (p : Params) (cw : List σ) (esi : ℕ) (own : Bool) (i : ℕ) (hi : i < p.k)
    (hinit : (s.enc.get 0).isSome = true) : (buildStep IO s p cw esi own).1.enc.get i = s.enc.get i :=
  C06_src_untouched_model IO s p cw esi own i hi hinit

/-- … and every *other* repair slot too: only the designated output slot changes -/
theorem C07_build_only_output_slot (IO : SymIO σ) (s : Session σ) (p : Params) (cw : List σ) (esi : ℕ) (own : Bool) (e : ℕ)
    (he : e ≠ esi) (hinit : (s.enc.get 0).isSome = true) : (buildStep IO s p cw esi own).1.enc.get e = s.enc.get e := by
  unfold buildStep
  have h0 : (s.enc.get 0).isNone = false := by
    cases h : s.enc.get 0 with
    | none => rw [h] at hinit; cases hinit
    | some x => rfl
  simp only [h0, Bool.false_eq_true, if_false]
  by_cases hr : (decide (p.k ≤ esi) && decide (esi < p.n)) = true
  · simp only [hr, if_true]
    (repeat' split) <;> simp [TMap.get_set, he]
  · simp only [hr, Bool.false_eq_true, if_false]
    (repeat' split) <;> simp_all

/-- a submission outside the symbol tables (ESI ≥ n), with a NULL buffer or on a non-decoder is refused before any table is touched -/
theorem C07_esi_guard (IO : SymIO σ) (w : World σ) (sid esi : Nat) (null : Bool) (s : Session σ) (p : Params) (cw : List σ)
    (hs : w.ses.get sid = some s) (hp : s.params = some p) (hcw : s.cw = some cw)
    (hbad : esi ≥ p.n ∨ null = true ∨ isDec s = false) : (step IO w (.recv sid esi null)).2 = "ok st=FATAL" :=
  C09_bad_esi_rejected IO w sid esi null s p cw hs hp hcw hbad

/-- the Reed-Solomon decoder's symbol selection reads only entries of the n-entry availability table that are present,
never more than k of them (the scan for repair symbols cannot run past the table) -/
theorem C07_rs_choose_in_table (k n : Nat) (hk : k ≤ n) (avail : Nat → Option σ) :
    (∀ q ∈ RS.choose k n avail, q.1 < n ∧ avail q.1 = some q.2) ∧ (RS.choose k n avail).length ≤ k := by
  unfold RS.choose
  -- invariant of the fold: both the chosen list and the pending repair list only hold present in-table entries
  have key : ∀ (L : List Nat) (acc : List (Nat × σ) × List (Nat × σ)), (∀ i ∈ L, i < k) →
      (∀ q ∈ acc.1, q.1 < n ∧ avail q.1 = some q.2) → (∀ q ∈ acc.2, q.1 < n ∧ avail q.1 = some q.2) →
      let res := L.foldl (fun (acc : List (Nat × σ) × List (Nat × σ)) i =>
        match avail i with
        | some v => (acc.1 ++ [(i, v)], acc.2)
        | none => match acc.2 with
          | p :: rest => (acc.1 ++ [p], rest)
          | [] => acc) acc
      (∀ q ∈ res.1, q.1 < n ∧ avail q.1 = some q.2) ∧ res.1.length ≤ acc.1.length + L.length := by
    intro L
    induction L with
    | nil => intro acc _ h1 _; exact ⟨h1, by simp⟩
    | cons a t ih =>
      intro acc hL h1 h2
      simp only [List.foldl_cons]
      have ha : a < k := hL a (by simp)
      have hL' : ∀ i ∈ t, i < k := fun i hi => hL i (List.mem_cons_of_mem _ hi)
      cases hav : avail a with
      | some v =>
        simp only []
        have := ih (acc.1 ++ [(a, v)], acc.2) hL'
          (by intro q hq; rcases List.mem_append.mp hq with h | h
              · exact h1 q h
              · simp at h; subst h; exact ⟨by omega, hav⟩) h2
        refine ⟨this.1, ?_⟩
        have := this.2; simp at this ⊢; omega
      | none =>
        simp only []
        cases hr : acc.2 with
        | nil =>
          simp only []
          have := ih acc hL' h1 h2
          refine ⟨this.1, ?_⟩
          have := this.2; simp at this ⊢; omega
        | cons p rest =>
          simp only []
          have hp := h2 p (by rw [hr]; simp)
          have := ih (acc.1 ++ [p], rest) hL'
            (by intro q hq; rcases List.mem_append.mp hq with h | h
                · exact h1 q h
                · simp at h; subst h; exact hp)
            (by intro q hq; exact h2 q (by rw [hr]; exact List.mem_cons_of_mem _ hq))
          refine ⟨this.1, ?_⟩
          have := this.2; simp at this ⊢; omega
  have hreps : ∀ q ∈ ((List.range' k (n - k)).filterMap fun e => (avail e).map fun v => (e, v)), q.1 < n ∧ avail q.1 = some q.2 := by
    intro q hq
    simp only [List.mem_filterMap, List.mem_range'_1] at hq
    obtain ⟨e, he, hm⟩ := hq
    cases hae : avail e with
    | none => rw [hae] at hm; cases hm
    | some v => rw [hae] at hm; simp at hm; subst hm; exact ⟨by omega, hae⟩
  have := key (List.range k) ([], _) (fun i hi => List.mem_range.mp hi) (by simp) hreps
  refine ⟨this.1, ?_⟩
  have h2 := this.2
  simp only [List.length_nil, List.length_range, Nat.zero_add] at h2
  exact h2

/-- kernels read and write only the first `size` bytes of their operands -/
theorem C07_kernel_noninterference (size : Nat) (dst frm frm' : List Nat) (h : ∀ i, i < size → frm.getD i 0 = frm'.getD i 0) :
    Kern.xor1 size dst frm = Kern.xor1 size dst frm' ∧ (Kern.xor1 size dst frm).length = dst.length :=
  Kern.C13_noninterference size dst frm frm' h
