import OpenFecVerif.Props.C03
import OpenFecVerif.Proofs.MLComplete
/-!
# C03 at the level of the session and the code: `of_finish_decoding` succeeds iff the source symbols are determined

`Props/C03.lean` states what the solver does on a system.  This file connects the system that `of_finish_decoding` builds
(`Api.ldpcFinish`: one unknown per unknown symbol, one equation per parity-check equation that still has an unknown member)
with the code itself:

* `MLComplete.IsCodeword H z` — the 0/1 word `z` satisfies every parity-check equation of `H`;
* `MLComplete.SourcesDetermined H k n known` — every codeword that vanishes on the known symbols vanishes on the k source symbols,
  i.e. two blocks of the code that agree on the known symbols have the same source symbols.

Hypotheses: `WFH` (no repeated entry in an equation, entries below n — what `wfCheck` evaluates on every matrix), the staircase shape
(`Api.stairCheck`, evaluated by the model on every matrix it builds; it is what makes "sources determined" imply "everything determined"),
and that no Gaussian elimination has consumed the matrix yet.
-/
open MLComplete

/-- **C03.** `of_finish_decoding` on the session model returns OK **iff** the source symbols are uniquely determined by the symbols the
decoder knows and the parity-check equations; otherwise it returns FAILURE (`C10`) and decoding stays incomplete.  The statement does
not mention symbol values, arrival order or submission API: the outcome depends on the set of known symbols only. -/
theorem C03_finish_ok_iff_determined {σ : Type} (IO : Api.SymIO σ) (s : Api.Session σ) (p : Api.Params) (it : IT.St σ)
    (hit : s.it = some it) (hcons : s.mlConsumed = false) (hwf : WFH s.H (p.k + p.r)) (hstair : Api.stairCheck p.k s.H = true)
    (hHlen : s.H.length = p.r) (hk : it.k = p.k) :
    (Api.ldpcFinish IO s p).1 = Api.Status.ok ↔ SourcesDetermined s.H p.k (p.k + p.r) it.known :=
  finish_ok_iff_determined IO s p it hit hcons hwf hstair hHlen hk

/-- … and "what the decoder knows" can be replaced by "what was received": streaming decoding knows exactly symbols of the peeling
closure of the received set (C04), and a codeword that vanishes on a set vanishes on its peeling closure. -/
theorem C03_determined_by_received (Hl : List (List Nat)) (hnd : ∀ row ∈ Hl, row.Nodup) (k n : Nat) (R : Nat → Prop) (known : Nat → Bool)
    (hRn : ∀ e, R e → e < n) (hsub : ∀ e, R e → known e = true)
    (hcl : ∀ e, known e = true → ITAbs.InClosure (ITRefine.Hf Hl) R e) :
    SourcesDetermined Hl k n known ↔ ∀ z, IsCodeword Hl z → (∀ e, R e → z e = false) → ∀ i, i < k → z i = false :=
  determined_by_received Hl hnd k n R known hRn hsub hcl

/-- the system handed to the solver has a non-trivial kernel whenever it has fewer equations than unknowns: refusing to start the
elimination then (as the C code does) loses nothing -/
theorem C03_few_equations_undetermined (q : Nat) (B : List (Gauss.Row Bool)) (hw : Gauss.Wide q B) (hlen : B.length < q)
    (hz : ∀ r ∈ B, r.2 = false) :
    ∃ v : List Bool, v.length = q ∧ v ≠ List.replicate q false ∧ ∀ r ∈ B, Gauss.dot Gauss.boolOps r.1 v = false :=
  few_rows_kernel q B hw hlen hz

-- non-vacuity: the staircase and well-formedness hypotheses hold for the RFC 5170 matrix k = 4, n = 8, N1 = 3, seed 7
example : Api.stairCheck 4 [[0, 1, 2, 4], [0, 2, 3, 4, 5], [1, 2, 3, 5, 6], [0, 1, 3, 6, 7]] = true := by decide
