import OpenFecVerif.Model.Api
/-!
# C08 — a released session leaves nothing behind (partial)

What a theorem can carry here is the ownership rule: `Api.returnedCount s` is the number of heap blocks the model says
the *application* owns when session `s` is released — decoded source symbols that the library allocated (not the
received ones, which are the application's own pointers, and not those written into a callback buffer) and repair
symbols built into a NULL output slot.  The correspondence check compares this number, at every release point, with
the blocks that the real library allocated inside the session's calls and left live (sanitizer malloc/free hooks), and
demands that nothing else is live (`other=0`), LeakSanitizer silent, no double free.  That the compiled code frees
everything else exactly once is the runtime part and is observed, not proved.
-/
open Api
variable {σ : Type}

/-- a session released before it is configured owns nothing on the application's behalf -/
theorem C08_unconfigured_owns_nothing (s : Session σ) (h : s.params = none) : returnedCount s = 0 := by
  unfold returnedCount; simp [h]

/-- a pure encoder hands over exactly the repair symbols it built into NULL slots -/
theorem C08_encoder_owns_null_slots (s : Session σ) (p : Params) (hp : s.params = some p) (hd : isDec s = false) :
    returnedCount s = ((List.range' p.k p.r).filter fun e => s.encLib.get e && (s.enc.get e).isSome).length := by
  unfold returnedCount; simp [hp, hd]

/-- a Reed-Solomon decoder that has not decoded yet hands over no source symbol -/
theorem C08_rs_decoder_owns_decoded (s : Session σ) (p : Params) (hp : s.params = some p) (hc : s.codec ≠ 3) (hf : s.finished = false) :
    returnedCount s = ((List.range' p.k p.r).filter fun e => s.encLib.get e && (s.enc.get e).isSome).length := by
  unfold returnedCount
  have : (s.codec == 3) = false := by simpa using hc
  simp [hp, this, hf]

/-- a received symbol (provenance `app j`: the application's own buffer) or a callback buffer is never counted -/
theorem C08_received_never_owned (s : Session σ) (p : Params) (hp : s.params = some p) (hc : s.codec ≠ 3)
    (hall : ∀ i, i < p.k → ∀ sl, s.avail.get i = some sl → sl.prov ≠ Prov.lib) :
    returnedCount s = ((List.range' p.k p.r).filter fun e => s.encLib.get e && (s.enc.get e).isSome).length := by
  unfold returnedCount
  have hc' : (s.codec == 3) = false := by simpa using hc
  simp only [hp, hc', Bool.false_eq_true, if_false]
  split
  · simp
  · have key : ∀ f : Nat → Bool, (∀ i, i < p.k → f i = false) → ((List.range p.k).filter f).length = 0 := by
      intro f hf
      rw [List.length_eq_zero_iff, List.filter_eq_nil_iff]
      intro i hi; simp [hf i (List.mem_range.mp hi)]
    rw [key _ ?_]
    · simp
    · intro i hik
      cases hs : s.avail.get i with
      | none => simp
      | some sl =>
        have := hall i hik sl hs
        simp [this]

/-- never more than one block per encoding symbol -/
theorem C08_returned_le (s : Session σ) (p : Params) (hp : s.params = some p) : returnedCount s ≤ p.k + p.r := by
  unfold returnedCount
  simp only [hp]
  have h1 : ∀ (f : Nat → Bool), ((List.range p.k).filter f).length ≤ p.k := by
    intro f; calc _ ≤ (List.range p.k).length := List.length_filter_le _ _
      _ = p.k := List.length_range
  have h2 : ∀ (f : Nat → Bool), ((List.range' p.k p.r).filter f).length ≤ p.r := by
    intro f; calc _ ≤ (List.range' p.k p.r).length := List.length_filter_le _ _
      _ = p.r := List.length_range'
  split
  · have := h2 (fun e => s.encLib.get e && (s.enc.get e).isSome); omega
  · exact Nat.add_le_add (h1 _) (h2 _)
