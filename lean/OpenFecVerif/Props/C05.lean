import OpenFecVerif.Model.Rfc5170
import OpenFecVerif.Props.C19
/-!
# C05 — the LDPC-Staircase code depends only on (k, n, N1, seed)

`Rfc5170.create rn g k r N1 seed` is the transcription of RFC 5170's construction driven by the
*translated* PRNG (`Gen.of_rfc5170_rand`, `Gen.of_rfc5170_srand`); `g` is the process-global PRNG state
(`of_seed`) found when the session is configured.
-/
open Rfc5170

/-- For a valid seed the matrix (and the PRNG state left behind) is independent of the global state:
sessions created after any history of other sessions, in any process, get the same equations. -/
theorem C05_indep_global (rn : Rat → Rat) (g g' k r N1 seed : Nat) (h1 : 1 ≤ seed) (h2 : seed ≤ 2147483646) :
    create rn g k r N1 seed = create rn g' k r N1 seed ∨
    (N1 > r ∧ (create rn g k r N1 seed).2 = none ∧ (create rn g' k r N1 seed).2 = none) := by
  by_cases h : N1 > r
  · right; simp [create, h]
  · left
    unfold create
    simp only [h, if_false]
    rw [C19_seed_guard g seed, C19_seed_guard g' seed]
    simp [h1, h2]

/-- why seeds outside 1..2^31−2 must be rejected (C09): seeding leaves the global state in place,
so the construction then starts from whatever state the previous session left -/
theorem C05_invalid_seed_keeps_state (g seed : Nat) (h : ¬ (1 ≤ seed ∧ seed ≤ 2147483646)) :
    Gen.of_rfc5170_srand g seed = g := by
  rw [C19_seed_guard]; simp [h]

/-- the repair part is the staircase: equation i ends with the repair ESIs k+i−1 (for i > 0) and k+i -/
theorem C05_staircase (rn : Rat → Rat) (g k r N1 seed : Nat) (M : Matrix)
    (h : (create rn g k r N1 seed).2 = some M) (i : Nat) (hi : i < r) :
    M.rows.length = r ∧ ∃ src : List Nat, M.rows.getD i [] = src ++ (if i = 0 then [k] else [k + i - 1, k + i]) := by
  unfold create at h
  by_cases hN : N1 > r
  · simp [hN] at h
  · simp only [hN, if_false] at h
    cases hf : fillCols rn k r N1 (Gen.of_rfc5170_srand g seed) with
    | none => simp [hf] at h
    | some t =>
      obtain ⟨s1, cols, uneven⟩ := t
      simp only [hf] at h
      cases hx : fixRows rn k (rowsOf cols r) s1 0 [] with
      | none => simp [hx] at h
      | some u =>
        obtain ⟨s2, rows2, added⟩ := u
        simp only [hx, Option.some.injEq] at h
        subst h
        constructor
        · simp
        · refine ⟨rows2.getD i [], ?_⟩
          simp [List.getD_eq_getElem?_getD, hi]

/-- N1 larger than the number of repair symbols is rejected -/
theorem C05_rejects_large_N1 (rn : Rat → Rat) (g k r N1 seed : Nat) (h : N1 > r) :
    (create rn g k r N1 seed).2 = none := by
  simp [create, h]
