import OpenFecVerif.Model.Rfc5170
import OpenFecVerif.Props.C19
import OpenFecVerif.Props.C04
import OpenFecVerif.Proofs.RfcWF
import OpenFecVerif.Proofs.MLComplete
import OpenFecVerif.Proofs.SessWF
import OpenFecVerif.Gen.Macros
import OpenFecVerif.Proofs.DrawTotal
/-!
# C05 — the LDPC-Staircase code depends only on (k, n, N1, seed)

`Rfc5170.create rn g k r N1 seed` is the transcription of RFC 5170's construction driven by the
*translated* PRNG (`Gen.of_rfc5170_rand`, `Gen.of_rfc5170_srand`); `g` is the process-global PRNG state
(`of_seed`) found when the session is configured.
-/
open Rfc5170

/-- For a valid seed the matrix (and the PRNG state left behind) is independent of the global state:
sessions created after any history of other sessions, in any process, get the same equations. -/
theorem C05_indep_global (rn : Rat → Rat) (g g' k r N1 seed : Nat) (h1 : 1 ≤ seed) (h2 : seed ≤ 2147483646) :
    create rn g k r N1 seed = create rn g' k r N1 seed ∨
    (N1 > r ∧ (create rn g k r N1 seed).2 = none ∧ (create rn g' k r N1 seed).2 = none) := by
  by_cases h : N1 > r
  · right; simp [create, h]
  · left
    unfold create
    simp only [h, if_false]
    rw [C19_seed_guard g seed, C19_seed_guard g' seed]
    simp [h1, h2]

/-- why seeds outside 1..2^31−2 must be rejected (C09): seeding leaves the global state in place,
so the construction then starts from whatever state the previous session left -/
theorem C05_invalid_seed_keeps_state (g seed : Nat) (h : ¬ (1 ≤ seed ∧ seed ≤ 2147483646)) :
    Gen.of_rfc5170_srand g seed = g := by
  rw [C19_seed_guard]; simp [h]

/-- the repair part is the staircase: equation i ends with the repair ESIs k+i−1 (for i > 0) and k+i -/
theorem C05_staircase (rn : Rat → Rat) (g k r N1 seed : Nat) (M : Matrix)
    (h : (create rn g k r N1 seed).2 = some M) (i : Nat) (hi : i < r) :
    M.rows.length = r ∧ ∃ src : List Nat, M.rows.getD i [] = src ++ (if i = 0 then [k] else [k + i - 1, k + i]) := by
  unfold create at h
  by_cases hN : N1 > r
  · simp [hN] at h
  · simp only [hN, if_false] at h
    cases hf : fillCols rn k r N1 (Gen.of_rfc5170_srand g seed) with
    | none => simp [hf] at h
    | some t =>
      obtain ⟨s1, cols, uneven⟩ := t
      simp only [hf] at h
      cases hx : fixRows rn k (rowsOf cols r) s1 0 [] with
      | none => simp [hx] at h
      | some u =>
        obtain ⟨s2, rows2, added⟩ := u
        simp only [hx, Option.some.injEq] at h
        subst h
        constructor
        · simp
        · refine ⟨rows2.getD i [], ?_⟩
          simp [List.getD_eq_getElem?_getD, hi]

/-- N1 larger than the number of repair symbols is rejected -/
theorem C05_rejects_large_N1 (rn : Rat → Rat) (g k r N1 seed : Nat) (h : N1 > r) :
    (create rn g k r N1 seed).2 = none := by
  simp [create, h]


/-- the translated generator is well behaved for every rounding operator of the binary64 standard model (C19) -/
theorem C05_goodRand (rn : ℚ → ℚ) (h : RN53 rn) : RfcWF.GoodRand rn := by
  intro s maxv h1 h2 hm1 hm
  exact ⟨C19_range rn h s maxv h1 h2 hm1 hm, (C19_step rn s maxv h1 h2).2.1, (C19_step rn s maxv h1 h2).2.2⟩

/-- **Every matrix the construction returns, for every (k, n−k, N1, seed), is well formed and has the staircase shape**: n−k
equations; no repeated entry; entries below n; no equation with a single entry; equation i contains repair symbol k+i and otherwise
only smaller symbols.  These are exactly the hypotheses of the decoder theorems: `wfCheck` (C04), `WFH` and `stairCheck` (C03), the
duplicate-freeness used by C01 — so those theorems hold for every accepted LDPC-Staircase configuration. -/
theorem C05_matrix_wf (rn : ℚ → ℚ) (hrn : RN53 rn) (g k r N1 seed : Nat) (hk : 1 ≤ k) (hr : 1 ≤ r) (hk63 : k < 2 ^ 63) (hr63 : r < 2 ^ 63)
    (ht63 : N1 * k < 2 ^ 63) (h1 : 1 ≤ seed) (h2 : seed ≤ 2147483646) (g' : Nat) (M : Matrix)
    (h : create rn g k r N1 seed = (g', some M)) :
    M.rows.length = r ∧ wfCheck (k + r) M.rows = true ∧ MLComplete.WFH M.rows (k + r) ∧ Api.stairCheck k M.rows = true := by
  obtain ⟨q1, q2, q3⟩ := RfcWF.create_wf rn (C05_goodRand rn hrn) g k r N1 seed hk hr hk63 hr63 ht63 ⟨h1, h2⟩ g' M h
  refine ⟨q1, ?_, fun row hrow => ⟨(q2 row hrow).1, (q2 row hrow).2.1⟩, q3⟩
  unfold wfCheck
  rw [List.all_eq_true]
  intro row hrow
  obtain ⟨a, b, c⟩ := q2 row hrow
  simp only [Bool.and_eq_true, List.all_eq_true, decide_eq_true_eq, bne_iff_ne, ne_eq]
  exact ⟨⟨fun e he => b e he, c⟩, a⟩


/-- **Every accepted LDPC-Staircase configuration yields a session that meets the hypotheses of the decoder theorems** (C01, C03, C04,
C10, C11): if `of_set_fec_parameters` (session model, as executed by `ofmodel`) returns OK, the session has n−k equations, duplicate-free,
within 0..n−1, none with a single entry, staircase shaped, and its decoder state is initialised for k source symbols.  No hypothesis is
left: the rounding function of the executable model is in the standard model (`C19_executable_rounding_in_standard_model`). -/
theorem C05_configured_session {σ : Type} (IO : Api.SymIO σ) (g : Nat) (s : Api.Session σ)
    (p : Api.Params) (g' : Nat) (s' : Api.Session σ) (hc : s.codec = 3) (h : Api.setParamsStd IO g s p = (g', Api.Status.ok, s')) :
    s'.H.length = p.r ∧ MLComplete.WFH s'.H (p.k + p.r) ∧ (∀ row ∈ s'.H, row.length ≠ 1) ∧ Api.stairCheck p.k s'.H = true ∧
    s'.mlConsumed = s.mlConsumed ∧ ∃ it, s'.it = some it ∧ it.k = p.k :=
  SessWF.configured_structure IO (C05_goodRand CSem.rne53 C19_executable_rounding_in_standard_model) g s p g' s' hc h


/-- the column mapping macros of of_symbol.h (translated each run): repair symbols occupy matrix columns 0..r−1 and source symbols
columns r..n−1; the two macros are inverse bijections between ESIs and columns of [0, n) -/
theorem C05_column_mapping (k r : Nat) (hn : k + r < 2147483648) :
    (∀ esi, esi < k + r → (Gen.vm_symbol_col k r esi).2.2 = (if esi < k then ((esi + r : Nat) : Int) else ((esi - k : Nat) : Int))) ∧
    (∀ col, col < k + r → (Gen.vm_symbol_esi r k col).2.2 = (if col < r then ((col + k : Nat) : Int) else ((col - r : Nat) : Int))) ∧
    (∀ esi, esi < k + r → (Gen.vm_symbol_esi r k (Int.toNat (Gen.vm_symbol_col k r esi).2.2)).2.2 = (esi : Int)) := by
  have hcol : ∀ esi, esi < k + r → (Gen.vm_symbol_col k r esi).2.2 = (if esi < k then ((esi + r : Nat) : Int) else ((esi - k : Nat) : Int)) := by
    intro esi he
    unfold Gen.vm_symbol_col CSem.toSigned
    simp only
    split
    · rename_i h
      have : (esi + r) % 4294967296 % 4294967296 = esi + r := by omega
      rw [this, if_pos (by simp; omega)]
    · rename_i h
      have : (esi + 4294967296 - k) % 4294967296 % 4294967296 = esi - k := by omega
      rw [this, if_pos (by simp; omega)]
  have hesi : ∀ col, col < k + r → (Gen.vm_symbol_esi r k col).2.2 = (if col < r then ((col + k : Nat) : Int) else ((col - r : Nat) : Int)) := by
    intro col he
    unfold Gen.vm_symbol_esi CSem.toSigned
    simp only
    split
    · rename_i h
      have : (col + k) % 4294967296 % 4294967296 = col + k := by omega
      rw [this, if_pos (by simp; omega)]
    · rename_i h
      have : (col + 4294967296 - r) % 4294967296 % 4294967296 = col - r := by omega
      rw [this, if_pos (by simp; omega)]
  refine ⟨hcol, hesi, ?_⟩
  intro esi he
  rw [hcol esi he]
  split
  · rename_i h
    rw [Int.toNat_natCast, hesi _ (by omega), if_neg (by omega)]
    congr 1; omega
  · rename_i h
    rw [Int.toNat_natCast, hesi _ (by omega), if_pos (by omega)]
    congr 1; omega

/-- **The construction always returns a matrix** (termination of RFC 5170's rejection loops): for every rounding operator of the
binary64 standard model, every valid seed, N1 ≤ n−k and sizes with k, n−k, N1·k below 2^30 (the library's limits are far below),
`create` yields a matrix — none of the `do … while` loops can run for 2^31 draws.  Proof: 2^31−1 is prime and 16807 is a primitive
root modulo it (Lucas test, `Proofs/PrimRoot.lean`), so the generator visits every valid state; every value below a loop's bound is
the scaled output of some state even where the product exceeds 2^53 (`Proofs/RandHit.lean`); and every loop is entered with an
acceptable value (choice list scan / pigeonhole on the column / k > 1; `Proofs/RfcTotal.lean`). -/
theorem C05_construction_total (rn : ℚ → ℚ) (h : RN53 rn) (g k r N1 seed : Nat) (hk : 1 ≤ k) (hr : 1 ≤ r)
    (hk30 : k < 2 ^ 30) (hr30 : r < 2 ^ 30) (ht30 : N1 * k < 2 ^ 30) (hN : N1 ≤ r) (h1 : 1 ≤ seed) (h2 : seed ≤ 2147483646) :
    (create rn g k r N1 seed).2.isSome = true :=
  RfcTotal.create_total rn (C05_goodRand rn h) (DrawTotalProof.drawTotal rn h) g k r N1 seed hk hr hk30 hr30 ht30 hN ⟨h1, h2⟩

-- non-vacuity: the hypotheses are met by an ordinary configuration (k = 1000, n−k = 500, N1 = 5, seed 1, exact arithmetic)
example : RN53 id ∧ (1 : ℕ) ≤ 1000 ∧ (1000 : ℕ) < 2 ^ 30 ∧ 5 * 1000 < 2 ^ 30 ∧ (5 : ℕ) ≤ 500 := ⟨RN53_id, by norm_num, by norm_num, by norm_num, by norm_num⟩
