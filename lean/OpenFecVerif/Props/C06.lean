import OpenFecVerif.Props.C02
/-!
# C06 — encoders emit the canonical codeword of the configured code
-/
open Finset

/-- evaluation points: 0, 1, x, x², … (x the class of the indeterminate, i.e. the element 2) -/
theorem C06_points (F : RS.Fld) (i : ℕ) : RS.pt F 0 = 0 ∧ RS.pt F (i + 1) = F.xpow i := by
  simp [RS.pt]

/-- GF(2^8) (codec 1 and codec 2 with m = 8 share this model, hence are byte-compatible): the generator
entry (r, i) is the i-th Lagrange basis polynomial on the points of the k source symbols evaluated at the
point of symbol r — i.e. row r of (Vandermonde rows) × (inverse of the top k×k Vandermonde matrix) — and the
codeword is the evaluation of the unique polynomial of degree < k through the source symbols. -/
theorem C06_rs_generator_gf8 (k r i : ℕ) (src : ℕ → GF8.GF256) :
    GF8.model.φ (RS.G RS.fld8 k r i) = (Lagrange.basis (range k) GF8.model.v i).eval (GF8.model.v r) ∧
    GF8.model.cwModel k src r = (Lagrange.interpolate (range k) GF8.model.v src).eval (GF8.model.v r) :=
  ⟨GF8.model.φ_G k r i, GF8.model.cwModel_eq k src r⟩

theorem C06_rs_generator_gf4 (k r i : ℕ) (src : ℕ → GF4.GF16) :
    GF4.model.φ (RS.G RS.fld4 k r i) = (Lagrange.basis (range k) GF4.model.v i).eval (GF4.model.v r) ∧
    GF4.model.cwModel k src r = (Lagrange.interpolate (range k) GF4.model.v src).eval (GF4.model.v r) :=
  ⟨GF4.model.φ_G k r i, GF4.model.cwModel_eq k src r⟩

/-- the generator is systematic: identity on the first k rows -/
theorem C06_rs_systematic_rows (k n : ℕ) (hk : k ≤ n) (hn : n ≤ 255) (src : ℕ → GF8.GF256) (i : ℕ) (hi : i < k) :
    GF8.model.cwModel k src i = src i := C02_systematic_gf8 k n hk hn src i hi

/-- both Reed-Solomon codecs over GF(2^8) use the same field model, both over GF(2^4) the other one -/
theorem C06_rs_compat : Api.fldOf 1 0 = Api.fldOf 2 8 ∧ Api.fldOf 2 4 = RS.fld4x := by
  simp [Api.fldOf]

variable {σ : Type}

/-- encoding never modifies the source entries of the application's table (session model) -/
theorem C06_src_untouched_model (IO : Api.SymIO σ) (s : Api.Session σ) (p : Api.Params) (cw : List σ) (esi : ℕ)
    (own : Bool) (i : ℕ) (hi : i < p.k) (hinit : (s.enc.get 0).isSome = true) :
    (Api.buildStep IO s p cw esi own).1.enc.get i = s.enc.get i := by
  unfold Api.buildStep
  have h0 : (s.enc.get 0).isNone = false := by
    cases h : s.enc.get 0 with
    | none => rw [h] at hinit; cases hinit
    | some x => rfl
  simp only [h0, Bool.false_eq_true, if_false]
  by_cases hr : (decide (p.k ≤ esi) && decide (esi < p.n)) = true
  · have hne : i ≠ esi := by
      simp only [Bool.and_eq_true, decide_eq_true_eq] at hr; omega
    simp only [hr, if_true]
    (repeat' split) <;> simp [TMap.get_set, hne]
  · simp only [hr, Bool.false_eq_true, if_false]
    (repeat' split) <;> simp_all

/-- a NULL output slot is recorded as library-allocated, an application slot as the application's -/
theorem C06_null_slot_model (IO : Api.SymIO σ) (s : Api.Session σ) (p : Api.Params) (cw : List σ) (esi : ℕ)
    (own : Bool) (h1 : p.k ≤ esi) (h2 : esi < p.n) :
    (Api.buildStep IO s p cw esi own).1.encLib.get esi = !own := by
  unfold Api.buildStep
  have hr : (decide (p.k ≤ esi) && decide (esi < p.n)) = true := by simp [h1, h2]
  simp only [hr, if_true]
  (repeat' split) <;> simp [TMap.get_set_same]

/-- **The Reed-Solomon encoder function of the model is the generator-matrix product** (one field position; both codecs over GF(2^8)
and the GF(2^4) codec, with the operations the executable model uses) -/
theorem C06_rs_encode_function (k : ℕ) (r : ℕ) :
    (∀ src : List GF8.GF256, src.length = k →
      RS.encode RS.fld8x GF8.modelx.fieldOps k src r = GF8.modelx.cwModel k (fun i => src.getD i 0) r) ∧
    (∀ src : List GF4.GF16, src.length = k →
      RS.encode RS.fld4x GF4.modelx.fieldOps k src r = GF4.modelx.cwModel k (fun i => src.getD i 0) r) :=
  ⟨fun src hs => GF8.modelx.encode_eq k src hs r, fun src hs => GF4.modelx.encode_eq k src hs r⟩
