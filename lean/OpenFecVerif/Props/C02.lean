import OpenFecVerif.Proofs.GF8.Model
import OpenFecVerif.Proofs.GF4.Model
import OpenFecVerif.Model.Api
import OpenFecVerif.Proofs.RSExec
import OpenFecVerif.Proofs.FldX
/-!
# C02 — both Reed-Solomon codecs are MDS

`RS.G`, `RS.basisAt`, `RS.pt` are the executable model's generator entries, interpolation
coefficients and evaluation points over the bit-level field operations (`RS.fld8` for codec 1 and
codec 2 with m = 8, `RS.fld4` for m = 4); the correspondence check compares them with the real
codecs' matrices and decoders.  `GF8.model` / `GF4.model` identify those operations with the fields
GF(2)[x]/(x^8+x^4+x^3+x^2+1) and GF(2)[x]/(x^4+x+1).
A block is `src : ℕ → F` (one field position of the k source symbols; symbols are vectors of such
positions and every operation acts position-wise).
-/
open Finset

/-- GF(2^8): decoding from ANY k distinct encoding symbols (ESIs `S`, in any order) of ANY block returns
every source symbol, for every 1 ≤ k ≤ n ≤ 255. -/
theorem C02_any_k_gf8 (k n : ℕ) (hk : k ≤ n) (hn : n ≤ 255) (src : ℕ → GF8.GF256)
    (S : List ℕ) (hnd : S.Nodup) (hS : ∀ s ∈ S, s < n) (hlen : S.length = k) (j : ℕ) (hj : j < k) :
    (S.map fun s => GF8.model.φ (RS.basisAt RS.fld8 S s (RS.pt RS.fld8 j)) * GF8.model.cwModel k src s).sum = src j :=
  GF8.model.decode_correct k n (by simpa [GF8.model] using hn) hk src S hnd hS hlen j hj

/-- GF(2^4): the same for every 1 ≤ k ≤ n ≤ 15. -/
theorem C02_any_k_gf4 (k n : ℕ) (hk : k ≤ n) (hn : n ≤ 15) (src : ℕ → GF4.GF16)
    (S : List ℕ) (hnd : S.Nodup) (hS : ∀ s ∈ S, s < n) (hlen : S.length = k) (j : ℕ) (hj : j < k) :
    (S.map fun s => GF4.model.φ (RS.basisAt RS.fld4 S s (RS.pt RS.fld4 j)) * GF4.model.cwModel k src s).sum = src j :=
  GF4.model.decode_correct k n (by simpa [GF4.model] using hn) hk src S hnd hS hlen j hj

/-- the code is systematic: the first k encoding symbols are the source symbols -/
theorem C02_systematic_gf8 (k n : ℕ) (hk : k ≤ n) (hn : n ≤ 255) (src : ℕ → GF8.GF256) (i : ℕ) (hi : i < k) :
    GF8.model.cwModel k src i = src i := by
  rw [GF8.model.cwModel_eq]
  exact RSA.cw_systematic k n _ (GF8.model.v_injOn n (by simpa [GF8.model] using hn)) hk src i hi

theorem C02_systematic_gf4 (k n : ℕ) (hk : k ≤ n) (hn : n ≤ 15) (src : ℕ → GF4.GF16) (i : ℕ) (hi : i < k) :
    GF4.model.cwModel k src i = src i := by
  rw [GF4.model.cwModel_eq]
  exact RSA.cw_systematic k n _ (GF4.model.v_injOn n (by simpa [GF4.model] using hn)) hk src i hi

/-- fewer than k symbols never determine a block: some non-zero message polynomial vanishes on all of them
(so a decoder that "completed" from them would be wrong for some data) -/
theorem C02_fewer_undetermined (k n : ℕ) (hk : k ≤ n) (hn : n ≤ 255) (s : Finset ℕ) (hs : s ⊆ range n) (hc : s.card < k) :
    ∃ p : Polynomial GF8.GF256, p ≠ 0 ∧ p.degree < k ∧ ∀ i ∈ s, p.eval (GF8.model.v i) = 0 :=
  RSA.not_determined k n _ (GF8.model.v_injOn n (by simpa [GF8.model] using hn)) hk s hs hc

/-- the session model: with fewer than k symbols registered, `of_finish_decoding` answers FAILURE and
changes nothing, and completion is not reported -/
theorem C02_fewer_failure {σ : Type} (IO : Api.SymIO σ) (s : Api.Session σ) (p : Api.Params)
    (hf : s.finished = false) (hlt : s.nbAvail < p.k) :
    (Api.rsFinish IO s p).1 = Api.Status.failure ∧ (Api.rsFinish IO s p).2.1.finished = false := by
  unfold Api.rsFinish
  simp [hf, hlt]

-- non-vacuity: a concrete instance of the hypotheses (k = 3, n = 6, S = [5, 1, 3])
example : (3 : ℕ) ≤ 6 ∧ (6 : ℕ) ≤ 255 ∧ ([5, 1, 3] : List ℕ).Nodup ∧ (∀ s ∈ ([5, 1, 3] : List ℕ), s < 6) ∧
    ([5, 1, 3] : List ℕ).length = 3 := by decide

/-! ### the executable model's field operations (`Proofs/FldX.lean`, `Proofs/RSExec.lean`) -/

/-- the field operations the executable session model uses (`Api.fldOf`: table look-ups) are faithful copies of GF(2^8) and GF(2^4) -/
theorem C02_executable_field_ops : (Api.fldOf 1 0 = RS.fld8x ∧ Api.fldOf 2 8 = RS.fld8x ∧ Api.fldOf 2 4 = RS.fld4x) ∧
    Nonempty (FieldModel GF8.GF256 RS.fld8x) ∧ Nonempty (FieldModel GF4.GF16 RS.fld4x) :=
  ⟨⟨rfl, rfl, rfl⟩, ⟨GF8.modelx⟩, ⟨GF4.modelx⟩⟩
