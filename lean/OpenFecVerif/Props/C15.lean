import OpenFecVerif.Proofs.LdpcEnc
/-!
# C15 — the "last repair symbol is null" claim of LDPC-Staircase is truthful
-/
open Api

/-- executable check of the column-weight condition behind the flag: every symbol but the last belongs
to an even number of equations and the last repair symbol to exactly one (evaluated by the model on every
matrix for which the flag is reported true) -/
def lastNullCheck (n : Nat) (H : List (List Nat)) : Bool :=
  (List.range (n - 1)).all (fun e => Parity.colWeight H e % 2 == 0) && Parity.colWeight H (n - 1) % 2 == 1

variable {V : Type} [AddCommGroup V]

/-- the flag as computed by the session model: no extra entries and N1 even — the same function of the
matrix construction for encoder and decoder sessions -/
theorem C15_flag_def (extra : Bool) (N1 : Nat) :
    ((!extra && N1 % 2 == 0) = true) ↔ (extra = false ∧ N1 % 2 = 0) := by
  cases extra <;> simp

/-- the sum of all parity-check equations counts every symbol as often as it occurs: Σ_rows Σ_{e∈row} cw e = Σ_e weight(e)·cw e -/
theorem C15_sum_of_equations (n : ℕ) (H : List (List ℕ)) (hnd : ∀ row ∈ H, row.Nodup)
    (hlt : ∀ row ∈ H, ∀ e ∈ row, e < n) (cw : ℕ → V) :
    (H.map fun row => (row.map cw).sum).sum = ∑ e ∈ Finset.range n, Parity.colWeight H e • cw e :=
  Parity.sum_rows_eq_sum_cols n H hnd hlt cw

/-- **Truthfulness.** For a staircase system whose column weights pass `lastNullCheck`, the encoder's last
repair symbol is zero for EVERY source block (symbols in any elementary abelian 2-group). -/
theorem C15_truthful (h2 : ∀ v : V, v + v = 0) (k : ℕ) (H : List (List ℕ)) (hr : 0 < H.length)
    (hst : LdpcEnc.Stair k H) (hlt : ∀ row ∈ H, ∀ e ∈ row, e < k + H.length)
    (hchk : lastNullCheck (k + H.length) H = true) (src : List V) (hs : src.length = k) :
    (ldpcEncode (grpOps V) k H src).getD (k + H.length - 1) 0 = 0 := by
  unfold lastNullCheck at hchk
  simp only [Bool.and_eq_true, List.all_eq_true, List.mem_range, beq_iff_eq] at hchk
  have hnd : ∀ row ∈ H, row.Nodup := by
    intro row hrow
    obtain ⟨i, hi, rfl⟩ := List.mem_iff_getElem.1 hrow
    have := hst.nodup i hi
    simpa [List.getD_eq_getElem?_getD, List.getElem?_eq_getElem hi] using this
  have hpar : ∀ row ∈ H, (row.map fun e => (ldpcEncode (grpOps V) k H src).getD e 0).sum = 0 := by
    intro row hrow
    obtain ⟨i, hi, rfl⟩ := List.mem_iff_getElem.1 hrow
    have := LdpcEnc.parity h2 k H hst src hs i hi
    simpa [List.getD_eq_getElem?_getD, List.getElem?_eq_getElem hi] using this
  exact Parity.last_symbol_zero h2 (k + H.length) (by omega) H hnd hlt
    (fun e => (ldpcEncode (grpOps V) k H src).getD e 0) hpar hchk.1 hchk.2

/-- encoder and decoder sessions configured alike report the same flag (the session model's answer does not
depend on the role) -/
theorem C15_same_for_both_roles {σ : Type} (IO : SymIO σ) (w : World σ) (sid : Nat) (s s' : Session σ)
    (h1 : w.ses.get sid = some s) (hc : s.codec = 3) (hp : s'.params = s.params) (he : s'.extra = s.extra) (hc' : s'.codec = 3)
    (ht : s'.twoD = s.twoD) :
    (step IO w (.ctrl sid "lastnull")).2 = (step IO { w with ses := w.ses.set sid (some s') } (.ctrl sid "lastnull")).2 := by
  cases htd : s.twoD <;> simp [step, h1, hc, hc', hp, he, ht, htd, TMap.get_set_same]

-- non-vacuity: k = 2, n = 6, N1 = 4: every source symbol is in all four equations; the check passes
example : lastNullCheck 6 [[0, 1, 2], [0, 1, 2, 3], [0, 1, 3, 4], [0, 1, 4, 5]] = true := by decide
