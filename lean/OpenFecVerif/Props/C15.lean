import OpenFecVerif.Proofs.LdpcEnc
import OpenFecVerif.Props.C05
import OpenFecVerif.Proofs.RfcWeights
import OpenFecVerif.Proofs.RoundTrip
/-!
# C15 — the "last repair symbol is null" claim of LDPC-Staircase is truthful
-/
open Api Rfc5170

/-- executable check of the column-weight condition behind the flag: every symbol but the last belongs
to an even number of equations and the last repair symbol to exactly one (evaluated by the model on every
matrix for which the flag is reported true) -/
def lastNullCheck (n : Nat) (H : List (List Nat)) : Bool :=
  (List.range (n - 1)).all (fun e => Parity.colWeight H e % 2 == 0) && Parity.colWeight H (n - 1) % 2 == 1

variable {V : Type} [AddCommGroup V]

/-- the flag as computed by the session model: no extra entries and N1 even — the same function of the
matrix construction for encoder and decoder sessions -/
theorem C15_flag_def (extra : Bool) (N1 : Nat) :
    ((!extra && N1 % 2 == 0) = true) ↔ (extra = false ∧ N1 % 2 = 0) := by
  cases extra <;> simp

/-- the sum of all parity-check equations counts every symbol as often as it occurs: Σ_rows Σ_{e∈row} cw e = Σ_e weight(e)·cw e -/
theorem C15_sum_of_equations (n : ℕ) (H : List (List ℕ)) (hnd : ∀ row ∈ H, row.Nodup)
    (hlt : ∀ row ∈ H, ∀ e ∈ row, e < n) (cw : ℕ → V) :
    (H.map fun row => (row.map cw).sum).sum = ∑ e ∈ Finset.range n, Parity.colWeight H e • cw e :=
  Parity.sum_rows_eq_sum_cols n H hnd hlt cw

/-- **Truthfulness.** For a staircase system whose column weights pass `lastNullCheck`, the encoder's last
repair symbol is zero for EVERY source block (symbols in any elementary abelian 2-group). -/
theorem C15_truthful (h2 : ∀ v : V, v + v = 0) (k : ℕ) (H : List (List ℕ)) (hr : 0 < H.length)
    (hst : LdpcEnc.Stair k H) (hlt : ∀ row ∈ H, ∀ e ∈ row, e < k + H.length)
    (hchk : lastNullCheck (k + H.length) H = true) (src : List V) (hs : src.length = k) :
    (ldpcEncode (grpOps V) k H src).getD (k + H.length - 1) 0 = 0 := by
  unfold lastNullCheck at hchk
  simp only [Bool.and_eq_true, List.all_eq_true, List.mem_range, beq_iff_eq] at hchk
  have hnd : ∀ row ∈ H, row.Nodup := by
    intro row hrow
    obtain ⟨i, hi, rfl⟩ := List.mem_iff_getElem.1 hrow
    have := hst.nodup i hi
    simpa [List.getD_eq_getElem?_getD, List.getElem?_eq_getElem hi] using this
  have hpar : ∀ row ∈ H, (row.map fun e => (ldpcEncode (grpOps V) k H src).getD e 0).sum = 0 := by
    intro row hrow
    obtain ⟨i, hi, rfl⟩ := List.mem_iff_getElem.1 hrow
    have := LdpcEnc.parity h2 k H hst src hs i hi
    simpa [List.getD_eq_getElem?_getD, List.getElem?_eq_getElem hi] using this
  exact Parity.last_symbol_zero h2 (k + H.length) (by omega) H hnd hlt
    (fun e => (ldpcEncode (grpOps V) k H src).getD e 0) hpar hchk.1 hchk.2

/-- encoder and decoder sessions configured alike report the same flag (the session model's answer does not
depend on the role) -/
theorem C15_same_for_both_roles {σ : Type} (IO : SymIO σ) (w : World σ) (sid : Nat) (s s' : Session σ)
    (h1 : w.ses.get sid = some s) (hc : s.codec = 3) (hp : s'.params = s.params) (he : s'.extra = s.extra) (hc' : s'.codec = 3)
    (ht : s'.twoD = s.twoD) :
    (step IO w (.ctrl sid "lastnull")).2 = (step IO { w with ses := w.ses.set sid (some s') } (.ctrl sid "lastnull")).2 := by
  cases htd : s.twoD <;> cases hpar : s.params <;> simp [step, h1, hc, hc', hp, he, ht, htd, hpar, TMap.get_set_same]

-- non-vacuity: k = 2, n = 6, N1 = 4: every source symbol is in all four equations; the check passes
example : lastNullCheck 6 [[0, 1, 2], [0, 1, 2, 3], [0, 1, 3, 4], [0, 1, 4, 5]] = true := by decide


/-- **The flag is truthful for every configuration.**  For every matrix the RFC 5170 construction returns without extra entries and
with N1 even — i.e. whenever `OF_CRTL_LDPC_STAIRCASE_IS_LAST_SYMBOL_NULL` is reported true — the column-weight condition holds: every
source column has N1 (even) entries, every repair column but the last has two, the last has one. -/
theorem C15_lastNullCheck_every_configuration (rn : ℚ → ℚ) (hrn : RN53 rn) (g k r N1 seed : Nat) (hk : 1 ≤ k) (hr : 1 ≤ r)
    (hk63 : k < 2 ^ 63) (hr63 : r < 2 ^ 63) (ht63 : N1 * k < 2 ^ 63) (h1 : 1 ≤ seed) (h2 : seed ≤ 2147483646) (g' : Nat) (M : Matrix)
    (h : create rn g k r N1 seed = (g', some M)) (hex : M.extra = false) (hN1 : N1 % 2 = 0) :
    lastNullCheck (k + r) M.rows = true := by
  obtain ⟨w1, w2⟩ := RfcWeights.create_weights rn (C05_goodRand rn hrn) g k r N1 seed hk hr hk63 hr63 ht63 ⟨h1, h2⟩ g' M h hex
  unfold lastNullCheck
  simp only [Bool.and_eq_true, List.all_eq_true, List.mem_range, beq_iff_eq]
  constructor
  · intro e he
    by_cases hek : e < k
    · rw [w1 e hek]; exact hN1
    · have : e = k + (e - k) := by omega
      rw [this, w2 (e - k) (by omega)]
      have : e - k + 1 < r := by omega
      simp [this]
  · have : k + r - 1 = k + (r - 1) := by omega
    rw [this, w2 (r - 1) (by omega)]
    have : ¬ (r - 1 + 1 < r) := by omega
    simp [this]

/-- … hence, for every accepted configuration for which the flag is true, the encoder's last repair symbol is zero for every source block
(no per-matrix check left): `C15_truthful` with its hypotheses discharged by the structure theorems of the construction. -/
theorem C15_truthful_every_configuration {V : Type} [AddCommGroup V] (hV : ∀ v : V, v + v = 0) (rn : ℚ → ℚ) (hrn : RN53 rn)
    (g k r N1 seed : Nat) (hk : 1 ≤ k) (hr : 1 ≤ r) (hk63 : k < 2 ^ 63) (hr63 : r < 2 ^ 63) (ht63 : N1 * k < 2 ^ 63)
    (h1 : 1 ≤ seed) (h2 : seed ≤ 2147483646) (g' : Nat) (M : Matrix) (h : create rn g k r N1 seed = (g', some M))
    (hex : M.extra = false) (hN1 : N1 % 2 = 0) (src : List V) (hs : src.length = k) :
    (ldpcEncode (grpOps V) k M.rows src).getD (k + r - 1) 0 = 0 := by
  obtain ⟨q1, q2, q3⟩ := RfcWF.create_wf rn (C05_goodRand rn hrn) g k r N1 seed hk hr hk63 hr63 ht63 ⟨h1, h2⟩ g' M h
  have hchk := C15_lastNullCheck_every_configuration rn hrn g k r N1 seed hk hr hk63 hr63 ht63 h1 h2 g' M h hex hN1
  have := C15_truthful hV k M.rows (by omega) (RoundTrip.stair_of_stairCheck k M.rows q3)
    (by intro row hrow e he; rw [q1]; exact (q2 row hrow).2.1 e he) (by rw [q1]; exact hchk) src hs
  rw [q1] at this
  exact this
