import OpenFecVerif.Model.Kernels
/-!
# C13 — symbol kernels are exact for every length, operand count and alignment

`Kern.*` are the kernel models with the code's loop structure (8-byte words / optional 4-byte step / byte tail;
16-byte rounds / byte tail; operands in groups of 8, 4, 2, 1); `ofmodel` runs them against the real kernels for
all sizes 0..80 (+ large ones), operand counts 0..20, 8×8 alignments and every field constant.  The theorems say
that this loop structure touches each of the first `size` bytes exactly once and nothing else, for EVERY size and
operand count, so that each kernel equals its byte-wise definition.  (Alignment does not occur in the model: the
model is a function of byte values only; that the C code is too is what the alignment sweep of the correspondence checks.)
-/
namespace Kern

/-- the XOR kernels' loops (64-bit words, optional 32-bit step, byte tail) cover offsets 0 … size−1, each once, in order -/
theorem C13_covered_eq (size : Nat) : covered size = List.range size := by
  unfold covered
  simp only []
  rw [List.range_eq_range']
  have h1 : List.range' 0 (8 * (size / 8)) ++ List.range' (8 * (size / 8)) (if 2 * (size / 8) < size / 4 then 4 else 0)
      = List.range' 0 (8 * (size / 8) + (if 2 * (size / 8) < size / 4 then 4 else 0)) := by
    have := List.range'_append_1 (s := 0) (m := 8 * (size / 8)) (n := if 2 * (size / 8) < size / 4 then 4 else 0)
    simpa using this
  rw [h1]
  have h2 := List.range'_append_1 (s := 0) (m := 8 * (size / 8) + (if 2 * (size / 8) < size / 4 then 4 else 0)) (n := size % 4)
  simp only [Nat.zero_add] at h2
  rw [h2]
  congr 1
  split <;> omega

/-- the multiply-accumulate kernels' loops (16-byte rounds, byte tail) cover offsets 0 … size−1, each once, in order -/
theorem C13_covered16_eq (size : Nat) : covered16 size = List.range size := by
  unfold covered16
  rw [List.range_eq_range']
  have := List.range'_append_1 (s := 0) (m := 16 * (size / 16)) (n := size % 16)
  simp only [Nat.zero_add] at this
  rw [this]
  congr 1
  omega

/-- the operand loop (8, 4, 2, 1 at a time) consumes every operand exactly once -/
theorem sum_replicate' (n a : Nat) : (List.replicate n a).sum = n * a := by
  induction n with
  | zero => simp
  | succ n ih => rw [List.replicate_succ, List.sum_cons, ih]; rw [Nat.succ_mul]; omega

theorem C13_groups_sum (count : Nat) : (groups count).sum = count := by
  unfold groups
  simp only [List.sum_append, sum_replicate']
  omega

theorem onOffsets_range (size : Nat) (f : Nat → Nat → Nat) (buf : List Nat) :
    onOffsets (List.range size) f buf = buf.zipIdx.map fun p => if p.2 < size then f p.2 p.1 else p.1 := by
  unfold onOffsets
  apply List.map_congr_left
  intro p _
  simp [List.contains_iff_mem, List.mem_range]

/-- of_add_to_symbol: out[i] = to[i] ⊕ from[i] for i < size, out[i] = to[i] beyond — for every size -/
theorem C13_xor1_spec (size : Nat) (to frm : List Nat) :
    xor1 size to frm = to.zipIdx.map fun p => if p.2 < size then p.1 ^^^ frm.getD p.2 0 else p.1 := by
  unfold xor1; rw [C13_covered_eq, onOffsets_range]

/-- multiply-accumulate by a GF(2^8) constant: out[i] = dst[i] ⊕ c·src[i] for i < size, untouched beyond -/
theorem C13_addmul8_spec (size c : Nat) (dst src : List Nat) :
    addmul8 size c dst src = dst.zipIdx.map fun p => if p.2 < size then p.1 ^^^ GF.mul8 c (src.getD p.2 0) else p.1 := by
  unfold addmul8; rw [C13_covered16_eq, onOffsets_range]

/-- packed GF(2^4): both nibbles of every byte are multiplied by c -/
theorem C13_addmul4c_spec (size c : Nat) (dst src : List Nat) :
    addmul4c size c dst src = dst.zipIdx.map fun p =>
      if p.2 < size then p.1 ^^^ (((GF.mul4 c (src.getD p.2 0 >>> 4)) <<< 4) ||| GF.mul4 c (src.getD p.2 0 &&& 15)) else p.1 := by
  unfold addmul4c; rw [C13_covered16_eq, onOffsets_range]; rfl

theorem C13_addmul4_spec (size c : Nat) (dst src : List Nat) :
    addmul4 size c dst src = dst.zipIdx.map fun p => if p.2 < size then p.1 ^^^ GF.mul4 c (src.getD p.2 0) else p.1 := by
  unfold addmul4; rw [C13_covered16_eq, onOffsets_range]

/-- non-interference: the result depends only on the first `size` bytes of the source operand, and keeps the length of the destination -/
theorem C13_noninterference (size : Nat) (to frm frm' : List Nat) (h : ∀ i, i < size → frm.getD i 0 = frm'.getD i 0) :
    xor1 size to frm = xor1 size to frm' ∧ (xor1 size to frm).length = to.length := by
  rw [C13_xor1_spec, C13_xor1_spec]
  constructor
  · apply List.map_congr_left
    intro p _
    by_cases hp : p.2 < size
    · simp only [hp, if_true]; rw [h p.2 hp]
    · simp only [hp, if_false]
  · simp

end Kern
