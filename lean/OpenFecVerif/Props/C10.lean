import OpenFecVerif.Model.Api
import OpenFecVerif.Proofs.LdpcFin
import OpenFecVerif.Proofs.PtrId
/-!
# C10 — status codes and queries tell the truth about decoding progress (session model)

Statements about `Api.rsFinish`, `Api.rsRecv`, `Api.ldpcFinish`, `Api.ldpcRecv`: the executable session
model that the correspondence check runs against the real library after every call.
-/
open Api

variable {σ : Type}

/-- Reed-Solomon: `of_finish_decoding` returns OK exactly when decoding is complete afterwards … -/
theorem C10_rs_finish_ok_iff (IO : SymIO σ) (s : Session σ) (p : Params) :
    (rsFinish IO s p).1 = Status.ok ↔ (rsFinish IO s p).2.1.finished = true := by
  unfold rsFinish
  by_cases h1 : s.finished = true
  · simp [h1]
  · have h1' : s.finished = false := by simpa using h1
    by_cases h2 : s.nbAvail < p.k
    · simp [h1', h2]
    · by_cases h3 : (s.nbAvailSrc == p.k) = true
      · simp [h1', h2, h3]
      · simp [h1', h2, h3, rsDecode]

/-- … and FAILURE exactly when it is not -/
theorem C10_rs_finish_failure_iff (IO : SymIO σ) (s : Session σ) (p : Params) :
    (rsFinish IO s p).1 = Status.failure ↔ (rsFinish IO s p).2.1.finished = false := by
  unfold rsFinish
  by_cases h1 : s.finished = true
  · simp [h1]
  · have h1' : s.finished = false := by simpa using h1
    by_cases h2 : s.nbAvail < p.k
    · simp [h1', h2]
    · by_cases h3 : (s.nbAvailSrc == p.k) = true
      · simp [h1', h2, h3]
      · simp [h1', h2, h3, rsDecode]

/-- completion never reverts: a finished Reed-Solomon session stays finished under every decoder call -/
theorem C10_rs_monotone (IO : SymIO σ) (s : Session σ) (p : Params) (esi j : Nat) (v : σ) (h : s.finished = true) :
    (rsRecv IO s p esi v j).2.1.finished = true ∧ (rsFinish IO s p).2.1.finished = true := by
  unfold rsRecv rsFinish
  simp [h]

theorem rsFinish_ok_of_ge (IO : SymIO σ) (s : Session σ) (p : Params) (hf : s.finished = false) (hge : p.k ≤ s.nbAvail) :
    (rsFinish IO s p).1 = Status.ok := by
  unfold rsFinish
  have : ¬ s.nbAvail < p.k := by omega
  simp only [hf, Bool.false_eq_true, if_false, this]
  split <;> rfl

/-- submissions return OK -/
theorem C10_rs_submit_ok (IO : SymIO σ) (s : Session σ) (p : Params) (esi j : Nat) (v : σ) :
    (rsRecv IO s p esi v j).1 = Status.ok := by
  unfold rsRecv
  by_cases h1 : s.finished = true
  · simp [h1]
  · have h1' : s.finished = false := by simpa using h1
    by_cases h2 : (s.avail.get esi).isSome = true
    · simp [h1', h2]
    · simp only [h1', Bool.false_eq_true, if_false, h2]
      by_cases h3 : ((if esi < p.k then s.nbAvailSrc + 1 else s.nbAvailSrc) == p.k) = true
      · simp only [h3, if_true]
      · simp only [h3, Bool.false_eq_true, if_false]
        by_cases h4 : s.nbAvail + 1 ≥ p.k
        · simp only [h4, if_true]
          exact rsFinish_ok_of_ge IO _ p rfl h4
        · simp only [h4, if_false]

/-- LDPC: `of_finish_decoding` on an already complete block returns OK and keeps it complete -/
theorem C10_ldpc_finish_complete_ok (IO : SymIO σ) (s : Session σ) (p : Params) (it : IT.St σ)
    (h : s.it = some it) (hc : it.complete = true) :
    (ldpcFinish IO s p).1 = Status.ok ∧ (ldpcFinish IO s p).2.1.it = some it := by
  unfold ldpcFinish
  simp [h, hc]

/-- LDPC submissions return OK on a configured session -/
theorem C10_ldpc_submit_ok (IO : SymIO σ) (s : Session σ) (p : Params) (it : IT.St σ) (esi j : Nat) (v : σ)
    (h : s.it = some it) : (ldpcRecv IO s p esi v j).1 = Status.ok := by
  unfold ldpcRecv
  simp [h, ldpcAfter]

/-- pointer identity (Reed-Solomon): a symbol submitted while its slot is empty and decoding is not finished is
stored with the application's own pointer (tag `app j`) -/
theorem C10_rs_pointer_identity (IO : SymIO σ) (s : Session σ) (p : Params) (esi j : Nat) (v : σ)
    (hf : s.finished = false) (he : s.avail.get esi = none) (hlt : s.nbAvail + 1 < p.k) :
    ((rsRecv IO s p esi v j).2.1.avail.get esi).map (·.prov) = some (Prov.app j) := by
  unfold rsRecv
  simp only [hf, Bool.false_eq_true, if_false, he, Option.isSome_none]
  have h1 : ¬ (s.nbAvail + 1 ≥ p.k) := by omega
  by_cases h2 : ((if esi < p.k then s.nbAvailSrc + 1 else s.nbAvailSrc) == p.k) = true
  · simp only [h2, if_true, TMap.get_set_same, Option.map_some]
  · simp only [h2, Bool.false_eq_true, if_false, h1, TMap.get_set_same, Option.map_some]


/-- **LDPC-Staircase / 2D: `of_finish_decoding` tells the truth.**  On a configured session (any state: before or after a previous
Gaussian elimination), the status is OK exactly when decoding is complete afterwards and FAILURE exactly when it is not, and a symbol
that was known stays known (completion never reverts).  No hypothesis on the matrix or on the symbol values. -/
theorem C10_ldpc_finish_truthful (IO : SymIO σ) (s : Session σ) (p : Params) (it : IT.St σ) (hit : s.it = some it) (hk : it.k = p.k) :
    ∃ it', (ldpcFinish IO s p).2.1.it = some it' ∧
      ((ldpcFinish IO s p).1 = Status.ok ↔ it'.complete = true) ∧
      ((ldpcFinish IO s p).1 = Status.failure ↔ it'.complete = false) ∧
      (∀ e, it.known e = true → it'.known e = true) := by
  obtain ⟨it', h1, h2, h3, h4, _⟩ := LdpcFin.ldpcFinish_truthful IO s p it hit hk
  exact ⟨it', h1, h2, h3, h4⟩


/-- **LDPC-Staircase / 2D: pointer identity.**  A source symbol submitted while still unknown is recorded — and from then on reported
by `of_get_source_symbols_tab` — with the very pointer the application supplied (`app j` = its j-th buffer for that ESI); and the record
of a symbol that is already known is not touched by any later submission or by `of_finish_decoding`. -/
theorem C10_ldpc_pointer_identity (IO : SymIO σ) (s : Session σ) (p : Params) (esi j : Nat) (v : σ) (it : IT.St σ) (hit : s.it = some it)
    (hcons : s.mlConsumed = false) (hrows : ITEvents.RowsLt p.n it) (hesi : esi < p.n) :
    (it.known esi = false → esi < p.k → (ldpcRecv IO s p esi v j).2.1.srcProv.get esi = some (Prov.app j)) ∧
    (∀ e, it.known e = true → (ldpcRecv IO s p esi v j).2.1.srcProv.get e = s.srcProv.get e) ∧
    (it.k = p.k → ∀ e, it.known e = true → (ldpcFinish IO s p).2.1.srcProv.get e = s.srcProv.get e) :=
  ⟨fun hf hk => PtrId.recv_fresh_identity IO s p esi j v it hit hcons hrows hesi hf hk,
   fun e he => PtrId.recv_known_stable IO s p esi j v it hit hcons hrows hesi e he,
   fun hk e he => PtrId.finish_known_stable IO s p it hit hk e he⟩
