import OpenFecVerif.Props.C04
import OpenFecVerif.Props.C03Session
import OpenFecVerif.Props.C01
import OpenFecVerif.Proofs.LdpcEnc
/-!
# C16 — 2D-parity codec: product-parity structure, sound and complete erasure recovery

`Parity2D.dims`/`Parity2D.rowsOf` (Model/Parity2D.lean) transcribe `of_create_2D_pchk_matrix` and
`of_fill_2D_pchk_matrix`; the session model runs codec 5 through the same iterative and ML decoder models as
LDPC-Staircase (the C code does the same).  The codec accepts only k ≤ 16, n ≤ 24, so "for every (k, n−k) the codec
accepts" is a finite quantifier: the structural statements are proved by kernel evaluation over the *whole* domain
(k ≤ 16, r ≤ 24 — 425 pairs, 20 of them accepted), the decoding statements by instantiating the general theorems
(C04: streaming decoding = peeling closure; LdpcEnc: the encoder satisfies every check) at these matrices.
-/
open Parity2D

/-- every accepted configuration is a product shape: k = D·L, r = D + L, with L ≤ ⌊√n⌋; and a configuration is accepted
exactly when such a shape exists (within the limits the codec advertises) -/
def acceptSpec (k r : Nat) : Bool :=
  decide (r < k + r) && (List.range 25).any fun d => 1 ≤ d && d * d ≤ k + r && k % d == 0 && d + k / d == r

def acceptAll : Bool := (List.range 17).all fun k => (List.range 25).all fun r =>
  ((dims k r).isSome == acceptSpec k r) &&
  (match dims k r with | none => true | some (D, L) => D * L == k && D + L == r && decide (L * L ≤ k + r))

theorem acceptAll_true : acceptAll = true := by decide +kernel

theorem C16_accept_iff (k r : Nat) (hk : k ≤ 16) (hr : r ≤ 24) :
    ((dims k r).isSome = acceptSpec k r) ∧ (∀ D L, dims k r = some (D, L) → D * L = k ∧ D + L = r ∧ L * L ≤ k + r) := by
  have h := acceptAll_true
  unfold acceptAll at h
  rw [List.all_eq_true] at h
  have h1 := h k (List.mem_range.mpr (by omega))
  rw [List.all_eq_true] at h1
  have h2 := h1 r (List.mem_range.mpr (by omega))
  simp only [Bool.and_eq_true, beq_iff_eq] at h2
  refine ⟨h2.1, ?_⟩
  intro D L hd
  rw [hd] at h2
  have h3 := h2.2
  simp only [Bool.and_eq_true, beq_iff_eq, decide_eq_true_eq] at h3
  exact ⟨h3.1.1, h3.1.2, h3.2⟩

/-- the product single-parity structure of a matrix with D row checks and L column checks -/
def productCheck (k D L : Nat) (H : List (List Nat)) : Bool :=
  H.length == D + L &&
  -- each source symbol belongs to exactly one row check and exactly one column check
  (List.range k).all (fun s => ((H.take D).filter (·.contains s)).length == 1 && ((H.drop D).filter (·.contains s)).length == 1) &&
  -- each check has its own repair symbol (ESI k + c) and holds no other repair symbol
  (List.range (D + L)).all (fun c => (H.getD c []).filter (· ≥ k) == [k + c]) &&
  -- row check i is row i of the D × L arrangement, column check c is column c
  (List.range D).all (fun i => (H.getD i []).filter (· < k) == (List.range L).map (fun j => i * L + j)) &&
  (List.range L).all (fun c => (H.getD (D + c) []).filter (· < k) == (List.range D).map (fun j => j * L + c))

/-- executable form of the hypotheses of the general theorems: well-formed, staircase-shaped (each check's own repair
symbol has the largest ESI of the check), every symbol in at least one check -/
def stairCheck (k : Nat) (H : List (List Nat)) : Bool :=
  (List.range H.length).all fun i =>
    decide (H.getD i []).Nodup && (H.getD i []).contains (k + i) && (H.getD i []).all (fun e => e == k + i || e < k + i)

def coverCheck (n : Nat) (H : List (List Nat)) : Bool := (List.range n).all fun e => H.any (·.contains e)

def productAll : Bool := (List.range 17).all fun k => (List.range 25).all fun r =>
  match dims k r with
  | none => true
  | some (D, L) => productCheck k D L (rowsOf k D L) && wfCheck (k + r) (rowsOf k D L) && stairCheck k (rowsOf k D L) &&
      coverCheck (k + r) (rowsOf k D L) && (rowsOf k D L).length == r

theorem productAll_true : productAll = true := by decide +kernel

/-- **for every configuration the codec accepts** the matrix is the D × L product single-parity code, is well formed,
staircase shaped, and covers every symbol -/
theorem C16_product (k r : Nat) (hk : k ≤ 16) (hr : r ≤ 24) (D L : Nat) (hd : dims k r = some (D, L)) :
    productCheck k D L (rowsOf k D L) = true ∧ wfCheck (k + r) (rowsOf k D L) = true ∧
    stairCheck k (rowsOf k D L) = true ∧ coverCheck (k + r) (rowsOf k D L) = true ∧ (rowsOf k D L).length = r := by
  have h := productAll_true
  unfold productAll at h
  rw [List.all_eq_true] at h
  have h1 := h k (List.mem_range.mpr (by omega))
  rw [List.all_eq_true] at h1
  have h2 := h1 r (List.mem_range.mpr (by omega))
  rw [hd] at h2
  simp only [Bool.and_eq_true, beq_iff_eq] at h2
  exact ⟨h2.1.1.1.1, h2.1.1.1.2, h2.1.1.2, h2.1.2, h2.2⟩

theorem stair_of_check (k : Nat) (H : List (List Nat)) (h : stairCheck k H = true) : LdpcEnc.Stair k H := by
  unfold stairCheck at h
  rw [List.all_eq_true] at h
  refine ⟨?_, ?_, ?_⟩
  · intro i hi
    have := h i (List.mem_range.mpr hi)
    simp only [Bool.and_eq_true, decide_eq_true_eq] at this
    exact this.1.1
  · intro i hi
    have := h i (List.mem_range.mpr hi)
    simp only [Bool.and_eq_true, decide_eq_true_eq, List.contains_iff_mem] at this
    simpa using this.1.2
  · intro i hi e he hne
    have := h i (List.mem_range.mpr hi)
    simp only [Bool.and_eq_true, List.all_eq_true, Bool.or_eq_true, beq_iff_eq, decide_eq_true_eq] at this
    rcases this.2 e he with h1 | h1
    · exact absurd h1 hne
    · exact h1

variable {V : Type} [AddCommGroup V]

/-- the encoder model satisfies every row check and every column check, for every accepted configuration and every
source block (symbols in any elementary abelian 2-group) -/
theorem C16_encoder_satisfies_checks (h2 : ∀ v : V, v + v = 0) (k r : Nat) (hk : k ≤ 16) (hr : r ≤ 24) (H : List (List Nat))
    (hH : rows k r = some H) (src : List V) (hs : src.length = k) (i : Nat) (hi : i < H.length) :
    ((H.getD i []).map fun e => (Api.ldpcEncode (grpOps V) k H src).getD e 0).sum = 0 := by
  unfold rows at hH
  cases hd : dims k r with
  | none => rw [hd] at hH; cases hH
  | some p =>
    obtain ⟨D, L⟩ := p
    have hp := C16_product k r hk hr D L hd
    rw [hd] at hH
    simp only [Option.map_some, Option.some.injEq] at hH
    subst hH
    exact LdpcEnc.parity h2 k _ (stair_of_check k _ hp.2.2.1) src hs i hi

open ITRefine ITAbs in
/-- any single loss is recovered by peeling: with every other symbol received, the lost one is in the closure -/
theorem C16_single_loss (n : Nat) (H : List (List Nat)) (hcov : coverCheck n H = true) (e : Nat) (he : e < n)
    (R : Nat → Prop) (hR : ∀ x, x < n → x ≠ e → R x) (hwf : wfCheck n H = true) : InClosure (Hf H) R e := by
  unfold coverCheck at hcov
  rw [List.all_eq_true] at hcov
  have := hcov e (List.mem_range.mpr he)
  rw [List.any_eq_true] at this
  obtain ⟨row, hrow, hmem⟩ := this
  obtain ⟨r, hr, rfl⟩ := List.getElem_of_mem hrow
  have hmem' : e ∈ Hf H r := by
    simp only [Hf, List.getD_eq_getElem?_getD, List.getElem?_eq_getElem hr, Option.getD_some]
    simpa using hmem
  have hlt := (wf_of_check n H hwf).lt
  exact inClosure_closed (Hf H) R r e hmem' (fun e' he' hne => inClosure_of_mem (Hf H) R e' (hR e' (hlt r e' he') hne))

open ITRefine ITAbs in
/-- the streaming decoder on a 2D matrix: sound, and exactly the peeling closure of what was received, for every accepted
configuration and every submission sequence (any order, duplicates) — C04 instantiated -/
theorem C16_decoder_is_closure {σ : Type} (O : Ops σ) (k r : Nat) (hk : k ≤ 16) (hr : r ≤ 24) (H : List (List Nat))
    (hH : rows k r = some H) (l : List (Nat × σ)) (hl : ∀ p ∈ l, p.1 < k + r) :
    let s := runExec O (k + r) k H l
    let R := fun x => x ∈ l.map (·.1)
    (∀ e, s.known e = true → InClosure (Hf H) R e) ∧
    (s.complete = true ↔ ∀ i, i < k → InClosure (Hf H) R i) ∧
    (∀ i, i < k → (s.known i = true ↔ InClosure (Hf H) R i)) := by
  unfold rows at hH
  cases hd : dims k r with
  | none => rw [hd] at hH; cases hH
  | some p =>
    obtain ⟨D, L⟩ := p
    have hp := C16_product k r hk hr D L hd
    rw [hd] at hH
    simp only [Option.map_some, Option.some.injEq] at hH
    subst hH
    have := C04_eq O (k + r) k _ hp.2.1 l hl
    exact ⟨this.1, this.2.2.1, this.2.2.2⟩

theorem wfh_of_wfCheck (n : Nat) (H : List (List Nat)) (h : wfCheck n H = true) : MLComplete.WFH H n := by
  unfold wfCheck at h
  rw [List.all_eq_true] at h
  intro row hrow
  have := h row hrow
  simp only [Bool.and_eq_true, List.all_eq_true, decide_eq_true_eq] at this
  exact ⟨this.2, this.1.1⟩

theorem stairCheck_eq (k : Nat) (H : List (List Nat)) : stairCheck k H = Api.stairCheck k H := rfl

/-- the structure of every accepted 2D configuration, in the form the decoder theorems need -/
theorem C16_structure (k r : Nat) (hk : k ≤ 16) (hr : r ≤ 24) (H : List (List Nat)) (hH : rows k r = some H) :
    H.length = r ∧ MLComplete.WFH H (k + r) ∧ Api.stairCheck k H = true := by
  unfold rows at hH
  cases hd : dims k r with
  | none => rw [hd] at hH; cases hH
  | some p =>
    obtain ⟨D, L⟩ := p
    have hp := C16_product k r hk hr D L hd
    rw [hd] at hH
    simp only [Option.map_some, Option.some.injEq] at hH
    subst hH
    exact ⟨hp.2.2.2.2, wfh_of_wfCheck _ _ hp.2.1, by rw [← stairCheck_eq]; exact hp.2.2.1⟩

/-- **2D parity: `of_finish_decoding` recovers every erasure pattern the checks determine uniquely, and only those** (C03's theorem
instantiated on every accepted product shape) -/
theorem C16_finish_ok_iff_determined {σ : Type} (IO : Api.SymIO σ) (s : Api.Session σ) (p : Api.Params) (it : IT.St σ)
    (hit : s.it = some it) (hcons : s.mlConsumed = false) (hk16 : p.k ≤ 16) (hr24 : p.r ≤ 24) (hH : rows p.k p.r = some s.H)
    (hk : it.k = p.k) :
    (Api.ldpcFinish IO s p).1 = Api.Status.ok ↔ MLComplete.SourcesDetermined s.H p.k (p.k + p.r) it.known := by
  obtain ⟨h1, h2, h3⟩ := C16_structure p.k p.r hk16 hr24 s.H hH
  exact C03_finish_ok_iff_determined IO s p it hit hcons h2 h3 h1 hk

/-- **2D parity never returns a wrong symbol**: with the encoder's output as the block, whatever is submitted (any subset, order,
duplicates, either API, with `of_finish_decoding`), every source symbol the decoder session holds is the one that was encoded -/
theorem C16_roundtrip {V : Type} [AddCommGroup V] (h2 : ∀ v : V, v + v = 0) (IO : Api.SymIO V) (p : Api.Params)
    (hops : IO.ops 3 p.m p.len = grpOps V) (s : Api.Session V) (it : IT.St V) (hit : s.it = some it) (hk16 : p.k ≤ 16) (hr24 : p.r ≤ 24)
    (hH : rows p.k p.r = some s.H) (src : List V) (hs : src.length = p.k)
    (inv : ITSound.VInv (grpOps V) (fun e => (Api.ldpcEncode (grpOps V) p.k s.H src).getD e 0) it) (ops : List MLSound.DecOp) :
    ∃ it', (MLSound.runDec IO p (fun e => (Api.ldpcEncode (grpOps V) p.k s.H src).getD e 0) s ops).it = some it' ∧
      ∀ e v, e < p.k → it'.sym.get e = some v → v = src.getD e 0 := by
  obtain ⟨h1, h2', h3⟩ := C16_structure p.k p.r hk16 hr24 s.H hH
  exact C01_ldpc_roundtrip h2 IO p hops s it hit h1 (by intro row hrow; rw [h1]; exact h2' row hrow) h3 src hs inv ops

-- non-vacuity: (k, r) = (6, 5) is accepted with D = 2 rows of L = 3
example : dims 6 5 = some (2, 3) ∧ rowsOf 6 2 3 = [[0, 1, 2, 6], [3, 4, 5, 7], [0, 3, 8], [1, 4, 9], [2, 5, 10]] := by
  constructor <;> decide +kernel
