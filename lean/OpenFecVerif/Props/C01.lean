import OpenFecVerif.Props.C02
import OpenFecVerif.Props.C03
import OpenFecVerif.Proofs.MLSound
import OpenFecVerif.Proofs.RoundTrip
/-!
# C01 — decoders never hand back a wrong source symbol

Reed-Solomon part: whatever k distinct symbols the decoder's selection rule picks, interpolation
returns the encoded source symbol (so a decoded symbol can only be right).

LDPC-Staircase / 2D part: `ITSound.VInv O sent it` is the invariant of the decoder state `it` w.r.t. the transmitted
block `sent` (every stored value is the transmitted one; every remaining equation has no repeated entry; the partial sum
of an equation is the sum of the transmitted values of its remaining entries).  It holds after configuration
(`C01_ldpc_configured`), is preserved by every submission of a true symbol through the iterative decoder — including the
recursive rebuilding of symbols — (`C01_it_sound`) and by `of_finish_decoding`, i.e. the simplification of the system, the
Gaussian elimination and the write-back (`C01_ldpc_session_sound`), for any sequence of calls.  Hypotheses: symbol addition
is XOR-like (`Gauss.Lawful`), and the transmitted block satisfies every parity-check equation of the session
(`MLSound.Codeword`) — which is what the encoder theorems of C06 establish.
-/

/-- RS over GF(2^8) (codec 1, codec 2 with m = 8): every decoded source position equals the encoded one -/
theorem C01_rs_sound_gf8 (k n : ℕ) (hk : k ≤ n) (hn : n ≤ 255) (src : ℕ → GF8.GF256)
    (S : List ℕ) (hnd : S.Nodup) (hS : ∀ s ∈ S, s < n) (hlen : S.length = k) (j : ℕ) (hj : j < k) :
    (S.map fun s => GF8.model.φ (RS.basisAt RS.fld8 S s (RS.pt RS.fld8 j)) * GF8.model.cwModel k src s).sum
      = GF8.model.cwModel k src j := by
  rw [C02_any_k_gf8 k n hk hn src S hnd hS hlen j hj, C02_systematic_gf8 k n hk hn src j hj]

/-- RS over GF(2^4) (codec 2 with m = 4) -/
theorem C01_rs_sound_gf4 (k n : ℕ) (hk : k ≤ n) (hn : n ≤ 15) (src : ℕ → GF4.GF16)
    (S : List ℕ) (hnd : S.Nodup) (hS : ∀ s ∈ S, s < n) (hlen : S.length = k) (j : ℕ) (hj : j < k) :
    (S.map fun s => GF4.model.φ (RS.basisAt RS.fld4 S s (RS.pt RS.fld4 j)) * GF4.model.cwModel k src s).sum
      = GF4.model.cwModel k src j := by
  rw [C02_any_k_gf4 k n hk hn src S hnd hS hlen j hj, C02_systematic_gf4 k n hk hn src j hj]


/-- LDPC-Staircase / 2D parity, Gaussian-elimination stage: the transmitted block restricted to the unknown symbols satisfies
every equation of the simplified system, so whatever the solver model returns IS the transmitted block (and it then satisfies
every equation, including those the elimination never uses) -/
theorem C01_ml_sound {σ : Type} {O : Ops σ} (hO : Gauss.Lawful O) (q : Nat) (rows : List (Gauss.Row σ)) (hw : Gauss.Wide q rows)
    (hlen : q ≤ rows.length) (xs : List σ) (h : Gauss.solve O q rows = some xs) (sent : List σ) (hx : sent.length = q)
    (hsat : ∀ r ∈ rows, Gauss.Sat O sent r) : xs = sent :=
  (C03_solve_sound hO q rows hw hlen xs h sent hx hsat).1

/-- **Iterative decoder, value level.**  Whatever sequence of transmitted symbols is submitted to the streaming decoder
(any order, duplicates, any prefix), every value it holds afterwards — received, or rebuilt from a partial sum by the
recursive peeling — is the transmitted one. -/
theorem C01_it_sound {σ : Type} {O : Ops σ} (hO : Gauss.Lawful O) (sent : Nat → σ) (n k : Nat) (Hl : List (List Nat))
    (hnd : ∀ row ∈ Hl, row.Nodup) (hcw : ∀ row ∈ Hl, ITSound.S O sent row = O.zero) (l : List Nat) (e : Nat) (v : σ)
    (h : (ITRefine.runExec O n k Hl (l.map fun e => (e, sent e))).sym.get e = some v) : v = sent e :=
  (ITSound.run_sound hO sent n k Hl hnd hcw l).sym_ok e v h

/-- the simplified system built by `of_finish_decoding` is satisfied by the transmitted values of the unknown symbols -/
theorem C01_simplify_sound {σ : Type} {O : Ops σ} (hO : Gauss.Lawful O) (sent : Nat → σ) (sym : Nat → Option σ)
    (hs : ∀ e v, sym e = some v → v = sent e) (k r : Nat) (row : List Nat) (hnd : row.Nodup)
    (hlt : ∀ e ∈ row, e < k + r) (hcw : ITSound.S O sent row = O.zero) :
    Gauss.Sat O ((MLSound.unknowns (fun e => (sym e).isSome) k r).map sent)
      (MLSound.sysRow O sym (MLSound.unknowns (fun e => (sym e).isSome) k r) row) :=
  MLSound.simplify_sat hO sent sym hs k r row hnd hlt hcw

/-- a freshly configured LDPC-Staircase session (encoder or decoder role, odd or even N1) satisfies the invariant -/
theorem C01_ldpc_configured {σ : Type} (IO : Api.SymIO σ) (g : Nat) (s : Api.Session σ) (p : Api.Params) (sent : Nat → σ)
    (hc : s.codec = 3) (hO : Gauss.Lawful (IO.ops 3 p.m p.len)) (g' : Nat) (s' : Api.Session σ)
    (h : Api.setParamsStd IO g s p = (g', .ok, s'))
    (hcw : MLSound.Codeword (IO.ops 3 p.m p.len) sent (p.k + p.r) s'.H)
    (hlast : s'.extra = false → p.N1 % 2 = 0 → sent (p.n - 1) = (IO.ops 3 p.m p.len).zero) :
    ∃ it, s'.it = some it ∧ ITSound.VInv (IO.ops 3 p.m p.len) sent it :=
  MLSound.setParams_sound IO g s p sent hc hO g' s' h hcw hlast

/-- **LDPC-Staircase / 2D decoder sessions never hold a wrong symbol**: after any sequence of `of_decode_with_new_symbol` /
`of_set_available_symbols` entries (any order, duplicates) and `of_finish_decoding` calls on the session model, every
stored symbol — in particular every non-NULL entry of `of_get_source_symbols_tab` — is the transmitted one. -/
theorem C01_ldpc_session_sound {σ : Type} (IO : Api.SymIO σ) (p : Api.Params) (sent : Nat → σ)
    (hO : Gauss.Lawful (IO.ops 3 p.m p.len)) (ops : List MLSound.DecOp) (s : Api.Session σ) (it : IT.St σ)
    (hit : s.it = some it) (inv : ITSound.VInv (IO.ops 3 p.m p.len) sent it)
    (hcw : MLSound.Codeword (IO.ops 3 p.m p.len) sent (p.k + p.r) s.H) :
    ∃ it', (MLSound.runDec IO p sent s ops).it = some it' ∧ ∀ e v, it'.sym.get e = some v → v = sent e := by
  obtain ⟨it', h1, h2⟩ := MLSound.runDec_sound IO p sent hO ops s it hit inv hcw
  exact ⟨it', h1, h2.sym_ok⟩

/-- **Round trip (encoder model + decoder model).**  For a staircase-shaped, duplicate-free system of equations (every matrix the RFC 5170
construction returns is one, `C05_matrix_wf`; every accepted 2D shape is one, C16), let the block be the encoder's output on `src`.  After
any sequence of submissions of symbols of that block (any subset, any order, duplicates, either API) and `of_finish_decoding` calls, every
source symbol the decoder session holds is the corresponding symbol of `src`.  `V` is any group in which every element is its own
opposite (byte strings of one length under XOR). -/
theorem C01_ldpc_roundtrip {V : Type} [AddCommGroup V] (h2 : ∀ v : V, v + v = 0) (IO : Api.SymIO V) (p : Api.Params)
    (hops : IO.ops 3 p.m p.len = grpOps V) (s : Api.Session V) (it : IT.St V) (hit : s.it = some it) (hHlen : s.H.length = p.r)
    (hwf : ∀ row ∈ s.H, row.Nodup ∧ ∀ e ∈ row, e < p.k + s.H.length) (hst : Api.stairCheck p.k s.H = true) (src : List V)
    (hs : src.length = p.k)
    (inv : ITSound.VInv (grpOps V) (fun e => (Api.ldpcEncode (grpOps V) p.k s.H src).getD e 0) it) (ops : List MLSound.DecOp) :
    ∃ it', (MLSound.runDec IO p (fun e => (Api.ldpcEncode (grpOps V) p.k s.H src).getD e 0) s ops).it = some it' ∧
      ∀ e v, e < p.k → it'.sym.get e = some v → v = src.getD e 0 :=
  RoundTrip.ldpc_roundtrip h2 IO p hops s it hit hHlen hwf hst src hs inv ops

-- non-vacuity: the byte-string XOR operations are lawful on symbols of one length is assumed (`Gauss.Lawful`); the invariant's
-- premises are met by a concrete block: equation [0,1,2] over Bool symbols with the block (true, true, false)
example : ITSound.S Gauss.boolOps (fun e => [true, true, false].getD e false) [0, 1, 2] = Gauss.boolOps.zero := by decide

/-! ### the executable Reed-Solomon decoder function (`RS.interpolate` as run by `Api.rsDecode`) -/

/-- **The Reed-Solomon decoder function of the model never returns a wrong symbol**: `RS.interpolate` applied to any k received symbols
with distinct ESIs below n ≤ 2^m − 1, each holding the codeword position of its ESI, returns the source position — GF(2^8) -/
theorem C01_rs_interpolate_sound_gf8 (k n : ℕ) (hk : k ≤ n) (hn : n ≤ 255) (src : ℕ → GF8.GF256) (recv : List (ℕ × GF8.GF256))
    (hnd : (recv.map (·.1)).Nodup) (hlt : ∀ p ∈ recv, p.1 < n) (hlen : recv.length = k)
    (hval : ∀ p ∈ recv, p.2 = GF8.modelx.cwModel k src p.1) (j : ℕ) (hj : j < k) :
    RS.interpolate RS.fld8x GF8.modelx.fieldOps recv j = src j :=
  GF8.modelx.interpolate_correct k n (by simpa [GF8.modelx] using hn) hk src recv hnd hlt hlen hval j hj

/-- … GF(2^4) -/
theorem C01_rs_interpolate_sound_gf4 (k n : ℕ) (hk : k ≤ n) (hn : n ≤ 15) (src : ℕ → GF4.GF16) (recv : List (ℕ × GF4.GF16))
    (hnd : (recv.map (·.1)).Nodup) (hlt : ∀ p ∈ recv, p.1 < n) (hlen : recv.length = k)
    (hval : ∀ p ∈ recv, p.2 = GF4.modelx.cwModel k src p.1) (j : ℕ) (hj : j < k) :
    RS.interpolate RS.fld4x GF4.modelx.fieldOps recv j = src j :=
  GF4.modelx.interpolate_correct k n (by simpa [GF4.modelx] using hn) hk src recv hnd hlt hlen hval j hj
